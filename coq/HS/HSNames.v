(* Server-name matching (HSModel.match_hostnames): a match means the same number of labels, so a wildcard stands for
   exactly one label. *)
From Coq Require Import List NArith Arith Bool Lia.
From GmsmVerif Require Import Lib.Outcome HS.HSTerms HS.HSModel.
Import ListNotations.
Local Open Scope N_scope.

Definition labels (s : list N) : list (list N) := split_dots (trim_dot (map lower_ascii s)) [].

Lemma labels_eqb_length : forall a b, labels_eqb a b = true -> length a = length b.
Proof.
  induction a as [|x a IH]; destruct b as [|y b]; cbn; intros H; try discriminate; [reflexivity|].
  apply andb_prop in H. destruct H as [_ H]. f_equal. apply IH. exact H.
Qed.

Lemma bytes_eqb_eq : forall a b, bytes_eqb a b = true -> a = b.
Proof.
  induction a as [|x a IH]; destruct b as [|y b]; cbn; intros H; try discriminate; [reflexivity|].
  apply andb_prop in H. destruct H as [H1 H2]. apply N.eqb_eq in H1. subst. f_equal. apply IH. exact H2.
Qed.

Lemma labels_eqb_eq : forall a b, labels_eqb a b = true -> a = b.
Proof.
  induction a as [|x a IH]; destruct b as [|y b]; cbn; intros H; try discriminate; [reflexivity|].
  apply andb_prop in H. destruct H as [H1 H2]. apply bytes_eqb_eq in H1. subst. f_equal. apply IH. exact H2.
Qed.

Lemma match_hostnames_labels : forall pattern host, match_hostnames pattern host = true ->
  exists p0 pr h0, labels pattern = p0 :: pr /\ labels host = h0 :: pr /\ (p0 = [42] \/ p0 = h0).
Proof.
  intros pattern host H. unfold match_hostnames in H. unfold labels.
  destruct (trim_dot (map lower_ascii pattern)) as [|pc pt] eqn:Ep; [discriminate|].
  destruct (trim_dot (map lower_ascii host)) as [|hc ht] eqn:Eh; [discriminate|].
  destruct (split_dots (pc :: pt) []) as [|p0 pr] eqn:Esp; [discriminate|].
  destruct (split_dots (hc :: ht) []) as [|h0 hr] eqn:Esh; [discriminate|].
  apply andb_prop in H. destruct H as [H0 Hr]. apply labels_eqb_eq in Hr. subst hr.
  exists p0, pr, h0. split; [reflexivity|]. split; [reflexivity|].
  apply orb_prop in H0. destruct H0 as [H0|H0]; apply bytes_eqb_eq in H0; auto.
Qed.
