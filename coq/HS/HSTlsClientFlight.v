(* Which delivered sequences let the standard-TLS client complete (handshake_client.go): ServerHello, Certificate,
   [CertificateStatus], [ServerKeyExchange], [CertificateRequest], ServerHelloDone, [NewSessionTicket], ChangeCipherSpec,
   Finished - or a resumption - with every check the code makes.  Same method as HSClientFlight.v; [client_tail]
   (from ServerHelloDone to the end) and [from_resumed] hold for both clients. *)
From Coq Require Import List NArith Arith Bool Lia.
From GmsmVerif Require Import Lib.Outcome HS.HSTerms HS.HSModel HS.HSProofs HS.HSClientFlight.
Import ListNotations.
Local Open Scope N_scope.

Definition cgood (r : sres) : Prop := r = SContinue \/ r = SComplete.
Ltac cbad Hr := let Hx := fresh in destruct Hr as [Hx|Hx]; discriminate Hx.

Lemma cgood_ne : forall r, cgood r -> r <> SError.
Proof. intros r [->| ->]; discriminate. Qed.

(* client_next, giving the result class instead of "not an error" *)
Lemma client_next_good : forall cfg st i l st', nowarn (i :: l) ->
  run (client_step cfg) st (i :: l) = RComplete st' ->
  exists st1 r, cgood r /\
    ((exists m, i = IHs m /\ cs_phase st <> CP_CCS /\ client_handshake_step cfg (cs_set_warn st 0) m = (st1, r)) \/
     (i = ICCS true /\ cs_phase st = CP_CCS /\ r = SContinue /\ st1 = cs_set_warn (cs_set_phase st CP_Finished) 0)) /\
    ((r = SContinue /\ run (client_step cfg) st1 l = RComplete st' /\ nowarn l) \/ (r = SComplete /\ st1 = st')).
Proof.
  intros cfg st i l st' Hnw H.
  destruct (client_next cfg st i l st' Hnw H) as [st1 [r [Hr [Hs Hn]]]].
  exists st1, r. split; [|split; assumption].
  destruct Hn as [[-> _]|[-> _]]; [left|right]; reflexivity.
Qed.

(* after ServerHelloDone, any client *)
Lemma client_second_flight_gen : forall cfg st st1 r, cgood r ->
  client_after_hello_done cfg st = (st1, r) ->
  exists pms ckxm master,
    r = SContinue /\ client_ckx cfg st = Ok (pms, ckxm) /\
    masterFromPreMasterSecret (cs_vers st) pms (TRand (c_rand cfg)) (sh_random_of st) = Ok master /\
    st1 = client_second_flight cfg st ckxm master.
Proof.
  intros cfg st st1 r Hr H. unfold client_after_hello_done in H.
  destruct (client_ckx cfg st) as [[pms ckxm]|e| |]; try (injection H as <- <-; cbad Hr).
  destruct (masterFromPreMasterSecret _ pms _ _) as [master|e| |] eqn:Em; try (injection H as <- <-; cbad Hr).
  injection H as <- <-. exists pms, ckxm, master. auto.
Qed.

(* the states in which a ServerHelloDone is processed *)
Definition shd_accepted (cfg : cconfig) (st : cstate) : Prop :=
  cs_phase st = CP_AfterSKX \/ cs_phase st = CP_HelloDone \/
  (c_gm cfg = false /\ (cs_phase st = CP_AfterCert \/ cs_phase st = CP_AfterStatus)).

Lemma shd_step : forall cfg st st1 r, shd_accepted cfg st -> cgood r ->
  client_handshake_step cfg st MServerHelloDone = (st1, r) -> client_after_hello_done cfg st = (st1, r).
Proof.
  intros cfg st st1 r Hs Hr H. unfold client_handshake_step in H.
  destruct Hs as [Hp|[Hp|[Hg [Hp|Hp]]]]; rewrite Hp in H; try rewrite Hg in H; exact H.
Qed.

Definition tail_ok (cfg : cconfig) (st : cstate) (l : list input) (st' : cstate) : Prop :=
  exists pms ckxm master nst vd rest,
    client_ckx cfg st = Ok (pms, ckxm) /\
    masterFromPreMasterSecret (cs_vers st) pms (TRand (c_rand cfg)) (sh_random_of st) = Ok master /\
    let tr3 := sf_tr2 cfg (cs_cert_req st) (cs_tr st) ckxm
               ++ [enc_hmsg (sf_fin cfg (cs_cert_req st) (cs_tr st) ckxm (cs_fp st) master)] in
    let tr4 := tr3 ++ (if sh_ticket_of st then [enc_hmsg (MNewSessionTicket nst)] else []) in
    l = (if sh_ticket_of st then [IHs (MNewSessionTicket nst)] else []) ++ [ICCS true; IHs (MFinished vd)] ++ rest /\
    vd = finished_sum (cs_fp st) master L_server_finished tr4 /\
    cs_master st' = master /\
    cs_tr st' = tr4 ++ [enc_hmsg (MFinished vd)] /\
    cs_out st' = cs_out st ++ map OHs (sf_cert cfg (cs_cert_req st)) ++ [OHs ckxm]
                 ++ map OHs (sf_cv cfg (cs_cert_req st) (sf_tr1 cfg (cs_cert_req st) (cs_tr st) ckxm))
                 ++ [OCCS; OHs (sf_fin cfg (cs_cert_req st) (cs_tr st) ckxm (cs_fp st) master)].

Lemma client_tail : forall cfg st l st', shd_accepted cfg st -> nowarn (IHs MServerHelloDone :: l) ->
  run (client_step cfg) st (IHs MServerHelloDone :: l) = RComplete st' -> tail_ok cfg st l st'.
Proof.
  intros cfg st l st' Hacc Hnw H. unfold tail_ok.
  destruct (client_next_good _ _ _ _ _ Hnw H) as [st1 [r1 [Hr1 [Hs1 Hn1]]]]. clear H Hnw.
  destruct Hs1 as [[m1 [Ei1 [_ Hs1]]]|[Hc _]]; [|discriminate]. injection Ei1 as <-.
  apply shd_step in Hs1; [|exact Hacc|exact Hr1].
  apply client_second_flight_gen in Hs1; [|exact Hr1].
  destruct Hs1 as [pms [ckxm [master [Er1 [Hckx [Hms Est1]]]]]]. subst r1.
  destruct Hn1 as [[_ [H Hnw]]|[Hc _]]; [|discriminate].
  rewrite client_second_flight_eq in Est1. csimp Est1.
  change (sh_ticket_of (cs_set_warn st 0)) with (sh_ticket_of st) in *.
  change (sh_random_of (cs_set_warn st 0)) with (sh_random_of st) in *.
  change (client_ckx cfg (cs_set_warn st 0)) with (client_ckx cfg st) in Hckx.
  csimp Hms.
  exists pms, ckxm, master.
  destruct (sh_ticket_of st) eqn:Etk; cbn iota in Est1; subst st1.
  - destruct l as [|i2 l]; [discriminate|].
    destruct (client_next _ _ _ _ _ Hnw H) as [st2 [r2 [Hr2 [Hs2 Hn2]]]]. clear H Hnw.
    destruct Hs2 as [[m2 [Ei2 [_ Hs2]]]|[_ [Hc _]]]; [|discriminate].
    apply gmc_ticket in Hs2; [|reflexivity|exact Hr2]. destruct Hs2 as [nst [Em2 [Er2 Est2]]]. subst i2 m2 r2.
    destruct Hn2 as [[_ [H Hnw]]|[Hc _]]; [|discriminate]. csimp Est2. subst st2.
    destruct l as [|i3 l]; [discriminate|].
    destruct (client_next _ _ _ _ _ Hnw H) as [st3 [r3 [Hr3 [Hs3 Hn3]]]]. clear H Hnw.
    destruct Hs3 as [[m3 [_ [Hc _]]]|[Ei3 [_ [Er3 Est3]]]]; [exfalso; apply Hc; reflexivity|]. subst i3 r3.
    destruct Hn3 as [[_ [H Hnw]]|[Hc _]]; [|discriminate]. csimp Est3. subst st3.
    destruct l as [|i4 l]; [discriminate|].
    destruct (client_next _ _ _ _ _ Hnw H) as [st4 [r4 [Hr4 [Hs4 Hn4]]]]. clear H Hnw.
    destruct Hs4 as [[m4 [Ei4 [_ Hs4]]]|[_ [Hc _]]]; [|discriminate].
    apply gmc_finished in Hs4; [|reflexivity|exact Hr4]. destruct Hs4 as [vd [Em4 [Er4 [Hvd Est4]]]]. subst i4 m4 r4.
    destruct Hn4 as [[Hc _]|[_ Est']]; [discriminate|]. csimp Est4. csimp Hvd. subst st4 st'.
    exists nst, vd, l. cbn zeta. repeat split; try reflexivity; try exact Hckx; try exact Hms; try exact Hvd.
  - destruct l as [|i3 l]; [discriminate|].
    destruct (client_next _ _ _ _ _ Hnw H) as [st3 [r3 [Hr3 [Hs3 Hn3]]]]. clear H Hnw.
    destruct Hs3 as [[m3 [_ [Hc _]]]|[Ei3 [_ [Er3 Est3]]]]; [exfalso; apply Hc; reflexivity|]. subst i3 r3.
    destruct Hn3 as [[_ [H Hnw]]|[Hc _]]; [|discriminate]. csimp Est3. subst st3.
    destruct l as [|i4 l]; [discriminate|].
    destruct (client_next _ _ _ _ _ Hnw H) as [st4 [r4 [Hr4 [Hs4 Hn4]]]]. clear H Hnw.
    destruct Hs4 as [[m4 [Ei4 [_ Hs4]]]|[_ [Hc _]]]; [|discriminate].
    apply gmc_finished in Hs4; [|reflexivity|exact Hr4]. destruct Hs4 as [vd [Em4 [Er4 [Hvd Est4]]]]. subst i4 m4 r4.
    destruct Hn4 as [[Hc _]|[_ Est']]; [discriminate|]. csimp Est4. csimp Hvd. subst st4 st'.
    exists TNil, vd, l. cbn zeta. rewrite !app_nil_r. repeat split; try reflexivity; try exact Hckx; try exact Hms; try exact Hvd.
Qed.

Lemma tail_ok_ext : forall cfg a b l st',
  cs_vers a = cs_vers b -> cs_fp a = cs_fp b -> cs_sh a = cs_sh b -> cs_kx a = cs_kx b -> cs_certs a = cs_certs b ->
  cs_skx a = cs_skx b -> cs_cert_req a = cs_cert_req b -> cs_tr a = cs_tr b -> cs_out a = cs_out b ->
  tail_ok cfg a l st' -> tail_ok cfg b l st'.
Proof.
  intros cfg a b l st' E1 E2 E3 E4 E5 E6 E7 E8 E9 H.
  unfold tail_ok, client_ckx, sh_random_of, sh_ticket_of in *.
  rewrite <- E1, <- E2, <- E3, <- E4, <- E5, <- E6, <- E7, <- E8, <- E9. exact H.
Qed.

(* the state just before ServerHelloDone: st extended by the optional CertificateStatus, ServerKeyExchange, CertificateRequest *)
Definition mid_state (st : cstate) (status : bool) (skx : option (term * term)) (req : bool) : cstate :=
  mkCS CP_HelloDone (cs_warn st) (cs_vers st) (cs_fp st) (cs_sh st) (cs_kx st) (cs_certs st)
       (match skx with Some (p, _) => Some p | None => cs_skx st end)
       (cs_cert_req st || req) false (cs_master st)
       (cs_tr st ++ (if status then [enc_hmsg MCertificateStatus] else [])
                 ++ (match skx with Some (p, s) => [enc_hmsg (MServerKeyExchange true p s)] | None => [] end)
                 ++ (if req then [enc_hmsg MCertificateRequest] else []))
       (cs_out st).

Definition mid_inputs (status : bool) (skx : option (term * term)) (req : bool) : list input :=
  (if status then [IHs MCertificateStatus] else [])
  ++ (match skx with Some (p, s) => [IHs (MServerKeyExchange true p s)] | None => [] end)
  ++ (if req then [IHs MCertificateRequest] else []).

(* the ServerKeyExchange check of the client, as in the model *)
Definition skx_check (cfg : cconfig) (st : cstate) (p sig : term) : bool :=
  let c0 := nth_cert 0 (cs_certs st) in
  let cr := TRand (c_rand cfg) in
  let sr := sh_random_of st in
  match cs_kx st with
  | KxECC => verify (cert_pub c0) sig (skx_payload cr sr (nth_cert 1 (cs_certs st)))
  | KxRSA => false
  | KxECDHE_GM => verify (cert_pub c0) sig (skx_payload cr sr p)
  | KxECDHE_RSA => (cert_kind c0 =? KIND_RSA) && verify (cert_pub c0) sig (skx_payload cr sr p)
  | KxECDHE_ECDSA => ((cert_kind c0 =? KIND_ECDSA) || (cert_kind c0 =? KIND_SM2)) && verify (cert_pub c0) sig (skx_payload cr sr p)
  end.

Ltac step_in H Hnw st1 r1 Hr1 Hs1 Hn1 :=
  destruct (client_next_good _ _ _ _ _ Hnw H) as [st1 [r1 [Hr1 [Hs1 Hn1]]]]; clear H Hnw.

(* phase HelloDone *)
Lemma from_hello_done : forall cfg st l st', cs_phase st = CP_HelloDone -> nowarn l ->
  run (client_step cfg) st l = RComplete st' ->
  exists l', l = IHs MServerHelloDone :: l' /\ tail_ok cfg st l' st'.
Proof.
  intros cfg st l st' Hph Hnw H. destruct l as [|i l]; [discriminate|].
  assert (Ei : i = IHs MServerHelloDone).
  { destruct (client_next _ _ _ _ _ Hnw H) as [st1 [r1 [Hr1 [Hs1 _]]]].
    destruct Hs1 as [[m [Ei [_ Hs1]]]|[_ [Hc _]]]; [|rewrite Hph in Hc; discriminate].
    apply gmc_hello_done in Hs1; [|exact Hph|exact Hr1]. destruct Hs1 as [-> _]. exact Ei. }
  subst i. exists l. split; [reflexivity|]. apply client_tail; [right; left; exact Hph|exact Hnw|exact H].
Qed.

(* phase AfterSKX: [CertificateRequest] ServerHelloDone *)
Lemma from_after_skx : forall cfg st l st', cs_phase st = CP_AfterSKX -> cs_cert_req st = false -> nowarn l ->
  run (client_step cfg) st l = RComplete st' ->
  exists req l', l = mid_inputs false None req ++ IHs MServerHelloDone :: l' /\ tail_ok cfg (mid_state st false None req) l' st'.
Proof.
  intros cfg st l st' Hph Hreq Hnw H. destruct l as [|i l]; [discriminate|].
  pose proof H as H0. pose proof Hnw as Hnw0.
  step_in H Hnw st1 r1 Hr1 Hs1 Hn1.
  destruct Hs1 as [[m [Ei [_ Hs1]]]|[_ [Hc _]]]; [|rewrite Hph in Hc; discriminate].
  apply gmc_after_skx in Hs1; [|exact Hph|apply cgood_ne; exact Hr1].
  destruct Hs1 as [[Em [Er Est1]]|[Em _]]; subst i m.
  - subst r1. destruct Hn1 as [[_ [H Hnw]]|[Hc _]]; [|discriminate]. csimp Est1. subst st1.
    apply from_hello_done in H; [|reflexivity|exact Hnw]. destruct H as [l' [El Ht]]. subst l.
    exists true, l'. split; [reflexivity|].
    eapply tail_ok_ext; [..|exact Ht]; cbn; rewrite ?app_nil_r, ?orb_true_r; reflexivity.
  - exists false, l. split; [reflexivity|].
    apply client_tail in H0; [|left; exact Hph|exact Hnw0].
    eapply tail_ok_ext; [..|exact H0]; cbn; rewrite ?app_nil_r, ?orb_false_r; try reflexivity.
Qed.

Lemma tlc_after_cert_or_status : forall cfg st m st1 r, c_gm cfg = false ->
  (cs_phase st = CP_AfterCert \/ cs_phase st = CP_AfterStatus) -> cgood r ->
  client_handshake_step cfg st m = (st1, r) ->
  (cs_phase st = CP_AfterCert /\ m = MCertificateStatus /\ sh_ocsp_of st = true /\ r = SContinue /\
   st1 = cs_set_phase (cs_add_tr st m) CP_AfterStatus) \/
  (exists p sig, m = MServerKeyExchange true p sig /\ skx_check cfg st p sig = true /\ r = SContinue /\
   st1 = mkCS CP_AfterSKX (cs_warn st) (cs_vers st) (cs_fp st) (cs_sh st) (cs_kx st) (cs_certs st) (Some p) false false
              (cs_master st) (cs_tr st ++ [enc_hmsg m]) (cs_out st)) \/
  (m = MCertificateRequest /\ r = SContinue /\
   st1 = mkCS CP_HelloDone (cs_warn st) (cs_vers st) (cs_fp st) (cs_sh st) (cs_kx st) (cs_certs st) (cs_skx st) true false
              (cs_master st) (cs_tr st ++ [enc_hmsg m]) (cs_out st)) \/
  (m = MServerHelloDone /\ client_after_hello_done cfg st = (st1, r)).
Proof.
  intros cfg st m st1 r Hgm Hph Hr H. unfold client_handshake_step in H.
  destruct Hph as [Hph|Hph]; rewrite Hph in H; destruct m; try (injection H as <- <-; cbad Hr); rewrite ?Hgm in H.
  - (* SKX after Certificate *)
    match type of H with (if ?c then _ else _) = _ => destruct c eqn:Ev end; [|injection H as <- <-; cbad Hr].
    injection H as <- <-. right. left.
    assert (El : len_ok = true) by (destruct (cs_kx st); destruct len_ok; try reflexivity; discriminate).
    subst len_ok. exists params, sig. unfold skx_check. repeat split; auto.
  - injection H as <- <-. right. right. left. auto.
  - right. right. right. auto.
  - destruct (negb (sh_ocsp_of st)) eqn:Eo; [injection H as <- <-; cbad Hr|].
    injection H as <- <-. left. apply negb_false_iff in Eo. auto.
  - match type of H with (if ?c then _ else _) = _ => destruct c eqn:Ev end; [|injection H as <- <-; cbad Hr].
    injection H as <- <-. right. left.
    assert (El : len_ok = true) by (destruct (cs_kx st); destruct len_ok; try reflexivity; discriminate).
    subst len_ok. exists params, sig. unfold skx_check. repeat split; auto.
  - injection H as <- <-. right. right. left. auto.
  - right. right. right. auto.
Qed.

(* phase AfterStatus of the TLS client: [ServerKeyExchange] [CertificateRequest] ServerHelloDone *)
Lemma from_after_status : forall cfg st l st', c_gm cfg = false -> cs_phase st = CP_AfterStatus ->
  cs_cert_req st = false -> cs_skx st = None -> nowarn l ->
  run (client_step cfg) st l = RComplete st' ->
  exists skx req l',
    l = mid_inputs false skx req ++ IHs MServerHelloDone :: l' /\
    (forall p s, skx = Some (p, s) -> skx_check cfg st p s = true) /\
    tail_ok cfg (mid_state st false skx req) l' st'.
Proof.
  intros cfg st l st' Hgm Hph Hreq Hskx Hnw H. destruct l as [|i l]; [discriminate|].
  pose proof H as H0. pose proof Hnw as Hnw0.
  step_in H Hnw st1 r1 Hr1 Hs1 Hn1.
  destruct Hs1 as [[m [Ei [_ Hs1]]]|[_ [Hc _]]]; [|rewrite Hph in Hc; discriminate].
  apply tlc_after_cert_or_status in Hs1; [|exact Hgm|right; exact Hph|exact Hr1].
  destruct Hs1 as [[Hc _]|[[p [sig [Em [Hchk [Er Est1]]]]]|[[Em [Er Est1]]|[Em _]]]]; [cbn in Hc; rewrite Hph in Hc; discriminate| | |].
  - subst i m r1. destruct Hn1 as [[_ [H Hnw]]|[Hc _]]; [|discriminate]. csimp Est1. csimp Hchk. subst st1.
    apply from_after_skx in H; [|reflexivity|reflexivity|exact Hnw]. destruct H as [req [l' [El Ht]]]. subst l.
    exists (Some (p, sig)), req, l'. split; [reflexivity|]. split.
    + intros p0 s0 E. injection E as <- <-. exact Hchk.
    + eapply tail_ok_ext; [..|exact Ht]; cbn; rewrite <- ?app_assoc; cbn; rewrite ?Hreq; reflexivity.
  - subst i m r1. destruct Hn1 as [[_ [H Hnw]]|[Hc _]]; [|discriminate]. csimp Est1. subst st1.
    apply from_hello_done in H; [|reflexivity|exact Hnw]. destruct H as [l' [El Ht]]. subst l.
    exists None, true, l'. split; [reflexivity|]. split; [intros p s E; discriminate|].
    eapply tail_ok_ext; [..|exact Ht]; cbn; rewrite ?orb_true_r; reflexivity.
  - subst i m. exists None, false, l. split; [reflexivity|]. split; [intros p s E; discriminate|].
    apply client_tail in H0; [|right; right; split; [exact Hgm|right; exact Hph]|exact Hnw0].
    eapply tail_ok_ext; [..|exact H0]; cbn; rewrite ?app_nil_r, ?orb_false_r; reflexivity.
Qed.

(* phase AfterCert of the TLS client: [CertificateStatus] [ServerKeyExchange] [CertificateRequest] ServerHelloDone *)
Lemma from_after_cert : forall cfg st l st', c_gm cfg = false -> cs_phase st = CP_AfterCert ->
  cs_cert_req st = false -> cs_skx st = None -> nowarn l ->
  run (client_step cfg) st l = RComplete st' ->
  exists status skx req l',
    l = mid_inputs status skx req ++ IHs MServerHelloDone :: l' /\
    (status = true -> sh_ocsp_of st = true) /\
    (forall p s, skx = Some (p, s) -> skx_check cfg st p s = true) /\
    tail_ok cfg (mid_state st status skx req) l' st'.
Proof.
  intros cfg st l st' Hgm Hph Hreq Hskx Hnw H. destruct l as [|i l]; [discriminate|].
  pose proof H as H0. pose proof Hnw as Hnw0.
  step_in H Hnw st1 r1 Hr1 Hs1 Hn1.
  destruct Hs1 as [[m [Ei [_ Hs1]]]|[_ [Hc _]]]; [|rewrite Hph in Hc; discriminate].
  apply tlc_after_cert_or_status in Hs1; [|exact Hgm|left; exact Hph|exact Hr1].
  destruct Hs1 as [[_ [Em [Hocsp [Er Est1]]]]|[[p [sig [Em [Hchk [Er Est1]]]]]|[[Em [Er Est1]]|[Em _]]]].
  - (* CertificateStatus *)
    subst i m r1. destruct Hn1 as [[_ [H Hnw]]|[Hc _]]; [|discriminate]. csimp Est1. csimp Hocsp.
    subst st1.
    apply from_after_status in H; [|exact Hgm|reflexivity|exact Hreq|exact Hskx|exact Hnw].
    destruct H as [skx [req [l' [El [Hchk Ht]]]]]. subst l.
    exists true, skx, req, l'. split; [reflexivity|]. split; [intros _; exact Hocsp|]. split.
    + intros p s E. specialize (Hchk p s E). unfold skx_check in *. cbn in Hchk. exact Hchk.
    + eapply tail_ok_ext; [..|exact Ht]; cbn; rewrite <- ?app_assoc; cbn; reflexivity.
  - subst i m r1. destruct Hn1 as [[_ [H Hnw]]|[Hc _]]; [|discriminate]. csimp Est1. csimp Hchk. subst st1.
    apply from_after_skx in H; [|reflexivity|reflexivity|exact Hnw]. destruct H as [req [l' [El Ht]]]. subst l.
    exists false, (Some (p, sig)), req, l'. split; [reflexivity|]. split; [intros Hc; discriminate|]. split.
    + intros p0 s0 E. injection E as <- <-. exact Hchk.
    + eapply tail_ok_ext; [..|exact Ht]; cbn; rewrite <- ?app_assoc; cbn; rewrite ?Hreq; reflexivity.
  - subst i m r1. destruct Hn1 as [[_ [H Hnw]]|[Hc _]]; [|discriminate]. csimp Est1. subst st1.
    apply from_hello_done in H; [|reflexivity|exact Hnw]. destruct H as [l' [El Ht]]. subst l.
    exists false, None, true, l'. split; [reflexivity|]. split; [intros Hc; discriminate|]. split; [intros p s E; discriminate|].
    eapply tail_ok_ext; [..|exact Ht]; cbn; rewrite ?orb_true_r; reflexivity.
  - subst i m. exists false, None, false, l. split; [reflexivity|]. split; [intros Hc; discriminate|].
    split; [intros p s E; discriminate|].
    apply client_tail in H0; [|right; right; split; [exact Hgm|left; exact Hph]|exact Hnw0].
    eapply tail_ok_ext; [..|exact H0]; cbn; rewrite ?app_nil_r, ?orb_false_r; reflexivity.
Qed.

Lemma tlc_server_hello : forall cfg st m st1 r, c_gm cfg = false -> cs_phase st = CP_ServerHello -> cgood r ->
  client_handshake_step cfg st m = (st1, r) ->
  exists sh v su resumed fp,
    m = MServerHello sh /\ r = SContinue /\
    mutualVersionMax false (c_maxv cfg) (sh_vers sh) = Some v /\ (v <? VersionTLS10) = false /\
    mutualCipherSuite cipherSuites (c_suites cfg) (sh_suite sh) = Some su /\
    processServerHello cfg sh su = Some resumed /\ prfForVersion v = Ok fp /\
    st1 = mkCS (if resumed then (if sh_ticket_supported sh then CP_Ticket else CP_CCS) else CP_Certificate)
               (cs_warn st) v fp (Some sh) (su_kx su) [] None false resumed
               (match c_session cfg with Some (_, _, ms) => if resumed then ms else TNil | None => TNil end)
               (cs_tr st ++ [enc_hmsg m]) (cs_out st).
Proof.
  intros cfg st m st1 r Hgm Hph Hr H. unfold client_handshake_step in H. rewrite Hph, Hgm in H.
  destruct m; try (injection H as <- <-; cbad Hr).
  destruct (mutualVersionMax false (c_maxv cfg) (sh_vers sh)) as [v|] eqn:Ev; [|injection H as <- <-; cbad Hr].
  destruct (v <? VersionTLS10) eqn:Ev10; [injection H as <- <-; cbad Hr|].
  destruct (mutualCipherSuite cipherSuites (c_suites cfg) (sh_suite sh)) as [su|] eqn:Esu; [|injection H as <- <-; cbad Hr].
  destruct (processServerHello cfg sh su) as [resumed|] eqn:Ep; [|injection H as <- <-; cbad Hr].
  destruct (prfForVersion v) as [fp|e| |] eqn:Efp; try (injection H as <- <-; cbad Hr).
  injection H as <- <-. exists sh, v, su, resumed, fp. repeat split; auto.
Qed.

Lemma tlc_certificate : forall cfg st m st1 r, c_gm cfg = false -> cs_phase st = CP_Certificate -> cgood r ->
  client_handshake_step cfg st m = (st1, r) ->
  exists c0 rest,
    m = MCertificate (c0 :: rest) /\ r = SContinue /\ forallb is_cert (c0 :: rest) = true /\
    (c_verify cfg = true -> tmem c0 (c_trusted cfg) = true) /\
    ((cert_kind c0 =? KIND_RSA) || (cert_kind c0 =? KIND_ECDSA) || (cert_kind c0 =? KIND_SM2)) = true /\
    st1 = mkCS CP_AfterCert (cs_warn st) (cs_vers st) (cs_fp st) (cs_sh st) (cs_kx st) (c0 :: rest) None false false
               (cs_master st) (cs_tr st ++ [enc_hmsg m]) (cs_out st).
Proof.
  intros cfg st m st1 r Hgm Hph Hr H. unfold client_handshake_step in H. rewrite Hph, Hgm in H.
  destruct m; try (injection H as <- <-; cbad Hr).
  destruct certs as [|c0 rest]; [injection H as <- <-; cbad Hr|].
  destruct (forallb is_cert (c0 :: rest)) eqn:E1; cbn [negb] in H; [|injection H as <- <-; cbad Hr].
  destruct (c_verify cfg && negb (tmem c0 (c_trusted cfg))) eqn:E2; [injection H as <- <-; cbad Hr|].
  destruct ((cert_kind c0 =? KIND_RSA) || (cert_kind c0 =? KIND_ECDSA) || (cert_kind c0 =? KIND_SM2)) eqn:E3;
    cbn [negb] in H; [|injection H as <- <-; cbad Hr].
  injection H as <- <-. exists c0, rest. repeat split; auto.
  intros Hv. rewrite Hv in E2. cbn in E2. apply negb_false_iff in E2. exact E2.
Qed.

(* a resumed handshake, any client: [NewSessionTicket] ChangeCipherSpec Finished *)
Definition resumed_tail_ok (st : cstate) (l : list input) (st' : cstate) : Prop :=
  exists nst vd rest,
    l = (if sh_ticket_of st then [IHs (MNewSessionTicket nst)] else []) ++ [ICCS true; IHs (MFinished vd)] ++ rest /\
    let tr := cs_tr st ++ (if sh_ticket_of st then [enc_hmsg (MNewSessionTicket nst)] else []) in
    vd = finished_sum (cs_fp st) (cs_master st) L_server_finished tr /\
    cs_master st' = cs_master st /\
    cs_out st' = cs_out st ++ [OCCS; OHs (MFinished (finished_sum (cs_fp st) (cs_master st) L_client_finished
                                                         (tr ++ [enc_hmsg (MFinished vd)])))].

Lemma from_resumed : forall cfg st l st', cs_resumed st = true ->
  cs_phase st = (if sh_ticket_of st then CP_Ticket else CP_CCS) -> nowarn l ->
  run (client_step cfg) st l = RComplete st' -> resumed_tail_ok st l st'.
Proof.
  intros cfg st l st' Hres Hph Hnw H. unfold resumed_tail_ok.
  assert (Etk : sh_ticket_of st = true \/ sh_ticket_of st = false) by (destruct (sh_ticket_of st); auto).
  destruct Etk as [Etk|Etk]; rewrite Etk in Hph.
  - destruct l as [|i2 l]; [discriminate|].
    destruct (client_next _ _ _ _ _ Hnw H) as [st2 [r2 [Hr2 [Hs2 Hn2]]]]. clear H Hnw.
    destruct Hs2 as [[m2 [Ei2 [_ Hs2]]]|[_ [Hc _]]]; [|rewrite Hph in Hc; discriminate].
    apply gmc_ticket in Hs2; [|exact Hph|exact Hr2]. destruct Hs2 as [nst [Em2 [Er2 Est2]]]. subst i2 m2 r2.
    destruct Hn2 as [[_ [H Hnw]]|[Hc _]]; [|discriminate]. subst st2.
    destruct l as [|i3 l]; [discriminate|].
    destruct (client_next _ _ _ _ _ Hnw H) as [st3 [r3 [Hr3 [Hs3 Hn3]]]]. clear H Hnw.
    destruct Hs3 as [[m3 [_ [Hc _]]]|[Ei3 [_ [Er3 Est3]]]]; [exfalso; apply Hc; reflexivity|]. subst i3 r3.
    destruct Hn3 as [[_ [H Hnw]]|[Hc _]]; [|discriminate]. subst st3.
    destruct l as [|i4 l]; [discriminate|].
    destruct (client_next _ _ _ _ _ Hnw H) as [st4 [r4 [Hr4 [Hs4 Hn4]]]]. clear H Hnw.
    destruct Hs4 as [[m4 [Ei4 [_ Hs4]]]|[_ [Hc _]]]; [|discriminate].
    apply gmc_finished in Hs4; [|reflexivity|exact Hr4]. destruct Hs4 as [vd [Em4 [Er4 [Hvd Est4]]]]. subst i4 m4 r4.
    destruct Hn4 as [[Hc _]|[_ Est']]; [discriminate|]. csimp Est4. csimp Hvd. rewrite Hres in Est4. subst st4 st'.
    exists nst, vd, l. rewrite Etk. cbn zeta. split; [reflexivity|]. split; [exact Hvd|].
    lazy [cs_master cs_out cs_send cs_send_ccs cs_add_tr cs_set_warn cs_set_phase cs_tr cs_fp].
    split; [reflexivity|]. rewrite <- app_assoc. reflexivity.
  - destruct l as [|i3 l]; [discriminate|].
    destruct (client_next _ _ _ _ _ Hnw H) as [st3 [r3 [Hr3 [Hs3 Hn3]]]]. clear H Hnw.
    destruct Hs3 as [[m3 [_ [Hc _]]]|[Ei3 [_ [Er3 Est3]]]]; [exfalso; apply Hc; exact Hph|]. subst i3 r3.
    destruct Hn3 as [[_ [H Hnw]]|[Hc _]]; [|discriminate]. subst st3.
    destruct l as [|i4 l]; [discriminate|].
    destruct (client_next _ _ _ _ _ Hnw H) as [st4 [r4 [Hr4 [Hs4 Hn4]]]]. clear H Hnw.
    destruct Hs4 as [[m4 [Ei4 [_ Hs4]]]|[_ [Hc _]]]; [|discriminate].
    apply gmc_finished in Hs4; [|reflexivity|exact Hr4]. destruct Hs4 as [vd [Em4 [Er4 [Hvd Est4]]]]. subst i4 m4 r4.
    destruct Hn4 as [[Hc _]|[_ Est']]; [discriminate|]. csimp Est4. csimp Hvd. rewrite Hres in Est4. subst st4 st'.
    exists TNil, vd, l. rewrite Etk. cbn zeta. rewrite !app_nil_r. split; [reflexivity|]. split; [exact Hvd|].
    lazy [cs_master cs_out cs_send cs_send_ccs cs_add_tr cs_set_warn cs_set_phase cs_tr cs_fp].
    split; [reflexivity|]. rewrite <- app_assoc. reflexivity.
Qed.

(* the TLS client's state when the server's Certificate has been accepted *)
Definition tls_after_cert (cfg : cconfig) (sh : server_hello) (v fp : N) (su : suite) (certs : list term) : cstate :=
  mkCS CP_AfterCert 0 v fp (Some sh) (su_kx su) certs None false false TNil
       [enc_hmsg (MClientHello (client_hello_of cfg)); enc_hmsg (MServerHello sh); enc_hmsg (MCertificate certs)]
       [OHs (MClientHello (client_hello_of cfg))].

Definition tls_client_flight_ok (cfg : cconfig) (l : list input) (st' : cstate) : Prop :=
  exists sh v su fp resumed l1,
    l = IHs (MServerHello sh) :: l1 /\
    (* pickTLSVersion, pickCipherSuite, processServerHello *)
    mutualVersionMax false (c_maxv cfg) (sh_vers sh) = Some v /\ (v <? VersionTLS10) = false /\
    mutualCipherSuite cipherSuites (c_suites cfg) (sh_suite sh) = Some su /\
    processServerHello cfg sh su = Some resumed /\ prfForVersion v = Ok fp /\
    if resumed then
      exists ms, (match c_session cfg with Some (_, _, m) => m | None => TNil end) = ms /\
      resumed_tail_ok
        (mkCS (if sh_ticket_supported sh then CP_Ticket else CP_CCS) 0 v fp (Some sh) (su_kx su) [] None false true ms
              [enc_hmsg (MClientHello (client_hello_of cfg)); enc_hmsg (MServerHello sh)]
              [OHs (MClientHello (client_hello_of cfg))]) l1 st'
    else
      exists c0 rest status skx req l2,
        let certs := c0 :: rest in
        let st2 := tls_after_cert cfg sh v fp su certs in
        l1 = IHs (MCertificate certs) :: mid_inputs status skx req ++ IHs MServerHelloDone :: l2 /\
        (* every certificate parses, the leaf is verified when verification is on and has a key type the client supports *)
        forallb is_cert certs = true /\
        (c_verify cfg = true -> tmem c0 (c_trusted cfg) = true) /\
        ((cert_kind c0 =? KIND_RSA) || (cert_kind c0 =? KIND_ECDSA) || (cert_kind c0 =? KIND_SM2)) = true /\
        (* CertificateStatus only when announced; a ServerKeyExchange must verify under the leaf over this session's randoms *)
        (status = true -> sh_ocsp sh = true) /\
        (forall p s, skx = Some (p, s) -> skx_check cfg st2 p s = true) /\
        (* ServerHelloDone .. Finished: the key exchange must be possible (RSA leaf for RSA suites, a ServerKeyExchange for
           ECDHE suites), then [NewSessionTicket], ChangeCipherSpec, Finished = PRF(master, "server finished", Hash(transcript)) *)
        tail_ok cfg (mid_state st2 status skx req) l2 st'.

Theorem tls_client_complete_flight : forall cfg l st', c_gm cfg = false -> nowarn l ->
  run (client_step cfg) (cs_set_warn (client_init cfg) 0) l = RComplete st' -> tls_client_flight_ok cfg l st'.
Proof.
  intros cfg l st' Hgm Hnw H. unfold tls_client_flight_ok.
  unfold client_init in H. rewrite Hgm in H. csimp H.
  destruct l as [|i1 l]; [discriminate|].
  step_in H Hnw st1 r1 Hr1 Hs1 Hn1.
  destruct Hs1 as [[m1 [Ei1 [_ Hs1]]]|[_ [Hc _]]]; [|discriminate].
  apply tlc_server_hello in Hs1; [|exact Hgm|reflexivity|exact Hr1].
  destruct Hs1 as [sh [v [su [resumed [fp [Em1 [Er1 [Hv [Hv10 [Hsu [Hpsh [Hfp Est1]]]]]]]]]]]].
  subst i1 m1 r1. destruct Hn1 as [[_ [H Hnw]]|[Hc _]]; [|discriminate]. csimp Est1.
  exists sh, v, su, fp, resumed, l. split; [reflexivity|].
  split; [exact Hv|]. split; [exact Hv10|]. split; [exact Hsu|]. split; [exact Hpsh|]. split; [exact Hfp|].
  destruct resumed.
  - (* resumption *)
    assert (Hsess : exists t ss ms, c_session cfg = Some (t, ss, ms)).
    { unfold processServerHello in Hpsh.
      repeat match type of Hpsh with (if ?c then _ else _) = _ => destruct c; try discriminate end.
      destruct (c_session cfg) as [[[t ss] ms]|]; [eauto|discriminate]. }
    destruct Hsess as [t [ss [ms Hsess]]]. rewrite Hsess in Est1 |- *. cbn iota in Est1. subst st1.
    exists ms. split; [reflexivity|].
    eapply from_resumed; [reflexivity| |exact Hnw|exact H]. reflexivity.
  - (* full handshake *)
    assert (Em : match c_session cfg with Some (_, _, _) | _ => TNil end = TNil) by (destruct (c_session cfg) as [[[? ?] ?]|]; reflexivity).
    rewrite Em in Est1. cbn iota in Est1. subst st1.
    destruct l as [|i2 l]; [discriminate|].
    step_in H Hnw st2 r2 Hr2 Hs2 Hn2.
    destruct Hs2 as [[m2 [Ei2 [_ Hs2]]]|[_ [Hc _]]]; [|discriminate].
    apply tlc_certificate in Hs2; [|exact Hgm|reflexivity|exact Hr2].
    destruct Hs2 as [c0 [rest [Em2 [Er2 [Hparse [Htrust [Hkind Est2]]]]]]]. subst i2 m2 r2.
    destruct Hn2 as [[_ [H Hnw]]|[Hc _]]; [|discriminate]. csimp Est2. subst st2.
    apply from_after_cert in H; [|exact Hgm|reflexivity|reflexivity|reflexivity|exact Hnw].
    destruct H as [status [skx [req [l2 [El [Hst [Hskx Htail]]]]]]]. subst l.
    exists c0, rest, status, skx, req, l2. cbn zeta.
    split; [reflexivity|]. split; [exact Hparse|]. split; [exact Htrust|]. split; [exact Hkind|].
    split; [exact Hst|]. split.
    + intros p s E. exact (Hskx p s E).
    + exact Htail.
Qed.
