(* The tables and constants the handshake models use are the ones in /repo's source NOW: Gen/HSTables.v is
   regenerated from gmtls/cipher_suites.go, gm_support.go, common.go by the translator (target hstables) on every
   check, and this file is re-proved against it. *)
From Coq Require Import List NArith Bool.
From GmsmVerif Require Import Lib.Outcome HS.HSTerms HS.HSModel HS.HSParsers Gen.HSTables.
Import ListNotations.
Local Open Scope N_scope.

Definition kx_of_code (ka : N) : kx :=
  match ka with 0 => KxECC | 1 => KxECDHE_GM | 2 => KxRSA | 3 => KxECDHE_RSA | _ => KxECDHE_ECDSA end.

Definition suite_of_row (r : list N) : suite :=
  match r with
  | [id; ka; fl] => mkSuite id (kx_of_code ka) (negb (N.land fl gen_suiteTLS12 =? 0))
  | _ => mkSuite 0 KxECC false
  end.

(* the model reads "ECDHE" / "ECDSA certificate" off the key agreement; the Go code reads the flag bits: same thing on
   every table row *)
Definition row_flags_consistent (r : list N) : bool :=
  match r with
  | [id; ka; fl] =>
      Bool.eqb (is_ecdhe (kx_of_code ka)) (negb (N.land fl gen_suiteECDHE =? 0)) &&
      Bool.eqb (match kx_of_code ka with KxECDHE_ECDSA | KxECC | KxECDHE_GM => true | _ => false end)
               (negb (N.land fl gen_suiteECDSA =? 0))
  | _ => false
  end.

Definition default_off (r : list N) : bool :=
  match r with [_; _; fl] => negb (N.land fl gen_suiteDefaultOff =? 0) | _ => true end.
Definition row_id (r : list N) : N := match r with id :: _ => id | [] => 0 end.

(* initDefaultCipherSuites: the top suites, then every table entry that is not default-off and not yet listed *)
Definition default_tls_from_table : list N :=
  gen_top_suites ++
  map row_id (filter (fun r => negb (default_off r) && negb (mem (row_id r) gen_top_suites)) gen_cipherSuites).

Lemma tables_match_source :
  gmCipherSuites = map suite_of_row gen_gmCipherSuites /\
  cipherSuites = map suite_of_row gen_cipherSuites /\
  forallb row_flags_consistent (gen_gmCipherSuites ++ gen_cipherSuites) = true /\
  default_gm_suite_ids = gen_gm_default_suites /\
  default_tls_suite_ids = default_tls_from_table /\
  (VersionGMSSL, VersionSSL30, VersionTLS10, VersionTLS11, VersionTLS12, minVersion, maxVersion, TLS_FALLBACK_SCSV)
    = (gen_VersionGMSSL, gen_VersionSSL30, gen_VersionTLS10, gen_VersionTLS11, gen_VersionTLS12, gen_minVersion,
       gen_maxVersion, gen_TLS_FALLBACK_SCSV) /\
  (maxHandshake, maxPlaintext, N.of_nat maxWarnAlertCount) = (gen_maxHandshake, gen_maxPlaintext, gen_maxWarnAlertCount).
Proof. vm_compute. repeat split; reflexivity. Qed.
