(* C08: what a completed handshake proves about the peer.  Built on the honest-flight characterisations of
   HSClientFlight.v / HSServerFlight.v: [client_complete_requires], [server_complete_requires] (with the ClientAuth
   policy table), a Dolev-Yao network attacker with [authentication], and [agreement]. *)
From Coq Require Import List NArith Arith Bool Lia.
From GmsmVerif Require Import Lib.Outcome HS.HSTerms HS.HSModel HS.HSProofs HS.HSClientFlight HS.HSServerFlight.
Import ListNotations.
Local Open Scope N_scope.

(* ---- client ------------------------------------------------------------------------------------ *)
Definition ecc_only (cfg : cconfig) : Prop := forall id, In id (c_suites cfg) -> id = 57363 \/ id = 57427.

Lemma mem_In : forall x l, mem x l = true -> In x l.
Proof.
  intros x l H. unfold mem in H. apply existsb_exists in H. destruct H as [y [Hy E]]. apply N.eqb_eq in E. subst. exact Hy.
Qed.

Lemma ecc_only_kx : forall cfg want su, ecc_only cfg ->
  mutualCipherSuite gmCipherSuites (c_suites cfg) want = Some su -> su_kx su = KxECC.
Proof.
  intros cfg want su He H. unfold mutualCipherSuite in H. destruct (mem want (c_suites cfg)) eqn:Em; [|discriminate].
  apply mem_In in Em. destruct (He _ Em) as [->| ->]; cbn in H; injection H as <-; reflexivity.
Qed.

Lemma In_strip : forall i ins, In i (strip ins) -> In i ins.
Proof. intros i ins H. unfold strip in H. apply filter_In in H. apply H. Qed.

Lemma no_session_not_resumed : forall cfg sh su b, c_session cfg = None -> processServerHello cfg sh su = Some b -> b = false.
Proof.
  intros cfg sh su b Hs H. unfold processServerHello in H. rewrite Hs in H.
  repeat match type of H with (if ?c then _ else _) = _ => destruct c; try discriminate end.
  injection H as <-. reflexivity.
Qed.

(* gm_cert_checks at positions 0 and 1 *)
Lemma gm_cert_checks_01 : forall certs, (2 <= length certs)%nat -> gm_cert_checks 0 certs = true ->
  let c0 := nth_cert 0 certs in let c1 := nth_cert 1 certs in
  is_cert c0 = true /\ cert_kind c0 = KIND_SM2 /\ N.land (cert_ku c0) KU_SIGN <> 0 /\
  is_cert c1 = true /\ cert_kind c1 = KIND_SM2 /\ N.land (cert_ku c1) KU_ENC <> 0.
Proof.
  intros certs Hl H. destruct certs as [|c0 [|c1 r]]; cbn in Hl; try lia.
  cbn [gm_cert_checks] in H.
  repeat (apply andb_prop in H; destruct H as [H ?]).
  repeat match goal with Hx : _ && _ = true |- _ => apply andb_prop in Hx; destruct Hx end.
  cbn. repeat split; auto;
    repeat match goal with
           | Hx : (_ =? _) = true |- _ => apply N.eqb_eq in Hx
           | Hx : negb (_ =? 0) = true |- _ => apply negb_true_iff in Hx; apply N.eqb_neq in Hx
           end; auto.
Qed.

Definition client_requirements (cfg : cconfig) (ins : list input) (st' : cstate) : Prop :=
  exists sh certs p sig vd,
    In (IHs (MServerHello sh)) ins /\ In (IHs (MCertificate certs)) ins /\
    In (IHs (MServerKeyExchange true p sig)) ins /\ In (IHs (MFinished vd)) ins /\
    let c0 := nth_cert 0 certs in
    let c1 := nth_cert 1 certs in
    let cr := TRand (c_rand cfg) in
    let sr := sh_random sh in
    let pms := TPMS (c_pms cfg) in
    let master := TPRF pms (TPair L_master (TLabel 0)) (TPair cr sr) in
    (* (i) at least two certificates, both SM2, signing / encryption key usage *)
    (2 <= length certs)%nat /\
    (is_cert c0 = true /\ cert_kind c0 = KIND_SM2 /\ N.land (cert_ku c0) KU_SIGN <> 0 /\
     is_cert c1 = true /\ cert_kind c1 = KIND_SM2 /\ N.land (cert_ku c1) KU_ENC <> 0) /\
    (* (ii) Verify returned a chain for both, at the configured time and name *)
    (tmem c0 (c_trusted cfg) = true /\ tmem c1 (c_trusted cfg) = true) /\
    (* (iii) the ServerKeyExchange signature verifies under certificate 0 over THIS session's randoms and certificate 1 *)
    verify (cert_pub c0) sig (skx_payload cr sr c1) = true /\
    (* (iv) the pre-master secret went out encrypted to certificate 1's key, and nowhere else *)
    In (OHs (MClientKeyExchange true (TEnc (cert_pub c1) pms))) (cs_out st') /\
    (* (v) the Finished received is PRF(master, "server finished", Hash(transcript of this session)) *)
    cs_master st' = master /\
    exists tr_rest,
      let tr := [enc_hmsg (MClientHello (client_hello_of cfg)); enc_hmsg (MServerHello sh); enc_hmsg (MCertificate certs);
                 enc_hmsg (MServerKeyExchange true p sig)] ++ tr_rest in
      vd = finished_sum 0 master L_server_finished tr /\ cs_tr st' = tr ++ [enc_hmsg (MFinished vd)].

Theorem client_complete_requires : forall cfg ins st',
  c_gm cfg = true -> c_verify cfg = true -> ecc_only cfg -> c_session cfg = None ->
  client_run cfg ins = RComplete st' -> client_requirements cfg ins st'.
Proof.
  intros cfg ins st' Hgm Hvf Hecc Hsess H.
  assert (Hf : (exists f rest, strip ins = gm_flight_inputs f ++ rest /\ gm_full_flight_ok cfg f st') \/
               (exists sh nst vd rest, strip ins = gm_resumed_inputs sh nst vd ++ rest /\ gm_resumed_ok cfg sh nst vd st')).
  { apply gm_client_complete_flight; [exact Hgm|apply nowarn_strip|].
    eapply client_run_strip; [exact H|reflexivity]. }
  destruct Hf as [[f [rest [El Hok]]]|[sh [nst [vd [rest [El Hok]]]]]].
  2:{ (* resumption needs a cached session *)
      destruct Hok as [su [t [ss [ms [Hs _]]]]]. rewrite Hsess in Hs. discriminate. }
  destruct f as [sh certs p sig req nst vd].
  unfold gm_full_flight_ok in Hok. cbn [gf_sh gf_certs gf_params gf_sig gf_req gf_nst gf_vd] in Hok.
  destruct Hok as [su [pms [ckxm [Hv [Hsu [Hpsh [Hlen [Hchk [Htrust [Hkx Hrest]]]]]]]]]].
  pose proof (ecc_only_kx cfg _ su Hecc Hsu) as Hecc'.
  destruct Hkx as [[_ [Hsig [Epms Eckx]]]|[Hk _]]; [|rewrite Hecc' in Hk; discriminate].
  subst pms ckxm. cbn zeta in Hrest. destruct Hrest as [Hvd [Hms [Htr Hout]]].
  unfold gm_flight_inputs in El. cbn [gf_sh gf_certs gf_params gf_sig gf_req gf_nst gf_vd] in El.
  assert (Hin : forall i, In i (gm_flight_inputs (mkGF sh certs p sig req nst vd)) -> In i ins).
  { intros i Hi. apply In_strip. unfold gm_flight_inputs in Hi.
    cbn [gf_sh gf_certs gf_params gf_sig gf_req gf_nst gf_vd] in Hi. rewrite El. apply in_or_app. left. exact Hi. }
  exists sh, certs, p, sig, vd.
  split; [apply Hin; unfold gm_flight_inputs; cbn; auto|].
  split; [apply Hin; unfold gm_flight_inputs; cbn; auto|].
  split; [apply Hin; unfold gm_flight_inputs; cbn; auto|].
  split. { apply Hin. unfold gm_flight_inputs. cbn [gf_sh gf_certs gf_params gf_sig gf_req gf_nst gf_vd].
           apply in_or_app. right. apply in_or_app. right. apply in_or_app. right. apply in_or_app. right. cbn. auto. }
  cbn zeta. split; [exact Hlen|]. split; [apply gm_cert_checks_01; assumption|].
  split; [apply Htrust; exact Hvf|]. split; [exact Hsig|].
  split. { rewrite Hout. unfold gm_out_final. apply in_or_app. right. apply in_or_app. right. apply in_or_app. left. cbn. auto. }
  split; [exact Hms|].
  (* the transcript starts with the four messages of this session *)
  unfold gm_tr_final, sf_tr2, sf_tr1, gm_tr0 in Hvd, Htr.
  cbn [gf_sh gf_certs gf_params gf_sig gf_req gf_nst gf_vd] in Hvd, Htr.
  rewrite <- !app_assoc in Hvd, Htr. cbn [app] in Hvd, Htr.
  eexists. cbn zeta. cbn [app]. split; [exact Hvd|]. rewrite Htr.
  repeat (progress (rewrite <- ?app_assoc; cbn [app])). reflexivity.
Qed.

(* ---- server --------------------------------------------------------------------------------------- *)
Lemma no_tickets_no_resume : forall cfg st ch gm vers pick conf, s_tickets cfg = false ->
  server_try_resume cfg st ch gm vers pick conf = None.
Proof. intros. unfold server_try_resume. rewrite H. reflexivity. Qed.

Lemma server_send_flight_not_resumed : forall cfg st ch gm vers su sc certs st1,
  server_send_flight cfg st ch gm vers su sc certs = (st1, SContinue) -> ss_resumed st1 = false.
Proof.
  intros cfg st ch gm vers su sc certs st1 H. unfold server_send_flight in H.
  destruct (if gm then Ok 0 else prfForVersion vers) as [fp|e| |]; try discriminate.
  destruct (su_kx su); destruct (1 <=? s_auth cfg); try discriminate; injection H as <-; reflexivity.
Qed.

Lemma hello_not_resumed : forall cfg st ch st1, s_tickets cfg = false ->
  server_handshake_step cfg st (MClientHello ch) = (st1, SContinue) -> ss_phase st = SP_Hello -> ss_resumed st1 = false.
Proof.
  intros cfg st ch st1 Ht H Hph. unfold server_handshake_step in H. rewrite Hph in H.
  destruct (version_gate (s_mode cfg) (ch_vers ch)); [discriminate| |];
    unfold server_process_hello in H;
    repeat (dmH H; try discriminate);
    try match goal with Hx : server_try_resume _ _ _ _ _ _ _ = Some _ |- _ =>
          rewrite no_tickets_no_resume in Hx by exact Ht; discriminate end;
    eapply server_send_flight_not_resumed; exact H.
Qed.

Definition nonempty {A} (l : list A) : bool := negb (Nat.eqb (length l) 0).

Definition server_requirements (cfg : sconfig) (ins : list input) (st' : sstate) : Prop :=
  exists ch st1 certs peer len_ok ct pms master alg sig vd rest,
    (* the server's own first flight, a function of its configuration and the ClientHello *)
    server_handshake_step cfg (ss_set_warn server_init 0) (MClientHello ch) = (st1, SContinue) /\
    strip ins = [IHs (MClientHello ch)] ++ (if 1 <=? s_auth cfg then [IHs (MCertificate certs)] else [])
                ++ [IHs (MClientKeyExchange len_ok ct)] ++ (if nonempty peer then [IHs (MCertificateVerify alg sig)] else [])
                ++ [ICCS true] ++ (if ss_npn st1 then [IHs MNextProtocol] else []) ++ [IHs (MFinished vd)] ++ rest /\
    let tr_ckx := ss_tr st1 ++ (if 1 <=? s_auth cfg then [enc_hmsg (MCertificate certs)] else [])
                  ++ [enc_hmsg (MClientKeyExchange len_ok ct)] in
    let tr_fin := tr_ckx ++ (if nonempty peer then [enc_hmsg (MCertificateVerify alg sig)] else [])
                  ++ (if ss_npn st1 then [enc_hmsg MNextProtocol] else []) in
    (* ClientAuth policy table *)
    (s_auth cfg = 0 -> peer = []) /\
    (1 <= s_auth cfg -> processCertsFromClient cfg certs = Some peer) /\
    (s_auth cfg = 2 \/ s_auth cfg = 4 -> certs <> []) /\
    (3 <= s_auth cfg -> certs <> [] -> tmem (nth_cert 0 certs) (s_client_trusted cfg) = true) /\
    (* proof of possession: CertificateVerify valid under the leaf's key over THIS transcript *)
    (peer <> [] -> peer = certs /\ verify (cert_pub (nth_cert 0 certs)) sig (THash (tlist tr_ckx)) = true) /\
    (* key exchange and Finished *)
    masterFromPreMasterSecret (ss_vers st1) pms (ss_cr st1) (TRand (s_rand cfg)) = Ok master /\
    vd = finished_sum (ss_fp st1) master L_client_finished tr_fin /\
    ss_master st' = master /\ ss_peer st' = peer /\
    exists tr_tail, ss_tr st' = tr_fin ++ enc_hmsg (MFinished vd) :: tr_tail.

Lemma processCerts_some : forall cfg certs peer, processCertsFromClient cfg certs = Some peer ->
  peer = certs /\ (3 <= s_auth cfg -> certs <> [] -> tmem (nth_cert 0 certs) (s_client_trusted cfg) = true).
Proof.
  intros cfg certs peer H. unfold processCertsFromClient in H.
  destruct (negb (forallb is_cert certs)); [discriminate|].
  destruct certs as [|c0 r]; [injection H as <-; split; [reflexivity|intros _ Hc; contradiction]|].
  destruct ((3 <=? s_auth cfg) && negb (tmem c0 (s_client_trusted cfg))) eqn:E; [discriminate|].
  destruct (_ || _); [|discriminate]. injection H as <-. split; [reflexivity|].
  intros Ha _. cbn. apply andb_false_iff in E. destruct E as [E|E].
  - apply N.leb_gt in E. lia.
  - apply negb_false_iff in E. exact E.
Qed.

Lemma server_finish_fields : forall cfg st m vd st',
  server_finish cfg st m vd = (st', SComplete) ->
  ss_master st' = ss_master st /\ ss_peer st' = ss_peer st /\ exists tail, ss_tr st' = ss_tr st ++ enc_hmsg m :: tail.
Proof.
  intros cfg st m vd st' H. unfold server_finish in H.
  destruct (term_eqb vd _); [|discriminate]. cbn [ss_resumed ss_add_tr] in H.
  destruct (ss_resumed st).
  - injection H as <-. cbn. repeat split. exists []. reflexivity.
  - cbn [ss_ticket] in H. destruct (ss_ticket st) eqn:Et; injection H as <-; cbn; rewrite ?Et; cbn; repeat split; eexists;
      rewrite <- ?app_assoc; cbn [app]; reflexivity.
Qed.

Theorem server_complete_requires : forall cfg ins st',
  s_tickets cfg = false -> server_run cfg ins = RComplete st' -> server_requirements cfg ins st'.
Proof.
  intros cfg ins st' Htk H.
  assert (Hf : server_flight_ok cfg (strip ins) st').
  { apply server_complete_flight; [apply nowarn_strip|]. eapply server_run_strip; [exact H|reflexivity]. }
  destruct Hf as [ch [st1 [l1 [El [Hstep Hcases]]]]].
  pose proof (hello_not_resumed cfg _ ch st1 Htk Hstep eq_refl) as Hnr.
  destruct Hcases as [[_ [Hpeer1 [certs [peer [l2 [El1 [Hpol Hckx]]]]]]]|[Hres _]]; [|rewrite Hnr in Hres; discriminate].
  unfold ckx_tail_ok in Hckx.
  destruct Hckx as [len_ok [ct [pms [master [alg [sig [vd [rest [El2 [Hpms [Hms [Hcv Hfin]]]]]]]]]]]].
  cbn zeta in Hcv, Hfin. unfold has_peer in *.
  cbn [ss_peer ss_npn ss_vers ss_cr ss_tr ss_fp ss_gm] in El2, Hms, Hcv, Hfin.
  destruct Hfin as [Hvd Hfinish].
  apply server_finish_fields in Hfinish. cbn [ss_master ss_peer ss_tr] in Hfinish.
  destruct Hfinish as [Hm' [Hp' [tail Htr']]].
  exists ch, st1, certs, peer, len_ok, ct, pms, master, alg, sig, vd, rest.
  split; [exact Hstep|]. split.
  { rewrite El, El1, El2. unfold nonempty. cbn [app]. rewrite <- ?app_assoc. reflexivity. }
  cbn zeta. unfold nonempty.
  destruct (1 <=? s_auth cfg) eqn:Ea.
  - destruct Hpol as [Hempty Hproc]. apply N.leb_le in Ea.
    destruct (processCerts_some cfg certs peer Hproc) as [Epeer Htrust]. rewrite Epeer in *. clear Epeer.
    split; [intros E0; lia|]. split; [intros _; exact Hproc|].
    split. { intros H24 Hc. destruct (Hempty Hc) as [H2 H4]. destruct H24; contradiction. }
    split; [exact Htrust|].
    split. { intros Hne. split; [reflexivity|].
             assert (Hn : negb (Nat.eqb (length certs) 0) = true) by (destruct certs; [contradiction|reflexivity]).
             destruct (Hcv Hn) as [_ [_ Hv]]. rewrite <- app_assoc in Hv. exact Hv. }
    split; [exact Hms|]. split; [rewrite Hvd; rewrite <- !app_assoc; reflexivity|].
    split; [exact Hm'|]. split; [exact Hp'|]. exists tail. rewrite Htr'. rewrite <- !app_assoc. reflexivity.
  - rewrite Hpol in *. apply N.leb_gt in Ea.
    split; [reflexivity|]. split; [intros; lia|]. split; [intros [?|?]; lia|]. split; [intros; lia|].
    split; [intros Hc; contradiction|].
    split; [exact Hms|]. cbn [app] in *. rewrite app_nil_r in *.
    split; [exact Hvd|]. split; [exact Hm'|]. split; [exact Hp'|]. exists tail. exact Htr'.
Qed.

(* ---- the network attacker (Dolev-Yao) ----------------------------------------------------------------- *)
(* subterm, looking through every constructor *)
Fixpoint sub (s t : term) : Prop :=
  s = t \/
  match t with
  | TPair a b => sub s a \/ sub s b
  | TEnc p x => sub s p \/ sub s x
  | TSig _ x => sub s x
  | TPRF a b c => sub s a \/ sub s b \/ sub s c
  | THash x => sub s x
  | _ => False
  end.

Lemma sub_refl : forall t, sub t t.
Proof. destruct t; cbn; auto. Qed.

Section Attacker.
  Variable AK : N -> bool.        (* the private keys the attacker holds *)
  Variable own : N -> bool.       (* indices of the random numbers / 48-byte strings the attacker invents itself *)
  Variable K : term -> Prop.      (* everything it has observed: all messages honest parties ever sent *)

  (* what the network can deliver: it knows all public terms (constants, public keys, certificates) and its own
     keys and randomness, can replay and take apart any observed term, cannot build a signature of a key it does not
     hold, cannot open a ciphertext for a key it does not hold, cannot invert PRF or Hash *)
  Inductive derives : term -> Prop :=
  | D_known t : K t -> derives t
  | D_nil : derives TNil
  | D_junk i : derives (TJunk i)
  | D_label i : derives (TLabel i)
  | D_pub k : derives (TPub k)
  | D_cert i kd ku k : derives (TCert i kd ku k)
  | D_rand i : own i = true -> derives (TRand i)
  | D_pms i : own i = true -> derives (TPMS i)
  | D_pair a b : derives a -> derives b -> derives (TPair a b)
  | D_fst a b : derives (TPair a b) -> derives a
  | D_snd a b : derives (TPair a b) -> derives b
  | D_enc p x : derives p -> derives x -> derives (TEnc p x)
  | D_dec k x : derives (TEnc (TPub k) x) -> AK k = true -> derives x
  | D_sig k x : AK k = true -> derives x -> derives (TSig k x)
  | D_sig_open k x : derives (TSig k x) -> derives x
  | D_prf a b c : derives a -> derives b -> derives c -> derives (TPRF a b c)
  | D_hash x : derives x -> derives (THash x).

  (* a signature of a key the attacker does not hold was made by a holder: it occurs in an observed message *)
  Lemma sig_origin_gen : forall t, derives t -> forall k p, AK k = false -> sub (TSig k p) t ->
    exists u, K u /\ sub (TSig k p) u.
  Proof.
    induction 1; intros k0 p0 Hk Hs; cbn [sub] in Hs;
      try (destruct Hs as [Hs|Hs]; [discriminate|contradiction]).
    - exists t. auto.
    - destruct Hs as [Hs|[Hs|Hs]]; [discriminate|eauto|eauto].
    - apply (IHderives k0 p0 Hk). cbn [sub]. auto.
    - apply (IHderives k0 p0 Hk). cbn [sub]. auto.
    - destruct Hs as [Hs|[Hs|Hs]]; [discriminate|eauto|eauto].
    - apply (IHderives k0 p0 Hk). cbn [sub]. auto.
    - destruct Hs as [Hs|Hs]; [|eauto]. injection Hs as <- <-. rewrite H in Hk. discriminate.
    - apply (IHderives k0 p0 Hk). cbn [sub]. auto.
    - destruct Hs as [Hs|[Hs|[Hs|Hs]]]; [discriminate|eauto|eauto|eauto].
    - destruct Hs as [Hs|Hs]; [discriminate|eauto].
  Qed.

  Lemma sig_origin : forall k p, derives (TSig k p) -> AK k = false -> exists u, K u /\ sub (TSig k p) u.
  Proof. intros k p H Hk. eapply sig_origin_gen; [exact H|exact Hk|apply sub_refl]. Qed.

  (* [hidden x t]: x cannot be extracted from t: every occurrence is under an encryption to a key the attacker does
     not hold, in the secret position of a PRF, or under a hash *)
  Fixpoint hidden (x t : term) : Prop :=
    t <> x /\
    match t with
    | TPair a b => hidden x a /\ hidden x b
    | TEnc (TPub k) y => AK k = false \/ hidden x y
    | TEnc p y => hidden x p /\ hidden x y
    | TSig _ y => hidden x y
    | TPRF _ b c => hidden x b /\ hidden x c
    | _ => True
    end.

  (* secrecy of a 48-byte string the attacker did not invent *)
  Lemma pms_secret_gen : forall i, own i = false -> (forall u, K u -> hidden (TPMS i) u) ->
    forall t, derives t -> hidden (TPMS i) t.
  Proof.
    intros i Hown HK. induction 1; cbn [hidden]; try (split; [discriminate|auto]; fail).
    - apply HK. exact H.
    - split; [|exact I]. intros E. injection E as ->. rewrite H in Hown. discriminate.
    - cbn [hidden] in IHderives. apply IHderives.
    - cbn [hidden] in IHderives. apply IHderives.
    - split; [discriminate|]. destruct p; auto.
    - cbn [hidden] in IHderives. destruct IHderives as [_ [Hc|Hc]]; [rewrite H0 in Hc; discriminate|exact Hc].
    - cbn [hidden] in IHderives. apply IHderives.
  Qed.

  Lemma pms_secret : forall i, own i = false -> (forall u, K u -> hidden (TPMS i) u) -> ~ derives (TPMS i).
  Proof.
    intros i Hown HK Hd. pose proof (pms_secret_gen i Hown HK _ Hd) as [Hne _]. apply Hne. reflexivity.
  Qed.

  (* secrecy of a PRF output keyed with such a string (the master secret) *)
  Lemma master_secret_gen : forall i l d, ~ derives (TPMS i) -> (forall u, K u -> hidden (TPRF (TPMS i) l d) u) ->
    forall t, derives t -> hidden (TPRF (TPMS i) l d) t.
  Proof.
    intros i l d Hpms HK. induction 1; cbn [hidden]; try (split; [discriminate|auto]; fail).
    - apply HK. exact H.
    - cbn [hidden] in IHderives. apply IHderives.
    - cbn [hidden] in IHderives. apply IHderives.
    - split; [discriminate|]. destruct p; auto.
    - cbn [hidden] in IHderives. destruct IHderives as [_ [Hc|Hc]]; [rewrite H0 in Hc; discriminate|exact Hc].
    - cbn [hidden] in IHderives. apply IHderives.
    - split; [|auto]. intros E. injection E as -> _ _. contradiction.
  Qed.

  (* a PRF output whose secret the attacker cannot derive was computed by someone else: it occurs in an observed message *)
  Lemma prf_origin_gen : forall t, derives t -> forall m l d, ~ derives m -> sub (TPRF m l d) t ->
    exists u, K u /\ sub (TPRF m l d) u.
  Proof.
    induction 1; intros m0 l0 d0 Hm Hs; cbn [sub] in Hs;
      try (destruct Hs as [Hs|Hs]; [discriminate|contradiction]).
    - exists t. auto.
    - destruct Hs as [Hs|[Hs|Hs]]; [discriminate|eauto|eauto].
    - apply (IHderives m0 l0 d0 Hm). cbn [sub]. auto.
    - apply (IHderives m0 l0 d0 Hm). cbn [sub]. auto.
    - destruct Hs as [Hs|[Hs|Hs]]; [discriminate|eauto|eauto].
    - apply (IHderives m0 l0 d0 Hm). cbn [sub]. auto.
    - destruct Hs as [Hs|Hs]; [discriminate|eauto].
    - apply (IHderives m0 l0 d0 Hm). cbn [sub]. auto.
    - destruct Hs as [Hs|[Hs|[Hs|Hs]]]; [|eauto|eauto|eauto]. injection Hs as <- <- <-. contradiction.
    - destruct Hs as [Hs|Hs]; [discriminate|eauto].
  Qed.
End Attacker.

Lemma verify_inv : forall k sig payload, verify (TPub k) sig payload = true -> sig = TSig k payload.
Proof.
  intros k sig payload H. unfold verify in H. destruct sig; try discriminate.
  apply andb_prop in H. destruct H as [H1 H2]. apply term_eqb_eq in H1. apply term_eqb_eq in H2.
  injection H1 as <-. subst. reflexivity.
Qed.

(* what the network must be able to produce to deliver an input *)
Definition deliverable (AK own : N -> bool) (K : term -> Prop) (i : input) : Prop :=
  match i with
  | IHs (MServerKeyExchange _ _ s) => derives AK own K s
  | IHs (MFinished vd) => derives AK own K vd
  | IHs (MCertificateVerify _ s) => derives AK own K s
  | IHs (MClientKeyExchange _ ct) => derives AK own K ct
  | _ => True
  end.

Definition client_master (cfg : cconfig) (sr : term) : term :=
  TPRF (TPMS (c_pms cfg)) (TPair L_master (TLabel 0)) (TPair (TRand (c_rand cfg)) sr).

Theorem authentication : forall AK own K cfg ins st',
  c_gm cfg = true -> c_verify cfg = true -> ecc_only cfg -> c_session cfg = None ->
  (* the network delivers only what it can derive *)
  (forall i, In i ins -> deliverable AK own K i) ->
  (* certification: the keys named in certificates that this client's Verify accepts are not attacker keys *)
  (forall c, is_cert c = true -> tmem c (c_trusted cfg) = true -> AK (cert_key c) = false) ->
  (* the client's pre-master secret is its own, and honest parties never send it or a master secret derived from it
     except encrypted to an honest key / as a PRF key / under a hash *)
  own (c_pms cfg) = false ->
  (forall u, K u -> hidden AK (TPMS (c_pms cfg)) u) ->
  (forall u sr, K u -> hidden AK (client_master cfg sr) u) ->
  client_run cfg ins = RComplete st' ->
  exists sh certs vd,
    In (IHs (MServerHello sh)) ins /\ In (IHs (MCertificate certs)) ins /\ In (IHs (MFinished vd)) ins /\
    let c0 := nth_cert 0 certs in
    let c1 := nth_cert 1 certs in
    (* a holder of the signing key signed THIS session's randoms and encryption certificate ... *)
    (exists u, K u /\ sub (TSig (cert_key c0) (skx_payload (TRand (c_rand cfg)) (sh_random sh) c1)) u) /\
    (* ... and the accepted Finished, keyed with the master secret of THIS session's pre-master secret (which only
       a holder of the encryption key can obtain), was computed by an honest party, not by the network *)
    (exists tr, vd = finished_sum 0 (client_master cfg (sh_random sh)) L_server_finished tr) /\
    (exists u, K u /\ sub vd u) /\
    ~ derives AK own K (TPMS (c_pms cfg)) /\ ~ derives AK own K (client_master cfg (sh_random sh)).
Proof.
  intros AK own K cfg ins st' Hgm Hvf Hecc Hsess Hnet Hca Hown Hpms Hms H.
  destruct (client_complete_requires cfg ins st' Hgm Hvf Hecc Hsess H)
    as [sh [certs [p [sig [vd [Hsh [Hcert [Hskx [Hfin Hreq]]]]]]]]].
  cbn zeta in Hreq.
  destruct Hreq as [Hlen [[Hc0 [_ [_ [Hc1 _]]]] [[Ht0 Ht1] [Hver [_ [_ [tr_rest [Hvd _]]]]]]]].
  exists sh, certs, vd. split; [exact Hsh|]. split; [exact Hcert|]. split; [exact Hfin|]. cbn zeta.
  assert (Hnp : ~ derives AK own K (TPMS (c_pms cfg))) by (apply pms_secret; assumption).
  assert (Hnm : ~ derives AK own K (client_master cfg (sh_random sh))).
  { intros Hd. pose proof (master_secret_gen AK own K _ _ _ Hnp (fun u Hu => Hms u (sh_random sh) Hu) _ Hd) as [Hne _].
    apply Hne. reflexivity. }
  split.
  - (* ServerKeyExchange *)
    unfold cert_pub in Hver. apply verify_inv in Hver. subst sig.
    apply (sig_origin AK own K).
    + exact (Hnet _ Hskx).
    + apply Hca; assumption.
  - split; [eexists; exact Hvd|]. split; [|split; assumption].
    pose proof (Hnet _ Hfin) as Hd. cbn in Hd. rewrite Hvd in Hd |- *. unfold finished_sum in *.
    eapply prf_origin_gen; [exact Hd|exact Hnm|apply sub_refl].
Qed.

(* ---- agreement ------------------------------------------------------------------------------------------- *)
Lemma tlist_inj : forall a b, tlist a = tlist b -> a = b.
Proof.
  induction a as [|x a IH]; destruct b as [|y b]; cbn; intros H; try discriminate; [reflexivity|].
  injection H as -> H. f_equal. apply IH. exact H.
Qed.

(* If the Finished the client accepted is the Finished the server sent (the one message the network cannot forge,
   by [authentication]), both ends hold the same transcript and the same master secret: they never complete
   with different views of the handshake. *)
(* the server's outputs after the ClientHello contain no Finished (full handshake) *)
Lemma server_send_flight_no_finished : forall cfg st ch gm vers su sc certs st1 r,
  ss_out st = [] -> server_send_flight cfg st ch gm vers su sc certs = (st1, r) ->
  forall vd, ~ In (OHs (MFinished vd)) (ss_out st1).
Proof.
  intros cfg st ch gm vers su sc certs st1 r Ho H vd. unfold server_send_flight in H.
  destruct (if gm then Ok 0 else prfForVersion vers) as [fp|e| |]; try (injection H as <- _; rewrite Ho; auto).
  destruct (su_kx su); destruct (1 <=? s_auth cfg); injection H as <- _; cbn; rewrite Ho; cbn;
    intros Hin; repeat (destruct Hin as [Hin|Hin]; [discriminate|]); exact Hin.
Qed.

Lemma hello_no_finished : forall cfg st ch st1, s_tickets cfg = false -> ss_out st = [] -> ss_phase st = SP_Hello ->
  server_handshake_step cfg st (MClientHello ch) = (st1, SContinue) ->
  forall vd, ~ In (OHs (MFinished vd)) (ss_out st1).
Proof.
  intros cfg st ch st1 Ht Ho Hph H. unfold server_handshake_step in H. rewrite Hph in H.
  destruct (version_gate (s_mode cfg) (ch_vers ch)); [discriminate| |];
    unfold server_process_hello in H;
    repeat (dmH H; try discriminate);
    try match goal with Hx : server_try_resume _ _ _ _ _ _ _ = Some _ |- _ =>
          rewrite no_tickets_no_resume in Hx by exact Ht; discriminate end;
    (eapply server_send_flight_no_finished; [exact Ho|exact H]).
Qed.

(* the last thing a server that did a full handshake writes is its Finished over its transcript *)
Lemma server_finish_full : forall cfg st m vd st', ss_resumed st = false ->
  server_finish cfg st m vd = (st', SComplete) ->
  exists mid,
    let tr := ss_tr st ++ enc_hmsg m :: map enc_hmsg mid in
    let fin := MFinished (finished_sum (ss_fp st) (ss_master st) L_server_finished tr) in
    ss_tr st' = tr ++ [enc_hmsg fin] /\
    ss_out st' = ss_out st ++ map OHs mid ++ [OCCS; OHs fin] /\
    (forall x, In x mid -> forall v, x <> MFinished v) /\
    ss_master st' = ss_master st.
Proof.
  intros cfg st m vd st' Hr H. unfold server_finish in H.
  destruct st as [ph w v fp g kx su tk npn cr peer res ms tr out]. cbn in Hr. subst res.
  destruct (term_eqb vd _); [|discriminate].
  cbn [ss_resumed ss_add_tr ss_ticket ss_phase ss_warn ss_vers ss_fp ss_gm ss_kx ss_suite ss_npn ss_cr ss_peer ss_master ss_tr ss_out] in H |- *.
  destruct tk.
  - injection H as <-.
    exists [MNewSessionTicket (encryptTicket (s_ticket_key cfg) (session_state v su ms peer))].
    cbn zeta. split; [cbn; rewrite <- !app_assoc; reflexivity|]. split; [cbn; rewrite <- !app_assoc; reflexivity|].
    split; [|reflexivity]. intros x Hx v0. destruct Hx as [<-|[]]. discriminate.
  - injection H as <-. exists []. cbn zeta.
    split; [cbn; rewrite <- ?app_assoc; reflexivity|]. split; [cbn; rewrite <- ?app_assoc; reflexivity|]. split; [|reflexivity].
    intros x [].
Qed.

Lemma server_final_finished : forall cfg ins st', s_tickets cfg = false -> server_run cfg ins = RComplete st' ->
  exists tr fp,
    let fin := finished_sum fp (ss_master st') L_server_finished tr in
    ss_tr st' = tr ++ [enc_hmsg (MFinished fin)] /\
    (forall vd, In (OHs (MFinished vd)) (ss_out st') -> vd = fin).
Proof.
  intros cfg ins st' Htk H.
  assert (Hf : server_flight_ok cfg (strip ins) st').
  { apply server_complete_flight; [apply nowarn_strip|]. eapply server_run_strip; [exact H|reflexivity]. }
  destruct Hf as [ch [st1 [l1 [El [Hstep Hcases]]]]].
  pose proof (hello_not_resumed cfg _ ch st1 Htk Hstep eq_refl) as Hnr.
  pose proof (hello_no_finished cfg (ss_set_warn server_init 0) ch st1 Htk eq_refl eq_refl Hstep) as Hnf.
  destruct Hcases as [[_ [_ [certs [peer [l2 [_ [_ Hckx]]]]]]]|[Hres _]]; [|rewrite Hnr in Hres; discriminate].
  unfold ckx_tail_ok in Hckx.
  destruct Hckx as [len_ok [ct [pms [master [alg [sig [vd [rest [_ [_ [_ [_ Hfin]]]]]]]]]]]].
  cbn zeta in Hfin. destruct Hfin as [_ Hfinish].
  apply server_finish_full in Hfinish; [|reflexivity].
  destruct Hfinish as [mid Hx]. cbn zeta in Hx. cbn [ss_tr ss_out ss_fp ss_master] in Hx.
  destruct Hx as [Htr [Hout [Hmid Hms]]].
  eexists. eexists. cbn zeta. rewrite Hms. split; [exact Htr|].
  intros v Hin. rewrite Hout in Hin. apply in_app_or in Hin. destruct Hin as [Hin|Hin]; [exfalso; eapply Hnf; exact Hin|].
  apply in_app_or in Hin. destruct Hin as [Hin|Hin].
  - apply in_map_iff in Hin. destruct Hin as [x [Ex Hx]]. injection Ex as ->. exfalso. eapply Hmid; [exact Hx|reflexivity].
  - destruct Hin as [Hin|[Hin|[]]]; [discriminate|]. injection Hin as <-. reflexivity.
Qed.

Theorem agreement : forall ccfg scfg ins_c ins_s st_c st_s,
  c_gm ccfg = true -> c_verify ccfg = true -> ecc_only ccfg -> c_session ccfg = None -> s_tickets scfg = false ->
  client_run ccfg ins_c = RComplete st_c -> server_run scfg ins_s = RComplete st_s ->
  (forall vd, In (IHs (MFinished vd)) ins_c -> In (OHs (MFinished vd)) (ss_out st_s)) ->
  cs_tr st_c = ss_tr st_s /\ cs_master st_c = ss_master st_s.
Proof.
  intros ccfg scfg ins_c ins_s st_c st_s Hgm Hvf Hecc Hsess Htk Hc Hs Hnet.
  destruct (client_complete_requires ccfg ins_c st_c Hgm Hvf Hecc Hsess Hc)
    as [sh [certs [p [sig [vd [_ [_ [_ [Hfin Hreq]]]]]]]]].
  cbn zeta in Hreq. destruct Hreq as [_ [_ [_ [_ [_ [Hms [tr_rest [Hvd Htr]]]]]]]].
  remember ([enc_hmsg (MClientHello (client_hello_of ccfg)); enc_hmsg (MServerHello sh); enc_hmsg (MCertificate certs);
             enc_hmsg (MServerKeyExchange true p sig)] ++ tr_rest) as tr_c eqn:Etrc. clear Etrc.
  destruct (server_final_finished scfg ins_s st_s Htk Hs) as [tr_s [fp [Htr_s Hout]]].
  pose proof (Hout vd (Hnet vd Hfin)) as E.
  rewrite Hvd in E. unfold finished_sum in E. injection E as Em Efp Et.
  apply tlist_inj in Et. subst tr_s fp. split.
  - rewrite Htr, Htr_s. f_equal. f_equal. f_equal. f_equal.
    rewrite Hvd. unfold finished_sum. rewrite Em. reflexivity.
  - rewrite Hms. exact Em.
Qed.
