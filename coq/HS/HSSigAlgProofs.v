(* Proofs about the decision logic of gmtls/auth.go (HS/HSSigAlg.v), re-proved against the tables of the source on
   every run: the verifier derives the same (signature type, hash) - hence hashes the same data the same way - as the
   signer, for every key type, version and lists of schemes for which both succeed; no panic for the package's own
   list; which key type a picked signature type is verified with. *)
From Coq Require Import List NArith Arith Bool Lia.
From GmsmVerif Require Import Lib.Outcome Gen.HSSigTables HS.HSSigAlg.
Import ListNotations.
Local Open Scope N_scope.

(* in the loop the signature type and the hash are functions of the scheme that is returned *)
Lemma pick_loop_result : forall pk peer ours a st h,
  pick_loop pk peer ours = Ok (a, st, h) ->
  In a peer /\ isSupportedSignatureAlgorithm a ours = true /\ st = signatureFromSignatureScheme a /\ lookupTLSHash a = Some h /\
  exists k, kind_code pk = Some k /\ has_row gen_pick_loop_compat k st = true.
Proof.
  intros pk peer ours a st h. induction peer as [|x rest IH]; intros H; [discriminate|].
  cbn [pick_loop] in H.
  destruct (isSupportedSignatureAlgorithm x ours) eqn:Es; cbn [negb] in H.
  2:{ destruct (IH H) as [Hin Hr]. split; [right; exact Hin|exact Hr]. }
  destruct (lookupTLSHash x) as [hx|] eqn:El; [|discriminate].
  destruct (kind_code pk) as [k|] eqn:Ek; [|discriminate].
  destruct (has_row gen_pick_loop_compat k (signatureFromSignatureScheme x)) eqn:Ec.
  - injection H as <- <- <-. split; [left; reflexivity|]. repeat split; try assumption. exists k. split; [reflexivity|exact Ec].
  - destruct (IH H) as [Hin Hr]. split; [right; exact Hin|exact Hr].
Qed.

(* no panic when our own list only has schemes lookupTLSHash knows - as the package's list does *)
Lemma pick_loop_no_panic : forall pk peer ours, (forall a, In a ours -> lookupTLSHash a <> None) ->
  pick_loop pk peer ours <> Panic /\ pick_loop pk peer ours <> Hang.
Proof.
  intros pk peer ours Hk. induction peer as [|x rest IH]; [split; discriminate|].
  cbn [pick_loop]. destruct (isSupportedSignatureAlgorithm x ours) eqn:Es; cbn [negb]; [|exact IH].
  destruct (lookupTLSHash x) eqn:El.
  - destruct (kind_code pk); [|split; discriminate]. destruct (has_row _ _ _); [split; discriminate|exact IH].
  - exfalso. unfold isSupportedSignatureAlgorithm in Es. apply existsb_exists in Es. destruct Es as [y [Hy Ey]].
    apply N.eqb_eq in Ey. subst y. exact (Hk x Hy El).
Qed.

Lemma pick_fixed_no_panic : forall pk vers, pick_fixed pk vers <> Panic /\ pick_fixed pk vers <> Hang.
Proof.
  intros pk vers. unfold pick_fixed. destruct (kind_code pk); [|split; discriminate].
  destruct (filter _ _) as [|r rs]; [split; discriminate|].
  destruct (if vers <? gsig_VersionTLS12 then r else last rs r) as [|? [|? [|? [|? [|]]]]]; split; discriminate.
Qed.

Theorem pick_no_panic : forall pk peer ours vers, (forall a, In a ours -> lookupTLSHash a <> None) ->
  pickSignatureAlgorithm pk peer ours vers <> Panic /\ pickSignatureAlgorithm pk peer ours vers <> Hang.
Proof.
  intros. unfold pickSignatureAlgorithm. destruct (_ || _); [apply pick_fixed_no_panic|apply pick_loop_no_panic; assumption].
Qed.

Lemma package_list_known : forall a, In a gen_supportedSignatureAlgorithms -> lookupTLSHash a <> None.
Proof.
  intros a H. cbn in H. repeat (destruct H as [<-|H]; [vm_compute; discriminate|]). contradiction.
Qed.

(* the fixed branch, row by row *)
Lemma pick_fixed_rows : forall pk vers,
  pick_fixed pk vers =
  match pk with
  | PK_RSA => if vers <? gsig_VersionTLS12 then Ok (0, gsig_signaturePKCS1v15, 8) else Ok (gsig_PKCS1WithSHA1, gsig_signaturePKCS1v15, 3)
  | PK_ECDSA => Ok (gsig_ECDSAWithSHA1, gsig_signatureECDSA, 3)
  | PK_SM2 => Ok (gsig_SM2WITHSM3, gsig_signatureSM2, 3)
  | PK_Other => Err 1
  end.
Proof.
  intros pk vers. unfold pick_fixed. destruct pk; cbn -[N.ltb]; try reflexivity; destruct (vers <? _); reflexivity.
Qed.

(* the signer picks from (peer1, ours1); the message carries the scheme from TLS 1.2 on (anything before); the verifier
   picks from the one-element list with its own list ours2: same signature type and hash *)
Theorem signer_verifier_agree : forall pk peer1 ours1 ours2 vers x alg st h alg' st' h',
  pickSignatureAlgorithm pk peer1 ours1 vers = Ok (alg, st, h) ->
  pickSignatureAlgorithm pk [if gsig_VersionTLS12 <=? vers then alg else x] ours2 vers = Ok (alg', st', h') ->
  st' = st /\ h' = h.
Proof.
  intros pk peer1 ours1 ours2 vers x alg st h alg' st' h' Hs Hv.
  unfold pickSignatureAlgorithm in *. cbn [length Nat.eqb] in Hv. rewrite orb_false_r in Hv.
  destruct (vers <? gsig_VersionTLS12) eqn:Ev.
  - (* before TLS 1.2: both in the fixed branch *)
    cbn [orb] in Hs. rewrite Hs in Hv. injection Hv as _ <- <-. split; reflexivity.
  - assert (E12 : (gsig_VersionTLS12 <=? vers) = true) by (apply N.leb_le; apply N.ltb_ge in Ev; exact Ev).
    rewrite E12 in Hv. apply pick_loop_result in Hv. destruct Hv as [Hin [_ [Est' [El' _]]]].
    destruct Hin as [<-|[]].
    cbn [orb] in Hs. destruct (Nat.eqb (length peer1) 0) eqn:Ep.
    + (* the signer had no list from the peer: the fixed TLS 1.2 rows, whose schemes map back to the same type and hash *)
      rewrite pick_fixed_rows in Hs. destruct pk; try discriminate; try rewrite Ev in Hs; injection Hs as <- <- <-;
        vm_compute in El'; try discriminate; injection El' as <-; (split; [rewrite Est'|]; reflexivity).
    + apply pick_loop_result in Hs. destruct Hs as [_ [_ [Est [El _]]]].
      rewrite El in El'. injection El' as <-. split; [congruence|reflexivity].
Qed.

(* hence the same digest of the same data on both sides, for the CertificateVerify and for the ServerKeyExchange *)
Corollary signer_verifier_same_digest : forall pk peer1 ours1 ours2 vers x alg st h alg' st' h',
  pickSignatureAlgorithm pk peer1 ours1 vers = Ok (alg, st, h) ->
  pickSignatureAlgorithm pk [if gsig_VersionTLS12 <=? vers then alg else x] ours2 vers = Ok (alg', st', h') ->
  hashForClientCertificate vers st' h' = hashForClientCertificate vers st h /\
  hashForServerKeyExchange vers st' h' = hashForServerKeyExchange vers st h.
Proof.
  intros. destruct (signer_verifier_agree _ _ _ _ _ _ _ _ _ _ _ _ H H0) as [-> ->]. split; reflexivity.
Qed.

Lemma compat_rows : forall k st, has_row gen_pick_loop_compat k st = true ->
  (k = 0 /\ (st = gsig_signaturePKCS1v15 \/ st = gsig_signatureRSAPSS)) \/ (k = 1 /\ st = gsig_signatureECDSA) \/
  (k = 2 /\ st = gsig_signatureECDSA).
Proof.
  intros k st H. unfold has_row, gen_pick_loop_compat in H. cbn [existsb] in H.
  repeat (apply orb_prop in H; destruct H as [H|H]); try discriminate;
    apply andb_prop in H; destruct H as [H1 H2]; apply N.eqb_eq in H1; apply N.eqb_eq in H2; subst; auto.
Qed.

(* the key type a picked signature type is verified with: RSA and ECDSA keys always pass the type assertion of
   verifyHandshakeSignature; an *sm2.PublicKey does in the fixed branch (signatureSM2) and is refused after the loop
   (signatureECDSA wants an *ecdsa.PublicKey): fails closed *)
Theorem picked_type_matches_key : forall pk peer ours vers alg st h,
  pickSignatureAlgorithm pk peer ours vers = Ok (alg, st, h) ->
  (pk = PK_RSA \/ pk = PK_ECDSA -> verify_key_ok st pk = true) /\
  (pk = PK_SM2 -> verify_key_ok st pk = ((vers <? gsig_VersionTLS12) || Nat.eqb (length peer) 0)).
Proof.
  intros pk peer ours vers alg st h H. unfold pickSignatureAlgorithm in H.
  destruct ((vers <? gsig_VersionTLS12) || Nat.eqb (length peer) 0) eqn:Eg.
  - rewrite pick_fixed_rows in H. split.
    + intros [-> | ->]; [destruct (vers <? gsig_VersionTLS12)|]; injection H as <- <- <-; reflexivity.
    + intros ->. injection H as <- <- <-. reflexivity.
  - apply pick_loop_result in H. destruct H as [_ [_ [_ [_ [k [Ek Hc]]]]]]. apply compat_rows in Hc. split.
    + intros [-> | ->]; cbn [kind_code] in Ek; injection Ek as <-;
        destruct Hc as [[Hk [-> | ->]]|[[Hk ->]|[Hk ->]]]; try discriminate Hk; reflexivity.
    + intros ->. cbn [kind_code] in Ek. injection Ek as <-.
      destruct Hc as [[Hk _]|[[Hk _]|[_ ->]]]; try discriminate Hk. reflexivity.
Qed.

(* GMSSL (version 0x0101 < TLS 1.2, so the lists are ignored): for the two key types an SM2 certificate can parse to,
   the server verifies the CertificateVerify over the SM3 hash of the transcript - what the GMSSL client signed - with a
   key type its verifyHandshakeSignature case accepts *)
Theorem gm_certificate_verify_agrees : forall pk peer ours, pk = PK_ECDSA \/ pk = PK_SM2 ->
  exists alg st h,
    pickSignatureAlgorithm pk peer ours VersionGMSSL = Ok (alg, st, h) /\
    hashForClientCertificate VersionGMSSL st h = Ok gm_client_certificate_verify_digest /\
    verify_key_ok st pk = true.
Proof.
  intros pk peer ours [-> | ->]; eexists; eexists; eexists; (split; [vm_compute; reflexivity|split; vm_compute; reflexivity]).
Qed.
