(* Lemmas about the handshake state machines of HSModel.v: the version gate, and "no panic, no hang,
   end of stream is an error" for every delivered sequence. *)
From Coq Require Import List NArith Arith Bool Lia ZifyN ZifyNat ZifyBool.
From GmsmVerif Require Import Lib.Outcome HS.HSTerms HS.HSModel.
Import ListNotations.
Local Open Scope N_scope.

(* ---------- all N below 2^bits, for finite sweeps ----------------------------------------------- *)
Fixpoint nrange (bits : nat) : list N :=
  match bits with
  | O => [0]
  | S b => let l := nrange b in l ++ map (fun x => x + 2 ^ N.of_nat b) l
  end.

Lemma nrange_complete : forall b x, x < 2 ^ N.of_nat b -> In x (nrange b).
Proof.
  induction b as [|b IH]; intros x Hx.
  - cbn in Hx. left. lia.
  - cbn [nrange]. apply in_or_app.
    assert (E : 2 ^ N.of_nat (S b) = 2 * 2 ^ N.of_nat b).
    { rewrite Nat2N.inj_succ. apply N.pow_succ_r'. }
    rewrite E in Hx.
    destruct (N.lt_ge_cases x (2 ^ N.of_nat b)) as [Hlt|Hge].
    + left. apply IH. exact Hlt.
    + right. apply in_map_iff. exists (x - 2 ^ N.of_nat b). split; [lia|]. apply IH. lia.
Qed.

(* ---------- version gate ---------------------------------------------------------------------------- *)
(* what Handshake() does with a ClientHello version, written from the property text *)
Definition version_gate_spec (mode : smode) (v : N) : vgate :=
  match mode with
  | GMOnly => if v =? 257 then VGM 257 else if 768 <=? v then VGM (N.min v 771) else VReject
  | TLSOnly => if 768 <=? v then VTLS (N.min v 771) else VReject
  | AutoSwitch => if v =? 257 then VGM 257 else if (768 <=? v) && (v <=? 771) then VTLS v else VReject
  end.

Definition vgate_eqb (a b : vgate) : bool :=
  match a, b with
  | VReject, VReject => true
  | VGM x, VGM y => x =? y
  | VTLS x, VTLS y => x =? y
  | _, _ => false
  end.

Lemma vgate_eqb_eq : forall a b, vgate_eqb a b = true -> a = b.
Proof.
  intros [|x|x] [|y|y] H; try discriminate; try reflexivity; cbn in H; apply N.eqb_eq in H; subst; reflexivity.
Qed.

Definition gate_ok (mode : smode) (v : N) : bool := vgate_eqb (version_gate mode v) (version_gate_spec mode v).

(* the complete sweep over the 65536 values of a uint16 *)
Lemma gate_sweep : forall mode, forallb (gate_ok mode) (nrange 16) = true.
Proof. intros mode. destruct mode; vm_compute; reflexivity. Qed.

Lemma version_gate_table : forall mode v, v < 65536 -> version_gate mode v = version_gate_spec mode v.
Proof.
  intros mode v Hv. apply vgate_eqb_eq.
  assert (Hin : In v (nrange 16)) by (apply nrange_complete; exact Hv).
  exact (proj1 (forallb_forall (gate_ok mode) (nrange 16)) (gate_sweep mode) v Hin).
Qed.

(* the internal version of an accepted ClientHello is one the PRF selector knows (all versions, not only 16-bit ones) *)
Lemma mutualVersionMax_known : forall gm m v v', mutualVersionMax gm m v = Some v' -> version_known v' = true.
Proof.
  intros gm m v v' H. unfold mutualVersionMax in H.
  destruct (v <? minVersion); [discriminate|].
  set (w := if m <? v then m else v) in *.
  destruct (w =? VersionGMSSL) eqn:E1.
  - destruct gm; [|discriminate]. injection H as <-. unfold version_known. rewrite E1. reflexivity.
  - destruct ((w =? VersionSSL30) || (w =? VersionTLS10) || (w =? VersionTLS11) || (w =? VersionTLS12)) eqn:E2; [|discriminate].
    injection H as <-. unfold version_known. rewrite E1. cbn [orb]. exact E2.
Qed.

Lemma version_gate_known : forall mode v,
  match version_gate mode v with
  | VReject => True
  | VGM v' | VTLS v' => version_known v' = true
  end.
Proof.
  intros mode v. unfold version_gate, mutualVersion.
  destruct mode.
  - destruct (mutualVersionMax true maxVersion v) eqn:E; [eapply mutualVersionMax_known; exact E|exact I].
  - destruct (v =? VersionGMSSL).
    + destruct (mutualVersionMax true maxVersion v) eqn:E; [eapply mutualVersionMax_known; exact E|exact I].
    + destruct (_ || _); [|exact I].
      destruct (mutualVersionMax true maxVersion v) eqn:E; [eapply mutualVersionMax_known; exact E|exact I].
  - destruct (mutualVersionMax false maxVersion v) eqn:E; [eapply mutualVersionMax_known; exact E|exact I].
Qed.

Lemma prfForVersion_known : forall v, version_known v = true -> exists p, prfForVersion v = Ok p.
Proof.
  intros v H. unfold version_known in H. unfold prfForVersion.
  destruct (v =? VersionGMSSL); [eexists; reflexivity|].
  destruct (v =? VersionSSL30); [eexists; reflexivity|].
  destruct (v =? VersionTLS10); [eexists; reflexivity|].
  destruct (v =? VersionTLS11); [eexists; reflexivity|].
  destruct (v =? VersionTLS12); [eexists; reflexivity|].
  discriminate.
Qed.

Lemma master_known : forall v pms cr sr, version_known v = true -> exists m, masterFromPreMasterSecret v pms cr sr = Ok m.
Proof.
  intros v pms cr sr H. unfold masterFromPreMasterSecret.
  destruct (prfForVersion_known v H) as [p Hp]. rewrite Hp. eexists. reflexivity.
Qed.

(* ---------- safety of one step ---------------------------------------------------------------------- *)
Ltac triv := repeat split; try discriminate; intros; try discriminate.
Ltac dm H := match type of H with context [match ?x with _ => _ end] => destruct x eqn:? end.

(* -- server -- *)
Definition sinv (st : sstate) : Prop := ss_phase st = SP_Hello \/ version_known (ss_vers st) = true.
Definition ok_s (st : sstate) (r : sres) : Prop := r <> SPanic /\ r <> SHang /\ (r = SContinue -> sinv st).

Lemma server_send_flight_safe : forall cfg st ch gm vers su sc certs st' r,
  version_known vers = true ->
  server_send_flight cfg st ch gm vers su sc certs = (st', r) -> ok_s st' r.
Proof.
  intros cfg st ch gm vers su sc certs st' r Hk H. unfold server_send_flight in H.
  destruct (prfForVersion_known vers Hk) as [p Hp].
  assert (Hfp : exists fp, (if gm then Ok 0 else prfForVersion vers) = Ok fp).
  { destruct gm; eexists; [reflexivity|exact Hp]. }
  destruct Hfp as [fp Hfp]. rewrite Hfp in H.
  destruct (su_kx su); destruct (1 <=? s_auth cfg); injection H as <- <-; triv; right; exact Hk.
Qed.

Lemma server_try_resume_safe : forall cfg st ch gm vers pick configured st' r,
  version_known vers = true ->
  server_try_resume cfg st ch gm vers pick configured = Some (st', r) -> ok_s st' r.
Proof.
  intros cfg st ch gm vers pick configured st' r Hk H. unfold server_try_resume in H.
  destruct (prfForVersion_known vers Hk) as [p Hp].
  assert (Hfp : exists fp, (if gm then Ok 0 else prfForVersion vers) = Ok fp).
  { destruct gm; eexists; [reflexivity|exact Hp]. }
  destruct Hfp as [fp Hfp]. rewrite Hfp in H.
  repeat (dm H; try discriminate).
  all: injection H as <- <-; triv; right; exact Hk.
Qed.

Lemma server_process_hello_safe : forall cfg st ch gm vers st' r,
  version_known vers = true ->
  server_process_hello cfg st ch gm vers = (st', r) -> ok_s st' r.
Proof.
  intros cfg st ch gm vers st' r Hk H. unfold server_process_hello in H.
  destruct (negb (ch_comp_null ch)); [injection H as <- <-; triv|].
  destruct (ch_reneg_nonempty ch); [injection H as <- <-; triv|].
  destruct gm.
  - destruct (s_gm_certs cfg) as [|sc [|ec rest]]; try (injection H as <- <-; triv; fail).
    destruct (server_try_resume cfg st ch true vers setCipherSuiteGM (gm_suite_ids cfg)) as [[s1 r1]|] eqn:Er.
    + injection H as <- <-. eapply server_try_resume_safe; eassumption.
    + match type of H with (match ?x with _ => _ end) = _ => destruct x end; [|injection H as <- <-; triv].
      destruct (_ && _); [injection H as <- <-; triv|].
      eapply server_send_flight_safe; eassumption.
  - destruct (s_tls_cert cfg) as [[c k]|]; [|injection H as <- <-; triv].
    destruct (negb _); [injection H as <- <-; triv|].
    match type of H with (match ?x with _ => _ end) = _ => destruct x as [[s1 r1]|] eqn:Er end.
    + injection H as <- <-. eapply server_try_resume_safe; eassumption.
    + match type of H with (match ?x with _ => _ end) = _ => destruct x end; [|injection H as <- <-; triv].
      destruct (_ && _); [injection H as <- <-; triv|].
      eapply server_send_flight_safe; eassumption.
Qed.

Lemma server_handshake_step_safe : forall cfg st m st' r,
  sinv st -> server_handshake_step cfg st m = (st', r) -> ok_s st' r.
Proof.
  intros cfg st m st' r Hinv H. unfold server_handshake_step in H.
  destruct (ss_phase st) eqn:Eph; destruct m; try (injection H as <- <-; triv; fail).
  - (* ClientHello *)
    pose proof (version_gate_known (s_mode cfg) (ch_vers ch)) as Hg.
    destruct (version_gate (s_mode cfg) (ch_vers ch)); [injection H as <- <-; triv| |];
      eapply server_process_hello_safe; eassumption.
  - (* client Certificate *)
    destruct Hinv as [Hinv|Hinv]; [rewrite Eph in Hinv; discriminate|].
    repeat (dm H; try (injection H as <- <-; triv; fail)).
    injection H as <- <-. triv. right. exact Hinv.
  - (* ClientKeyExchange *)
    destruct Hinv as [Hinv|Hinv]; [rewrite Eph in Hinv; discriminate|].
    match type of H with (match ?x with _ => _ end) = _ => destruct x as [pms|] end; [|injection H as <- <-; triv].
    cbn [ss_vers ss_add_tr] in H.
    destruct (master_known (ss_vers st) pms (ss_cr st) (TRand (s_rand cfg)) Hinv) as [ms Hms].
    cbn [ss_cr ss_add_tr] in H. rewrite Hms in H.
    injection H as <- <-. triv. right. exact Hinv.
  - (* CertificateVerify *)
    destruct Hinv as [Hinv|Hinv]; [rewrite Eph in Hinv; discriminate|].
    repeat (dm H; try (injection H as <- <-; triv; fail)).
    injection H as <- <-. triv. right. exact Hinv.
  - (* NextProtocol *)
    destruct Hinv as [Hinv|Hinv]; [rewrite Eph in Hinv; discriminate|].
    injection H as <- <-. triv. right. exact Hinv.
  - (* Finished *)
    unfold server_finish in H.
    repeat (dm H; try (injection H as <- <-; triv; fail)).
Qed.

Lemma server_step_safe : forall cfg st i st' r,
  sinv st -> server_step cfg st i = (st', r) -> ok_s st' r.
Proof.
  intros cfg st i st' r Hinv H. unfold server_step in H.
  destruct (read_record _ (ss_warn st) i) eqn:Er.
  - injection H as <- <-. triv.
  - injection H as <- <-. triv. exact Hinv.
  - eapply server_handshake_step_safe; [|exact H]. exact Hinv.
  - injection H as <- <-. triv.
    destruct Hinv as [Hinv|Hinv]; [|right; exact Hinv].
    (* a ChangeCipherSpec is only accepted in phase SP_CCS *)
    rewrite Hinv in Er. destruct i; cbn in Er; try discriminate.
    destruct (desc =? 0); [discriminate|]. destruct (level =? 1); [|discriminate].
    match type of Er with (if ?c then _ else _) = _ => destruct c; discriminate end.
Qed.

Lemma read_record_eof : forall w n, read_record w n IEOF = RLError.
Proof. reflexivity. Qed.

Lemma server_step_eof : forall cfg st, snd (server_step cfg st IEOF) = SError.
Proof. intros. unfold server_step. rewrite read_record_eof. reflexivity. Qed.

Lemma server_run_safe : forall cfg ins st, sinv st ->
  run (server_step cfg) st ins <> RPanic /\ run (server_step cfg) st ins <> RHang.
Proof.
  intros cfg ins. induction ins as [|i rest IH]; intros st Hinv; [split; discriminate|].
  cbn [run]. destruct (server_step cfg st i) as [st' r] eqn:E.
  pose proof (server_step_safe cfg st i st' r Hinv E) as [Hp [Hh Hc]].
  destruct r; try (split; discriminate); try contradiction.
  destruct (is_eof i) eqn:Ee.
  - destruct i; try discriminate.
  - apply IH. apply Hc. reflexivity.
Qed.

(* -- client -- *)
Definition cinv (cfg : cconfig) (st : cstate) : Prop :=
  (c_gm cfg = true -> cs_vers st = VersionGMSSL /\ (cs_kx st = KxECC \/ cs_kx st = KxECDHE_GM)) /\
  (c_gm cfg = false -> cs_phase st = CP_ServerHello \/ version_known (cs_vers st) = true).

(* r is neither a panic nor a hang; the invariant is kept *)
Definition ok_c (cfg : cconfig) (st : cstate) (r : sres) : Prop :=
  r <> SPanic /\ r <> SHang /\ (r = SContinue -> cinv cfg st).

Lemma cinv_vers_known : forall cfg st, cinv cfg st -> cs_phase st <> CP_ServerHello -> version_known (cs_vers st) = true.
Proof.
  intros cfg st [Hg Ht] Hp. destruct (c_gm cfg).
  - destruct (Hg eq_refl) as [Hv _]. rewrite Hv. reflexivity.
  - destruct (Ht eq_refl); [contradiction|assumption].
Qed.

Lemma gm_suite_kx : forall have want su, mutualCipherSuite gmCipherSuites have want = Some su ->
  su_kx su = KxECC \/ su_kx su = KxECDHE_GM.
Proof.
  intros have want su H. unfold mutualCipherSuite in H. destruct (mem want have); [|discriminate].
  cbn [find_suite gmCipherSuites su_id] in H.
  repeat match type of H with (if ?c then _ else _) = _ => destruct c; [injection H as <-; cbn; auto|] end.
  discriminate.
Qed.

Lemma client_ckx_cases : forall cfg st,
  (exists pms m, client_ckx cfg st = Ok (pms, m)) \/ (exists e, client_ckx cfg st = Err e).
Proof.
  intros cfg st. unfold client_ckx. destruct (cs_kx st).
  - left. eauto.
  - destruct (cs_skx st) as [p|]; [destruct (term_eqb p (TLabel 29))|]; eauto.
  - destruct (cert_kind (nth_cert 0 (cs_certs st)) =? KIND_RSA); eauto.
  - destruct (cs_skx st) as [p|]; eauto.
  - destruct (cs_skx st) as [p|]; eauto.
Qed.

Lemma client_second_flight_fields : forall cfg st m ms,
  cs_vers (client_second_flight cfg st m ms) = cs_vers st /\ cs_kx (client_second_flight cfg st m ms) = cs_kx st.
Proof.
  intros. unfold client_second_flight. cbn.
  destruct (cs_cert_req st) eqn:E1; destruct (c_cert cfg) as [[? ?]|]; cbn; rewrite ?E1; cbn; auto.
Qed.

Lemma client_after_hello_done_safe : forall cfg st st' r,
  cinv cfg st -> cs_phase st <> CP_ServerHello ->
  client_after_hello_done cfg st = (st', r) -> ok_c cfg st' r.
Proof.
  intros cfg st st' r Hinv Hne H. unfold client_after_hello_done in H.
  pose proof (cinv_vers_known cfg st Hinv Hne) as Hk.
  destruct Hinv as [Hg Ht].
  destruct (client_ckx_cases cfg st) as [[pms [m E]]|[e E]]; rewrite E in H.
  - destruct (master_known (cs_vers st) pms (TRand (c_rand cfg)) (sh_random_of st) Hk) as [ms Hms].
    rewrite Hms in H. injection H as <- <-.
    destruct (client_second_flight_fields cfg st m ms) as [Ev Ek].
    split; [discriminate|]. split; [discriminate|]. intros _. split.
    + intros Egm. rewrite Ev, Ek. apply Hg. exact Egm.
    + intros _. right. rewrite Ev. exact Hk.
  - injection H as <- <-. triv.
Qed.

Lemma cinv_keep : forall cfg st st', cinv cfg st -> cs_phase st <> CP_ServerHello ->
  cs_vers st' = cs_vers st -> cs_kx st' = cs_kx st -> cinv cfg st'.
Proof.
  intros cfg st st' [Hg Ht] Hp Ev Ek. split.
  - intros E. rewrite Ev, Ek. apply Hg. exact E.
  - intros E. right. rewrite Ev. destruct (Ht E); [contradiction|assumption].
Qed.

Ltac keep Hinv Eph :=
  split; [discriminate|]; split; [discriminate|]; intros _;
  eapply cinv_keep; [exact Hinv|rewrite Eph; discriminate|reflexivity|reflexivity].

Lemma client_handshake_step_safe : forall cfg st m st' r,
  cinv cfg st -> client_handshake_step cfg st m = (st', r) -> ok_c cfg st' r.
Proof.
  intros cfg st m st' r Hinv H. unfold client_handshake_step in H.
  destruct (cs_phase st) eqn:Eph; destruct m; try (injection H as <- <-; triv; fail).
  - (* ServerHello *)
    match type of H with (match ?x with _ => _ end) = _ => destruct x as [v|] eqn:Ev end; [|injection H as <- <-; triv].
    destruct (mutualCipherSuite _ (c_suites cfg) (sh_suite sh)) as [su|] eqn:Esu; [|injection H as <- <-; triv].
    destruct (processServerHello cfg sh su) as [resumed|]; [|injection H as <- <-; triv].
    assert (Hkv : version_known v = true).
    { destruct (c_gm cfg).
      - destruct (sh_vers sh =? VersionGMSSL); [injection Ev as <-; reflexivity|discriminate].
      - destruct (mutualVersionMax false (c_maxv cfg) (sh_vers sh)) as [w|] eqn:Ew; [|discriminate].
        destruct (w <? VersionTLS10); [discriminate|]. injection Ev as <-. eapply mutualVersionMax_known; exact Ew. }
    assert (Hfp : exists fp, (if c_gm cfg then Ok 0 else prfForVersion v) = Ok fp).
    { destruct (c_gm cfg); [eexists; reflexivity|apply prfForVersion_known; exact Hkv]. }
    destruct Hfp as [fp Hfp]. rewrite Hfp in H. injection H as <- <-.
    split; [discriminate|]. split; [discriminate|]. intros _. split.
    + intros Eg. rewrite Eg in Ev, Esu. cbn [cs_vers cs_kx]. split.
      * destruct (sh_vers sh =? VersionGMSSL); [injection Ev as <-; reflexivity|discriminate].
      * eapply gm_suite_kx. exact Esu.
    + intros _. right. exact Hkv.
  - (* Certificate *)
    assert (Hne : cs_phase st <> CP_ServerHello) by (rewrite Eph; discriminate).
    repeat (dm H; try (injection H as <- <-; triv; fail)).
    all: injection H as <- <-; keep Hinv Eph.
  - (* ServerKeyExchange after Certificate *)
    repeat (dm H; try (injection H as <- <-; triv; fail)).
    all: injection H as <- <-; keep Hinv Eph.
  - (* CertificateRequest after Certificate *)
    repeat (dm H; try (injection H as <- <-; triv; fail)).
    all: injection H as <- <-; keep Hinv Eph.
  - (* ServerHelloDone after Certificate *)
    destruct (c_gm cfg) eqn:Eg; [injection H as <- <-; triv|].
    eapply client_after_hello_done_safe; [exact Hinv|rewrite Eph; discriminate|exact H].
  - (* CertificateStatus *)
    repeat (dm H; try (injection H as <- <-; triv; fail)).
    all: injection H as <- <-; keep Hinv Eph.
  - (* ServerKeyExchange after CertificateStatus *)
    repeat (dm H; try (injection H as <- <-; triv; fail)).
    all: injection H as <- <-; keep Hinv Eph.
  - (* CertificateRequest after CertificateStatus *)
    repeat (dm H; try (injection H as <- <-; triv; fail)).
    all: injection H as <- <-; keep Hinv Eph.
  - destruct (c_gm cfg) eqn:Eg; [injection H as <- <-; triv|].
    eapply client_after_hello_done_safe; [exact Hinv|rewrite Eph; discriminate|exact H].
  - (* CertificateRequest after ServerKeyExchange *)
    injection H as <- <-; keep Hinv Eph.
  - eapply client_after_hello_done_safe; [exact Hinv|rewrite Eph; discriminate|exact H].
  - eapply client_after_hello_done_safe; [exact Hinv|rewrite Eph; discriminate|exact H].
  - (* NewSessionTicket *)
    injection H as <- <-; keep Hinv Eph.
  - (* Finished *)
    repeat (dm H; try (injection H as <- <-; triv; fail)).
Qed.

Lemma client_step_safe : forall cfg st i st' r,
  cinv cfg st -> client_step cfg st i = (st', r) -> ok_c cfg st' r.
Proof.
  intros cfg st i st' r Hinv H. unfold client_step in H.
  destruct (read_record _ (cs_warn st) i) eqn:Er.
  - injection H as <- <-. triv.
  - injection H as <- <-. split; [discriminate|]. split; [discriminate|]. intros _.
    destruct Hinv as [Hg Ht]. split; [exact Hg|exact Ht].
  - assert (Hinv' : cinv cfg (cs_set_warn st 0)) by (destruct Hinv as [Hg Ht]; split; [exact Hg|exact Ht]).
    exact (client_handshake_step_safe cfg (cs_set_warn st 0) m st' r Hinv' H).
  - injection H as <- <-. split; [discriminate|]. split; [discriminate|]. intros _.
    assert (Hph : cs_phase st = CP_CCS).
    { destruct (cs_phase st); try reflexivity; destruct i; cbn in Er; try discriminate;
        destruct (desc =? 0); try discriminate; destruct (level =? 1); try discriminate;
        match type of Er with (if ?c then _ else _) = _ => destruct c; discriminate end. }
    destruct Hinv as [Hg Ht]. split; [exact Hg|].
    intros E. right. destruct (Ht E) as [Hx|Hx]; [rewrite Hph in Hx; discriminate|exact Hx].
Qed.

Lemma cinv_init : forall cfg, cinv cfg (client_init cfg).
Proof.
  intros cfg. split; intros E; cbn; [rewrite E; auto|left; reflexivity].
Qed.

Lemma client_run_safe : forall cfg ins st, cinv cfg st ->
  run (client_step cfg) st ins <> RPanic /\ run (client_step cfg) st ins <> RHang.
Proof.
  intros cfg ins. induction ins as [|i rest IH]; intros st Hinv; [split; discriminate|].
  cbn [run]. destruct (client_step cfg st i) as [st' r] eqn:E.
  pose proof (client_step_safe cfg st i st' r Hinv E) as [Hp [Hh Hc]].
  destruct r; try (split; discriminate); try contradiction.
  destruct (is_eof i) eqn:Ee.
  - destruct i; try discriminate.
  - apply IH. apply Hc. reflexivity.
Qed.

(* end of stream is an error *)
Lemma run_eof_error : forall {St} (step : St -> input -> St * sres),
  (forall st, snd (step st IEOF) = SError) ->
  forall ins st, In IEOF ins ->
    match run step st ins with RWaiting _ => False | _ => True end.
Proof.
  intros St step Heof ins. induction ins as [|i rest IH]; intros st Hin; [destruct Hin|].
  cbn [run]. destruct (step st i) as [st' r] eqn:E.
  destruct r; try exact I.
  destruct (is_eof i) eqn:Ee; [exact I|].
  apply IH. destruct Hin as [Hin|Hin]; [subst i; discriminate|exact Hin].
Qed.

Lemma client_step_eof : forall cfg st, snd (client_step cfg st IEOF) = SError.
Proof. intros. unfold client_step. rewrite read_record_eof. reflexivity. Qed.

(* ---- end of stream, exactly ------------------------------------------------------------------------------------ *)
Lemma run_app : forall {St} (step : St -> input -> St * sres) a b st,
  run step st (a ++ b) = match run step st a with RWaiting st' => run step st' b | r => r end.
Proof.
  intros St step a. induction a as [|i a IH]; intros b st; [reflexivity|].
  cbn [app run]. destruct (step st i) as [st' r]. destruct r; try reflexivity.
  destruct (is_eof i); [reflexivity|apply IH].
Qed.

(* what was decided before the stream ended stays; an endpoint still reading when it ends fails *)
Lemma run_eof_exact : forall {St} (step : St -> input -> St * sres),
  (forall st, snd (step st IEOF) = SError) ->
  forall pre post st,
    run step st (pre ++ IEOF :: post) = match run step st pre with RWaiting _ => RError | r => r end.
Proof.
  intros St step Heof pre post st. rewrite run_app. destruct (run step st pre) as [st'| | | |]; try reflexivity.
  cbn [run]. specialize (Heof st'). destruct (step st' IEOF) as [s r]. cbn in Heof. subst r. reflexivity.
Qed.
