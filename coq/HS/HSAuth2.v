(* C08, second part: the standard-TLS client ([tls_client_complete_requires]), resumption on both sides
   ([gm_client_complete_requires_general], [server_complete_requires_general], the ticket gate at term level) and the
   two attacker-level facts about resumption ([ticket_unforgeable], [finished_needs_master]). *)
From Coq Require Import List NArith Arith Bool Lia.
From GmsmVerif Require Import Lib.Outcome HS.HSTerms HS.HSModel HS.HSProofs HS.HSClientFlight HS.HSTlsClientFlight
     HS.HSServerFlight HS.HSAuth.
Import ListNotations.
Local Open Scope N_scope.

(* ---- the standard-TLS client ---------------------------------------------------------------------- *)
Lemma In_mid_skx : forall status skx req p s, skx = Some (p, s) -> In (IHs (MServerKeyExchange true p s)) (mid_inputs status skx req).
Proof.
  intros status skx req p s ->. unfold mid_inputs. apply in_or_app. right. apply in_or_app. left. cbn. auto.
Qed.

Definition tls_client_requirements (cfg : cconfig) (ins : list input) (st' : cstate) : Prop :=
  exists sh v su c0 rest vd,
    let certs := c0 :: rest in
    let cr := TRand (c_rand cfg) in
    let sr := sh_random sh in
    let pms := TPMS (c_pms cfg) in
    In (IHs (MServerHello sh)) ins /\ In (IHs (MCertificate certs)) ins /\ In (IHs (MFinished vd)) ins /\
    (* negotiated version and suite *)
    mutualVersionMax false (c_maxv cfg) (sh_vers sh) = Some v /\ (v <? VersionTLS10) = false /\
    mutualCipherSuite cipherSuites (c_suites cfg) (sh_suite sh) = Some su /\
    (* (i)-(ii) the chain was verified for the requested name at the configured time: the leaf is in c_trusted *)
    forallb is_cert certs = true /\ tmem c0 (c_trusted cfg) = true /\
    (* (iii)/(iv) the key exchange *)
    ((su_kx su = KxRSA /\ cert_kind c0 = KIND_RSA /\
      (* RSA suites: no ServerKeyExchange; the pre-master secret went out encrypted to the CERTIFICATE's key *)
      In (OHs (MClientKeyExchange true (TEnc (cert_pub c0) pms))) (cs_out st')) \/
     (exists p sig, (su_kx su = KxECDHE_RSA \/ su_kx su = KxECDHE_ECDSA) /\
      (* ECDHE suites: a ServerKeyExchange whose signature verifies under the leaf's key over THIS session's randoms and
         the parameters; the pre-master secret is bound to those parameters *)
      In (IHs (MServerKeyExchange true p sig)) ins /\
      verify (cert_pub c0) sig (skx_payload cr sr p) = true /\
      In (OHs (MClientKeyExchange true (TEnc p pms))) (cs_out st'))) /\
    (* (v) Finished over this session's transcript, keyed with this session's master secret *)
    exists master tr_rest,
      masterFromPreMasterSecret v pms cr sr = Ok master /\ cs_master st' = master /\
      let tr := [enc_hmsg (MClientHello (client_hello_of cfg)); enc_hmsg (MServerHello sh); enc_hmsg (MCertificate certs)] ++ tr_rest in
      (exists fp, prfForVersion v = Ok fp /\ vd = finished_sum fp master L_server_finished tr) /\
      cs_tr st' = tr ++ [enc_hmsg (MFinished vd)].

Theorem tls_client_complete_requires : forall cfg ins st',
  c_gm cfg = false -> c_verify cfg = true -> c_session cfg = None ->
  client_run cfg ins = RComplete st' -> tls_client_requirements cfg ins st'.
Proof.
  intros cfg ins st' Hgm Hvf Hsess H.
  assert (Hf : tls_client_flight_ok cfg (strip ins) st').
  { apply tls_client_complete_flight; [exact Hgm|apply nowarn_strip|]. eapply client_run_strip; [exact H|reflexivity]. }
  destruct Hf as [sh [v [su [fp [resumed [l1 [El [Hv [Hv10 [Hsu [Hpsh [Hfp Hrest]]]]]]]]]]]].
  pose proof (no_session_not_resumed cfg sh su resumed Hsess Hpsh) as ->.
  destruct Hrest as [c0 [rest [status [skx [req [l2 [El1 [Hparse [Htrust [Hkind [Hst [Hskx Htail]]]]]]]]]]]].
  cbn zeta in El1, Hskx, Htail.
  assert (Hin : forall i, In i (IHs (MServerHello sh) :: l1) -> In i ins) by (intros i Hi; apply In_strip; rewrite El; exact Hi).
  unfold tail_ok in Htail.
  destruct Htail as [pms [ckxm [master [nst [vd [rest' [Hckx [Hms [El2 [Hvd [Hmaster [Htr Hout]]]]]]]]]]]].
  cbn zeta in El2, Hvd, Htr, Hout.
  unfold client_ckx, mid_state, tls_after_cert, sh_random_of, sh_ticket_of in Hckx, Hms, El2, Hvd, Htr, Hout.
  cbn [cs_vers cs_fp cs_sh cs_kx cs_certs cs_skx cs_cert_req cs_tr cs_out nth_cert nth] in Hckx, Hms, El2, Hvd, Htr, Hout.
  exists sh, v, su, c0, rest, vd. cbn zeta.
  split; [apply Hin; left; reflexivity|].
  split; [apply Hin; right; rewrite El1; left; reflexivity|].
  split. { apply Hin. right. rewrite El1. right. apply in_or_app. right. right. rewrite El2.
           apply in_or_app. right. right. left. reflexivity. }
  split; [exact Hv|]. split; [exact Hv10|]. split; [exact Hsu|]. split; [exact Hparse|]. split; [apply Htrust; exact Hvf|].
  (* the ClientKeyExchange *)
  assert (Hpms : pms = TPMS (c_pms cfg) /\
    ((su_kx su = KxRSA /\ cert_kind c0 = KIND_RSA /\ ckxm = MClientKeyExchange true (TEnc (cert_pub c0) (TPMS (c_pms cfg)))) \/
     (exists p sig, (su_kx su = KxECDHE_RSA \/ su_kx su = KxECDHE_ECDSA) /\ skx = Some (p, sig) /\
                    ckxm = MClientKeyExchange true (TEnc p (TPMS (c_pms cfg)))))).
  { assert (Hgmkx : su_kx su <> KxECC /\ su_kx su <> KxECDHE_GM).
    { unfold mutualCipherSuite in Hsu. destruct (mem _ _); [|discriminate]. cbn [find_suite cipherSuites su_id] in Hsu.
      repeat match type of Hsu with (if ?c then _ else _) = _ => destruct c; [injection Hsu as <-; cbn; split; intro Hx; discriminate Hx|] end.
      discriminate. }
    destruct Hgmkx as [Hk1 Hk2].
    destruct (su_kx su) eqn:Ek; try contradiction.
    - destruct (cert_kind c0 =? KIND_RSA) eqn:Er; [|discriminate]. injection Hckx as <- <-. apply N.eqb_eq in Er.
      split; [reflexivity|]. left. auto.
    - destruct skx as [[p s]|]; [|cbn in Hckx; discriminate]. cbn in Hckx. injection Hckx as <- <-.
      split; [reflexivity|]. right. exists p, s. auto.
    - destruct skx as [[p s]|]; [|cbn in Hckx; discriminate]. cbn in Hckx. injection Hckx as <- <-.
      split; [reflexivity|]. right. exists p, s. auto. }
  destruct Hpms as [-> Hkx].
  assert (Hckx_out : In (OHs ckxm) (cs_out st')).
  { rewrite Hout. apply in_or_app. right. apply in_or_app. right. apply in_or_app. left. cbn. auto. }
  split.
  { destruct Hkx as [[Hk [Hr ->]]|[p [sig [Hk [Es ->]]]]].
    - left. auto.
    - right. exists p, sig. split; [exact Hk|]. split.
      + apply Hin. right. rewrite El1. right. apply in_or_app. left. apply In_mid_skx. exact Es.
      + split; [|exact Hckx_out].
        pose proof (Hskx p sig Es) as Hc. unfold skx_check in Hc.
        unfold tls_after_cert, sh_random_of in Hc. cbn [cs_kx cs_certs nth_cert nth cs_sh] in Hc.
        destruct Hk as [Hk|Hk]; rewrite Hk in Hc; apply andb_prop in Hc; apply Hc. }
  exists master. eexists. split; [exact Hms|]. split; [exact Hmaster|]. cbn zeta.
  unfold sf_tr2, sf_tr1 in Hvd, Htr. rewrite <- !app_assoc in Hvd, Htr. cbn [app] in Hvd, Htr.
  split.
  - exists fp. split; [exact Hfp|]. cbn [app]. exact Hvd.
  - rewrite Htr. repeat (progress (rewrite <- ?app_assoc; cbn [app])). reflexivity.
Qed.

(* ---- resumption --------------------------------------------------------------------------------------- *)
(* the ticket gate at term level (the idealisation of Resume/TicketModel.v, C16_ticket_gate: a ticket opens exactly when
   it is what encryptTicket produced under the configured key for the returned state) *)
Lemma ticket_gate : forall key t st, decryptTicket key t = Some st <-> t = encryptTicket key st.
Proof.
  intros key t st. unfold decryptTicket, encryptTicket. split.
  - destruct t; try discriminate. destruct t1; try discriminate. destruct t2; try discriminate.
    destruct ((k =? key) && (k0 =? key)) eqn:E; [|discriminate]. intros [= <-].
    apply andb_prop in E. destruct E as [E1 E2]. apply N.eqb_eq in E1. apply N.eqb_eq in E2. subst. reflexivity.
  - intros ->. rewrite N.eqb_refl. reflexivity.
Qed.

(* GMSSL client with a cached session: completion is a full handshake with all of client_requirements' checks, or a
   resumption whose Finished is keyed with the CACHED master secret over this connection's transcript *)
Definition client_resumed_requirements (cfg : cconfig) (ins : list input) (st' : cstate) : Prop :=
  exists sh nst vd ticket ssuite ms,
    c_session cfg = Some (ticket, ssuite, ms) /\
    In (IHs (MServerHello sh)) ins /\ In (IHs (MFinished vd)) ins /\
    sh_session_id sh = TRand (c_sid cfg) /\ sh_suite sh = ssuite /\
    let tr := [enc_hmsg (MClientHello (client_hello_of cfg)); enc_hmsg (MServerHello sh)]
              ++ (if sh_ticket_supported sh then [enc_hmsg (MNewSessionTicket nst)] else []) in
    vd = finished_sum 0 ms L_server_finished tr /\ cs_master st' = ms.

Lemma processServerHello_resumed : forall cfg sh su, processServerHello cfg sh su = Some true ->
  exists t ss ms, c_session cfg = Some (t, ss, ms) /\ sh_session_id sh = TRand (c_sid cfg) /\ ss = su_id su.
Proof.
  intros cfg sh su H. unfold processServerHello in H.
  repeat match type of H with (if ?c then _ else _) = _ => destruct c; try discriminate end.
  destruct (c_session cfg) as [[[t ss] ms]|]; [|discriminate].
  destruct (term_eqb (sh_session_id sh) (TRand (c_sid cfg))) eqn:E; [|discriminate].
  destruct (ss =? su_id su) eqn:E2; [|discriminate].
  apply term_eqb_eq in E. apply N.eqb_eq in E2. exists t, ss, ms. auto.
Qed.

Lemma mutual_suite_id : forall tbl have want su, mutualCipherSuite tbl have want = Some su -> su_id su = want.
Proof.
  intros tbl have want su H. unfold mutualCipherSuite in H. destruct (mem want have); [|discriminate].
  induction tbl as [|s r IH]; cbn in H; [discriminate|].
  destruct (su_id s =? want) eqn:E; [injection H as <-; apply N.eqb_eq; exact E|apply IH; exact H].
Qed.

Theorem gm_client_complete_requires_general : forall cfg ins st',
  c_gm cfg = true -> c_verify cfg = true -> ecc_only cfg ->
  client_run cfg ins = RComplete st' ->
  client_requirements cfg ins st' \/ client_resumed_requirements cfg ins st'.
Proof.
  intros cfg ins st' Hgm Hvf Hecc H.
  assert (Hf : (exists f rest, strip ins = gm_flight_inputs f ++ rest /\ gm_full_flight_ok cfg f st') \/
               (exists sh nst vd rest, strip ins = gm_resumed_inputs sh nst vd ++ rest /\ gm_resumed_ok cfg sh nst vd st')).
  { apply gm_client_complete_flight; [exact Hgm|apply nowarn_strip|]. eapply client_run_strip; [exact H|reflexivity]. }
  destruct Hf as [Hfull|[sh [nst [vd [rest [El Hok]]]]]].
  - left.
    (* the full-handshake branch: as in client_complete_requires, which did not use the absence of a session there *)
    destruct Hfull as [f [rest [El Hok]]].
    destruct f as [sh certs p sig req nst vd].
    unfold gm_full_flight_ok in Hok. cbn [gf_sh gf_certs gf_params gf_sig gf_req gf_nst gf_vd] in Hok.
    destruct Hok as [su [pms [ckxm [Hv [Hsu [Hpsh [Hlen [Hchk [Htrust [Hkx Hrest]]]]]]]]]].
    pose proof (ecc_only_kx cfg _ su Hecc Hsu) as Hecc'.
    destruct Hkx as [[_ [Hsig [Epms Eckx]]]|[Hk _]]; [|rewrite Hecc' in Hk; discriminate].
    subst pms ckxm. cbn zeta in Hrest. destruct Hrest as [Hvd [Hms [Htr Hout]]].
    unfold gm_flight_inputs in El. cbn [gf_sh gf_certs gf_params gf_sig gf_req gf_nst gf_vd] in El.
    assert (Hin : forall i, In i (gm_flight_inputs (mkGF sh certs p sig req nst vd)) -> In i ins).
    { intros i Hi. apply In_strip. unfold gm_flight_inputs in Hi.
      cbn [gf_sh gf_certs gf_params gf_sig gf_req gf_nst gf_vd] in Hi. rewrite El. apply in_or_app. left. exact Hi. }
    exists sh, certs, p, sig, vd.
    split; [apply Hin; unfold gm_flight_inputs; cbn; auto|].
    split; [apply Hin; unfold gm_flight_inputs; cbn; auto|].
    split; [apply Hin; unfold gm_flight_inputs; cbn; auto|].
    split. { apply Hin. unfold gm_flight_inputs. cbn [gf_sh gf_certs gf_params gf_sig gf_req gf_nst gf_vd].
             apply in_or_app. right. apply in_or_app. right. apply in_or_app. right. apply in_or_app. right. cbn. auto. }
    cbn zeta. split; [exact Hlen|]. split; [apply gm_cert_checks_01; assumption|].
    split; [apply Htrust; exact Hvf|]. split; [exact Hsig|].
    split. { rewrite Hout. unfold gm_out_final. apply in_or_app. right. apply in_or_app. right. apply in_or_app. left. cbn. auto. }
    split; [exact Hms|].
    unfold gm_tr_final, sf_tr2, sf_tr1, gm_tr0 in Hvd, Htr.
    cbn [gf_sh gf_certs gf_params gf_sig gf_req gf_nst gf_vd] in Hvd, Htr.
    rewrite <- !app_assoc in Hvd, Htr. cbn [app] in Hvd, Htr.
    eexists. cbn zeta. cbn [app]. split; [exact Hvd|]. rewrite Htr.
    repeat (progress (rewrite <- ?app_assoc; cbn [app])). reflexivity.
  - right.
    destruct Hok as [su [t [ss [ms [Hs [Hv [Hsu [Hpsh Hrest]]]]]]]]. cbn zeta in Hrest. destruct Hrest as [Hvd [Hms _]].
    destruct (processServerHello_resumed cfg sh su Hpsh) as [t' [ss' [ms' [Hs' [Hsid Hss]]]]].
    rewrite Hs in Hs'. injection Hs' as <- <- <-.
    assert (Hin : forall i, In i (gm_resumed_inputs sh nst vd) -> In i ins).
    { intros i Hi. apply In_strip. rewrite El. apply in_or_app. left. exact Hi. }
    exists sh, nst, vd, t, ss, ms. split; [exact Hs|].
    split; [apply Hin; unfold gm_resumed_inputs; cbn; auto|].
    split. { apply Hin. unfold gm_resumed_inputs. apply in_or_app. right. apply in_or_app. right. cbn. auto. }
    split; [exact Hsid|]. split; [rewrite Hss; symmetry; eapply mutual_suite_id; exact Hsu|].
    cbn zeta. split; [exact Hvd|exact Hms].
Qed.

Lemma server_try_resume_fields : forall cfg st ch gm vers pick configured st1,
  server_try_resume cfg st ch gm vers pick configured = Some (st1, SContinue) ->
  exists tstate ts ms tcerts,
    s_tickets cfg = true /\
    decryptTicket (s_ticket_key cfg) (ch_ticket ch) = Some tstate /\
    parse_session_state tstate = Some (vers, ts, ms, tcerts) /\
    mem ts (ch_suites ch) = true /\
    (* client-certificate policy against what the ticket stores *)
    ((s_auth cfg = 2 \/ s_auth cfg = 4) -> tcerts <> []) /\ (s_auth cfg = 0 -> tcerts = []) /\
    processCertsFromClient cfg tcerts = Some (ss_peer st1) /\
    ss_resumed st1 = true /\ ss_master st1 = ms /\ ss_vers st1 = vers.
Proof.
  intros cfg st ch gm vers pick configured st1 H. unfold server_try_resume in H.
  destruct (s_tickets cfg) eqn:Et; cbn [negb] in H; [|discriminate].
  destruct (decryptTicket (s_ticket_key cfg) (ch_ticket ch)) as [tstate|] eqn:Ed; [|discriminate].
  destruct (parse_session_state tstate) as [[[[tv ts] ms] tcerts]|] eqn:Ep; [|discriminate].
  destruct (tv =? vers) eqn:Ev; cbn [negb] in H; [|discriminate]. apply N.eqb_eq in Ev. subst tv.
  destruct (mem ts (ch_suites ch)) eqn:Em; cbn [negb] in H; [|discriminate].
  destruct (pick ts configured vers) as [su|]; [|discriminate].
  match type of H with (if ?c then _ else _) = _ => destruct c eqn:E1 end; [discriminate|].
  match type of H with (if ?c then _ else _) = _ => destruct c eqn:E2 end; [discriminate|].
  injection H as H.
  destruct (if gm then Ok 0 else prfForVersion vers) as [fp|e| |]; try discriminate.
  destruct (processCertsFromClient cfg tcerts) as [peer|] eqn:Epc; [|discriminate].
  injection H as <-.
  exists tstate, ts, ms, tcerts. repeat split; auto.
  - intros Ha Hc. subst tcerts. cbn in E1. destruct Ha as [Ha|Ha]; rewrite Ha in E1; discriminate.
  - intros Ha. rewrite Ha in E2. cbn in E2. rewrite andb_true_r in E2. destruct tcerts; [reflexivity|discriminate].
Qed.

Lemma hello_resumed_fields : forall cfg ch st1, 
  server_handshake_step cfg (ss_set_warn server_init 0) (MClientHello ch) = (st1, SContinue) -> ss_resumed st1 = true ->
  exists tstate ts ms tcerts,
    s_tickets cfg = true /\
    decryptTicket (s_ticket_key cfg) (ch_ticket ch) = Some tstate /\
    parse_session_state tstate = Some (ss_vers st1, ts, ms, tcerts) /\
    mem ts (ch_suites ch) = true /\
    ((s_auth cfg = 2 \/ s_auth cfg = 4) -> tcerts <> []) /\ (s_auth cfg = 0 -> tcerts = []) /\
    processCertsFromClient cfg tcerts = Some (ss_peer st1) /\ ss_master st1 = ms.
Proof.
  intros cfg ch st1 H Hres. unfold server_handshake_step in H. cbn [ss_phase ss_set_warn server_init] in H.
  destruct (version_gate (s_mode cfg) (ch_vers ch)); [discriminate| |];
    unfold server_process_hello in H;
    repeat (dmH H; try discriminate);
    try (apply server_send_flight_not_resumed in H; rewrite H in Hres; discriminate);
    match goal with Hx : server_try_resume _ _ _ _ _ _ _ = Some _ |- _ => rewrite H in Hx; apply server_try_resume_fields in Hx end;
    match goal with Hx : exists _, _ |- _ =>
      destruct Hx as [tstate [ts [ms [tcerts [A [B [C [D [E [F [G [_ [I J]]]]]]]]]]]]]; rewrite <- J in C;
      exists tstate, ts, ms, tcerts; repeat split; auto end.
Qed.

(* a resumed handshake on the server: the ticket opens under the ticket key to a session state, and the client's
   Finished is keyed with the master secret stored in it *)
Definition server_resumed_requirements (cfg : sconfig) (ins : list input) (st' : sstate) : Prop :=
  exists ch st1 tstate ts ms tcerts vd rest,
    server_handshake_step cfg (ss_set_warn server_init 0) (MClientHello ch) = (st1, SContinue) /\
    strip ins = [IHs (MClientHello ch); ICCS true] ++ (if ss_npn st1 then [IHs MNextProtocol] else []) ++ [IHs (MFinished vd)] ++ rest /\
    (* the ticket gate: what the client sent is what encryptTicket produced under this server's ticket key *)
    ch_ticket ch = encryptTicket (s_ticket_key cfg) tstate /\
    parse_session_state tstate = Some (ss_vers st1, ts, ms, tcerts) /\ mem ts (ch_suites ch) = true /\
    (* the ClientAuth policy is applied to the certificates stored in the ticket, which are verified again *)
    ((s_auth cfg = 2 \/ s_auth cfg = 4) -> tcerts <> []) /\ (s_auth cfg = 0 -> tcerts = []) /\
    processCertsFromClient cfg tcerts = Some (ss_peer st1) /\
    (* Finished keyed with the ORIGINAL session's master secret, over this connection's transcript *)
    vd = finished_sum (ss_fp st1) ms L_client_finished (ss_tr st1 ++ (if ss_npn st1 then [enc_hmsg MNextProtocol] else [])) /\
    ss_master st' = ms.

Theorem server_complete_requires_general : forall cfg ins st',
  server_run cfg ins = RComplete st' ->
  (exists ch st1, server_handshake_step cfg (ss_set_warn server_init 0) (MClientHello ch) = (st1, SContinue) /\
                  ss_resumed st1 = false /\ In (IHs (MClientHello ch)) ins) \/
  server_resumed_requirements cfg ins st'.
Proof.
  intros cfg ins st' H.
  assert (Hf : server_flight_ok cfg (strip ins) st').
  { apply server_complete_flight; [apply nowarn_strip|]. eapply server_run_strip; [exact H|reflexivity]. }
  destruct Hf as [ch [st1 [l1 [El [Hstep Hcases]]]]].
  destruct Hcases as [[Hres _]|[Hres Hccs]].
  - left. exists ch, st1. split; [exact Hstep|]. split; [exact Hres|]. apply In_strip. rewrite El. left. reflexivity.
  - right. destruct (hello_resumed_fields cfg ch st1 Hstep Hres) as [tstate [ts [ms [tcerts [Ht [Hd [Hp [Hm [Ha [Hb [Hc Hms]]]]]]]]]]].
    unfold ccs_tail_ok in Hccs. destruct Hccs as [vd [rest [El1 [Hvd Hfin]]]]. cbn zeta in Hvd, Hfin.
    apply server_finish_fields in Hfin. cbn [ss_master] in Hfin. destruct Hfin as [Hm' _].
    exists ch, st1, tstate, ts, ms, tcerts, vd, rest.
    split; [exact Hstep|]. split; [rewrite El, El1; reflexivity|].
    split; [apply ticket_gate; exact Hd|]. split; [exact Hp|]. split; [exact Hm|]. split; [exact Ha|]. split; [exact Hb|].
    split; [exact Hc|]. split; [rewrite <- Hms; exact Hvd|]. rewrite Hm'. exact Hms.
Qed.

(* against the network attacker: a ticket that opens under a key the attacker does not hold was issued by the holder
   (its authenticated state occurs in an observed message), and a Finished keyed with a master secret the attacker cannot
   derive was computed by someone who knows it *)
Lemma ticket_unforgeable : forall AK own (K : term -> Prop) key t st,
  derives AK own K t -> decryptTicket key t = Some st -> AK key = false ->
  exists u, K u /\ sub (TSig key st) u.
Proof.
  intros AK own K key t st Hd Hdec Hk. apply ticket_gate in Hdec. subst t.
  eapply sig_origin_gen; [exact Hd|exact Hk|]. unfold encryptTicket. cbn [sub]. right. right. left. reflexivity.
Qed.

Lemma finished_needs_master : forall AK own (K : term -> Prop) fp ms label tr,
  derives AK own K (finished_sum fp ms label tr) -> ~ derives AK own K ms ->
  exists u, K u /\ sub (finished_sum fp ms label tr) u.
Proof.
  intros AK own K fp ms label tr Hd Hn. unfold finished_sum in *.
  eapply prf_origin_gen; [exact Hd|exact Hn|apply sub_refl].
Qed.
