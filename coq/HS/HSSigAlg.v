(* The decision logic of gmtls/auth.go and of the digest selection in prf.go / key_agreement.go (no proofs in this
   file): which (signature scheme, signature type, hash) is picked for which key type, TLS version and lists of
   schemes; which key type each signature type is verified with; which digest of the handshake is signed.
   The tables are the ones the translator reads from the source (Gen/HSSigTables.v, target hssig).
   crypto.Hash numbers: SHA1 3, SHA256 5, SHA384 6, SHA512 7, MD5SHA1 8 (stdlib constants). *)
From Coq Require Import List NArith Arith Bool.
From GmsmVerif Require Import Lib.Outcome Gen.HSSigTables.
Import ListNotations.
Local Open Scope N_scope.

(* pubkey.(type) *)
Inductive pubkind := PK_RSA | PK_ECDSA | PK_SM2 | PK_Other.
Definition kind_code (pk : pubkind) : option N :=
  match pk with PK_RSA => Some 0 | PK_ECDSA => Some 1 | PK_SM2 => Some 2 | PK_Other => None end.

(* the value a two-column table (a Go switch) gives for a key *)
Fixpoint lookup (tbl : list (list N)) (k : N) : option N :=
  match tbl with
  | [] => None
  | [k'; v] :: rest => if k =? k' then Some v else lookup rest k
  | _ :: rest => lookup rest k
  end.
Definition has_row (tbl : list (list N)) (a b : N) : bool :=
  existsb (fun r => match r with [x; y] => (x =? a) && (y =? b) | _ => false end) tbl.

(* prf.go lookupTLSHash: None = "unsupported signature algorithm" *)
Definition lookupTLSHash (alg : N) : option N := lookup gen_lookupTLSHash alg.
(* common.go signatureFromSignatureScheme: 0 for an unknown scheme *)
Definition signatureFromSignatureScheme (alg : N) : N :=
  match lookup gen_signatureFromScheme alg with Some t => t | None => 0 end.
Definition isSupportedSignatureAlgorithm (alg : N) (l : list N) : bool := existsb (N.eqb alg) l.

(* the branch "tlsVersion < VersionTLS12 || len(peerSigAlgs) == 0": the returns of the type switch; the RSA case has two,
   the first for versions before TLS 1.2.  Err 1 = unsupported public key *)
Definition pick_fixed (pk : pubkind) (vers : N) : outcome (N * N * N) :=
  match kind_code pk with
  | None => Err 1
  | Some k =>
    match filter (fun r => match r with x :: _ => x =? k | [] => false end) gen_pick_fixed with
    | [] => Err 1
    | r :: rs =>
      match (if vers <? gsig_VersionTLS12 then r else last rs r) with
      | [_; alg; st; h] => Ok (alg, st, h)
      | _ => Err 1
      end
    end
  end.

(* the loop over peerSigAlgs.  Err 2 = no common algorithm; Panic = "supported signature algorithm has an unknown hash function" *)
Fixpoint pick_loop (pk : pubkind) (peer ours : list N) : outcome (N * N * N) :=
  match peer with
  | [] => Err 2
  | a :: rest =>
    if negb (isSupportedSignatureAlgorithm a ours) then pick_loop pk rest ours
    else
      match lookupTLSHash a with
      | None => Panic
      | Some h =>
        let st := signatureFromSignatureScheme a in
        match kind_code pk with
        | None => Err 1
        | Some k => if has_row gen_pick_loop_compat k st then Ok (a, st, h) else pick_loop pk rest ours
        end
      end
  end.

Definition pickSignatureAlgorithm (pk : pubkind) (peer ours : list N) (vers : N) : outcome (N * N * N) :=
  if (vers <? gsig_VersionTLS12) || Nat.eqb (length peer) 0 then pick_fixed pk vers else pick_loop pk peer ours.

(* verifyHandshakeSignature: the key type each signature type insists on (false: "requires a ... public key" / unknown type) *)
Definition verify_key_ok (st : N) (pk : pubkind) : bool :=
  match lookup gen_verify_key_for_sigtype st, kind_code pk with
  | Some k, Some k' => k =? k'
  | _, _ => false
  end.

(* ---- which digest of the data is signed ------------------------------------------------------------------ *)
Inductive digest :=
| D_MD5SHA1 | D_SHA1 | D_SHA256 | D_SHA384 | D_SHA512 | D_SM3   (* that hash (MD5SHA1: md5 || sha1) of the whole data *)
| D_SSL30.                                                     (* finishedSum30 *)

(* crypto.Hash(h).New(): panics for a hash without an implementation (MD5SHA1, 0, ...) *)
Definition hash_new (h : N) : outcome digest :=
  if h =? 3 then Ok D_SHA1 else if h =? 5 then Ok D_SHA256 else if h =? 6 then Ok D_SHA384
  else if h =? 7 then Ok D_SHA512 else Panic.

Definition VersionSSL30 : N := 768.
Definition VersionGMSSL : N := 257.

(* finishedHash.hashForClientCertificate (the handshake buffer still being there); Err 1 = unsupported signature type *)
Definition hashForClientCertificate (vers st h : N) : outcome digest :=
  if vers =? VersionSSL30 then (if negb (st =? gsig_signaturePKCS1v15) then Err 1 else Ok D_SSL30)
  else if gsig_VersionTLS12 <=? vers then hash_new h
  else if st =? gsig_signatureECDSA then Ok (if vers =? VersionGMSSL then D_SM3 else D_SHA1)      (* h.server.Sum(nil) *)
  else Ok (if vers =? VersionGMSSL then D_SM3 else D_MD5SHA1).                                     (* h.Sum() *)

(* key_agreement.go hashForServerKeyExchange *)
Definition hashForServerKeyExchange (vers st h : N) : outcome digest :=
  if gsig_VersionTLS12 <=? vers then hash_new h
  else if st =? gsig_signatureECDSA then Ok D_SHA1
  else Ok D_MD5SHA1.

(* what the GMSSL client signs in its CertificateVerify: hs.finishedHash.client.Sum(nil), the finishedHash being the one
   of newFinishedHashGM: client = server = sm3.New() *)
Definition gm_client_certificate_verify_digest : digest := D_SM3.
