(* Every GM suite the client offers, not only the two ECC suites.
   A GMSSL client with the default configuration offers ECDHE-SM2 (0xe011, 0xe051) as well.  On that path the model -
   like gm_key_agreement.go - completes only for a ServerKeyExchange that names curve 29 (TLabel 29), whose signature by
   certificate 0's key covers this session's randoms and that parameter block, and then the pre-master secret is a public
   constant (TLabel 0).  This file states that (ecdhe_gm_requirements) and proves that in the multi-session system a
   protected client can never end up there: no honest server ever signs such a parameter block (the server side of
   ECDHE-SM2 is not implemented; an honest server's ServerKeyExchange signs a certificate, an ephemeral key or nothing
   in that position), and the attacker cannot make the signature.  So agreement and secrecy hold for ANY list of GM
   suites. *)
From Coq Require Import List NArith Arith Bool Lia.
From GmsmVerif Require Import Lib.Outcome HS.HSTerms HS.HSModel HS.HSProofs HS.HSClientFlight HS.HSTlsClientFlight
     HS.HSServerFlight HS.HSAuth HS.HSAuth2 HS.HSSystem HS.HSSessions.
Import ListNotations.
Local Open Scope N_scope.

(* ---- 1. what a completed ECDHE-SM2 handshake of the client has checked ---------------------------------------- *)
Definition ecdhe_gm_requirements (cfg : cconfig) (ins : list input) (st' : cstate) : Prop :=
  exists sh certs sig vd,
    In (IHs (MServerHello sh)) ins /\ In (IHs (MCertificate certs)) ins /\
    In (IHs (MServerKeyExchange true (TLabel 29) sig)) ins /\ In (IHs (MFinished vd)) ins /\
    let c0 := nth_cert 0 certs in
    let c1 := nth_cert 1 certs in
    let cr := TRand (c_rand cfg) in
    let sr := sh_random sh in
    (* the PUBLIC constant the X25519 branch of ecdheKeyAgreementGM ends up with *)
    let master := TPRF (TLabel 0) (TPair L_master (TLabel 0)) (TPair cr sr) in
    (2 <= length certs)%nat /\
    (is_cert c0 = true /\ cert_kind c0 = KIND_SM2 /\ N.land (cert_ku c0) KU_SIGN <> 0 /\
     is_cert c1 = true /\ cert_kind c1 = KIND_SM2 /\ N.land (cert_ku c1) KU_ENC <> 0) /\
    (tmem c0 (c_trusted cfg) = true /\ tmem c1 (c_trusted cfg) = true) /\
    (* the signature by certificate 0's key covers this session's randoms and the parameter block "curve 29" *)
    verify (cert_pub c0) sig (skx_payload cr sr (TLabel 29)) = true /\
    In (OHs (MClientKeyExchange true (TPub (c_eph cfg)))) (cs_out st') /\
    cs_master st' = master.

(* the GM table has the two key agreements only *)
Lemma gm_suite_kx : forall cfg want su,
  mutualCipherSuite gmCipherSuites (c_suites cfg) want = Some su -> su_kx su = KxECC \/ su_kx su = KxECDHE_GM.
Proof.
  intros cfg want su H. unfold mutualCipherSuite in H. destruct (mem want (c_suites cfg)); [|discriminate].
  unfold find_suite, gmCipherSuites in H. cbn [find] in H.
  repeat match type of H with context [if ?c then _ else _] => destruct c; [injection H as <-; cbn; auto|] end.
  discriminate.
Qed.

(* a GMSSL client with verification on and no cached session, ANY suite list: completion means the requirements of the
   ECC path or those of the ECDHE path *)
Theorem gm_client_complete_requires_any_suite : forall cfg ins st',
  c_gm cfg = true -> c_verify cfg = true -> c_session cfg = None ->
  client_run cfg ins = RComplete st' ->
  client_requirements cfg ins st' \/ ecdhe_gm_requirements cfg ins st'.
Proof.
  intros cfg ins st' Hgm Hvf Hsess H.
  assert (Hf : (exists f rest, strip ins = gm_flight_inputs f ++ rest /\ gm_full_flight_ok cfg f st') \/
               (exists sh nst vd rest, strip ins = gm_resumed_inputs sh nst vd ++ rest /\ gm_resumed_ok cfg sh nst vd st')).
  { apply gm_client_complete_flight; [exact Hgm|apply nowarn_strip|].
    eapply client_run_strip; [exact H|reflexivity]. }
  destruct Hf as [[f [rest [El Hok]]]|[sh [nst [vd [rest [El Hok]]]]]].
  2:{ destruct Hok as [su [t [ss [ms [Hs _]]]]]. rewrite Hsess in Hs. discriminate. }
  destruct f as [sh certs p sig req nst vd].
  unfold gm_full_flight_ok in Hok. cbn [gf_sh gf_certs gf_params gf_sig gf_req gf_nst gf_vd] in Hok.
  destruct Hok as [su [pms [ckxm [Hv [Hsu [Hpsh [Hlen [Hchk [Htrust [Hkx Hrest]]]]]]]]]].
  assert (Hin : forall i, In i (gm_flight_inputs (mkGF sh certs p sig req nst vd)) -> In i ins).
  { intros i Hi. apply In_strip. rewrite El. apply in_or_app. left. exact Hi. }
  assert (Hfin : In (IHs (MFinished vd)) ins).
  { apply Hin. unfold gm_flight_inputs. cbn [gf_sh gf_certs gf_params gf_sig gf_req gf_nst gf_vd].
    apply in_or_app. right. apply in_or_app. right. apply in_or_app. right. apply in_or_app. right. cbn. auto. }
  destruct Hkx as [[Hk [Hsig [Epms Eckx]]]|[Hk [Hsig [Ep [Epms Eckx]]]]].
  - (* ECC: as client_complete_requires *)
    left. subst pms ckxm. cbn zeta in Hrest. destruct Hrest as [Hvd [Hms [Htr Hout]]].
    exists sh, certs, p, sig, vd.
    split; [apply Hin; unfold gm_flight_inputs; cbn; auto|].
    split; [apply Hin; unfold gm_flight_inputs; cbn; auto|].
    split; [apply Hin; unfold gm_flight_inputs; cbn; auto|].
    split; [exact Hfin|].
    cbn zeta. split; [exact Hlen|]. split; [apply gm_cert_checks_01; assumption|].
    split; [apply Htrust; exact Hvf|]. split; [exact Hsig|].
    split. { rewrite Hout. unfold gm_out_final. apply in_or_app. right. apply in_or_app. right. apply in_or_app. left. cbn. auto. }
    split; [exact Hms|].
    unfold gm_tr_final, sf_tr2, sf_tr1, gm_tr0 in Hvd, Htr.
    cbn [gf_sh gf_certs gf_params gf_sig gf_req gf_nst gf_vd] in Hvd, Htr.
    rewrite <- !app_assoc in Hvd, Htr. cbn [app] in Hvd, Htr.
    eexists. cbn zeta. cbn [app]. split; [exact Hvd|]. rewrite Htr.
    repeat (progress (rewrite <- ?app_assoc; cbn [app])). reflexivity.
  - (* ECDHE-SM2 *)
    right. subst p pms ckxm. cbn zeta in Hrest. destruct Hrest as [Hvd [Hms [Htr Hout]]].
    exists sh, certs, sig, vd.
    split; [apply Hin; unfold gm_flight_inputs; cbn; auto|].
    split; [apply Hin; unfold gm_flight_inputs; cbn; auto|].
    split; [apply Hin; unfold gm_flight_inputs; cbn; auto|].
    split; [exact Hfin|].
    cbn zeta. split; [exact Hlen|]. split; [apply gm_cert_checks_01; assumption|].
    split; [apply Htrust; exact Hvf|]. split; [exact Hsig|].
    split. { rewrite Hout. unfold gm_out_final. apply in_or_app. right. apply in_or_app. right. apply in_or_app. left. cbn. auto. }
    exact Hms.
Qed.

(* ---- 2. where a signature the attacker can get at comes from ------------------------------------------------------ *)
Lemma sig_origin_vis : forall AK own (K : term -> Prop) t, derives AK own K t ->
  forall k p, AK k = false -> vis (TSig k p) t -> exists u, K u /\ vis (TSig k p) u.
Proof.
  intros AK own K t H. induction H; intros k0 p0 Hk Hs; cbn [vis] in Hs;
    try (destruct Hs as [Hs|Hs]; [discriminate|contradiction]).
  - exists t. auto.
  - destruct Hs as [Hs|[Hs|Hs]]; [discriminate|eauto|eauto].
  - apply (IHderives k0 p0 Hk). cbn [vis]. auto.
  - apply (IHderives k0 p0 Hk). cbn [vis]. auto.
  - destruct Hs as [Hs|[Hs|Hs]]; [discriminate|eauto|eauto].
  - apply (IHderives k0 p0 Hk). cbn [vis]. auto.
  - destruct Hs as [Hs|Hs]; [|eauto]. injection Hs as <- <-. rewrite H in Hk. discriminate.
  - apply (IHderives k0 p0 Hk). cbn [vis]. auto.
Qed.

Definition is_sigt (t : term) : Prop := match t with TSig _ _ => True | _ => False end.

Lemma svis_tlist : forall T l, is_sigt T -> vis T (tlist l) -> exists t, In t l /\ vis T t.
Proof.
  intros T l HT. induction l as [|a r IH]; cbn [tlist vis]; intros H.
  - destruct H as [H|[]]. subst T. destruct HT.
  - destruct H as [H|[H|H]]; [subst T; destruct HT|exists a; cbn; auto|].
    destruct (IH H) as [t [Hin Hv]]. exists t. cbn. auto.
Qed.
Lemma svis_label : forall T n, is_sigt T -> ~ vis T (TLabel n).
Proof. intros T n HT [H|[]]. subst T. exact HT. Qed.
Lemma svis_labels : forall T l, is_sigt T -> ~ vis T (tlist (map TLabel l)).
Proof.
  intros T l HT H. apply svis_tlist in H; [|exact HT]. destruct H as [t [Hin Hv]].
  apply in_map_iff in Hin. destruct Hin as [n [<- _]]. eapply svis_label; eassumption.
Qed.
Lemma svis_enc_hmsg : forall T m, is_sigt T -> vis T (enc_hmsg m) -> exists t, In t (hmsg_terms m) /\ vis T t.
Proof.
  intros T m HT H. destruct m; cbn [enc_hmsg] in H; apply svis_tlist in H; try exact HT;
    destruct H as [t [Hin Hv]]; cbn [In] in Hin; cbn [hmsg_terms];
    repeat match goal with
           | H : _ \/ _ |- _ => destruct H
           | H : False |- _ => destruct H
           end; subst;
    try (exfalso; eapply svis_label; eassumption; fail);
    try (exfalso; unfold tb in Hv; eapply svis_label; eassumption; fail);
    try (exfalso; eapply svis_labels; eassumption; fail);
    try (eexists; split; [|eassumption]; cbn; auto; fail).
  apply svis_tlist in Hv; [|exact HT]. exact Hv.
Qed.
Lemma svis_atom : forall T t, is_sigt T ->
  match t with TNil | TRand _ | TPMS _ | TJunk _ | TLabel _ | TPub _ | TCert _ _ _ _ | THash _ | TPRF _ _ _ => True | _ => False end ->
  ~ vis T t.
Proof. intros T t HT Ht Hv. destruct t; try destruct Ht; cbn [vis] in Hv; destruct Hv as [E|[]]; subst T; exact HT. Qed.
Lemma svis_cert : forall T c, is_sigt T -> is_cert c = true -> ~ vis T c.
Proof. intros T c HT Hc. apply svis_atom; [exact HT|]. destruct c; try discriminate. exact I. Qed.

(* the signature no honest party makes: over a "curve 29" parameter block *)
Definition badsig (k : N) (a b : term) : term := TSig k (skx_payload a b (TLabel 29)).

Section Suites.
  Variables AK own : N -> bool.

  Definition sig_inv (s : sys) : Prop :=
    forall k a b u, AK k = false -> In u (wire s) -> ~ vis (badsig k a b) u.

  (* what a GMSSL client writes never shows such a signature *)
  Lemma client_new_clean : forall cfg st i new k a b,
    c_gm cfg = true -> client_wf cfg -> cinv cfg st -> client_new_shape cfg st i new ->
    forall o u, In o new -> In u (out_terms o) -> ~ vis (badsig k a b) u.
  Proof.
    intros cfg st i new k a b Hgm Hwf Hcinv Hshape o u Ho Hu Hv.
    assert (HT : is_sigt (badsig k a b)) by exact I.
    assert (Hfin : forall fp m tr, ~ vis (badsig k a b) (enc_hmsg (MFinished (finished_sum fp m L_client_finished tr)))).
    { intros fp m tr Hx. apply svis_enc_hmsg in Hx; [|exact HT]. destruct Hx as [t [Hin Hx]].
      cbn [hmsg_terms In] in Hin. destruct Hin as [<-|[]]. unfold finished_sum in Hx. eapply svis_atom; [exact HT| |exact Hx]. exact I. }
    destruct Hshape as [->|[[pms [ckxm [master [Ei [Hckx [Hph [Hms ->]]]]]]]|[fp [master [tr ->]]]]].
    - destruct Ho.
    - apply in_app_or in Ho. destruct Ho as [Ho|Ho].
      { unfold sf_cert in Ho. destruct (cs_cert_req st); [|destruct Ho]. cbn in Ho. destruct Ho as [<-|[]].
        cbn [out_terms In] in Hu. destruct Hu as [<-|[]].
        apply svis_enc_hmsg in Hv; [|exact HT]. destruct Hv as [t [Hin Hv]]. cbn [hmsg_terms] in Hin.
        unfold client_wf in Hwf. destruct (c_cert cfg) as [[c kk]|]; [|destruct Hin].
        destruct Hin as [<-|[]]. eapply svis_cert; [exact HT|exact Hwf|exact Hv]. }
      apply in_app_or in Ho. destruct Ho as [Ho|Ho].
      { cbn in Ho. destruct Ho as [<-|[]]. cbn [out_terms In] in Hu. destruct Hu as [<-|[]].
        apply svis_enc_hmsg in Hv; [|exact HT]. destruct Hv as [t [Hin Hv]].
        destruct (gm_client_ckx_cases cfg st pms ckxm Hgm Hcinv Hckx) as [->| ->];
          cbn [hmsg_terms In] in Hin; destruct Hin as [<-|[]].
        - unfold cert_pub, badsig in Hv. cbn [vis] in Hv. destruct Hv as [E|[[E|[]]|[E|[]]]]; discriminate E.
        - eapply svis_atom; [exact HT| |exact Hv]. exact I. }
      apply in_app_or in Ho. destruct Ho as [Ho|Ho].
      { unfold sf_cv in Ho. destruct (cs_cert_req st); [|destruct Ho]. destruct (c_cert cfg) as [[c kk]|]; [|destruct Ho].
        cbn in Ho. destruct Ho as [<-|[]]. cbn [out_terms In] in Hu. destruct Hu as [<-|[]].
        apply svis_enc_hmsg in Hv; [|exact HT]. destruct Hv as [t [Hin Hv]].
        cbn [hmsg_terms In] in Hin. destruct Hin as [<-|[]]. unfold badsig, skx_payload in Hv. cbn [vis tlist] in Hv.
        destruct Hv as [E|[E|[]]]; discriminate E. }
      cbn in Ho. destruct Ho as [<-|[<-|[]]]; [destruct Hu|].
      cbn [out_terms In] in Hu. destruct Hu as [<-|[]]. unfold sf_fin in Hv. eapply Hfin. exact Hv.
    - cbn in Ho. destruct Ho as [<-|[<-|[]]]; [destruct Hu|].
      cbn [out_terms In] in Hu. destruct Hu as [<-|[]]. eapply Hfin. exact Hv.
  Qed.

  (* a server's first flight shows one only if the ClientHello's random already did *)
  Lemma server_flight_clean : forall cfg ch new k a b,
    Forall (fun o => exists m, o = OHs m /\ flight_msg_ok cfg ch m) new ->
    forall o u, In o new -> In u (out_terms o) -> vis (badsig k a b) u -> vis (badsig k a b) (ch_random ch).
  Proof.
    intros cfg ch new k a b Hnew o u Ho Hu Hv.
    assert (HT : is_sigt (badsig k a b)) by exact I.
    rewrite Forall_forall in Hnew. destruct (Hnew o Ho) as [m [-> Hm]].
    cbn [out_terms In] in Hu. destruct Hu as [<-|[]].
    apply svis_enc_hmsg in Hv; [|exact HT]. destruct Hv as [t [Hin Hv]].
    destruct m; cbn [flight_msg_ok] in Hm; try contradiction; cbn [hmsg_terms In] in Hin.
    - destruct Hm as [Hr Hs]. destruct Hin as [<-|[<-|[]]]; exfalso; [rewrite Hr in Hv|rewrite Hs in Hv];
        (eapply svis_atom; [exact HT| |exact Hv]; exact I).
    - exfalso. rewrite Forall_forall in Hm. eapply svis_cert; [exact HT|apply Hm; exact Hin|exact Hv].
    - destruct Hm as [Hp [kk [third [Hs Ht]]]]. destruct Hin as [<-|[<-|[]]].
      + exfalso. destruct Hp as [-> | ->]; (eapply svis_atom; [exact HT| |exact Hv]; exact I).
      + rewrite Hs in Hv. cbn [vis] in Hv. destruct Hv as [E|Hv].
        * exfalso. unfold badsig, skx_payload in E. cbn [tlist] in E. inversion E; subst.
          destruct Ht as [Ht|[Ht|Ht]]; discriminate Ht.
        * unfold skx_payload in Hv. apply svis_tlist in Hv; [|exact HT]. destruct Hv as [t [Hin Hv]].
          cbn [In] in Hin. destruct Hin as [<-|[<-|[<-|[]]]].
          -- exact Hv.
          -- exfalso. eapply svis_atom; [exact HT| |exact Hv]. exact I.
          -- exfalso. destruct Ht as [Ht|[-> | ->]];
               [eapply svis_cert; [exact HT|exact Ht|exact Hv]|eapply svis_atom; [exact HT| |exact Hv]; exact I
               |eapply svis_atom; [exact HT| |exact Hv]; exact I].
  Qed.

  Lemma sig_inv_step : forall s s', inv AK own s -> sig_inv s -> sys_step AK own s s' -> sig_inv s'.
  Proof.
    intros s s' Hinv Hsig Hstep. destruct Hinv as [Hok Hdel _ _]. destruct Hstep; unfold sig_inv; cbn [wire].
    - (* a new client *)
      intros k a b u Hk Hu Hv. cbn [cs_out client_init flat_map out_terms app] in Hu.
      apply in_app_or in Hu. destruct Hu as [Hu|[<-|[]]]; [exact (Hsig k a b u Hk Hu Hv)|].
      apply svis_enc_hmsg in Hv; [|exact I]. destruct Hv as [t [Hin Hv]].
      unfold client_hello_of in Hin. rewrite H0 in Hin. cbn [hmsg_terms ch_random ch_session_id ch_ticket In] in Hin.
      destruct Hin as [<-|[<-|[<-|[]]]]; (eapply svis_atom; [| |exact Hv]; exact I).
    - exact Hsig.
    - (* delivery to a client *)
      assert (Hpk : party_ok own (PClient cfg ins)).
      { rewrite Forall_forall in Hok. apply Hok. eapply nth_error_In. exact H. }
      destruct Hpk as [Hgm [Hsess [Hwf Hown]]].
      destruct (client_step_out cfg st i st' r H2) as [new [Eout Hshape]].
      rewrite Eout, new_out_app.
      pose proof (client_run_cinv cfg ins st H0) as Hcinv.
      intros k0 a b u Hk Hu Hv. apply in_app_or in Hu. destruct Hu as [Hu|Hu]; [exact (Hsig k0 a b u Hk Hu Hv)|].
      apply in_flat_out in Hu. destruct Hu as [o [Ho Hu]].
      eapply (client_new_clean cfg (cs_set_warn st 0) i new k0 a b); try eassumption.
    - (* delivery to a server *)
      assert (Hpk : party_ok own (PServer cfg ins)).
      { rewrite Forall_forall in Hok. apply Hok. eapply nth_error_In. exact H. }
      destruct Hpk as [Htk Hwf].
      destruct (server_step_out cfg st i st' r Htk Hwf H2) as [new [Eout Hshape]].
      rewrite Eout, new_out_app.
      intros k0 a b u Hk Hu Hv. apply in_app_or in Hu. destruct Hu as [Hu|Hu]; [exact (Hsig k0 a b u Hk Hu Hv)|].
      apply in_flat_out in Hu. destruct Hu as [o [Ho Hu]].
      destruct Hshape as [->|[[ch [Ei Hfl]]|[vd [mid [Ei [Er [Hres [Htr [Enew [Hmid Hms]]]]]]]]]].
      + destruct Ho.
      + (* the first flight: only what the delivered ClientHello's random already showed *)
        pose proof (server_flight_clean cfg ch new k0 a b Hfl o u Ho Hu Hv) as Hcr.
        assert (Hd : derives AK own (knows (wire s)) (ch_random ch)).
        { subst i. unfold can_deliver in H1. cbn [input_terms hmsg_terms] in H1. inversion H1; assumption. }
        destruct (sig_origin_vis AK own _ _ Hd k0 _ Hk Hcr) as [u' [Hu' Hv']].
        exact (Hsig k0 a b u' Hk Hu' Hv').
      + (* the last flight: [NewSessionTicket - tickets are off], ChangeCipherSpec, Finished *)
        cbn zeta in Htr, Enew. cbn [ss_set_warn ss_ticket] in Hmid.
        rewrite (Hmid (server_run_ticket cfg ins st Htk H0)) in Enew. cbn [map app] in Enew. subst new.
        cbn in Ho. destruct Ho as [<-|[<-|[]]]; [destruct Hu|].
        cbn [out_terms In] in Hu. destruct Hu as [<-|[]].
        apply svis_enc_hmsg in Hv; [|exact I]. destruct Hv as [t [Hin Hv]].
        cbn [hmsg_terms In] in Hin. destruct Hin as [<-|[]]. unfold finished_sum in Hv.
        eapply svis_atom; [| |exact Hv]; exact I.
  Qed.

  Theorem reach_sig_inv : forall s, reach AK own s -> sig_inv s.
  Proof.
    intros s H. induction H as [|s s' Hr IH Hs].
    - intros k a b u _ Hu. destruct Hu.
    - eapply sig_inv_step; [apply reach_inv; exact Hr|exact IH|exact Hs].
  Qed.

  (* ---- 3. the theorems for any GM suite list ------------------------------------------------------------- *)
  (* a protected client never completes on the ECDHE-SM2 path: every completion meets the ECC requirements *)
  Theorem protected_client_completes_on_ecc : forall s cfg ins st_c,
    reach AK own s -> In (PClient cfg ins) (parties s) -> protected AK cfg ->
    client_run cfg ins = RComplete st_c -> client_requirements cfg ins st_c.
  Proof.
    intros s cfg ins st_c Hr Hin [Hgm [Hvf Hca]] Hc.
    destruct (reach_inv AK own s Hr) as [Hok Hdel _ _].
    assert (Hpk : party_ok own (PClient cfg ins)) by (rewrite Forall_forall in Hok; apply Hok; exact Hin).
    destruct Hpk as [_ [Hsess _]].
    destruct (gm_client_complete_requires_any_suite cfg ins st_c Hgm Hvf Hsess Hc) as [Hreq|Hreq]; [exact Hreq|].
    exfalso. destruct Hreq as [sh [certs [sig [vd [_ [_ [Hskx [_ Hreq]]]]]]]]. cbn zeta in Hreq.
    destruct Hreq as [_ [[Hc0 _] [[Ht0 _] [Hv _]]]].
    (* the signature is the one only the holder of certificate 0's key can make *)
    unfold cert_pub in Hv. apply verify_inv in Hv.
    assert (Hk : AK (cert_key (nth_cert 0 certs)) = false) by (apply Hca; assumption).
    pose proof (Hdel _ _ Hin Hskx) as Hd. unfold can_deliver in Hd. cbn [input_terms hmsg_terms] in Hd.
    inversion Hd as [|? ? _ Hd2]; subst. inversion Hd2 as [|? ? Hdsig _]; subst.
    destruct (sig_origin_vis AK own _ _ Hdsig _ _ Hk (vis_refl _)) as [u [Hu Hvis]].
    exact (reach_sig_inv s Hr _ _ _ u Hk Hu Hvis).
  Qed.

  (* agreement with no premise about the network and no restriction on the suites the client offers *)
  Theorem agreement_sessions_any_suite : forall s cfg ins st_c,
    reach AK own s -> In (PClient cfg ins) (parties s) -> protected AK cfg ->
    (forall cfg' ins', In (PClient cfg' ins') (parties s) -> c_pms cfg' = c_pms cfg -> protected AK cfg') ->
    client_run cfg ins = RComplete st_c ->
    exists scfg ins_s st_s,
      In (PServer scfg ins_s) (parties s) /\ server_run scfg ins_s = RComplete st_s /\
      ss_tr st_s = cs_tr st_c /\ ss_master st_s = cs_master st_c.
  Proof.
    intros s cfg ins st_c Hr Hin Hprot0 Hprot Hc.
    pose proof (protected_client_completes_on_ecc s cfg ins st_c Hr Hin Hprot0 Hc) as Hreq.
    destruct (reach_inv AK own s Hr) as [Hok Hdel Hsec Hfin].
    assert (Hpk : party_ok own (PClient cfg ins)) by (rewrite Forall_forall in Hok; apply Hok; exact Hin).
    destruct Hpk as [_ [Hsess [_ Hown]]].
    assert (Hsafe : safe_index AK own (parties s) (c_pms cfg)) by (split; assumption).
    destruct Hreq as [sh [certs [p [sig [vd [_ [_ [_ [Hfinin Hreq]]]]]]]]].
    cbn zeta in Hreq. destruct Hreq as [_ [_ [_ [_ [_ [Hms [tr_rest [Hvd Htr]]]]]]]].
    remember ([enc_hmsg (MClientHello (client_hello_of cfg)); enc_hmsg (MServerHello sh); enc_hmsg (MCertificate certs);
               enc_hmsg (MServerKeyExchange true p sig)] ++ tr_rest) as tr_c eqn:Etrc. clear Etrc.
    pose proof (Hdel _ _ Hin Hfinin) as Hd. unfold can_deliver in Hd. cbn [input_terms hmsg_terms] in Hd.
    inversion Hd as [|? ? Hdvd _]; subst.
    assert (Evd : finished_sum 0 (TPRF (TPMS (c_pms cfg)) (TPair L_master (TLabel 0)) (TPair (TRand (c_rand cfg)) (sh_random sh)))
                    L_server_finished tr_c
                  = SFterm (c_pms cfg) 0 (TRand (c_rand cfg)) (sh_random sh) 0 (THash (tlist tr_c))) by reflexivity.
    rewrite Evd in Hdvd.
    destruct (derivable_vis_fin AK own (wire s) (parties s) _ _ _ _ _ _ _ Hsec Hsafe Hdvd (vis_refl _)) as [u [Hu Hv]].
    destruct (Hfin _ _ _ _ _ _ u Hsafe Hu Hv) as [scfg [ins_s [st_s [tr [Hins [Hrun [Htrs [Hmss Eh]]]]]]]].
    injection Eh as Eh. apply tlist_inj in Eh. subst tr.
    exists scfg, ins_s, st_s. split; [exact Hins|]. split; [exact Hrun|]. split.
    - rewrite Htrs, Htr. rewrite Evd. reflexivity.
    - rewrite Hmss, Hms. reflexivity.
  Qed.

  (* secrecy of the SESSION's own master secret, whatever suites were offered: a protected client that has completed
     holds a master secret (and used a pre-master secret) the network cannot derive *)
  Theorem completed_session_secrecy : forall s cfg ins st_c,
    reach AK own s -> In (PClient cfg ins) (parties s) -> protected AK cfg ->
    (forall cfg' ins', In (PClient cfg' ins') (parties s) -> c_pms cfg' = c_pms cfg -> protected AK cfg') ->
    client_run cfg ins = RComplete st_c ->
    ~ derives AK own (knows (wire s)) (cs_master st_c) /\ ~ derives AK own (knows (wire s)) (TPMS (c_pms cfg)).
  Proof.
    intros s cfg ins st_c Hr Hin Hprot0 Hprot Hc.
    pose proof (protected_client_completes_on_ecc s cfg ins st_c Hr Hin Hprot0 Hc) as Hreq.
    destruct Hreq as [sh [certs [p [sig [vd [_ [_ [_ [_ Hreq]]]]]]]]]. cbn zeta in Hreq.
    destruct Hreq as [_ [_ [_ [_ [_ [Hms _]]]]]]. rewrite Hms.
    destruct (sessions_secrecy AK own s cfg ins (sh_random sh) Hr Hin Hprot) as [Hp Hm]. split; [exact Hm|exact Hp].
  Qed.
End Suites.

(* ---- 4. one connection against the attacker, any GM suite list ----------------------------------------------------- *)
(* With the premises of HSAuth.authentication but WITHOUT ecc_only: a completed client has either everything
   [authentication] concludes (ECC path), or it is on the ECDHE-SM2 path, where a holder of certificate 0's key has
   signed this session's randoms together with the parameter block "curve 29" - something no honest gmtls server does -
   and where the master secret is public (no secrecy, no Finished authentication on that path). *)
Theorem authentication_any_suite : forall AK own K cfg ins st',
  c_gm cfg = true -> c_verify cfg = true -> c_session cfg = None ->
  (forall i, In i ins -> deliverable AK own K i) ->
  (forall c, is_cert c = true -> tmem c (c_trusted cfg) = true -> AK (cert_key c) = false) ->
  own (c_pms cfg) = false ->
  (forall u, K u -> hidden AK (TPMS (c_pms cfg)) u) ->
  (forall u sr, K u -> hidden AK (client_master cfg sr) u) ->
  client_run cfg ins = RComplete st' ->
  exists sh certs vd,
    In (IHs (MServerHello sh)) ins /\ In (IHs (MCertificate certs)) ins /\ In (IHs (MFinished vd)) ins /\
    let c0 := nth_cert 0 certs in
    let c1 := nth_cert 1 certs in
    ((exists u, K u /\ sub (TSig (cert_key c0) (skx_payload (TRand (c_rand cfg)) (sh_random sh) c1)) u) /\
     (exists tr, vd = finished_sum 0 (client_master cfg (sh_random sh)) L_server_finished tr) /\
     (exists u, K u /\ sub vd u) /\
     ~ derives AK own K (TPMS (c_pms cfg)) /\ ~ derives AK own K (client_master cfg (sh_random sh)))
    \/
    ((exists u, K u /\ sub (TSig (cert_key c0) (skx_payload (TRand (c_rand cfg)) (sh_random sh) (TLabel 29))) u) /\
     cs_master st' = TPRF (TLabel 0) (TPair L_master (TLabel 0)) (TPair (TRand (c_rand cfg)) (sh_random sh))).
Proof.
  intros AK own K cfg ins st' Hgm Hvf Hsess Hnet Hca Hown Hpms Hms H.
  destruct (gm_client_complete_requires_any_suite cfg ins st' Hgm Hvf Hsess H) as [Hreq|Hreq].
  - destruct Hreq as [sh [certs [p [sig [vd [Hsh [Hcert [Hskx [Hfin Hreq]]]]]]]]]. cbn zeta in Hreq.
    destruct Hreq as [Hlen [[Hc0 [_ [_ [Hc1 _]]]] [[Ht0 Ht1] [Hver [_ [_ [tr_rest [Hvd _]]]]]]]].
    exists sh, certs, vd. split; [exact Hsh|]. split; [exact Hcert|]. split; [exact Hfin|]. cbn zeta. left.
    assert (Hnp : ~ derives AK own K (TPMS (c_pms cfg))) by (apply pms_secret; assumption).
    assert (Hnm : ~ derives AK own K (client_master cfg (sh_random sh))).
    { intros Hd. pose proof (master_secret_gen AK own K _ _ _ Hnp (fun u Hu => Hms u (sh_random sh) Hu) _ Hd) as [Hne _].
      apply Hne. reflexivity. }
    split.
    + unfold cert_pub in Hver. apply verify_inv in Hver. subst sig. apply (sig_origin AK own K).
      * exact (Hnet _ Hskx).
      * apply Hca; assumption.
    + split; [eexists; exact Hvd|]. split; [|split; assumption].
      pose proof (Hnet _ Hfin) as Hd. cbn in Hd. rewrite Hvd in Hd |- *. unfold finished_sum in *.
      eapply prf_origin_gen; [exact Hd|exact Hnm|apply sub_refl].
  - destruct Hreq as [sh [certs [sig [vd [Hsh [Hcert [Hskx [Hfin Hreq]]]]]]]]. cbn zeta in Hreq.
    destruct Hreq as [_ [[Hc0 _] [[Ht0 _] [Hver [_ Hms']]]]].
    exists sh, certs, vd. split; [exact Hsh|]. split; [exact Hcert|]. split; [exact Hfin|]. cbn zeta. right.
    split; [|exact Hms'].
    unfold cert_pub in Hver. apply verify_inv in Hver. subst sig. apply (sig_origin AK own K).
    + exact (Hnet _ Hskx).
    + apply Hca; assumption.
Qed.
