(* Which delivered sequences let the GMSSL client complete: the honest flights, with every check the code makes.
   (1) warning alerts are dropped: a run completes iff it completes on the sequence without them ([strip]);
   (2) one inversion lemma per phase of clientHandshakeStateGM; (3) [gm_client_complete_flight]. *)
From Coq Require Import List NArith Arith Bool Lia.
From GmsmVerif Require Import Lib.Outcome HS.HSTerms HS.HSModel HS.HSProofs.
Import ListNotations.
Local Open Scope N_scope.

Definition is_warning (i : input) : bool :=
  match i with IAlert l d => negb (d =? 0) && (l =? 1) | _ => false end.
Definition strip (ins : list input) : list input := filter (fun i => negb (is_warning i)) ins.

Lemma read_record_nonwarning : forall wc w1 w2 i, is_warning i = false ->
  read_record wc w1 i = read_record wc w2 i /\ (forall w, read_record wc w1 i <> RLAgain w).
Proof.
  intros wc w1 w2 i H. destruct i; cbn; try (split; [reflexivity|intros; try discriminate]).
  - destruct wc; discriminate.
  - destruct (_ && _); discriminate.
  - cbn in H. destruct (desc =? 0); [split; [reflexivity|discriminate]|].
    destruct (level =? 1); [discriminate|]. split; [reflexivity|discriminate].
Qed.

Definition ceqw (a b : cstate) : Prop := cs_set_warn a 0 = cs_set_warn b 0.

Lemma client_step_eqw : forall cfg a b i, ceqw a b -> is_warning i = false ->
  client_step cfg a i = client_step cfg b i \/
  (snd (client_step cfg a i) = SError /\ snd (client_step cfg b i) = SError).
Proof.
  intros cfg a b i He H. unfold client_step.
  assert (Hp : cs_phase a = cs_phase b) by (apply (f_equal cs_phase) in He; exact He).
  rewrite Hp.
  destruct (read_record_nonwarning (match cs_phase b with CP_CCS => true | _ => false end) (cs_warn a) (cs_warn b) i H) as [E Hn].
  rewrite E. destruct (read_record _ (cs_warn b) i) eqn:Er.
  - right. split; reflexivity.
  - exfalso. eapply Hn. rewrite E. reflexivity.
  - left. unfold ceqw in He. rewrite He. reflexivity.
  - left. change (cs_set_warn (cs_set_phase a CP_Finished) 0) with (cs_set_phase (cs_set_warn a 0) CP_Finished).
    change (cs_set_warn (cs_set_phase b CP_Finished) 0) with (cs_set_phase (cs_set_warn b 0) CP_Finished).
    unfold ceqw in He. rewrite He. reflexivity.
Qed.

Lemma client_run_strip : forall cfg ins a b st',
  run (client_step cfg) a ins = RComplete st' -> ceqw a b ->
  run (client_step cfg) b (strip ins) = RComplete st'.
Proof.
  intros cfg ins. induction ins as [|i rest IH]; intros a b st' H He; [discriminate|].
  cbn [run] in H. unfold strip. cbn [filter]. fold (strip rest).
  destruct (is_warning i) eqn:Ew; cbn [negb].
  - (* a warning: dropped *)
    destruct i; try discriminate. cbn in Ew. apply andb_prop in Ew. destruct Ew as [Ed El].
    unfold client_step in H. cbn [read_record] in H.
    destruct (desc =? 0); [discriminate|]. rewrite El in H.
    match type of H with context [if ?c then RLError else _] => destruct c end; [discriminate|].
    cbn [is_eof] in H. eapply IH; [exact H|]. exact He.
  - cbn [run].
    destruct (client_step_eqw cfg a b i He Ew) as [E|[E1 E2]].
    + rewrite <- E. destruct (client_step cfg a i) as [st1 r]. destruct r; try discriminate.
      * destruct (is_eof i); [discriminate|]. eapply IH; [exact H|reflexivity].
      * exact H.
    + destruct (client_step cfg a i) as [st1 r]. cbn in E1. subst r. discriminate.
Qed.

Lemma run_cons_complete : forall {St} (step : St -> input -> St * sres) st i l st',
  run step st (i :: l) = RComplete st' ->
  (exists st1, step st i = (st1, SContinue) /\ run step st1 l = RComplete st') \/ step st i = (st', SComplete).
Proof.
  intros St step st i l st' H. cbn [run] in H. destruct (step st i) as [st1 r]. destruct r; try discriminate.
  - destruct (is_eof i); [discriminate|]. left. eauto.
  - injection H as <-. right. reflexivity.
Qed.

(* a non-warning input that does not end the handshake with an error is a handshake message outside the CCS phase,
   or a good ChangeCipherSpec in the CCS phase *)
Lemma client_step_inv : forall cfg st i st1 r, is_warning i = false -> r <> SError ->
  client_step cfg st i = (st1, r) ->
  (exists m, i = IHs m /\ cs_phase st <> CP_CCS /\ client_handshake_step cfg (cs_set_warn st 0) m = (st1, r)) \/
  (i = ICCS true /\ cs_phase st = CP_CCS /\ r = SContinue /\ st1 = cs_set_warn (cs_set_phase st CP_Finished) 0).
Proof.
  intros cfg st i st1 r Hw Hr H. unfold client_step in H.
  destruct i; cbn [read_record] in H.
  - destruct (cs_phase st) eqn:Ep; try (left; exists m; split; [reflexivity|split; [discriminate|exact H]]).
    injection H as <- <-. contradiction.
  - injection H as <- <-. contradiction.
  - injection H as <- <-. contradiction.
  - injection H as <- <-. contradiction.
  - destruct (cs_phase st) eqn:Ep; cbn [andb] in H; try (injection H as <- <-; contradiction).
    destruct body_ok; [|injection H as <- <-; contradiction].
    injection H as <- <-. right. auto.
  - cbn in Hw. destruct (desc =? 0); [injection H as <- <-; contradiction|].
    cbn in Hw. rewrite Hw in H. injection H as <- <-; contradiction.
  - injection H as <- <-. contradiction.
  - injection H as <- <-. contradiction.
  - injection H as <- <-. contradiction.
  - injection H as <- <-. contradiction.
Qed.

(* ---- GM client: one lemma per phase ---- *)
Lemma gmc_server_hello : forall cfg st m st1 r, c_gm cfg = true -> cs_phase st = CP_ServerHello -> r <> SError ->
  client_handshake_step cfg st m = (st1, r) ->
  exists sh su resumed,
    m = MServerHello sh /\ r = SContinue /\ sh_vers sh = VersionGMSSL /\
    mutualCipherSuite gmCipherSuites (c_suites cfg) (sh_suite sh) = Some su /\
    processServerHello cfg sh su = Some resumed /\
    st1 = mkCS (if resumed then (if sh_ticket_supported sh then CP_Ticket else CP_CCS) else CP_Certificate)
               (cs_warn st) VersionGMSSL 0 (Some sh) (su_kx su) [] None false resumed
               (match c_session cfg with Some (_, _, ms) => if resumed then ms else TNil | None => TNil end)
               (cs_tr st ++ [enc_hmsg m]) (cs_out st).
Proof.
  intros cfg st m st1 r Hgm Hph Hr H. unfold client_handshake_step in H. rewrite Hph, Hgm in H.
  destruct m; try (injection H as <- <-; contradiction).
  destruct (sh_vers sh =? VersionGMSSL) eqn:Ev; [|injection H as <- <-; contradiction].
  destruct (mutualCipherSuite gmCipherSuites (c_suites cfg) (sh_suite sh)) as [su|] eqn:Esu; [|injection H as <- <-; contradiction].
  destruct (processServerHello cfg sh su) as [resumed|] eqn:Ep; [|injection H as <- <-; contradiction].
  injection H as <- <-. exists sh, su, resumed. apply N.eqb_eq in Ev. repeat split; auto.
Qed.

Lemma gmc_certificate : forall cfg st m st1 r, c_gm cfg = true -> cs_phase st = CP_Certificate -> r <> SError ->
  client_handshake_step cfg st m = (st1, r) ->
  exists certs,
    m = MCertificate certs /\ r = SContinue /\ (2 <= length certs)%nat /\ gm_cert_checks 0 certs = true /\
    (c_verify cfg = true -> tmem (nth_cert 0 certs) (c_trusted cfg) = true /\
                             tmem (nth_cert 1 certs) (c_trusted cfg) = true) /\
    st1 = mkCS CP_AfterCert (cs_warn st) (cs_vers st) (cs_fp st) (cs_sh st) (cs_kx st) certs None false false
               (cs_master st) (cs_tr st ++ [enc_hmsg m]) (cs_out st).
Proof.
  intros cfg st m st1 r Hgm Hph Hr H. unfold client_handshake_step in H. rewrite Hph, Hgm in H.
  destruct m; try (injection H as <- <-; contradiction).
  destruct (Nat.ltb (length certs) 2) eqn:El; [injection H as <- <-; contradiction|].
  destruct (gm_cert_checks 0 certs) eqn:Ec; cbn [negb] in H; [|injection H as <- <-; contradiction].
  match type of H with (if ?c then _ else _) = _ => destruct c eqn:Ev end; [injection H as <- <-; contradiction|].
  injection H as <- <-. exists certs. apply Nat.ltb_ge in El. repeat split; auto.
  - destruct (c_verify cfg); [|discriminate]. cbn [andb] in Ev. apply negb_false_iff in Ev. apply andb_prop in Ev. apply Ev.
  - destruct (c_verify cfg); [|discriminate]. cbn [andb] in Ev. apply negb_false_iff in Ev. apply andb_prop in Ev. apply Ev.
Qed.

Lemma gmc_after_cert : forall cfg st m st1 r, c_gm cfg = true -> cs_phase st = CP_AfterCert -> r <> SError ->
  client_handshake_step cfg st m = (st1, r) ->
  exists p sig,
    m = MServerKeyExchange true p sig /\ r = SContinue /\
    (match cs_kx st with
     | KxECC => verify (cert_pub (nth_cert 0 (cs_certs st))) sig
                       (skx_payload (TRand (c_rand cfg)) (sh_random_of st) (nth_cert 1 (cs_certs st)))
     | KxECDHE_GM => verify (cert_pub (nth_cert 0 (cs_certs st))) sig
                            (skx_payload (TRand (c_rand cfg)) (sh_random_of st) p)
     | KxRSA => false
     | KxECDHE_RSA => (cert_kind (nth_cert 0 (cs_certs st)) =? KIND_RSA) &&
                      verify (cert_pub (nth_cert 0 (cs_certs st))) sig (skx_payload (TRand (c_rand cfg)) (sh_random_of st) p)
     | KxECDHE_ECDSA => ((cert_kind (nth_cert 0 (cs_certs st)) =? KIND_ECDSA) || (cert_kind (nth_cert 0 (cs_certs st)) =? KIND_SM2)) &&
                      verify (cert_pub (nth_cert 0 (cs_certs st))) sig (skx_payload (TRand (c_rand cfg)) (sh_random_of st) p)
     end = true) /\
    st1 = mkCS CP_AfterSKX (cs_warn st) (cs_vers st) (cs_fp st) (cs_sh st) (cs_kx st) (cs_certs st) (Some p) false false
               (cs_master st) (cs_tr st ++ [enc_hmsg m]) (cs_out st).
Proof.
  intros cfg st m st1 r Hgm Hph Hr H. unfold client_handshake_step in H. rewrite Hph in H.
  destruct m; try (injection H as <- <-; contradiction); try (rewrite Hgm in H; injection H as <- <-; contradiction).
  match type of H with (if ?c then _ else _) = _ => destruct c eqn:Ev end; [|injection H as <- <-; contradiction].
  injection H as <- <-.
  assert (El : len_ok = true) by (destruct (cs_kx st); destruct len_ok; try reflexivity; discriminate).
  subst len_ok. exists params, sig. repeat split; auto.
Qed.

Lemma gmc_after_skx : forall cfg st m st1 r, cs_phase st = CP_AfterSKX -> r <> SError ->
  client_handshake_step cfg st m = (st1, r) ->
  (m = MCertificateRequest /\ r = SContinue /\
   st1 = mkCS CP_HelloDone (cs_warn st) (cs_vers st) (cs_fp st) (cs_sh st) (cs_kx st) (cs_certs st) (cs_skx st) true false
              (cs_master st) (cs_tr st ++ [enc_hmsg m]) (cs_out st)) \/
  (m = MServerHelloDone /\ client_after_hello_done cfg st = (st1, r)).
Proof.
  intros cfg st m st1 r Hph Hr H. unfold client_handshake_step in H. rewrite Hph in H.
  destruct m; try (injection H as <- <-; contradiction).
  - left. injection H as <- <-. auto.
  - right. auto.
Qed.

Lemma gmc_hello_done : forall cfg st m st1 r, cs_phase st = CP_HelloDone -> r <> SError ->
  client_handshake_step cfg st m = (st1, r) ->
  m = MServerHelloDone /\ client_after_hello_done cfg st = (st1, r).
Proof.
  intros cfg st m st1 r Hph Hr H. unfold client_handshake_step in H. rewrite Hph in H.
  destruct m; try (injection H as <- <-; contradiction). auto.
Qed.

(* the GM key exchanges after ServerHelloDone *)
Lemma gmc_second_flight : forall cfg st st1 r, cs_vers st = VersionGMSSL -> r <> SError ->
  (cs_kx st = KxECC \/ cs_kx st = KxECDHE_GM) ->
  client_after_hello_done cfg st = (st1, r) ->
  exists pms ckxm,
    r = SContinue /\ client_ckx cfg st = Ok (pms, ckxm) /\
    st1 = client_second_flight cfg st ckxm
            (TPRF pms (TPair L_master (TLabel 0)) (TPair (TRand (c_rand cfg)) (sh_random_of st))).
Proof.
  intros cfg st st1 r Hv Hr Hk H. unfold client_after_hello_done in H.
  destruct (client_ckx cfg st) as [[pms ckxm]|e| |] eqn:E; try (injection H as <- <-; contradiction).
  - rewrite Hv in H. cbn in H. injection H as <- <-. exists pms, ckxm. auto.
  - exfalso. unfold client_ckx in E. destruct Hk as [Hk|Hk]; rewrite Hk in E; try discriminate.
    destruct (cs_skx st); [destruct (term_eqb _ _)|]; discriminate.
  - exfalso. unfold client_ckx in E. destruct Hk as [Hk|Hk]; rewrite Hk in E; try discriminate.
    destruct (cs_skx st); [destruct (term_eqb _ _)|]; discriminate.
Qed.

Lemma gmc_ticket : forall cfg st m st1 r, cs_phase st = CP_Ticket -> r <> SError ->
  client_handshake_step cfg st m = (st1, r) ->
  exists t, m = MNewSessionTicket t /\ r = SContinue /\ st1 = cs_set_phase (cs_add_tr st m) CP_CCS.
Proof.
  intros cfg st m st1 r Hph Hr H. unfold client_handshake_step in H. rewrite Hph in H.
  destruct m; try (injection H as <- <-; contradiction).
  injection H as <- <-. eauto.
Qed.

Lemma gmc_finished : forall cfg st m st1 r, cs_phase st = CP_Finished -> r <> SError ->
  client_handshake_step cfg st m = (st1, r) ->
  exists vd, m = MFinished vd /\ r = SComplete /\
    vd = finished_sum (cs_fp st) (cs_master st) L_server_finished (cs_tr st) /\
    st1 = (if cs_resumed st
           then cs_send (cs_send_ccs (cs_add_tr st m))
                        (MFinished (finished_sum (cs_fp st) (cs_master st) L_client_finished (cs_tr st ++ [enc_hmsg m])))
           else cs_add_tr st m).
Proof.
  intros cfg st m st1 r Hph Hr H. unfold client_handshake_step in H. rewrite Hph in H.
  destruct m; try (injection H as <- <-; contradiction).
  destruct (term_eqb vd _) eqn:E; [|injection H as <- <-; contradiction].
  exists vd. cbn [cs_resumed cs_add_tr] in H.
  destruct (cs_resumed st) eqn:Er; injection H as <- <-; repeat split; auto.
Abort.

Lemma term_eqb_eq : forall a b, term_eqb a b = true -> a = b.
Proof.
  induction a; destruct b; cbn [term_eqb]; intros H; try discriminate; try reflexivity;
    repeat match goal with
           | H : _ && _ = true |- _ => apply andb_prop in H; destruct H
           | H : (_ =? _) = true |- _ => apply N.eqb_eq in H; subst
           end; try reflexivity.
  - f_equal; [apply IHa1|apply IHa2]; assumption.
  - f_equal; [apply IHa1|apply IHa2]; assumption.
  - f_equal. apply IHa. assumption.
  - f_equal; [apply IHa1|apply IHa2|apply IHa3]; assumption.
  - f_equal. apply IHa. assumption.
Qed.

Lemma term_eqb_refl : forall a, term_eqb a a = true.
Proof.
  induction a; cbn [term_eqb]; rewrite ?N.eqb_refl, ?IHa, ?IHa1, ?IHa2, ?IHa3; reflexivity.
Qed.

Lemma gmc_finished : forall cfg st m st1 r, cs_phase st = CP_Finished -> r <> SError ->
  client_handshake_step cfg st m = (st1, r) ->
  exists vd, m = MFinished vd /\ r = SComplete /\
    vd = finished_sum (cs_fp st) (cs_master st) L_server_finished (cs_tr st) /\
    st1 = (if cs_resumed st
           then cs_send (cs_send_ccs (cs_add_tr st m))
                        (MFinished (finished_sum (cs_fp st) (cs_master st) L_client_finished (cs_tr st ++ [enc_hmsg m])))
           else cs_add_tr st m).
Proof.
  intros cfg st m st1 r Hph Hr H. unfold client_handshake_step in H. rewrite Hph in H.
  destruct m; try (injection H as <- <-; contradiction).
  destruct (term_eqb vd _) eqn:E; [|injection H as <- <-; contradiction].
  apply term_eqb_eq in E.
  exists vd. cbn [cs_resumed cs_add_tr] in H.
  destruct (cs_resumed st) eqn:Er; injection H as <- <-; repeat split; auto.
Qed.

(* ---- what the client writes after ServerHelloDone, as explicit lists ---- *)
Definition sf_cert (cfg : cconfig) (req : bool) : list hmsg :=
  if req then [MCertificate (match c_cert cfg with Some (c, _) => [c] | None => [] end)] else [].
Definition sf_tr1 (cfg : cconfig) (req : bool) (tr0 : list term) (ckxm : hmsg) : list term :=
  tr0 ++ [enc_hmsg MServerHelloDone] ++ map enc_hmsg (sf_cert cfg req) ++ [enc_hmsg ckxm].
Definition sf_cv (cfg : cconfig) (req : bool) (tr1 : list term) : list hmsg :=
  match req, c_cert cfg with
  | true, Some (_, k) => [MCertificateVerify true (TSig k (THash (tlist tr1)))]
  | _, _ => []
  end.
Definition sf_tr2 (cfg : cconfig) (req : bool) (tr0 : list term) (ckxm : hmsg) : list term :=
  sf_tr1 cfg req tr0 ckxm ++ map enc_hmsg (sf_cv cfg req (sf_tr1 cfg req tr0 ckxm)).
Definition sf_fin (cfg : cconfig) (req : bool) (tr0 : list term) (ckxm : hmsg) (fp : N) (master : term) : hmsg :=
  MFinished (finished_sum fp master L_client_finished (sf_tr2 cfg req tr0 ckxm)).

Lemma client_second_flight_eq : forall cfg st ckxm master,
  client_second_flight cfg st ckxm master =
  mkCS (if sh_ticket_of st then CP_Ticket else CP_CCS) (cs_warn st) (cs_vers st) (cs_fp st) (cs_sh st) (cs_kx st)
       (cs_certs st) (cs_skx st) (cs_cert_req st) false master
       (sf_tr2 cfg (cs_cert_req st) (cs_tr st) ckxm ++ [enc_hmsg (sf_fin cfg (cs_cert_req st) (cs_tr st) ckxm (cs_fp st) master)])
       (cs_out st ++ map OHs (sf_cert cfg (cs_cert_req st)) ++ [OHs ckxm]
          ++ map OHs (sf_cv cfg (cs_cert_req st) (sf_tr1 cfg (cs_cert_req st) (cs_tr st) ckxm))
          ++ [OCCS; OHs (sf_fin cfg (cs_cert_req st) (cs_tr st) ckxm (cs_fp st) master)]).
Proof.
  intros cfg st ckxm master. destruct st as [ph w v fp sh kx cs skx req res ms tr out].
  destruct req; destruct (c_cert cfg) as [[c k]|] eqn:Ec;
    unfold client_second_flight, sf_fin, sf_tr2, sf_tr1, sf_cv, sf_cert; rewrite ?Ec;
    lazy -[finished_sum enc_hmsg tlist app]; repeat rewrite <- app_assoc; cbn [app]; reflexivity.
Qed.

Definition nowarn (l : list input) : Prop := Forall (fun i => is_warning i = false) l.

Lemma nowarn_strip : forall ins, nowarn (strip ins).
Proof.
  intros ins. unfold nowarn, strip. apply Forall_forall. intros i Hi. apply filter_In in Hi.
  destruct Hi as [_ Hi]. apply negb_true_iff in Hi. exact Hi.
Qed.

Lemma client_next : forall cfg st i l st', nowarn (i :: l) ->
  run (client_step cfg) st (i :: l) = RComplete st' ->
  exists st1 r, r <> SError /\
    ((exists m, i = IHs m /\ cs_phase st <> CP_CCS /\ client_handshake_step cfg (cs_set_warn st 0) m = (st1, r)) \/
     (i = ICCS true /\ cs_phase st = CP_CCS /\ r = SContinue /\ st1 = cs_set_warn (cs_set_phase st CP_Finished) 0)) /\
    ((r = SContinue /\ run (client_step cfg) st1 l = RComplete st' /\ nowarn l) \/ (r = SComplete /\ st1 = st')).
Proof.
  intros cfg st i l st' Hnw H. inversion Hnw as [|? ? Hi Hl]; subst.
  apply run_cons_complete in H. destruct H as [[st1 [Hs Hr]]|Hs].
  - exists st1, SContinue. split; [discriminate|]. split.
    + apply client_step_inv; [exact Hi|discriminate|exact Hs].
    + left. auto.
  - exists st', SComplete. split; [discriminate|]. split.
    + apply client_step_inv; [exact Hi|discriminate|exact Hs].
    + right. auto.
Qed.

Lemma run_nil_not_complete : forall {St} (step : St -> input -> St * sres) st st', run step st [] <> RComplete st'.
Proof. intros. discriminate. Qed.

(* ---------------------------------------------------------------------------------------------- *)
Record gm_flight := mkGF {
  gf_sh : server_hello; gf_certs : list term; gf_params : term; gf_sig : term;
  gf_req : bool; gf_nst : term; gf_vd : term }.

Definition gm_flight_inputs (f : gm_flight) : list input :=
  [IHs (MServerHello (gf_sh f)); IHs (MCertificate (gf_certs f)); IHs (MServerKeyExchange true (gf_params f) (gf_sig f))]
  ++ (if gf_req f then [IHs MCertificateRequest] else [])
  ++ [IHs MServerHelloDone]
  ++ (if sh_ticket_supported (gf_sh f) then [IHs (MNewSessionTicket (gf_nst f))] else [])
  ++ [ICCS true; IHs (MFinished (gf_vd f))].

(* transcript when ServerHelloDone arrives *)
Definition gm_tr0 (cfg : cconfig) (f : gm_flight) : list term :=
  [enc_hmsg (MClientHello (client_hello_of cfg)); enc_hmsg (MServerHello (gf_sh f)); enc_hmsg (MCertificate (gf_certs f));
   enc_hmsg (MServerKeyExchange true (gf_params f) (gf_sig f))]
  ++ (if gf_req f then [enc_hmsg MCertificateRequest] else []).

(* transcript when the server's Finished arrives *)
Definition gm_tr_final (cfg : cconfig) (f : gm_flight) (ckxm : hmsg) (master : term) : list term :=
  sf_tr2 cfg (gf_req f) (gm_tr0 cfg f) ckxm ++ [enc_hmsg (sf_fin cfg (gf_req f) (gm_tr0 cfg f) ckxm 0 master)]
  ++ (if sh_ticket_supported (gf_sh f) then [enc_hmsg (MNewSessionTicket (gf_nst f))] else []).

Definition gm_out_final (cfg : cconfig) (f : gm_flight) (ckxm : hmsg) (master : term) : list output :=
  [OHs (MClientHello (client_hello_of cfg))] ++ map OHs (sf_cert cfg (gf_req f)) ++ [OHs ckxm]
  ++ map OHs (sf_cv cfg (gf_req f) (sf_tr1 cfg (gf_req f) (gm_tr0 cfg f) ckxm))
  ++ [OCCS; OHs (sf_fin cfg (gf_req f) (gm_tr0 cfg f) ckxm 0 master)].

Definition gm_full_flight_ok (cfg : cconfig) (f : gm_flight) (st' : cstate) : Prop :=
  let cr := TRand (c_rand cfg) in
  let sr := sh_random (gf_sh f) in
  let c0 := nth_cert 0 (gf_certs f) in
  let c1 := nth_cert 1 (gf_certs f) in
  exists su pms ckxm,
    sh_vers (gf_sh f) = VersionGMSSL /\
    mutualCipherSuite gmCipherSuites (c_suites cfg) (sh_suite (gf_sh f)) = Some su /\
    processServerHello cfg (gf_sh f) su = Some false /\
    (2 <= length (gf_certs f))%nat /\ gm_cert_checks 0 (gf_certs f) = true /\
    (c_verify cfg = true -> tmem c0 (c_trusted cfg) = true /\ tmem c1 (c_trusted cfg) = true) /\
    ((su_kx su = KxECC /\ verify (cert_pub c0) (gf_sig f) (skx_payload cr sr c1) = true /\
      pms = TPMS (c_pms cfg) /\ ckxm = MClientKeyExchange true (TEnc (cert_pub c1) (TPMS (c_pms cfg)))) \/
     (su_kx su = KxECDHE_GM /\ verify (cert_pub c0) (gf_sig f) (skx_payload cr sr (gf_params f)) = true /\
      gf_params f = TLabel 29 /\ pms = TLabel 0 /\ ckxm = MClientKeyExchange true (TPub (c_eph cfg)))) /\
    let master := TPRF pms (TPair L_master (TLabel 0)) (TPair cr sr) in
    gf_vd f = finished_sum 0 master L_server_finished (gm_tr_final cfg f ckxm master) /\
    cs_master st' = master /\
    cs_tr st' = gm_tr_final cfg f ckxm master ++ [enc_hmsg (MFinished (gf_vd f))] /\
    cs_out st' = gm_out_final cfg f ckxm master.

Ltac csimp H := cbn [cs_set_warn cs_set_phase cs_add_tr cs_phase cs_warn cs_vers cs_fp cs_sh cs_kx cs_certs cs_skx cs_cert_req cs_resumed cs_master cs_tr cs_out sh_random_of sh_ticket_of] in H.

(* from ServerHelloDone to the end, for any state the GM client can be in at that point *)
Lemma gm_tail : forall cfg st l st', c_gm cfg = true -> cs_vers st = VersionGMSSL ->
  (cs_kx st = KxECC \/ cs_kx st = KxECDHE_GM) -> cs_fp st = 0 ->
  (cs_phase st = CP_AfterSKX \/ cs_phase st = CP_HelloDone) -> nowarn (IHs MServerHelloDone :: l) ->
  run (client_step cfg) st (IHs MServerHelloDone :: l) = RComplete st' ->
  exists pms ckxm nst vd rest,
    client_ckx cfg st = Ok (pms, ckxm) /\
    let master := TPRF pms (TPair L_master (TLabel 0)) (TPair (TRand (c_rand cfg)) (sh_random_of st)) in
    let tr3 := sf_tr2 cfg (cs_cert_req st) (cs_tr st) ckxm ++ [enc_hmsg (sf_fin cfg (cs_cert_req st) (cs_tr st) ckxm 0 master)] in
    let tr4 := tr3 ++ (if sh_ticket_of st then [enc_hmsg (MNewSessionTicket nst)] else []) in
    l = (if sh_ticket_of st then [IHs (MNewSessionTicket nst)] else []) ++ [ICCS true; IHs (MFinished vd)] ++ rest /\
    vd = finished_sum 0 master L_server_finished tr4 /\
    cs_master st' = master /\
    cs_tr st' = tr4 ++ [enc_hmsg (MFinished vd)] /\
    cs_out st' = cs_out st ++ map OHs (sf_cert cfg (cs_cert_req st)) ++ [OHs ckxm]
                 ++ map OHs (sf_cv cfg (cs_cert_req st) (sf_tr1 cfg (cs_cert_req st) (cs_tr st) ckxm))
                 ++ [OCCS; OHs (sf_fin cfg (cs_cert_req st) (cs_tr st) ckxm 0 master)].
Proof.
  intros cfg st l st' Hgm Hv Hk Hfp Hph Hnw H.
  destruct (client_next _ _ _ _ _ Hnw H) as [st1 [r1 [Hr1 [Hs1 Hn1]]]]. clear H Hnw.
  destruct Hs1 as [[m1 [Ei1 [_ Hs1]]]|[Hc _]]; [|discriminate]. injection Ei1 as <-.
  assert (Hs1' : client_after_hello_done cfg (cs_set_warn st 0) = (st1, r1)).
  { destruct Hph as [Hph|Hph].
    - apply gmc_after_skx in Hs1; [|exact Hph|exact Hr1]. destruct Hs1 as [[Hc _]|[_ Hs1]]; [discriminate|exact Hs1].
    - apply gmc_hello_done in Hs1; [|exact Hph|exact Hr1]. apply Hs1. }
  clear Hs1. apply gmc_second_flight in Hs1'; [|exact Hv|exact Hr1|exact Hk].
  destruct Hs1' as [pms [ckxm [Er1 [Hckx Est1]]]]. subst r1.
  destruct Hn1 as [[_ [H Hnw]]|[Hc _]]; [|discriminate].
  rewrite client_second_flight_eq in Est1. csimp Est1. rewrite Hfp in Est1.
  change (sh_ticket_of (cs_set_warn st 0)) with (sh_ticket_of st) in *.
  change (sh_random_of (cs_set_warn st 0)) with (sh_random_of st) in *.
  assert (Hckx' : client_ckx cfg st = Ok (pms, ckxm)) by exact Hckx.
  set (master := TPRF pms (TPair L_master (TLabel 0)) (TPair (TRand (c_rand cfg)) (sh_random_of st))) in *.
  exists pms, ckxm.
  destruct (sh_ticket_of st) eqn:Etk; cbn iota in Est1; subst st1.
  - (* NewSessionTicket expected *)
    destruct l as [|i2 l]; [discriminate|].
    destruct (client_next _ _ _ _ _ Hnw H) as [st2 [r2 [Hr2 [Hs2 Hn2]]]]. clear H Hnw.
    destruct Hs2 as [[m2 [Ei2 [_ Hs2]]]|[_ [Hc _]]]; [|discriminate].
    apply gmc_ticket in Hs2; [|reflexivity|exact Hr2]. destruct Hs2 as [nst [Em2 [Er2 Est2]]]. subst i2 m2 r2.
    destruct Hn2 as [[_ [H Hnw]]|[Hc _]]; [|discriminate]. csimp Est2. subst st2.
    (* ChangeCipherSpec *)
    destruct l as [|i3 l]; [discriminate|].
    destruct (client_next _ _ _ _ _ Hnw H) as [st3 [r3 [Hr3 [Hs3 Hn3]]]]. clear H Hnw.
    destruct Hs3 as [[m3 [_ [Hc _]]]|[Ei3 [_ [Er3 Est3]]]]; [exfalso; apply Hc; reflexivity|]. subst i3 r3.
    destruct Hn3 as [[_ [H Hnw]]|[Hc _]]; [|discriminate]. csimp Est3. subst st3.
    (* Finished *)
    destruct l as [|i4 l]; [discriminate|].
    destruct (client_next _ _ _ _ _ Hnw H) as [st4 [r4 [Hr4 [Hs4 Hn4]]]]. clear H Hnw.
    destruct Hs4 as [[m4 [Ei4 [_ Hs4]]]|[_ [Hc _]]]; [|discriminate].
    apply gmc_finished in Hs4; [|reflexivity|exact Hr4]. destruct Hs4 as [vd [Em4 [Er4 [Hvd Est4]]]]. subst i4 m4 r4.
    destruct Hn4 as [[Hc _]|[_ Est']]; [discriminate|]. csimp Est4. csimp Hvd. subst st4 st'.
    exists nst, vd, l. cbn zeta. repeat split; try reflexivity; try exact Hckx'; try exact Hvd.
  - (* no ticket *)
    destruct l as [|i3 l]; [discriminate|].
    destruct (client_next _ _ _ _ _ Hnw H) as [st3 [r3 [Hr3 [Hs3 Hn3]]]]. clear H Hnw.
    destruct Hs3 as [[m3 [_ [Hc _]]]|[Ei3 [_ [Er3 Est3]]]]; [exfalso; apply Hc; reflexivity|]. subst i3 r3.
    destruct Hn3 as [[_ [H Hnw]]|[Hc _]]; [|discriminate]. csimp Est3. subst st3.
    destruct l as [|i4 l]; [discriminate|].
    destruct (client_next _ _ _ _ _ Hnw H) as [st4 [r4 [Hr4 [Hs4 Hn4]]]]. clear H Hnw.
    destruct Hs4 as [[m4 [Ei4 [_ Hs4]]]|[_ [Hc _]]]; [|discriminate].
    apply gmc_finished in Hs4; [|reflexivity|exact Hr4]. destruct Hs4 as [vd [Em4 [Er4 [Hvd Est4]]]]. subst i4 m4 r4.
    destruct Hn4 as [[Hc _]|[_ Est']]; [discriminate|]. csimp Est4. csimp Hvd. subst st4 st'.
    exists TNil, vd, l. cbn zeta. rewrite !app_nil_r. repeat split; try reflexivity; try exact Hckx'; try exact Hvd.
Qed.

Definition gm_resumed_inputs (sh : server_hello) (nst vd : term) : list input :=
  [IHs (MServerHello sh)] ++ (if sh_ticket_supported sh then [IHs (MNewSessionTicket nst)] else []) ++ [ICCS true; IHs (MFinished vd)].

Definition gm_resumed_ok (cfg : cconfig) (sh : server_hello) (nst vd : term) (st' : cstate) : Prop :=
  exists su ticket ssuite ms,
    c_session cfg = Some (ticket, ssuite, ms) /\
    sh_vers sh = VersionGMSSL /\
    mutualCipherSuite gmCipherSuites (c_suites cfg) (sh_suite sh) = Some su /\
    processServerHello cfg sh su = Some true /\
    let tr := [enc_hmsg (MClientHello (client_hello_of cfg)); enc_hmsg (MServerHello sh)]
              ++ (if sh_ticket_supported sh then [enc_hmsg (MNewSessionTicket nst)] else []) in
    vd = finished_sum 0 ms L_server_finished tr /\
    cs_master st' = ms /\
    cs_out st' = [OHs (MClientHello (client_hello_of cfg)); OCCS;
                  OHs (MFinished (finished_sum 0 ms L_client_finished (tr ++ [enc_hmsg (MFinished vd)])))].

Theorem gm_client_complete_flight : forall cfg l st', c_gm cfg = true -> nowarn l ->
  run (client_step cfg) (cs_set_warn (client_init cfg) 0) l = RComplete st' ->
  (exists f rest, l = gm_flight_inputs f ++ rest /\ gm_full_flight_ok cfg f st') \/
  (exists sh nst vd rest, l = gm_resumed_inputs sh nst vd ++ rest /\ gm_resumed_ok cfg sh nst vd st').
Proof.
  intros cfg l st' Hgm Hnw H.
  unfold client_init in H. rewrite Hgm in H. cbn [cs_set_warn cs_phase cs_warn cs_vers cs_fp cs_sh cs_kx cs_certs cs_skx cs_cert_req cs_resumed cs_master cs_tr cs_out] in H.
  (* ServerHello *)
  destruct l as [|i1 l]; [discriminate|].
  destruct (client_next _ _ _ _ _ Hnw H) as [st1 [r1 [Hr1 [Hs1 Hn1]]]]. clear H Hnw.
  destruct Hs1 as [[m1 [Ei1 [_ Hs1]]]|[_ [Hc _]]]; [|discriminate].
  apply gmc_server_hello in Hs1; [|exact Hgm|reflexivity|exact Hr1].
  destruct Hs1 as [sh [su [resumed [Em1 [Er1 [Hv [Hsu [Hpsh Est1]]]]]]]].
  subst i1 m1 r1. destruct Hn1 as [[_ [H Hnw]]|[Hc _]]; [|discriminate].
  cbn [cs_set_warn cs_phase cs_warn cs_vers cs_fp cs_sh cs_kx cs_certs cs_skx cs_cert_req cs_resumed cs_master cs_tr cs_out] in Est1.
  destruct resumed.
  2:{ (* full handshake *)
    left. subst st1.
    (* Certificate *)
    destruct l as [|i2 l]; [discriminate|].
    destruct (client_next _ _ _ _ _ Hnw H) as [st2 [r2 [Hr2 [Hs2 Hn2]]]]. clear H Hnw.
    destruct Hs2 as [[m2 [Ei2 [_ Hs2]]]|[_ [Hc _]]]; [|discriminate].
    apply gmc_certificate in Hs2; [|exact Hgm|reflexivity|exact Hr2].
    destruct Hs2 as [certs [Em2 [Er2 [Hlen [Hchk [Htrust Est2]]]]]].
    subst i2 m2 r2. destruct Hn2 as [[_ [H Hnw]]|[Hc _]]; [|discriminate].
    cbn [cs_set_warn cs_phase cs_warn cs_vers cs_fp cs_sh cs_kx cs_certs cs_skx cs_cert_req cs_resumed cs_master cs_tr cs_out] in Est2.
    subst st2.
    (* ServerKeyExchange *)
    destruct l as [|i3 l]; [discriminate|].
    destruct (client_next _ _ _ _ _ Hnw H) as [st3 [r3 [Hr3 [Hs3 Hn3]]]]. clear H Hnw.
    destruct Hs3 as [[m3 [Ei3 [_ Hs3]]]|[_ [Hc _]]]; [|discriminate].
    apply gmc_after_cert in Hs3; [|exact Hgm|reflexivity|exact Hr3].
    destruct Hs3 as [params [sig [Em3 [Er3 [Hskx Est3]]]]].
    subst i3 m3 r3. destruct Hn3 as [[_ [H Hnw]]|[Hc _]]; [|discriminate].
    cbn [cs_set_warn cs_phase cs_warn cs_vers cs_fp cs_sh cs_kx cs_certs cs_skx cs_cert_req cs_resumed cs_master cs_tr cs_out sh_random_of] in Est3, Hskx.
    subst st3.
    (* CertificateRequest or ServerHelloDone *)
    assert (Hkx : su_kx su = KxECC \/ su_kx su = KxECDHE_GM) by (eapply gm_suite_kx; exact Hsu).
    destruct l as [|i4 l]; [discriminate|].
    destruct (client_next _ _ _ _ _ Hnw H) as [st4 [r4 [Hr4 [Hs4 Hn4]]]].
    destruct Hs4 as [[m4 [Ei4 [_ Hs4]]]|[_ [Hc _]]]; [|discriminate].
    apply gmc_after_skx in Hs4; [|reflexivity|exact Hr4].
    destruct Hs4 as [[Em4 [Er4 Est4]]|[Em4 _]].
    + (* CertificateRequest, then ServerHelloDone *)
      subst i4 m4 r4. clear H Hnw. destruct Hn4 as [[_ [H Hnw]]|[Hc _]]; [|discriminate]. csimp Est4. subst st4.
      destruct l as [|i5 l]; [discriminate|].
      assert (Ei5 : i5 = IHs MServerHelloDone).
      { destruct (client_next _ _ _ _ _ Hnw H) as [st5 [r5 [Hr5 [Hs5 _]]]].
        destruct Hs5 as [[m5 [Ei5 [_ Hs5]]]|[_ [Hc _]]]; [|discriminate].
        apply gmc_hello_done in Hs5; [|reflexivity|exact Hr5]. destruct Hs5 as [-> _]. exact Ei5. }
      subst i5.
      apply gm_tail in H; [|exact Hgm|reflexivity|exact Hkx|reflexivity|right; reflexivity|exact Hnw].
      destruct H as [pms [ckxm [nst [vd [rest [Hckx Hrest]]]]]]. cbn zeta in Hrest. csimp Hrest.
      destruct Hrest as [El [Hvd [Hms [Htr Hout]]]].
      exists (mkGF sh certs params sig true nst vd), rest. split.
      * unfold gm_flight_inputs. cbn [gf_sh gf_certs gf_params gf_sig gf_req gf_nst gf_vd app]. rewrite El.
        destruct (sh_ticket_supported sh); reflexivity.
      * unfold gm_full_flight_ok. cbn [gf_sh gf_certs gf_params gf_sig gf_req gf_nst gf_vd].
        exists su, pms, ckxm. unfold client_ckx in Hckx. csimp Hckx.
        split; [exact Hv|]. split; [exact Hsu|]. split; [exact Hpsh|]. split; [exact Hlen|]. split; [exact Hchk|].
        split; [exact Htrust|]. split.
        { destruct Hkx as [Hkx|Hkx]; rewrite Hkx in Hckx, Hskx.
          - left. injection Hckx as <- <-. repeat split; auto.
          - right. destruct (term_eqb params (TLabel 29)) eqn:Ep; [|discriminate]. apply term_eqb_eq in Ep.
            injection Hckx as <- <-. repeat split; auto. }
        cbn zeta. unfold gm_tr_final, gm_out_final, gm_tr0.
        cbn [gf_sh gf_certs gf_params gf_sig gf_req gf_nst gf_vd app]. cbn [app] in Hvd, Htr, Hout.
        split; [rewrite Hvd; rewrite <- ?app_assoc; reflexivity|]. split; [exact Hms|].
        split; [rewrite Htr; rewrite <- ?app_assoc; reflexivity|exact Hout].
    + (* ServerHelloDone directly *)
      subst i4 m4.
      apply gm_tail in H; [|exact Hgm|reflexivity|exact Hkx|reflexivity|left; reflexivity|exact Hnw].
      destruct H as [pms [ckxm [nst [vd [rest [Hckx Hrest]]]]]]. cbn zeta in Hrest. csimp Hrest.
      destruct Hrest as [El [Hvd [Hms [Htr Hout]]]].
      exists (mkGF sh certs params sig false nst vd), rest. split.
      * unfold gm_flight_inputs. cbn [gf_sh gf_certs gf_params gf_sig gf_req gf_nst gf_vd app]. rewrite El.
        destruct (sh_ticket_supported sh); reflexivity.
      * unfold gm_full_flight_ok. cbn [gf_sh gf_certs gf_params gf_sig gf_req gf_nst gf_vd].
        exists su, pms, ckxm. unfold client_ckx in Hckx. csimp Hckx.
        split; [exact Hv|]. split; [exact Hsu|]. split; [exact Hpsh|]. split; [exact Hlen|]. split; [exact Hchk|].
        split; [exact Htrust|]. split.
        { destruct Hkx as [Hkx|Hkx]; rewrite Hkx in Hckx, Hskx.
          - left. injection Hckx as <- <-. repeat split; auto.
          - right. destruct (term_eqb params (TLabel 29)) eqn:Ep; [|discriminate]. apply term_eqb_eq in Ep.
            injection Hckx as <- <-. repeat split; auto. }
        cbn zeta. unfold gm_tr_final, gm_out_final, gm_tr0.
        cbn [gf_sh gf_certs gf_params gf_sig gf_req gf_nst gf_vd app]. cbn [app] in Hvd, Htr, Hout.
        split; [rewrite Hvd; rewrite <- ?app_assoc; reflexivity|]. split; [exact Hms|].
        split; [rewrite Htr; rewrite <- ?app_assoc; reflexivity|exact Hout]. }
  (* resumption *)
  right. subst st1.
  assert (Hsess : exists t ss ms, c_session cfg = Some (t, ss, ms)).
  { unfold processServerHello in Hpsh.
    repeat match type of Hpsh with (if ?c then _ else _) = _ => destruct c; try discriminate end.
    destruct (c_session cfg) as [[[t ss] ms]|]; [eauto|discriminate]. }
  destruct Hsess as [t [ss [ms Hsess]]]. rewrite Hsess in H.
  destruct (sh_ticket_supported sh) eqn:Etk.
  - destruct l as [|i2 l]; [discriminate|].
    destruct (client_next _ _ _ _ _ Hnw H) as [st2 [r2 [Hr2 [Hs2 Hn2]]]]. clear H Hnw.
    destruct Hs2 as [[m2 [Ei2 [_ Hs2]]]|[_ [Hc _]]]; [|discriminate].
    apply gmc_ticket in Hs2; [|reflexivity|exact Hr2]. destruct Hs2 as [nst [Em2 [Er2 Est2]]]. subst i2 m2 r2.
    destruct Hn2 as [[_ [H Hnw]]|[Hc _]]; [|discriminate]. csimp Est2. subst st2.
    destruct l as [|i3 l]; [discriminate|].
    destruct (client_next _ _ _ _ _ Hnw H) as [st3 [r3 [Hr3 [Hs3 Hn3]]]]. clear H Hnw.
    destruct Hs3 as [[m3 [_ [Hc _]]]|[Ei3 [_ [Er3 Est3]]]]; [exfalso; apply Hc; reflexivity|]. subst i3 r3.
    destruct Hn3 as [[_ [H Hnw]]|[Hc _]]; [|discriminate]. csimp Est3. subst st3.
    destruct l as [|i4 l]; [discriminate|].
    destruct (client_next _ _ _ _ _ Hnw H) as [st4 [r4 [Hr4 [Hs4 Hn4]]]]. clear H Hnw.
    destruct Hs4 as [[m4 [Ei4 [_ Hs4]]]|[_ [Hc _]]]; [|discriminate].
    apply gmc_finished in Hs4; [|reflexivity|exact Hr4]. destruct Hs4 as [vd [Em4 [Er4 [Hvd Est4]]]]. subst i4 m4 r4.
    destruct Hn4 as [[Hc _]|[_ Est']]; [discriminate|]. csimp Est4. csimp Hvd. subst st4 st'.
    exists sh, nst, vd, l. split; [unfold gm_resumed_inputs; rewrite Etk; reflexivity|].
    exists su, t, ss, ms. split; [exact Hsess|]. split; [exact Hv|]. split; [exact Hsu|]. split; [exact Hpsh|].
    cbn zeta. rewrite Etk. cbn [app] in *. split; [exact Hvd|]. split; reflexivity.
  - destruct l as [|i3 l]; [discriminate|].
    destruct (client_next _ _ _ _ _ Hnw H) as [st3 [r3 [Hr3 [Hs3 Hn3]]]]. clear H Hnw.
    destruct Hs3 as [[m3 [_ [Hc _]]]|[Ei3 [_ [Er3 Est3]]]]; [exfalso; apply Hc; reflexivity|]. subst i3 r3.
    destruct Hn3 as [[_ [H Hnw]]|[Hc _]]; [|discriminate]. csimp Est3. subst st3.
    destruct l as [|i4 l]; [discriminate|].
    destruct (client_next _ _ _ _ _ Hnw H) as [st4 [r4 [Hr4 [Hs4 Hn4]]]]. clear H Hnw.
    destruct Hs4 as [[m4 [Ei4 [_ Hs4]]]|[_ [Hc _]]]; [|discriminate].
    apply gmc_finished in Hs4; [|reflexivity|exact Hr4]. destruct Hs4 as [vd [Em4 [Er4 [Hvd Est4]]]]. subst i4 m4 r4.
    destruct Hn4 as [[Hc _]|[_ Est']]; [discriminate|]. csimp Est4. csimp Hvd. subst st4 st'.
    exists sh, TNil, vd, l. split; [unfold gm_resumed_inputs; rewrite Etk; reflexivity|].
    exists su, t, ss, ms. split; [exact Hsess|]. split; [exact Hv|]. split; [exact Hsu|]. split; [exact Hpsh|].
    cbn zeta. rewrite Etk. cbn [app] in *. split; [exact Hvd|]. split; reflexivity.
Qed.
