(* Symbolic terms of the gmtls handshake models (C08, C15).  No proofs in this file.

   Cryptographic values are elements of a free term algebra (perfect cryptography): a signature
   verifies exactly when it was built by the Sig constructor with the matching private key over
   the same payload, a ciphertext opens exactly with the private key whose public key it was built
   for, PRF/Hash outputs are equal exactly when their arguments are.  Private keys are named by N;
   [TPub k] is the public key of private key k. *)
From Coq Require Import List NArith Bool.
Import ListNotations.

Inductive term : Type :=
| TNil                                   (* empty string / end of a transcript list *)
| TRand (i : N)                          (* 32-byte random number i *)
| TPMS (i : N)                           (* 48-byte string i (pre-master secret material) *)
| TJunk (i : N)                          (* arbitrary bytes i of some other length / shape *)
| TLabel (i : N)                         (* a constant: PRF label, message tag, small integer field *)
| TPub (k : N)                           (* public key of private key k *)
| TCert (id : N) (kind : N) (ku : N) (k : N)   (* certificate: id, key kind, key usage bits, subject key = TPub k *)
| TPair (a b : term)
| TEnc (pk : term) (t : term)            (* public-key encryption of t to pk *)
| TSig (k : N) (t : term)                (* signature with private key k over t *)
| TPRF (secret label seed : term)
| THash (t : term).

Fixpoint term_eqb (a b : term) : bool :=
  match a, b with
  | TNil, TNil => true
  | TRand i, TRand j => N.eqb i j
  | TPMS i, TPMS j => N.eqb i j
  | TJunk i, TJunk j => N.eqb i j
  | TLabel i, TLabel j => N.eqb i j
  | TPub i, TPub j => N.eqb i j
  | TCert i1 k1 u1 s1, TCert i2 k2 u2 s2 => N.eqb i1 i2 && N.eqb k1 k2 && N.eqb u1 u2 && N.eqb s1 s2
  | TPair a1 a2, TPair b1 b2 => term_eqb a1 b1 && term_eqb a2 b2
  | TEnc p1 t1, TEnc p2 t2 => term_eqb p1 p2 && term_eqb t1 t2
  | TSig k1 t1, TSig k2 t2 => N.eqb k1 k2 && term_eqb t1 t2
  | TPRF s1 l1 d1, TPRF s2 l2 d2 => term_eqb s1 s2 && term_eqb l1 l2 && term_eqb d1 d2
  | THash t1, THash t2 => term_eqb t1 t2
  | _, _ => false
  end.

(* a list of terms as one term (transcripts, concatenations) *)
Fixpoint tlist (l : list term) : term :=
  match l with
  | [] => TNil
  | t :: r => TPair t (tlist r)
  end.

(* ---- the cryptographic checks, decided by term structure -------------------------------- *)

(* sm2 / ecdsa / rsa signature verification *)
Definition verify (pk : term) (sig : term) (payload : term) : bool :=
  match sig with
  | TSig k p => term_eqb pk (TPub k) && term_eqb p payload
  | _ => false
  end.

(* public-key decryption with private key k *)
Definition decrypt (k : N) (ct : term) : option term :=
  match ct with
  | TEnc (TPub k') p => if N.eqb k k' then Some p else None
  | _ => None
  end.

(* "len(plain) == 48" *)
Definition is_48_bytes (t : term) : bool :=
  match t with TPMS _ => true | _ => false end.

(* labels *)
Definition L_master : term := TLabel 1.
Definition L_client_finished : term := TLabel 2.
Definition L_server_finished : term := TLabel 3.

(* masterFromPreMasterSecret: PRF(pms, "master secret", client_random || server_random) *)
Definition master_secret (pms cr sr : term) : term := TPRF pms L_master (TPair cr sr).

(* finishedHash.clientSum / serverSum: PRF(master, label, Hash(transcript)) *)
Definition finished_term (master label transcript : term) : term := TPRF master label (THash transcript).

(* certificates *)
Definition KIND_SM2 : N := 1.
Definition KIND_RSA : N := 2.
Definition KIND_ECDSA : N := 3.     (* EC key on another curve *)
Definition KIND_OTHER : N := 4.     (* DSA etc.: no type the code supports *)
Definition KU_SIGN : N := 1.        (* digitalSignature / contentCommitment *)
Definition KU_ENC : N := 2.         (* keyEncipherment / dataEncipherment / keyAgreement *)

Definition cert_id (c : term) : N := match c with TCert i _ _ _ => i | _ => 0%N end.
Definition cert_kind (c : term) : N := match c with TCert _ k _ _ => k | _ => 0%N end.
Definition cert_ku (c : term) : N := match c with TCert _ _ u _ => u | _ => 0%N end.
Definition cert_key (c : term) : N := match c with TCert _ _ _ k => k | _ => 0%N end.
Definition cert_pub (c : term) : term := TPub (cert_key c).
(* x509.ParseCertificate succeeds *)
Definition is_cert (c : term) : bool := match c with TCert _ _ _ _ => true | _ => false end.
