(* Byte-level models of the handshake_messages.go parsers that an endpoint runs on bytes from an untrusted peer
   (no proofs in this file).  Expression by expression as in the Go source: every index / slice expression is a checked
   access (Panic where Go would panic; slicing is checked against len, which is at least as strict as Go's check against
   cap), loops run on fuel (Hang).  [data] always includes the 4-byte handshake header, as in readHandshake.
   Err 1 = "return false".

     clientHelloMsg.unmarshal (with the extension loop), serverHelloMsg.unmarshal, certificateMsg.unmarshal,
     serverKeyExchangeMsg, clientKeyExchangeMsg, certificateRequestMsg, certificateVerifyMsg, finishedMsg,
     newSessionTicketMsg, certificateStatusMsg, nextProtoMsg, serverHelloDoneMsg, helloRequestMsg *)
From Coq Require Import List NArith Arith Bool.
From GmsmVerif Require Import Lib.Outcome HS.HSParsers.
Import ListNotations.

Notation byte := N (only parsing).

(* b[i:j] *)
Definition slice (b : list byte) (i j : nat) : outcome (list byte) :=
  if Nat.leb i j && Nat.leb j (length b) then Ok (firstn (j - i) (skipn i b)) else Panic.

(* uint16(b0)<<8 | uint16(b1), as a nat when used as a length *)
Definition u16n (b0 b1 : byte) : nat := N.to_nat (u16 b0 b1).

(* n big-endian uint16 values read as d[0], d[1]; d = d[2:] *)
Fixpoint read_u16s (n : nat) (d : list byte) : outcome (list N) :=
  match n with
  | O => Ok []
  | S n' =>
      do b0 <- byte_at d 0;
      do b1 <- byte_at d 1;
      do d' <- slice_from d 2;
      do r <- read_u16s n' d';
      Ok (u16 b0 b1 :: r)
  end.

(* extension numbers (common.go) *)
Definition extensionServerName : N := 0.
Definition extensionStatusRequest : N := 5.
Definition extensionSupportedCurves : N := 10.
Definition extensionSupportedPoints : N := 11.
Definition extensionSignatureAlgorithms : N := 13.
Definition extensionALPN : N := 16.
Definition extensionSCT : N := 18.
Definition extensionSessionTicket : N := 35.
Definition extensionNextProtoNeg : N := 13172.
Definition extensionRenegotiationInfo : N := 65281.
Definition scsvRenegotiation : N := 255.
Definition statusTypeOCSP : N := 1.

(* ---------- clientHelloMsg ------------------------------------------------------------------------- *)
Record ch_fields := mkCHF {
  f_vers : N; f_random : list byte; f_sid : list byte; f_suites : list N; f_comp : list byte;
  f_npn : bool; f_sni : list byte; f_ocsp : bool; f_curves : list N; f_points : list byte;
  f_ticket_supported : bool; f_ticket : list byte; f_sigalgs : list N;
  f_reneg_supported : bool; f_reneg : list byte; f_alpn : list (list byte); f_scts : bool }.

(* the cipher-suite loop: m.cipherSuites[i] = uint16(data[2+2*i])<<8 | uint16(data[3+2*i]) *)
Fixpoint ch_suites_loop (n i : nat) (data : list byte) : outcome (list N * bool) :=
  match n with
  | O => Ok ([], false)
  | S n' =>
      do b0 <- byte_at data (2 + 2 * i);
      do b1 <- byte_at data (3 + 2 * i);
      do '(r, reneg) <- ch_suites_loop n' (S i) data;
      Ok (u16 b0 b1 :: r, N.eqb (u16 b0 b1) scsvRenegotiation || reneg)
  end.

(* case extensionServerName: "for len(d) > 0 { ... }" with its break at the first host_name entry *)
Fixpoint ch_sni_loop (fuel : nat) (d : list byte) (name : list byte) : outcome (list byte) :=
  match d with
  | [] => Ok name
  | _ =>
    match fuel with
    | O => Hang
    | S fuel' =>
      if Nat.ltb (length d) 3 then Err 1
      else
        do nameType <- byte_at d 0;
        do l0 <- byte_at d 1;
        do l1 <- byte_at d 2;
        let nameLen := u16n l0 l1 in
        do d1 <- slice_from d 3;
        if Nat.ltb (length d1) nameLen then Err 1
        else if N.eqb nameType 0 then (do nm <- slice_to d1 nameLen; Ok nm)      (* break *)
        else (do d2 <- slice_from d1 nameLen; ch_sni_loop fuel' d2 name)
    end
  end.

(* case extensionALPN: "for len(d) != 0 { ... }" *)
Fixpoint alpn_loop (fuel : nat) (d : list byte) (acc : list (list byte)) : outcome (list (list byte)) :=
  match d with
  | [] => Ok acc
  | _ =>
    match fuel with
    | O => Hang
    | S fuel' =>
      do sl <- byte_at d 0;
      let stringLen := N.to_nat sl in
      do d1 <- slice_from d 1;
      if Nat.eqb stringLen 0 || Nat.ltb (length d1) stringLen then Err 1
      else
        do s <- slice_to d1 stringLen;
        do d2 <- slice_from d1 stringLen;
        alpn_loop fuel' d2 (acc ++ [s])
    end
  end.

(* the body of "switch extension { ... }": data = what follows the 4-byte extension header (NOT cut at length) *)
Definition ch_extension (m : ch_fields) (extension : N) (length_ : nat) (data : list byte) : outcome ch_fields :=
  let upd_npn v := mkCHF (f_vers m) (f_random m) (f_sid m) (f_suites m) (f_comp m) v (f_sni m) (f_ocsp m) (f_curves m) (f_points m)
                         (f_ticket_supported m) (f_ticket m) (f_sigalgs m) (f_reneg_supported m) (f_reneg m) (f_alpn m) (f_scts m) in
  let upd_sni v := mkCHF (f_vers m) (f_random m) (f_sid m) (f_suites m) (f_comp m) (f_npn m) v (f_ocsp m) (f_curves m) (f_points m)
                         (f_ticket_supported m) (f_ticket m) (f_sigalgs m) (f_reneg_supported m) (f_reneg m) (f_alpn m) (f_scts m) in
  let upd_ocsp v := mkCHF (f_vers m) (f_random m) (f_sid m) (f_suites m) (f_comp m) (f_npn m) (f_sni m) v (f_curves m) (f_points m)
                         (f_ticket_supported m) (f_ticket m) (f_sigalgs m) (f_reneg_supported m) (f_reneg m) (f_alpn m) (f_scts m) in
  let upd_curves v := mkCHF (f_vers m) (f_random m) (f_sid m) (f_suites m) (f_comp m) (f_npn m) (f_sni m) (f_ocsp m) v (f_points m)
                         (f_ticket_supported m) (f_ticket m) (f_sigalgs m) (f_reneg_supported m) (f_reneg m) (f_alpn m) (f_scts m) in
  let upd_points v := mkCHF (f_vers m) (f_random m) (f_sid m) (f_suites m) (f_comp m) (f_npn m) (f_sni m) (f_ocsp m) (f_curves m) v
                         (f_ticket_supported m) (f_ticket m) (f_sigalgs m) (f_reneg_supported m) (f_reneg m) (f_alpn m) (f_scts m) in
  let upd_ticket v := mkCHF (f_vers m) (f_random m) (f_sid m) (f_suites m) (f_comp m) (f_npn m) (f_sni m) (f_ocsp m) (f_curves m) (f_points m)
                         true v (f_sigalgs m) (f_reneg_supported m) (f_reneg m) (f_alpn m) (f_scts m) in
  let upd_sigalgs v := mkCHF (f_vers m) (f_random m) (f_sid m) (f_suites m) (f_comp m) (f_npn m) (f_sni m) (f_ocsp m) (f_curves m) (f_points m)
                         (f_ticket_supported m) (f_ticket m) v (f_reneg_supported m) (f_reneg m) (f_alpn m) (f_scts m) in
  let upd_reneg v := mkCHF (f_vers m) (f_random m) (f_sid m) (f_suites m) (f_comp m) (f_npn m) (f_sni m) (f_ocsp m) (f_curves m) (f_points m)
                         (f_ticket_supported m) (f_ticket m) (f_sigalgs m) true v (f_alpn m) (f_scts m) in
  let upd_alpn v := mkCHF (f_vers m) (f_random m) (f_sid m) (f_suites m) (f_comp m) (f_npn m) (f_sni m) (f_ocsp m) (f_curves m) (f_points m)
                         (f_ticket_supported m) (f_ticket m) (f_sigalgs m) (f_reneg_supported m) (f_reneg m) v (f_scts m) in
  let upd_scts v := mkCHF (f_vers m) (f_random m) (f_sid m) (f_suites m) (f_comp m) (f_npn m) (f_sni m) (f_ocsp m) (f_curves m) (f_points m)
                         (f_ticket_supported m) (f_ticket m) (f_sigalgs m) (f_reneg_supported m) (f_reneg m) (f_alpn m) v in
  if N.eqb extension extensionServerName then
    do d <- slice_to data length_;
    if Nat.ltb (length d) 2 then Err 1
    else
      do b0 <- byte_at d 0;
      do b1 <- byte_at d 1;
      do d1 <- slice_from d 2;
      if negb (Nat.eqb (length d1) (u16n b0 b1)) then Err 1
      else (do nm <- ch_sni_loop (S (length d1)) d1 (f_sni m); Ok (upd_sni nm))
  else if N.eqb extension extensionNextProtoNeg then
    if Nat.ltb 0 length_ then Err 1 else Ok (upd_npn true)
  else if N.eqb extension extensionStatusRequest then
    (* m.ocspStapling = length > 0 && data[0] == statusTypeOCSP *)
    if Nat.ltb 0 length_ then (do b <- byte_at data 0; Ok (upd_ocsp (N.eqb b statusTypeOCSP))) else Ok (upd_ocsp false)
  else if N.eqb extension extensionSupportedCurves then
    if Nat.ltb length_ 2 then Err 1
    else
      do b0 <- byte_at data 0;
      do b1 <- byte_at data 1;
      let l := u16n b0 b1 in
      if Nat.eqb (l mod 2) 1 || negb (Nat.eqb length_ (l + 2)) then Err 1
      else
        do d <- slice_from data 2;
        do cs <- read_u16s (l / 2) d;
        Ok (upd_curves cs)
  else if N.eqb extension extensionSupportedPoints then
    if Nat.ltb length_ 1 then Err 1
    else
      do b0 <- byte_at data 0;
      let l := N.to_nat b0 in
      if negb (Nat.eqb length_ (l + 1)) then Err 1
      else
        do d <- slice_from data 1;
        Ok (upd_points (firstn l d))                      (* make + copy *)
  else if N.eqb extension extensionSessionTicket then
    do t <- slice_to data length_;
    Ok (upd_ticket t)
  else if N.eqb extension extensionSignatureAlgorithms then
    if Nat.ltb length_ 2 || Nat.eqb (length_ mod 2) 1 then Err 1
    else
      do b0 <- byte_at data 0;
      do b1 <- byte_at data 1;
      let l := u16n b0 b1 in
      if negb (Nat.eqb l (length_ - 2)) then Err 1
      else
        do d <- slice_from data 2;
        do algs <- read_u16s (l / 2) d;
        Ok (upd_sigalgs algs)
  else if N.eqb extension extensionRenegotiationInfo then
    if Nat.eqb length_ 0 then Err 1
    else
      do d <- slice_to data length_;
      do b0 <- byte_at d 0;
      do d1 <- slice_from d 1;
      if negb (Nat.eqb (N.to_nat b0) (length d1)) then Err 1 else Ok (upd_reneg d1)
  else if N.eqb extension extensionALPN then
    if Nat.ltb length_ 2 then Err 1
    else
      do b0 <- byte_at data 0;
      do b1 <- byte_at data 1;
      if negb (Nat.eqb (u16n b0 b1) (length_ - 2)) then Err 1
      else
        do d <- slice data 2 length_;
        do protos <- alpn_loop (S (length d)) d (f_alpn m);
        Ok (upd_alpn protos)
  else if N.eqb extension extensionSCT then
    if negb (Nat.eqb length_ 0) then Err 1 else Ok (upd_scts true)
  else Ok m.

(* "for len(data) != 0 { ... }" over the extension block *)
Fixpoint ch_ext_loop (fuel : nat) (data : list byte) (m : ch_fields) : outcome ch_fields :=
  match data with
  | [] => Ok m
  | _ =>
    match fuel with
    | O => Hang
    | S fuel' =>
      if Nat.ltb (length data) 4 then Err 1
      else
        do e0 <- byte_at data 0;
        do e1 <- byte_at data 1;
        do l0 <- byte_at data 2;
        do l1 <- byte_at data 3;
        let length_ := u16n l0 l1 in
        do data1 <- slice_from data 4;
        if Nat.ltb (length data1) length_ then Err 1
        else
          do m' <- ch_extension m (u16 e0 e1) length_ data1;
          do data2 <- slice_from data1 length_;
          ch_ext_loop fuel' data2 m'
    end
  end.

Definition clientHello_unmarshal (data : list byte) : outcome ch_fields :=
  if Nat.ltb (length data) 42 then Err 1
  else
    do v0 <- byte_at data 4;
    do v1 <- byte_at data 5;
    do random <- slice data 6 38;
    do sl <- byte_at data 38;
    let sessionIdLen := N.to_nat sl in
    if Nat.ltb 32 sessionIdLen || Nat.ltb (length data) (39 + sessionIdLen) then Err 1
    else
      do sid <- slice data 39 (39 + sessionIdLen);
      do data1 <- slice_from data (39 + sessionIdLen);
      if Nat.ltb (length data1) 2 then Err 1
      else
        do c0 <- byte_at data1 0;
        do c1 <- byte_at data1 1;
        let cipherSuiteLen := u16n c0 c1 in
        if Nat.eqb (cipherSuiteLen mod 2) 1 || Nat.ltb (length data1) (2 + cipherSuiteLen) then Err 1
        else
          do '(suites, reneg) <- ch_suites_loop (cipherSuiteLen / 2) 0 data1;
          do data2 <- slice_from data1 (2 + cipherSuiteLen);
          if Nat.ltb (length data2) 1 then Err 1
          else
            do cl <- byte_at data2 0;
            let compressionMethodsLen := N.to_nat cl in
            if Nat.ltb (length data2) (1 + compressionMethodsLen) then Err 1
            else
              do comp <- slice data2 1 (1 + compressionMethodsLen);
              do data3 <- slice_from data2 (1 + compressionMethodsLen);
              let m := mkCHF (u16 v0 v1) random sid suites comp false [] false [] [] false [] [] reneg [] [] false in
              match data3 with
              | [] => Ok m
              | _ =>
                if Nat.ltb (length data3) 2 then Err 1
                else
                  do x0 <- byte_at data3 0;
                  do x1 <- byte_at data3 1;
                  do data4 <- slice_from data3 2;
                  if negb (Nat.eqb (u16n x0 x1) (length data4)) then Err 1
                  else ch_ext_loop (S (length data4)) data4 m
              end.

(* ---------- serverHelloMsg ------------------------------------------------------------------------- *)
Record sh_fields := mkSHF {
  g_vers : N; g_random : list byte; g_sid : list byte; g_suite : N; g_comp : N;
  g_npn : bool; g_protos : list (list byte); g_ocsp : bool; g_ticket : bool;
  g_reneg_supported : bool; g_reneg : list byte; g_alpn : list byte; g_scts : list (list byte) }.

(* case extensionSCT: "for len(d) != 0 { ... }" *)
Fixpoint sct_loop (fuel : nat) (d : list byte) (acc : list (list byte)) : outcome (list (list byte)) :=
  match d with
  | [] => Ok acc
  | _ =>
    match fuel with
    | O => Hang
    | S fuel' =>
      if Nat.ltb (length d) 2 then Err 1
      else
        do b0 <- byte_at d 0;
        do b1 <- byte_at d 1;
        let sctLen := u16n b0 b1 in
        do d1 <- slice_from d 2;
        if Nat.eqb sctLen 0 || Nat.ltb (length d1) sctLen then Err 1
        else
          do s <- slice_to d1 sctLen;
          do d2 <- slice_from d1 sctLen;
          sct_loop fuel' d2 (acc ++ [s])
    end
  end.

Definition sh_extension (m : sh_fields) (extension : N) (length_ : nat) (data : list byte) : outcome sh_fields :=
  if N.eqb extension extensionNextProtoNeg then
    do d <- slice_to data length_;
    do protos <- alpn_loop (S (length d)) d (g_protos m);      (* the same loop shape: l == 0 || l > len(d) *)
    Ok (mkSHF (g_vers m) (g_random m) (g_sid m) (g_suite m) (g_comp m) true protos (g_ocsp m) (g_ticket m)
              (g_reneg_supported m) (g_reneg m) (g_alpn m) (g_scts m))
  else if N.eqb extension extensionStatusRequest then
    if Nat.ltb 0 length_ then Err 1
    else Ok (mkSHF (g_vers m) (g_random m) (g_sid m) (g_suite m) (g_comp m) (g_npn m) (g_protos m) true (g_ticket m)
                   (g_reneg_supported m) (g_reneg m) (g_alpn m) (g_scts m))
  else if N.eqb extension extensionSessionTicket then
    if Nat.ltb 0 length_ then Err 1
    else Ok (mkSHF (g_vers m) (g_random m) (g_sid m) (g_suite m) (g_comp m) (g_npn m) (g_protos m) (g_ocsp m) true
                   (g_reneg_supported m) (g_reneg m) (g_alpn m) (g_scts m))
  else if N.eqb extension extensionRenegotiationInfo then
    if Nat.eqb length_ 0 then Err 1
    else
      do d <- slice_to data length_;
      do b0 <- byte_at d 0;
      do d1 <- slice_from d 1;
      if negb (Nat.eqb (N.to_nat b0) (length d1)) then Err 1
      else Ok (mkSHF (g_vers m) (g_random m) (g_sid m) (g_suite m) (g_comp m) (g_npn m) (g_protos m) (g_ocsp m) (g_ticket m)
                     true d1 (g_alpn m) (g_scts m))
  else if N.eqb extension extensionALPN then
    do d <- slice_to data length_;
    if Nat.ltb (length d) 3 then Err 1
    else
      do b0 <- byte_at d 0;
      do b1 <- byte_at d 1;
      if negb (Nat.eqb (u16n b0 b1) (length d - 2)) then Err 1
      else
        do d1 <- slice_from d 2;
        do l <- byte_at d1 0;
        if negb (Nat.eqb (N.to_nat l) (length d1 - 1)) then Err 1
        else
          do d2 <- slice_from d1 1;
          if Nat.eqb (length d2) 0 then Err 1
          else Ok (mkSHF (g_vers m) (g_random m) (g_sid m) (g_suite m) (g_comp m) (g_npn m) (g_protos m) (g_ocsp m) (g_ticket m)
                         (g_reneg_supported m) (g_reneg m) d2 (g_scts m))
  else if N.eqb extension extensionSCT then
    do d <- slice_to data length_;
    if Nat.ltb (length d) 2 then Err 1
    else
      do b0 <- byte_at d 0;
      do b1 <- byte_at d 1;
      let l := u16n b0 b1 in
      do d1 <- slice_from d 2;
      if negb (Nat.eqb (length d1) l) || Nat.eqb l 0 then Err 1
      else
        do scts <- sct_loop (S (length d1)) d1 [];
        Ok (mkSHF (g_vers m) (g_random m) (g_sid m) (g_suite m) (g_comp m) (g_npn m) (g_protos m) (g_ocsp m) (g_ticket m)
                  (g_reneg_supported m) (g_reneg m) (g_alpn m) scts)
  else Ok m.

Fixpoint sh_ext_loop (fuel : nat) (data : list byte) (m : sh_fields) : outcome sh_fields :=
  match data with
  | [] => Ok m
  | _ =>
    match fuel with
    | O => Hang
    | S fuel' =>
      if Nat.ltb (length data) 4 then Err 1
      else
        do e0 <- byte_at data 0;
        do e1 <- byte_at data 1;
        do l0 <- byte_at data 2;
        do l1 <- byte_at data 3;
        let length_ := u16n l0 l1 in
        do data1 <- slice_from data 4;
        if Nat.ltb (length data1) length_ then Err 1
        else
          do m' <- sh_extension m (u16 e0 e1) length_ data1;
          do data2 <- slice_from data1 length_;
          sh_ext_loop fuel' data2 m'
    end
  end.

Definition serverHello_unmarshal (data : list byte) : outcome sh_fields :=
  if Nat.ltb (length data) 42 then Err 1
  else
    do v0 <- byte_at data 4;
    do v1 <- byte_at data 5;
    do random <- slice data 6 38;
    do sl <- byte_at data 38;
    let sessionIdLen := N.to_nat sl in
    if Nat.ltb 32 sessionIdLen || Nat.ltb (length data) (39 + sessionIdLen) then Err 1
    else
      do sid <- slice data 39 (39 + sessionIdLen);
      do data1 <- slice_from data (39 + sessionIdLen);
      if Nat.ltb (length data1) 3 then Err 1
      else
        do s0 <- byte_at data1 0;
        do s1 <- byte_at data1 1;
        do cm <- byte_at data1 2;
        do data2 <- slice_from data1 3;
        let m := mkSHF (u16 v0 v1) random sid (u16 s0 s1) cm false [] false false false [] [] [] in
        match data2 with
        | [] => Ok m
        | _ =>
          if Nat.ltb (length data2) 2 then Err 1
          else
            do x0 <- byte_at data2 0;
            do x1 <- byte_at data2 1;
            do data3 <- slice_from data2 2;
            if negb (Nat.eqb (length data3) (u16n x0 x1)) then Err 1
            else sh_ext_loop (S (length data3)) data3 m
        end.

(* ---------- certificateMsg --------------------------------------------------------------------------- *)
(* uint32 arithmetic: certsLen -= 3 + certLen wraps *)
Definition sub32 (a b : N) : N := ((a + 4294967296 - b mod 4294967296) mod 4294967296)%N.

(* first loop: "for certsLen > 0 { ... numCerts++ }" *)
Fixpoint cert_count_loop (fuel : nat) (d : list byte) (certsLen : N) (numCerts : nat) : outcome nat :=
  if N.eqb certsLen 0 then Ok numCerts
  else
    match fuel with
    | O => Hang
    | S fuel' =>
      if Nat.ltb (length d) 4 then Err 1
      else
        do b0 <- byte_at d 0;
        do b1 <- byte_at d 1;
        do b2 <- byte_at d 2;
        let certLen := u24 b0 b1 b2 in
        if N.ltb (N.of_nat (length d)) (3 + certLen) then Err 1
        else
          do d' <- slice_from d (N.to_nat (3 + certLen));
          cert_count_loop fuel' d' (sub32 certsLen (3 + certLen)) (S numCerts)
    end.

(* second loop: "for i := 0; i < numCerts; i++ { ... }" *)
Fixpoint cert_take_loop (n : nat) (d : list byte) : outcome (list (list byte)) :=
  match n with
  | O => Ok []
  | S n' =>
      do b0 <- byte_at d 0;
      do b1 <- byte_at d 1;
      do b2 <- byte_at d 2;
      let certLen := N.to_nat (u24 b0 b1 b2) in
      do c <- slice d 3 (3 + certLen);
      do d' <- slice_from d (3 + certLen);
      do r <- cert_take_loop n' d';
      Ok (c :: r)
  end.

Definition certificate_unmarshal (data : list byte) : outcome (list (list byte)) :=
  if Nat.ltb (length data) 7 then Err 1
  else
    do b4 <- byte_at data 4;
    do b5 <- byte_at data 5;
    do b6 <- byte_at data 6;
    let certsLen := u24 b4 b5 b6 in
    if negb (N.eqb (N.of_nat (length data) mod 4294967296) ((certsLen + 7) mod 4294967296)) then Err 1
    else
      do d <- slice_from data 7;
      do numCerts <- cert_count_loop (S (length d)) d certsLen 0;
      cert_take_loop numCerts d.

(* ---------- the small ones ------------------------------------------------------------------------------ *)
(* serverKeyExchangeMsg: m.key = data[4:] *)
Definition serverKeyExchange_unmarshal (data : list byte) : outcome (list byte) :=
  if Nat.ltb (length data) 4 then Err 1 else slice_from data 4.

(* clientKeyExchangeMsg *)
Definition clientKeyExchange_unmarshal (data : list byte) : outcome (list byte) :=
  if Nat.ltb (length data) 4 then Err 1
  else
    do b1 <- byte_at data 1;
    do b2 <- byte_at data 2;
    do b3 <- byte_at data 3;
    if negb (N.eqb (u24 b1 b2 b3) (N.of_nat (length data - 4))) then Err 1 else slice_from data 4.

(* finishedMsg *)
Definition finished_unmarshal (data : list byte) : outcome (list byte) :=
  if Nat.ltb (length data) 4 then Err 1 else slice_from data 4.

(* certificateVerifyMsg; result: signatureAlgorithm (0 when absent), signature *)
Definition certificateVerify_unmarshal (hasSignatureAndHash : bool) (data : list byte) : outcome (N * list byte) :=
  if Nat.ltb (length data) 6 then Err 1
  else
    do b1 <- byte_at data 1;
    do b2 <- byte_at data 2;
    do b3 <- byte_at data 3;
    if negb (N.eqb (N.of_nat (length data - 4)) (u24 b1 b2 b3)) then Err 1
    else
      do d <- slice_from data 4;
      do '(alg, d1) <-
        (if hasSignatureAndHash
         then (do a0 <- byte_at d 0; do a1 <- byte_at d 1; do d' <- slice_from d 2; Ok (u16 a0 a1, d'))
         else Ok (0%N, d));
      if Nat.ltb (length d1) 2 then Err 1
      else
        do s0 <- byte_at d1 0;
        do s1 <- byte_at d1 1;
        do d2 <- slice_from d1 2;
        (* int(data[0])<<8 + int(data[1]) *)
        if negb (Nat.eqb (length d2) (N.to_nat (N.shiftl s0 8 + s1))) then Err 1 else Ok (alg, d2).

(* newSessionTicketMsg *)
Definition newSessionTicket_unmarshal (data : list byte) : outcome (list byte) :=
  if Nat.ltb (length data) 10 then Err 1
  else
    do b1 <- byte_at data 1;
    do b2 <- byte_at data 2;
    do b3 <- byte_at data 3;
    if negb (N.eqb (N.of_nat (length data - 4)) (u24 b1 b2 b3)) then Err 1
    else
      do t0 <- byte_at data 8;
      do t1 <- byte_at data 9;
      if negb (Nat.eqb (length data - 10) (N.to_nat (N.shiftl t0 8 + t1))) then Err 1 else slice_from data 10.

(* certificateRequestMsg (the standard-TLS layout); result: types, signature algorithms, CAs *)
Definition certificateRequest_unmarshal (hasSignatureAndHash : bool) (data : list byte)
  : outcome (list byte * list N * list (list byte)) :=
  if Nat.ltb (length data) 5 then Err 1
  else
    do b1 <- byte_at data 1;
    do b2 <- byte_at data 2;
    do b3 <- byte_at data 3;
    if negb (N.eqb (N.of_nat (length data - 4)) (u24 b1 b2 b3)) then Err 1
    else
      do nt <- byte_at data 4;
      let numCertTypes := N.to_nat nt in
      do data1 <- slice_from data 5;
      if Nat.eqb numCertTypes 0 || Nat.leb (length data1) numCertTypes then Err 1
      else
        let types := firstn numCertTypes data1 in
        if negb (Nat.eqb (length types) numCertTypes) then Err 1
        else
          do data2 <- slice_from data1 numCertTypes;
          do '(algs, data3) <-
            (if hasSignatureAndHash then
               if Nat.ltb (length data2) 2 then Err 1
               else
                 do a0 <- byte_at data2 0;
                 do a1 <- byte_at data2 1;
                 let sigAndHashLen := u16n a0 a1 in
                 do d <- slice_from data2 2;
                 if Nat.eqb (sigAndHashLen mod 2) 1 then Err 1
                 else if Nat.ltb (length d) sigAndHashLen then Err 1
                 else
                   do l <- read_u16s (sigAndHashLen / 2) d;
                   do d' <- slice_from d (2 * (sigAndHashLen / 2));
                   Ok (l, d')
             else Ok ([], data2));
          if Nat.ltb (length data3) 2 then Err 1
          else
            do c0 <- byte_at data3 0;
            do c1 <- byte_at data3 1;
            let casLength := u16n c0 c1 in
            do data4 <- slice_from data3 2;
            if Nat.ltb (length data4) casLength then Err 1
            else
              let cas := firstn casLength data4 in
              do data5 <- slice_from data4 casLength;
              do cal <- certreq_cas (length cas) cas [];
              if Nat.eqb (length data5) 0 then Ok (types, algs, cal) else Err 1.

(* certificateStatusMsg; result: status type, response *)
Definition certificateStatus_unmarshal (data : list byte) : outcome (N * list byte) :=
  if Nat.ltb (length data) 5 then Err 1
  else
    do st <- byte_at data 4;
    if N.eqb st statusTypeOCSP then
      if Nat.ltb (length data) 8 then Err 1
      else
        do r0 <- byte_at data 5;
        do r1 <- byte_at data 6;
        do r2 <- byte_at data 7;
        if negb (N.eqb (N.of_nat (length data) mod 4294967296) ((4 + 4 + u24 r0 r1 r2) mod 4294967296)) then Err 1
        else (do r <- slice_from data 8; Ok (st, r))
    else Ok (st, []).

(* nextProtoMsg; result: proto *)
Definition nextProto_unmarshal (data : list byte) : outcome (list byte) :=
  if Nat.ltb (length data) 5 then Err 1
  else
    do d <- slice_from data 4;
    do pl <- byte_at d 0;
    let protoLen := N.to_nat pl in
    do d1 <- slice_from d 1;
    if Nat.ltb (length d1) protoLen then Err 1
    else
      do proto <- slice d1 0 protoLen;
      do d2 <- slice_from d1 protoLen;
      if Nat.ltb (length d2) 1 then Err 1
      else
        do pad <- byte_at d2 0;
        do d3 <- slice_from d2 1;
        if negb (Nat.eqb (length d3) (N.to_nat pad)) then Err 1 else Ok proto.

Definition serverHelloDone_unmarshal (data : list byte) : outcome unit :=
  if Nat.eqb (length data) 4 then Ok tt else Err 1.

(* ---------- the exact acceptance condition of clientHello's extension block (specification) ---------- *)
Definition accepts {A} (o : outcome A) : Prop := exists r, o = Ok r.

(* server_name list: entries (type, u16 length, name); parsing stops at the first host_name (type 0) entry,
   whatever follows it is not looked at *)
Inductive sni_list_ok : list byte -> Prop :=
| SNI_nil : sni_list_ok []
| SNI_host : forall l0 l1 rest, u16n l0 l1 <= length rest -> sni_list_ok (0%N :: l0 :: l1 :: rest)
| SNI_other : forall t l0 l1 name rest, t <> 0%N -> length name = u16n l0 l1 -> sni_list_ok rest ->
    sni_list_ok (t :: l0 :: l1 :: name ++ rest).

(* ALPN protocol list: non-empty strings with a one-byte length *)
Inductive alpn_list_ok : list byte -> Prop :=
| AL_nil : alpn_list_ok []
| AL_cons : forall l s rest, N.to_nat l <> 0 -> length s = N.to_nat l -> alpn_list_ok rest -> alpn_list_ok (l :: s ++ rest).

(* body = exactly the [length] bytes of one extension *)
Definition ext_body_ok (extension : N) (body : list byte) : Prop :=
  if N.eqb extension extensionServerName then
    match body with b0 :: b1 :: lst => length lst = u16n b0 b1 /\ sni_list_ok lst | _ => False end
  else if N.eqb extension extensionNextProtoNeg then body = []
  else if N.eqb extension extensionStatusRequest then True
  else if N.eqb extension extensionSupportedCurves then
    match body with b0 :: b1 :: lst => length lst = u16n b0 b1 /\ Nat.even (length lst) = true | _ => False end
  else if N.eqb extension extensionSupportedPoints then
    match body with b0 :: lst => length lst = N.to_nat b0 | _ => False end
  else if N.eqb extension extensionSessionTicket then True
  else if N.eqb extension extensionSignatureAlgorithms then
    match body with b0 :: b1 :: lst => length lst = u16n b0 b1 /\ Nat.even (length lst) = true | _ => False end
  else if N.eqb extension extensionRenegotiationInfo then
    match body with b0 :: lst => length lst = N.to_nat b0 | _ => False end
  else if N.eqb extension extensionALPN then
    match body with b0 :: b1 :: lst => length lst = u16n b0 b1 /\ alpn_list_ok lst | _ => False end
  else if N.eqb extension extensionSCT then body = []
  else True.

(* the block: (u16 type, u16 length, body)* with nothing left over *)
Inductive ext_block_ok : list byte -> Prop :=
| EB_nil : ext_block_ok []
| EB_cons : forall e0 e1 l0 l1 body rest,
    length body = u16n l0 l1 -> ext_body_ok (u16 e0 e1) body -> ext_block_ok rest ->
    ext_block_ok (e0 :: e1 :: l0 :: l1 :: body ++ rest).

(* ---------- the exact acceptance condition of clientHelloMsg.unmarshal as a whole (specification) ---------- *)
(* what may follow the compression methods: nothing, or a u16 length and an extension block of exactly that length *)
Definition ch_ext_part_ok (ext : list byte) : Prop :=
  ext = [] \/ exists x0 x1 blk, ext = x0 :: x1 :: blk /\ length blk = u16n x0 x1 /\ ext_block_ok blk.

(* header (4 bytes, the 3-byte length is not looked at), version, random, session id (<= 32), cipher suites (even
   length), compression methods, extensions *)
Inductive ch_shape : list byte -> Prop :=
| CHS : forall hdr v0 v1 random sl sid c0 c1 suites cl comp ext,
    length hdr = 4 -> length random = 32 -> length sid = N.to_nat sl -> length sid <= 32 ->
    length suites = u16n c0 c1 -> Nat.even (length suites) = true -> length comp = N.to_nat cl ->
    ch_ext_part_ok ext ->
    ch_shape (hdr ++ v0 :: v1 :: random ++ sl :: sid ++ c0 :: c1 :: suites ++ cl :: comp ++ ext).

(* ---------- the exact acceptance condition of serverHelloMsg.unmarshal (specification) ---------- *)
(* signed certificate timestamps: non-empty strings with a two-byte length *)
Inductive sct_list_ok : list byte -> Prop :=
| SCT_nil : sct_list_ok []
| SCT_cons : forall b0 b1 s rest, u16n b0 b1 <> 0 -> length s = u16n b0 b1 -> sct_list_ok rest -> sct_list_ok (b0 :: b1 :: s ++ rest).

Definition sh_ext_body_ok (extension : N) (body : list byte) : Prop :=
  if N.eqb extension extensionNextProtoNeg then alpn_list_ok body
  else if N.eqb extension extensionStatusRequest then body = []
  else if N.eqb extension extensionSessionTicket then body = []
  else if N.eqb extension extensionRenegotiationInfo then
    match body with b0 :: lst => length lst = N.to_nat b0 | _ => False end
  else if N.eqb extension extensionALPN then
    match body with b0 :: b1 :: l :: proto => u16n b0 b1 = S (length proto) /\ N.to_nat l = length proto /\ proto <> [] | _ => False end
  else if N.eqb extension extensionSCT then
    match body with b0 :: b1 :: lst => length lst = u16n b0 b1 /\ lst <> [] /\ sct_list_ok lst | _ => False end
  else True.

Inductive sh_ext_block_ok : list byte -> Prop :=
| SEB_nil : sh_ext_block_ok []
| SEB_cons : forall e0 e1 l0 l1 body rest,
    length body = u16n l0 l1 -> sh_ext_body_ok (u16 e0 e1) body -> sh_ext_block_ok rest ->
    sh_ext_block_ok (e0 :: e1 :: l0 :: l1 :: body ++ rest).

Inductive sh_shape : list byte -> Prop :=
| SHS : forall hdr v0 v1 random sl sid s0 s1 cm ext,
    length hdr = 4 -> length random = 32 -> length sid = N.to_nat sl -> length sid <= 32 ->
    (ext = [] \/ exists x0 x1 blk, ext = x0 :: x1 :: blk /\ length blk = u16n x0 x1 /\ sh_ext_block_ok blk) ->
    sh_shape (hdr ++ v0 :: v1 :: random ++ sl :: sid ++ s0 :: s1 :: cm :: ext).
