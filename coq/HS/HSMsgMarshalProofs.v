(* Proofs about the marshal models of HS/HSMsgMarshal.v: for every message value inside the field widths
   unmarshal (marshal m) = Ok m (all 12 messages, certificateRequestMsgGM, the eccKeyAgreementGM bodies), hence marshal
   is injective; every marshalled message is framed by its 3-byte length, so a byte transcript is read back message by
   message into exactly the values that were marshalled, and equal byte transcripts carry equal message values. *)
From Coq Require Import List NArith Arith Bool Lia ZifyN ZifyNat ZifyBool.
From GmsmVerif Require Import Lib.Outcome HS.HSParsers HS.HSParserProofs HS.HSMsgParsers HS.HSMsgParserProofs.
Import ListNotations.

Lemma testbit_high : forall b n i, (b < 2 ^ n)%N -> (n <= i)%N -> N.testbit b i = false.
Proof.
  intros b n i Hb Hi. destruct (N.eq_dec b 0) as [->|Hz]; [apply N.bits_0|].
  apply N.bits_above_log2. apply N.log2_lt_pow2; [lia|].
  apply N.lt_le_trans with (2 ^ n)%N; [assumption|]. apply N.pow_le_mono_r; lia.
Qed.

Lemma lor_shiftl_add : forall a b n, (b < 2 ^ n)%N -> N.lor (N.shiftl a n) b = (a * 2 ^ n + b)%N.
Proof.
  intros a b n Hb. rewrite <- N.shiftl_mul_pow2.
  assert (H0 : N.land (N.shiftl a n) b = 0%N).
  { apply N.bits_inj_0. intros i. rewrite N.land_spec.
    destruct (N.lt_ge_cases i n) as [Hi|Hi].
    - rewrite N.shiftl_spec_low by assumption. reflexivity.
    - rewrite (testbit_high b n i Hb Hi). apply andb_false_r. }
  rewrite <- N.lxor_lor by assumption. symmetry. apply N.add_nocarry_lxor. assumption.
Qed.

Lemma u16_val : forall b0 b1, (b1 < 256)%N -> u16 b0 b1 = (b0 * 256 + b1)%N.
Proof. intros. unfold u16. apply (lor_shiftl_add b0 b1 8). assumption. Qed.

Lemma u24_val : forall b0 b1 b2, (b1 < 256)%N -> (b2 < 256)%N -> u24 b0 b1 b2 = (b0 * 65536 + b1 * 256 + b2)%N.
Proof.
  intros b0 b1 b2 H1 H2. unfold u24.
  replace (N.shiftl b0 16) with (N.shiftl (N.shiftl b0 8) 8) by (rewrite N.shiftl_shiftl; reflexivity).
  rewrite <- N.shiftl_lor. rewrite (lor_shiftl_add b0 b1 8) by assumption.
  rewrite (lor_shiftl_add _ b2 8) by assumption. change (2 ^ 8)%N with 256%N. lia.
Qed.

(* big-endian encodings of a length / value *)
Lemma div_lt_256 : forall x, (x < 65536)%N -> (x / 256 < 256)%N.
Proof. intros. apply N.div_lt_upper_bound; lia. Qed.
Lemma mod_lt_256 : forall x, (x mod 256 < 256)%N.
Proof. intros. apply N.mod_lt. lia. Qed.
Lemma u16_be : forall x, u16 (x / 256) (x mod 256) = x.
Proof. intros. rewrite u16_val by apply mod_lt_256. pose proof (N.div_mod x 256). lia. Qed.
Lemma u24_be : forall x, u24 (x / 65536) (x / 256 mod 256) (x mod 256) = x.
Proof.
  intros. rewrite u24_val by apply mod_lt_256.
  pose proof (N.div_mod x 256). pose proof (N.div_mod (x / 256) 256).
  replace (x / 65536)%N with (x / 256 / 256)%N by (rewrite N.div_div by lia; reflexivity). lia.
Qed.
From GmsmVerif Require Import HS.HSMsgMarshal.

Local Open Scope N_scope.

Lemma b8_small : forall x, x < 256 -> b8 x = x.
Proof. intros. unfold b8. apply N.mod_small. assumption. Qed.
Lemma b8_lt : forall x, b8 x < 256.
Proof. intros. unfold b8. apply N.mod_lt. lia. Qed.

Lemma u16_be16 : forall x, x < 65536 -> u16 (b8 (x / 256)) (b8 x) = x.
Proof.
  intros x H. rewrite (b8_small (x / 256)) by (apply N.div_lt_upper_bound; lia). unfold b8. apply u16_be.
Qed.
Lemma u24_be24 : forall x, x < 16777216 -> u24 (b8 (x / 65536)) (b8 (x / 256)) (b8 x) = x.
Proof.
  intros x H. rewrite (b8_small (x / 65536)) by (apply N.div_lt_upper_bound; lia). unfold b8. apply u24_be.
Qed.
Lemma shl_add_be16 : forall x, x < 65536 -> N.shiftl (b8 (x / 256)) 8 + b8 x = x.
Proof.
  intros x H. rewrite N.shiftl_mul_pow2. rewrite (b8_small (x / 256)) by (apply N.div_lt_upper_bound; lia).
  unfold b8. change (2 ^ 8) with 256. pose proof (N.div_mod x 256). lia.
Qed.
Lemma u16n_be16 : forall x, x < 65536 -> u16n (b8 (x / 256)) (b8 x) = N.to_nat x.
Proof. intros. unfold u16n. rewrite u16_be16 by assumption. reflexivity. Qed.

Lemma nlen_nat : forall {A} (l : list A), N.to_nat (nlen l) = length l.
Proof. intros. unfold nlen. apply Nnat.Nat2N.id. Qed.

Local Close Scope N_scope.

Ltac hs_open := unfold hs_msg, be24; cbn [app length Nat.ltb Nat.leb].

Theorem serverKeyExchange_roundtrip : forall key, serverKeyExchange_unmarshal (serverKeyExchange_marshal key) = Ok key.
Proof. intros. reflexivity. Qed.

Theorem finished_roundtrip : forall vd, finished_unmarshal (finished_marshal vd) = Ok vd.
Proof. intros. reflexivity. Qed.

Theorem serverHelloDone_roundtrip : serverHelloDone_unmarshal serverHelloDone_marshal = Ok tt.
Proof. reflexivity. Qed.

Theorem clientKeyExchange_roundtrip : forall ct, (nlen ct < 16777216)%N ->
  clientKeyExchange_unmarshal (clientKeyExchange_marshal ct) = Ok ct.
Proof.
  intros ct H. unfold clientKeyExchange_unmarshal, clientKeyExchange_marshal, hs_msg, be24.
  cbn [app length Nat.ltb Nat.leb byte_at nth_error obind Nat.sub].
  rewrite u24_be24 by assumption. rewrite Nat.sub_0_r. fold (nlen ct). rewrite N.eqb_refl. reflexivity.
Qed.

Theorem newSessionTicket_roundtrip : forall t, (nlen t < 65536)%N ->
  newSessionTicket_unmarshal (newSessionTicket_marshal t) = Ok t.
Proof.
  intros t H. unfold newSessionTicket_unmarshal, newSessionTicket_marshal, hs_msg, be24, str16, be16.
  cbn [app length Nat.ltb Nat.leb byte_at nth_error obind Nat.sub].
  rewrite u24_be24 by (unfold nlen in *; cbn [length]; lia).
  replace (N.of_nat (S (S (S (S (S (S (length t)))))))) with (nlen (0%N :: 0%N :: 0%N :: 0%N :: b8 (nlen t / 256) :: b8 (nlen t) :: t)) by reflexivity.
  rewrite N.eqb_refl. cbn [negb].
  rewrite shl_add_be16 by assumption. rewrite nlen_nat, Nat.sub_0_r. rewrite Nat.eqb_refl. reflexivity.
Qed.

Theorem certificateVerify_roundtrip : forall flag alg sig, (alg < 65536)%N -> (nlen sig < 65536)%N ->
  (flag = false -> alg = 0%N) ->
  certificateVerify_unmarshal flag (certificateVerify_marshal flag alg sig) = Ok (alg, sig).
Proof.
  intros flag alg sig Ha Hs Hf. unfold certificateVerify_unmarshal, certificateVerify_marshal, hs_msg, be24, str16, be16.
  destruct flag.
  - cbn [app length Nat.ltb Nat.leb byte_at nth_error obind Nat.sub slice_from skipn].
    rewrite u24_be24 by (unfold nlen in *; cbn [length]; lia).
    match goal with |- context [N.eqb ?a ?b] => change a with b end. rewrite N.eqb_refl. cbn [negb].
    rewrite u16_be16 by assumption. rewrite shl_add_be16 by assumption. rewrite nlen_nat, Nat.eqb_refl. reflexivity.
  - rewrite (Hf eq_refl).
    cbn [app length Nat.ltb Nat.leb byte_at nth_error obind Nat.sub slice_from skipn].
    rewrite u24_be24 by (unfold nlen in *; cbn [length]; lia).
    match goal with |- context [N.eqb ?a ?b] => change a with b end. rewrite N.eqb_refl. cbn [negb].
    rewrite shl_add_be16 by assumption. rewrite nlen_nat, Nat.eqb_refl. reflexivity.
Qed.

Lemma nlen_app : forall {A} (a b : list A), nlen (a ++ b) = (nlen a + nlen b)%N.
Proof. intros. unfold nlen. rewrite app_length. lia. Qed.
Lemma nlen_cons : forall {A} (x : A) l, nlen (x :: l) = (nlen l + 1)%N.
Proof. intros. unfold nlen. cbn [length]. lia. Qed.

(* reading back a list of big-endian u16 values *)
Lemma read_u16s_be16 : forall l rest, Forall is_u16 l -> read_u16s (length l) (flat_map be16 l ++ rest) = Ok l.
Proof.
  induction l as [|x l IH]; intros rest H; [reflexivity|].
  inversion H as [|? ? Hx Hl]; subst. cbn [length read_u16s flat_map be16 app byte_at nth_error obind slice_from Nat.leb skipn].
  rewrite IH by assumption. cbn [obind]. rewrite u16_be16 by exact Hx. reflexivity.
Qed.
Lemma length_flat_be16 : forall (l : list N), length (flat_map be16 l) = 2 * length l.
Proof. induction l; cbn [flat_map be16 app length]; [reflexivity|]. rewrite IHl. lia. Qed.

(* reading back a list of strings with a two-byte length *)
Lemma certreq_cas_str16 : forall cas fuel acc, Forall (fun s => (nlen s < 65536)%N) cas ->
  length (flat_map str16 cas) <= fuel -> certreq_cas fuel (flat_map str16 cas) acc = Ok (acc ++ cas).
Proof.
  induction cas as [|s cas IH]; intros fuel acc H Hf.
  - cbn. destruct fuel; rewrite app_nil_r; reflexivity.
  - inversion H as [|? ? Hs Hc]; subst.
    cbn [flat_map str16 be16 app] in *.
    destruct fuel as [|fuel]; [cbn [length] in Hf; lia|]. cbn [certreq_cas length].
    change (Nat.ltb (S (S (length (s ++ flat_map str16 cas)))) 2) with false. cbn iota.
    cbn [byte_at nth_error obind slice_from length Nat.leb skipn].
    rewrite u16_be16 by exact Hs. rewrite nlen_nat.
    destruct (Nat.ltb_spec (length (s ++ flat_map str16 cas)) (length s)) as [Hl|_]; [rewrite app_length in Hl; lia|].
    rewrite slice_to_app, slice_from_app. cbn [obind].
    rewrite IH; [rewrite <- app_assoc; reflexivity|assumption|].
    cbn [length] in Hf. rewrite app_length in Hf. lia.
Qed.

Theorem certificateStatus_roundtrip : forall st r, (st < 256)%N -> (nlen r < 16777212)%N ->
  (st <> statusTypeOCSP -> r = []) ->
  certificateStatus_unmarshal (certificateStatus_marshal st r) = Ok (st, r).
Proof.
  intros st r Hst Hr Hne. unfold certificateStatus_unmarshal, certificateStatus_marshal.
  destruct (N.eqb_spec st statusTypeOCSP) as [->|Hn].
  - unfold hs_msg, be24, str24, be24.
    cbn [app length Nat.ltb Nat.leb byte_at nth_error obind slice_from skipn].
    change (N.eqb statusTypeOCSP statusTypeOCSP) with true. cbn iota.
    rewrite u24_be24 by lia.
    replace (N.of_nat (S (S (S (S (S (S (S (S (length r))))))))) mod 4294967296)%N with ((4 + 4 + nlen r) mod 4294967296)%N
      by (unfold nlen; f_equal; lia).
    rewrite N.eqb_refl. reflexivity.
  - rewrite (Hne Hn). cbn [length Nat.ltb Nat.leb byte_at nth_error obind].
    destruct (N.eqb_spec st statusTypeOCSP); [contradiction|reflexivity].
Qed.

Theorem nextProto_roundtrip : forall proto, length proto <= 255 ->
  nextProto_unmarshal (nextProto_marshal proto) = Ok proto.
Proof.
  intros proto H. unfold nextProto_unmarshal, nextProto_marshal. rewrite Nat.min_l by assumption.
  rewrite firstn_all. set (padding := 32 - (length proto + 2) mod 32).
  assert (Hp : 1 <= padding <= 32).
  { unfold padding. pose proof (Nat.mod_upper_bound (length proto + 2) 32). lia. }
  unfold hs_msg, be24. cbn [app length].
  match goal with |- context [Nat.ltb ?a 5] => replace (Nat.ltb a 5) with false by (symmetry; apply Nat.ltb_ge; lia) end.
  cbn [Nat.leb slice_from length skipn obind byte_at nth_error].
  rewrite (b8_small (N.of_nat (length proto))) by lia. rewrite Nnat.Nat2N.id.
  destruct (Nat.ltb_spec (length (proto ++ b8 (N.of_nat padding) :: repeat 0%N padding)) (length proto)) as [Hl|_];
    [rewrite app_length in Hl; lia|].
  rewrite slice_ok by (rewrite ?app_length; lia). cbn [obind skipn]. rewrite Nat.sub_0_r, firstn_app_exact.
  rewrite slice_from_app. cbn [obind length].
  match goal with |- context [Nat.ltb ?a 1] => replace (Nat.ltb a 1) with false by (symmetry; apply Nat.ltb_ge; lia) end.
  cbn [Nat.leb byte_at nth_error slice_from length skipn obind].
  rewrite repeat_length. rewrite (b8_small (N.of_nat padding)) by lia. rewrite Nnat.Nat2N.id, Nat.eqb_refl. reflexivity.
Qed.

Theorem ecc_skx_body_roundtrip : forall sig, sig <> [] -> (nlen sig < 65534)%N -> ecc_skx_prefix (ecc_skx_body sig) = Ok sig.
Proof.
  intros sig Hne H. unfold ecc_skx_prefix, ecc_skx_body, str16, be16.
  destruct sig as [|x sig]; [contradiction|].
  cbn [app length Nat.leb byte_at nth_error obind slice_from skipn].
  rewrite u16_be16 by lia.
  replace (N.of_nat (S (S (S (length sig))))) with (nlen (x :: sig) + 2)%N by (unfold nlen; cbn [length]; lia).
  rewrite N.eqb_refl. reflexivity.
Qed.

Theorem ecc_ckx_body_roundtrip : forall ct, (nlen ct < 65536)%N -> ecc_ckx_prefix (ecc_ckx_body ct) = Ok ct.
Proof.
  intros ct H. unfold ecc_ckx_prefix, ecc_ckx_body, str16, be16.
  cbn [app length Nat.ltb Nat.leb byte_at nth_error obind slice_from skipn Nat.sub].
  rewrite u16_be16 by lia. rewrite Nat.sub_0_r. fold (nlen ct). rewrite N.eqb_refl. reflexivity.
Qed.

Lemma even_div2 : forall n, 2 * n / 2 = n. Proof. intros. rewrite Nat.mul_comm. apply Nat.div_mul. lia. Qed.
Lemma even_mod2' : forall n, (2 * n) mod 2 = 0. Proof. intros. rewrite Nat.mul_comm. apply Nat.mod_mul. lia. Qed.


(* the common tail: u16 length, the CA list, nothing after it *)
Lemma cas_tail : forall (A : Type) cas (k : list (list N) -> A), cas_ok cas ->
  let data3 := be16 (nlen (flat_map str16 cas)) ++ flat_map str16 cas in
  (if Nat.ltb (length data3) 2 then Err 1
   else do c0 <- byte_at data3 0; do c1 <- byte_at data3 1;
        let casLength := u16n c0 c1 in
        do data4 <- slice_from data3 2;
        if Nat.ltb (length data4) casLength then Err 1
        else let cas := firstn casLength data4 in
             do data5 <- slice_from data4 casLength;
             do cal <- certreq_cas (length cas) cas [];
             if Nat.eqb (length data5) 0 then Ok (k cal) else Err 1) = Ok (k cas).
Proof.
  intros A cas k [Hc Hl] data3. unfold data3, be16. cbn [app length].
  change (Nat.ltb (S (S (length (flat_map str16 cas)))) 2) with false. cbn iota.
  cbn [byte_at nth_error obind slice_from length Nat.leb skipn].
  rewrite u16n_be16 by assumption. rewrite nlen_nat. rewrite Nat.ltb_irrefl.
  rewrite firstn_all. rewrite slice_from_le by lia. cbn [obind]. rewrite skipn_all.
  rewrite certreq_cas_str16 by (try assumption; lia). cbn [obind app length Nat.eqb]. reflexivity.
Qed.

Theorem certificateRequest_roundtrip : forall flag types algs cas,
  (1 <= length types <= 255) -> Forall is_u16 algs -> (nlen algs < 32768)%N -> (flag = false -> algs = []) -> cas_ok cas ->
  certificateRequest_unmarshal flag (certificateRequest_marshal flag types algs cas) = Ok (types, algs, cas).
Proof.
  intros flag types algs cas Ht Ha Hn Hf Hc.
  unfold certificateRequest_unmarshal, certificateRequest_marshal, hs_msg, be24, str8.
  set (rest1 := (if flag then be16 (2 * nlen algs) ++ flat_map be16 algs else []) ++
                be16 (nlen (flat_map str16 cas)) ++ flat_map str16 cas).
  assert (Hr1 : 2 <= length rest1) by (unfold rest1, be16; rewrite !app_length; cbn [length]; lia).
  set (body := (b8 (nlen types) :: types) ++ rest1).
  assert (Hb : length body = 1 + length types + length rest1) by (unfold body; cbn [app length]; rewrite app_length; lia).
  change ([b8 (nlen body / 65536); b8 (nlen body / 256); b8 (nlen body)] ++ body)
    with (b8 (nlen body / 65536) :: b8 (nlen body / 256) :: b8 (nlen body) :: body).
  assert (Hb24 : (nlen body < 16777216)%N).
  { unfold nlen. rewrite Hb. destruct Hc as [_ Hc]. unfold nlen in *. unfold rest1.
    destruct flag; unfold be16; repeat (rewrite ?app_length, ?length_flat_be16; cbn [length]); lia. }
  cbn [length]. match goal with |- context [Nat.ltb ?a 5] => replace (Nat.ltb a 5) with false by (symmetry; apply Nat.ltb_ge; lia) end.
  cbn [byte_at nth_error obind Nat.sub]. rewrite Nat.sub_0_r. fold (nlen body).
  rewrite u24_be24 by assumption. rewrite N.eqb_refl. cbn [negb].
  assert (B4 : byte_at (13%N :: b8 (nlen body / 65536) :: b8 (nlen body / 256) :: b8 (nlen body) :: body) 4 = Ok (b8 (nlen types))) by reflexivity.
  rewrite B4. cbn [obind].
  assert (S5 : slice_from (13%N :: b8 (nlen body / 65536) :: b8 (nlen body / 256) :: b8 (nlen body) :: body) 5 = Ok (types ++ rest1)).
  { unfold body. cbn [app]. rewrite slice_from_le by (cbn [length]; lia). reflexivity. }
  rewrite S5. cbn [obind]. rewrite (b8_small (nlen types)) by (unfold nlen; lia). rewrite nlen_nat.
  destruct (Nat.eqb_spec (length types) 0); [lia|]. cbn [orb].
  destruct (Nat.leb_spec (length (types ++ rest1)) (length types)) as [Hl|_]; [rewrite app_length in Hl; lia|].
  rewrite firstn_app_exact, Nat.eqb_refl. cbn [negb]. rewrite slice_from_app. cbn [obind].
  unfold rest1. destruct flag.
  - rewrite <- app_assoc. change (be16 (2 * nlen algs)) with [b8 (2 * nlen algs / 256); b8 (2 * nlen algs)]. cbn [app length].
    match goal with |- context [Nat.ltb ?a 2] => replace (Nat.ltb a 2) with false by (symmetry; apply Nat.ltb_ge; lia) end.
    cbn [byte_at nth_error obind slice_from length Nat.leb skipn].
    rewrite u16n_be16 by lia.
    replace (N.to_nat (2 * nlen algs)) with (2 * length algs) by (unfold nlen; lia).
    rewrite even_mod2'. cbn [Nat.eqb]. rewrite even_div2.
    destruct (Nat.ltb_spec (length (flat_map be16 algs ++ be16 (nlen (flat_map str16 cas)) ++ flat_map str16 cas)) (2 * length algs)) as [Hl|_];
      [rewrite app_length, length_flat_be16 in Hl; lia|].
    rewrite read_u16s_be16 by assumption. cbn [obind].
    rewrite <- length_flat_be16. rewrite slice_from_app. cbn [obind].
    apply (cas_tail _ cas (fun cal => (types, algs, cal)) Hc).
  - rewrite (Hf eq_refl). cbn [obind app].
    apply (cas_tail _ cas (fun cal => (types, @nil N, cal)) Hc).
Qed.

Theorem certificateRequestGM_roundtrip : forall types cas fuel,
  (1 <= length types <= 255) -> cas_ok cas -> length (flat_map str16 cas) <= fuel ->
  certificateRequestMsgGM_unmarshal fuel (certificateRequestGM_marshal types cas) = Ok (types, cas).
Proof.
  intros types cas fuel Ht Hc Hfuel.
  unfold certificateRequestMsgGM_unmarshal, certificateRequestGM_marshal, hs_msg, be24, str8.
  set (rest1 := be16 (nlen (flat_map str16 cas)) ++ flat_map str16 cas).
  assert (Hr1 : length rest1 = 2 + length (flat_map str16 cas)) by (unfold rest1, be16; rewrite !app_length; cbn [length]; lia).
  set (body := (b8 (nlen types) :: types) ++ rest1).
  assert (Hb : length body = 1 + length types + length rest1) by (unfold body; cbn [app length]; rewrite app_length; lia).
  change ([b8 (nlen body / 65536); b8 (nlen body / 256); b8 (nlen body)] ++ body)
    with (b8 (nlen body / 65536) :: b8 (nlen body / 256) :: b8 (nlen body) :: body).
  assert (Hb24 : (nlen body < 16777216)%N).
  { unfold nlen. rewrite Hb, Hr1. destruct Hc as [_ Hc]. unfold nlen in *. lia. }
  cbn [length]. match goal with |- context [Nat.ltb ?a 5] => replace (Nat.ltb a 5) with false by (symmetry; apply Nat.ltb_ge; lia) end.
  cbn [byte_at nth_error obind Nat.sub]. rewrite Nat.sub_0_r. fold (nlen body).
  rewrite u24_be24 by assumption. rewrite N.eqb_refl. cbn [negb].
  assert (B4 : byte_at (13%N :: b8 (nlen body / 65536) :: b8 (nlen body / 256) :: b8 (nlen body) :: body) 4 = Ok (b8 (nlen types))) by reflexivity.
  rewrite B4. cbn [obind].
  assert (S5 : slice_from (13%N :: b8 (nlen body / 65536) :: b8 (nlen body / 256) :: b8 (nlen body) :: body) 5 = Ok (types ++ rest1)).
  { unfold body. cbn [app]. rewrite slice_from_le by (cbn [length]; lia). reflexivity. }
  rewrite S5. cbn [obind]. rewrite (b8_small (nlen types)) by (unfold nlen; lia). rewrite nlen_nat.
  destruct (Nat.eqb_spec (length types) 0); [lia|]. cbn [orb].
  destruct (Nat.leb_spec (length (types ++ rest1)) (length types)) as [Hl|_]; [rewrite app_length in Hl; lia|].
  rewrite firstn_app_exact, Nat.eqb_refl. cbn [negb]. rewrite slice_from_app. cbn [obind].
  destruct Hc as [Hc Hl]. unfold rest1, be16. cbn [app length].
  change (Nat.ltb (S (S (length (flat_map str16 cas)))) 2) with false. cbn iota.
  cbn [byte_at nth_error obind slice_from length Nat.leb skipn].
  rewrite u16_be16 by assumption. rewrite nlen_nat. rewrite Nat.ltb_irrefl.
  rewrite firstn_all. rewrite slice_from_le by lia. cbn [obind]. rewrite skipn_all.
  rewrite certreq_cas_str16 by assumption. cbn [obind app length Nat.eqb]. reflexivity.
Qed.

(* certificateMsg *)

Lemma flat_str24_nonempty : forall c rest, 3 <= length (flat_map str24 (c :: rest)).
Proof. intros. cbn [flat_map str24 be24 app length]. lia. Qed.

Lemma cert_count_str24 : forall certs fuel n,
  Forall (fun c => (nlen c < 16777216)%N) certs -> certs_ok certs ->
  (nlen (flat_map str24 certs) < 4294967296)%N -> length (flat_map str24 certs) < fuel ->
  cert_count_loop fuel (flat_map str24 certs) (nlen (flat_map str24 certs)) n = Ok (n + length certs).
Proof.
  induction certs as [|c rest IH]; intros fuel n Hf Hok Hb Hfuel.
  - destruct fuel; cbn; f_equal; lia.
  - inversion Hf as [|? ? Hc Hr]; subst.
    destruct fuel as [|fuel]; [lia|].
    cbn [flat_map] in *. set (tl := flat_map str24 rest) in *.
    assert (Hlen : length (str24 c ++ tl) = 3 + length c + length tl) by (unfold str24, be24; cbn [app length]; rewrite app_length; lia).
    assert (H4 : 4 <= length (str24 c ++ tl)).
    { rewrite Hlen. destruct c as [|x c]; [|cbn [length]; lia].
      destruct rest as [|c2 rest]; [cbn in Hok; contradiction|]. pose proof (flat_str24_nonempty c2 rest). fold tl in H. cbn [length]. lia. }
    cbn [cert_count_loop].
    destruct (N.eqb_spec (nlen (str24 c ++ tl)) 0) as [E|_]; [unfold nlen in E; lia|].
    destruct (Nat.ltb_spec (length (str24 c ++ tl)) 4); [lia|].
    assert (B0 : byte_at (str24 c ++ tl) 0 = Ok (b8 (nlen c / 65536))) by reflexivity.
    assert (B1 : byte_at (str24 c ++ tl) 1 = Ok (b8 (nlen c / 256))) by reflexivity.
    assert (B2 : byte_at (str24 c ++ tl) 2 = Ok (b8 (nlen c))) by reflexivity.
    rewrite B0, B1, B2. cbn [obind].
    rewrite u24_be24 by assumption.
    destruct (N.ltb_spec (N.of_nat (length (str24 c ++ tl))) (3 + nlen c)) as [Hl|_]; [rewrite Hlen in Hl; unfold nlen in Hl; lia|].
    replace (N.to_nat (3 + nlen c)) with (length (str24 c)) by (unfold str24, be24, nlen; cbn [app length]; lia).
    rewrite slice_from_app. cbn [obind].
    rewrite sub32_exact; [|unfold nlen; rewrite Hlen; unfold nlen; lia|assumption].
    replace (nlen (str24 c ++ tl) - (3 + nlen c))%N with (nlen tl) by (unfold nlen; rewrite Hlen; lia).
    rewrite IH.
    + f_equal. cbn [length]. lia.
    + assumption.
    + destruct rest; [exact I|exact Hok].
    + unfold nlen in *. rewrite Hlen in Hb. lia.
    + rewrite Hlen in Hfuel. lia.
Qed.

Lemma cert_take_str24 : forall certs, Forall (fun c => (nlen c < 16777216)%N) certs ->
  cert_take_loop (length certs) (flat_map str24 certs) = Ok certs.
Proof.
  induction certs as [|c rest IH]; intros Hf; [reflexivity|].
  inversion Hf as [|? ? Hc Hr]; subst.
  cbn [length cert_take_loop flat_map]. set (tl := flat_map str24 rest).
  assert (B0 : byte_at (str24 c ++ tl) 0 = Ok (b8 (nlen c / 65536))) by reflexivity.
  assert (B1 : byte_at (str24 c ++ tl) 1 = Ok (b8 (nlen c / 256))) by reflexivity.
  assert (B2 : byte_at (str24 c ++ tl) 2 = Ok (b8 (nlen c))) by reflexivity.
  rewrite B0, B1, B2. cbn [obind]. unfold str24, be24. cbn [app].
  rewrite u24_be24 by assumption. rewrite nlen_nat.
  rewrite slice_ok by (cbn [length]; rewrite ?app_length; lia). cbn [obind skipn].
  replace (3 + length c - 3) with (length c) by lia. rewrite firstn_app_exact.
  rewrite slice_from_le by (cbn [length]; rewrite ?app_length; lia). cbn [obind Nat.add skipn].
  rewrite skipn_app_exact. unfold tl. rewrite IH by assumption. reflexivity.
Qed.

Theorem certificate_roundtrip : forall certs,
  Forall (fun c => (nlen c < 16777216)%N) certs -> certs_ok certs -> (nlen (flat_map str24 certs) < 16777213)%N ->
  certificate_unmarshal (certificate_marshal certs) = Ok certs.
Proof.
  intros certs Hf Hok Hb. unfold certificate_unmarshal, certificate_marshal, hs_msg.
  set (l := flat_map str24 certs) in *.
  unfold be24. cbn [app length].
  match goal with |- context [Nat.ltb ?a 7] => replace (Nat.ltb a 7) with false by (symmetry; apply Nat.ltb_ge; lia) end.
  cbn [byte_at nth_error obind].
  rewrite u24_be24 by lia.
  match goal with |- context [N.eqb ?a ?b] => replace a with b by (unfold nlen; f_equal; lia) end.
  rewrite N.eqb_refl. cbn [negb slice_from length Nat.leb skipn obind].
  unfold l. rewrite (cert_count_str24 certs _ 0 Hf Hok) by (fold l; unfold nlen in *; lia).
  cbn [obind Nat.add]. apply cert_take_str24. assumption.
Qed.

(* ---- the extension loop on a marshalled block ------------------------------------------------------------- *)
Lemma ch_ext_loop_fuel : forall f1 f2 data m, length data < f1 -> length data < f2 ->
  ch_ext_loop f1 data m = ch_ext_loop f2 data m.
Proof.
  induction f1 as [|f1 IH]; intros f2 data m H1 H2; [lia|]. destruct f2 as [|f2]; [lia|].
  destruct data as [|x d]; [reflexivity|]. cbn [ch_ext_loop]. remember (x :: d) as data eqn:Ed.
  destruct (Nat.ltb_spec (length data) 4) as [|H4]; [reflexivity|].
  rewrite !byte_at_lt by lia. cbn [obind]. rewrite slice_from_le by lia. cbn [obind].
  set (len := u16n _ _). destruct (Nat.ltb_spec (length (skipn 4 data)) len) as [|Hl]; [reflexivity|].
  destruct (ch_extension _ _ _ _); cbn [obind]; try reflexivity.
  rewrite slice_from_le by lia. cbn [obind]. apply IH; rewrite !skipn_length; lia.
Qed.

Definition cel (data : list N) (m : ch_fields) : outcome ch_fields := ch_ext_loop (S (length data)) data m.

Lemma length_be16 : forall x, length (be16 x) = 2. Proof. reflexivity. Qed.

Lemma cel_step : forall T body rest m, (T < 65536)%N -> (nlen body < 65536)%N ->
  cel (ext T body ++ rest) m = do m' <- ch_extension m T (length body) (body ++ rest); cel rest m'.
Proof.
  intros T body rest m HT Hb. unfold cel at 1.
  assert (Hlen : length (ext T body ++ rest) = 4 + length body + length rest)
    by (unfold ext, be16; cbn [app length]; rewrite app_length; lia).
  remember (S (length (ext T body ++ rest))) as fuel eqn:Ef. destruct fuel as [|fuel]; [discriminate|].
  injection Ef as Ef. unfold ext, be16 in *. cbn [app] in *. cbn [ch_ext_loop]. cbn [length] in *.
  match goal with |- context [Nat.ltb ?a 4] => replace (Nat.ltb a 4) with false by (symmetry; apply Nat.ltb_ge; lia) end.
  cbn [byte_at nth_error obind slice_from length Nat.leb skipn].
  rewrite u16_be16 by assumption. rewrite u16n_be16 by assumption. rewrite nlen_nat.
  destruct (Nat.ltb_spec (length (body ++ rest)) (length body)) as [Hl|_]; [rewrite app_length in Hl; lia|].
  destruct (ch_extension m T (length body) (body ++ rest)); cbn [obind]; try reflexivity.
  rewrite slice_from_app. cbn [obind]. unfold cel. apply ch_ext_loop_fuel; rewrite ?app_length in *; lia.
Qed.

Ltac eqbs :=
  repeat match goal with
  | |- context [N.eqb ?a ?b] =>
      let v := eval vm_compute in (N.eqb a b) in
      match v with
      | true => change (N.eqb a b) with true
      | false => change (N.eqb a b) with false
      end
  end; cbn iota.

(* setters *)
Definition set_npn v m := mkCHF (f_vers m) (f_random m) (f_sid m) (f_suites m) (f_comp m) v (f_sni m) (f_ocsp m) (f_curves m) (f_points m)
                         (f_ticket_supported m) (f_ticket m) (f_sigalgs m) (f_reneg_supported m) (f_reneg m) (f_alpn m) (f_scts m).
Definition set_sni v m := mkCHF (f_vers m) (f_random m) (f_sid m) (f_suites m) (f_comp m) (f_npn m) v (f_ocsp m) (f_curves m) (f_points m)
                         (f_ticket_supported m) (f_ticket m) (f_sigalgs m) (f_reneg_supported m) (f_reneg m) (f_alpn m) (f_scts m).
Definition set_ocsp v m := mkCHF (f_vers m) (f_random m) (f_sid m) (f_suites m) (f_comp m) (f_npn m) (f_sni m) v (f_curves m) (f_points m)
                         (f_ticket_supported m) (f_ticket m) (f_sigalgs m) (f_reneg_supported m) (f_reneg m) (f_alpn m) (f_scts m).
Definition set_curves v m := mkCHF (f_vers m) (f_random m) (f_sid m) (f_suites m) (f_comp m) (f_npn m) (f_sni m) (f_ocsp m) v (f_points m)
                         (f_ticket_supported m) (f_ticket m) (f_sigalgs m) (f_reneg_supported m) (f_reneg m) (f_alpn m) (f_scts m).
Definition set_points v m := mkCHF (f_vers m) (f_random m) (f_sid m) (f_suites m) (f_comp m) (f_npn m) (f_sni m) (f_ocsp m) (f_curves m) v
                         (f_ticket_supported m) (f_ticket m) (f_sigalgs m) (f_reneg_supported m) (f_reneg m) (f_alpn m) (f_scts m).
Definition set_ticket v m := mkCHF (f_vers m) (f_random m) (f_sid m) (f_suites m) (f_comp m) (f_npn m) (f_sni m) (f_ocsp m) (f_curves m) (f_points m)
                         true v (f_sigalgs m) (f_reneg_supported m) (f_reneg m) (f_alpn m) (f_scts m).
Definition set_sigalgs v m := mkCHF (f_vers m) (f_random m) (f_sid m) (f_suites m) (f_comp m) (f_npn m) (f_sni m) (f_ocsp m) (f_curves m) (f_points m)
                         (f_ticket_supported m) (f_ticket m) v (f_reneg_supported m) (f_reneg m) (f_alpn m) (f_scts m).
Definition set_reneg v m := mkCHF (f_vers m) (f_random m) (f_sid m) (f_suites m) (f_comp m) (f_npn m) (f_sni m) (f_ocsp m) (f_curves m) (f_points m)
                         (f_ticket_supported m) (f_ticket m) (f_sigalgs m) true v (f_alpn m) (f_scts m).
Definition set_alpn v m := mkCHF (f_vers m) (f_random m) (f_sid m) (f_suites m) (f_comp m) (f_npn m) (f_sni m) (f_ocsp m) (f_curves m) (f_points m)
                         (f_ticket_supported m) (f_ticket m) (f_sigalgs m) (f_reneg_supported m) (f_reneg m) v (f_scts m).
Definition set_scts v m := mkCHF (f_vers m) (f_random m) (f_sid m) (f_suites m) (f_comp m) (f_npn m) (f_sni m) (f_ocsp m) (f_curves m) (f_points m)
                         (f_ticket_supported m) (f_ticket m) (f_sigalgs m) (f_reneg_supported m) (f_reneg m) (f_alpn m) v.

Lemma E_npn : forall m rest, ch_extension m extensionNextProtoNeg 0 rest = Ok (set_npn true m).
Proof. intros. unfold ch_extension. eqbs. reflexivity. Qed.

Lemma E_scts : forall m rest, ch_extension m extensionSCT 0 rest = Ok (set_scts true m).
Proof. intros. unfold ch_extension. eqbs. reflexivity. Qed.

Lemma E_ocsp : forall m rest, ch_extension m extensionStatusRequest 5 ([1; 0; 0; 0; 0]%N ++ rest) = Ok (set_ocsp true m).
Proof. intros. unfold ch_extension. eqbs. reflexivity. Qed.

Lemma E_ticket : forall m t rest, ch_extension m extensionSessionTicket (length t) (t ++ rest) = Ok (set_ticket t m).
Proof. intros. unfold ch_extension. eqbs. rewrite slice_to_app. reflexivity. Qed.

Lemma E_sni : forall m name rest, name <> [] -> (nlen name < 65531)%N ->
  let body := be16 (nlen name + 3) ++ [0%N] ++ be16 (nlen name) ++ name in
  ch_extension m extensionServerName (length body) (body ++ rest) = Ok (set_sni name m).
Proof.
  intros m name rest Hne Hn body. unfold ch_extension. eqbs. rewrite slice_to_app. cbn [obind].
  unfold body, be16. cbn [app length].
  match goal with |- context [Nat.ltb ?a 2] => replace (Nat.ltb a 2) with false by (symmetry; apply Nat.ltb_ge; lia) end.
  cbn [byte_at nth_error obind slice_from length Nat.leb skipn].
  rewrite u16n_be16 by lia.
  replace (N.to_nat (nlen name + 3)) with (S (S (S (length name)))) by (unfold nlen; lia).
  rewrite Nat.eqb_refl. cbn [negb ch_sni_loop length].
  match goal with |- context [Nat.ltb ?a 3] => replace (Nat.ltb a 3) with false by (symmetry; apply Nat.ltb_ge; lia) end.
  cbn [byte_at nth_error obind slice_from length Nat.leb skipn].
  rewrite u16n_be16 by lia. rewrite nlen_nat, Nat.ltb_irrefl. change (N.eqb 0 0) with true. cbn iota.
  rewrite slice_to_le by lia. rewrite firstn_all. reflexivity.
Qed.

Lemma E_curves : forall m cs rest, Forall is_u16 cs -> (nlen cs < 32767)%N ->
  let body := be16 (2 * nlen cs) ++ flat_map be16 cs in
  ch_extension m extensionSupportedCurves (length body) (body ++ rest) = Ok (set_curves cs m).
Proof.
  intros m cs rest Hf Hn body. unfold ch_extension. eqbs.
  assert (Hlb : length body = 2 + 2 * length cs) by (unfold body; rewrite app_length, length_flat_be16; reflexivity).
  rewrite Hlb. replace (Nat.ltb (2 + 2 * length cs) 2) with false by (symmetry; apply Nat.ltb_ge; lia).
  unfold body, be16. rewrite <- app_assoc. cbn [app byte_at nth_error obind].
  rewrite u16n_be16 by lia. replace (N.to_nat (2 * nlen cs)) with (2 * length cs) by (unfold nlen; lia).
  rewrite even_mod2'. cbn [Nat.eqb orb]. replace (2 + 2 * length cs =? 2 * length cs + 2) with true by (symmetry; apply Nat.eqb_eq; lia).
  cbn [negb slice_from length Nat.leb skipn obind]. rewrite even_div2. rewrite read_u16s_be16 by assumption. reflexivity.
Qed.

Lemma E_sigalgs : forall m cs rest, Forall is_u16 cs -> (nlen cs < 32767)%N ->
  let body := be16 (2 * nlen cs) ++ flat_map be16 cs in
  ch_extension m extensionSignatureAlgorithms (length body) (body ++ rest) = Ok (set_sigalgs cs m).
Proof.
  intros m cs rest Hf Hn body. unfold ch_extension. eqbs.
  assert (Hlb : length body = 2 + 2 * length cs) by (unfold body; rewrite app_length, length_flat_be16; reflexivity).
  rewrite Hlb. replace (Nat.ltb (2 + 2 * length cs) 2) with false by (symmetry; apply Nat.ltb_ge; lia).
  replace ((2 + 2 * length cs) mod 2) with 0 by (replace (2 + 2 * length cs) with (2 * (1 + length cs)) by lia; symmetry; apply even_mod2').
  cbn [Nat.eqb orb]. unfold body, be16. rewrite <- app_assoc. cbn [app byte_at nth_error obind].
  rewrite u16n_be16 by lia. replace (N.to_nat (2 * nlen cs)) with (2 * length cs) by (unfold nlen; lia).
  replace (2 * length cs =? 2 + 2 * length cs - 2) with true by (symmetry; apply Nat.eqb_eq; lia).
  cbn [negb slice_from length Nat.leb skipn obind]. rewrite even_div2. rewrite read_u16s_be16 by assumption. reflexivity.
Qed.

Lemma E_points : forall m ps rest, (length ps < 255) ->
  ch_extension m extensionSupportedPoints (length (b8 (nlen ps) :: ps)) ((b8 (nlen ps) :: ps) ++ rest) = Ok (set_points ps m).
Proof.
  intros m ps rest Hn. unfold ch_extension. eqbs. cbn [length app].
  change (Nat.ltb (S (length ps)) 1) with false. cbn iota. cbn [byte_at nth_error obind].
  rewrite b8_small by (unfold nlen; lia). rewrite nlen_nat.
  replace (S (length ps) =? length ps + 1) with true by (symmetry; apply Nat.eqb_eq; lia).
  cbn [negb slice_from length Nat.leb skipn obind]. rewrite firstn_app_exact. reflexivity.
Qed.

Lemma E_reneg : forall m r rest, (length r < 255) ->
  ch_extension m extensionRenegotiationInfo (length (b8 (nlen r) :: r)) ((b8 (nlen r) :: r) ++ rest) = Ok (set_reneg r m).
Proof.
  intros m r rest Hn. unfold ch_extension. eqbs. cbn [length]. change (Nat.eqb (S (length r)) 0) with false. cbn iota.
  change (S (length r)) with (length (b8 (nlen r) :: r)). rewrite slice_to_app.
  cbn [obind byte_at nth_error slice_from length Nat.leb skipn].
  rewrite b8_small by (unfold nlen; lia). rewrite nlen_nat, Nat.eqb_refl. reflexivity.
Qed.

Lemma alpn_loop_str8 : forall ps fuel acc, Forall str8_ok ps -> length (flat_map str8 ps) < fuel ->
  alpn_loop fuel (flat_map str8 ps) acc = Ok (acc ++ ps).
Proof.
  induction ps as [|s ps IH]; intros fuel acc Hf Hfuel.
  - destruct fuel; [lia|]. cbn. rewrite app_nil_r. reflexivity.
  - inversion Hf as [|? ? Hs Hr]; subst. destruct fuel as [|fuel]; [lia|]. unfold str8_ok in Hs.
    cbn [flat_map str8 app] in *. cbn [alpn_loop byte_at nth_error obind slice_from length Nat.leb skipn].
    rewrite b8_small by (unfold nlen; lia). rewrite nlen_nat.
    destruct (Nat.eqb_spec (length s) 0); [lia|]. cbn [orb].
    destruct (Nat.ltb_spec (length (s ++ flat_map str8 ps)) (length s)) as [Hl|_]; [rewrite app_length in Hl; lia|].
    rewrite slice_to_app, slice_from_app. cbn [obind]. rewrite IH; [rewrite <- app_assoc; reflexivity|assumption|].
    cbn [length] in Hfuel. rewrite app_length in Hfuel. lia.
Qed.

Lemma E_alpn : forall m ps rest, Forall str8_ok ps -> (nlen (flat_map str8 ps) < 65534)%N -> f_alpn m = [] ->
  let body := be16 (nlen (flat_map str8 ps)) ++ flat_map str8 ps in
  ch_extension m extensionALPN (length body) (body ++ rest) = Ok (set_alpn ps m).
Proof.
  intros m ps rest Hf Hn Hm body. unfold ch_extension. eqbs.
  set (strs := flat_map str8 ps) in *.
  assert (Hlb : length body = 2 + length strs) by (unfold body; rewrite app_length; reflexivity).
  rewrite Hlb. replace (Nat.ltb (2 + length strs) 2) with false by (symmetry; apply Nat.ltb_ge; lia).
  unfold body, be16. rewrite <- app_assoc. cbn [app byte_at nth_error obind].
  rewrite u16n_be16 by lia. rewrite nlen_nat.
  replace (length strs =? 2 + length strs - 2) with true by (symmetry; apply Nat.eqb_eq; lia). cbn [negb].
  rewrite slice_ok by (cbn [length]; rewrite ?app_length; lia). cbn [obind skipn].
  replace (2 + length strs - 2) with (length strs) by lia. rewrite firstn_app_exact.
  rewrite Hm. unfold strs. rewrite alpn_loop_str8 by (try assumption; lia). reflexivity.
Qed.

Lemma ext_len : forall T body, length (ext T body) = 4 + length body.
Proof. intros. unfold ext, be16. cbn [app length]. reflexivity. Qed.

(* chunk lemmas: an optional extension followed by the rest of the block *)
Lemma C_npn : forall (b : bool) rest m,
  cel ((if b then ext extensionNextProtoNeg [] else []) ++ rest) m = cel rest (if b then set_npn true m else m).
Proof. intros. destruct b; [|reflexivity]. rewrite cel_step by (cbv; reflexivity). cbn [length app]. rewrite E_npn. reflexivity. Qed.

Lemma C_scts : forall (b : bool) rest m,
  cel ((if b then ext extensionSCT [] else []) ++ rest) m = cel rest (if b then set_scts true m else m).
Proof. intros. destruct b; [|reflexivity]. rewrite cel_step by (cbv; reflexivity). cbn [length app]. rewrite E_scts. reflexivity. Qed.

Lemma C_ocsp : forall (b : bool) rest m,
  cel ((if b then ext extensionStatusRequest [1; 0; 0; 0; 0]%N else []) ++ rest) m = cel rest (if b then set_ocsp true m else m).
Proof. intros. destruct b; [|reflexivity]. rewrite cel_step by (cbv; reflexivity). cbn [length]. rewrite E_ocsp. reflexivity. Qed.

Lemma C_ticket : forall (b : bool) t rest m, (nlen t < 65536)%N ->
  cel ((if b then ext extensionSessionTicket t else []) ++ rest) m = cel rest (if b then set_ticket t m else m).
Proof. intros. destruct b; [|reflexivity]. rewrite cel_step by (try assumption; cbv; reflexivity). rewrite E_ticket. reflexivity. Qed.

Lemma C_sni : forall name rest m, (nlen name < 65531)%N ->
  cel ((match name with [] => [] | x :: l => ext extensionServerName (be16 (nlen (x :: l) + 3) ++ [0%N] ++ be16 (nlen (x :: l)) ++ x :: l) end) ++ rest) m
  = cel rest (match name with [] => m | _ => set_sni name m end).
Proof.
  intros name rest m H. destruct name as [|x name]; [reflexivity|]. set (nm := x :: name) in *.
  rewrite cel_step; [|cbv; reflexivity|unfold be16; repeat (rewrite ?nlen_app, ?nlen_cons); unfold nlen in *; cbn [length]; lia].
  rewrite (E_sni m nm rest) by (try assumption; discriminate). reflexivity.
Qed.

Lemma nlen_flat_be16 : forall (l : list N), nlen (flat_map be16 l) = (2 * nlen l)%N.
Proof. intros. unfold nlen. rewrite length_flat_be16. lia. Qed.

Lemma C_curves : forall cs rest m, Forall is_u16 cs -> (nlen cs < 32767)%N ->
  cel ((match cs with [] => [] | x :: l => ext extensionSupportedCurves (be16 (2 * nlen (x :: l)) ++ flat_map be16 (x :: l)) end) ++ rest) m
  = cel rest (match cs with [] => m | _ => set_curves cs m end).
Proof.
  intros cs rest m Hf H. destruct cs as [|x cs]; [reflexivity|]. set (l := x :: cs) in *.
  rewrite cel_step; [|cbv; reflexivity|rewrite nlen_app, nlen_flat_be16; unfold nlen in *; cbn [length be16]; lia].
  rewrite (E_curves m l rest) by assumption. reflexivity.
Qed.

Lemma C_sigalgs : forall cs rest m, Forall is_u16 cs -> (nlen cs < 32767)%N ->
  cel ((match cs with [] => [] | x :: l => ext extensionSignatureAlgorithms (be16 (2 * nlen (x :: l)) ++ flat_map be16 (x :: l)) end) ++ rest) m
  = cel rest (match cs with [] => m | _ => set_sigalgs cs m end).
Proof.
  intros cs rest m Hf H. destruct cs as [|x cs]; [reflexivity|]. set (l := x :: cs) in *.
  rewrite cel_step; [|cbv; reflexivity|rewrite nlen_app, nlen_flat_be16; unfold nlen in *; cbn [length be16]; lia].
  rewrite (E_sigalgs m l rest) by assumption. reflexivity.
Qed.

Lemma C_points : forall ps rest m, length ps < 255 ->
  cel ((match ps with [] => [] | x :: l => ext extensionSupportedPoints (b8 (nlen (x :: l)) :: x :: l) end) ++ rest) m
  = cel rest (match ps with [] => m | _ => set_points ps m end).
Proof.
  intros ps rest m H. destruct ps as [|x ps]; [reflexivity|]. set (l := x :: ps) in *.
  rewrite cel_step; [|cbv; reflexivity|rewrite nlen_cons; unfold nlen; lia].
  rewrite (E_points m l rest) by assumption. reflexivity.
Qed.

Lemma reneg_ext_as_ext : forall r, length r < 255 -> reneg_ext r = ext extensionRenegotiationInfo (b8 (nlen r) :: r).
Proof.
  intros r H. unfold reneg_ext, ext. f_equal. unfold be16. rewrite nlen_cons.
  assert (Hs : (nlen r + 1 < 256)%N) by (unfold nlen; lia).
  replace ((nlen r + 1) / 256)%N with 0%N by (symmetry; apply N.div_small; exact Hs). reflexivity.
Qed.

Lemma C_reneg : forall (b : bool) r rest m, length r < 255 ->
  cel ((if b then reneg_ext r else []) ++ rest) m = cel rest (if b then set_reneg r m else m).
Proof.
  intros b r rest m H. destruct b; [|reflexivity]. rewrite reneg_ext_as_ext by assumption.
  rewrite cel_step; [|cbv; reflexivity|rewrite nlen_cons; unfold nlen; lia].
  rewrite (E_reneg m r rest) by assumption. reflexivity.
Qed.

Lemma E_alpn' : forall m ps rest, Forall str8_ok ps -> (nlen (flat_map str8 ps) < 65534)%N ->
  let body := be16 (nlen (flat_map str8 ps)) ++ flat_map str8 ps in
  ch_extension m extensionALPN (length body) (body ++ rest) = Ok (set_alpn (f_alpn m ++ ps) m).
Proof.
  intros m ps rest Hf Hn body. unfold ch_extension. eqbs.
  set (strs := flat_map str8 ps) in *.
  assert (Hlb : length body = 2 + length strs) by (unfold body; rewrite app_length; reflexivity).
  rewrite Hlb. replace (Nat.ltb (2 + length strs) 2) with false by (symmetry; apply Nat.ltb_ge; lia).
  unfold body, be16. rewrite <- app_assoc. cbn [app byte_at nth_error obind].
  rewrite u16n_be16 by lia. rewrite nlen_nat.
  replace (length strs =? 2 + length strs - 2) with true by (symmetry; apply Nat.eqb_eq; lia). cbn [negb].
  rewrite slice_ok by (cbn [length]; rewrite ?app_length; lia). cbn [obind skipn].
  replace (2 + length strs - 2) with (length strs) by lia. rewrite firstn_app_exact.
  unfold strs. rewrite alpn_loop_str8 by (try assumption; lia). reflexivity.
Qed.

Lemma C_alpn : forall ps rest m, Forall str8_ok ps -> (nlen (flat_map str8 ps) < 65534)%N ->
  cel ((match ps with [] => [] | x :: l => let strs := flat_map str8 (x :: l) in ext extensionALPN (be16 (nlen strs) ++ strs) end) ++ rest) m
  = cel rest (match ps with [] => m | _ => set_alpn (f_alpn m ++ ps) m end).
Proof.
  intros ps rest m Hf H. destruct ps as [|x ps]; [reflexivity|]. set (l := x :: ps) in *. cbv zeta.
  rewrite cel_step; [|cbv; reflexivity|rewrite nlen_app; unfold nlen in *; cbn [length be16]; lia].
  rewrite (E_alpn' m l rest) by assumption. reflexivity.
Qed.

(* the cipher-suite loop on the marshalled list *)
Lemma ch_suites_loop_be16 : forall suites i pre rest, Forall is_u16 suites -> length pre = 2 + 2 * i ->
  ch_suites_loop (length suites) i (pre ++ flat_map be16 suites ++ rest)
  = Ok (suites, existsb (fun s => N.eqb s scsvRenegotiation) suites).
Proof.
  induction suites as [|s suites IH]; intros i pre rest Hf Hp; [reflexivity|].
  inversion Hf as [|? ? Hs Hr]; subst. cbn [length ch_suites_loop flat_map].
  assert (B0 : byte_at (pre ++ (be16 s ++ flat_map be16 suites) ++ rest) (2 + 2 * i) = Ok (b8 (s / 256))).
  { unfold byte_at. rewrite nth_error_app2 by lia. rewrite Hp, Nat.sub_diag. reflexivity. }
  assert (B1 : byte_at (pre ++ (be16 s ++ flat_map be16 suites) ++ rest) (3 + 2 * i) = Ok (b8 s)).
  { unfold byte_at. rewrite nth_error_app2 by lia. replace (3 + 2 * i - length pre) with 1 by lia. reflexivity. }
  rewrite B0, B1. cbn [obind].
  replace (pre ++ (be16 s ++ flat_map be16 suites) ++ rest) with ((pre ++ be16 s) ++ flat_map be16 suites ++ rest)
    by (rewrite <- !app_assoc; reflexivity).
  rewrite IH by (try assumption; rewrite app_length, length_be16; lia). cbn [obind existsb].
  rewrite u16_be16 by exact Hs. reflexivity.
Qed.

(* the whole extension block is read back into the message value *)
Lemma ch_exts_read_back : forall m, ch_wf m ->
  cel (ch_exts m)
      (mkCHF (f_vers m) (f_random m) (f_sid m) (f_suites m) (f_comp m) false [] false [] [] false [] []
             (existsb (fun s => N.eqb s scsvRenegotiation) (f_suites m)) [] [] false) = Ok m.
Proof.
  intros m H.
  destruct m as [vers random sid suites comp npn sni ocsp curves points tsup ticket sigalgs rsup reneg alpn scts].
  unfold ch_wf in H. cbn [f_vers f_random f_sid f_suites f_comp f_npn f_sni f_ocsp f_curves f_points f_ticket_supported f_ticket
    f_sigalgs f_reneg_supported f_reneg f_alpn f_scts] in H.
  destruct H as [Hv [Hr [Hsid [Hsu [Hsun [Hcomp [Hsni [Hcu [Hcun [Hpo [Htk [Htk0 [Hsa [Hsan [Hre [Hre0 [Hscsv [Hal [Haln Hex]]]]]]]]]]]]]]]]]]].
  unfold ch_exts. cbn [f_vers f_random f_sid f_suites f_comp f_npn f_sni f_ocsp f_curves f_points f_ticket_supported f_ticket
    f_sigalgs f_reneg_supported f_reneg f_alpn f_scts].
  rewrite C_npn. rewrite C_sni by assumption. rewrite C_ocsp. rewrite C_curves by assumption. rewrite C_points by assumption.
  rewrite C_ticket by assumption. rewrite C_sigalgs by assumption. rewrite C_reneg by assumption. rewrite C_alpn by assumption.
  rewrite <- (app_nil_r (if scts then _ else _)). rewrite C_scts.
  unfold cel. cbn [length ch_ext_loop]. f_equal.
  assert (Ers : existsb (fun s => N.eqb s scsvRenegotiation) suites = true -> rsup = true) by exact Hscsv.
  destruct (existsb (fun s => N.eqb s scsvRenegotiation) suites).
  - rewrite (Ers eq_refl) in *. clear Ers Hscsv Hre0.
    destruct tsup; [|rewrite (Htk0 eq_refl)];
    destruct npn, sni, ocsp, curves, points, sigalgs, alpn, scts; reflexivity.
  - clear Ers Hscsv.
    destruct rsup; [|rewrite (Hre0 eq_refl)]; (destruct tsup; [|rewrite (Htk0 eq_refl)]);
    destruct npn, sni, ocsp, curves, points, sigalgs, alpn, scts; reflexivity.
Qed.

Lemma suites_len_bytes : forall n, (n < 32768)%N -> u16n (b8 (n / 128)) (b8 (n * 2)) = N.to_nat (2 * n).
Proof.
  intros n H. replace (n / 128)%N with (2 * n / 256)%N.
  - replace (n * 2)%N with (2 * n)%N by lia. apply u16n_be16. lia.
  - change 256%N with (2 * 128)%N. rewrite N.div_mul_cancel_l by lia. reflexivity.
Qed.

Lemma ext_block_cases : forall exts, (nlen exts < 65536)%N ->
  (exts = [] /\ ext_block exts = []) \/
  (exts <> [] /\ ext_block exts = b8 (nlen exts / 256) :: b8 (nlen exts) :: exts).
Proof. intros exts H. destruct exts; [left; split; reflexivity|right; split; [discriminate|reflexivity]]. Qed.

Theorem clientHello_roundtrip : forall m, ch_wf m -> clientHello_unmarshal (clientHello_marshal m) = Ok m.
Proof.
  intros m Hwf. pose proof (ch_exts_read_back m Hwf) as Hread.
  set (exts := ch_exts m) in *.
  destruct m as [vers random sid suites comp npn sni ocsp curves points tsup ticket sigalgs rsup reneg alpn scts].
  unfold ch_wf in Hwf. fold exts in Hwf.
  cbn [f_vers f_random f_sid f_suites f_comp f_npn f_sni f_ocsp f_curves f_points f_ticket_supported f_ticket
    f_sigalgs f_reneg_supported f_reneg f_alpn f_scts] in Hwf, Hread.
  destruct Hwf as [Hv [Hr [Hsid [Hsu [Hsun [Hcomp [_ [_ [_ [_ [_ [_ [_ [_ [_ [_ [_ [_ [_ Hex]]]]]]]]]]]]]]]]]]].
  unfold clientHello_marshal. fold exts.
  cbn [f_vers f_random f_sid f_suites f_comp].
  do 32 (destruct random as [|? random]; [discriminate|]). destruct random; [|discriminate]. clear Hr.
  match goal with |- context [fit32 ?r] => change (fit32 r) with r end.
  set (rest := [b8 (nlen suites / 128); b8 (nlen suites * 2)] ++ flat_map be16 suites ++ str8 comp ++ ext_block exts).
  unfold hs_msg, be24, be16, str8. cbn [app]. fold rest.
  match goal with |- clientHello_unmarshal (1%N :: ?h1 :: ?h2 :: ?h3 :: ?tl) = _ => set (data := 1%N :: h1 :: h2 :: h3 :: tl) end.
  assert (Hrest : length rest = 2 + 2 * length suites + 1 + length comp + length (ext_block exts)).
  { unfold rest, str8. cbn [app length]. rewrite app_length, length_flat_be16. cbn [length]. rewrite app_length. lia. }
  assert (Hl : length data = 39 + length sid + length rest).
  { unfold data. cbn [length]. rewrite app_length. lia. }
  unfold clientHello_unmarshal.
  destruct (Nat.ltb_spec (length data) 42) as [Hlt|_]; [lia|].
  assert (B4 : byte_at data 4 = Ok (b8 (vers / 256))) by reflexivity.
  assert (B5 : byte_at data 5 = Ok (b8 vers)) by reflexivity.
  assert (B38 : byte_at data 38 = Ok (b8 (nlen sid))) by reflexivity.
  rewrite B4, B5. cbn [obind]. rewrite slice_ok by lia. cbn [obind]. rewrite B38. cbn [obind].
  rewrite (b8_small (nlen sid)) by (unfold nlen; lia). rewrite nlen_nat.
  destruct (Nat.ltb_spec 32 (length sid)); [lia|]. cbn [orb].
  destruct (Nat.ltb_spec (length data) (39 + length sid)); [lia|].
  rewrite slice_ok by lia. cbn [obind]. rewrite slice_from_le by lia. cbn [obind].
  assert (Ed1 : skipn (39 + length sid) data = rest).
  { unfold data. cbn [Nat.add skipn]. apply skipn_app_exact. }
  assert (Esid : firstn (39 + length sid - 39) (skipn 39 data) = sid).
  { unfold data. cbn [skipn]. replace (39 + length sid - 39) with (length sid) by lia. apply firstn_app_exact. }
  assert (Ernd : firstn (38 - 6) (skipn 6 data) = [n; n0; n1; n2; n3; n4; n5; n6; n7; n8; n9; n10; n11; n12; n13; n14; n15; n16; n17; n18; n19; n20; n21; n22; n23; n24; n25; n26; n27; n28; n29; n30]) by reflexivity.
  rewrite Ed1, Esid, Ernd. rewrite u16_be16 by exact Hv. clear B4 B5 B38 Ed1 Esid Ernd.
  (* cipher suites *)
  destruct (Nat.ltb_spec (length rest) 2); [lia|].
  assert (R0 : byte_at rest 0 = Ok (b8 (nlen suites / 128))) by reflexivity.
  assert (R1 : byte_at rest 1 = Ok (b8 (nlen suites * 2))) by reflexivity.
  rewrite R0, R1. cbn [obind]. rewrite suites_len_bytes by assumption.
  replace (N.to_nat (2 * nlen suites)) with (2 * length suites) by (unfold nlen; lia).
  rewrite even_mod2'. cbn [Nat.eqb orb].
  destruct (Nat.ltb_spec (length rest) (2 + 2 * length suites)); [lia|].
  rewrite even_div2.
  unfold rest at 1. rewrite (ch_suites_loop_be16 suites 0 _ _ Hsu) by reflexivity. cbn [obind].
  rewrite slice_from_le by lia. cbn [obind].
  assert (Ed2 : skipn (2 + 2 * length suites) rest = b8 (nlen comp) :: comp ++ ext_block exts).
  { unfold rest. cbn [app Nat.add skipn]. rewrite <- length_flat_be16. apply skipn_app_exact. }
  rewrite Ed2. cbn [length]. change (Nat.ltb (S (length (comp ++ ext_block exts))) 1) with false. cbn iota.
  cbn [byte_at nth_error obind]. rewrite (b8_small (nlen comp)) by (unfold nlen; lia). rewrite nlen_nat.
  destruct (Nat.ltb_spec (S (length (comp ++ ext_block exts))) (1 + length comp)); [rewrite app_length in *; lia|].
  rewrite slice_ok by (cbn [length]; rewrite ?app_length; lia). cbn [obind].
  rewrite slice_from_le by (cbn [length]; rewrite ?app_length; lia). cbn [obind].
  cbn [Nat.add skipn]. rewrite skipn_app_exact. replace (S (length comp) - 1) with (length comp) by lia. rewrite firstn_app_exact.
  (* extensions *)
  destruct (ext_block_cases exts Hex) as [[E0 Eb]|[Ene Eb]]; rewrite Eb.
  - rewrite E0 in Hread. unfold cel in Hread. cbn [length ch_ext_loop] in Hread. exact Hread.
  - cbn [length]. change (Nat.ltb (S (S (length exts))) 2) with false. cbn iota.
    cbn [byte_at nth_error obind slice_from length Nat.leb skipn].
    rewrite u16n_be16 by assumption. rewrite nlen_nat, Nat.eqb_refl. cbn [negb]. exact Hread.
Qed.

Lemma sh_ext_loop_fuel : forall f1 f2 data m, length data < f1 -> length data < f2 ->
  sh_ext_loop f1 data m = sh_ext_loop f2 data m.
Proof.
  induction f1 as [|f1 IH]; intros f2 data m H1 H2; [lia|]. destruct f2 as [|f2]; [lia|].
  destruct data as [|x d]; [reflexivity|]. cbn [sh_ext_loop]. remember (x :: d) as data eqn:Ed.
  destruct (Nat.ltb_spec (length data) 4) as [|H4]; [reflexivity|].
  rewrite !byte_at_lt by lia. cbn [obind]. rewrite slice_from_le by lia. cbn [obind].
  set (len := u16n _ _). destruct (Nat.ltb_spec (length (skipn 4 data)) len) as [|Hl]; [reflexivity|].
  destruct (sh_extension _ _ _ _); cbn [obind]; try reflexivity.
  rewrite slice_from_le by lia. cbn [obind]. apply IH; rewrite !skipn_length; lia.
Qed.

Definition sel (data : list N) (m : sh_fields) : outcome sh_fields := sh_ext_loop (S (length data)) data m.

Lemma sel_step : forall T body rest m, (T < 65536)%N -> (nlen body < 65536)%N ->
  sel (ext T body ++ rest) m = do m' <- sh_extension m T (length body) (body ++ rest); sel rest m'.
Proof.
  intros T body rest m HT Hb. unfold sel at 1.
  assert (Hlen : length (ext T body ++ rest) = 4 + length body + length rest)
    by (unfold ext, be16; cbn [app length]; rewrite app_length; lia).
  remember (S (length (ext T body ++ rest))) as fuel eqn:Ef. destruct fuel as [|fuel]; [discriminate|].
  injection Ef as Ef. unfold ext, be16 in *. cbn [app] in *. cbn [sh_ext_loop]. cbn [length] in *.
  match goal with |- context [Nat.ltb ?a 4] => replace (Nat.ltb a 4) with false by (symmetry; apply Nat.ltb_ge; lia) end.
  cbn [byte_at nth_error obind slice_from length Nat.leb skipn].
  rewrite u16_be16 by assumption. rewrite u16n_be16 by assumption. rewrite nlen_nat.
  destruct (Nat.ltb_spec (length (body ++ rest)) (length body)) as [Hl|_]; [rewrite app_length in Hl; lia|].
  destruct (sh_extension m T (length body) (body ++ rest)); cbn [obind]; try reflexivity.
  rewrite slice_from_app. cbn [obind]. unfold sel. apply sh_ext_loop_fuel; rewrite ?app_length in *; lia.
Qed.

Definition sset_npn ps m := mkSHF (g_vers m) (g_random m) (g_sid m) (g_suite m) (g_comp m) true ps (g_ocsp m) (g_ticket m)
                              (g_reneg_supported m) (g_reneg m) (g_alpn m) (g_scts m).
Definition sset_ocsp m := mkSHF (g_vers m) (g_random m) (g_sid m) (g_suite m) (g_comp m) (g_npn m) (g_protos m) true (g_ticket m)
                              (g_reneg_supported m) (g_reneg m) (g_alpn m) (g_scts m).
Definition sset_ticket m := mkSHF (g_vers m) (g_random m) (g_sid m) (g_suite m) (g_comp m) (g_npn m) (g_protos m) (g_ocsp m) true
                              (g_reneg_supported m) (g_reneg m) (g_alpn m) (g_scts m).
Definition sset_reneg r m := mkSHF (g_vers m) (g_random m) (g_sid m) (g_suite m) (g_comp m) (g_npn m) (g_protos m) (g_ocsp m) (g_ticket m)
                              true r (g_alpn m) (g_scts m).
Definition sset_alpn p m := mkSHF (g_vers m) (g_random m) (g_sid m) (g_suite m) (g_comp m) (g_npn m) (g_protos m) (g_ocsp m) (g_ticket m)
                              (g_reneg_supported m) (g_reneg m) p (g_scts m).
Definition sset_scts l m := mkSHF (g_vers m) (g_random m) (g_sid m) (g_suite m) (g_comp m) (g_npn m) (g_protos m) (g_ocsp m) (g_ticket m)
                              (g_reneg_supported m) (g_reneg m) (g_alpn m) l.

Lemma F_npn : forall m ps rest, Forall str8_ok ps ->
  sh_extension m extensionNextProtoNeg (length (flat_map str8 ps)) (flat_map str8 ps ++ rest) = Ok (sset_npn (g_protos m ++ ps) m).
Proof.
  intros m ps rest Hf. unfold sh_extension. eqbs. rewrite slice_to_app. cbn [obind].
  rewrite alpn_loop_str8 by (try assumption; lia). reflexivity.
Qed.
Lemma F_ocsp : forall m rest, sh_extension m extensionStatusRequest 0 rest = Ok (sset_ocsp m).
Proof. intros. unfold sh_extension. eqbs. reflexivity. Qed.
Lemma F_ticket : forall m rest, sh_extension m extensionSessionTicket 0 rest = Ok (sset_ticket m).
Proof. intros. unfold sh_extension. eqbs. reflexivity. Qed.
Lemma F_reneg : forall m r rest, (length r < 255) ->
  sh_extension m extensionRenegotiationInfo (length (b8 (nlen r) :: r)) ((b8 (nlen r) :: r) ++ rest) = Ok (sset_reneg r m).
Proof.
  intros m r rest Hn. unfold sh_extension. eqbs. cbn [length]. change (Nat.eqb (S (length r)) 0) with false. cbn iota.
  change (S (length r)) with (length (b8 (nlen r) :: r)). rewrite slice_to_app.
  cbn [obind byte_at nth_error slice_from length Nat.leb skipn].
  rewrite b8_small by (unfold nlen; lia). rewrite nlen_nat, Nat.eqb_refl. reflexivity.
Qed.
Lemma F_alpn : forall m p rest, p <> [] -> length p <= 255 ->
  let body := be16 (nlen p + 1) ++ str8 p in
  sh_extension m extensionALPN (length body) (body ++ rest) = Ok (sset_alpn p m).
Proof.
  intros m p rest Hne Hn body. unfold sh_extension. eqbs. rewrite slice_to_app. cbn [obind].
  unfold body, be16, str8. cbn [app length].
  change (Nat.ltb (S (S (S (length p)))) 3) with false. cbn iota. cbn [byte_at nth_error obind].
  rewrite u16n_be16 by (unfold nlen; lia).
  replace (N.to_nat (nlen p + 1)) with (S (S (S (length p))) - 2) by (unfold nlen; lia). rewrite Nat.eqb_refl. cbn [negb].
  cbn [slice_from length Nat.leb skipn obind byte_at nth_error].
  rewrite b8_small by (unfold nlen; lia). rewrite nlen_nat.
  replace (length p =? S (length p) - 1) with true by (symmetry; apply Nat.eqb_eq; lia). cbn [negb].
  destruct p; [contradiction|]. reflexivity.
Qed.

Lemma sct_loop_str16 : forall l fuel acc, Forall (fun s => s <> [] /\ (nlen s < 65536)%N) l -> length (flat_map str16 l) < fuel ->
  sct_loop fuel (flat_map str16 l) acc = Ok (acc ++ l).
Proof.
  induction l as [|s l IH]; intros fuel acc Hf Hfuel.
  - destruct fuel; [lia|]. cbn. rewrite app_nil_r. reflexivity.
  - inversion Hf as [|? ? [Hne Hs] Hr]; subst. destruct fuel as [|fuel]; [lia|].
    cbn [flat_map str16 be16 app] in *. cbn [sct_loop length].
    change (Nat.ltb (S (S (length (s ++ flat_map str16 l)))) 2) with false. cbn iota.
    cbn [byte_at nth_error obind slice_from length Nat.leb skipn].
    rewrite u16n_be16 by assumption. rewrite nlen_nat.
    destruct (Nat.eqb_spec (length s) 0) as [E|_]; [destruct s; [contradiction|discriminate]|]. cbn [orb].
    destruct (Nat.ltb_spec (length (s ++ flat_map str16 l)) (length s)) as [Hl|_]; [rewrite app_length in Hl; lia|].
    rewrite slice_to_app, slice_from_app. cbn [obind]. rewrite IH; [rewrite <- app_assoc; reflexivity|assumption|].
    cbn [length] in Hfuel. rewrite app_length in Hfuel. lia.
Qed.

Lemma F_scts : forall m l rest, l <> [] -> Forall (fun s => s <> [] /\ (nlen s < 65536)%N) l -> (nlen (flat_map str16 l) < 65534)%N ->
  let body := be16 (nlen (flat_map str16 l)) ++ flat_map str16 l in
  sh_extension m extensionSCT (length body) (body ++ rest) = Ok (sset_scts l m).
Proof.
  intros m l rest Hne Hf Hn body. unfold sh_extension. eqbs. rewrite slice_to_app. cbn [obind].
  set (ss := flat_map str16 l) in *. unfold body, be16. cbn [app length].
  change (Nat.ltb (S (S (length ss))) 2) with false. cbn iota.
  cbn [byte_at nth_error obind slice_from length Nat.leb skipn].
  rewrite u16n_be16 by lia. rewrite nlen_nat, Nat.eqb_refl. cbn [negb orb].
  assert (Hss : length ss <> 0).
  { unfold ss. destruct l as [|s l]; [contradiction|]. cbn [flat_map str16 be16 app length]. lia. }
  destruct (Nat.eqb_spec (length ss) 0); [contradiction|].
  unfold ss. rewrite sct_loop_str16 by (try assumption; lia). reflexivity.
Qed.

(* chunks *)
Lemma D_npn : forall (b : bool) ps rest m, Forall str8_ok ps -> (nlen (flat_map str8 ps) < 65536)%N ->
  sel ((if b then ext extensionNextProtoNeg (flat_map str8 ps) else []) ++ rest) m
  = sel rest (if b then sset_npn (g_protos m ++ ps) m else m).
Proof. intros b ps rest m Hf Hn. destruct b; [|reflexivity]. rewrite sel_step by (try assumption; cbv; reflexivity). rewrite F_npn by assumption. reflexivity. Qed.
Lemma D_ocsp : forall (b : bool) rest m,
  sel ((if b then ext extensionStatusRequest [] else []) ++ rest) m = sel rest (if b then sset_ocsp m else m).
Proof. intros. destruct b; [|reflexivity]. rewrite sel_step by (cbv; reflexivity). cbn [length app]. rewrite F_ocsp. reflexivity. Qed.
Lemma D_ticket : forall (b : bool) rest m,
  sel ((if b then ext extensionSessionTicket [] else []) ++ rest) m = sel rest (if b then sset_ticket m else m).
Proof. intros. destruct b; [|reflexivity]. rewrite sel_step by (cbv; reflexivity). cbn [length app]. rewrite F_ticket. reflexivity. Qed.
Lemma D_reneg : forall (b : bool) r rest m, length r < 255 ->
  sel ((if b then reneg_ext r else []) ++ rest) m = sel rest (if b then sset_reneg r m else m).
Proof.
  intros b r rest m H. destruct b; [|reflexivity]. rewrite reneg_ext_as_ext by assumption.
  rewrite sel_step; [|cbv; reflexivity|rewrite nlen_cons; unfold nlen; lia].
  rewrite (F_reneg m r rest) by assumption. reflexivity.
Qed.
Lemma D_alpn : forall p rest m, length p <= 255 ->
  sel ((match p with [] => [] | x :: l => ext extensionALPN (be16 (nlen (x :: l) + 1) ++ str8 (x :: l)) end) ++ rest) m
  = sel rest (match p with [] => m | _ => sset_alpn p m end).
Proof.
  intros p rest m H. destruct p as [|x p]; [reflexivity|]. set (l := x :: p) in *.
  rewrite sel_step; [|cbv; reflexivity|unfold be16, str8; rewrite nlen_app, !nlen_cons; unfold nlen in *; cbn [length]; lia].
  rewrite (F_alpn m l rest) by (try assumption; discriminate). reflexivity.
Qed.
Lemma D_scts : forall l rest m, Forall (fun s => s <> [] /\ (nlen s < 65536)%N) l -> (nlen (flat_map str16 l) < 65534)%N ->
  sel ((match l with [] => [] | x :: l' => let ss := flat_map str16 (x :: l') in ext extensionSCT (be16 (nlen ss) ++ ss) end) ++ rest) m
  = sel rest (match l with [] => m | _ => sset_scts l m end).
Proof.
  intros l rest m Hf H. destruct l as [|x l]; [reflexivity|]. set (ll := x :: l) in *. cbv zeta.
  rewrite sel_step; [|cbv; reflexivity|rewrite nlen_app; unfold nlen in *; cbn [length be16]; lia].
  rewrite (F_scts m ll rest) by (try assumption; discriminate). reflexivity.
Qed.

Lemma sh_exts_read_back : forall m, sh_wf m ->
  sel (sh_exts m) (mkSHF (g_vers m) (g_random m) (g_sid m) (g_suite m) (g_comp m) false [] false false false [] [] []) = Ok m.
Proof.
  intros m H.
  destruct m as [vers random sid suite comp npn protos ocsp ticket rsup reneg alpn scts].
  unfold sh_wf in H. cbn [g_vers g_random g_sid g_suite g_comp g_npn g_protos g_ocsp g_ticket g_reneg_supported g_reneg g_alpn g_scts] in H.
  destruct H as [Hv [Hr [Hsid [Hsu [Hcomp [Hpr [Hprn [Hpr0 [Hre [Hre0 [Hal [Hsc [Hscn Hex]]]]]]]]]]]]].
  unfold sh_exts. cbn [g_vers g_random g_sid g_suite g_comp g_npn g_protos g_ocsp g_ticket g_reneg_supported g_reneg g_alpn g_scts].
  rewrite D_npn by assumption. rewrite D_ocsp, D_ticket. rewrite D_reneg by assumption. rewrite D_alpn by assumption.
  rewrite <- (app_nil_r (match scts with [] => [] | _ => _ end)). rewrite D_scts by assumption.
  unfold sel. cbn [length sh_ext_loop]. f_equal.
  destruct npn; [|rewrite (Hpr0 eq_refl)]; (destruct rsup; [|rewrite (Hre0 eq_refl)]);
    destruct ocsp, ticket, alpn, scts; reflexivity.
Qed.

Theorem serverHello_roundtrip : forall m, sh_wf m -> serverHello_unmarshal (serverHello_marshal m) = Ok m.
Proof.
  intros m Hwf. pose proof (sh_exts_read_back m Hwf) as Hread.
  set (exts := sh_exts m) in *.
  destruct m as [vers random sid suite comp npn protos ocsp ticket rsup reneg alpn scts].
  unfold sh_wf in Hwf. fold exts in Hwf.
  cbn [g_vers g_random g_sid g_suite g_comp g_npn g_protos g_ocsp g_ticket g_reneg_supported g_reneg g_alpn g_scts] in Hwf, Hread.
  destruct Hwf as [Hv [Hr [Hsid [Hsu [Hcomp [_ [_ [_ [_ [_ [_ [_ [_ Hex]]]]]]]]]]]]].
  unfold serverHello_marshal. fold exts. cbn [g_vers g_random g_sid g_suite g_comp].
  do 32 (destruct random as [|? random]; [discriminate|]). destruct random; [|discriminate]. clear Hr.
  match goal with |- context [fit32 ?r] => change (fit32 r) with r end.
  set (rest := b8 (suite / 256) :: b8 suite :: comp :: ext_block exts).
  unfold hs_msg, be24, be16, str8. cbn [app]. fold rest.
  match goal with |- serverHello_unmarshal (2%N :: ?h1 :: ?h2 :: ?h3 :: ?tl) = _ => set (data := 2%N :: h1 :: h2 :: h3 :: tl) end.
  assert (Hl : length data = 39 + length sid + length rest).
  { unfold data. cbn [length]. rewrite app_length. lia. }
  assert (Hrest : length rest = 3 + length (ext_block exts)) by reflexivity.
  unfold serverHello_unmarshal.
  destruct (Nat.ltb_spec (length data) 42) as [Hlt|_]; [lia|].
  assert (B4 : byte_at data 4 = Ok (b8 (vers / 256))) by reflexivity.
  assert (B5 : byte_at data 5 = Ok (b8 vers)) by reflexivity.
  assert (B38 : byte_at data 38 = Ok (b8 (nlen sid))) by reflexivity.
  rewrite B4, B5. cbn [obind]. rewrite slice_ok by lia. cbn [obind]. rewrite B38. cbn [obind].
  rewrite (b8_small (nlen sid)) by (unfold nlen; lia). rewrite nlen_nat.
  destruct (Nat.ltb_spec 32 (length sid)); [lia|]. cbn [orb].
  destruct (Nat.ltb_spec (length data) (39 + length sid)); [lia|].
  rewrite slice_ok by lia. cbn [obind]. rewrite slice_from_le by lia. cbn [obind].
  assert (Ed1 : skipn (39 + length sid) data = rest).
  { unfold data. cbn [Nat.add skipn]. apply skipn_app_exact. }
  assert (Esid : firstn (39 + length sid - 39) (skipn 39 data) = sid).
  { unfold data. cbn [skipn]. replace (39 + length sid - 39) with (length sid) by lia. apply firstn_app_exact. }
  assert (Ernd : firstn (38 - 6) (skipn 6 data) = [n; n0; n1; n2; n3; n4; n5; n6; n7; n8; n9; n10; n11; n12; n13; n14; n15; n16; n17; n18; n19; n20; n21; n22; n23; n24; n25; n26; n27; n28; n29; n30]) by reflexivity.
  rewrite Ed1, Esid, Ernd. rewrite u16_be16 by exact Hv. clear B4 B5 B38 Ed1 Esid Ernd.
  destruct (Nat.ltb_spec (length rest) 3); [lia|].
  unfold rest at 1 2 3 4. cbn [byte_at nth_error obind slice_from length Nat.leb skipn].
  rewrite u16_be16 by exact Hsu.
  destruct (ext_block_cases exts Hex) as [[E0 Eb]|[Ene Eb]]; rewrite Eb.
  - rewrite E0 in Hread. unfold sel in Hread. cbn [length sh_ext_loop] in Hread. exact Hread.
  - cbn [length]. change (Nat.ltb (S (S (length exts))) 2) with false. cbn iota.
    cbn [byte_at nth_error obind slice_from length Nat.leb skipn].
    rewrite u16n_be16 by assumption. rewrite nlen_nat, Nat.eqb_refl. cbn [negb]. exact Hread.
Qed.

Lemma omap_ok : forall {A B} (f : A -> B) o a, o = Ok a -> omap f o = Ok (f a).
Proof. intros. subst. reflexivity. Qed.

(* every marshalled message starts with its type and the 3-byte length of what follows *)
Definition framed (typ : N) (data : list N) : Prop :=
  exists body, data = typ :: be24 (nlen body) ++ body /\ (nlen body < 16777216)%N.

Lemma hs_msg_framed : forall typ body, (nlen (hs_msg typ body) < 16777220)%N -> framed typ (hs_msg typ body).
Proof.
  intros typ body H. exists body. split; [reflexivity|]. unfold hs_msg, be24 in H. unfold nlen in *. cbn [app length] in H. lia.
Qed.

Definition msg_type (ctx : wctx) (w : wire_msg) : N :=
  match w with
  | WClientHello _ => 1 | WServerHello _ => 2 | WCertificate _ => 11 | WServerKeyExchange _ => 12
  | WCertificateRequest _ _ _ => 13 | WCertificateRequestGM _ _ => 13 | WServerHelloDone => 14 | WCertificateVerify _ _ => 15
  | WClientKeyExchange _ => 16 | WFinished _ => 20 | WNewSessionTicket _ => 4 | WCertificateStatus _ _ => 22 | WNextProtocol _ => 67
  end%N.

Lemma marshal_any_framed : forall ctx w, wf_any ctx w -> framed (msg_type ctx w) (marshal_any ctx w).
Proof.
  intros ctx w [Hlen Hwf]. destruct w; cbn [marshal_any msg_type] in *;
    try (apply hs_msg_framed; exact Hlen).
  - exists []. split; [reflexivity|cbv; reflexivity].
  - exists vd. split; [|unfold nlen; lia]. unfold finished_marshal, be24. cbn [app]. f_equal.
    assert (Hs : (nlen vd < 256)%N) by (unfold nlen; lia).
    rewrite (N.div_small (nlen vd) 65536) by lia. rewrite (N.div_small (nlen vd) 256) by lia. reflexivity.
  - unfold certificateStatus_marshal in *. destruct (N.eqb statusType statusTypeOCSP); [apply hs_msg_framed; exact Hlen|].
    exists [statusType]. split; [reflexivity|cbv; reflexivity].
Qed.

Theorem parse_marshal_any : forall ctx w, wf_any ctx w -> parse_any ctx (marshal_any ctx w) = Ok w.
Proof.
  intros ctx w Hwf. pose proof (marshal_any_framed ctx w Hwf) as [body [Hfr Hb]].
  destruct Hwf as [Hlen Hwf]. unfold parse_any. rewrite Hfr. cbn [byte_at nth_error obind]. rewrite <- Hfr.
  destruct w; cbn [msg_type marshal_any] in *; eqbs.
  - apply (omap_ok WClientHello). apply clientHello_roundtrip. exact Hwf.
  - apply (omap_ok WServerHello). apply serverHello_roundtrip. exact Hwf.
  - apply (omap_ok WCertificate). destruct Hwf as [Hf Hok]. apply certificate_roundtrip; [assumption|assumption|].
    unfold certificate_marshal, hs_msg, be24 in Hlen. unfold nlen in *. cbn [app length] in Hlen. lia.
  - apply (omap_ok WServerKeyExchange). apply serverKeyExchange_roundtrip.
  - destruct Hwf as [Hgm [Ht [Ha [Hn [Hf Hc]]]]]. rewrite Hgm.
    rewrite (omap_ok _ _ (types, algs, cas)); [reflexivity|]. apply certificateRequest_roundtrip; assumption.
  - destruct Hwf as [Hgm [Ht Hc]]. rewrite Hgm.
    rewrite (omap_ok _ _ (types, cas)); [reflexivity|]. apply certificateRequestGM_roundtrip; try assumption.
    unfold certificateRequestGM_marshal, hs_msg. cbn [length]. rewrite !app_length. lia.
  - reflexivity.
  - destruct Hwf as [Ha [Hs Hf]]. rewrite (omap_ok _ _ (alg, sig)); [reflexivity|]. apply certificateVerify_roundtrip; assumption.
  - apply (omap_ok WClientKeyExchange). apply clientKeyExchange_roundtrip.
    unfold clientKeyExchange_marshal, hs_msg, be24 in Hlen. unfold nlen in *. cbn [app length] in Hlen. lia.
  - apply (omap_ok WFinished). apply finished_roundtrip.
  - apply (omap_ok WNewSessionTicket). apply newSessionTicket_roundtrip. exact Hwf.
  - destruct Hwf as [Hs Hr]. rewrite (omap_ok _ _ (statusType, response)); [reflexivity|].
    apply certificateStatus_roundtrip; try assumption.
    unfold certificateStatus_marshal in Hlen. destruct (N.eqb_spec statusType statusTypeOCSP) as [E|E].
    + unfold hs_msg, be24, str24, be24 in Hlen. unfold nlen in *. cbn [app length] in Hlen. lia.
    + rewrite (Hr E). cbv. reflexivity.
  - apply (omap_ok WNextProtocol). apply nextProto_roundtrip. exact Hwf.
Qed.

Theorem marshal_any_injective : forall ctx w1 w2, wf_any ctx w1 -> wf_any ctx w2 ->
  marshal_any ctx w1 = marshal_any ctx w2 -> w1 = w2.
Proof.
  intros ctx w1 w2 H1 H2 E. pose proof (parse_marshal_any ctx w1 H1) as P1. pose proof (parse_marshal_any ctx w2 H2) as P2.
  rewrite E in P1. rewrite P1 in P2. injection P2 as P2. exact P2.
Qed.

(* reading a transcript back *)
Theorem read_msgs_transcript : forall ctx ws fuel, Forall (wf_any ctx) ws -> length (transcript_bytes ctx ws) < fuel ->
  read_msgs fuel ctx (transcript_bytes ctx ws) = Ok ws.
Proof.
  intros ctx ws. induction ws as [|w ws IH]; intros fuel Hf Hfuel.
  - destruct fuel; reflexivity.
  - inversion Hf as [|? ? Hw Hws]; subst. destruct fuel as [|fuel]; [lia|].
    unfold transcript_bytes in *. cbn [flat_map] in *.
    pose proof (marshal_any_framed ctx w Hw) as [body [Hfr Hb]].
    pose proof (parse_marshal_any ctx w Hw) as Hp.
    set (mw := marshal_any ctx w) in *. set (tl := flat_map (marshal_any ctx) ws) in *.
    assert (Hlm : length mw = 4 + length body) by (rewrite Hfr; unfold be24; cbn [app length]; lia).
    assert (B1 : byte_at (mw ++ tl) 1 = Ok (b8 (nlen body / 65536))) by (rewrite Hfr; reflexivity).
    assert (B2 : byte_at (mw ++ tl) 2 = Ok (b8 (nlen body / 256))) by (rewrite Hfr; reflexivity).
    assert (B3 : byte_at (mw ++ tl) 3 = Ok (b8 (nlen body))) by (rewrite Hfr; reflexivity).
    assert (Hne : mw ++ tl <> []) by (rewrite Hfr; discriminate).
    destruct (mw ++ tl) as [|x0 xs] eqn:Ex; [contradiction|]. rewrite <- Ex in *. cbn [read_msgs]. rewrite Ex at 1. 
    destruct (Nat.ltb_spec (length (mw ++ tl)) 4) as [Hl|_]; [rewrite app_length in Hl; lia|].
    rewrite B1, B2, B3. cbn [obind]. rewrite u24_be24 by assumption. rewrite nlen_nat. rewrite <- Hlm.
    destruct (Nat.ltb_spec (length (mw ++ tl)) (length mw)) as [Hl|_]; [rewrite app_length in Hl; lia|].
    rewrite slice_to_app, slice_from_app. cbn [obind]. rewrite Hp. cbn [obind].
    rewrite IH; [reflexivity|assumption|]. rewrite app_length in Hfuel. lia.
Qed.

(* equal byte transcripts are transcripts of the same message values *)
Corollary transcript_bytes_injective : forall ctx ws1 ws2, Forall (wf_any ctx) ws1 -> Forall (wf_any ctx) ws2 ->
  transcript_bytes ctx ws1 = transcript_bytes ctx ws2 -> ws1 = ws2.
Proof.
  intros ctx ws1 ws2 H1 H2 E.
  pose proof (read_msgs_transcript ctx ws1 (S (length (transcript_bytes ctx ws1))) H1 (Nat.lt_succ_diag_r _)) as P1.
  pose proof (read_msgs_transcript ctx ws2 (S (length (transcript_bytes ctx ws2))) H2 (Nat.lt_succ_diag_r _)) as P2.
  rewrite E in P1. rewrite P1 in P2. injection P2 as P2. exact P2.
Qed.

(* ... hence equal under every abstraction of message values into terms (the symbolic transcripts of the C08 models
   are such an abstraction applied to the values each side sent or parsed) *)
Corollary equal_bytes_equal_views : forall {T} (abs : wire_msg -> T) ctx ws1 ws2,
  Forall (wf_any ctx) ws1 -> Forall (wf_any ctx) ws2 ->
  transcript_bytes ctx ws1 = transcript_bytes ctx ws2 -> map abs ws1 = map abs ws2.
Proof. intros. f_equal. eapply transcript_bytes_injective; eassumption. Qed.
