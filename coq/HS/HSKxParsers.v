(* Byte-level model of ecdheKeyAgreement.processServerKeyExchange (gmtls/key_agreement.go, the standard-TLS ECDHE suites)
   up to the signature check (no proofs in this file): every index / slice expression a checked access, as in
   HSParsers.v.  The scheme negotiation is HSSigAlg.pickSignatureAlgorithm (tables from the source).
   elliptic.Unmarshal is a parameter: point_ok publicKey = "Unmarshal returned a point" (it never panics).
   Err 1 = errServerKeyExchange, Err 2 = unsupported curve / bad X25519 value, Err 3 = pickSignatureAlgorithm's error. *)
From Coq Require Import List NArith Arith Bool.
From GmsmVerif Require Import Lib.Outcome HS.HSParsers Gen.HSSigTables HS.HSSigAlg.
Import ListNotations.

Notation byte := N (only parsing).

Definition CurveP256 : N := 23.
Definition CurveP384 : N := 24.
Definition CurveP521 : N := 25.
Definition X25519 : N := 29.

(* what is handed to hashForServerKeyExchange / verifyHandshakeSignature *)
Record ecdhe_skx := mkESKX {
  ek_curve : N; ek_params : list byte; ek_public : list byte;
  ek_sigtype : N; ek_hash : N; ek_sig : list byte }.

Definition ecdhe_processServerKeyExchange (vers : N) (isRSA : bool) (pk : pubkind) (helloAlgs : list N)
    (point_ok : list byte -> bool) (key : list byte) : outcome ecdhe_skx :=
  if Nat.ltb (length key) 4 then Err 1
  else
    do k0 <- byte_at key 0;
    if negb (N.eqb k0 3) then Err 2
    else
      do k1 <- byte_at key 1;
      do k2 <- byte_at key 2;
      let curveid := u16 k1 k2 in
      do k3 <- byte_at key 3;
      let publicLen := N.to_nat k3 in
      if Nat.ltb (length key) (publicLen + 4) then Err 1
      else
        do serverECDHParams <- slice_to key (4 + publicLen);
        do publicKey <- slice_from serverECDHParams 4;
        do sig <- slice_from key (4 + publicLen);
        if Nat.ltb (length sig) 2 then Err 1
        else
          do _ <- (if N.eqb curveid X25519 then (if negb (Nat.eqb (length publicKey) 32) then Err 2 else Ok tt)
                   else if N.eqb curveid CurveP256 || N.eqb curveid CurveP384 || N.eqb curveid CurveP521
                        then (if point_ok publicKey then Ok tt else Err 1)
                        else Err 2);
          do '(signatureAlgorithm, sig1) <-
            (if N.leb gsig_VersionTLS12 vers then
               do s0 <- byte_at sig 0;
               do s1 <- byte_at sig 1;
               do sg <- slice_from sig 2;
               if Nat.ltb (length sg) 2 then Err 1 else Ok (u16 s0 s1, sg)
             else Ok (0%N, sig));
          match pickSignatureAlgorithm pk [signatureAlgorithm] helloAlgs vers with
          | Err _ => Err 3
          | Panic => Panic
          | Hang => Hang
          | Ok (_, sigType, hashFunc) =>
            if negb (Bool.eqb (N.eqb sigType gsig_signaturePKCS1v15 || N.eqb sigType gsig_signatureRSAPSS) isRSA) then Err 1
            else
              do l0 <- byte_at sig1 0;
              do l1 <- byte_at sig1 1;
              let sigLen := N.to_nat (u16 l0 l1) in
              if negb (Nat.eqb (sigLen + 2) (length sig1)) then Err 1
              else
                do sg <- slice_from sig1 2;
                Ok (mkESKX curveid serverECDHParams publicKey sigType hashFunc sg)
          end.
