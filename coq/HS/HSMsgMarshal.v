(* Byte-level models of the marshal() functions of handshake_messages.go / gm_handshake_messages.go and of the
   message bodies eccKeyAgreementGM builds (no proofs in this file).  marshal() fills a buffer whose size it computes
   in advance, piece by piece, front to back; the model is the concatenation of the pieces in that order, with every
   "uint8(x)" / "byte(x)" conversion a reduction mod 256 (so lengths that do not fit their field wrap exactly as in Go).
   The size arithmetic of the Go code is the length of this concatenation (HSMsgMarshalProofs.*_length), except for the
   two cases Go itself refuses or garbles, which are outside the domain of every statement and of the generators:
   ALPN strings of length 0 or > 255 (marshal panics) and NextProtos entries longer than 255 bytes.
   Field records: HSMsgParsers.ch_fields / sh_fields (the unmarshal side fills the same records). *)
From Coq Require Import List NArith Arith Bool.
From GmsmVerif Require Import Lib.Outcome HS.HSParsers HS.HSMsgParsers.
Import ListNotations.

Notation byte := N (only parsing).

(* uint8(x) *)
Definition b8 (x : N) : byte := (x mod 256)%N.
(* x>>8, x as two bytes; x>>16, x>>8, x as three *)
Definition be16 (x : N) : list byte := [b8 (x / 256); b8 x].
Definition be24 (x : N) : list byte := [b8 (x / 65536); b8 (x / 256); b8 x].
Definition nlen {A} (l : list A) : N := N.of_nat (length l).

(* the 4-byte header: type, uint24 length of the body *)
Definition hs_msg (typ : N) (body : list byte) : list byte := typ :: be24 (nlen body) ++ body.

(* copy(x[6:38], m.random) into a zeroed buffer *)
Definition fit32 (r : list byte) : list byte := firstn 32 (r ++ repeat 0%N 32).

(* "z[0] = ...; z[1] = ...; l := ...; z[2] = byte(l >> 8); z[3] = byte(l)" *)
Definition ext (typ : N) (body : list byte) : list byte := be16 typ ++ be16 (nlen body) ++ body.

(* secureRenegotiation: z[2] = 0; z[3] = byte(len+1); z[4] = byte(len) *)
Definition reneg_ext (r : list byte) : list byte :=
  be16 extensionRenegotiationInfo ++ [0%N; b8 (nlen r + 1); b8 (nlen r)] ++ r.

(* one-byte-length strings *)
Definition str8 (s : list byte) : list byte := b8 (nlen s) :: s.
Definition str16 (s : list byte) : list byte := be16 (nlen s) ++ s.
Definition str24 (s : list byte) : list byte := be24 (nlen s) ++ s.

(* the extensions block: "if numExtensions > 0 { z[0] = byte(extensionsLength >> 8); z[1] = byte(extensionsLength) }" *)
Definition ext_block (exts : list byte) : list byte :=
  match exts with [] => [] | _ => be16 (nlen exts) ++ exts end.

(* ---------- clientHelloMsg.marshal ------------------------------------------------------------------ *)
Definition ch_exts (m : ch_fields) : list byte :=
  (if f_npn m then ext extensionNextProtoNeg [] else [])
  ++ (match f_sni m with
      | [] => []
      | name => ext extensionServerName (be16 (nlen name + 3) ++ [0%N] ++ be16 (nlen name) ++ name)
      end)
  ++ (if f_ocsp m then ext extensionStatusRequest [1%N; 0%N; 0%N; 0%N; 0%N] else [])
  ++ (match f_curves m with
      | [] => []
      | cs => ext extensionSupportedCurves (be16 (2 * nlen cs) ++ flat_map be16 cs)
      end)
  ++ (match f_points m with
      | [] => []
      | ps => ext extensionSupportedPoints (b8 (nlen ps) :: ps)
      end)
  ++ (if f_ticket_supported m then ext extensionSessionTicket (f_ticket m) else [])
  ++ (match f_sigalgs m with
      | [] => []
      | al => ext extensionSignatureAlgorithms (be16 (2 * nlen al) ++ flat_map be16 al)
      end)
  ++ (if f_reneg_supported m then reneg_ext (f_reneg m) else [])
  ++ (match f_alpn m with
      | [] => []
      | ps => let strs := flat_map str8 ps in ext extensionALPN (be16 (nlen strs) ++ strs)
      end)
  ++ (if f_scts m then ext extensionSCT [] else []).

Definition clientHello_marshal (m : ch_fields) : list byte :=
  hs_msg 1
    (be16 (f_vers m) ++ fit32 (f_random m) ++ str8 (f_sid m)
     ++ [b8 (nlen (f_suites m) / 128); b8 (nlen (f_suites m) * 2)] ++ flat_map be16 (f_suites m)
     ++ str8 (f_comp m) ++ ext_block (ch_exts m)).

(* ---------- serverHelloMsg.marshal ------------------------------------------------------------------ *)
Definition sh_exts (m : sh_fields) : list byte :=
  (if g_npn m then ext extensionNextProtoNeg (flat_map str8 (g_protos m)) else [])
  ++ (if g_ocsp m then ext extensionStatusRequest [] else [])
  ++ (if g_ticket m then ext extensionSessionTicket [] else [])
  ++ (if g_reneg_supported m then reneg_ext (g_reneg m) else [])
  ++ (match g_alpn m with
      | [] => []
      | p => ext extensionALPN (be16 (nlen p + 1) ++ str8 p)
      end)
  ++ (match g_scts m with
      | [] => []
      | l => let ss := flat_map str16 l in ext extensionSCT (be16 (nlen ss) ++ ss)
      end).

Definition serverHello_marshal (m : sh_fields) : list byte :=
  hs_msg 2
    (be16 (g_vers m) ++ fit32 (g_random m) ++ str8 (g_sid m) ++ be16 (g_suite m) ++ [g_comp m]
     ++ ext_block (sh_exts m)).

(* ---------- the other messages ----------------------------------------------------------------------- *)
Definition certificate_marshal (certs : list (list byte)) : list byte :=
  let l := flat_map str24 certs in hs_msg 11 (be24 (nlen l) ++ l).

Definition serverKeyExchange_marshal (key : list byte) : list byte := hs_msg 12 key.
Definition clientKeyExchange_marshal (ct : list byte) : list byte := hs_msg 16 ct.

(* x[0] = typeFinished; x[3] = byte(len(m.verifyData)) *)
Definition finished_marshal (vd : list byte) : list byte := [20%N; 0%N; 0%N; b8 (nlen vd)] ++ vd.

Definition serverHelloDone_marshal : list byte := [14%N; 0%N; 0%N; 0%N].

(* x[4..7] (the lifetime hint) stay zero *)
Definition newSessionTicket_marshal (ticket : list byte) : list byte :=
  hs_msg 4 ([0%N; 0%N; 0%N; 0%N] ++ str16 ticket).

Definition certificateStatus_marshal (statusType : N) (response : list byte) : list byte :=
  if N.eqb statusType statusTypeOCSP then hs_msg 22 (statusTypeOCSP :: str24 response)
  else [22%N; 0%N; 0%N; 1%N; statusType].

(* l := min(len, 255); padding := 32 - (l+2)%32 *)
Definition nextProto_marshal (proto : list byte) : list byte :=
  let l := Nat.min (length proto) 255 in
  let padding := 32 - (l + 2) mod 32 in
  hs_msg 67 (b8 (N.of_nat l) :: firstn l proto ++ b8 (N.of_nat padding) :: repeat 0%N padding).

Definition certificateRequest_marshal (hasSignatureAndHash : bool) (types : list byte) (algs : list N)
    (cas : list (list byte)) : list byte :=
  let cal := flat_map str16 cas in
  hs_msg 13
    (str8 types
     ++ (if hasSignatureAndHash then be16 (2 * nlen algs) ++ flat_map be16 algs else [])
     ++ be16 (nlen cal) ++ cal).

Definition certificateRequestGM_marshal (types : list byte) (cas : list (list byte)) : list byte :=
  let cal := flat_map str16 cas in hs_msg 13 (str8 types ++ be16 (nlen cal) ++ cal).

Definition certificateVerify_marshal (hasSignatureAndHash : bool) (alg : N) (sig : list byte) : list byte :=
  hs_msg 15 ((if hasSignatureAndHash then be16 alg else []) ++ str16 sig).

(* ---------- eccKeyAgreementGM: the bodies it puts into ServerKeyExchange / ClientKeyExchange ------------ *)
(* generateServerKeyExchange: ske.key = len(sig)>>8, len(sig), sig *)
Definition ecc_skx_body (sig : list byte) : list byte := str16 sig.
(* generateClientKeyExchange: ckx.ciphertext = len(encrypted)>>8, len(encrypted), encrypted *)
Definition ecc_ckx_body (encrypted : list byte) : list byte := str16 encrypted.

(* ---------- well-formed field values (the domain of the round-trip theorems) -------------------------------- *)
Definition is_u16 (x : N) : Prop := (x < 65536)%N.
Definition str8_ok (s : list byte) : Prop := (1 <= length s <= 255)%nat.

Definition ch_wf (m : ch_fields) : Prop :=
  is_u16 (f_vers m) /\ length (f_random m) = 32%nat /\ (length (f_sid m) <= 32)%nat /\
  Forall is_u16 (f_suites m) /\ (nlen (f_suites m) < 32768)%N /\ (length (f_comp m) <= 255)%nat /\
  (nlen (f_sni m) < 65531)%N /\
  Forall is_u16 (f_curves m) /\ (nlen (f_curves m) < 32767)%N /\ (length (f_points m) < 255)%nat /\
  (nlen (f_ticket m) < 65536)%N /\ (f_ticket_supported m = false -> f_ticket m = []) /\
  Forall is_u16 (f_sigalgs m) /\ (nlen (f_sigalgs m) < 32767)%N /\
  (length (f_reneg m) < 255)%nat /\ (f_reneg_supported m = false -> f_reneg m = []) /\
  (existsb (fun s => N.eqb s scsvRenegotiation) (f_suites m) = true -> f_reneg_supported m = true) /\
  Forall str8_ok (f_alpn m) /\ (nlen (flat_map str8 (f_alpn m)) < 65534)%N /\
  (nlen (ch_exts m) < 65536)%N.

Definition sh_wf (m : sh_fields) : Prop :=
  is_u16 (g_vers m) /\ length (g_random m) = 32%nat /\ (length (g_sid m) <= 32)%nat /\
  is_u16 (g_suite m) /\ (g_comp m < 256)%N /\
  Forall str8_ok (g_protos m) /\ (nlen (flat_map str8 (g_protos m)) < 65536)%N /\ (g_npn m = false -> g_protos m = []) /\
  (length (g_reneg m) < 255)%nat /\ (g_reneg_supported m = false -> g_reneg m = []) /\
  (length (g_alpn m) <= 255)%nat /\
  Forall (fun s => s <> [] /\ (nlen s < 65536)%N) (g_scts m) /\ (nlen (flat_map str16 (g_scts m)) < 65534)%N /\
  (nlen (sh_exts m) < 65536)%N.

(* ---------- any handshake message: readHandshake's dispatch and the transcript ------------------------------ *)
(* what decides between the layouts that depend on the connection: Config.GMSupport != nil (certificateRequestMsgGM),
   c.vers >= VersionTLS12 (hasSignatureAndHash of CertificateRequest / CertificateVerify) *)
Record wctx := mkWCtx { w_gm : bool; w_tls12 : bool }.

Inductive wire_msg :=
| WClientHello (m : ch_fields)
| WServerHello (m : sh_fields)
| WCertificate (certs : list (list byte))
| WServerKeyExchange (key : list byte)
| WCertificateRequest (types : list byte) (algs : list N) (cas : list (list byte))
| WCertificateRequestGM (types : list byte) (cas : list (list byte))
| WServerHelloDone
| WCertificateVerify (alg : N) (sig : list byte)
| WClientKeyExchange (ct : list byte)
| WFinished (vd : list byte)
| WNewSessionTicket (ticket : list byte)
| WCertificateStatus (statusType : N) (response : list byte)
| WNextProtocol (proto : list byte).

Definition marshal_any (ctx : wctx) (w : wire_msg) : list byte :=
  match w with
  | WClientHello m => clientHello_marshal m
  | WServerHello m => serverHello_marshal m
  | WCertificate certs => certificate_marshal certs
  | WServerKeyExchange key => serverKeyExchange_marshal key
  | WCertificateRequest types algs cas => certificateRequest_marshal (w_tls12 ctx) types algs cas
  | WCertificateRequestGM types cas => certificateRequestGM_marshal types cas
  | WServerHelloDone => serverHelloDone_marshal
  | WCertificateVerify alg sig => certificateVerify_marshal (w_tls12 ctx) alg sig
  | WClientKeyExchange ct => clientKeyExchange_marshal ct
  | WFinished vd => finished_marshal vd
  | WNewSessionTicket t => newSessionTicket_marshal t
  | WCertificateStatus st r => certificateStatus_marshal st r
  | WNextProtocol p => nextProto_marshal p
  end.

Definition omap {A B} (f : A -> B) (o : outcome A) : outcome B := do a <- o; Ok (f a).

(* Conn.readHandshake from "switch data[0]" on (HelloRequest left out: it is never part of a first handshake).
   Err 10 = alertUnexpectedMessage for an unknown type. *)
Definition parse_any (ctx : wctx) (data : list byte) : outcome wire_msg :=
  do typ <- byte_at data 0;
  if N.eqb typ 1 then omap WClientHello (clientHello_unmarshal data)
  else if N.eqb typ 2 then omap WServerHello (serverHello_unmarshal data)
  else if N.eqb typ 4 then omap WNewSessionTicket (newSessionTicket_unmarshal data)
  else if N.eqb typ 11 then omap WCertificate (certificate_unmarshal data)
  else if N.eqb typ 13 then
    (if w_gm ctx
     then omap (fun r => WCertificateRequestGM (fst r) (snd r)) (certificateRequestMsgGM_unmarshal (length data) data)
     else omap (fun r => WCertificateRequest (fst (fst r)) (snd (fst r)) (snd r)) (certificateRequest_unmarshal (w_tls12 ctx) data))
  else if N.eqb typ 22 then omap (fun r => WCertificateStatus (fst r) (snd r)) (certificateStatus_unmarshal data)
  else if N.eqb typ 12 then omap WServerKeyExchange (serverKeyExchange_unmarshal data)
  else if N.eqb typ 14 then omap (fun _ => WServerHelloDone) (serverHelloDone_unmarshal data)
  else if N.eqb typ 16 then omap WClientKeyExchange (clientKeyExchange_unmarshal data)
  else if N.eqb typ 15 then omap (fun r => WCertificateVerify (fst r) (snd r)) (certificateVerify_unmarshal (w_tls12 ctx) data)
  else if N.eqb typ 67 then omap WNextProtocol (nextProto_unmarshal data)
  else if N.eqb typ 20 then omap WFinished (finished_unmarshal data)
  else Err 10.

(* the last certificate of a non-empty list is not empty (certificateMsg.unmarshal wants 4 more bytes per entry) *)
Fixpoint certs_ok (certs : list (list byte)) : Prop :=
  match certs with
  | [] => True
  | [c] => c <> []
  | _ :: rest => certs_ok rest
  end.

Definition cas_ok (cas : list (list byte)) : Prop :=
  Forall (fun s => (nlen s < 65536)%N) cas /\ (nlen (flat_map str16 cas) < 65536)%N.

(* the message values an endpoint can send and get read back unchanged *)
Definition wf_any (ctx : wctx) (w : wire_msg) : Prop :=
  (nlen (marshal_any ctx w) < 16777220)%N /\
  match w with
  | WClientHello m => ch_wf m
  | WServerHello m => sh_wf m
  | WCertificate certs => Forall (fun c => (nlen c < 16777216)%N) certs /\ certs_ok certs
  | WServerKeyExchange _ | WClientKeyExchange _ | WServerHelloDone => True
  | WCertificateRequest types algs cas =>
      w_gm ctx = false /\ (1 <= length types <= 255)%nat /\ Forall is_u16 algs /\ (nlen algs < 32768)%N /\
      (w_tls12 ctx = false -> algs = []) /\ cas_ok cas
  | WCertificateRequestGM types cas => w_gm ctx = true /\ (1 <= length types <= 255)%nat /\ cas_ok cas
  | WCertificateVerify alg sig => is_u16 alg /\ (nlen sig < 65536)%N /\ (w_tls12 ctx = false -> alg = 0%N)
  | WFinished vd => (length vd <= 255)%nat
  | WNewSessionTicket t => (nlen t < 65536)%N
  | WCertificateStatus st r => (st < 256)%N /\ (st <> statusTypeOCSP -> r = [])
  | WNextProtocol p => (length p <= 255)%nat
  end.

(* the byte transcript of a list of messages, and reading it back message by message: the 3-byte length of each header
   says where the next message starts (readHandshake: data = c.hand.Next(4 + n)) *)
Definition transcript_bytes (ctx : wctx) (ws : list wire_msg) : list byte := flat_map (marshal_any ctx) ws.

Fixpoint read_msgs (fuel : nat) (ctx : wctx) (data : list byte) : outcome (list wire_msg) :=
  match data with
  | [] => Ok []
  | _ =>
    match fuel with
    | O => Hang
    | S fuel' =>
      if Nat.ltb (length data) 4 then Err 1
      else
        do b1 <- byte_at data 1;
        do b2 <- byte_at data 2;
        do b3 <- byte_at data 3;
        let n := N.to_nat (u24 b1 b2 b3) in
        if Nat.ltb (length data) (4 + n) then Err 1
        else
          do msg <- slice_to data (4 + n);
          do rest <- slice_from data (4 + n);
          do w <- parse_any ctx msg;
          do ws <- read_msgs fuel' ctx rest;
          Ok (w :: ws)
    end
  end.
