(* The compression methods of a ClientHello.  The message-level models carry one bit, ch_comp_null = "compressionNone is
   offered"; at byte level it is the result of the search every server does over the list
   (readClientHello / processClientHelloGM / processClientHello: "for _, compression := range ...compressionMethods
   { if compression == compressionNone { found = true; break } }").  Gen/HSTables.gen_null_compression_searched records
   that all four functions have exactly that shape (the translator refuses any other use of the list). *)
From Coq Require Import List NArith Arith Bool.
From GmsmVerif Require Import Lib.Outcome HS.HSTerms HS.HSModel HS.HSMsgParsers Gen.HSTables.
Import ListNotations.
Local Open Scope N_scope.

Definition compressionNone : N := 0.

(* the loop *)
Fixpoint comp_offers_null (l : list N) : bool :=
  match l with
  | [] => false
  | c :: r => if c =? compressionNone then true else comp_offers_null r
  end.

(* the bit of the message-level ClientHello for a parsed byte-level ClientHello *)
Definition abs_comp_null (m : ch_fields) : bool := comp_offers_null (f_comp m).

Lemma comp_offers_null_iff : forall l, comp_offers_null l = true <-> In compressionNone l.
Proof.
  induction l as [|c r IH]; cbn [comp_offers_null In]; [split; [discriminate|contradiction]|].
  destruct (N.eqb_spec c compressionNone) as [->|Hn].
  - split; auto.
  - rewrite IH. split; [auto|]. intros [E|H]; [contradiction|exact H].
Qed.

(* a server model in any mode answers no ClientHello that does not offer null compression, and the refusal does not look
   at anything else in the list: [1;0], [0;1], [0] are the same ClientHello to it *)
Lemma server_requires_null_compression : forall cfg st ch,
  ss_phase st = SP_Hello -> ch_comp_null ch = false -> snd (server_handshake_step cfg st (MClientHello ch)) = SError.
Proof.
  intros cfg st ch Hph Hc. unfold server_handshake_step. rewrite Hph.
  destruct (version_gate (s_mode cfg) (ch_vers ch)); [reflexivity| |]; unfold server_process_hello; rewrite Hc; reflexivity.
Qed.

Lemma null_compression_search_matches_source :
  gen_null_compression_searched = [1; 1; 1; 1] /\
  (forall l, comp_offers_null l = true <-> In compressionNone l) /\
  comp_offers_null [1; 0] = true /\ comp_offers_null [0; 1] = true /\ comp_offers_null [1; 0; 2] = true /\
  comp_offers_null [1; 2] = false /\ comp_offers_null [] = false.
Proof. split; [reflexivity|]. split; [exact comp_offers_null_iff|]. repeat split; reflexivity. Qed.
