(* Byte-level models of the parsers gmsm wrote itself for the handshake (no proofs in this file):
     gm_key_agreement.go        eccKeyAgreementGM.processClientKeyExchange  (the length logic before sm2.CipherUnmarshal)
                                eccKeyAgreementGM.processServerKeyExchange  (the length logic before asn1.Unmarshal)
     gm_handshake_messages.go   certificateRequestMsgGM.unmarshal
     conn.go                    readHandshake: reassembly of messages from handshake records (4-byte header, maxHandshake)
   Every Go index / slice expression is a checked access: [Panic] where Go would panic.  Loops run on fuel: [Hang]. *)
From Coq Require Import List NArith Arith Bool.
From GmsmVerif Require Import Lib.Outcome.
Import ListNotations.

Notation byte := N (only parsing).

(* b[i] *)
Definition byte_at (b : list byte) (i : nat) : outcome byte :=
  match nth_error b i with Some x => Ok x | None => Panic end.
(* b[i:] *)
Definition slice_from (b : list byte) (i : nat) : outcome (list byte) :=
  if Nat.leb i (length b) then Ok (skipn i b) else Panic.
(* b[:i] *)
Definition slice_to (b : list byte) (i : nat) : outcome (list byte) :=
  if Nat.leb i (length b) then Ok (firstn i b) else Panic.

(* int(b0)<<8 | int(b1) *)
Definition u16 (b0 b1 : byte) : N := N.lor (N.shiftl b0 8) b1.
(* int(b1)<<16 | int(b2)<<8 | int(b3) *)
Definition u24 (b1 b2 b3 : byte) : N := N.lor (N.lor (N.shiftl b1 16) (N.shiftl b2 8)) b3.

(* ---- eccKeyAgreementGM.processClientKeyExchange, up to "cipher := ckx.ciphertext[2:]" -------- *)
(* Err 1 = errClientKeyExchange *)
Definition ecc_ckx_prefix (ct : list byte) : outcome (list byte) :=
  if Nat.ltb (length ct) 2 then Err 1
  else
    do b0 <- byte_at ct 0;
    do b1 <- byte_at ct 1;
    if negb (N.eqb (u16 b0 b1) (N.of_nat (length ct - 2))) then Err 1
    else slice_from ct 2.

(* ---- eccKeyAgreementGM.processServerKeyExchange, up to "sig := skx.key[2:]" ------------------- *)
(* Err 1 = errServerKeyExchange *)
Definition ecc_skx_prefix (key : list byte) : outcome (list byte) :=
  if Nat.leb (length key) 2 then Err 1
  else
    do b0 <- byte_at key 0;
    do b1 <- byte_at key 1;
    if negb (N.eqb (u16 b0 b1 + 2) (N.of_nat (length key))) then Err 1
    else slice_from key 2.

(* ---- certificateRequestMsgGM.unmarshal ---------------------------------------------------------- *)
(* the loop "for len(cas) > 0 { ... }" *)
Fixpoint certreq_cas (fuel : nat) (cas : list byte) (acc : list (list byte)) : outcome (list (list byte)) :=
  match cas with
  | [] => Ok acc
  | _ =>
    match fuel with
    | O => Hang
    | S fuel' =>
      if Nat.ltb (length cas) 2 then Err 1
      else
        do b0 <- byte_at cas 0;
        do b1 <- byte_at cas 1;
        let caLen := N.to_nat (u16 b0 b1) in
        do cas1 <- slice_from cas 2;
        if Nat.ltb (length cas1) caLen then Err 1
        else
          do ca <- slice_to cas1 caLen;
          do cas2 <- slice_from cas1 caLen;
          certreq_cas fuel' cas2 (acc ++ [ca])
    end
  end.

(* Err 1 = "return false".  Result: certificateTypes, certificateAuthorities *)
Definition certificateRequestMsgGM_unmarshal (fuel : nat) (data : list byte) : outcome (list byte * list (list byte)) :=
  if Nat.ltb (length data) 5 then Err 1
  else
    do b1 <- byte_at data 1;
    do b2 <- byte_at data 2;
    do b3 <- byte_at data 3;
    (* uint32(len(data))-4 != length *)
    if negb (N.eqb (N.of_nat (length data - 4)) (u24 b1 b2 b3)) then Err 1
    else
      do nt <- byte_at data 4;
      let numCertTypes := N.to_nat nt in
      do data1 <- slice_from data 5;
      if Nat.eqb numCertTypes 0 || Nat.leb (length data1) numCertTypes then Err 1
      else
        (* copy(m.certificateTypes, data) copies min(numCertTypes, len(data)) bytes *)
        let types := firstn numCertTypes data1 in
        if negb (Nat.eqb (length types) numCertTypes) then Err 1
        else
          do data2 <- slice_from data1 numCertTypes;
          if Nat.ltb (length data2) 2 then Err 1
          else
            do c0 <- byte_at data2 0;
            do c1 <- byte_at data2 1;
            let casLength := N.to_nat (u16 c0 c1) in
            do data3 <- slice_from data2 2;
            if Nat.ltb (length data3) casLength then Err 1
            else
              let cas := firstn casLength data3 in      (* make + copy *)
              do data4 <- slice_from data3 casLength;
              do cal <- certreq_cas fuel cas [];
              if Nat.eqb (length data4) 0 then Ok (types, cal) else Err 1.

(* ---- readHandshake: message reassembly --------------------------------------------------------- *)
Definition maxHandshake : N := 65536.
Definition maxPlaintext : N := 16384.

(* readRecord(recordTypeHandshake) as far as the reassembly is concerned: the next record's payload is appended to
   c.hand.  Err 1 = the stream ended; Err 3 = the payload is longer than maxPlaintext (record_overflow). *)
Definition next_record (recs : list (list byte)) : outcome (list byte * list (list byte)) :=
  match recs with
  | [] => Err 1
  | r :: rs => if N.ltb maxPlaintext (N.of_nat (length r)) then Err 3 else Ok (r, rs)
  end.

(* One call.  hand = c.hand (bytes left over from earlier records); recs = payloads of the handshake records still to
   come, in order (an empty list: the stream has ended).  Both "for c.hand.Len() < ..." loops are this recursion:
   each round appends one record.
   Ok (message with its 4-byte header, new hand, remaining records); Err 1 = the stream ended (io.EOF from
   readRecord); Err 2 = length above maxHandshake; Err 3 = oversized record. *)
Fixpoint readHandshake_raw (fuel : nat) (hand : list byte) (recs : list (list byte))
  : outcome (list byte * list byte * list (list byte)) :=
  match fuel with
  | O => Hang
  | S fuel' =>
    if Nat.ltb (length hand) 4 then
      do '(r, rs) <- next_record recs;
      readHandshake_raw fuel' (hand ++ r) rs
    else
      do b1 <- byte_at hand 1;
      do b2 <- byte_at hand 2;
      do b3 <- byte_at hand 3;
      let n := u24 b1 b2 b3 in
      if N.ltb maxHandshake n then Err 2
      else if N.ltb (N.of_nat (length hand)) (4 + n) then
        do '(r, rs) <- next_record recs;
        readHandshake_raw fuel' (hand ++ r) rs
      else
        do data <- slice_to hand (N.to_nat (4 + n));
        do rest <- slice_from hand (N.to_nat (4 + n));
        Ok (data, rest, recs)
  end.

(* readHandshake called again and again, as a handshake does; every message type's unmarshal accepts (type 20:
   Finished).  Result: (type, body length) of each message returned and how the sequence stopped
   (1 = end of stream, 2 = too long). *)
Fixpoint read_handshakes (calls : nat) (hand : list byte) (recs : list (list byte)) (acc : list (byte * nat))
  : outcome (list (byte * nat) * nat) :=
  match calls with
  | O => Hang
  | S calls' =>
    match readHandshake_raw (S (length recs)) hand recs with
    | Ok (data, rest, recs') =>
        do ty <- byte_at data 0;
        read_handshakes calls' rest recs' (acc ++ [(ty, length data - 4)])
    | Err e => Ok (acc, e)
    | Panic => Panic
    | Hang => Hang
    end
  end.
