(* Lemmas about the byte-level parser models of HSParsers.v: totality (no Panic, no Hang for every byte string)
   and exact acceptance conditions. *)
From Coq Require Import List NArith Arith Bool Lia ZifyN ZifyNat ZifyBool.
From GmsmVerif Require Import Lib.Outcome HS.HSParsers.
Import ListNotations.

Lemma byte_at_lt : forall b i, i < length b -> byte_at b i = Ok (nth i b 0%N).
Proof.
  intros b i H. unfold byte_at.
  destruct (nth_error b i) eqn:E.
  - rewrite (nth_error_nth _ _ _ E). reflexivity.
  - apply nth_error_None in E. lia.
Qed.

Lemma slice_from_le : forall b i, i <= length b -> slice_from b i = Ok (skipn i b).
Proof. intros b i H. unfold slice_from. destruct (Nat.leb_spec i (length b)); [reflexivity|lia]. Qed.

Lemma slice_to_le : forall b i, i <= length b -> slice_to b i = Ok (firstn i b).
Proof. intros b i H. unfold slice_to. destruct (Nat.leb_spec i (length b)); [reflexivity|lia]. Qed.

(* ---- ClientKeyExchange / ServerKeyExchange length logic --------------------------------------- *)
Lemma ecc_ckx_prefix_spec : forall ct,
  ecc_ckx_prefix ct =
    if Nat.leb 2 (length ct) && N.eqb (u16 (nth 0 ct 0%N) (nth 1 ct 0%N)) (N.of_nat (length ct - 2))
    then Ok (skipn 2 ct) else Err 1.
Proof.
  intros ct. unfold ecc_ckx_prefix.
  destruct (Nat.ltb_spec (length ct) 2) as [H|H].
  - destruct (Nat.leb_spec 2 (length ct)); [lia|reflexivity].
  - destruct (Nat.leb_spec 2 (length ct)); [|lia].
    rewrite (byte_at_lt ct 0) by lia. rewrite (byte_at_lt ct 1) by lia. cbn [obind andb].
    destruct (N.eqb _ _); cbn [negb]; [apply slice_from_le; lia|reflexivity].
Qed.

Lemma ecc_skx_prefix_spec : forall key,
  ecc_skx_prefix key =
    if Nat.ltb 2 (length key) && N.eqb (u16 (nth 0 key 0%N) (nth 1 key 0%N) + 2) (N.of_nat (length key))
    then Ok (skipn 2 key) else Err 1.
Proof.
  intros key. unfold ecc_skx_prefix.
  destruct (Nat.leb_spec (length key) 2) as [H|H].
  - destruct (Nat.ltb_spec 2 (length key)); [lia|reflexivity].
  - destruct (Nat.ltb_spec 2 (length key)); [|lia].
    rewrite (byte_at_lt key 0) by lia. rewrite (byte_at_lt key 1) by lia. cbn [obind andb].
    destruct (N.eqb _ _); cbn [negb]; [apply slice_from_le; lia|reflexivity].
Qed.

Lemma ecc_ckx_prefix_total : forall ct, no_crash (ecc_ckx_prefix ct).
Proof. intros ct. rewrite ecc_ckx_prefix_spec. destruct (_ && _); exact I. Qed.

Lemma ecc_skx_prefix_total : forall key, no_crash (ecc_skx_prefix key).
Proof. intros key. rewrite ecc_skx_prefix_spec. destruct (_ && _); exact I. Qed.

(* ---- certificateRequestMsgGM.unmarshal ------------------------------------------------------------ *)
Lemma certreq_cas_total : forall fuel cas acc, length cas <= fuel -> no_crash (certreq_cas fuel cas acc).
Proof.
  induction fuel as [|fuel IH]; intros cas acc Hl.
  - destruct cas; [exact I|cbn in Hl; lia].
  - destruct cas as [|c0 cas']; [exact I|].
    cbn [certreq_cas]. remember (c0 :: cas') as cas eqn:Ecas.
    destruct (Nat.ltb_spec (length cas) 2) as [H2|H2]; [exact I|].
    rewrite (byte_at_lt cas 0) by lia. rewrite (byte_at_lt cas 1) by lia. cbn [obind].
    rewrite (slice_from_le cas 2) by lia. cbn [obind].
    set (caLen := N.to_nat (u16 (nth 0 cas 0%N) (nth 1 cas 0%N))).
    assert (Hs : length (skipn 2 cas) = length cas - 2) by apply skipn_length.
    destruct (Nat.ltb_spec (length (skipn 2 cas)) caLen) as [H3|H3]; [exact I|].
    rewrite slice_to_le by lia. rewrite slice_from_le by lia. cbn [obind].
    apply IH. rewrite skipn_length. lia.
Qed.

Lemma certreq_unmarshal_total : forall fuel data, length data <= fuel ->
  no_crash (certificateRequestMsgGM_unmarshal fuel data).
Proof.
  intros fuel data Hf. unfold certificateRequestMsgGM_unmarshal.
  destruct (Nat.ltb_spec (length data) 5) as [H5|H5]; [exact I|].
  rewrite (byte_at_lt data 1) by lia. rewrite (byte_at_lt data 2) by lia. rewrite (byte_at_lt data 3) by lia.
  cbn [obind].
  destruct (N.eqb _ _); cbn [negb]; [|exact I].
  rewrite (byte_at_lt data 4) by lia. cbn [obind].
  rewrite (slice_from_le data 5) by lia. cbn [obind].
  set (nt := N.to_nat (nth 4 data 0%N)).
  assert (Hd1 : length (skipn 5 data) = length data - 5) by apply skipn_length.
  destruct (Nat.eqb nt 0 || Nat.leb (length (skipn 5 data)) nt) eqn:E1; [exact I|].
  apply orb_false_iff in E1. destruct E1 as [_ E1]. apply Nat.leb_gt in E1.
  rewrite firstn_length. rewrite Nat.min_l by lia. rewrite Nat.eqb_refl. cbn [negb].
  rewrite slice_from_le by lia. cbn [obind].
  set (d2 := skipn nt (skipn 5 data)).
  assert (Hd2 : length d2 = length data - 5 - nt) by (unfold d2; rewrite skipn_length; lia).
  destruct (Nat.ltb_spec (length d2) 2) as [H2|H2]; [exact I|].
  rewrite (byte_at_lt d2 0) by lia. rewrite (byte_at_lt d2 1) by lia. cbn [obind].
  rewrite (slice_from_le d2 2) by lia. cbn [obind].
  set (casLength := N.to_nat (u16 (nth 0 d2 0%N) (nth 1 d2 0%N))).
  assert (Hd3 : length (skipn 2 d2) = length d2 - 2) by apply skipn_length.
  destruct (Nat.ltb_spec (length (skipn 2 d2)) casLength) as [H3|H3]; [exact I|].
  rewrite slice_from_le by lia. cbn [obind].
  pose proof (certreq_cas_total fuel (firstn casLength (skipn 2 d2)) []) as Hc.
  assert (Hlen : length (firstn casLength (skipn 2 d2)) <= fuel) by (rewrite firstn_length; lia).
  specialize (Hc Hlen).
  destruct (certreq_cas fuel (firstn casLength (skipn 2 d2)) []); cbn [obind]; try exact Hc.
  destruct (Nat.eqb _ 0); exact I.
Qed.

(* ---- readHandshake -------------------------------------------------------------------------------- *)
Lemma readHandshake_raw_total : forall fuel hand recs, length recs < fuel ->
  no_crash (readHandshake_raw fuel hand recs).
Proof.
  induction fuel as [|fuel IH]; intros hand recs Hf; [lia|].
  cbn [readHandshake_raw].
  destruct (Nat.ltb_spec (length hand) 4) as [H4|H4].
  - destruct recs as [|r rs]; [exact I|]. cbn [next_record]. destruct (N.ltb _ _); [exact I|]. cbn [obind].
    apply IH. cbn in Hf. lia.
  - rewrite (byte_at_lt hand 1) by lia. rewrite (byte_at_lt hand 2) by lia. rewrite (byte_at_lt hand 3) by lia.
    cbn [obind].
    destruct (N.ltb_spec maxHandshake (u24 (nth 1 hand 0%N) (nth 2 hand 0%N) (nth 3 hand 0%N))) as [Hm|Hm]; [exact I|].
    destruct (N.ltb_spec (N.of_nat (length hand)) (4 + u24 (nth 1 hand 0%N) (nth 2 hand 0%N) (nth 3 hand 0%N))) as [Hn|Hn].
    + destruct recs as [|r rs]; [exact I|]. cbn [next_record]. destruct (N.ltb maxPlaintext _); [exact I|]. cbn [obind].
      apply IH. cbn in Hf. lia.
    + rewrite slice_to_le by lia. rewrite slice_from_le by lia. exact I.
Qed.

(* a returned message has at least its 4-byte header, is a prefix of what was buffered, and no record is lost *)
Lemma readHandshake_raw_ok : forall fuel hand recs data rest recs',
  readHandshake_raw fuel hand recs = Ok (data, rest, recs') ->
  4 <= length data /\ exists used, recs = used ++ recs' /\ data ++ rest = hand ++ concat used.
Proof.
  induction fuel as [|fuel IH]; intros hand recs data rest recs' H; [discriminate|].
  cbn [readHandshake_raw] in H.
  destruct (Nat.ltb_spec (length hand) 4) as [H4|H4].
  - destruct recs as [|r rs]; [discriminate|]. cbn [next_record] in H. destruct (N.ltb _ _); [discriminate|]. cbn [obind] in H.
    apply IH in H. destruct H as [Hd [used [Hr Hc]]].
    split; [exact Hd|]. exists (r :: used). split; [cbn; rewrite Hr; reflexivity|].
    cbn [concat]. rewrite Hc. rewrite app_assoc. reflexivity.
  - rewrite (byte_at_lt hand 1) in H by lia. rewrite (byte_at_lt hand 2) in H by lia.
    rewrite (byte_at_lt hand 3) in H by lia. cbn [obind] in H.
    destruct (N.ltb_spec maxHandshake (u24 (nth 1 hand 0%N) (nth 2 hand 0%N) (nth 3 hand 0%N))) as [Hm|Hm]; [discriminate|].
    destruct (N.ltb_spec (N.of_nat (length hand)) (4 + u24 (nth 1 hand 0%N) (nth 2 hand 0%N) (nth 3 hand 0%N))) as [Hn|Hn].
    + destruct recs as [|r rs]; [discriminate|]. cbn [next_record] in H. destruct (N.ltb maxPlaintext _); [discriminate|].
      cbn [obind] in H.
      apply IH in H. destruct H as [Hd [used [Hr Hc]]].
      split; [exact Hd|]. exists (r :: used). split; [cbn; rewrite Hr; reflexivity|].
      cbn [concat]. rewrite Hc. rewrite app_assoc. reflexivity.
    + remember (N.to_nat (4 + u24 (nth 1 hand 0%N) (nth 2 hand 0%N) (nth 3 hand 0%N))) as k eqn:Ek.
      assert (Hk : 4 <= k <= length hand) by lia.
      rewrite slice_to_le in H by lia. rewrite slice_from_le in H by lia. cbn [obind] in H.
      injection H as <- <- <-.
      split; [rewrite firstn_length; lia|].
      exists []. split; [reflexivity|]. cbn [concat]. rewrite app_nil_r. apply firstn_skipn.
Qed.

Definition total_len (hand : list N) (recs : list (list N)) : nat := length hand + length (concat recs).

Lemma read_handshakes_total : forall calls hand recs acc, total_len hand recs < calls ->
  no_crash (read_handshakes calls hand recs acc).
Proof.
  induction calls as [|calls IH]; intros hand recs acc Hc; [lia|].
  cbn [read_handshakes].
  pose proof (readHandshake_raw_total (S (length recs)) hand recs (Nat.lt_succ_diag_r _)) as Ht.
  destruct (readHandshake_raw (S (length recs)) hand recs) as [[[data rest] recs']| | |] eqn:E; try exact Ht; try exact I.
  apply readHandshake_raw_ok in E. destruct E as [Hd [used [Hr Hcc]]].
  rewrite (byte_at_lt data 0) by lia. cbn [obind].
  apply IH. unfold total_len in *.
  assert (length data + length rest = length hand + length (concat used)).
  { rewrite <- !app_length. rewrite Hcc. reflexivity. }
  rewrite Hr in Hc. rewrite concat_app, app_length in Hc. lia.
Qed.
