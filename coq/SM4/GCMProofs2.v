(* Proofs about the model of sm4_gcm.go, second part: J0, the counter, GCTR, GCM-AE / GCM-AD, the round
   trip and the tag.  Property theorems are restated in Props/C12.v. *)
From Coq Require Import List NArith Arith Bool Lia ZifyN ZifyNat ZifyBool Btauto.
From GmsmVerif Require Import Lib.Outcome SM4.SM4Spec SM4.SM4Lemmas SM4.ModesSpec SM4.ModesModel SM4.ModesProofs
  SM4.GCMSpec SM4.GCMField SM4.GCMModel SM4.GCMProofs.
Import ListNotations.
Local Open Scope nat_scope.

(* ---------- J0 ---------------------------------------------------------------------------------------------- *)
Lemma GetY0_spec H IV : blk16 H -> bytes_ok IV = true ->
  GetY0 H IV = (if Nat.eqb (length IV) 12 then IV ++ [0; 0; 0; 1]%N
                else ghash H (pad0 IV ++ repeat 0%N 8 ++ len64 IV)) /\
  blk16 (GetY0 H IV).
Proof.
  intros HH Hb. unfold GetY0.
  destruct (Nat.eqb_spec (length IV * 8) 96) as [E|E]; destruct (Nat.eqb_spec (length IV) 12) as [E'|E']; try lia.
  - split; [reflexivity|]. split; [rewrite app_length, E'; reflexivity|].
    rewrite bytes_ok_app, Hb. reflexivity.
  - destruct (GHASH_spec H [] IV HH eq_refl Hb) as [H1 H2]. split; [|exact H2]. rewrite H1. reflexivity.
Qed.

Fixpoint iterf {A} (n : nat) (f : A -> A) (x : A) : A :=
  match n with O => x | S n' => f (iterf n' f x) end.

Lemma iterf_succ_r {A} n (f : A -> A) : forall x, iterf (S n) f x = iterf n f (f x).
Proof. induction n as [|n IH]; intros x; [reflexivity|]. cbn [iterf] in *. rewrite IH. reflexivity. Qed.

(* ---------- the counter ------------------------------------------------------------------------------------- *)
Lemma addYone_inc32 y : blk16 y -> addYone y = inc32 y /\ blk16 (inc32 y).
Proof.
  intros [Hl Hb].
  pose proof (fun i => bytes_ok_nth y i Hb) as Hn.
  list16 y Hl.
  pose proof (Hn 12); pose proof (Hn 13); pose proof (Hn 14); pose proof (Hn 15). cbn [nth] in *.
  assert (E : addYone [n; n0; n1; n2; n3; n4; n5; n6; n7; n8; n9; n10; n11; n12; n13; n14] =
              inc32 [n; n0; n1; n2; n3; n4; n5; n6; n7; n8; n9; n10; n11; n12; n13; n14]).
  { unfold addYone, inc32. cbn [length Nat.sub firstn skipn rev app carry_inc].
    cbn [int_of_bytes fold_left bytes_of_int app]. change (2 ^ 32)%N with 4294967296%N.
    destruct (N.eqb_spec ((n14 + 1) mod 256) 0) as [E1|E1].
    - destruct (N.eqb_spec ((n13 + 1) mod 256) 0) as [E2|E2].
      + destruct (N.eqb_spec ((n12 + 1) mod 256) 0) as [E3|E3].
        * destruct (N.eqb_spec ((n11 + 1) mod 256) 0) as [E4|E4];
            cbn [rev app]; repeat (f_equal; try lia).
        * cbn [rev app]; repeat (f_equal; try lia).
      + cbn [rev app]; repeat (f_equal; try lia).
    - cbn [rev app]; repeat (f_equal; try lia). }
  split; [exact E|]. rewrite <- E.
  split.
  - unfold inc32 in E. rewrite E. unfold inc32. rewrite app_length, bytes_of_int_length. reflexivity.
  - rewrite E. unfold inc32. rewrite bytes_ok_app, bytes_of_int_ok, andb_true_r.
    apply bytes_ok_firstn. exact Hb.
Qed.

Lemma iter_inc i : forall y, blk16 y -> iterf i addYone y = iterf i inc32 y /\ blk16 (iterf i inc32 y).
Proof.
  induction i as [|i IH]; intros y Hy; [split; [reflexivity|exact Hy]|].
  cbn [iterf]. destruct (IH y Hy) as [H1 H2]. rewrite H1.
  destruct (addYone_inc32 _ H2) as [H3 H4]. split; assumption.
Qed.

Lemma nth_incr_from n : forall i y, i < n -> nth i (incr_from n y) [] = iterf i addYone y.
Proof.
  induction n as [|n IH]; intros i y Hi; [lia|].
  destruct i as [|i]; [reflexivity|].
  cbn [incr_from nth]. rewrite IH by lia. symmetry. apply iterf_succ_r.
Qed.

Lemma nth_incr n i Y0 : blk16 Y0 -> i < n ->
  nth i (incr n Y0) [] = iterf i inc32 Y0 /\ blk16 (iterf i inc32 Y0).
Proof.
  intros HY Hi. unfold incr. rewrite copy16_id by apply HY. rewrite nth_incr_from by exact Hi.
  apply iter_inc. exact HY.
Qed.

(* ---------- GCTR -------------------------------------------------------------------------------------------- *)
(* closed form of the specification's GCTR over an indexed family of blocks *)
Lemma gctr_blocks_map (CIPH : list N -> list N) (f : nat -> list N) k : forall s cb,
  gctr_blocks CIPH cb (map f (seq s k)) =
  map (fun j => xor_bytes (f j) (CIPH (iterf (j - s) inc32 cb))) (seq s k).
Proof.
  induction k as [|k IH]; intros s cb; [reflexivity|].
  rewrite <- cons_seq, !map_cons. cbn [gctr_blocks]. rewrite Nat.sub_diag. cbn [iterf]. f_equal.
  rewrite IH. apply map_ext_in. intros j Hj. apply in_seq in Hj.
  replace (j - s) with (S (j - S s)) by lia. rewrite iterf_succ_r. reflexivity.
Qed.


(* ---------- GCTR is an involution ------------------------------------------------------------------------ *)
Lemma xor_bytes_app a : forall k b r, length a = length k ->
  xor_bytes (a ++ b) (k ++ r) = xor_bytes a k ++ xor_bytes b r.
Proof.
  induction a as [|x a IH]; intros [|y k] b r Hl; try discriminate; [reflexivity|].
  cbn [app xor_bytes]. rewrite IH by (cbn in Hl; lia). reflexivity.
Qed.

Lemma xor_bytes_short a : forall k r, length a <= length k -> xor_bytes a (k ++ r) = xor_bytes a k.
Proof.
  induction a as [|x a IH]; intros [|y k] r Hl; try reflexivity; [cbn in Hl; lia|].
  cbn [app xor_bytes]. rewrite IH by (cbn in Hl; lia). reflexivity.
Qed.

Lemma xor_bytes_nil_r a : xor_bytes a [] = [].
Proof. destruct a; reflexivity. Qed.

Lemma keystream_form n : forall X (Kf : nat -> list N), (forall j, length (Kf j) = 16) -> cdiv (length X) <= n ->
  concat (map (fun j => xor_bytes (blk X j) (Kf j)) (seq 0 n)) = xor_bytes X (concat (map Kf (seq 0 n))).
Proof.
  induction n as [|n IH]; intros X Kf HK Hn.
  - destruct X; [reflexivity|]. unfold cdiv in Hn. cbn [length] in Hn. lia.
  - rewrite <- cons_seq, !map_cons. cbn [concat].
    rewrite <- seq_shift, !map_map.
    rewrite (map_ext (fun j => xor_bytes (blk X (S j)) (Kf (S j))) (fun j => xor_bytes (blk (skipn 16 X) j) (Kf (S j))))
      by (intros j; rewrite blk_skipn; reflexivity).
    rewrite (IH (skipn 16 X) (fun j => Kf (S j))) by (try (intros j; apply HK); rewrite skipn_length; unfold cdiv in *; lia).
    replace (blk X 0) with (firstn 16 X) by (unfold blk; rewrite Nat.mul_0_r; reflexivity).
    destruct (Nat.le_gt_cases 16 (length X)) as [Hge|Hlt].
    + rewrite <- (firstn_skipn 16 X) at 3. rewrite xor_bytes_app; [reflexivity|].
      rewrite firstn_length, HK. lia.
    + rewrite (skipn_all2 X) by lia. cbn [xor_bytes].
      rewrite firstn_all2 by lia. rewrite app_nil_r. symmetry. apply xor_bytes_short. rewrite HK. lia.
Qed.

Section Cipher.
  Variable E : list N -> list N -> list N.
  Hypothesis E_len : forall k b, length (E k b) = 16.
  Hypothesis E_ok : forall k b, bytes_ok (E k b) = true.

  Lemma block_call_16 key src : length src = 16 -> block_call E key src = Ok (E key src).
  Proof. intros H. unfold block_call. apply block_call_ok. exact H. Qed.

  Lemma E_blk16 k b : blk16 (E k b).
  Proof. split; [apply E_len|apply E_ok]. Qed.

  Lemma ctr_loop_spec key Y P k : forall i out,
    (forall j, i <= j < i + k -> length (nth j Y []) = 16 /\ length (blk P (j - 1)) = 16) ->
    ctr_loop E k i key Y P out =
      Ok (out ++ concat (map (fun j => xor_bytes (blk P (j - 1)) (E key (nth j Y []))) (seq i k))).
  Proof.
    induction k as [|k IH]; intros i out Hj.
    - cbn. rewrite app_nil_r. reflexivity.
    - cbn [ctr_loop]. destruct (Hj i ltac:(lia)) as [H1 H2].
      rewrite block_call_16 by exact H1. cbn [obind].
      rewrite addition_eq by (rewrite H2, E_len; reflexivity).
      assert (Hx : length (xor_bytes (blk P (i - 1)) (E key (nth i Y []))) = 16)
        by (rewrite xor_bytes_length; rewrite H2; [reflexivity|rewrite E_len; reflexivity]).
      fold (zeros 16). change (firstn 16 (?x ++ zeros 16)) with (slot16 x). rewrite slot16_id by exact Hx.
      rewrite IH by (intros j Hjj; apply Hj; lia).
      rewrite <- cons_seq, map_cons. cbn [concat]. rewrite app_assoc. reflexivity.
  Qed.

  Lemma xor_bytes_firstn_r a : forall b, xor_bytes a (firstn (length a) b) = xor_bytes a b.
  Proof.
    induction a as [|x a IH]; intros [|y b]; try reflexivity. cbn [length firstn xor_bytes]. rewrite IH. reflexivity.
  Qed.

  Lemma ctr_crypt_spec key Y0 P : blk16 Y0 -> ctr_crypt E key Y0 P = Ok (gctr (E key) (inc32 Y0) P).
  Proof.
    intros HY. unfold ctr_crypt, gctr.
    destruct P as [|p0 P'] eqn:EP.
    - (* empty input: n = 1, u = 0 *)
      cbn [length]. rewrite calculm_v_zero. cbn [Nat.sub ctr_loop obind Nat.add].
      destruct (nth_incr 2 1 Y0 HY ltac:(lia)) as [H1 [H2 _]]. rewrite H1.
      rewrite block_call_16 by exact H2. cbn [obind]. unfold MSB. cbn [Nat.div Nat.divmod fst Nat.leb firstn obind].
      reflexivity.
    - rewrite <- EP in *.
      assert (Hl : 1 <= length P) by (rewrite EP; cbn [length]; lia).
      destruct (calculm_v_pos (length P) Hl) as (n & t & -> & Hn & Ht & Hlen & _ & Hc).
      rewrite blocks_gen, <- Hc.
      rewrite ctr_loop_spec.
      2:{ intros j Hj. destruct (nth_incr (n + 1) j Y0 HY ltac:(lia)) as [H1 [H2 _]]. rewrite H1. split; [exact H2|].
          unfold blk. rewrite firstn_length, skipn_length. lia. }
      cbn [obind app].
      destruct (nth_incr (n + 1) n Y0 HY ltac:(lia)) as [H1 [H2 _]]. rewrite H1.
      rewrite block_call_16 by exact H2. cbn [obind].
      unfold MSB. rewrite E_len. replace (8 * t / 8) with t by lia.
      rewrite (proj2 (Nat.leb_le t 16)) by lia. cbn [obind].
      set (tail := skipn ((n - 1) * BlockSize) P).
      assert (Htl : length tail = t) by (unfold tail, BlockSize; rewrite skipn_length; lia).
      rewrite addition_eq by (rewrite firstn_length, E_len, Htl; lia).
      rewrite <- Htl at 1. rewrite xor_bytes_firstn_r.
      assert (Hxl : length (xor_bytes tail (E key (iterf n inc32 Y0))) = length tail).
      { clear - E_len Htl Ht. revert Htl. generalize (E key (iterf n inc32 Y0)) (E_len key (iterf n inc32 Y0)).
        intros e He Htl. assert (Hle : length tail <= length e) by lia. clear - Hle.
        revert e Hle. induction tail as [|x tl IH]; intros [|y e] Hle; cbn [length xor_bytes] in *; try lia.
        rewrite IH by lia. reflexivity. }
      rewrite firstn_app, Hxl, Nat.sub_diag, firstn_O, app_nil_r. rewrite <- Hxl, firstn_all.
      f_equal.
      (* the specification side: blocks 0 .. n-2 are full, block n-1 is the tail *)
      rewrite gctr_blocks_map.
      assert (Hs : seq 0 n = seq 0 (n - 1) ++ [n - 1]).
      { replace n with (S (n - 1)) at 1 by lia. rewrite seq_S. reflexivity. }
      rewrite Hs, map_app, concat_app. cbn [map concat]. rewrite app_nil_r. f_equal.
      + rewrite <- seq_shift, map_map. f_equal. apply map_ext_in. intros j Hj. apply in_seq in Hj.
        replace (S j - 1) with j by lia. replace (j - 0) with j by lia.
        destruct (nth_incr (n + 1) (S j) Y0 HY ltac:(lia)) as [-> _]. rewrite iterf_succ_r. reflexivity.
      + replace (n - 1 - 0) with (n - 1) by lia. f_equal.
        * unfold blk, tail, BlockSize. rewrite firstn_all2; [f_equal; lia|]. rewrite skipn_length. lia.
        * f_equal. rewrite <- iterf_succ_r. f_equal. lia.
  Qed.
End Cipher.

(* ---------- the tag, GCM-AE, GCM-AD ---------------------------------------------------------------------- *)
Lemma xor_bytes_comm a : forall b, xor_bytes a b = xor_bytes b a.
Proof. induction a as [|x a IH]; intros [|y b]; try reflexivity. cbn. rewrite IH, N.lxor_comm. reflexivity. Qed.

Lemma gctr_single CIPH icb S : length S = 16 -> length (CIPH icb) = 16 ->
  firstn 16 (gctr CIPH icb S) = xor_bytes S (CIPH icb).
Proof.
  intros HS HC. unfold gctr. rewrite blocks_single by exact HS. cbn [gctr_blocks concat]. rewrite app_nil_r.
  apply firstn_all2. rewrite xor_bytes_length; rewrite HS; [lia|rewrite HC; reflexivity].
Qed.

Lemma gctr_blocks_ok CIPH xs : (forall b, bytes_ok (CIPH b) = true) -> Forall (fun x => bytes_ok x = true) xs ->
  forall cb, bytes_ok (concat (gctr_blocks CIPH cb xs)) = true.
Proof.
  intros HC. induction 1 as [|x xs Hx HF IH]; intros cb; [reflexivity|].
  cbn [gctr_blocks concat]. rewrite bytes_ok_app, IH, andb_true_r. apply xor_bytes_ok; [exact Hx|apply HC].
Qed.

Lemma gctr_ok CIPH icb X : (forall b, bytes_ok (CIPH b) = true) -> bytes_ok X = true -> bytes_ok (gctr CIPH icb X) = true.
Proof.
  intros HC HX. unfold gctr. apply gctr_blocks_ok; [exact HC|].
  rewrite blocks_gen. apply Forall_forall. intros b Hin. apply in_map_iff in Hin as (j & <- & _). apply blk_ok, HX.
Qed.

Section Cipher2.
  Variable E : list N -> list N -> list N.
  Hypothesis E_len : forall k b, length (E k b) = 16.
  Hypothesis E_ok : forall k b, bytes_ok (E k b) = true.

  Lemma GetH_spec K : length K = 16 -> GetH E K = Ok (hash_key (E K)) /\ blk16 (hash_key (E K)).
  Proof.
    intros HK. unfold GetH, BlockSize. rewrite HK. cbn [Nat.eqb negb].
    rewrite block_call_16 by apply repeat_length. split; [reflexivity|]. apply E_blk16; assumption.
  Qed.

  Lemma GetY0_J0 K IV : bytes_ok IV = true ->
    GetY0 (hash_key (E K)) IV = J0 (E K) IV /\ blk16 (J0 (E K) IV).
  Proof.
    intros HIV. destruct (GetY0_spec (hash_key (E K)) IV (E_blk16 E E_len E_ok K _) HIV) as [H1 H2].
    assert (HJ : GetY0 (hash_key (E K)) IV = J0 (E K) IV) by (rewrite H1; reflexivity).
    split; [exact HJ|]. rewrite <- HJ. exact H2.
  Qed.

  Lemma tag_of_spec K IV A C : bytes_ok IV = true -> bytes_ok A = true -> bytes_ok C = true ->
    tag_of E K (hash_key (E K)) (J0 (E K) IV) A C = Ok (gcm_tag (E K) IV A C).
  Proof.
    intros HIV HA HC. unfold tag_of, gcm_tag.
    destruct (GetY0_J0 K IV HIV) as [_ HJ].
    rewrite block_call_16 by apply HJ. cbn [obind].
    destruct (GHASH_spec (hash_key (E K)) A C (E_blk16 E E_len E_ok K _) HA HC) as [HG1 [HG2 HG3]].
    rewrite addition_eq by (rewrite E_len, HG2; reflexivity).
    unfold MSB. rewrite xor_bytes_length by (rewrite E_len, HG2; reflexivity). rewrite E_len.
    cbn [Nat.div Nat.divmod fst Nat.leb obind].
    fold (ghash_input A C). rewrite <- HG1.
    rewrite gctr_single by (try apply E_len; exact HG2).
    f_equal. rewrite xor_bytes_comm.
    apply firstn_all2. rewrite xor_bytes_length; rewrite HG2; [lia|rewrite E_len; reflexivity].
  Qed.

  Lemma GCMEncrypt_spec K IV P A : length K = 16 -> bytes_ok IV = true -> bytes_ok P = true -> bytes_ok A = true ->
    GCMEncrypt E K IV P A = Ok (gcm_ae (E K) IV P A).
  Proof.
    intros HK HIV HP HA. unfold GCMEncrypt, gcm_ae.
    destruct (GetH_spec K HK) as [-> HH]. cbn [obind].
    destruct (GetY0_J0 K IV HIV) as [-> HJ].
    rewrite ctr_crypt_spec by assumption. cbn [obind].
    rewrite tag_of_spec by (first [assumption|apply gctr_ok; [intros b; apply E_ok|exact HP]]). reflexivity.
  Qed.

  Lemma GCMDecrypt_spec K IV C A : length K = 16 -> bytes_ok IV = true -> bytes_ok C = true -> bytes_ok A = true ->
    GCMDecrypt E K IV C A = Ok (gctr (E K) (inc32 (J0 (E K) IV)) C, gcm_tag (E K) IV A C).
  Proof.
    intros HK HIV HC HA. unfold GCMDecrypt.
    destruct (GetH_spec K HK) as [-> HH]. cbn [obind].
    destruct (GetY0_J0 K IV HIV) as [-> HJ].
    rewrite tag_of_spec by assumption. cbn [obind].
    rewrite ctr_crypt_spec by assumption. reflexivity.
  Qed.

End Cipher2.

Lemma xor_bytes_length_le a : forall b, length a <= length b -> length (xor_bytes a b) = length a.
Proof.
  induction a as [|x a IH]; intros [|y b] H; try reflexivity; [cbn in H; lia|].
  cbn [xor_bytes length]. rewrite IH by (cbn in H; lia). reflexivity.
Qed.

Lemma xor_bytes_invol_le a : forall k, length a <= length k -> xor_bytes (xor_bytes a k) k = a.
Proof.
  induction a as [|x a IH]; intros [|y k] H; try reflexivity; [cbn in H; lia|].
  cbn [xor_bytes]. rewrite IH by (cbn in H; lia).
  rewrite N.lxor_assoc, N.lxor_nilpotent, N.lxor_0_r. reflexivity.
Qed.

Section Cipher3.
  Variable CIPH : list N -> list N.
  Hypothesis C_len : forall b, length (CIPH b) = 16.

  Definition keystream (icb : list N) (n : nat) : list N :=
    concat (map (fun j => CIPH (iterf (j - 0) inc32 icb)) (seq 0 n)).

  Lemma keystream_length icb n : length (keystream icb n) = 16 * n.
  Proof.
    unfold keystream. rewrite concat_len16.
    - rewrite map_length, seq_length. reflexivity.
    - apply Forall_forall. intros b Hin. apply in_map_iff in Hin as (j & <- & _). apply C_len.
  Qed.

  Lemma gctr_as_xor icb X : gctr CIPH icb X = xor_bytes X (keystream icb (cdiv (length X))).
  Proof.
    unfold gctr, keystream. rewrite blocks_gen, gctr_blocks_map.
    apply (keystream_form (cdiv (length X)) X (fun j => CIPH (iterf (j - 0) inc32 icb))); [intros j; apply C_len|lia].
  Qed.

  Lemma gctr_length icb X : length (gctr CIPH icb X) = length X.
  Proof.
    rewrite gctr_as_xor. apply xor_bytes_length_le. rewrite keystream_length. unfold cdiv. lia.
  Qed.

  Lemma gctr_invol icb X : gctr CIPH icb (gctr CIPH icb X) = X.
  Proof.
    rewrite (gctr_as_xor icb (gctr CIPH icb X)), gctr_length, gctr_as_xor.
    apply xor_bytes_invol_le. rewrite keystream_length. unfold cdiv. lia.
  Qed.
End Cipher3.

Section Cipher4.
  Variable E : list N -> list N -> list N.
  Hypothesis E_len : forall k b, length (E k b) = 16.
  Hypothesis E_ok : forall k b, bytes_ok (E k b) = true.

  Lemma GCM_roundtrip K IV P A C T :
    length K = 16 -> bytes_ok IV = true -> bytes_ok P = true -> bytes_ok A = true ->
    GCMEncrypt E K IV P A = Ok (C, T) -> GCMDecrypt E K IV C A = Ok (P, T).
  Proof.
    intros HK HIV HP HA. rewrite (GCMEncrypt_spec E E_len E_ok K IV P A HK HIV HP HA). unfold gcm_ae.
    intros [= <- <-].
    rewrite (GCMDecrypt_spec E E_len E_ok K IV _ A HK HIV (gctr_ok _ _ _ (E_ok K) HP) HA).
    rewrite (gctr_invol (E K) (E_len K)). reflexivity.
  Qed.

  (* the tag is E(K, J0) xor GHASH_H(A, C) *)
  Lemma gcm_tag_form K IV A C : bytes_ok IV = true -> bytes_ok A = true -> bytes_ok C = true ->
    gcm_tag (E K) IV A C = xor_bytes (ghash (hash_key (E K)) (ghash_input A C)) (E K (J0 (E K) IV)) /\
    length (ghash (hash_key (E K)) (ghash_input A C)) = 16.
  Proof.
    intros HIV HA HC.
    destruct (GHASH_spec (hash_key (E K)) A C (E_blk16 E E_len E_ok K _) HA HC) as [HG1 [HG2 HG3]].
    rewrite HG1 in HG2. split; [|exact HG2].
    unfold gcm_tag. fold (ghash_input A C). apply gctr_single; [exact HG2|apply E_len].
  Qed.

  Lemma tag_eq_iff K IV A C A' C' : bytes_ok IV = true ->
    bytes_ok A = true -> bytes_ok C = true -> bytes_ok A' = true -> bytes_ok C' = true ->
    (gcm_tag (E K) IV A C = gcm_tag (E K) IV A' C' <->
     ghash (hash_key (E K)) (ghash_input A C) = ghash (hash_key (E K)) (ghash_input A' C')).
  Proof.
    intros HIV HA HC HA' HC'.
    destruct (gcm_tag_form K IV A C HIV HA HC) as [-> L1].
    destruct (gcm_tag_form K IV A' C' HIV HA' HC') as [-> L2].
    split; [|intros ->; reflexivity].
    intros H. apply (f_equal (fun x => xor_bytes x (E K (J0 (E K) IV)))) in H.
    rewrite !xor_bytes_invol in H by (rewrite E_len; assumption). exact H.
  Qed.

  Lemma Sm4GCM_spec key IV in_ A mode :
    (length key <> 16 -> Sm4GCM E key IV in_ A mode = Err 1) /\
    (length key = 16 -> Sm4GCM E key IV in_ A mode = if mode then GCMEncrypt E key IV in_ A else GCMDecrypt E key IV in_ A).
  Proof.
    unfold Sm4GCM, BlockSize. split; intros H.
    - rewrite (proj2 (Nat.eqb_neq _ _) H). reflexivity.
    - rewrite H. reflexivity.
  Qed.
End Cipher4.
