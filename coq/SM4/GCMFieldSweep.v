(* The complete sweep behind the commutativity of the SP 800-38D multiplication: all 128 x 128 pairs of
   basis elements 2^i, 2^j (vm_compute; kept in its own file because it takes about half a minute). *)
From Coq Require Import List NArith Arith Bool.
From GmsmVerif Require Import SM4.GCMSpec.
Import ListNotations.
Local Open Scope N_scope.

Definition pair_ok (ij : nat * nat) : bool :=
  N.eqb (gf_mul (2 ^ N.of_nat (fst ij)) (2 ^ N.of_nat (snd ij))) (gf_mul (2 ^ N.of_nat (snd ij)) (2 ^ N.of_nat (fst ij))).

Definition basis_pairs : list (nat * nat) := list_prod (seq 0 128) (seq 0 128).

Lemma basis_comm_sweep : forallb pair_ok basis_pairs = true.
Proof. vm_cast_no_check (eq_refl true). Qed.

(* reading one entry of the sweep; pair_ok is unfolded first so that the check never evaluates gf_mul *)
Strategy expand [pair_ok].
Lemma pair_ok_sound i j : pair_ok (i, j) = true ->
  gf_mul (2 ^ N.of_nat i) (2 ^ N.of_nat j) = gf_mul (2 ^ N.of_nat j) (2 ^ N.of_nat i).
Proof. intros H. apply N.eqb_eq. exact H. Qed.
