(* Galois/Counter Mode as NIST SP 800-38D defines it, for a 128-bit block cipher given as a function on
   16-byte strings, tag length t = 128, all strings whole bytes.  Never looks at the Go code.

   6.3  multiplication in GF(2^128) (Algorithm 1), R = 11100001 || 0^120
   6.4  GHASH (Algorithm 2)          6.2  inc_32           6.5  GCTR (Algorithm 3)
   7.1  GCM-AE (Algorithm 4)         7.2  GCM-AD (Algorithm 5)

   A block is a 16-byte string.  As an element of GF(2^128) the block x0 x1 ... x127 (x0 the leftmost
   bit, i.e. the most significant bit of the first byte) is the number with binary expansion
   x0 x1 ... x127: bit xi is N.testbit X (127 - i), "V >> 1" is N.shiftr V 1, LSB_1(V) is bit 0. *)
From Coq Require Import List NArith Arith.
From GmsmVerif Require Import SM4.ModesSpec SM4.SM4Spec.
Import ListNotations.

(* ---------- strings and numbers ---------------------------------------------------------------------- *)
(* int(X): the integer a byte string represents, most significant byte first *)
Definition int_of_bytes (l : list byte) : N := fold_left (fun acc b => (acc * 256 + b)%N) l 0%N.
(* [x]_8n: the n-byte string representing x *)
Fixpoint bytes_of_int (n : nat) (x : N) : list byte :=
  match n with
  | O => []
  | S n' => bytes_of_int n' (x / 256)%N ++ [(x mod 256)%N]
  end.

Definition zero_block : list byte := repeat 0%N 16.

(* ---------- 6.3 multiplication (Algorithm 1) --------------------------------------------------------- *)
Definition R : N := (0xe1 * 2 ^ 120)%N.

(* V_{i+1} = V_i >> 1 if LSB_1(V_i) = 0, (V_i >> 1) xor R otherwise *)
Definition mulx (V : N) : N :=
  if N.testbit V 0 then N.lxor (N.shiftr V 1) R else N.shiftr V 1.

(* steps i = 128-k .. 127 of the algorithm: x_i is bit k-1 of X in the first of them *)
Fixpoint mul_loop (k : nat) (X Z V : N) : N :=
  match k with
  | O => Z
  | S k' =>
    let Z' := if N.testbit X (N.of_nat k') then N.lxor Z V else Z in
    mul_loop k' X Z' (mulx V)
  end.

(* X . Y: Z_0 = 0^128, V_0 = Y, return Z_128 *)
Definition gf_mul (X Y : N) : N := mul_loop 128 X 0%N Y.

Definition gf_mul_bytes (X Y : list byte) : list byte :=
  bytes_of_int 16 (gf_mul (int_of_bytes X) (int_of_bytes Y)).

(* ---------- 6.4 GHASH_H(X), len(X) = 128 m ----------------------------------------------------------- *)
(* Y_0 = 0^128, Y_i = (Y_{i-1} xor X_i) . H, return Y_m *)
Definition ghash (H : list byte) (X : list byte) : list byte :=
  fold_left (fun Y Xi => gf_mul_bytes (xor_bytes Y Xi) H) (blocks X) zero_block.

(* ---------- 6.2 inc_32(X) = MSB_96(X) || [int(LSB_32(X)) + 1 mod 2^32]_32 ---------------------------- *)
Definition inc32 (X : list byte) : list byte :=
  firstn 12 X ++ bytes_of_int 4 ((int_of_bytes (skipn 12 X) + 1) mod 2 ^ 32)%N.

(* ---------- 6.5 GCTR_K(ICB, X) -------------------------------------------------------------------------- *)
Section GCM.
  Variable CIPH : list byte -> list byte.      (* CIPH_K on 16-byte blocks *)

  (* CB_1 = ICB, CB_i = inc_32(CB_{i-1}); Y_i = X_i xor CIPH_K(CB_i); the last, possibly partial, block:
     Y_n = X_n xor MSB_len(X_n)(CIPH_K(CB_n)) - xor_bytes stops at the shorter string *)
  Fixpoint gctr_blocks (cb : list byte) (xs : list (list byte)) : list (list byte) :=
    match xs with
    | [] => []
    | x :: r => xor_bytes x (CIPH cb) :: gctr_blocks (inc32 cb) r
    end.
  (* [blocks] cuts X into 16-byte blocks and a final partial one; the empty string gives the empty string *)
  Definition gctr (icb X : list byte) : list byte := concat (gctr_blocks icb (blocks X)).

  (* 0^v with v = 128 * ceil(len/128) - len *)
  Definition pad0 (l : list byte) : list byte := l ++ repeat 0%N ((16 - length l mod 16) mod 16).
  (* [len(X)]_64, the length in BITS *)
  Definition len64 (l : list byte) : list byte := bytes_of_int 8 (8 * N.of_nat (length l))%N.

  Definition hash_key : list byte := CIPH zero_block.                       (* H = CIPH_K(0^128) *)

  (* step 2 of Algorithms 4 and 5 *)
  Definition J0 (iv : list byte) : list byte :=
    if Nat.eqb (length iv) 12 then iv ++ [0; 0; 0; 1]%N
    else ghash hash_key (pad0 iv ++ repeat 0%N 8 ++ len64 iv).         (* IV || 0^(s+64) || [len(IV)]_64 *)

  (* S = GHASH_H(A || 0^v || C || 0^u || [len(A)]_64 || [len(C)]_64), T = MSB_t(GCTR_K(J0, S)), t = 128 *)
  Definition gcm_tag (iv a c : list byte) : list byte :=
    let S := ghash hash_key (pad0 a ++ pad0 c ++ len64 a ++ len64 c) in
    firstn 16 (gctr (J0 iv) S).

  (* 7.1 GCM-AE_K(IV, P, A) = (C, T) *)
  Definition gcm_ae (iv p a : list byte) : list byte * list byte :=
    let c := gctr (inc32 (J0 iv)) p in
    (c, gcm_tag iv a c).

  (* 7.2 GCM-AD_K(IV, C, A, T): the plaintext, or FAIL when the tag does not verify *)
  Definition gcm_ad (iv c a t : list byte) : option (list byte) :=
    if list_eq_dec N.eq_dec t (gcm_tag iv a c) then Some (gctr (inc32 (J0 iv)) c) else None.
End GCM.

(* ---------- test of the transcription: RFC 8998 Appendix A.1 (AEAD_SM4_GCM) -------------------------------- *)
Definition rfc8998_iv : list byte := [0x00; 0x00; 0x12; 0x34; 0x56; 0x78; 0x00; 0x00; 0x00; 0x00; 0xAB; 0xCD]%N.
Definition rfc8998_aad : list byte :=
  [0xFE; 0xED; 0xFA; 0xCE; 0xDE; 0xAD; 0xBE; 0xEF; 0xFE; 0xED; 0xFA; 0xCE; 0xDE; 0xAD; 0xBE; 0xEF; 0xAB; 0xAD; 0xDA; 0xD2]%N.
Definition rfc8998_pt : list byte :=
  (repeat 0xAA 8 ++ repeat 0xBB 8 ++ repeat 0xCC 8 ++ repeat 0xDD 8 ++
   repeat 0xEE 8 ++ repeat 0xFF 8 ++ repeat 0xEE 8 ++ repeat 0xAA 8)%N.
Definition rfc8998_ct : list byte :=
  [0x17; 0xF3; 0x99; 0xF0; 0x8C; 0x67; 0xD5; 0xEE; 0x19; 0xD0; 0xDC; 0x99; 0x69; 0xC4; 0xBB; 0x7D;
   0x5F; 0xD4; 0x6F; 0xD3; 0x75; 0x64; 0x89; 0x06; 0x91; 0x57; 0xB2; 0x82; 0xBB; 0x20; 0x07; 0x35;
   0xD8; 0x27; 0x10; 0xCA; 0x5C; 0x22; 0xF0; 0xCC; 0xFA; 0x7C; 0xBF; 0x93; 0xD4; 0x96; 0xAC; 0x15;
   0xA5; 0x68; 0x34; 0xCB; 0xCF; 0x98; 0xC3; 0x97; 0xB4; 0x02; 0x4A; 0x26; 0x91; 0x23; 0x3B; 0x8D]%N.
Definition rfc8998_tag : list byte :=
  [0x83; 0xDE; 0x35; 0x41; 0xE4; 0xC2; 0xB5; 0x81; 0x77; 0xE0; 0x65; 0xA9; 0xBF; 0x7B; 0x62; 0xEC]%N.

Example gcm_sm4_rfc8998 :
  gcm_ae (sm4_encrypt_block A1_key) rfc8998_iv rfc8998_pt rfc8998_aad = (rfc8998_ct, rfc8998_tag) /\
  gcm_ad (sm4_encrypt_block A1_key) rfc8998_iv rfc8998_ct rfc8998_aad rfc8998_tag = Some rfc8998_pt.
Proof. vm_compute. split; reflexivity. Qed.
