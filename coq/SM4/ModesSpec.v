(* Block cipher modes of operation as NIST SP 800-38A defines them (ECB 6.1, CBC 6.2, CFB with
   s = b = 128 6.3, OFB 6.4) and PKCS#7 padding (RFC 5652 6.3) for a 16-byte block, over an
   arbitrary block function.  Never looks at the Go code.  Bytes are N. *)
From Coq Require Import List NArith Arith.
Import ListNotations.

Notation byte := N (only parsing).

Definition BS : nat := 16.

(* bytewise exclusive or of two strings (of equal length) *)
Fixpoint xor_bytes (a b : list byte) : list byte :=
  match a, b with
  | x :: a', y :: b' => N.lxor x y :: xor_bytes a' b'
  | _, _ => []
  end.

(* the sequence of 16-byte blocks of a string whose length is a multiple of 16 *)
Fixpoint blocks_fuel (fuel : nat) (l : list byte) : list (list byte) :=
  match fuel with
  | O => []
  | S fuel' => match l with [] => [] | _ => firstn BS l :: blocks_fuel fuel' (skipn BS l) end
  end.
Definition blocks (l : list byte) : list (list byte) := blocks_fuel (length l) l.

(* ---------- PKCS#7 ---------------------------------------------------------------------------------- *)
(* pad with k bytes of value k, k = 16 - (|m| mod 16), so 1 <= k <= 16 *)
Definition pad_len (n : nat) : nat := BS - n mod BS.
Definition pkcs7_pad (m : list byte) : list byte :=
  m ++ repeat (N.of_nat (pad_len (length m))) (pad_len (length m)).

(* s is m followed by one valid pad *)
Definition pkcs7_padded (s m : list byte) : Prop :=
  exists k, 1 <= k <= BS /\ s = m ++ repeat (N.of_nat k) k.

Section Modes.
  (* the forward cipher function CIPH_K and its inverse, already keyed *)
  Variables CIPH CIPHINV : list byte -> list byte.

  (* 6.1 ECB: C_j = CIPH_K(P_j);  P_j = CIPHINV_K(C_j) *)
  Definition ecb_encrypt (ps : list (list byte)) : list (list byte) := map CIPH ps.
  Definition ecb_decrypt (cs : list (list byte)) : list (list byte) := map CIPHINV cs.

  (* 6.2 CBC: C_1 = CIPH_K(P_1 xor IV), C_j = CIPH_K(P_j xor C_j-1);
              P_1 = CIPHINV_K(C_1) xor IV, P_j = CIPHINV_K(C_j) xor C_j-1 *)
  Fixpoint cbc_encrypt (iv : list byte) (ps : list (list byte)) : list (list byte) :=
    match ps with
    | [] => []
    | p :: r => let c := CIPH (xor_bytes p iv) in c :: cbc_encrypt c r
    end.
  Fixpoint cbc_decrypt (iv : list byte) (cs : list (list byte)) : list (list byte) :=
    match cs with
    | [] => []
    | c :: r => xor_bytes (CIPHINV c) iv :: cbc_decrypt c r
    end.

  (* 6.3 CFB, s = 128: I_1 = IV, I_j = C_j-1, O_j = CIPH_K(I_j), C_j = P_j xor O_j; P_j = C_j xor O_j *)
  Fixpoint cfb_encrypt (i : list byte) (ps : list (list byte)) : list (list byte) :=
    match ps with
    | [] => []
    | p :: r => let c := xor_bytes p (CIPH i) in c :: cfb_encrypt c r
    end.
  Fixpoint cfb_decrypt (i : list byte) (cs : list (list byte)) : list (list byte) :=
    match cs with
    | [] => []
    | c :: r => xor_bytes c (CIPH i) :: cfb_decrypt c r
    end.

  (* 6.4 OFB: I_1 = IV, I_j = O_j-1, O_j = CIPH_K(I_j), C_j = P_j xor O_j; P_j = C_j xor O_j *)
  Fixpoint ofb_crypt (i : list byte) (xs : list (list byte)) : list (list byte) :=
    match xs with
    | [] => []
    | x :: r => let o := CIPH i in xor_bytes x o :: ofb_crypt o r
    end.

  (* the four padded modes: the ciphertext of a message is the mode over the blocks of pad(m) *)
  Definition ecb_pkcs7 (m : list byte) : list byte := concat (ecb_encrypt (blocks (pkcs7_pad m))).
  Definition cbc_pkcs7 (iv m : list byte) : list byte := concat (cbc_encrypt iv (blocks (pkcs7_pad m))).
  Definition cfb_pkcs7 (iv m : list byte) : list byte := concat (cfb_encrypt iv (blocks (pkcs7_pad m))).
  Definition ofb_pkcs7 (iv m : list byte) : list byte := concat (ofb_crypt iv (blocks (pkcs7_pad m))).
End Modes.
