(* Vocabulary of the mechanical translation of the mode helpers of sm4/sm4.go (translator target modescode ->
   Gen/ModesCode.v).  Go statements are translated one by one; the Go operations they use mean:
     x[lo:hi]                      -> slice x lo hi            (in range: not re-checked, as in ModesModel.blk)
     make([]byte, n)               -> repeat 0 n
     copy(dst, src)  (dst a name)  -> copy_l dst src
     c.Encrypt(dst, src)           -> dst <- block_call enc src   (dst is a 16-byte buffer, ModesModel convention)
     x, _ = pkcs7UnPadding(y)      -> x <- drop_err (pkcs7UnPadding y)
     for i := s; i < B; i++ { x[i] = e }   -> x <- fill_from x (fun i => e) (B - s) s   (x[k], read: nth k x 0, in range)
     out = make([]byte, L); for i := s; i < B; i++ { ...; copy(out[lo:hi], o); ... }
                                   -> loop_out out step (B - s) s st0, the step returns the window (lo, hi, o)
   No proofs in this file. *)
From Coq Require Import List NArith Arith Bool.
From GmsmVerif Require Import Lib.Outcome SM4.ModesModel.
Import ListNotations.

Definition slice (l : list N) (lo hi : nat) : list N := firstn (hi - lo) (skipn lo l).

Definition copy_l (dst src : list N) : list N :=
  let m := Nat.min (length dst) (length src) in firstn m src ++ skipn m dst.

Definition drop_err (o : outcome (list N)) : outcome (list N) :=
  match o with
  | Ok o => Ok o
  | Err _ => Ok []
  | Panic => Panic
  | Hang => Hang
  end.

(* iteration i must write exactly the window 16*i : 16*i+16 of out (anything else is outside what the model's
   slot-by-slot concatenation describes: Panic, which no model function returns on whole blocks); the loop must
   start at 0; the slots not written keep what out0 held *)
Definition win_step {St : Type} (step : nat -> St -> outcome (St * (nat * nat * list N))) (i : nat) (st : St)
  : outcome (St * list N) :=
  do '(st', w) <- step i st;
  let '(lo, hi, o) := w in
  if (Nat.eqb lo (16 * i) && Nat.eqb hi (16 * i + 16))%bool then Ok (st', o) else Panic.

Definition loop_out {St : Type} (out0 : list N) (step : nat -> St -> outcome (St * (nat * nat * list N)))
           (n start : nat) (st0 : St) : outcome (list N) :=
  if Nat.eqb start 0 then
    do acc <- for_loop (win_step step) n 0 st0 [];
    Ok (acc ++ skipn (16 * n) out0)
  else Panic.

(* for i := s; i < s+n; i++ { out[i] = f i }: an index outside out panics *)
Fixpoint fill_from (out : list N) (f : nat -> N) (n i : nat) : outcome (list N) :=
  match n with
  | O => Ok out
  | S n' => if Nat.ltb i (length out) then fill_from (set_nth out i (f i)) f n' (S i) else Panic
  end.

(* for i := s; i < s+n; i++ { if c i { return ... } }: does some iteration return *)
Fixpoint exists_from (c : nat -> bool) (n i : nat) : bool :=
  match n with
  | O => false
  | S n' => if c i then true else exists_from c n' (S i)
  end.
