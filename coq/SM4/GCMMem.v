(* Caller memory for the GCM functions of sm4_gcm.go.  No proofs in this file.

   Go writes memory through index assignment, copy(dst, ..) and append(dst, ..).  In sm4_gcm.go every index
   assignment and every copy has a destination that was made in the same function (X, Z, V, R, Y_ii, C, P, Enc, H,
   data) - those are modelled on values (GCMModel.v).  The appends are modelled here on a heap of arrays
   (ModesModel: heap, slice, make, copy_into, append, read), because append writes IN PLACE into the spare
   capacity of its first argument - which is how GetY0 used to overwrite the bytes behind the caller's IV:
     GetY0:  Y0 := make([]byte, 0, 16); Y0 = append(Y0, IV...); Y0 = append(Y0, zero31one1...)
     GHASH:  Am := make([]byte, v/8); copy(Am, A[(m-1)*16:]); Am = append(Am, zeros...)      (also Cn)
             var lenAB []byte; lenAB = append(lenAB, ...); lenAB = append(lenAB, ...)
   K, IV, in, A are slice headers into the caller's heap; everything else is as in GCMModel.v. *)
From Coq Require Import List NArith Arith Bool.
From GmsmVerif Require Import Lib.Outcome SM4.ModesModel SM4.GCMModel.
Import ListNotations.

(* Am := make([]byte, v/8); copy(Am[:], data[(m-1)*16:]); Am = append(Am, zeros...), zeros := make([]byte, (128-v)/8) *)
Definition last_block_mem (h : heap) (data : list byte) (m v : nat) : heap * slice :=
  let '(h1, zs) := make h ((128 - v) / 8) ((128 - v) / 8) in
  let '(h2, Am) := make h1 (v / 8) (v / 8) in
  let h3 := copy_into h2 Am (skipn ((m - 1) * BlockSize) data) in
  append h3 Am (read h3 zs).

(* append to a nil slice: always a new array *)
Definition append_nil (h : heap) (bs : list byte) : heap * slice :=
  (h ++ [bs], mkSlice (length h) 0 (length bs) (length bs)).

Definition lenAB_mem (h : heap) (la lc : N) : heap * slice :=
  let '(h1, s1) := append_nil h (calculateLenToBytes la) in
  append h1 s1 (calculateLenToBytes lc).

(* func GHASH(H, A, C []byte): A and C are only read (values); the heap afterwards and X_{m+n+1} *)
Definition GHASH_mem (h : heap) (H A C : list byte) : heap * list byte :=
  let '(m, v) := calculm_v (length A / BlockSize) (length A mod BlockSize) in
  let '(n, u) := calculm_v (length C / BlockSize) (length C mod BlockSize) in
  let X := zeros BlockSize in
  let X := ghash_loop (m - 1) 0 A H X in
  let '(h1, Am) := last_block_mem h A m v in
  let X := multiplication (addition X (read h1 Am)) H in
  let X := ghash_loop (n - 1) 0 C H X in
  let '(h2, Cn) := last_block_mem h1 C n u in
  let X := if Nat.eqb u 0 then X else multiplication (addition X (read h2 Cn)) H in
  let '(h3, lenAB) := lenAB_mem h2 (N.of_nat (length A) * 8) (N.of_nat (length C) * 8) in
  (h3, multiplication (addition X (read h3 lenAB)) H).

(* func GetY0(H, IV []byte) []byte as it is now *)
Definition GetY0_mem (h : heap) (H : list byte) (IV : slice) : heap * list byte :=
  if Nat.eqb (s_len IV * 8) 96 then
    let '(h1, Y0) := make h 0 BlockSize in
    let '(h2, Y0) := append h1 Y0 (read h1 IV) in
    let '(h3, Y0) := append h2 Y0 [0; 0; 0; 1]%N in
    (h3, read h3 Y0)
  else GHASH_mem h H [] (read h IV).

Section Cipher.
  Variable E : list byte -> list byte -> list byte.

  Definition tag_of_mem (h : heap) (key H Y0 A C : list byte) : outcome (heap * list byte) :=
    do Enc <- block_call E key Y0;
    let '(h1, G) := GHASH_mem h H A C in
    do T <- MSB 128 (addition Enc G);
    Ok (h1, T).

  (* func GCMEncrypt(K, IV, P, A []byte) (C, T []byte) with its arguments in the caller's memory *)
  Definition GCMEncrypt_mem (h : heap) (K IV P A : slice) : outcome (heap * (list byte * list byte)) :=
    do H <- GetH E (read h K);
    let '(h1, Y0) := GetY0_mem h H IV in
    do C <- ctr_crypt E (read h1 K) Y0 (read h1 P);
    do '(h2, T) <- tag_of_mem h1 (read h1 K) H Y0 (read h1 A) C;
    Ok (h2, (C, T)).

  Definition GCMDecrypt_mem (h : heap) (K IV C A : slice) : outcome (heap * (list byte * list byte)) :=
    do H <- GetH E (read h K);
    let '(h1, Y0) := GetY0_mem h H IV in
    do '(h2, T) <- tag_of_mem h1 (read h1 K) H Y0 (read h1 A) (read h1 C);
    do P <- ctr_crypt E (read h2 K) Y0 (read h2 C);
    Ok (h2, (P, T)).

  Definition Sm4GCM_mem (h : heap) (key IV in_ A : slice) (mode : bool) : outcome (heap * (list byte * list byte)) :=
    if negb (Nat.eqb (s_len key) BlockSize) then Err 1
    else if mode then GCMEncrypt_mem h key IV in_ A else GCMDecrypt_mem h key IV in_ A.
End Cipher.
