(* GHASH is additive, and a difference confined to one block changes it by Delta . H^k: the equation behind
   "a modified additional data / ciphertext block changes the tag".  Restated in Props/C12.v. *)
From Coq Require Import List NArith Arith Bool Lia ZifyN ZifyNat ZifyBool Btauto.
From GmsmVerif Require Import Lib.Outcome SM4.SM4Spec SM4.SM4Lemmas SM4.ModesSpec SM4.ModesModel SM4.ModesProofs
  SM4.GCMSpec SM4.GCMField SM4.GCMModel SM4.GCMProofs SM4.GCMProofs2.
Import ListNotations.
Local Open Scope nat_scope.

Lemma val_inj a b : length a = length b -> bytes_ok a = true -> bytes_ok b = true ->
  int_of_bytes a = int_of_bytes b -> a = b.
Proof.
  intros Hl Ha Hb E. rewrite <- (bytes_of_int_val a Ha), <- (bytes_of_int_val b Hb), Hl, E. reflexivity.
Qed.

Lemma gmb_blk16 X Y : blk16 (gf_mul_bytes X Y).
Proof. unfold gf_mul_bytes. split; [apply bytes_of_int_length|apply bytes_of_int_ok]. Qed.

Lemma gmb_val X Y : blk16 Y -> int_of_bytes (gf_mul_bytes X Y) = gf_mul (int_of_bytes X) (int_of_bytes Y).
Proof.
  intros [HY1 HY2]. unfold gf_mul_bytes. apply (val_bytes_of_int 16).
  apply gf_mul_b128. apply val16_b128; assumption.
Qed.

Lemma gmb_xor_l a b H : blk16 a -> blk16 b -> blk16 H ->
  gf_mul_bytes (xor_bytes a b) H = xor_bytes (gf_mul_bytes a H) (gf_mul_bytes b H).
Proof.
  intros [Ha1 Ha2] [Hb1 Hb2] HH.
  destruct (gmb_blk16 (xor_bytes a b) H) as [L1 O1].
  destruct (gmb_blk16 a H) as [L2 O2]. destruct (gmb_blk16 b H) as [L3 O3].
  apply val_inj.
  - rewrite L1, xor_bytes_length; [rewrite L2; reflexivity|rewrite L2, L3; reflexivity].
  - exact O1.
  - apply xor_bytes_ok; assumption.
  - rewrite gmb_val by exact HH. rewrite val_xor by (try assumption; rewrite Ha1, Hb1; reflexivity).
    rewrite gf_mul_add_l. rewrite val_xor by (try assumption; rewrite L2, L3; reflexivity).
    rewrite !gmb_val by exact HH. reflexivity.
Qed.

Lemma xor_bytes_swap4 a : forall b c d, length a = length b -> length a = length c -> length a = length d ->
  xor_bytes (xor_bytes a b) (xor_bytes c d) = xor_bytes (xor_bytes a c) (xor_bytes b d).
Proof.
  induction a as [|x a IH]; intros [|y b] [|z c] [|w d] H1 H2 H3; try discriminate; [reflexivity|].
  cbn [xor_bytes]. rewrite IH by (cbn in *; lia). f_equal. xor_ac.
Qed.

Definition zipb (bs bs' : list (list N)) : list (list N) :=
  map (fun p => xor_bytes (fst p) (snd p)) (combine bs bs').

(* GHASH over block lists is additive *)
Lemma fold_sstep_xor H bs : blk16 H -> forall bs' Y Y', length bs = length bs' ->
  Forall blk16 bs -> Forall blk16 bs' -> blk16 Y -> blk16 Y' ->
  fold_left (sstep H) (zipb bs bs') (xor_bytes Y Y') =
  xor_bytes (fold_left (sstep H) bs Y) (fold_left (sstep H) bs' Y').
Proof.
  intros HH. induction bs as [|b bs IH]; intros [|b' bs'] Y Y' Hl HF HF' HY HY'; try discriminate; [reflexivity|].
  inversion HF as [|? ? Hb HFt]; subst. inversion HF' as [|? ? Hb' HFt']; subst.
  unfold zipb. cbn [combine map fst snd]. rewrite !fold_left_cons. fold (zipb bs bs').
  unfold sstep at 2.
  pose proof (proj1 HY) as LY. pose proof (proj1 HY') as LY'. pose proof (proj1 Hb) as Lb. pose proof (proj1 Hb') as Lb'.
  rewrite xor_bytes_swap4 by congruence.
  rewrite gmb_xor_l by (try apply xor_blk16; assumption).
  apply IH; try assumption; try apply gmb_blk16. cbn in Hl. lia.
Qed.

(* a string of zero blocks with one block Delta in it *)
Definition Z16 : list N := zeros 16.

Lemma xor_zeros_l a : length a = 16 -> xor_bytes Z16 a = a.
Proof.
  intros H. list16 a H. unfold Z16, zeros. cbn [repeat xor_bytes]. rewrite !N.lxor_0_l. reflexivity.
Qed.

Lemma xor_zeros_r a : length a = 16 -> xor_bytes a Z16 = a.
Proof. intros H. rewrite xor_bytes_comm. apply xor_zeros_l. exact H. Qed.

Lemma fold_zero_blocks H j : fold_left (sstep H) (repeat Z16 j) Z16 = Z16.
Proof.
  induction j as [|j IH]; [reflexivity|]. cbn [repeat]. rewrite fold_left_cons.
  unfold sstep at 2. rewrite xor_zeros_l by reflexivity. unfold Z16 at 2. rewrite gf_mul_bytes_zero_l. exact IH.
Qed.

Lemma fold_zero_tail H k : forall Y, length Y = 16 ->
  fold_left (sstep H) (repeat Z16 k) Y = iterf k (fun y => gf_mul_bytes y H) Y.
Proof.
  induction k as [|k IH]; intros Y HY; [reflexivity|]. cbn [repeat]. rewrite fold_left_cons.
  unfold sstep at 2. rewrite xor_zeros_r by exact HY. rewrite IH by apply gmb_blk16.
  symmetry. exact (iterf_succ_r k (fun y => gf_mul_bytes y H) Y).
Qed.

(* GHASH of 0 ... 0 Delta 0 ... 0 (k zero blocks behind Delta) = Delta . H^(k+1) *)
Lemma ghash_single_block H j k D : length D = 16 ->
  fold_left (sstep H) (repeat Z16 j ++ [D] ++ repeat Z16 k) Z16 = iterf k (fun y => gf_mul_bytes y H) (gf_mul_bytes D H).
Proof.
  intros HD. rewrite !fold_left_app, fold_zero_blocks. cbn [fold_left]. unfold sstep at 2.
  rewrite xor_zeros_l by exact HD. apply fold_zero_tail. apply gmb_blk16.
Qed.

(* ---------- blocks of a bytewise xor ---------------------------------------------------------------------------- *)
Lemma firstn_xor n : forall a b, firstn n (xor_bytes a b) = xor_bytes (firstn n a) (firstn n b).
Proof. induction n as [|n IH]; intros [|x a] [|y b]; try reflexivity. cbn [firstn xor_bytes]. rewrite IH. reflexivity. Qed.

Lemma skipn_xor n : forall a b, length a = length b -> skipn n (xor_bytes a b) = xor_bytes (skipn n a) (skipn n b).
Proof.
  induction n as [|n IH]; intros [|x a] [|y b] H; try reflexivity; try discriminate.
  cbn [skipn xor_bytes]. apply IH. cbn in H. lia.
Qed.

Lemma blocks_xor n : forall a b, length a = 16 * n -> length b = 16 * n ->
  blocks (xor_bytes a b) = zipb (blocks a) (blocks b).
Proof.
  induction n as [|n IH]; intros a b Ha Hb.
  - destruct a; [|cbn [length] in Ha; lia]. destruct b; [|cbn [length] in Hb; lia]. reflexivity.
  - assert (Hx : length (xor_bytes a b) = 16 * S n) by (rewrite xor_bytes_length; [exact Ha|rewrite Ha, Hb; reflexivity]).
    rewrite (blocks_cons (xor_bytes a b)) by (apply (len_nonnil _ n Hx)).
    rewrite (blocks_cons a) by (apply (len_nonnil _ n Ha)).
    rewrite (blocks_cons b) by (apply (len_nonnil _ n Hb)).
    unfold zipb. cbn [combine map fst snd]. fold (zipb (blocks (skipn 16 a)) (blocks (skipn 16 b))).
    rewrite firstn_xor. f_equal. rewrite skipn_xor by (rewrite Ha, Hb; reflexivity).
    apply IH; rewrite skipn_length; lia.
Qed.

Lemma blocks_zeros j : blocks (zeros (16 * j)) = repeat Z16 j.
Proof.
  induction j as [|j IH]; [reflexivity|].
  replace (zeros (16 * S j)) with (zeros 16 ++ zeros (16 * j)).
  - rewrite (blocks_app 1) by reflexivity. rewrite IH. rewrite blocks_single by reflexivity. reflexivity.
  - unfold zeros. rewrite <- repeat_app. f_equal. lia.
Qed.

(* ---------- the statement about GHASH ------------------------------------------------------------------------------ *)
Lemma ghash_fold H X : ghash H X = fold_left (sstep H) (blocks X) Z16.
Proof. reflexivity. Qed.

Lemma ghash_difference H X X' n j k D : blk16 H ->
  length X = 16 * n -> length X' = 16 * n -> bytes_ok X = true -> bytes_ok X' = true ->
  length D = 16 -> xor_bytes X X' = zeros (16 * j) ++ D ++ zeros (16 * k) ->
  (ghash H X = ghash H X' <-> iterf k (fun y => gf_mul_bytes y H) (gf_mul_bytes D H) = Z16).
Proof.
  intros HH HX HX' OX OX' HD Hdiff.
  assert (HZ : blk16 Z16) by (split; [reflexivity|apply zeros_ok]).
  assert (FX : Forall blk16 (blocks X)) by (apply (blocks_blk16 X n); assumption).
  assert (FX' : Forall blk16 (blocks X')) by (apply (blocks_blk16 X' n); assumption).
  assert (Hlen : length (blocks X) = length (blocks X')).
  { destruct (blocks_len16 X n HX) as [_ ->]. destruct (blocks_len16 X' n HX') as [_ ->]. reflexivity. }
  pose proof (fold_sstep_xor H (blocks X) HH (blocks X') Z16 Z16 Hlen FX FX' HZ HZ) as Hadd.
  rewrite <- (blocks_xor n X X' HX HX') in Hadd. rewrite Hdiff in Hadd.
  rewrite (blocks_app j) in Hadd by (unfold zeros; apply repeat_length).
  rewrite (blocks_app 1) in Hadd by (rewrite HD; reflexivity).
  rewrite !blocks_zeros, (blocks_single D HD) in Hadd.
  change (xor_bytes Z16 Z16) with Z16 in Hadd.
  rewrite ghash_single_block in Hadd by exact HD.
  rewrite !ghash_fold. rewrite Hadd.
  destruct (fold_step_spec H (blocks X) HH FX Z16 HZ) as [[L1 O1] E1].
  destruct (fold_step_spec H (blocks X') HH FX' Z16 HZ) as [[L2 O2] E2].
  rewrite E1 in L1. rewrite E2 in L2.
  set (G := fold_left (sstep H) (blocks X) Z16) in *. set (G' := fold_left (sstep H) (blocks X') Z16) in *.
  split.
  - intros ->. clear - L2. revert L2. generalize G'. intros g Hg. list16 g Hg.
    cbn [xor_bytes]. rewrite !N.lxor_nilpotent. reflexivity.
  - intros Hz. apply (f_equal (fun x => xor_bytes x G')) in Hz.
    rewrite xor_bytes_invol in Hz by (rewrite L1, L2; reflexivity).
    rewrite xor_zeros_l in Hz by exact L2. exact Hz.
Qed.

(* ---------- histories of calls: every result is the specification's value on the values at call time ------------ *)
Definition call_ok (c : gcm_call) : Prop :=
  length (c_key c) = 16 /\ bytes_ok (c_iv c) = true /\ bytes_ok (c_in c) = true /\ bytes_ok (c_a c) = true.

Definition gcm_spec_result (E : list N -> list N -> list N) (c : gcm_call) : gcm_result :=
  let CIPH := E (c_key c) in
  match c_fn c with
  | FnSm4GCM true | FnGCMEncrypt => let '(x, t) := gcm_ae CIPH (c_iv c) (c_in c) (c_a c) in RPair x t
  | FnSm4GCM false | FnGCMDecrypt =>
    RPair (gctr CIPH (inc32 (J0 CIPH (c_iv c))) (c_in c)) (gcm_tag CIPH (c_iv c) (c_a c) (c_in c))
  | FnGetH => RBlock (hash_key CIPH)
  end.

Section History.
  Variable E : list N -> list N -> list N.
  Hypothesis E_len : forall k b, length (E k b) = 16.
  Hypothesis E_ok : forall k b, bytes_ok (E k b) = true.

  Lemma gcm_do_spec st c : call_ok c -> gcm_do E st c = Ok (st, gcm_spec_result E c).
  Proof.
    intros (HK & HIV & HX & HA). unfold gcm_do, gcm_spec_result.
    destruct (c_fn c) as [[|]| | |].
    - destruct (Sm4GCM_spec E (c_key c) (c_iv c) (c_in c) (c_a c) true) as [_ ->]; [|exact HK].
      rewrite (GCMEncrypt_spec E E_len E_ok _ _ _ _ HK HIV HX HA). unfold gcm_ae. reflexivity.
    - destruct (Sm4GCM_spec E (c_key c) (c_iv c) (c_in c) (c_a c) false) as [_ ->]; [|exact HK].
      rewrite (GCMDecrypt_spec E E_len E_ok _ _ _ _ HK HIV HX HA). reflexivity.
    - rewrite (GCMEncrypt_spec E E_len E_ok _ _ _ _ HK HIV HX HA). unfold gcm_ae. reflexivity.
    - rewrite (GCMDecrypt_spec E E_len E_ok _ _ _ _ HK HIV HX HA). reflexivity.
    - destruct (GetH_spec E E_len E_ok (c_key c) HK) as [-> _]. reflexivity.
  Qed.

  Lemma gcm_run_spec calls : Forall call_ok calls -> forall st,
    gcm_run E st calls = Ok (map (gcm_spec_result E) calls).
  Proof.
    induction 1 as [|c calls Hc HF IH]; intros st; [reflexivity|].
    cbn [gcm_run map]. rewrite (gcm_do_spec st c Hc). cbn [obind]. rewrite IH. reflexivity.
  Qed.
End History.
