(* Model of the mode helpers of /repo/sm4/sm4.go: xor, pkcs7Padding, pkcs7UnPadding, IV / SetIV,
   Sm4Ecb, Sm4Cbc, Sm4CFB, Sm4OFB - function by function.  No proofs in this file.

   The block cipher object (c, _ := NewCipher(key); c.Encrypt / c.Decrypt) is a parameter:
   [E key] and [D key] are what c.Encrypt / c.Decrypt store into a fresh 16-byte dst for a 16-byte
   src (C05 proves that for sm4.go these are the GM/T 0002 functions; the runner instantiates them
   with SM4Spec).  A src shorter than 16 bytes panics (index out of range in permuteInitialBlock).

   Go objects modelled:
     var IV []byte (package level)  -> record pkg, read by the helpers when they are called (since 0fa6cb9
                                       through currentIV(), under ivMu.RLock; SetIV stores under ivMu.Lock: same values)
     []byte values                  -> list N
     out := make([]byte, n); copy(out[i*16:i*16+16], x)   -> the slots are appended in order
                                       ([slot16 x] = what a zeroed 16-byte window holds after copy)
     caller memory (in, with spare capacity) -> heap of arrays + slice headers, used for
                                       pkcs7Padding (the only place that could write behind in)  *)
From Coq Require Import List NArith Arith Bool.
From GmsmVerif Require Import Lib.Outcome.
Import ListNotations.

Notation byte := N (only parsing).

(* ---------- func xor(in, iv []byte) (out []byte): nil when the lengths differ ------------------------ *)
Fixpoint zip_xor (a b : list byte) : list byte :=
  match a, b with
  | x :: a', y :: b' => N.lxor x y :: zip_xor a' b'
  | _, _ => []
  end.
Definition xor (a b : list byte) : list byte :=
  if Nat.eqb (length a) (length b) then zip_xor a b else [].

(* ---------- func pkcs7Padding(src []byte) []byte (on values) ------------------------------------------ *)
Definition pkcs7Padding (src : list byte) : list byte :=
  let padding := 16 - length src mod 16 in
  let padtext := repeat (N.of_nat padding mod 256)%N padding in     (* bytes.Repeat([]byte{byte(padding)}, padding) *)
  src ++ padtext.

(* ---------- func pkcs7UnPadding(src []byte) ([]byte, error) --------------------------------------------- *)
(* Err 1: empty; Err 2: pad value 0 or > 16; Err 3: a pad byte differs; Panic: src[len-unpadding:] out of range *)
Definition pkcs7UnPadding (src : list byte) : outcome (list byte) :=
  let length_ := length src in
  if Nat.eqb length_ 0 then Err 1
  else
    let unpadding := N.to_nat (last src 0%N) in
    if (Nat.ltb 16 unpadding || Nat.eqb unpadding 0)%bool then Err 2
    else if Nat.ltb length_ unpadding then Panic
    else
      let pad := skipn (length_ - unpadding) src in
      if forallb (fun v => N.eqb v (N.of_nat unpadding)) pad then Ok (firstn (length_ - unpadding) src)
      else Err 3.

(* out, _ = pkcs7UnPadding(out): the error is dropped, out is nil then *)
Definition unpad_or_nil (out : list byte) : outcome (list byte) :=
  match pkcs7UnPadding out with
  | Ok o => Ok o
  | Err _ => Ok []
  | Panic => Panic
  | Hang => Hang
  end.

(* ---------- package state ----------------------------------------------------------------------------- *)
Record pkg := mkPkg { IV : list byte }.
Definition init_pkg : pkg := mkPkg (repeat 0%N 16).      (* var IV = make([]byte, BlockSize) *)

(* func SetIV(iv []byte) error.  Err 1 = "SM4: invalid iv size".  (The caller's slice itself is stored:
   a caller that later overwrites its buffer changes the IV; values are what this model tracks.) *)
Definition SetIV (iv : list byte) (p : pkg) : outcome unit * pkg :=
  if negb (Nat.eqb (length iv) 16) then (Err 1, p) else (Ok tt, mkPkg iv).

(* ---------- pieces shared by the four helpers ---------------------------------------------------------- *)
(* c.Encrypt(dst16, src) / c.Decrypt(dst16, src) for a keyed block function *)
Definition block_call (c : list byte -> list byte) (src : list byte) : outcome (list byte) :=
  if Nat.ltb (length src) 16 then Panic else Ok (c (firstn 16 src)).

(* inData[i*16 : i*16+16]; in range by the loop bound i < len(inData)/16 *)
Definition blk (inData : list byte) (i : nat) : list byte := firstn 16 (skipn (16 * i) inData).

(* copy(out[i*16:i*16+16], x) into a zeroed window *)
Definition slot16 (x : list byte) : list byte := firstn 16 (x ++ repeat 0%N 16).

(* for i := 0; i < n; i++ { ... }: [step i st] = (state after the iteration, what it copies into slot i) *)
Fixpoint for_loop {St : Type} (step : nat -> St -> outcome (St * list byte)) (n i : nat) (st : St) (out : list byte)
  : outcome (list byte) :=
  match n with
  | O => Ok out
  | S n' => do '(st', o) <- step i st; for_loop step n' (S i) st' (out ++ slot16 o)
  end.

(* out = make([]byte, len(inData)) after the loop filled len(inData)/16 slots: the tail stays zero *)
Definition finish (inData out : list byte) : list byte :=
  out ++ repeat 0%N (length inData - 16 * (length inData / 16)).

Definition zeros16 : list byte := repeat 0%N 16.

Section Cipher.
  Variables E D : list byte -> list byte -> list byte.

  (* ---------- func Sm4Cbc(key []byte, in []byte, mode bool) (out []byte, err error) ---------------------- *)
  Definition Sm4Cbc_core (p : pkg) (key inData : list byte) (mode : bool) : outcome (list byte) :=
    let iv := firstn 16 (IV p ++ zeros16) in                 (* iv := make([]byte, 16); copy(iv, currentIV()) *)
    let enc := E key in let dec := D key in                  (* c, err := NewCipher(key) *)
    let n := length inData / 16 in
    if mode then
      do out <- for_loop (fun i iv =>
                  let in_tmp := xor (blk inData i) iv in
                  do out_tmp <- block_call enc in_tmp;
                  Ok (out_tmp, out_tmp)) n 0 iv [];
      Ok (finish inData out)
    else
      do out <- for_loop (fun i iv =>
                  let in_tmp := blk inData i in
                  do out_tmp <- block_call dec in_tmp;
                  let out_tmp := xor out_tmp iv in
                  Ok (in_tmp, out_tmp)) n 0 iv [];
      unpad_or_nil (finish inData out).

  (* ---------- func Sm4Ecb ------------------------------------------------------------------------------------- *)
  Definition Sm4Ecb_core (p : pkg) (key inData : list byte) (mode : bool) : outcome (list byte) :=
    let enc := E key in let dec := D key in
    let n := length inData / 16 in
    if mode then
      do out <- for_loop (fun i (_ : unit) =>
                  do out_tmp <- block_call enc (blk inData i); Ok (tt, out_tmp)) n 0 tt [];
      Ok (finish inData out)
    else
      do out <- for_loop (fun i (_ : unit) =>
                  do out_tmp <- block_call dec (blk inData i); Ok (tt, out_tmp)) n 0 tt [];
      unpad_or_nil (finish inData out).

  (* ---------- func Sm4CFB: K, cipherBlock, plainBlock start as zeroed 16-byte slices ------------------------- *)
  Definition Sm4CFB_core (p : pkg) (key inData : list byte) (mode : bool) : outcome (list byte) :=
    let enc := E key in
    let n := length inData / 16 in
    if mode then
      do out <- for_loop (fun i cipherBlock =>
                  (* i == 0: c.Encrypt(K, currentIV()); otherwise c.Encrypt(K, cipherBlock) *)
                  do K <- block_call enc (if Nat.eqb i 0 then IV p else cipherBlock);
                  let cipherBlock := xor (firstn 16 K) (blk inData i) in
                  Ok (cipherBlock, cipherBlock)) n 0 zeros16 [];
      Ok (finish inData out)
    else
      do out <- for_loop (fun i (_ : unit) =>
                  (* i == 0: c.Encrypt(K, IV); otherwise c.Encrypt(K, inData[(i-1)*16:(i-1)*16+16]) *)
                  do K <- block_call enc (if Nat.eqb i 0 then IV p else blk inData (i - 1));
                  let plainBlock := xor (firstn 16 K) (blk inData i) in
                  Ok (tt, plainBlock)) n 0 tt [];
      unpad_or_nil (finish inData out).

  (* ---------- func Sm4OFB: shiftIV starts zeroed; copy(shiftIV, K[:BlockSize]) after each block ---------------- *)
  Definition ofb_step (enc : list byte -> list byte) (p : pkg) (inData : list byte) (i : nat) (shiftIV : list byte)
    : outcome (list byte * list byte) :=
    do K <- block_call enc (if Nat.eqb i 0 then IV p else shiftIV);
    let o := xor (firstn 16 K) (blk inData i) in
    Ok (firstn 16 K, o).

  Definition Sm4OFB_core (p : pkg) (key inData : list byte) (mode : bool) : outcome (list byte) :=
    let enc := E key in
    let n := length inData / 16 in
    if mode then
      do out <- for_loop (ofb_step enc p inData) n 0 zeros16 [];
      Ok (finish inData out)
    else
      do out <- for_loop (ofb_step enc p inData) n 0 zeros16 [];
      unpad_or_nil (finish inData out).

  (* the part all four share: key length check (Err 1 = "SM4: invalid key size"), padding when encrypting *)
  Definition helper (core : pkg -> list byte -> list byte -> bool -> outcome (list byte))
             (p : pkg) (key in_ : list byte) (mode : bool) : outcome (list byte) :=
    if negb (Nat.eqb (length key) 16) then Err 1
    else core p key (if mode then pkcs7Padding in_ else in_) mode.

  Definition Sm4Cbc := helper Sm4Cbc_core.
  Definition Sm4Ecb := helper Sm4Ecb_core.
  Definition Sm4CFB := helper Sm4CFB_core.
  Definition Sm4OFB := helper Sm4OFB_core.
End Cipher.

(* ---------- sequences of calls on the package ------------------------------------------------------------------ *)
(* The only package-level variable the helpers use is IV (record pkg); the helpers read it and never write it,
   SetIV replaces it.  A history: before each helper call the caller may call SetIV.  Every value is the content
   of the caller's slice at the time of the call (the caller may reuse and overwrite its buffers in between). *)
Inductive helper_fn := FnEcb | FnCbc | FnCFB | FnOFB.
Record mode_call := mkMCall {
  m_setiv : option (list byte);      (* Some iv: SetIV(iv) is called first *)
  m_fn : helper_fn; m_key : list byte; m_in : list byte; m_mode : bool }.

Section History.
  Variables E D : list byte -> list byte -> list byte.

  Definition call_helper (p : pkg) (c : mode_call) : outcome (list byte) :=
    match m_fn c with
    | FnEcb => Sm4Ecb E D p (m_key c) (m_in c) (m_mode c)
    | FnCbc => Sm4Cbc E D p (m_key c) (m_in c) (m_mode c)
    | FnCFB => Sm4CFB E p (m_key c) (m_in c) (m_mode c)
    | FnOFB => Sm4OFB E p (m_key c) (m_in c) (m_mode c)
    end.

  (* the package afterwards, SetIV's result (when it was called) and the helper's result *)
  Definition mode_do (p : pkg) (c : mode_call) : pkg * (option (outcome unit) * outcome (list byte)) :=
    match m_setiv c with
    | Some iv => let '(r, p1) := SetIV iv p in (p1, (Some r, call_helper p1 c))
    | None => (p, (None, call_helper p c))
    end.

  Fixpoint modes_run (p : pkg) (calls : list mode_call) : list (option (outcome unit) * outcome (list byte)) :=
    match calls with
    | [] => []
    | c :: rest => let '(p1, r) := mode_do p c in r :: modes_run p1 rest
    end.
End History.

(* ---------- caller memory: arrays, slice headers, make / copy / append ------------------------------------ *)
Definition heap := list (list byte).
(* s_arr: index of the backing array; the slice is arr[s_off : s_off+s_len], capacity s_cap from s_off *)
Record slice := mkSlice { s_arr : nat; s_off : nat; s_len : nat; s_cap : nat }.

Definition array (h : heap) (a : nat) : list byte := nth a h [].
Definition read (h : heap) (s : slice) : list byte := firstn (s_len s) (skipn (s_off s) (array h (s_arr s))).

Fixpoint set_nth {A} (l : list A) (i : nat) (v : A) : list A :=
  match l, i with
  | [], _ => []
  | _ :: r, O => v :: r
  | x :: r, S i' => x :: set_nth r i' v
  end.

Definition write_at (a : list byte) (pos : nat) (bs : list byte) : list byte :=
  firstn pos a ++ bs ++ skipn (pos + length bs) a.

(* make([]byte, len, cap): a new zeroed array *)
Definition make (h : heap) (len cap : nat) : heap * slice :=
  (h ++ [repeat 0%N cap], mkSlice (length h) 0 len cap).

(* copy(dst, src) *)
Definition copy_into (h : heap) (dst : slice) (src : list byte) : heap :=
  let n := Nat.min (s_len dst) (length src) in
  set_nth h (s_arr dst) (write_at (array h (s_arr dst)) (s_off dst) (firstn n src)).

(* append(s, bs...): in place when the capacity suffices, otherwise into a new array *)
Definition append (h : heap) (s : slice) (bs : list byte) : heap * slice :=
  if Nat.leb (s_len s + length bs) (s_cap s) then
    (set_nth h (s_arr s) (write_at (array h (s_arr s)) (s_off s + s_len s) bs),
     mkSlice (s_arr s) (s_off s) (s_len s + length bs) (s_cap s))
  else
    (h ++ [read h s ++ bs], mkSlice (length h) 0 (s_len s + length bs) (s_len s + length bs)).

(* func pkcs7Padding(src []byte) []byte as it is now:
     out := make([]byte, len(src), len(src)+padding); copy(out, src); return append(out, padtext...) *)
Definition pkcs7Padding_mem (h : heap) (src : slice) : heap * slice :=
  let padding := 16 - s_len src mod 16 in
  let padtext := repeat (N.of_nat padding mod 256)%N padding in
  let '(h1, out) := make h (s_len src) (s_len src + padding) in
  let h2 := copy_into h1 out (read h1 src) in
  append h2 out padtext.

(* ---------- the helpers with [in] in the caller's memory --------------------------------------------------------- *)
(* The writes of the four helpers: out = make([]byte, len(inData)) and copy(out[i*16:i*16+16], x) in every
   iteration are modelled on the heap (below); the other destinations - iv := make(..); copy(iv, IV), out_tmp,
   K, cipherBlock, plainBlock, shiftIV - are made inside the helper and only rebound or overwritten there, and are
   modelled on values.  In every iteration the input block is read from the CURRENT heap: if out were not a new
   array (e.g. out = inData) the results and the caller's array would change.                                     *)

(* out[i*16 : i*16+16] *)
Definition window (out : slice) (i : nat) : slice :=
  mkSlice (s_arr out) (s_off out + 16 * i) 16 (s_cap out - 16 * i).

(* the loop of a helper on the heap: [step h i st] computes iteration i from what the heap holds now *)
Fixpoint for_loop_mem {St : Type} (step : heap -> nat -> St -> outcome (St * list byte)) (n i : nat) (st : St)
         (h : heap) (out : slice) : outcome heap :=
  match n with
  | O => Ok h
  | S n' => do '(st', o) <- step h i st; for_loop_mem step n' (S i) st' (copy_into h (window out i) o) out
  end.

(* out = make([]byte, len(inData)); the loop; the heap afterwards and what out holds.
   [mk inData] is the body of the loop as a function of the bytes of inData *)
Definition run_loop_mem {St : Type} (mk : list byte -> nat -> St -> outcome (St * list byte)) (st0 : St)
           (h : heap) (in_ : slice) : outcome (heap * list byte) :=
  let '(h1, out) := make h (s_len in_) (s_len in_) in
  do h2 <- for_loop_mem (fun hh => mk (read hh in_)) (s_len in_ / 16) 0 st0 h1 out;
  Ok (h2, read h2 out).

Definition then_unpad (r : outcome (heap * list byte)) : outcome (heap * list byte) :=
  do '(h2, out) <- r; do o <- unpad_or_nil out; Ok (h2, o).

Section CipherMem.
  Variables E D : list byte -> list byte -> list byte.

  Definition Sm4Cbc_core_mem (p : pkg) (key : list byte) (h : heap) (in_ : slice) (mode : bool) : outcome (heap * list byte) :=
    let iv := firstn 16 (IV p ++ zeros16) in
    let enc := E key in let dec := D key in
    if mode then
      run_loop_mem (fun inData i iv =>
                  let in_tmp := xor (blk inData i) iv in
                  do out_tmp <- block_call enc in_tmp;
                  Ok (out_tmp, out_tmp)) iv h in_
    else
      then_unpad (run_loop_mem (fun inData i iv =>
                  let in_tmp := blk inData i in
                  do out_tmp <- block_call dec in_tmp;
                  let out_tmp := xor out_tmp iv in
                  Ok (in_tmp, out_tmp)) iv h in_).

  Definition Sm4Ecb_core_mem (p : pkg) (key : list byte) (h : heap) (in_ : slice) (mode : bool) : outcome (heap * list byte) :=
    let enc := E key in let dec := D key in
    if mode then
      run_loop_mem (fun inData i (_ : unit) => do out_tmp <- block_call enc (blk inData i); Ok (tt, out_tmp)) tt h in_
    else
      then_unpad (run_loop_mem (fun inData i (_ : unit) => do out_tmp <- block_call dec (blk inData i); Ok (tt, out_tmp)) tt h in_).

  Definition Sm4CFB_core_mem (p : pkg) (key : list byte) (h : heap) (in_ : slice) (mode : bool) : outcome (heap * list byte) :=
    let enc := E key in
    if mode then
      run_loop_mem (fun inData i cipherBlock =>
                  do K <- block_call enc (if Nat.eqb i 0 then IV p else cipherBlock);
                  let cipherBlock := xor (firstn 16 K) (blk inData i) in
                  Ok (cipherBlock, cipherBlock)) zeros16 h in_
    else
      then_unpad (run_loop_mem (fun inData i (_ : unit) =>
                  do K <- block_call enc (if Nat.eqb i 0 then IV p else blk inData (i - 1));
                  let plainBlock := xor (firstn 16 K) (blk inData i) in
                  Ok (tt, plainBlock)) tt h in_).

  Definition Sm4OFB_core_mem (p : pkg) (key : list byte) (h : heap) (in_ : slice) (mode : bool) : outcome (heap * list byte) :=
    let enc := E key in
    if mode then run_loop_mem (ofb_step enc p) zeros16 h in_
    else then_unpad (run_loop_mem (ofb_step enc p) zeros16 h in_).

  (* the part all four share, with [in] in the caller's heap: the heap afterwards and the result *)
  Definition helper_mem (core_mem : pkg -> list byte -> heap -> slice -> bool -> outcome (heap * list byte))
             (p : pkg) (h : heap) (key : list byte) (in_ : slice) (mode : bool) : outcome (heap * list byte) :=
    if negb (Nat.eqb (length key) 16) then Err 1
    else if mode then
      let '(h', padded) := pkcs7Padding_mem h in_ in core_mem p key h' padded mode
    else core_mem p key h in_ mode.

  Definition Sm4Cbc_mem := helper_mem Sm4Cbc_core_mem.
  Definition Sm4Ecb_mem := helper_mem Sm4Ecb_core_mem.
  Definition Sm4CFB_mem := helper_mem Sm4CFB_core_mem.
  Definition Sm4OFB_mem := helper_mem Sm4OFB_core_mem.
End CipherMem.
