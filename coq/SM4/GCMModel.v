(* Model of /repo/sm4/sm4_gcm.go as it is now (after the repairs of GHASH's length block, incr,
   GCMDecrypt's last block and GetY0), function by function.  No proofs in this file.

   The block cipher object (c, _ := NewCipher(K); c.Encrypt) is a parameter: [E K] is what c.Encrypt
   stores into a 16-byte dst for a 16-byte src (C05: for sm4.go this is SM4Spec).  NewCipher fails for
   a key that is not 16 bytes: GetH / GCMEncrypt / GCMDecrypt panic(err) then, Sm4GCM returns the error.

   []byte values are lists of N; X := make(...) followed by copy into window i is modelled by the list
   of the windows; uint8 arithmetic is reduced mod 256; int is wide enough for every length (64 bit). *)
From Coq Require Import List NArith Arith Bool.
From GmsmVerif Require Import Lib.Outcome SM4.ModesModel.
Import ListNotations.

Notation byte := N (only parsing).

Definition BlockSize : nat := 16.
Definition zeros (n : nat) : list byte := repeat 0%N n.

(* func addition(a, b []byte) (out []byte): nil when the lengths differ (zip_xor: bytewise xor, shared with
   the model of the mode helpers) *)
Definition addition (a b : list byte) : list byte :=
  if Nat.eqb (length a) (length b) then zip_xor a b else [].

(* func Rightshift(V []byte): in place, from the last byte down; V[i] = V[i]>>1 | (V[i-1]&1)<<7.
   [rightshift_from prev l]: the bytes of l after the shift when [prev] is the byte in front of l *)
Fixpoint rightshift_from (prev : byte) (l : list byte) : list byte :=
  match l with
  | [] => []
  | v :: r => N.lor (N.shiftl (N.land prev 1) 7 mod 256) (N.shiftr v 1) :: rightshift_from v r
  end.
Definition Rightshift (V : list byte) : list byte :=
  match V with
  | [] => []
  | v :: r => N.shiftr v 1 :: rightshift_from v r           (* i == 0: no byte in front *)
  end.

(* func findYi(Y []byte, index int) int: bit 7 - index%8 of byte index/8 *)
Definition findYi (Y : list byte) (index : nat) : N :=
  let temp := nth (index / 8) Y 0%N in
  let temp := N.shiftr temp (N.of_nat (7 - index mod 8)) in
  if N.eqb (N.land temp 1) 1 then 1%N else 0%N.

Definition R_bytes : list byte := 0xe1%N :: zeros 15.             (* R := make(16); R[0] = 0xe1 *)

(* V := make([]byte, 16); copy(V, X) *)
Definition copy16 (X : list byte) : list byte := firstn 16 (X ++ zeros 16).

(* func multiplication(X, Y []byte) (Z []byte): for i := 0; i <= 127; i++ { ... }; the two statements of
   the loop body:  if findYi(Y, i) == 1 { Z = addition(Z, V) }
                   if V[BlockSize-1]&0x01 == 0 { Rightshift(V) } else { Rightshift(V); V = addition(V, R) } *)
Definition mult_step_Z (Y Z V : list byte) (i : nat) : list byte :=
  if N.eqb (findYi Y i) 1 then addition Z V else Z.
Definition mult_step_V (V : list byte) : list byte :=
  if N.eqb (N.land (nth (BlockSize - 1) V 0%N) 1) 0 then Rightshift V
  else addition (Rightshift V) R_bytes.
Fixpoint mult_loop (n i : nat) (Y Z V : list byte) : list byte :=
  match n with
  | O => Z
  | S n' => mult_loop n' (S i) Y (mult_step_Z Y Z V i) (mult_step_V V)
  end.
Definition multiplication (X Y : list byte) : list byte :=
  mult_loop 128 0 Y (zeros BlockSize) (copy16 X).

(* calculm_v (the same closure in GHASH, GCMEncrypt, GCMDecrypt) *)
Definition calculm_v (m v : nat) : nat * nat :=
  if (Nat.eqb m 0 && negb (Nat.eqb v 0))%bool then (1, v * 8)
  else if (negb (Nat.eqb m 0) && Nat.eqb v 0)%bool then (m, BlockSize * 8)
  else if (negb (Nat.eqb m 0) && negb (Nat.eqb v 0))%bool then (m + 1, v * 8)
  else (1, 0).

(* data[i*16 : i*16+16] (in range where it is used): ModesModel.blk *)

(* for i := lo; i <= hi; i++ { X_i = multiplication(addition(X_{i-1}, data[(i-off)*16 : ...]), H) };
   n = number of iterations left, j = i - off *)
Fixpoint ghash_loop (n j : nat) (data H X : list byte) : list byte :=
  match n with
  | O => X
  | S n' => ghash_loop n' (S j) data H (multiplication (addition X (blk data j)) H)
  end.

(* calculateLenToBytes: the 8 bytes of an int, most significant first *)
Definition calculateLenToBytes (len : N) : list byte :=
  [N.shiftr len 56 mod 256; N.shiftr len 48 mod 256; N.shiftr len 40 mod 256; N.shiftr len 32 mod 256;
   N.shiftr len 24 mod 256; N.shiftr len 16 mod 256; N.shiftr len 8 mod 256; len mod 256]%N.

(* the last, zero-padded block of A (resp. C): Am := make(v/8); copy(Am, A[(m-1)*16:]); append(Am, zeros((128-v)/8)) *)
Definition last_block (data : list byte) (m v : nat) : list byte :=
  let tail := skipn ((m - 1) * BlockSize) data in
  let Am := firstn (v / 8) (tail ++ zeros (v / 8)) in     (* copy into make(v/8) *)
  Am ++ zeros ((128 - v) / 8).

(* func GHASH(H []byte, A []byte, C []byte) (X []byte) *)
Definition GHASH (H A C : list byte) : list byte :=
  let '(m, v) := calculm_v (length A / BlockSize) (length A mod BlockSize) in
  let '(n, u) := calculm_v (length C / BlockSize) (length C mod BlockSize) in
  let X := zeros BlockSize in                                             (* X_0 *)
  let X := ghash_loop (m - 1) 0 A H X in                                  (* i = 1 .. m-1 *)
  let X := multiplication (addition X (last_block A m v)) H in            (* i = m *)
  let X := ghash_loop (n - 1) 0 C H X in                                  (* i = m+1 .. m+n-1 *)
  let X := if Nat.eqb u 0 then X                                          (* i = m+n; C empty: X_{m+n} = X_{m+n-1} *)
           else multiplication (addition X (last_block C n u)) H in
  let lenAB := calculateLenToBytes (N.of_nat (length A) * 8) ++ calculateLenToBytes (N.of_nat (length C) * 8) in
  multiplication (addition X lenAB) H.                                    (* i = m+n+1 *)

(* func GetY0(H, IV []byte) []byte *)
Definition GetY0 (H IV : list byte) : list byte :=
  if Nat.eqb (length IV * 8) 96 then IV ++ [0; 0; 0; 1]%N
  else GHASH H [] IV.

(* addYone: copy, then for i := Len-1; i >= Len-4; i-- { yii[i]++; if yii[i] != 0 { break } }
   on the reversed last four bytes: [carry_inc l] increments a little-endian byte string with wrap *)
Fixpoint carry_inc (l : list byte) : list byte :=
  match l with
  | [] => []
  | b :: r => let b' := ((b + 1) mod 256)%N in if N.eqb b' 0 then b' :: carry_inc r else b' :: r
  end.
Definition addYone (yi : list byte) : list byte :=
  let Len := length yi in
  firstn (Len - 4) yi ++ rev (carry_inc (rev (skipn (Len - 4) yi))).

(* func incr(n int, Y_i []byte) (Y_ii []byte): n counter blocks, as a list of blocks *)
Fixpoint incr_from (n : nat) (y : list byte) : list (list byte) :=
  match n with
  | O => []
  | S n' => y :: incr_from n' (addYone y)
  end.
Definition incr (n : nat) (Y_i : list byte) : list (list byte) := incr_from n (copy16 Y_i).

(* func MSB(len int, S []byte) []byte { return S[:len/8] } *)
Definition MSB (len : nat) (S : list byte) : outcome (list byte) :=
  if Nat.leb (len / 8) (length S) then Ok (firstn (len / 8) S) else Panic.

Section Cipher.
  Variable E : list byte -> list byte -> list byte.

  (* c.Encrypt(dst16, src): panics when src has fewer than 16 bytes *)
  Definition block_call (key src : list byte) : outcome (list byte) := ModesModel.block_call (E key) src.

  (* func GetH(key []byte) (H []byte): panic(err) when NewCipher fails *)
  Definition GetH (key : list byte) : outcome (list byte) :=
    if negb (Nat.eqb (length key) BlockSize) then Panic else block_call key (zeros BlockSize).

  (* for i := 1; i <= n-1; i++ { c.Encrypt(Enc, Y[i*16:...]); copy(C[(i-1)*16:...], addition(P[(i-1)*16:...], Enc)) } *)
  Fixpoint ctr_loop (k i : nat) (key : list byte) (Y : list (list byte)) (P out : list byte) : outcome (list byte) :=
    match k with
    | O => Ok out
    | S k' =>
      do Enc <- block_call key (nth i Y []);
      let piece := addition (blk P (i - 1)) Enc in
      ctr_loop k' (S i) key Y P (out ++ firstn 16 (piece ++ zeros 16))
    end.

  (* the part GCMEncrypt and GCMDecrypt share: counter-mode over the input with the blocks Y_1.. *)
  Definition ctr_crypt (key Y0 P : list byte) : outcome (list byte) :=
    let '(n, u) := calculm_v (length P / BlockSize) (length P mod BlockSize) in
    let Y := incr (n + 1) Y0 in
    do out <- ctr_loop (n - 1) 1 key Y P [];
    do Enc <- block_call key (nth n Y []);
    do o <- MSB u Enc;
    (* copy(C[(n-1)*16:], addition(P[(n-1)*16:], out)) into the zeroed rest of C *)
    let tail := skipn ((n - 1) * BlockSize) P in
    let piece := addition tail o in
    Ok (out ++ firstn (length tail) (piece ++ zeros (length tail))).

  Definition tag_of (key H Y0 A C : list byte) : outcome (list byte) :=
    do Enc <- block_call key Y0;
    MSB 128 (addition Enc (GHASH H A C)).

  (* func GCMEncrypt(K, IV, P, A []byte) (C, T []byte) *)
  Definition GCMEncrypt (K IV P A : list byte) : outcome (list byte * list byte) :=
    do H <- GetH K;
    let Y0 := GetY0 H IV in
    do C <- ctr_crypt K Y0 P;
    do T <- tag_of K H Y0 A C;
    Ok (C, T).

  (* func GCMDecrypt(K, IV, C, A []byte) (P, _T []byte): the tag is recomputed and RETURNED, not compared *)
  Definition GCMDecrypt (K IV C A : list byte) : outcome (list byte * list byte) :=
    do H <- GetH K;
    let Y0 := GetY0 H IV in
    do T <- tag_of K H Y0 A C;
    do P <- ctr_crypt K Y0 C;
    Ok (P, T).

  (* func Sm4GCM(key []byte, IV, in, A []byte, mode bool) ([]byte, []byte, error).  Err 1 = invalid key size *)
  Definition Sm4GCM (key IV in_ A : list byte) (mode : bool) : outcome (list byte * list byte) :=
    if negb (Nat.eqb (length key) BlockSize) then Err 1
    else if mode then GCMEncrypt key IV in_ A else GCMDecrypt key IV in_ A.
End Cipher.

(* ---------- sequences of calls on the package --------------------------------------------------------------- *)
(* sm4_gcm.go declares no package-level variable and its functions keep no reference to their arguments:
   what the package carries from one call to the next is nothing.  [gcm_state] is that state; every function
   takes and returns it, so that a history of calls is a fold and "each result depends only on the values of
   the arguments at call time" is a statement about [gcm_run]. *)
Definition gcm_state := unit.

Inductive gcm_fn := FnSm4GCM (mode : bool) | FnGCMEncrypt | FnGCMDecrypt | FnGetH.

(* the values the caller's slices hold when the call is made *)
Record gcm_call := mkCall { c_fn : gcm_fn; c_key : list byte; c_iv : list byte; c_in : list byte; c_a : list byte }.

Inductive gcm_result := RPair (x t : list byte) | RBlock (h : list byte).

Section History.
  Variable E : list byte -> list byte -> list byte.

  Definition gcm_do (st : gcm_state) (c : gcm_call) : outcome (gcm_state * gcm_result) :=
    match c_fn c with
    | FnSm4GCM mode => do '(x, t) <- Sm4GCM E (c_key c) (c_iv c) (c_in c) (c_a c) mode; Ok (st, RPair x t)
    | FnGCMEncrypt => do '(x, t) <- GCMEncrypt E (c_key c) (c_iv c) (c_in c) (c_a c); Ok (st, RPair x t)
    | FnGCMDecrypt => do '(x, t) <- GCMDecrypt E (c_key c) (c_iv c) (c_in c) (c_a c); Ok (st, RPair x t)
    | FnGetH => do h <- GetH E (c_key c); Ok (st, RBlock h)
    end.

  Fixpoint gcm_run (st : gcm_state) (calls : list gcm_call) : outcome (list gcm_result) :=
    match calls with
    | [] => Ok []
    | c :: rest =>
      do '(st', r) <- gcm_do st c;
      do rs <- gcm_run st' rest;
      Ok (r :: rs)
    end.
End History.
