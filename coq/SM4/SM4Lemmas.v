(* Facts about the GM/T 0002 specification (SM4/SM4Spec.v) that do not depend on the Go code or on the
   generated tables: bit-level lemmas, linearity of L and L', the S-box as a permutation, byte strings
   and words, the Feistel inversion argument.  Used by SM4Proofs.v (C05) and by the modes / GCM proofs. *)
From Coq Require Import List NArith Arith Bool Lia ZifyN ZifyNat ZifyBool Btauto.
From GmsmVerif Require Import SM4.SM4Spec.
Import ListNotations.
Open Scope N_scope.

(* ---------- bits ------------------------------------------------------------------------------------ *)
Definition w32 (x : N) : Prop := x < 4294967296.
Definition hi0 (x : N) : Prop := forall n, 32 <= n -> N.testbit x n = false.

Lemma lt_pow2_bits x k n : x < 2 ^ k -> k <= n -> N.testbit x n = false.
Proof.
  intros H Hn. rewrite <- (N.mod_small x (2 ^ k)) by exact H. apply N.mod_pow2_bits_high; exact Hn.
Qed.

Lemma bits_lt_pow2 x k : (forall n, k <= n -> N.testbit x n = false) -> x < 2 ^ k.
Proof.
  intros H. assert (E : x = x mod 2 ^ k).
  { apply N.bits_inj; intro n. destruct (N.ltb_spec n k) as [Hlt|Hge].
    - rewrite N.mod_pow2_bits_low by exact Hlt; reflexivity.
    - rewrite N.mod_pow2_bits_high by exact Hge. apply H; exact Hge. }
  rewrite E. apply N.mod_lt. apply N.pow_nonzero. discriminate.
Qed.

Lemma w32_hi0 x : w32 x -> hi0 x.
Proof. intros H n Hn. apply (lt_pow2_bits x 32); [exact H|exact Hn]. Qed.

Lemma hi0_w32 x : hi0 x -> w32 x.
Proof. intros H. apply (bits_lt_pow2 x 32). exact H. Qed.

Lemma hi0_lxor a b : hi0 a -> hi0 b -> hi0 (N.lxor a b).
Proof. intros Ha Hb n Hn. rewrite N.lxor_spec, Ha, Hb by exact Hn. reflexivity. Qed.

Lemma hi0_lor a b : hi0 a -> hi0 b -> hi0 (N.lor a b).
Proof. intros Ha Hb n Hn. rewrite N.lor_spec, Ha, Hb by exact Hn. reflexivity. Qed.

Lemma hi0_shiftr a k : hi0 a -> hi0 (N.shiftr a k).
Proof. intros Ha n Hn. rewrite N.shiftr_spec'. apply Ha. lia. Qed.

Lemma hi0_mask x : hi0 (N.land x mask32).
Proof.
  intros n Hn. rewrite N.land_spec.
  rewrite (lt_pow2_bits mask32 32 n) by (try exact Hn; reflexivity). apply andb_false_r.
Qed.

Lemma w32_lxor a b : w32 a -> w32 b -> w32 (N.lxor a b).
Proof. intros Ha Hb. apply hi0_w32, hi0_lxor; apply w32_hi0; assumption. Qed.

Lemma land_lxor_distr a b c : N.land (N.lxor a b) c = N.lxor (N.land a c) (N.land b c).
Proof. apply N.bits_inj; intro n. rewrite !N.land_spec, !N.lxor_spec, !N.land_spec. btauto. Qed.

Ltac xor_ac := apply N.bits_inj; intro; rewrite !N.lxor_spec; btauto.

Lemma land_mask_id x : w32 x -> N.land x mask32 = x.
Proof. intros H. change mask32 with (N.ones 32). rewrite N.land_ones. apply N.mod_small. exact H. Qed.

Lemma land255_lt x : N.land x 255 < 256.
Proof. change 255 with (N.ones 8). rewrite N.land_ones. apply N.mod_lt. discriminate. Qed.

(* disjoint lanes: lor = lxor = + *)
Lemma land_shiftl_disjoint a b k : b < 2 ^ k -> N.land (N.shiftl a k) b = 0.
Proof.
  intros Hb. apply N.bits_inj_0; intro n. rewrite N.land_spec.
  destruct (N.ltb_spec n k) as [Hlt|Hge].
  - rewrite N.shiftl_spec_low by exact Hlt. reflexivity.
  - rewrite (lt_pow2_bits b k n Hb Hge). apply andb_false_r.
Qed.

Lemma lor_shiftl_add a b k : b < 2 ^ k -> N.lor (N.shiftl a k) b = a * 2 ^ k + b.
Proof.
  intros Hb. rewrite <- N.lxor_lor by (apply land_shiftl_disjoint; exact Hb).
  rewrite <- N.add_nocarry_lxor by (apply land_shiftl_disjoint; exact Hb).
  rewrite N.shiftl_mul_pow2. reflexivity.
Qed.

Lemma lxor_shiftl_add a b k : b < 2 ^ k -> N.lxor (N.shiftl a k) b = a * 2 ^ k + b.
Proof.
  intros Hb. rewrite <- N.add_nocarry_lxor by (apply land_shiftl_disjoint; exact Hb).
  rewrite N.shiftl_mul_pow2. reflexivity.
Qed.

Lemma wob_add a0 a1 a2 a3 : a0 < 256 -> a1 < 256 -> a2 < 256 -> a3 < 256 ->
  word_of_bytes a0 a1 a2 a3 = a0 * 16777216 + a1 * 65536 + a2 * 256 + a3.
Proof.
  intros H0 H1 H2 H3. unfold word_of_bytes.
  rewrite (lor_shiftl_add a2 a3 8) by (change (2 ^ 8) with 256; lia).
  rewrite (lor_shiftl_add a1 _ 16) by (change (2 ^ 16) with 65536; change (2 ^ 8) with 256; lia).
  rewrite (lor_shiftl_add a0 _ 24) by (change (2 ^ 24) with 16777216; change (2 ^ 16) with 65536; change (2 ^ 8) with 256; lia).
  change (2 ^ 24) with 16777216; change (2 ^ 16) with 65536; change (2 ^ 8) with 256. lia.
Qed.

Lemma wob_xor a0 a1 a2 a3 : a0 < 256 -> a1 < 256 -> a2 < 256 -> a3 < 256 ->
  word_of_bytes a0 a1 a2 a3 = N.lxor (N.shiftl a0 24) (N.lxor (N.shiftl a1 16) (N.lxor (N.shiftl a2 8) a3)).
Proof.
  intros H0 H1 H2 H3. rewrite wob_add by assumption.
  rewrite (lxor_shiftl_add a2 a3 8) by (change (2 ^ 8) with 256; lia).
  rewrite (lxor_shiftl_add a1 _ 16) by (change (2 ^ 16) with 65536; change (2 ^ 8) with 256; lia).
  rewrite (lxor_shiftl_add a0 _ 24) by (change (2 ^ 24) with 16777216; change (2 ^ 16) with 65536; change (2 ^ 8) with 256; lia).
  change (2 ^ 24) with 16777216; change (2 ^ 16) with 65536; change (2 ^ 8) with 256. lia.
Qed.

Lemma wob_w32 a0 a1 a2 a3 : a0 < 256 -> a1 < 256 -> a2 < 256 -> a3 < 256 -> w32 (word_of_bytes a0 a1 a2 a3).
Proof. intros. rewrite wob_add by assumption. unfold w32. lia. Qed.

Lemma byte0_div w : byte0 w = (w / 16777216) mod 256.
Proof. unfold byte0. change 255 with (N.ones 8). rewrite N.land_ones, N.shiftr_div_pow2. reflexivity. Qed.
Lemma byte1_div w : byte1 w = (w / 65536) mod 256.
Proof. unfold byte1. change 255 with (N.ones 8). rewrite N.land_ones, N.shiftr_div_pow2. reflexivity. Qed.
Lemma byte2_div w : byte2 w = (w / 256) mod 256.
Proof. unfold byte2. change 255 with (N.ones 8). rewrite N.land_ones, N.shiftr_div_pow2. reflexivity. Qed.
Lemma byte3_div w : byte3 w = w mod 256.
Proof. unfold byte3. change 255 with (N.ones 8). rewrite N.land_ones. reflexivity. Qed.

Lemma wob_bytes w : w32 w -> word_of_bytes (byte0 w) (byte1 w) (byte2 w) (byte3 w) = w.
Proof.
  intros H. unfold w32 in H.
  rewrite wob_add by (first [apply land255_lt]).
  rewrite byte0_div, byte1_div, byte2_div, byte3_div. lia.
Qed.

Lemma bytes_wob a0 a1 a2 a3 : a0 < 256 -> a1 < 256 -> a2 < 256 -> a3 < 256 ->
  bytes_of_word (word_of_bytes a0 a1 a2 a3) = [a0; a1; a2; a3].
Proof.
  intros. unfold bytes_of_word. rewrite byte0_div, byte1_div, byte2_div, byte3_div.
  rewrite wob_add by assumption. repeat f_equal; lia.
Qed.

(* ---------- rotation and the linear transforms ----------------------------------------------------- *)
Lemma rotl32_xor_form x k : hi0 x -> k <= 32 ->
  rotl32 x k = N.lxor (N.land (N.shiftl x k) mask32) (N.shiftr x (32 - k)).
Proof.
  intros Hx Hk. unfold rotl32. symmetry. apply N.lxor_lor.
  apply N.bits_inj_0; intro n. rewrite N.land_spec, N.shiftr_spec'.
  destruct (N.ltb_spec n k) as [Hlt|Hge].
  - rewrite N.land_spec, N.shiftl_spec_low by exact Hlt. reflexivity.
  - rewrite Hx by lia. apply andb_false_r.
Qed.

Lemma rotl32_lxor a b k : hi0 a -> hi0 b -> k <= 32 ->
  rotl32 (N.lxor a b) k = N.lxor (rotl32 a k) (rotl32 b k).
Proof.
  intros Ha Hb Hk.
  rewrite !rotl32_xor_form by (try apply hi0_lxor; assumption).
  rewrite N.shiftl_lxor, N.shiftr_lxor, land_lxor_distr. xor_ac.
Qed.

Lemma hi0_rotl32 x k : hi0 x -> hi0 (rotl32 x k).
Proof. intros H. unfold rotl32. apply hi0_lor; [apply hi0_mask|apply hi0_shiftr; exact H]. Qed.

Lemma L_lxor a b : hi0 a -> hi0 b -> L (N.lxor a b) = N.lxor (L a) (L b).
Proof.
  intros Ha Hb. unfold L. rewrite !rotl32_lxor by (try assumption; lia). xor_ac.
Qed.

Lemma L'_lxor a b : hi0 a -> hi0 b -> L' (N.lxor a b) = N.lxor (L' a) (L' b).
Proof.
  intros Ha Hb. unfold L'. rewrite !rotl32_lxor by (try assumption; lia). xor_ac.
Qed.

Lemma hi0_L x : hi0 x -> hi0 (L x).
Proof. intros H. unfold L. repeat apply hi0_lxor; try apply hi0_rotl32; exact H. Qed.

Lemma hi0_L' x : hi0 x -> hi0 (L' x).
Proof. intros H. unfold L'. repeat apply hi0_lxor; try apply hi0_rotl32; exact H. Qed.

(* ---------- finite sweeps ---------------------------------------------------------------------------- *)
Definition range256 : list N := map N.of_nat (seq 0 256).

Lemma in_range256 b : b < 256 -> In b range256.
Proof.
  intros H. unfold range256. rewrite <- (N2Nat.id b). apply in_map. apply in_seq. lia.
Qed.

Lemma sweep256 (P : N -> bool) : forallb P range256 = true -> forall b, b < 256 -> P b = true.
Proof. intros H b Hb. rewrite forallb_forall in H. apply H, in_range256, Hb. Qed.

Lemma sbox_lt b : sbox b < 256.
Proof.
  unfold sbox. destruct (nth_in_or_default (N.to_nat b) Sbox 0) as [Hin| ->]; [|reflexivity].
  assert (H : forallb (fun y => y <? 256) Sbox = true) by (vm_compute; reflexivity).
  rewrite forallb_forall in H. apply N.ltb_lt, H, Hin.
Qed.

(* the generated tables against the standard *)
Fixpoint index_of (y : N) (l : list N) (i : N) : N :=
  match l with [] => i | x :: r => if N.eqb x y then i else index_of y r (N.succ i) end.
Definition sbox_inv (y : N) : N := index_of y Sbox 0.

Lemma sbox_inv_sbox b : b < 256 -> sbox_inv (sbox b) = b.
Proof.
  intros H. apply N.eqb_eq.
  apply (sweep256 (fun b => N.eqb (sbox_inv (sbox b)) b)); [vm_compute; reflexivity|exact H].
Qed.

Lemma sbox_sbox_inv y : y < 256 -> sbox (sbox_inv y) = y /\ sbox_inv y < 256.
Proof.
  intros H.
  assert (E : (N.eqb (sbox (sbox_inv y)) y && (sbox_inv y <? 256))%bool = true).
  { apply (sweep256 (fun y => (N.eqb (sbox (sbox_inv y)) y && (sbox_inv y <? 256))%bool)); [vm_compute; reflexivity|exact H]. }
  apply andb_true_iff in E as [E1 E2]. split; [apply N.eqb_eq, E1|apply N.ltb_lt, E2].
Qed.

(* the four T-tables: lane k of the word is served by sbox_k, i.e. sbox_k[b] = L(Sbox(b) << 8k) *)
Lemma shl_sbox_hi0 b k : k <= 24 -> hi0 (N.shiftl (sbox b) k).
Proof.
  intros Hk. apply w32_hi0. unfold w32. rewrite N.shiftl_mul_pow2.
  pose proof (sbox_lt b).
  assert (2 ^ k <= 2 ^ 24) by (apply N.pow_le_mono_r; [discriminate|exact Hk]).
  change (2 ^ 24) with 16777216 in *. nia.
Qed.

Lemma tau_xor x :
  tau x = N.lxor (N.shiftl (sbox (byte0 x)) 24) (N.lxor (N.shiftl (sbox (byte1 x)) 16)
                 (N.lxor (N.shiftl (sbox (byte2 x)) 8) (sbox (byte3 x)))).
Proof. unfold tau. apply wob_xor; apply sbox_lt. Qed.

Lemma tau_w32 x : w32 (tau x).
Proof. unfold tau. apply wob_w32; apply sbox_lt. Qed.

(* the T-table round function is the standard's T, for every word *)
Lemma T_hi0 x : hi0 (T x).
Proof. unfold T. apply hi0_L, w32_hi0, tau_w32. Qed.
Lemma T'_hi0 x : hi0 (T' x).
Proof. unfold T'. apply hi0_L', w32_hi0, tau_w32. Qed.

(* ---------- byte strings --------------------------------------------------------------------------- *)
Definition block16 (l : list N) : Prop := length l = 16%nat /\ bytes_ok l = true.

Lemma bytes_ok_nth l i : bytes_ok l = true -> nth i l 0 < 256.
Proof.
  intros H. destruct (nth_in_or_default i l 0) as [Hin| ->]; [|reflexivity].
  unfold bytes_ok in H. rewrite forallb_forall in H. apply N.ltb_lt, H, Hin.
Qed.

Ltac list16 l H :=
  do 16 (destruct l as [|? l]; [discriminate H|]); destruct l; [|discriminate H].

Definition state_w32 (s : state) : Prop :=
  let '(a, b, c, d) := s in w32 a /\ w32 b /\ w32 c /\ w32 d.

Lemma state_of_bytes_w32 l : bytes_ok l = true -> state_w32 (state_of_bytes l).
Proof.
  intros Hb. unfold state_of_bytes, word_at, state_w32.
  repeat split; apply wob_w32; apply bytes_ok_nth; exact Hb.
Qed.

Lemma state_bytes_state s : state_w32 s -> state_of_bytes (bytes_of_state s) = s.
Proof.
  destruct s as [[[a b] c] d]. intros (Ha & Hb & Hc & Hd).
  unfold state_of_bytes, bytes_of_state, bytes_of_word, word_at. cbn [app nth Nat.mul Nat.add].
  rewrite !wob_bytes by assumption. reflexivity.
Qed.

Lemma bytes_state_bytes l : length l = 16%nat -> bytes_ok l = true -> bytes_of_state (state_of_bytes l) = l.
Proof.
  intros Hl Hb.
  pose proof (fun i => bytes_ok_nth l i Hb) as Hn.
  list16 l Hl.
  pose proof (Hn 0%nat); pose proof (Hn 1%nat); pose proof (Hn 2%nat); pose proof (Hn 3%nat);
  pose proof (Hn 4%nat); pose proof (Hn 5%nat); pose proof (Hn 6%nat); pose proof (Hn 7%nat);
  pose proof (Hn 8%nat); pose proof (Hn 9%nat); pose proof (Hn 10%nat); pose proof (Hn 11%nat);
  pose proof (Hn 12%nat); pose proof (Hn 13%nat); pose proof (Hn 14%nat); pose proof (Hn 15%nat).
  cbn [nth] in *.
  unfold state_of_bytes, bytes_of_state, word_at. cbn [nth Nat.mul Nat.add].
  rewrite !bytes_wob by assumption. reflexivity.
Qed.

Lemma bytes_of_word_ok w : bytes_ok (bytes_of_word w) = true.
Proof.
  unfold bytes_ok, bytes_of_word, byte0, byte1, byte2, byte3. cbn [forallb].
  rewrite !(proj2 (N.ltb_lt _ _) (land255_lt _)). reflexivity.
Qed.

Lemma bytes_of_state_block16 s : block16 (bytes_of_state s).
Proof.
  destruct s as [[[a b] c] d]. split; [reflexivity|].
  unfold bytes_of_state, bytes_ok. rewrite !forallb_app.
  fold (bytes_ok (bytes_of_word a)); fold (bytes_ok (bytes_of_word b));
  fold (bytes_ok (bytes_of_word c)); fold (bytes_ok (bytes_of_word d)).
  rewrite !bytes_of_word_ok. reflexivity.
Qed.

(* ---------- the Feistel argument: for any round function and any round keys ------------------------- *)
Section Feistel.
  Variable f : N -> N.

  Lemma R_R s : R (R s) = s.
  Proof. destruct s as [[[a b] c] d]. reflexivity. Qed.

  Lemma round_R_round s k : round f (R (round f s k)) k = R s.
  Proof.
    destruct s as [[[x0 x1] x2] x3]. unfold round, R.
    replace (N.lxor x3 (N.lxor x2 (N.lxor x1 k))) with (N.lxor x1 (N.lxor x2 (N.lxor x3 k))) by xor_ac.
    f_equal. rewrite N.lxor_assoc, N.lxor_nilpotent, N.lxor_0_r. reflexivity.
  Qed.

  Lemma feistel_inverse rks : forall s,
    R (fold_left (round f) (rev rks) (R (fold_left (round f) rks s))) = s.
  Proof.
    induction rks as [|k rks IH] using rev_ind; intros s.
    - cbn. apply R_R.
    - rewrite rev_app_distr. cbn [rev app fold_left].
      rewrite (fold_left_app (round f) rks [k]). cbn [fold_left].
      rewrite round_R_round. apply IH.
  Qed.
End Feistel.

Lemma round_w32 f s k : (forall x, hi0 (f x)) -> state_w32 s -> state_w32 (round f s k).
Proof.
  intros Hf. destruct s as [[[a b] c] d]. intros (Ha & Hb & Hc & Hd). unfold round, state_w32.
  repeat split; try assumption. apply hi0_w32, hi0_lxor; [apply w32_hi0; exact Ha|apply Hf].
Qed.

Lemma rounds_w32 f rks : (forall x, hi0 (f x)) -> forall s, state_w32 s -> state_w32 (fold_left (round f) rks s).
Proof.
  intros Hf. induction rks as [|k rks IH]; intros s Hs; [exact Hs|].
  cbn [fold_left]. apply IH, round_w32; assumption.
Qed.

Lemma R_w32 s : state_w32 s -> state_w32 (R s).
Proof. destruct s as [[[a b] c] d]. unfold R, state_w32. tauto. Qed.

Lemma crypt_words_w32 rks s : state_w32 s -> state_w32 (crypt_words rks s).
Proof. intros H. unfold crypt_words. apply R_w32, rounds_w32; [exact T_hi0|exact H]. Qed.

Lemma decrypt_encrypt_rk rks blk : length blk = 16%nat -> bytes_ok blk = true ->
  sm4_decrypt_rk rks (sm4_encrypt_rk rks blk) = blk.
Proof.
  intros Hl Hb. unfold sm4_decrypt_rk, sm4_encrypt_rk, decrypt_words, encrypt_words.
  rewrite state_bytes_state by (apply crypt_words_w32, state_of_bytes_w32, Hb).
  unfold crypt_words. rewrite feistel_inverse. apply bytes_state_bytes; assumption.
Qed.

Lemma encrypt_decrypt_rk rks blk : length blk = 16%nat -> bytes_ok blk = true ->
  sm4_encrypt_rk rks (sm4_decrypt_rk rks blk) = blk.
Proof.
  intros Hl Hb. unfold sm4_decrypt_rk, sm4_encrypt_rk, decrypt_words, encrypt_words.
  rewrite state_bytes_state by (apply crypt_words_w32, state_of_bytes_w32, Hb).
  unfold crypt_words. rewrite <- (rev_involutive rks) at 1. rewrite feistel_inverse.
  apply bytes_state_bytes; assumption.
Qed.

Lemma bytes_ok_firstn n : forall l, bytes_ok l = true -> bytes_ok (firstn n l) = true.
Proof.
  induction n as [|n IH]; intros [|x l] H; try reflexivity.
  cbn [firstn bytes_ok forallb] in *. apply andb_true_iff in H as [H1 H2].
  rewrite H1. apply IH. exact H2.
Qed.

Lemma bytes_ok_skipn n : forall l, bytes_ok l = true -> bytes_ok (skipn n l) = true.
Proof.
  induction n as [|n IH]; intros [|x l] H; try reflexivity; try exact H.
  cbn [skipn]. apply IH. cbn [bytes_ok forallb] in H. apply andb_true_iff in H as [_ H2]. exact H2.
Qed.
