(* Algebra of the SP 800-38D multiplication (GCMSpec.gf_mul): it is additive in both operands and
   commutative on 128-bit blocks.  Commutativity is obtained from additivity and a complete sweep of
   the 128 x 128 pairs of basis elements (vm_compute). *)
From Coq Require Import List NArith Arith Bool Lia ZifyN ZifyNat ZifyBool Btauto.
From GmsmVerif Require Import SM4.SM4Lemmas SM4.GCMSpec SM4.GCMFieldSweep.
Import ListNotations.
Local Open Scope N_scope.

Definition b128 (x : N) : Prop := x < 2 ^ 128.

Lemma lxor_lt_pow2 a b k : a < 2 ^ k -> b < 2 ^ k -> N.lxor a b < 2 ^ k.
Proof.
  intros Ha Hb. apply bits_lt_pow2. intros n Hn.
  rewrite N.lxor_spec, (lt_pow2_bits a k n Ha Hn), (lt_pow2_bits b k n Hb Hn). reflexivity.
Qed.

Lemma b128_lxor a b : b128 a -> b128 b -> b128 (N.lxor a b).
Proof. apply lxor_lt_pow2. Qed.

Lemma R_b128 : b128 R.
Proof. unfold b128. vm_compute. reflexivity. Qed.

Lemma mulx_b128 v : b128 v -> b128 (mulx v).
Proof.
  intros H. unfold mulx.
  assert (Hs : b128 (N.shiftr v 1)).
  { unfold b128 in *. rewrite N.shiftr_div_pow2. change (2 ^ 1) with 2.
    apply N.le_lt_trans with v; [|exact H]. apply N.div_le_upper_bound; lia. }
  destruct (N.testbit v 0); [apply b128_lxor; [exact Hs|exact R_b128]|exact Hs].
Qed.

Lemma mul_loop_b128 k x : forall z v, b128 z -> b128 v -> b128 (mul_loop k x z v).
Proof.
  induction k as [|k IH]; intros z v Hz Hv; [exact Hz|].
  cbn [mul_loop]. apply IH; [|apply mulx_b128; exact Hv].
  destruct (N.testbit x (N.of_nat k)); [apply b128_lxor; assumption|exact Hz].
Qed.

Lemma gf_mul_b128 x y : b128 y -> b128 (gf_mul x y).
Proof. intros H. unfold gf_mul. apply mul_loop_b128; [unfold b128; vm_compute; reflexivity|exact H]. Qed.

(* ---------- additivity ---------------------------------------------------------------------------------- *)
Lemma mulx_lxor a b : mulx (N.lxor a b) = N.lxor (mulx a) (mulx b).
Proof.
  unfold mulx. rewrite N.lxor_spec, N.shiftr_lxor.
  generalize (N.shiftr a 1) (N.shiftr b 1) R. intros sa sb r.
  destruct (N.testbit a 0), (N.testbit b 0); cbn [xorb]; xor_ac.
Qed.

Lemma mul_loop_add_r k x : forall z1 z2 v1 v2,
  mul_loop k x (N.lxor z1 z2) (N.lxor v1 v2) = N.lxor (mul_loop k x z1 v1) (mul_loop k x z2 v2).
Proof.
  induction k as [|k IH]; intros z1 z2 v1 v2; [reflexivity|].
  cbn [mul_loop]. rewrite mulx_lxor. rewrite <- IH. f_equal.
  destruct (N.testbit x (N.of_nat k)); [xor_ac|reflexivity].
Qed.

Lemma mul_loop_add_l k : forall x1 x2 z1 z2 v,
  mul_loop k (N.lxor x1 x2) (N.lxor z1 z2) v = N.lxor (mul_loop k x1 z1 v) (mul_loop k x2 z2 v).
Proof.
  induction k as [|k IH]; intros x1 x2 z1 z2 v; [reflexivity|].
  cbn [mul_loop]. rewrite <- IH. f_equal. rewrite N.lxor_spec.
  destruct (N.testbit x1 (N.of_nat k)), (N.testbit x2 (N.of_nat k)); cbn [xorb]; xor_ac.
Qed.

Lemma gf_mul_add_r x a b : gf_mul x (N.lxor a b) = N.lxor (gf_mul x a) (gf_mul x b).
Proof. unfold gf_mul. rewrite <- mul_loop_add_r. reflexivity. Qed.

Lemma gf_mul_add_l a b y : gf_mul (N.lxor a b) y = N.lxor (gf_mul a y) (gf_mul b y).
Proof. unfold gf_mul. rewrite <- mul_loop_add_l. reflexivity. Qed.

Lemma mul_loop_zero_r k x : forall z, mul_loop k x z 0 = z.
Proof.
  induction k as [|k IH]; intros z; [reflexivity|].
  cbn [mul_loop]. change (mulx 0) with 0. rewrite IH.
  destruct (N.testbit x (N.of_nat k)); [apply N.lxor_0_r|reflexivity].
Qed.

Lemma gf_mul_0_r x : gf_mul x 0 = 0.
Proof. unfold gf_mul. apply mul_loop_zero_r. Qed.

Lemma mul_loop_zero_l k : forall z v, mul_loop k 0 z v = z.
Proof. induction k as [|k IH]; intros z v; [reflexivity|]. cbn [mul_loop]. rewrite N.bits_0. apply IH. Qed.

Lemma gf_mul_0_l y : gf_mul 0 y = 0.
Proof. unfold gf_mul. apply mul_loop_zero_l. Qed.

(* ---------- two additive functions that agree on the powers of two agree below 2^128 ------------------- *)
Definition additive (f : N -> N) : Prop := forall a b, f (N.lxor a b) = N.lxor (f a) (f b).

Lemma additive_0 f : additive f -> f 0 = 0.
Proof. intros H. pose proof (H 0 0) as E. rewrite N.lxor_0_r in E. rewrite E at 1. apply N.lxor_nilpotent. Qed.

Lemma additive_ext f g : additive f -> additive g ->
  (forall i, (i < 128)%nat -> f (2 ^ N.of_nat i) = g (2 ^ N.of_nat i)) ->
  forall k, (k <= 128)%nat -> forall x, x < 2 ^ N.of_nat k -> f x = g x.
Proof.
  intros Hf Hg Hb. induction k as [|k IH]; intros Hk x Hx.
  - change (2 ^ N.of_nat 0) with 1 in Hx. assert (x = 0) by lia. subst x.
    rewrite (additive_0 f Hf), (additive_0 g Hg). reflexivity.
  - set (K := N.of_nat k) in *.
    assert (Hp : 2 ^ N.of_nat (S k) = 2 * 2 ^ K) by (rewrite Nat2N.inj_succ, N.pow_succ_r'; reflexivity).
    rewrite Hp in Hx.
    assert (Hpos : 0 < 2 ^ K) by (apply N.neq_0_lt_0, N.pow_nonzero; discriminate).
    assert (Hx' : x = N.lxor (N.shiftl (x / 2 ^ K) K) (x mod 2 ^ K)).
    { rewrite lxor_shiftl_add by (apply N.mod_lt; lia).
      rewrite (N.div_mod x (2 ^ K)) at 1 by lia. lia. }
    assert (Hq : x / 2 ^ K < 2) by (apply N.div_lt_upper_bound; lia).
    assert (Hlo : f (x mod 2 ^ K) = g (x mod 2 ^ K)) by (apply IH; [lia|apply N.mod_lt; lia]).
    rewrite Hx', Hf, Hg, Hlo. f_equal.
    assert (Hc : x / 2 ^ K = 0 \/ x / 2 ^ K = 1).
    { generalize dependent (x / 2 ^ K). intros q _ Hq. lia. }
    destruct Hc as [-> | ->].
    + rewrite N.shiftl_0_l. rewrite (additive_0 f Hf), (additive_0 g Hg). reflexivity.
    + rewrite N.shiftl_1_l. apply Hb. lia.
Qed.

(* ---------- commutativity --------------------------------------------------------------------------------- *)
Lemma basis_comm i j : (i < 128)%nat -> (j < 128)%nat ->
  gf_mul (2 ^ N.of_nat i) (2 ^ N.of_nat j) = gf_mul (2 ^ N.of_nat j) (2 ^ N.of_nat i).
Proof.
  intros Hi Hj.
  assert (Hin : In (i, j) basis_pairs).
  { unfold basis_pairs. apply in_prod; apply in_seq; lia. }
  apply pair_ok_sound.
  exact (proj1 (forallb_forall pair_ok basis_pairs) basis_comm_sweep (i, j) Hin).
Qed.

Lemma gf_mul_comm_basis i y : (i < 128)%nat -> b128 y ->
  gf_mul (2 ^ N.of_nat i) y = gf_mul y (2 ^ N.of_nat i).
Proof.
  intros Hi Hy.
  apply (additive_ext (fun y => gf_mul (2 ^ N.of_nat i) y) (fun y => gf_mul y (2 ^ N.of_nat i))) with (k := 128%nat).
  - intros a b. apply gf_mul_add_r.
  - intros a b. apply gf_mul_add_l.
  - intros j Hj. apply basis_comm; assumption.
  - lia.
  - exact Hy.
Qed.

Theorem gf_mul_comm x y : b128 x -> b128 y -> gf_mul x y = gf_mul y x.
Proof.
  intros Hx Hy.
  apply (additive_ext (fun x => gf_mul x y) (fun x => gf_mul y x)) with (k := 128%nat).
  - intros a b. apply gf_mul_add_l.
  - intros a b. apply gf_mul_add_r.
  - intros i Hi. apply gf_mul_comm_basis; assumption.
  - lia.
  - exact Hx.
Qed.
