(* Proofs about the model of sm4.go (SM4/SM4Model.v): the generated tables against the standard, the
   T-table round, the unrolled loops against the specification, the key schedule, histories, aliasing.
   Table-free facts are in SM4/SM4Lemmas.v.  Property theorems are restated in Props/C05.v. *)
From Coq Require Import List NArith Arith Bool Lia ZifyN ZifyNat ZifyBool Btauto.
From GmsmVerif Require Import Lib.Outcome Gen.SM4Tables SM4.SM4Spec SM4.SM4Model.
From GmsmVerif Require Export SM4.SM4Lemmas.
Import ListNotations.
Open Scope N_scope.

Lemma gen_sbox_is_Sbox : gen_sbox = Sbox.
Proof. vm_compute. reflexivity. Qed.

Lemma gen_fk_is_FK : gen_fk = FK.
Proof. vm_compute. reflexivity. Qed.

Lemma gen_ck_is_CKs : gen_ck = CKs.
Proof. vm_compute. reflexivity. Qed.

Lemma gen_BlockSize_is_16 : gen_BlockSize = 16.
Proof. vm_compute. reflexivity. Qed.

(* index of the first occurrence *)
Definition tt_ok (b : N) : bool :=
  (N.eqb (nth (N.to_nat b) gen_sbox0 0) (L (sbox b)) &&
   N.eqb (nth (N.to_nat b) gen_sbox1 0) (L (N.shiftl (sbox b) 8)) &&
   N.eqb (nth (N.to_nat b) gen_sbox2 0) (L (N.shiftl (sbox b) 16)) &&
   N.eqb (nth (N.to_nat b) gen_sbox3 0) (L (N.shiftl (sbox b) 24)))%bool.

Lemma ttables_sweep : forallb tt_ok range256 = true.
Proof. vm_compute. reflexivity. Qed.

Lemma ttables b : b < 256 ->
  nth (N.to_nat b) gen_sbox0 0 = L (sbox b) /\
  nth (N.to_nat b) gen_sbox1 0 = L (N.shiftl (sbox b) 8) /\
  nth (N.to_nat b) gen_sbox2 0 = L (N.shiftl (sbox b) 16) /\
  nth (N.to_nat b) gen_sbox3 0 = L (N.shiftl (sbox b) 24).
Proof.
  intros H. pose proof (sweep256 tt_ok ttables_sweep b H) as E. unfold tt_ok in E.
  repeat (apply andb_true_iff in E as [E ?]).
  repeat split; apply N.eqb_eq; assumption.
Qed.

Lemma tt_is_T x : tt x = T x.
Proof.
  unfold T. rewrite tau_xor.
  assert (H0 : hi0 (sbox (byte3 x))) by (rewrite <- (N.shiftl_0_r (sbox (byte3 x))); apply shl_sbox_hi0; lia).
  pose proof (shl_sbox_hi0 (byte2 x) 8 ltac:(lia)) as H1.
  pose proof (shl_sbox_hi0 (byte1 x) 16 ltac:(lia)) as H2.
  pose proof (shl_sbox_hi0 (byte0 x) 24 ltac:(lia)) as H3.
  rewrite !L_lxor by (repeat apply hi0_lxor; assumption).
  destruct (ttables (byte0 x) (land255_lt _)) as (_ & _ & _ & E3).
  destruct (ttables (byte1 x) (land255_lt _)) as (_ & _ & E2 & _).
  destruct (ttables (byte2 x) (land255_lt _)) as (_ & E1 & _ & _).
  destruct (ttables (byte3 x) (land255_lt _)) as (E0 & _ & _ & _).
  rewrite <- E0, <- E1, <- E2, <- E3. unfold tt, byte0, byte1, byte2, byte3. xor_ac.
Qed.

Lemma u32_shl_byte a k : a < 256 -> k <= 24 -> u32 (N.shiftl a k) = N.shiftl a k.
Proof.
  intros Ha Hk. apply land_mask_id. unfold w32. rewrite N.shiftl_mul_pow2.
  assert (2 ^ k <= 2 ^ 24) by (apply N.pow_le_mono_r; [discriminate|exact Hk]).
  change (2 ^ 24) with 16777216 in *. nia.
Qed.

Lemma be32_wob a0 a1 a2 a3 : a0 < 256 -> a1 < 256 -> a2 < 256 -> a3 < 256 ->
  be32 a0 a1 a2 a3 = word_of_bytes a0 a1 a2 a3.
Proof.
  intros. unfold be32, word_of_bytes. rewrite !u32_shl_byte by (try assumption; lia).
  rewrite <- !N.lor_assoc. reflexivity.
Qed.

Lemma permuteInitialBlock_spec l : length l = 16%nat -> bytes_ok l = true ->
  permuteInitialBlock l = Ok (state_of_bytes l).
Proof.
  intros Hl Hb.
  pose proof (fun i => bytes_ok_nth l i Hb) as Hn.
  list16 l Hl.
  pose proof (Hn 0%nat); pose proof (Hn 1%nat); pose proof (Hn 2%nat); pose proof (Hn 3%nat);
  pose proof (Hn 4%nat); pose proof (Hn 5%nat); pose proof (Hn 6%nat); pose proof (Hn 7%nat);
  pose proof (Hn 8%nat); pose proof (Hn 9%nat); pose proof (Hn 10%nat); pose proof (Hn 11%nat);
  pose proof (Hn 12%nat); pose proof (Hn 13%nat); pose proof (Hn 14%nat); pose proof (Hn 15%nat).
  cbn [nth] in *.
  unfold permuteInitialBlock, state_of_bytes, word_at. cbn [nth Nat.mul Nat.add].
  rewrite !be32_wob by assumption. reflexivity.
Qed.

(* ---------- the unrolled loops of cryptBlock --------------------------------------------------------- *)
Lemma enc_iter_spec k0 k1 k2 k3 b :
  enc_iter [k0; k1; k2; k3] b = round T (round T (round T (round T b k0) k1) k2) k3.
Proof.
  destruct b as [[[b0 b1] b2] b3]. unfold enc_iter, round. cbn [nth]. cbv zeta.
  rewrite !tt_is_T.
  replace (N.lxor (N.lxor (N.lxor b1 b2) b3) k0) with (N.lxor b1 (N.lxor b2 (N.lxor b3 k0))) by xor_ac.
  set (d0 := N.lxor b0 (T _)).
  replace (N.lxor (N.lxor (N.lxor d0 b2) b3) k1) with (N.lxor b2 (N.lxor b3 (N.lxor d0 k1))) by xor_ac.
  set (d1 := N.lxor b1 (T _)).
  replace (N.lxor (N.lxor (N.lxor d0 d1) b3) k2) with (N.lxor b3 (N.lxor d0 (N.lxor d1 k2))) by xor_ac.
  set (d2 := N.lxor b2 (T _)).
  replace (N.lxor (N.lxor (N.lxor d1 d2) d0) k3) with (N.lxor d0 (N.lxor d1 (N.lxor d2 k3))) by xor_ac.
  reflexivity.
Qed.

Lemma dec_iter_spec k0 k1 k2 k3 b :
  dec_iter [k0; k1; k2; k3] b = round T (round T (round T (round T b k3) k2) k1) k0.
Proof.
  destruct b as [[[b0 b1] b2] b3]. unfold dec_iter, round. cbn [nth]. cbv zeta.
  rewrite !tt_is_T.
  replace (N.lxor (N.lxor (N.lxor b1 b2) b3) k3) with (N.lxor b1 (N.lxor b2 (N.lxor b3 k3))) by xor_ac.
  set (d0 := N.lxor b0 (T _)).
  replace (N.lxor (N.lxor (N.lxor d0 b2) b3) k2) with (N.lxor b2 (N.lxor b3 (N.lxor d0 k2))) by xor_ac.
  set (d1 := N.lxor b1 (T _)).
  replace (N.lxor (N.lxor (N.lxor d0 d1) b3) k1) with (N.lxor b3 (N.lxor d0 (N.lxor d1 k1))) by xor_ac.
  set (d2 := N.lxor b2 (T _)).
  replace (N.lxor (N.lxor (N.lxor d1 d2) d0) k0) with (N.lxor d0 (N.lxor d1 (N.lxor d2 k0))) by xor_ac.
  reflexivity.
Qed.

Ltac list32 l H :=
  do 32 (destruct l as [|? l]; [discriminate H|]); destruct l; [|discriminate H].

Lemma enc_loop_spec sk b : length sk = 32%nat -> enc_loop 8 0 sk b = Ok (fold_left (round T) sk b).
Proof.
  intros H. list32 sk H.
  cbv -[enc_iter round N.lxor T].
  rewrite !enc_iter_spec. reflexivity.
Qed.

Lemma dec_loop_spec sk b : length sk = 32%nat -> dec_loop 8 0 sk b = Ok (fold_left (round T) (rev sk) b).
Proof.
  intros H. list32 sk H.
  cbv -[dec_iter round N.lxor T].
  rewrite !dec_iter_spec. reflexivity.
Qed.

Lemma copy_same_length (dst src : list N) : length dst = length src -> copy dst src = src.
Proof.
  intros H. unfold copy. rewrite H, Nat.min_id, firstn_all.
  rewrite <- H, skipn_all. apply app_nil_r.
Qed.

Lemma permuteFinalBlock_spec s : permuteFinalBlock s = bytes_of_state s.
Proof. destruct s as [[[a b] c] d]. reflexivity. Qed.

Lemma cryptBlock_spec sk b_in r_in dst src d :
  length sk = 32%nat -> length r_in = 16%nat -> length dst = 16%nat -> block16 src ->
  cryptBlock sk b_in r_in dst src d =
    let out := if d then sm4_decrypt_rk sk src else sm4_encrypt_rk sk src in
    Ok (state_of_bytes out, out, out).
Proof.
  intros Hsk Hr Hd [Hl Hb]. unfold cryptBlock.
  rewrite permuteInitialBlock_spec by assumption. cbn [obind].
  assert (E : (if d then dec_loop 8 0 sk (state_of_bytes src) else enc_loop 8 0 sk (state_of_bytes src))
              = Ok (fold_left (round T) (if d then rev sk else sk) (state_of_bytes src))).
  { destruct d; [apply dec_loop_spec|apply enc_loop_spec]; exact Hsk. }
  rewrite E. cbn [obind].
  destruct (fold_left (round T) (if d then rev sk else sk) (state_of_bytes src)) as [[[b0 b1] b2] b3] eqn:Ef.
  rewrite permuteFinalBlock_spec.
  assert (Eo : bytes_of_state (b3, b2, b1, b0) = if d then sm4_decrypt_rk sk src else sm4_encrypt_rk sk src).
  { unfold sm4_decrypt_rk, sm4_encrypt_rk, decrypt_words, encrypt_words, crypt_words.
    destruct d; rewrite Ef; reflexivity. }
  rewrite (copy_same_length r_in) by (rewrite Hr; reflexivity).
  rewrite (copy_same_length dst) by (rewrite Hd; reflexivity).
  cbv zeta. rewrite <- Eo.
  rewrite state_bytes_state; [reflexivity|].
  pose proof (rounds_w32 T (if d then rev sk else sk) T_hi0 _ (state_of_bytes_w32 src Hb)) as Hw.
  rewrite Ef in Hw. unfold state_w32 in *. tauto.
Qed.

(* ---------- the key schedule ---------------------------------------------------------------------------- *)
Lemma l0_is_L' b : l0 b = L' b.
Proof. unfold l0, L'. change (rl b 13) with (rotl32 b 13). change (rl b 23) with (rotl32 b 23). xor_ac. Qed.

Lemma shiftr24_byte0 a : w32 a -> N.shiftr a 24 = byte0 a.
Proof. intros H. unfold w32 in H. rewrite byte0_div, N.shiftr_div_pow2. change (2 ^ 24) with 16777216. lia. Qed.

Lemma p_is_tau a : w32 a -> p a = tau a.
Proof.
  intros H. unfold p, sbox_at. rewrite gen_sbox_is_Sbox. rewrite (shiftr24_byte0 a H).
  fold (byte1 a) (byte2 a) (byte3 a).
  fold (sbox (byte0 a)) (sbox (byte1 a)) (sbox (byte2 a)) (sbox (byte3 a)).
  rewrite !u32_shl_byte by (try apply sbox_lt; lia).
  rewrite tau_xor. xor_ac.
Qed.

Lemma feistel0_spec x0 x1 x2 x3 rk : w32 x1 -> w32 x2 -> w32 x3 -> w32 rk ->
  feistel0 x0 x1 x2 x3 rk = N.lxor x0 (T' (N.lxor x1 (N.lxor x2 (N.lxor x3 rk)))).
Proof.
  intros H1 H2 H3 Hk. unfold feistel0, T'.
  replace (N.lxor (N.lxor (N.lxor x1 x2) x3) rk) with (N.lxor x1 (N.lxor x2 (N.lxor x3 rk))) by xor_ac.
  rewrite p_is_tau by (repeat apply w32_lxor; assumption).
  rewrite l0_is_L'. reflexivity.
Qed.

Lemma subkey_loop_spec cks : Forall w32 cks -> forall b, state_w32 b -> subkey_loop cks b = key_rounds cks b.
Proof.
  induction 1 as [|ck cks Hck Hcks IH]; intros b Hb; [reflexivity|].
  destruct b as [[[b0 b1] b2] b3]. destruct Hb as (H0 & H1 & H2 & H3).
  cbn [subkey_loop key_rounds round].
  rewrite feistel0_spec by assumption. f_equal. apply IH.
  unfold state_w32. repeat split; try assumption.
  apply hi0_w32, hi0_lxor; [apply w32_hi0; exact H0|apply T'_hi0].
Qed.

Lemma CKs_w32 : Forall w32 CKs.
Proof.
  apply Forall_forall. intros x Hx.
  assert (H : forallb (fun y => y <? 4294967296) CKs = true) by (vm_compute; reflexivity).
  rewrite forallb_forall in H. apply N.ltb_lt, H, Hx.
Qed.

Lemma generateSubKeys_spec key : length key = 16%nat -> bytes_ok key = true ->
  generateSubKeys key = Ok (sm4_round_keys key).
Proof.
  intros Hl Hb. unfold generateSubKeys. rewrite permuteInitialBlock_spec by assumption. cbn [obind].
  unfold sm4_round_keys, expand_key.
  pose proof (state_of_bytes_w32 key Hb) as Hw.
  destruct (state_of_bytes key) as [[[m0 m1] m2] m3]. destruct Hw as (H0 & H1 & H2 & H3).
  rewrite gen_fk_is_FK, gen_ck_is_CKs. f_equal. apply subkey_loop_spec; [exact CKs_w32|].
  unfold state_w32. repeat split; apply w32_lxor; try assumption; vm_compute; reflexivity.
Qed.

Lemma key_rounds_length cks : forall k, length (key_rounds cks k) = length cks.
Proof.
  induction cks as [|c cks IH]; intros k; [reflexivity|].
  cbn [key_rounds]. destruct (round T' k c) as [[[a b] c'] d]. cbn [length]. rewrite IH. reflexivity.
Qed.

Lemma round_keys_length key : length (sm4_round_keys key) = 32%nat.
Proof.
  unfold sm4_round_keys, expand_key. destruct (state_of_bytes key) as [[[a b] c] d].
  rewrite key_rounds_length. reflexivity.
Qed.

Lemma NewCipher_spec key : length key = 16%nat -> bytes_ok key = true ->
  NewCipher key = Ok (mkCipher (sm4_round_keys key)).
Proof.
  intros Hl Hb. unfold NewCipher. rewrite Hl. cbn [N.to_nat gen_BlockSize Pos.to_nat Pos.iter_op Nat.add Nat.eqb negb].
  rewrite generateSubKeys_spec by assumption. reflexivity.
Qed.

Lemma permuteInitialBlock_total l : length l = 16%nat -> exists s, permuteInitialBlock l = Ok s.
Proof. intros E. list16 l E. cbn [permuteInitialBlock]. eexists. reflexivity. Qed.

Lemma NewCipher_total key : length key = 16%nat -> exists c, NewCipher key = Ok c.
Proof.
  intros E. unfold NewCipher. change (N.to_nat gen_BlockSize) with 16%nat. rewrite E. cbn [Nat.eqb negb].
  unfold generateSubKeys. destruct (permuteInitialBlock_total key E) as [[[[a b] c] d] ->].
  cbn [obind]. eexists. reflexivity.
Qed.

Lemma NewCipher_err_iff key : (exists e, NewCipher key = Err e) <-> length key <> 16%nat.
Proof.
  split.
  - intros [e He] E. destruct (NewCipher_total key E) as [c Hc]. rewrite Hc in He. discriminate He.
  - intros E. unfold NewCipher. change (N.to_nat gen_BlockSize) with 16%nat.
    rewrite (proj2 (Nat.eqb_neq _ _) E). cbn [negb]. exists 1%nat. reflexivity.
Qed.

(* ---------- Encrypt / Decrypt, histories, aliasing --------------------------------------------------- *)
Lemma Encrypt_spec key dst src : length dst = 16%nat -> block16 src ->
  Encrypt (mkCipher (sm4_round_keys key)) dst src = Ok (mkCipher (sm4_round_keys key), sm4_encrypt_block key src).
Proof.
  intros Hd Hs. unfold Encrypt, sm4_encrypt_block. cbn [subkeys].
  rewrite cryptBlock_spec by (try assumption; try reflexivity; apply round_keys_length).
  cbv zeta. cbn [obind]. reflexivity.
Qed.

Lemma Decrypt_spec key dst src : length dst = 16%nat -> block16 src ->
  Decrypt (mkCipher (sm4_round_keys key)) dst src = Ok (mkCipher (sm4_round_keys key), sm4_decrypt_block key src).
Proof.
  intros Hd Hs. unfold Decrypt, sm4_decrypt_block. cbn [subkeys].
  rewrite cryptBlock_spec by (try assumption; try reflexivity; apply round_keys_length).
  cbv zeta. cbn [obind]. reflexivity.
Qed.

Definition spec_op (key : list N) (op : bool * list N) : list N :=
  if fst op then sm4_decrypt_block key (snd op) else sm4_encrypt_block key (snd op).

Lemma run_history_spec key ops : Forall (fun op => block16 (snd op)) ops ->
  run_history (mkCipher (sm4_round_keys key)) ops = Ok (map (spec_op key) ops).
Proof.
  induction 1 as [|[d blk] ops Hop Hops IH]; [reflexivity|].
  cbn [run_history snd] in *.
  destruct d.
  - rewrite Decrypt_spec by (try reflexivity; exact Hop). cbn [obind]. rewrite IH.
    cbn [obind map]. unfold spec_op at 2. cbn [fst snd]. reflexivity.
  - rewrite Encrypt_spec by (try reflexivity; exact Hop). cbn [obind]. rewrite IH.
    cbn [obind map]. unfold spec_op at 2. cbn [fst snd]. reflexivity.
Qed.

Lemma slice_ok {A} (l : list A) lo n : (lo + n <= length l)%nat -> slice l lo (lo + n) = Ok (firstn n (skipn lo l)).
Proof.
  intros H. unfold slice.
  rewrite (proj2 (Nat.leb_le lo (lo + n))) by lia.
  rewrite (proj2 (Nat.leb_le (lo + n) (length l))) by exact H.
  cbn [andb]. replace (lo + n - lo)%nat with n by lia. reflexivity.
Qed.

Lemma slice16_block16 mem off : (off + 16 <= length mem)%nat -> bytes_ok mem = true ->
  block16 (firstn 16 (skipn off mem)).
Proof.
  intros H Hb. split.
  - rewrite firstn_length, skipn_length. lia.
  - apply bytes_ok_firstn, bytes_ok_skipn, Hb.
Qed.

Lemma crypt_mem_spec key mem doff soff d :
  (soff + 16 <= length mem)%nat -> (doff + 16 <= length mem)%nat -> bytes_ok mem = true ->
  crypt_mem (mkCipher (sm4_round_keys key)) mem doff soff d =
    Ok (firstn doff mem ++ spec_op key (d, firstn 16 (skipn soff mem)) ++ skipn (doff + 16) mem).
Proof.
  intros Hs Hd Hb. unfold crypt_mem. rewrite !slice_ok by assumption. cbn [obind subkeys].
  rewrite cryptBlock_spec.
  - cbv zeta. cbn [obind]. unfold spec_op, fst, snd, sm4_decrypt_block, sm4_encrypt_block. reflexivity.
  - apply round_keys_length.
  - reflexivity.
  - rewrite firstn_length, skipn_length. lia.
  - apply slice16_block16; assumption.
Qed.

(* the cipher.Block of sm4.go, on 16-byte keys and blocks, is the specification's pair of functions *)
Lemma go_cipher_is_spec key blk : block16 key -> block16 blk ->
  go_encrypt key blk = sm4_encrypt_block key blk /\ go_decrypt key blk = sm4_decrypt_block key blk.
Proof.
  intros [Hk1 Hk2] Hb. unfold go_encrypt, go_decrypt. rewrite (NewCipher_spec key Hk1 Hk2). cbn [obind].
  rewrite Encrypt_spec, Decrypt_spec by (try reflexivity; exact Hb). split; reflexivity.
Qed.
