(* Semantic tie of the mode helpers: the statement-by-statement translation of Sm4Ecb / Sm4Cbc / Sm4CFB / Sm4OFB of
   sm4/sm4.go (Gen/ModesCode.v, regenerated from the source on every run) computes the hand-written model
   (ModesModel.v) for ALL keys, inputs, IVs and both modes.  Slice bounds, loop bounds and buffer lengths are
   compared as values (lia), never by position: naming or hoisting a sub-expression, renaming a local, or writing
   16 as BlockSize leaves these proofs unchanged, while a changed offset, bound, operand, operation order or
   feedback assignment makes a lemma below fail.  Restated in Props/C11.v. *)
From Coq Require Import List NArith Arith Bool Lia String.
From GmsmVerif Require Import Lib.Outcome SM4.ModesModel SM4.ModesCodeLib Gen.ModesCode.
Import ListNotations.
Local Open Scope nat_scope.

(* ---------- lists ------------------------------------------------------------------------------------------------ *)
Lemma skipn_repeat_n {A} (x : A) : forall n k, skipn k (repeat x n) = repeat x (n - k).
Proof.
  induction n as [|n IH]; intros [|k]; cbn [skipn repeat Nat.sub]; try reflexivity. apply IH.
Qed.

Lemma firstn_repeat_n {A} (x : A) : forall n k, firstn k (repeat x n) = repeat x (Nat.min k n).
Proof.
  induction n as [|n IH]; intros [|k]; cbn [firstn repeat Nat.min]; try reflexivity. now rewrite IH.
Qed.

Lemma slice_blk l lo hi i : lo = 16 * i -> hi = 16 * i + 16 -> slice l lo hi = blk l i.
Proof. intros -> ->. unfold slice, blk. now replace (16 * i + 16 - 16 * i) with 16 by lia. Qed.

Lemma slice_prefix l lo hi k : lo = 0 -> hi = k -> slice l lo hi = firstn k l.
Proof. intros -> ->. unfold slice. now rewrite Nat.sub_0_r. Qed.

Lemma win_ok lo hi i : lo = 16 * i -> hi = 16 * i + 16 -> (Nat.eqb lo (16 * i) && Nat.eqb hi (16 * i + 16))%bool = true.
Proof. intros -> ->. now rewrite !Nat.eqb_refl. Qed.

(* iv := make([]byte, 16); copy(iv, currentIV()) *)
Lemma copy_l_zeros16 l : copy_l (repeat 0%N 16) l = firstn 16 (l ++ zeros16).
Proof.
  unfold copy_l, zeros16. rewrite repeat_length, firstn_app, skipn_repeat_n, firstn_repeat_n.
  destruct (Nat.le_ge_cases 16 (List.length l)) as [H|H].
  - rewrite (Nat.min_l 16) by exact H. replace (16 - 16) with 0 by lia. replace (16 - List.length l) with 0 by lia.
    reflexivity.
  - rewrite (Nat.min_r 16) by exact H. rewrite (firstn_all2 (n := 16)) by exact H. rewrite firstn_all.
    now rewrite Nat.min_l by lia.
Qed.

Lemma copy_l_full dst src : List.length dst = List.length src -> copy_l dst src = src.
Proof.
  intros H. unfold copy_l. rewrite H, Nat.min_id, firstn_all. rewrite <- H, skipn_all. apply app_nil_r.
Qed.

(* ---------- loops ------------------------------------------------------------------------------------------------- *)
Definition step_rel {A B} (R : A -> B -> Prop) (x : outcome (A * list N)) (y : outcome (B * list N)) : Prop :=
  match x, y with
  | Ok (a, o), Ok (b, o') => R a b /\ o = o'
  | Err e, Err e' => e = e'
  | Panic, Panic => True
  | Hang, Hang => True
  | _, _ => False
  end.

Lemma for_loop_rel {A B} (R : A -> B -> Prop) (f : nat -> A -> outcome (A * list N)) (g : nat -> B -> outcome (B * list N)) :
  (forall i a b, R a b -> step_rel R (f i a) (g i b)) ->
  forall n i a b acc, R a b -> for_loop f n i a acc = for_loop g n i b acc.
Proof.
  intros H. induction n as [|n IH]; intros i a b acc HR; cbn [for_loop]; [reflexivity|].
  specialize (H i a b HR). unfold step_rel in H.
  destruct (f i a) as [[a' o]| | |], (g i b) as [[b' o']| | |]; cbn [obind]; try contradiction; try congruence.
  destruct H as [HR' ->]. now apply IH.
Qed.

(* out = make([]byte, L); the loop writes window i in iteration i; then k runs on out *)
Lemma loop_tie {A B} (R : A -> B -> Prop) gs ms n (a : A) (b : B) L (k1 k2 : list N -> outcome (list N)) :
  R a b -> (forall x, k1 x = k2 x) ->
  (forall i a b, R a b -> step_rel R (win_step gs i a) (ms i b)) ->
  (do out <- (do acc <- for_loop (win_step gs) n 0 a []; Ok (acc ++ skipn (16 * n) (repeat 0%N L))); k1 out) =
  (do o <- for_loop ms n 0 b []; k2 (o ++ repeat 0%N (L - 16 * n))).
Proof.
  intros HR Hk Hs. rewrite (for_loop_rel R _ ms Hs n 0 a b [] HR).
  destruct (for_loop ms n 0 b []); cbn [obind]; try reflexivity. now rewrite skipn_repeat_n, Hk.
Qed.

Lemma obind_ret {A} (m : outcome A) : (do x <- m; Ok x) = m.
Proof. now destruct m. Qed.

Lemma drop_err_unpad x : (do out <- drop_err (pkcs7UnPadding x); Ok out) = unpad_or_nil x.
Proof. unfold drop_err, unpad_or_nil. now destruct (pkcs7UnPadding x). Qed.

(* ---------- tactics ----------------------------------------------------------------------------------------------- *)
(* every slice of the loop body is block i, block i-1, or a 16-byte prefix - as values *)
Ltac norm_slices i :=
  repeat match goal with
  | |- context [slice ?l ?lo ?hi] =>
      first [ rewrite (slice_blk l lo hi i) by lia
            | rewrite (slice_blk l lo hi (i - 1)) by lia
            | rewrite (slice_prefix l lo hi 16) by lia ]
  end.

Ltac open_calls :=
  repeat match goal with
  | |- context [block_call ?c ?x] => destruct (block_call c x); cbn [obind step_rel]
  end.

Ltac step_start i := unfold win_step; cbv zeta; norm_slices i.
Ltac step_end i := open_calls; norm_slices i; rewrite ?win_ok by lia; cbn [obind step_rel]; auto.

Ltac enter :=
  match goal with |- context [negb (Nat.eqb ?a ?b)] => destruct (negb (Nat.eqb a b)); [reflexivity|] end.

(* ---------- Sm4Ecb ---------------------------------------------------------------------------------------------- *)
Lemma gen_Sm4Ecb_eq E D p key in_ mode :
  gen_Sm4Ecb (E key) (D key) (IV p) key in_ mode = Sm4Ecb E D p key in_ mode.
Proof.
  unfold gen_Sm4Ecb, Sm4Ecb, helper, Sm4Ecb_core. enter.
  destruct mode; cbv zeta; cbn [obind]; unfold loop_out, finish; cbn [Nat.eqb]; rewrite obind_ret, ?Nat.sub_0_r, ?repeat_length.
  - apply (loop_tie eq); [reflexivity | reflexivity |].
    intros i a b ->. step_start i. step_end i.
  - apply (loop_tie eq); [reflexivity | intros x; apply drop_err_unpad |].
    intros i a b ->. step_start i. step_end i.
Qed.

(* ---------- Sm4Cbc ---------------------------------------------------------------------------------------------- *)
Lemma gen_Sm4Cbc_eq E D p key in_ mode :
  gen_Sm4Cbc (E key) (D key) (IV p) key in_ mode = Sm4Cbc E D p key in_ mode.
Proof.
  unfold gen_Sm4Cbc, Sm4Cbc, helper, Sm4Cbc_core. enter.
  destruct mode; cbv zeta; cbn [obind]; unfold loop_out, finish; cbn [Nat.eqb];
    rewrite obind_ret, ?Nat.sub_0_r, ?repeat_length, copy_l_zeros16.
  - apply (loop_tie eq); [reflexivity | reflexivity |].
    intros i a b ->. step_start i. step_end i.
  - apply (loop_tie eq); [reflexivity | intros x; apply drop_err_unpad |].
    intros i a b ->. step_start i. step_end i.
Qed.

(* ---------- Sm4CFB: the translated state is (K, cipherBlock) resp. (K, plainBlock); K is overwritten before it is
   read, plainBlock is never read ------------------------------------------------------------------------------- *)
Lemma gen_Sm4CFB_eq E D p key in_ mode :
  gen_Sm4CFB (E key) (D key) (IV p) key in_ mode = Sm4CFB E p key in_ mode.
Proof.
  unfold gen_Sm4CFB, Sm4CFB, helper, Sm4CFB_core. enter.
  destruct mode; cbv zeta; cbn [obind]; unfold loop_out, finish; cbn [Nat.eqb]; rewrite obind_ret, ?Nat.sub_0_r, ?repeat_length.
  - apply (loop_tie (fun (a : list N * list N) (b : list N) => snd a = b)); [reflexivity | reflexivity |].
    intros i [K c] b Hc; cbn [snd] in Hc; subst b. step_start i.
    destruct (Nat.eqb i 0); step_end i.
  - apply (loop_tie (fun (a : list N * list N) (b : unit) => True)); [exact I | intros x; apply drop_err_unpad |].
    intros i [K c] b _. step_start i.
    destruct (Nat.eqb i 0) eqn:Ei; [step_end i|].
    apply Nat.eqb_neq in Ei. destruct (Nat.ltb_spec i 1) as [Hlt|_]; [lia|]. step_end i.
Qed.

(* ---------- Sm4OFB: copy(shiftIV, K[:BlockSize]) replaces shiftIV when the cipher returns 16 bytes ------------- *)
Lemma gen_Sm4OFB_eq E D p key in_ mode :
  (forall b, List.length (E key b) = 16) ->
  gen_Sm4OFB (E key) (D key) (IV p) key in_ mode = Sm4OFB E p key in_ mode.
Proof.
  intros HE.
  assert (HK : forall src K, block_call (E key) src = Ok K -> List.length (firstn 16 K) = 16).
  { intros src K. unfold block_call. destruct (Nat.ltb (List.length src) 16); [discriminate|].
    intros [= <-]. rewrite firstn_length, HE. reflexivity. }
  unfold gen_Sm4OFB, Sm4OFB, helper, Sm4OFB_core. enter.
  destruct mode; cbv zeta; cbn [obind]; unfold loop_out, finish; cbn [Nat.eqb]; rewrite obind_ret, ?Nat.sub_0_r, ?repeat_length.
  - apply (loop_tie (fun (a : list N * list N * list N) (b : list N) => snd a = b /\ List.length b = 16));
      [split; reflexivity | reflexivity |].
    intros i [[K c] sh] b [Hs Hl]; cbn [snd] in Hs; subst b. unfold ofb_step. step_start i.
    destruct (Nat.eqb i 0);
      match goal with |- context [block_call ?c ?x] => destruct (block_call c x) as [K'| | |] eqn:EK; cbn [obind step_rel]; auto end;
      norm_slices i; rewrite ?win_ok by lia; cbn [obind step_rel snd];
      rewrite copy_l_full by (rewrite Hl; symmetry; exact (HK _ _ EK)); (split; [split|]; [reflexivity | exact (HK _ _ EK) | reflexivity]).
  - apply (loop_tie (fun (a : list N * list N * list N) (b : list N) => snd a = b /\ List.length b = 16));
      [split; reflexivity | intros x; apply drop_err_unpad |].
    intros i [[K c] sh] b [Hs Hl]; cbn [snd] in Hs; subst b. unfold ofb_step. step_start i.
    destruct (Nat.eqb i 0);
      match goal with |- context [block_call ?c ?x] => destruct (block_call c x) as [K'| | |] eqn:EK; cbn [obind step_rel]; auto end;
      norm_slices i; rewrite ?win_ok by lia; cbn [obind step_rel snd];
      rewrite copy_l_full by (rewrite Hl; symmetry; exact (HK _ _ EK)); (split; [split|]; [reflexivity | exact (HK _ _ EK) | reflexivity]).
Qed.

(* ---------- xor, pkcs7Padding (leaf functions) ------------------------------------------------------------------- *)
Lemma set_nth_length {A} (v : A) : forall l i, List.length (set_nth l i v) = List.length l.
Proof. induction l as [|x l IH]; intros [|i]; cbn [set_nth List.length]; try reflexivity. now rewrite IH. Qed.

Lemma firstn_S_set_nth {A} (v : A) : forall l i, i < List.length l -> firstn (S i) (set_nth l i v) = firstn i l ++ [v].
Proof.
  induction l as [|x l IH]; intros [|i] H; cbn [List.length] in H; try lia.
  - reflexivity.
  - cbn [set_nth]. rewrite firstn_cons, (IH i) by lia. reflexivity.
Qed.

Lemma fill_from_spec f : forall n i out, i + n = List.length out ->
  fill_from out f n i = Ok (firstn i out ++ map f (seq i n)).
Proof.
  induction n as [|n IH]; intros i out H; cbn [fill_from seq map].
  - rewrite Nat.add_0_r in H. subst i. now rewrite firstn_all, app_nil_r.
  - assert (Hlt : i < List.length out) by lia.
    destruct (Nat.ltb_spec i (List.length out)) as [_|Hge]; [|lia].
    rewrite IH by (rewrite set_nth_length; lia).
    rewrite firstn_S_set_nth by exact Hlt. now rewrite <- app_assoc.
Qed.

Lemma zip_xor_map : forall a b, List.length a = List.length b ->
  map (fun i => N.lxor (nth i a 0%N) (nth i b 0%N)) (seq 0 (List.length a)) = zip_xor a b.
Proof.
  induction a as [|x a IH]; intros [|y b] H; cbn [List.length] in H; try discriminate; [reflexivity|].
  cbn [List.length seq map zip_xor nth]. f_equal. rewrite <- seq_shift, map_map. cbn [nth]. apply IH. lia.
Qed.

(* the source's xor returns what the model's xor returns (and does not panic) for all operands *)
Lemma gen_xor_eq a b : gen_xor a b = Ok (xor a b).
Proof.
  unfold gen_xor, xor. cbv zeta. destruct (Nat.eqb_spec (List.length a) (List.length b)) as [H|H]; cbn [negb]; [|reflexivity].
  rewrite Nat.sub_0_r, fill_from_spec by (rewrite repeat_length; reflexivity).
  cbn [firstn app obind]. now rewrite zip_xor_map.
Qed.

Lemma gen_pkcs7Padding_eq src : gen_pkcs7Padding src = Ok (pkcs7Padding src).
Proof.
  unfold gen_pkcs7Padding, pkcs7Padding. cbv zeta.
  destruct (Nat.ltb_spec 16 (List.length src mod 16)) as [H|_].
  - pose proof (Nat.mod_upper_bound (List.length src) 16). lia.
  - now rewrite copy_l_full by apply repeat_length.
Qed.

(* ---------- pkcs7UnPadding ------------------------------------------------------------------------------------------ *)
Lemma nth_last_N : forall (l : list N) d, nth (List.length l - 1) l d = last l d.
Proof.
  induction l as [|x l IH]; intros d; [reflexivity|].
  destruct l as [|y l]; [reflexivity|]. specialize (IH d). cbn [List.length Nat.sub] in *.
  rewrite Nat.sub_0_r in *. exact IH.
Qed.

Lemma exists_from_shift h : forall n i, exists_from (fun j => h (S j)) n i = exists_from h n (S i).
Proof. induction n as [|n IH]; intros i; cbn [exists_from]; [reflexivity|]. now rewrite IH. Qed.

Lemma exists_from_forallb (q : N -> bool) d : forall l,
  exists_from (fun i => negb (q (nth i l d))) (List.length l) 0 = negb (forallb q l).
Proof.
  induction l as [|x l IH]; [reflexivity|]. cbn [List.length exists_from forallb nth].
  destruct (q x); cbn [negb andb]; [|reflexivity].
  rewrite <- (exists_from_shift (fun i => negb (q (nth i (x :: l) d)))). cbn [nth]. exact IH.
Qed.

(* the source's pkcs7UnPadding: same value, same error class (1 empty, 2 pad value 0 or > 16, 3 a pad byte differs),
   same out-of-range panic as the model's, for every byte string *)
Lemma gen_pkcs7UnPadding_eq src : gen_pkcs7UnPadding src = pkcs7UnPadding src.
Proof.
  unfold gen_pkcs7UnPadding, pkcs7UnPadding. cbv zeta.
  destruct (Nat.eqb (List.length src) 0) eqn:E0; [reflexivity|]. apply Nat.eqb_neq in E0.
  destruct (Nat.ltb_spec (List.length src) 1) as [H|_]; [lia|].
  rewrite nth_last_N. set (u := N.to_nat (last src 0%N)).
  destruct (Nat.ltb 16 u || Nat.eqb u 0)%bool eqn:E2; [reflexivity|].
  apply orb_false_iff in E2. destruct E2 as [E2 E3]. apply Nat.ltb_ge in E2. apply Nat.eqb_neq in E3.
  destruct (Nat.ltb_spec (List.length src) u) as [H|H]; [reflexivity|].
  assert (Hs : slice src (List.length src - u) (List.length src) = skipn (List.length src - u) src).
  { unfold slice. apply firstn_all2. rewrite skipn_length. lia. }
  rewrite Hs, Nat.sub_0_r.
  assert (Hl : List.length (skipn (List.length src - u) src) = u) by (rewrite skipn_length; lia).
  pose proof (exists_from_forallb (fun v => N.eqb v (N.of_nat u mod 256)%N) 0%N (skipn (List.length src - u) src)) as Hx.
  rewrite Hl in Hx. cbv beta in Hx. rewrite Hx. clear Hx.
  rewrite N.mod_small by lia.
  destruct (forallb _ _); cbn [negb]; [|reflexivity].
  unfold slice. cbn [skipn]. now rewrite Nat.sub_0_r.
Qed.

Lemma modescode_translated : gen_modescode_errors = [].
Proof. reflexivity. Qed.
