(* Proofs about the mode helpers of sm4.go (model SM4/ModesModel.v) against SP 800-38A / PKCS#7
   (SM4/ModesSpec.v), for an abstract block cipher; the instantiation by SM4 is at the end.
   Property theorems are restated in Props/C11.v. *)
From Coq Require Import List NArith Arith Bool Lia ZifyN ZifyNat ZifyBool.
From GmsmVerif Require Import Lib.Outcome SM4.SM4Spec SM4.SM4Lemmas SM4.ModesSpec SM4.ModesModel.
Import ListNotations.
Local Open Scope nat_scope.

(* ---------- strings ------------------------------------------------------------------------------------ *)
Lemma zip_xor_is_xor_bytes a : forall b, zip_xor a b = xor_bytes a b.
Proof. induction a as [|x a IH]; intros [|y b]; reflexivity. Qed.

Lemma xor_eq_len a b : length a = length b -> xor a b = xor_bytes a b.
Proof. intros H. unfold xor. rewrite H, Nat.eqb_refl. apply zip_xor_is_xor_bytes. Qed.

Lemma xor_bytes_length a : forall b, length a = length b -> length (xor_bytes a b) = length a.
Proof. induction a as [|x a IH]; intros [|y b] H; try reflexivity; try discriminate. cbn. rewrite IH; [reflexivity|]. cbn in H. lia. Qed.

Lemma xor_bytes_invol a : forall b, length a = length b -> xor_bytes (xor_bytes a b) b = a.
Proof.
  induction a as [|x a IH]; intros [|y b] H; try reflexivity; try discriminate.
  cbn. rewrite IH by (cbn in H; lia). rewrite N.lxor_assoc, N.lxor_nilpotent, N.lxor_0_r. reflexivity.
Qed.

Lemma xor_bytes_invol_l a : forall b, length a = length b -> xor_bytes (xor_bytes a b) a = b.
Proof.
  induction a as [|x a IH]; intros [|y b] H; try reflexivity; try discriminate.
  cbn. rewrite IH by (cbn in H; lia). f_equal.
  rewrite (N.lxor_comm x y), N.lxor_assoc, N.lxor_nilpotent, N.lxor_0_r. reflexivity.
Qed.

Lemma lxor_byte x y : (x < 256 -> y < 256 -> N.lxor x y < 256)%N.
Proof.
  intros Hx Hy. apply (bits_lt_pow2 _ 8). intros n Hn.
  rewrite N.lxor_spec, (lt_pow2_bits x 8 n Hx Hn), (lt_pow2_bits y 8 n Hy Hn). reflexivity.
Qed.

Lemma xor_bytes_ok a : forall b, bytes_ok a = true -> bytes_ok b = true -> bytes_ok (xor_bytes a b) = true.
Proof.
  induction a as [|x a IH]; intros [|y b] Ha Hb; try reflexivity.
  cbn [bytes_ok forallb xor_bytes] in *.
  apply andb_true_iff in Ha as [Hx Ha]. apply andb_true_iff in Hb as [Hy Hb].
  apply andb_true_iff. split; [|apply IH; assumption].
  apply N.ltb_lt, lxor_byte; apply N.ltb_lt; assumption.
Qed.

Lemma bytes_ok_app a b : bytes_ok (a ++ b) = (bytes_ok a && bytes_ok b)%bool.
Proof. unfold bytes_ok. apply forallb_app. Qed.

Lemma bytes_ok_repeat v n : (v < 256)%N -> bytes_ok (repeat v n) = true.
Proof.
  intros H. induction n as [|n IH]; [reflexivity|]. cbn [repeat bytes_ok forallb]. fold (bytes_ok (repeat v n)).
  rewrite IH, (proj2 (N.ltb_lt _ _) H). reflexivity.
Qed.

Lemma slot16_id x : length x = 16 -> slot16 x = x.
Proof.
  intros H. unfold slot16. rewrite firstn_app. replace (16 - length x) with 0 by lia.
  rewrite firstn_O, app_nil_r, <- H. apply firstn_all.
Qed.

(* ---------- padding ------------------------------------------------------------------------------------- *)
Lemma pad_len_range n : 1 <= pad_len n <= 16.
Proof. unfold pad_len, BS. pose proof (Nat.mod_upper_bound n 16). lia. Qed.

Lemma pkcs7Padding_is_pad m : pkcs7Padding m = pkcs7_pad m.
Proof.
  unfold pkcs7Padding, pkcs7_pad. fold BS. fold (pad_len (length m)).
  pose proof (pad_len_range (length m)). rewrite N.mod_small by lia. reflexivity.
Qed.

Lemma pkcs7_pad_length m : length (pkcs7_pad m) = 16 * (length m / 16 + 1).
Proof.
  unfold pkcs7_pad. rewrite app_length, repeat_length. unfold pad_len, BS.
  pose proof (Nat.div_mod_eq (length m) 16). pose proof (Nat.mod_upper_bound (length m) 16). lia.
Qed.

Lemma pkcs7_pad_ok m : bytes_ok m = true -> bytes_ok (pkcs7_pad m) = true.
Proof.
  intros H. unfold pkcs7_pad. rewrite bytes_ok_app, H. cbn [andb]. apply bytes_ok_repeat.
  pose proof (pad_len_range (length m)). lia.
Qed.

Lemma last_app_repeat (m : list N) v k : 1 <= k -> last (m ++ repeat v k) 0%N = v.
Proof.
  intros Hk. destruct k as [|k]; [lia|].
  replace (repeat v (S k)) with (repeat v k ++ [v]).
  - rewrite app_assoc. apply last_last.
  - clear. induction k as [|k IH]; [reflexivity|]. cbn [repeat app] in *. rewrite IH. reflexivity.
Qed.

Lemma forallb_repeat_eqb (v : N) k : forallb (fun x => N.eqb x v) (repeat v k) = true.
Proof. induction k as [|k IH]; [reflexivity|]. cbn. rewrite N.eqb_refl, IH. reflexivity. Qed.

Lemma unpad_padded m k : 1 <= k <= 16 -> pkcs7UnPadding (m ++ repeat (N.of_nat k) k) = Ok m.
Proof.
  intros Hk. unfold pkcs7UnPadding.
  rewrite app_length, repeat_length.
  destruct (Nat.eqb_spec (length m + k) 0) as [|_]; [lia|].
  rewrite last_app_repeat by lia. rewrite Nat2N.id.
  destruct (Nat.ltb_spec 16 k) as [|_]; [lia|].
  destruct (Nat.eqb_spec k 0) as [|_]; [lia|]. cbn [orb].
  destruct (Nat.ltb_spec (length m + k) k) as [|_]; [lia|].
  replace (length m + k - k) with (length m) by lia.
  rewrite skipn_app, skipn_all, Nat.sub_diag. cbn [skipn app].
  rewrite forallb_repeat_eqb.
  rewrite firstn_app, firstn_all, Nat.sub_diag. cbn [firstn]. rewrite app_nil_r. reflexivity.
Qed.

Lemma unpad_pad m : pkcs7UnPadding (pkcs7_pad m) = Ok m.
Proof. unfold pkcs7_pad. apply unpad_padded, pad_len_range. Qed.

Lemma forallb_eqb_repeat (v : N) l : forallb (fun x => N.eqb x v) l = true -> l = repeat v (length l).
Proof.
  induction l as [|x l IH]; [reflexivity|]. cbn. intros H. apply andb_true_iff in H as [H1 H2].
  apply N.eqb_eq in H1. subst x. rewrite <- IH by exact H2. reflexivity.
Qed.

(* whatever pkcs7UnPadding accepts ends in one valid pad, and it returns the rest *)
Lemma unpad_sound s m : pkcs7UnPadding s = Ok m -> pkcs7_padded s m.
Proof.
  unfold pkcs7UnPadding.
  destruct (Nat.eqb_spec (length s) 0) as [|Hne]; [discriminate|].
  set (k := N.to_nat (last s 0%N)).
  destruct (Nat.ltb_spec 16 k) as [|Hk1]; [discriminate|].
  destruct (Nat.eqb_spec k 0) as [|Hk0]; [discriminate|]. cbn [orb].
  destruct (Nat.ltb_spec (length s) k) as [|Hk2]; [discriminate|].
  destruct (forallb _ _) eqn:Hall; [|discriminate].
  intros [= <-]. exists k. split; [unfold BS; lia|].
  apply forallb_eqb_repeat in Hall. rewrite skipn_length in Hall.
  replace (length s - (length s - k)) with k in Hall by lia.
  rewrite <- Hall. symmetry. apply firstn_skipn.
Qed.

(* ---------- blocks --------------------------------------------------------------------------------------- *)
Lemma skipn_skipn_add {A} (a b : nat) : forall l : list A, skipn a (skipn b l) = skipn (b + a) l.
Proof.
  induction b as [|b IH]; intros l; [reflexivity|].
  destruct l as [|x l]; cbn [skipn Nat.add]; [destruct a; reflexivity|apply IH].
Qed.

Lemma blk_skipn l i : blk (skipn 16 l) i = blk l (S i).
Proof. unfold blk. rewrite skipn_skipn_add. f_equal. f_equal. lia. Qed.

Lemma blocks_fuel_S fuel l : l <> [] -> blocks_fuel (S fuel) l = firstn BS l :: blocks_fuel fuel (skipn BS l).
Proof. destruct l; [congruence|reflexivity]. Qed.

Lemma len_nonnil {A} (l : list A) n : length l = 16 * S n -> l <> [].
Proof. intros H E. subst l. cbn [length] in H. lia. Qed.

Lemma blocks_fuel_map n : forall l fuel, length l = 16 * n -> n <= fuel ->
  blocks_fuel fuel l = map (blk l) (seq 0 n).
Proof.
  induction n as [|n IH]; intros l fuel Hl Hf.
  - destruct l; [|cbn [length] in Hl; lia]. destruct fuel; reflexivity.
  - destruct fuel as [|fuel]; [lia|].
    rewrite blocks_fuel_S by (apply (len_nonnil l n Hl)).
    change (seq 0 (S n)) with (0 :: seq 1 n). cbn [map].
    replace (blk l 0) with (firstn BS l) by (unfold blk, BS; rewrite Nat.mul_0_r; reflexivity).
    f_equal. rewrite (IH (skipn BS l) fuel).
    + rewrite <- seq_shift, map_map. apply map_ext. intros i. apply blk_skipn.
    + rewrite skipn_length. unfold BS. lia.
    + lia.
Qed.

Lemma blocks_map l n : length l = 16 * n -> blocks l = map (blk l) (seq 0 n).
Proof. intros H. unfold blocks. apply blocks_fuel_map; [exact H|lia]. Qed.

Lemma blk_length l i n : length l = 16 * n -> i < n -> length (blk l i) = 16.
Proof. intros Hl Hi. unfold blk. rewrite firstn_length, skipn_length. lia. Qed.

Lemma blk_ok l i : bytes_ok l = true -> bytes_ok (blk l i) = true.
Proof. intros H. unfold blk. apply bytes_ok_firstn, bytes_ok_skipn, H. Qed.

Definition block_ok (b : list N) : Prop := length b = 16 /\ bytes_ok b = true.

Lemma blocks_ok l n : length l = 16 * n -> bytes_ok l = true -> Forall block_ok (blocks l).
Proof.
  intros Hl Hb. rewrite (blocks_map l n Hl). apply Forall_forall. intros b Hin.
  apply in_map_iff in Hin as (i & <- & Hi). apply in_seq in Hi.
  split; [apply (blk_length l i n); [exact Hl|lia]|apply blk_ok, Hb].
Qed.

Lemma concat_blocks_fuel n : forall l fuel, length l = 16 * n -> n <= fuel -> concat (blocks_fuel fuel l) = l.
Proof.
  induction n as [|n IH]; intros l fuel Hl Hf.
  - destruct l; [|cbn [length] in Hl; lia]. destruct fuel; reflexivity.
  - destruct fuel as [|fuel]; [lia|].
    rewrite blocks_fuel_S by (apply (len_nonnil l n Hl)).
    cbn [concat]. rewrite IH.
    + apply firstn_skipn.
    + rewrite skipn_length. unfold BS. lia.
    + lia.
Qed.

Lemma concat_blocks l n : length l = 16 * n -> concat (blocks l) = l.
Proof. intros H. unfold blocks. apply (concat_blocks_fuel n); [exact H|lia]. Qed.

Lemma finish_full inData out n : length inData = 16 * n -> finish inData out = out.
Proof.
  intros H. unfold finish. replace (length inData / 16) with n by (rewrite H, Nat.mul_comm, Nat.div_mul; lia).
  rewrite H, Nat.sub_diag. apply app_nil_r.
Qed.

Lemma div16 (l : list N) n : length l = 16 * n -> length l / 16 = n.
Proof. intros H. rewrite H, Nat.mul_comm, Nat.div_mul; lia. Qed.

(* ---------- the loops as machines over the block list ----------------------------------------------------- *)
Fixpoint mealy {A} (g : A -> list N -> A * list N) (a : A) (bs : list (list N)) : list (list N) :=
  match bs with
  | [] => []
  | b :: r => let '(a', o) := g a b in o :: mealy g a' r
  end.

Lemma for_loop_mealy {St A} (step : nat -> St -> outcome (St * list N)) (g : A -> list N -> A * list N)
      (Rel : nat -> St -> A -> Prop) (inData : list N) (N : nat) :
  (forall i st a, Rel i st a -> i < N ->
     exists st', step i st = Ok (st', snd (g a (blk inData i))) /\
                 Rel (S i) st' (fst (g a (blk inData i))) /\ length (snd (g a (blk inData i))) = 16) ->
  forall n i st a acc, Rel i st a -> i + n = N ->
    for_loop step n i st acc = Ok (acc ++ concat (mealy g a (map (blk inData) (seq i n)))).
Proof.
  intros Hstep. induction n as [|n IH]; intros i st a acc HR Hn.
  - cbn. rewrite app_nil_r. reflexivity.
  - cbn [for_loop seq map mealy].
    destruct (Hstep i st a HR ltac:(lia)) as (st' & Hs & HR' & Hl). rewrite Hs. cbn [obind].
    destruct (g a (blk inData i)) as [a' o] eqn:Eg. cbn [fst snd] in *.
    rewrite (IH (S i) st' a' _ HR') by lia.
    rewrite slot16_id by exact Hl. cbn [concat]. rewrite app_assoc. reflexivity.
Qed.

Lemma firstn16_id (x : list N) : length x = 16 -> firstn 16 x = x.
Proof. intros H. rewrite <- H. apply firstn_all. Qed.

Lemma block_call_ok c src : length src = 16 -> block_call c src = Ok (c src).
Proof.
  intros H. unfold block_call. rewrite (proj2 (Nat.ltb_ge _ _)) by lia.
  rewrite <- H, firstn_all. reflexivity.
Qed.

Section Cipher.
  Variables E D : list N -> list N -> list N.
  Hypothesis E_len : forall k b, length (E k b) = 16.
  Hypothesis D_len : forall k b, length (D k b) = 16.
  Hypothesis E_ok : forall k b, bytes_ok (E k b) = true.
  Hypothesis DE : forall k b, length b = 16 -> bytes_ok b = true -> D k (E k b) = b.

  (* the textbook modes as machines *)
  Lemma ecb_enc_mealy c bs : ecb_encrypt c bs = mealy (fun (_ : unit) b => (tt, c b)) tt bs.
  Proof. induction bs as [|b r IH]; [reflexivity|]. cbn. rewrite <- IH. reflexivity. Qed.

  Lemma cbc_enc_mealy c bs : forall iv, cbc_encrypt c iv bs = mealy (fun iv b => let o := c (xor_bytes b iv) in (o, o)) iv bs.
  Proof. induction bs as [|b r IH]; intros iv; [reflexivity|]. cbn. rewrite <- IH. reflexivity. Qed.

  Lemma cbc_dec_mealy c bs : forall iv, cbc_decrypt c iv bs = mealy (fun iv b => (b, xor_bytes (c b) iv)) iv bs.
  Proof. induction bs as [|b r IH]; intros iv; [reflexivity|]. cbn. rewrite <- IH. reflexivity. Qed.

  Lemma cfb_enc_mealy c bs : forall iv, cfb_encrypt c iv bs = mealy (fun iv b => let o := xor_bytes b (c iv) in (o, o)) iv bs.
  Proof. induction bs as [|b r IH]; intros iv; [reflexivity|]. cbn. rewrite <- IH. reflexivity. Qed.

  Lemma cfb_dec_mealy c bs : forall iv, cfb_decrypt c iv bs = mealy (fun iv b => (b, xor_bytes b (c iv))) iv bs.
  Proof. induction bs as [|b r IH]; intros iv; [reflexivity|]. cbn. rewrite <- IH. reflexivity. Qed.

  Lemma ofb_mealy c bs : forall iv, ofb_crypt c iv bs = mealy (fun iv b => let o := c iv in (o, xor_bytes b o)) iv bs.
  Proof. induction bs as [|b r IH]; intros iv; [reflexivity|]. cbn. rewrite <- IH. reflexivity. Qed.

  Variables (p : pkg) (key inData : list N) (n : nat).
  Hypothesis IV_len : length (IV p) = 16.
  Hypothesis in_len : length inData = 16 * n.

  Lemma iv_copy : firstn 16 (IV p ++ zeros16) = IV p.
  Proof.
    rewrite firstn_app. replace (16 - length (IV p)) with 0 by lia.
    rewrite firstn_O, app_nil_r, <- IV_len. apply firstn_all.
  Qed.

  Lemma xor_comm_bytes a : forall b, xor_bytes a b = xor_bytes b a.
  Proof. induction a as [|x a IH]; intros [|y b]; try reflexivity. cbn. rewrite IH, N.lxor_comm. reflexivity. Qed.

  (* --- CBC --- *)
  Lemma cbc_enc_loop :
    Sm4Cbc_core E D p key inData true = Ok (concat (cbc_encrypt (E key) (IV p) (blocks inData))).
  Proof.
    unfold Sm4Cbc_core. rewrite iv_copy, (div16 _ _ in_len).
    rewrite (for_loop_mealy _ (fun iv b => let o := E key (xor_bytes b iv) in (o, o))
                            (fun _ st a => st = a /\ length a = 16) inData n) with (a := IV p).
    - cbn [obind app]. rewrite (finish_full _ _ n in_len), cbc_enc_mealy, (blocks_map _ n in_len). reflexivity.
    - intros i st a [-> Ha] Hi. cbn [fst snd].
      pose proof (blk_length inData i n in_len Hi) as Hb.
      rewrite xor_eq_len by (rewrite Hb, Ha; reflexivity).
      rewrite block_call_ok by (rewrite xor_bytes_length; rewrite Hb; [reflexivity|exact (eq_sym Ha)]).
      cbn [obind]. eexists. split; [reflexivity|]. split; [split; [reflexivity|apply E_len]|apply E_len].
    - split; [reflexivity|exact IV_len].
    - lia.
  Qed.

  Lemma cbc_dec_loop :
    Sm4Cbc_core E D p key inData false = unpad_or_nil (concat (cbc_decrypt (D key) (IV p) (blocks inData))).
  Proof.
    unfold Sm4Cbc_core. rewrite iv_copy, (div16 _ _ in_len).
    rewrite (for_loop_mealy _ (fun iv b => (b, xor_bytes (D key b) iv))
                            (fun _ st a => st = a /\ length a = 16) inData n) with (a := IV p).
    - cbn [obind app]. rewrite (finish_full _ _ n in_len), cbc_dec_mealy, (blocks_map _ n in_len). reflexivity.
    - intros i st a [-> Ha] Hi. cbn [fst snd].
      pose proof (blk_length inData i n in_len Hi) as Hb.
      rewrite block_call_ok by exact Hb. cbn [obind].
      rewrite xor_eq_len by (rewrite D_len, Ha; reflexivity).
      eexists. split; [reflexivity|]. split; [split; [reflexivity|exact Hb]|].
      rewrite xor_bytes_length; rewrite D_len; [reflexivity|exact (eq_sym Ha)].
    - split; [reflexivity|exact IV_len].
    - lia.
  Qed.

  (* --- ECB --- *)
  Lemma ecb_enc_loop :
    Sm4Ecb_core E D p key inData true = Ok (concat (ecb_encrypt (E key) (blocks inData))).
  Proof.
    unfold Sm4Ecb_core. rewrite (div16 _ _ in_len).
    rewrite (for_loop_mealy _ (fun (_ : unit) b => (tt, E key b)) (fun _ _ _ => True) inData n) with (a := tt).
    - cbn [obind app]. rewrite (finish_full _ _ n in_len), ecb_enc_mealy, (blocks_map _ n in_len). reflexivity.
    - intros i st a _ Hi. cbn [fst snd].
      rewrite block_call_ok by (apply (blk_length inData i n); assumption). cbn [obind].
      eexists. split; [reflexivity|]. split; [exact I|apply E_len].
    - exact I.
    - lia.
  Qed.

  Lemma ecb_dec_loop :
    Sm4Ecb_core E D p key inData false = unpad_or_nil (concat (ecb_decrypt (D key) (blocks inData))).
  Proof.
    unfold Sm4Ecb_core. rewrite (div16 _ _ in_len).
    rewrite (for_loop_mealy _ (fun (_ : unit) b => (tt, D key b)) (fun _ _ _ => True) inData n) with (a := tt).
    - cbn [obind app]. rewrite (finish_full _ _ n in_len). unfold ecb_decrypt.
      rewrite (ecb_enc_mealy (D key)) , (blocks_map _ n in_len). reflexivity.
    - intros i st a _ Hi. cbn [fst snd].
      rewrite block_call_ok by (apply (blk_length inData i n); assumption). cbn [obind].
      eexists. split; [reflexivity|]. split; [exact I|apply D_len].
    - exact I.
    - lia.
  Qed.

  (* --- CFB --- *)
  Lemma cfb_enc_loop :
    Sm4CFB_core E p key inData true = Ok (concat (cfb_encrypt (E key) (IV p) (blocks inData))).
  Proof.
    unfold Sm4CFB_core. rewrite (div16 _ _ in_len).
    rewrite (for_loop_mealy _ (fun iv b => let o := xor_bytes b (E key iv) in (o, o))
                            (fun i st a => a = (if Nat.eqb i 0 then IV p else st) /\ length a = 16) inData n) with (a := IV p).
    - cbn [obind app]. rewrite (finish_full _ _ n in_len), cfb_enc_mealy, (blocks_map _ n in_len). reflexivity.
    - intros i st a [Ea Ha] Hi. cbn [fst snd]. rewrite <- Ea.
      pose proof (blk_length inData i n in_len Hi) as Hb.
      rewrite block_call_ok by exact Ha. cbn [obind].
      rewrite !(firstn16_id (E key a)) by apply E_len.
      rewrite xor_eq_len by (rewrite E_len, Hb; reflexivity).
      rewrite (xor_comm_bytes (E key a)).
      eexists. split; [reflexivity|]. cbn [Nat.eqb].
      assert (length (xor_bytes (blk inData i) (E key a)) = 16)
        by (rewrite xor_bytes_length; rewrite Hb; [reflexivity|rewrite E_len; reflexivity]).
      split; [split; [reflexivity|assumption]|assumption].
    - split; [reflexivity|exact IV_len].
    - lia.
  Qed.

  Lemma cfb_dec_loop :
    Sm4CFB_core E p key inData false = unpad_or_nil (concat (cfb_decrypt (E key) (IV p) (blocks inData))).
  Proof.
    unfold Sm4CFB_core. rewrite (div16 _ _ in_len).
    rewrite (for_loop_mealy _ (fun iv b => (b, xor_bytes b (E key iv)))
                            (fun i (_ : unit) a => a = (if Nat.eqb i 0 then IV p else blk inData (i - 1)) /\ length a = 16)
                            inData n) with (a := IV p).
    - cbn [obind app]. rewrite (finish_full _ _ n in_len), cfb_dec_mealy, (blocks_map _ n in_len). reflexivity.
    - intros i st a [Ea Ha] Hi. cbn [fst snd]. rewrite <- Ea.
      pose proof (blk_length inData i n in_len Hi) as Hb.
      rewrite block_call_ok by exact Ha. cbn [obind].
      rewrite !(firstn16_id (E key a)) by apply E_len.
      rewrite xor_eq_len by (rewrite E_len, Hb; reflexivity).
      rewrite (xor_comm_bytes (E key a)).
      eexists. split; [reflexivity|]. cbn [Nat.eqb Nat.sub]. rewrite Nat.sub_0_r.
      split; [split; [reflexivity|exact Hb]|].
      rewrite xor_bytes_length; rewrite Hb; [reflexivity|rewrite E_len; reflexivity].
    - split; [reflexivity|exact IV_len].
    - lia.
  Qed.

  (* --- OFB --- *)
  Lemma ofb_loop :
    for_loop (ofb_step (E key) p inData) n 0 zeros16 [] = Ok (concat (ofb_crypt (E key) (IV p) (blocks inData))).
  Proof.
    rewrite (for_loop_mealy _ (fun iv b => let o := E key iv in (o, xor_bytes b o))
                            (fun i st a => a = (if Nat.eqb i 0 then IV p else st) /\ length a = 16) inData n) with (a := IV p).
    - cbn [app]. rewrite ofb_mealy, (blocks_map _ n in_len). reflexivity.
    - intros i st a [Ea Ha] Hi. cbn [fst snd]. unfold ofb_step. rewrite <- Ea.
      pose proof (blk_length inData i n in_len Hi) as Hb.
      rewrite block_call_ok by exact Ha. cbn [obind].
      rewrite !(firstn16_id (E key a)) by apply E_len.
      rewrite xor_eq_len by (rewrite E_len, Hb; reflexivity).
      rewrite (xor_comm_bytes (E key a)).
      eexists. split; [reflexivity|]. cbn [Nat.eqb].
      split; [split; [reflexivity|apply E_len]|].
      rewrite xor_bytes_length; rewrite Hb; [reflexivity|rewrite E_len; reflexivity].
    - split; [reflexivity|exact IV_len].
    - lia.
  Qed.

  Lemma ofb_enc_loop :
    Sm4OFB_core E p key inData true = Ok (concat (ofb_crypt (E key) (IV p) (blocks inData))).
  Proof.
    unfold Sm4OFB_core. rewrite (div16 _ _ in_len), ofb_loop. cbn [obind].
    rewrite (finish_full _ _ n in_len). reflexivity.
  Qed.

  Lemma ofb_dec_loop :
    Sm4OFB_core E p key inData false = unpad_or_nil (concat (ofb_crypt (E key) (IV p) (blocks inData))).
  Proof.
    unfold Sm4OFB_core. rewrite (div16 _ _ in_len), ofb_loop. cbn [obind].
    rewrite (finish_full _ _ n in_len). reflexivity.
  Qed.
End Cipher.

(* ---------- lengths and the inverse direction of the textbook modes ------------------------------------------ *)
Definition len16 (b : list N) : Prop := length b = 16.

Lemma firstn_len_app {A} (b r : list A) : firstn (length b) (b ++ r) = b.
Proof. rewrite firstn_app, Nat.sub_diag, firstn_all, firstn_O. apply app_nil_r. Qed.

Lemma skipn_len_app {A} (b r : list A) : skipn (length b) (b ++ r) = r.
Proof. rewrite skipn_app, Nat.sub_diag, skipn_all. reflexivity. Qed.

Lemma blocks_concat_fuel bs : forall fuel, Forall len16 bs -> length bs <= fuel -> blocks_fuel fuel (concat bs) = bs.
Proof.
  induction bs as [|b bs IH]; intros fuel HF Hf.
  - destruct fuel; reflexivity.
  - inversion HF as [|? ? Hb HF']; subst. destruct fuel as [|fuel]; [cbn [length] in Hf; lia|].
    cbn [concat]. rewrite blocks_fuel_S.
    + unfold BS. rewrite <- Hb. rewrite firstn_len_app, skipn_len_app. rewrite IH; [reflexivity|exact HF'|].
      cbn [length] in Hf. lia.
    + intros E. destruct b; [discriminate Hb|discriminate E].
Qed.

Lemma concat_len16 bs : Forall len16 bs -> length (concat bs) = 16 * length bs.
Proof.
  induction 1 as [|b bs Hb HF IH]; [reflexivity|].
  cbn [concat length]. rewrite app_length, Hb, IH. lia.
Qed.

Lemma blocks_concat bs : Forall len16 bs -> blocks (concat bs) = bs.
Proof.
  intros HF. unfold blocks. apply blocks_concat_fuel; [exact HF|].
  rewrite concat_len16 by exact HF. lia.
Qed.

Lemma blocks_len16 l n : length l = 16 * n -> Forall len16 (blocks l) /\ length (blocks l) = n.
Proof.
  intros Hl. rewrite (blocks_map l n Hl). split.
  - apply Forall_forall. intros b Hin. apply in_map_iff in Hin as (i & <- & Hi). apply in_seq in Hi.
    apply (blk_length l i n); [exact Hl|lia].
  - rewrite map_length, seq_length. reflexivity.
Qed.

Section Inverse.
  Variables E D : list N -> list N.
  Hypothesis E_len : forall b, length (E b) = 16.
  Hypothesis E_ok : forall b, bytes_ok (E b) = true.
  Hypothesis DE : forall b, length b = 16 -> bytes_ok b = true -> D (E b) = b.

  Lemma ecb_len ps : Forall len16 (ecb_encrypt E ps) /\ length (ecb_encrypt E ps) = length ps.
  Proof.
    unfold ecb_encrypt. split; [|apply map_length].
    apply Forall_forall. intros b Hin. apply in_map_iff in Hin as (x & <- & _). apply E_len.
  Qed.

  Lemma cbc_len ps : forall iv, Forall len16 (cbc_encrypt E iv ps) /\ length (cbc_encrypt E iv ps) = length ps.
  Proof.
    induction ps as [|q ps IH]; intros iv; [split; [constructor|reflexivity]|].
    cbn [cbc_encrypt length]. destruct (IH (E (xor_bytes q iv))) as [H1 H2].
    split; [constructor; [apply E_len|exact H1]|rewrite H2; reflexivity].
  Qed.

  Lemma cfb_len ps : forall iv, Forall len16 ps -> Forall len16 (cfb_encrypt E iv ps) /\ length (cfb_encrypt E iv ps) = length ps.
  Proof.
    induction ps as [|q ps IH]; intros iv HF; [split; [constructor|reflexivity]|].
    inversion HF as [|? ? Hq HF']; subst.
    cbn [cfb_encrypt length]. destruct (IH (xor_bytes q (E iv)) HF') as [H1 H2].
    split; [constructor; [|exact H1]|rewrite H2; reflexivity].
    unfold len16. rewrite xor_bytes_length; rewrite Hq; [reflexivity|rewrite E_len; reflexivity].
  Qed.

  Lemma ofb_len ps : forall iv, Forall len16 ps -> Forall len16 (ofb_crypt E iv ps) /\ length (ofb_crypt E iv ps) = length ps.
  Proof.
    induction ps as [|q ps IH]; intros iv HF; [split; [constructor|reflexivity]|].
    inversion HF as [|? ? Hq HF']; subst.
    cbn [ofb_crypt length]. destruct (IH (E iv) HF') as [H1 H2].
    split; [constructor; [|exact H1]|rewrite H2; reflexivity].
    unfold len16. rewrite xor_bytes_length; rewrite Hq; [reflexivity|rewrite E_len; reflexivity].
  Qed.

  Lemma ecb_inverse ps : Forall block_ok ps -> ecb_decrypt D (ecb_encrypt E ps) = ps.
  Proof.
    induction 1 as [|q ps [Hl Hb] HF IH]; [reflexivity|].
    unfold ecb_decrypt, ecb_encrypt in *. cbn [map]. rewrite DE by assumption. rewrite IH. reflexivity.
  Qed.

  Lemma cbc_inverse ps : forall iv, block_ok iv -> Forall block_ok ps ->
    cbc_decrypt D iv (cbc_encrypt E iv ps) = ps.
  Proof.
    induction ps as [|q ps IH]; intros iv [Hil Hib] HF; [reflexivity|].
    inversion HF as [|? ? [Hql Hqb] HF']; subst.
    cbn [cbc_encrypt cbc_decrypt].
    rewrite DE.
    - rewrite xor_bytes_invol by (rewrite Hql, Hil; reflexivity).
      rewrite IH; [reflexivity|split; [apply E_len|apply E_ok]|exact HF'].
    - rewrite xor_bytes_length; rewrite Hql; [reflexivity|exact (eq_sym Hil)].
    - apply xor_bytes_ok; assumption.
  Qed.

  Lemma cfb_inverse ps : forall iv, Forall len16 ps -> cfb_decrypt E iv (cfb_encrypt E iv ps) = ps.
  Proof.
    induction ps as [|q ps IH]; intros iv HF; [reflexivity|].
    inversion HF as [|? ? Hq HF']; subst.
    cbn [cfb_encrypt cfb_decrypt].
    rewrite xor_bytes_invol by (rewrite Hq, E_len; reflexivity). rewrite IH by exact HF'. reflexivity.
  Qed.

  Lemma ofb_inverse ps : forall iv, Forall len16 ps -> ofb_crypt E iv (ofb_crypt E iv ps) = ps.
  Proof.
    induction ps as [|q ps IH]; intros iv HF; [reflexivity|].
    inversion HF as [|? ? Hq HF']; subst.
    cbn [ofb_crypt].
    rewrite xor_bytes_invol by (rewrite Hq, E_len; reflexivity). rewrite IH by exact HF'. reflexivity.
  Qed.
End Inverse.

(* ---------- the helpers ------------------------------------------------------------------------------------------ *)
Lemma unpad_or_nil_pad m : unpad_or_nil (pkcs7_pad m) = Ok m.
Proof. unfold unpad_or_nil. rewrite unpad_pad. reflexivity. Qed.

Section Helpers.
  Variables E D : list N -> list N -> list N.
  Hypothesis E_len : forall k b, length (E k b) = 16.
  Hypothesis D_len : forall k b, length (D k b) = 16.
  Hypothesis E_ok : forall k b, bytes_ok (E k b) = true.
  Hypothesis DE : forall k b, length b = 16 -> bytes_ok b = true -> D k (E k b) = b.

  Variables (p : pkg) (key : list N).
  Hypothesis key_len : length key = 16.
  Hypothesis IV_len : length (IV p) = 16.

  Lemma helper_enc core m : helper core p key m true = core p key (pkcs7_pad m) true.
  Proof. unfold helper. rewrite key_len, Nat.eqb_refl. cbn [negb]. rewrite pkcs7Padding_is_pad. reflexivity. Qed.

  Lemma helper_dec core c : helper core p key c false = core p key c false.
  Proof. unfold helper. rewrite key_len, Nat.eqb_refl. reflexivity. Qed.

  Lemma ecb_encrypt_std m : Sm4Ecb E D p key m true = Ok (ecb_pkcs7 (E key) m).
  Proof.
    unfold Sm4Ecb. rewrite helper_enc.
    eapply ecb_enc_loop; try eassumption; apply pkcs7_pad_length.
  Qed.

  Lemma cbc_encrypt_std m : Sm4Cbc E D p key m true = Ok (cbc_pkcs7 (E key) (IV p) m).
  Proof.
    unfold Sm4Cbc. rewrite helper_enc.
    eapply cbc_enc_loop; try eassumption; apply pkcs7_pad_length.
  Qed.

  Lemma cfb_encrypt_std m : Sm4CFB E p key m true = Ok (cfb_pkcs7 (E key) (IV p) m).
  Proof.
    unfold Sm4CFB. rewrite helper_enc.
    eapply cfb_enc_loop; try eassumption; apply pkcs7_pad_length.
  Qed.

  Lemma ofb_encrypt_std m : Sm4OFB E p key m true = Ok (ofb_pkcs7 (E key) (IV p) m).
  Proof.
    unfold Sm4OFB. rewrite helper_enc.
    eapply ofb_enc_loop; try eassumption; apply pkcs7_pad_length.
  Qed.

  (* decryption of any whole number of blocks: the textbook decryption, then the pad is removed (nil when invalid) *)
  Lemma ecb_decrypt_std c n : length c = 16 * n ->
    Sm4Ecb E D p key c false = unpad_or_nil (concat (ecb_decrypt (D key) (blocks c))).
  Proof. intros H. unfold Sm4Ecb. rewrite helper_dec. eapply ecb_dec_loop; eassumption. Qed.

  Lemma cbc_decrypt_std c n : length c = 16 * n ->
    Sm4Cbc E D p key c false = unpad_or_nil (concat (cbc_decrypt (D key) (IV p) (blocks c))).
  Proof. intros H. unfold Sm4Cbc. rewrite helper_dec. eapply cbc_dec_loop; eassumption. Qed.

  Lemma cfb_decrypt_std c n : length c = 16 * n ->
    Sm4CFB E p key c false = unpad_or_nil (concat (cfb_decrypt (E key) (IV p) (blocks c))).
  Proof. intros H. unfold Sm4CFB. rewrite helper_dec. eapply cfb_dec_loop; eassumption. Qed.

  Lemma ofb_decrypt_std c n : length c = 16 * n ->
    Sm4OFB E p key c false = unpad_or_nil (concat (ofb_crypt (E key) (IV p) (blocks c))).
  Proof. intros H. unfold Sm4OFB. rewrite helper_dec. eapply ofb_dec_loop; eassumption. Qed.

  Let padded_blocks m := blocks_len16 (pkcs7_pad m) _ (pkcs7_pad_length m).

  Lemma ecb_roundtrip m : bytes_ok m = true ->
    Sm4Ecb E D p key (ecb_pkcs7 (E key) m) false = Ok m.
  Proof.
    intros Hm. destruct (padded_blocks m) as [HF Hn].
    destruct (ecb_len (E key) (E_len key) (blocks (pkcs7_pad m))) as [H1 H2].
    unfold ecb_pkcs7. rewrite (ecb_decrypt_std _ _ (concat_len16 _ H1)).
    rewrite blocks_concat by exact H1.
    rewrite (ecb_inverse (E key) (D key) (DE key)).
    - rewrite (concat_blocks _ _ (pkcs7_pad_length m)). apply unpad_or_nil_pad.
    - apply (blocks_ok _ _ (pkcs7_pad_length m)), pkcs7_pad_ok, Hm.
  Qed.

  Lemma cbc_roundtrip m : bytes_ok m = true -> bytes_ok (IV p) = true ->
    Sm4Cbc E D p key (cbc_pkcs7 (E key) (IV p) m) false = Ok m.
  Proof.
    intros Hm Hiv. destruct (padded_blocks m) as [HF Hn].
    destruct (cbc_len (E key) (E_len key) (blocks (pkcs7_pad m)) (IV p)) as [H1 H2].
    unfold cbc_pkcs7. rewrite (cbc_decrypt_std _ _ (concat_len16 _ H1)).
    rewrite blocks_concat by exact H1.
    rewrite (cbc_inverse (E key) (D key) (E_len key) (E_ok key) (DE key)).
    - rewrite (concat_blocks _ _ (pkcs7_pad_length m)). apply unpad_or_nil_pad.
    - split; assumption.
    - apply (blocks_ok _ _ (pkcs7_pad_length m)), pkcs7_pad_ok, Hm.
  Qed.

  Lemma cfb_roundtrip m : Sm4CFB E p key (cfb_pkcs7 (E key) (IV p) m) false = Ok m.
  Proof.
    destruct (padded_blocks m) as [HF Hn].
    destruct (cfb_len (E key) (E_len key) (blocks (pkcs7_pad m)) (IV p) HF) as [H1 H2].
    unfold cfb_pkcs7. rewrite (cfb_decrypt_std _ _ (concat_len16 _ H1)).
    rewrite blocks_concat by exact H1.
    rewrite (cfb_inverse (E key) (E_len key)) by exact HF.
    rewrite (concat_blocks _ _ (pkcs7_pad_length m)). apply unpad_or_nil_pad.
  Qed.

  Lemma ofb_roundtrip m : Sm4OFB E p key (ofb_pkcs7 (E key) (IV p) m) false = Ok m.
  Proof.
    destruct (padded_blocks m) as [HF Hn].
    destruct (ofb_len (E key) (E_len key) (blocks (pkcs7_pad m)) (IV p) HF) as [H1 H2].
    unfold ofb_pkcs7. rewrite (ofb_decrypt_std _ _ (concat_len16 _ H1)).
    rewrite blocks_concat by exact H1.
    rewrite (ofb_inverse (E key) (E_len key)) by exact HF.
    rewrite (concat_blocks _ _ (pkcs7_pad_length m)). apply unpad_or_nil_pad.
  Qed.

  (* output length of the four encryptions *)
  Lemma out_lengths m :
    length (ecb_pkcs7 (E key) m) = 16 * (length m / 16 + 1) /\
    length (cbc_pkcs7 (E key) (IV p) m) = 16 * (length m / 16 + 1) /\
    length (cfb_pkcs7 (E key) (IV p) m) = 16 * (length m / 16 + 1) /\
    length (ofb_pkcs7 (E key) (IV p) m) = 16 * (length m / 16 + 1).
  Proof.
    destruct (padded_blocks m) as [HF Hn].
    destruct (ecb_len (E key) (E_len key) (blocks (pkcs7_pad m))) as [A1 A2].
    destruct (cbc_len (E key) (E_len key) (blocks (pkcs7_pad m)) (IV p)) as [B1 B2].
    destruct (cfb_len (E key) (E_len key) (blocks (pkcs7_pad m)) (IV p) HF) as [C1 C2].
    destruct (ofb_len (E key) (E_len key) (blocks (pkcs7_pad m)) (IV p) HF) as [D1 D2].
    unfold ecb_pkcs7, cbc_pkcs7, cfb_pkcs7, ofb_pkcs7.
    rewrite !concat_len16 by assumption. rewrite A2, B2, C2, D2, Hn. repeat split; reflexivity.
  Qed.
End Helpers.

(* a key of any other length is rejected before anything else happens *)
Lemma helper_bad_key core p key m mode : length key <> 16 -> helper core p key m mode = Err 1.
Proof. intros H. unfold helper. rewrite (proj2 (Nat.eqb_neq _ _) H). reflexivity. Qed.

(* ---------- SetIV ---------------------------------------------------------------------------------------------- *)
Lemma SetIV_spec iv p :
  (length iv = 16 -> SetIV iv p = (Ok tt, mkPkg iv)) /\
  (length iv <> 16 -> SetIV iv p = (Err 1, p)).
Proof.
  unfold SetIV. split; intros H.
  - rewrite H. reflexivity.
  - rewrite (proj2 (Nat.eqb_neq _ _) H). reflexivity.
Qed.

(* ---------- caller memory -------------------------------------------------------------------------------------- *)
Lemma nth_set_nth_other {A} (l : list A) : forall i j v d, i <> j -> nth i (set_nth l j v) d = nth i l d.
Proof.
  induction l as [|x l IH]; intros i j v d H; [reflexivity|].
  destruct j as [|j]; destruct i as [|i]; cbn [set_nth nth]; try reflexivity; try congruence.
  apply IH. congruence.
Qed.

Lemma nth_set_nth_same {A} (l : list A) : forall i v d, i < length l -> nth i (set_nth l i v) d = v.
Proof.
  induction l as [|x l IH]; intros i v d H; [cbn in H; lia|].
  destruct i as [|i]; cbn [set_nth nth]; [reflexivity|]. apply IH. cbn in H. lia.
Qed.

Lemma set_nth_length {A} (l : list A) : forall i v, length (set_nth l i v) = length l.
Proof. induction l as [|x l IH]; intros [|i] v; cbn [set_nth length]; try reflexivity. rewrite IH. reflexivity. Qed.

(* every array that existed before the call is unchanged (spare capacity included) *)
Lemma pkcs7Padding_mem_frame h src a : a < length h ->
  array (fst (pkcs7Padding_mem h src)) a = array h a.
Proof.
  intros Ha. unfold pkcs7Padding_mem, make, copy_into, append.
  cbn [s_arr s_off s_len s_cap fst snd].
  rewrite repeat_length.
  rewrite (proj2 (Nat.leb_le _ _)) by lia. cbn [fst].
  unfold array. rewrite !nth_set_nth_other by lia. apply app_nth1. exact Ha.
Qed.

Definition slice_valid (h : heap) (s : slice) : Prop :=
  s_arr s < length h /\ s_off s + s_len s <= length (array h (s_arr s)) /\ s_len s <= s_cap s.

Lemma read_length h s : slice_valid h s -> length (read h s) = s_len s.
Proof. intros (_ & H & _). unfold read. rewrite firstn_length, skipn_length. lia. Qed.

Lemma pad_write (m pt : list N) k : length pt = k ->
  firstn (length m + k)
    (write_at (write_at (repeat 0%N (length m + k)) 0 (firstn (length m) m)) (0 + length m) pt) = m ++ pt.
Proof.
  intros Hp. rewrite firstn_all. unfold write_at. rewrite !firstn_O, !Nat.add_0_l. cbn [app].
  rewrite firstn_len_app.
  assert (Hin : length (m ++ skipn (length m) (repeat 0%N (length m + k))) = length m + k).
  { rewrite app_length, skipn_length, repeat_length. lia. }
  rewrite (skipn_all2 (m ++ _)) by (rewrite Hin, Hp; lia).
  rewrite app_nil_r. apply firstn_all2. rewrite app_length, Hp. lia.
Qed.

(* ... and the slice it returns holds the padded value *)
Lemma pkcs7Padding_mem_value h src : slice_valid h src ->
  let '(h', out) := pkcs7Padding_mem h src in read h' out = pkcs7Padding (read h src).
Proof.
  intros Hv. pose proof (read_length h src Hv) as Hlen. destruct Hv as (Ha & Hr & Hc).
  unfold pkcs7Padding_mem, make, copy_into, append.
  cbn [s_arr s_off s_len s_cap fst snd].
  rewrite repeat_length.
  rewrite (proj2 (Nat.leb_le _ _)) by lia.
  unfold read at 1. cbn [s_arr s_off s_len]. unfold array.
  rewrite nth_set_nth_same by (rewrite set_nth_length, app_length; cbn [length]; lia).
  rewrite nth_set_nth_same by (rewrite app_length; cbn [length]; lia).
  rewrite app_nth2, Nat.sub_diag by lia. cbn [nth skipn].
  assert (Hsrc : read (h ++ [repeat 0%N (s_len src + (16 - s_len src mod 16))]) src = read h src).
  { unfold read, array. rewrite app_nth1 by exact Ha. reflexivity. }
  rewrite Hsrc. unfold pkcs7Padding. rewrite Hlen, Nat.min_id. rewrite <- Hlen.
  apply pad_write. apply repeat_length.
Qed.

(* h extends h0: the arrays of h0 are still there, unchanged *)
Definition ext (h0 h : heap) : Prop := length h0 <= length h /\ forall a, a < length h0 -> array h a = array h0 a.
(* a slice into an array that did not exist in h0 *)
Definition fresh (h0 : heap) (s : slice) : Prop := length h0 <= s_arr s.

Lemma ext_refl h : ext h h.
Proof. split; [lia|reflexivity]. Qed.

Lemma array_app_old (h : heap) x a : a < length h -> array (h ++ [x]) a = array h a.
Proof. intros H. unfold array. apply app_nth1. exact H. Qed.

Lemma array_app_new (h : heap) x : array (h ++ [x]) (length h) = x.
Proof. unfold array. rewrite app_nth2, Nat.sub_diag by lia. reflexivity. Qed.

Lemma array_set_other (h : heap) a b v : a <> b -> array (set_nth h b v) a = array h a.
Proof. intros H. unfold array. apply nth_set_nth_other. exact H. Qed.

Lemma array_set_same (h : heap) a v : a < length h -> array (set_nth h a v) a = v.
Proof. intros H. unfold array. apply nth_set_nth_same. exact H. Qed.

Lemma ext_app h0 h x : ext h0 h -> ext h0 (h ++ [x]).
Proof.
  intros [H1 H2]. split; [rewrite app_length; lia|]. intros a Ha. rewrite array_app_old by lia. apply H2, Ha.
Qed.

Lemma ext_set h0 h b v : ext h0 h -> length h0 <= b -> ext h0 (set_nth h b v).
Proof.
  intros [H1 H2] Hb. split; [rewrite set_nth_length; exact H1|].
  intros a Ha. rewrite array_set_other by lia. apply H2, Ha.
Qed.

Lemma make_ext h0 h l c : ext h0 h -> ext h0 (fst (make h l c)) /\ fresh h0 (snd (make h l c)).
Proof. intros H. unfold make, fresh. cbn [fst snd s_arr]. split; [apply ext_app, H|apply H]. Qed.

Lemma copy_into_ext h0 h d src : ext h0 h -> fresh h0 d -> ext h0 (copy_into h d src).
Proof. intros H Hd. unfold copy_into. apply ext_set; assumption. Qed.

Lemma append_ext h0 h s bs : ext h0 h -> fresh h0 s -> ext h0 (fst (append h s bs)) /\ fresh h0 (snd (append h s bs)).
Proof.
  intros H Hs. unfold append. destruct (Nat.leb _ _); cbn [fst snd]; unfold fresh; cbn [s_arr].
  - split; [apply ext_set; assumption|exact Hs].
  - split; [apply ext_app, H|apply H].
Qed.


Lemma firstn_zeros n m : n <= m -> firstn n (repeat 0%N m) = repeat 0%N n.
Proof. revert m. induction n as [|n IH]; intros [|m] H; try reflexivity; [lia|]. cbn. rewrite IH by lia. reflexivity. Qed.

Lemma skipn_zeros n m : skipn n (repeat 0%N m) = repeat 0%N (m - n).
Proof. revert m. induction n as [|n IH]; intros [|m]; try reflexivity. cbn [skipn repeat Nat.sub]. apply IH. Qed.

Lemma read_ext h0 h s : ext h0 h -> s_arr s < length h0 -> read h s = read h0 s.
Proof. intros [_ H] Hs. unfold read. rewrite H by exact Hs. reflexivity. Qed.

Lemma ext_trans h0 h1 h2 : ext h0 h1 -> ext h1 h2 -> ext h0 h2.
Proof.
  intros [L1 A1] [L2 A2]. split; [lia|]. intros a Ha. rewrite A2 by lia. apply A1, Ha.
Qed.


(* ---------- the loops of the helpers on the heap --------------------------------------------------------------- *)
Lemma slot16_split (o : list N) : slot16 o = firstn (Nat.min 16 (length o)) o ++ repeat 0%N (16 - Nat.min 16 (length o)).
Proof.
  unfold slot16. rewrite firstn_app. destruct (Nat.le_ge_cases 16 (length o)) as [H|H].
  - rewrite Nat.min_l by exact H. replace (16 - length o) with 0 by lia. rewrite firstn_O, Nat.sub_diag. reflexivity.
  - rewrite Nat.min_r by exact H. rewrite firstn_all2 by exact H. rewrite firstn_all. rewrite firstn_zeros by lia. reflexivity.
Qed.

Lemma write_slot (acc o : list N) L : length acc + 16 <= L ->
  write_at (acc ++ repeat 0%N (L - length acc)) (length acc) (firstn (Nat.min 16 (length o)) o) =
  (acc ++ slot16 o) ++ repeat 0%N (L - (length acc + 16)).
Proof.
  intros HL. unfold write_at. rewrite firstn_len_app.
  assert (Hm : length (firstn (Nat.min 16 (length o)) o) = Nat.min 16 (length o)) by (rewrite firstn_length; lia).
  rewrite Hm. rewrite skipn_app. rewrite skipn_all2 by lia. cbn [app].
  replace (length acc + Nat.min 16 (length o) - length acc) with (Nat.min 16 (length o)) by lia.
  rewrite skipn_zeros. rewrite slot16_split. rewrite <- !app_assoc. f_equal. f_equal.
  rewrite <- repeat_app. f_equal. lia.
Qed.

Section LoopMem.
  Context {St : Type} (mk : list N -> nat -> St -> outcome (St * list N)).
  Variables (h : heap) (in_ : slice).
  Hypothesis Hin : s_arr in_ < length h.
  Let v := read h in_.
  Let L := s_len in_.
  Let out := mkSlice (length h) 0 L L.

  Lemma for_loop_mem_spec n : forall i st acc hcur,
    ext h hcur -> length h < length hcur -> array hcur (length h) = acc ++ repeat 0%N (L - length acc) ->
    length acc = 16 * i -> 16 * (i + n) <= L ->
    omap (fun h2 => read h2 out) (for_loop_mem (fun hh => mk (read hh in_)) n i st hcur out) =
      omap (fun o => o ++ repeat 0%N (L - length o)) (for_loop (mk v) n i st acc) /\
    (forall h2, for_loop_mem (fun hh => mk (read hh in_)) n i st hcur out = Ok h2 -> ext h h2).
  Proof.
    induction n as [|n IH]; intros i st acc hcur Hext Hlen Harr Hacc HL.
    - cbn [for_loop_mem for_loop omap obind]. split; [|intros h2 [= <-]; exact Hext].
      f_equal. unfold read, out. cbn [s_arr s_len s_off skipn]. rewrite Harr.
      apply firstn_all2. rewrite app_length, repeat_length. lia.
    - cbn [for_loop_mem for_loop]. rewrite (read_ext h hcur in_ Hext Hin). fold v.
      destruct (mk v i st) as [[st' o]| | |]; cbn [obind omap]; try (split; [reflexivity|discriminate]).
      apply IH.
      + apply copy_into_ext; [exact Hext|]. unfold fresh, window, out. cbn [s_arr]. lia.
      + unfold copy_into. rewrite set_nth_length. exact Hlen.
      + unfold copy_into, window, out. cbn [s_arr s_len s_off]. rewrite array_set_same by exact Hlen.
        rewrite Harr. rewrite Nat.add_0_l, <- Hacc.
        rewrite write_slot by lia. rewrite app_length. f_equal. f_equal.
        unfold slot16. rewrite firstn_length, app_length, repeat_length. lia.
      + rewrite app_length, Hacc. unfold slot16. rewrite firstn_length, app_length, repeat_length. lia.
      + lia.
  Qed.

  (* the heap-level loop = the value-level loop on the bytes of in; nothing but the new array is written *)
  Lemma run_loop_mem_spec st0 : slice_valid h in_ ->
    omap snd (run_loop_mem mk st0 h in_) = (do o <- for_loop (mk v) (length v / 16) 0 st0 []; Ok (finish v o)) /\
    (forall h2 r, run_loop_mem mk st0 h in_ = Ok (h2, r) -> ext h h2).
  Proof.
    intros Hv. pose proof (read_length h in_ Hv) as Hlen. fold v L in Hlen.
    unfold run_loop_mem, make. fold L.
    set (h1 := h ++ [repeat 0%N L]).
    assert (L1 : length h1 = S (length h)) by (unfold h1; rewrite app_length; cbn; lia).
    destruct (for_loop_mem_spec (L / 16) 0 st0 [] h1) as [S1 S2].
    + unfold h1. apply ext_app, ext_refl.
    + lia.
    + unfold h1. rewrite array_app_new. cbn [app length]. rewrite Nat.sub_0_r. reflexivity.
    + reflexivity.
    + cbn [Nat.add]. pose proof (Nat.mul_div_le L 16). lia.
    + fold out. rewrite Hlen.
      destruct (for_loop_mem (fun hh => mk (read hh in_)) (L / 16) 0 st0 h1 out) as [h2| | |] eqn:EF;
        cbn [obind omap snd] in *.
      * split; [|intros h2' r [= <- _]; apply (S2 h2 eq_refl)].
        destruct (for_loop (mk v) (L / 16) 0 st0 []) as [o| | |] eqn:EP; cbn [omap obind] in *; try discriminate S1.
        injection S1 as S1. rewrite S1. f_equal. unfold finish. rewrite Hlen. f_equal. f_equal.
        (* length o = 16 * (L/16) *) 
        assert (Ho : forall n i st acc r, for_loop (mk v) n i st acc = Ok r -> length r = length acc + 16 * n).
        { clear. induction n as [|n IH]; intros i st acc r H; cbn [for_loop] in H.
          - injection H as <-. lia.
          - destruct (mk v i st) as [[st' o]| | |]; cbn [obind] in H; try discriminate H.
            apply IH in H. rewrite H, app_length. unfold slot16. rewrite firstn_length, app_length, repeat_length. lia. }
        rewrite (Ho _ _ _ _ _ EP). cbn [length]. lia.
      * destruct (for_loop (mk v) (L / 16) 0 st0 []); cbn [omap obind] in *; try discriminate S1.
        split; [congruence|discriminate].
      * destruct (for_loop (mk v) (L / 16) 0 st0 []); cbn [omap obind] in *; try discriminate S1.
        split; [reflexivity|discriminate].
      * destruct (for_loop (mk v) (L / 16) 0 st0 []); cbn [omap obind] in *; try discriminate S1.
        split; [reflexivity|discriminate].
  Qed.
End LoopMem.

(* ---------- the four helpers on the heap ------------------------------------------------------------------------- *)
Definition core_mem_ok (cm : pkg -> list N -> heap -> slice -> bool -> outcome (heap * list N))
                       (c : pkg -> list N -> list N -> bool -> outcome (list N)) : Prop :=
  forall p key h in_ mode, slice_valid h in_ ->
    omap snd (cm p key h in_ mode) = c p key (read h in_) mode /\
    (forall h2 r, cm p key h in_ mode = Ok (h2, r) -> ext h h2).

Lemma then_unpad_spec (h : heap) (r : outcome (heap * list N)) (F : outcome (list N)) (fin : list N -> list N) :
  omap snd r = (do o <- F; Ok (fin o)) -> (forall h2 x, r = Ok (h2, x) -> ext h h2) ->
  omap snd (then_unpad r) = (do o <- F; unpad_or_nil (fin o)) /\
  (forall h2 x, then_unpad r = Ok (h2, x) -> ext h h2).
Proof.
  intros H1 H2. unfold then_unpad.
  destruct r as [[h2 x]| | |]; destruct F as [o| | |]; cbn [omap obind snd] in *; try discriminate H1;
    try (split; [congruence|discriminate]); try (split; [reflexivity|discriminate]).
  injection H1 as H1. subst x.
  destruct (unpad_or_nil (fin o)) as [u| | |]; cbn [obind omap snd]; split; try reflexivity; try discriminate.
  intros h2' x [= <- _]. apply (H2 h2 (fin o) eq_refl).
Qed.

Section CoresMem.
  Variables E D : list N -> list N -> list N.

  Lemma Sm4Cbc_core_mem_ok : core_mem_ok (Sm4Cbc_core_mem E D) (Sm4Cbc_core E D).
  Proof.
    intros p key h in_ mode Hv. unfold Sm4Cbc_core_mem, Sm4Cbc_core. destruct mode.
    - eapply run_loop_mem_spec; [exact (proj1 Hv)|exact Hv].
    - apply then_unpad_spec; eapply run_loop_mem_spec; first [exact (proj1 Hv)|exact Hv].
  Qed.

  Lemma Sm4Ecb_core_mem_ok : core_mem_ok (Sm4Ecb_core_mem E D) (Sm4Ecb_core E D).
  Proof.
    intros p key h in_ mode Hv. unfold Sm4Ecb_core_mem, Sm4Ecb_core. destruct mode.
    - eapply run_loop_mem_spec; [exact (proj1 Hv)|exact Hv].
    - apply then_unpad_spec; eapply run_loop_mem_spec; first [exact (proj1 Hv)|exact Hv].
  Qed.

  Lemma Sm4CFB_core_mem_ok : core_mem_ok (Sm4CFB_core_mem E) (Sm4CFB_core E).
  Proof.
    intros p key h in_ mode Hv. unfold Sm4CFB_core_mem, Sm4CFB_core. destruct mode.
    - eapply run_loop_mem_spec; [exact (proj1 Hv)|exact Hv].
    - apply then_unpad_spec; eapply run_loop_mem_spec; first [exact (proj1 Hv)|exact Hv].
  Qed.

  Lemma Sm4OFB_core_mem_ok : core_mem_ok (Sm4OFB_core_mem E) (Sm4OFB_core E).
  Proof.
    intros p key h in_ mode Hv. unfold Sm4OFB_core_mem, Sm4OFB_core. destruct mode.
    - eapply run_loop_mem_spec; [exact (proj1 Hv)|exact Hv].
    - apply then_unpad_spec; eapply run_loop_mem_spec; first [exact (proj1 Hv)|exact Hv].
  Qed.
End CoresMem.

Lemma write_at_length (a bs : list N) pos : pos + length bs <= length a -> length (write_at a pos bs) = length a.
Proof. intros H. unfold write_at. rewrite !app_length, firstn_length, skipn_length. lia. Qed.

Lemma pkcs7Padding_mem_ext h src : ext h (fst (pkcs7Padding_mem h src)).
Proof.
  split.
  - unfold pkcs7Padding_mem, make, copy_into, append. cbn [s_arr s_off s_len s_cap fst snd].
    rewrite repeat_length. rewrite (proj2 (Nat.leb_le _ _)) by lia. cbn [fst].
    rewrite !set_nth_length, app_length. lia.
  - intros a Ha. apply pkcs7Padding_mem_frame. exact Ha.
Qed.

Lemma pkcs7Padding_mem_valid h src : slice_valid h src ->
  slice_valid (fst (pkcs7Padding_mem h src)) (snd (pkcs7Padding_mem h src)).
Proof.
  intros Hv. pose proof (read_length h src Hv) as Hlen.
  unfold pkcs7Padding_mem, make, copy_into, append. cbn [s_arr s_off s_len s_cap fst snd].
  rewrite repeat_length. rewrite (proj2 (Nat.leb_le _ _)) by lia. cbn [fst snd].
  set (k := 16 - s_len src mod 16).
  unfold slice_valid. cbn [s_arr s_off s_len s_cap].
  split; [rewrite !set_nth_length, app_length; cbn [length]; lia|]. split; [|lia].
  rewrite array_set_same by (rewrite set_nth_length, app_length; cbn [length]; lia).
  rewrite array_set_same by (rewrite app_length; cbn [length]; lia).
  rewrite array_app_new.
  assert (Hr : read (h ++ [repeat 0%N (s_len src + k)]) src = read h src).
  { unfold read, array. rewrite app_nth1 by apply Hv. reflexivity. }
  rewrite Hr, Hlen, Nat.min_id.
  rewrite write_at_length.
  - rewrite write_at_length; [rewrite repeat_length; lia|].
    rewrite firstn_length, Hlen, Nat.min_id, repeat_length. lia.
  - rewrite write_at_length by (rewrite firstn_length, Hlen, Nat.min_id, repeat_length; lia).
    rewrite !repeat_length. lia.
Qed.

Lemma helper_mem_spec cm c p h key in_ mode : core_mem_ok cm c -> slice_valid h in_ ->
  omap snd (helper_mem cm p h key in_ mode) = helper c p key (read h in_) mode /\
  (forall h2 r, helper_mem cm p h key in_ mode = Ok (h2, r) -> ext h h2).
Proof.
  intros Hok Hv. unfold helper_mem, helper.
  destruct (negb (Nat.eqb (length key) 16)); [split; [reflexivity|discriminate]|].
  destruct mode; [|apply Hok; exact Hv].
  pose proof (pkcs7Padding_mem_ext h in_) as He. pose proof (pkcs7Padding_mem_valid h in_ Hv) as Hpv.
  pose proof (pkcs7Padding_mem_value h in_ Hv) as Hval.
  destruct (pkcs7Padding_mem h in_) as [h' padded]. cbn [fst snd] in *.
  destruct (Hok p key h' padded true Hpv) as [H1 H2]. rewrite Hval in H1. split; [exact H1|].
  intros h2 r Hr. apply (ext_trans h h' h2 He). apply (H2 h2 r Hr).
Qed.

(* ---------- SM4 is such a block cipher ----------------------------------------------------------------------- *)
Lemma sm4_E_len k b : length (sm4_encrypt_block k b) = 16.
Proof. unfold sm4_encrypt_block, sm4_encrypt_rk. apply bytes_of_state_block16. Qed.
Lemma sm4_D_len k b : length (sm4_decrypt_block k b) = 16.
Proof. unfold sm4_decrypt_block, sm4_decrypt_rk. apply bytes_of_state_block16. Qed.
Lemma sm4_E_ok k b : bytes_ok (sm4_encrypt_block k b) = true.
Proof. unfold sm4_encrypt_block, sm4_encrypt_rk. apply bytes_of_state_block16. Qed.
Lemma sm4_DE k b : length b = 16 -> bytes_ok b = true -> sm4_decrypt_block k (sm4_encrypt_block k b) = b.
Proof. apply decrypt_encrypt_rk. Qed.

(* ---------- histories of SetIV / helper calls ------------------------------------------------------------------ *)
(* what the standard gives for one call, from the values of that call and the IV in force *)
Definition mode_spec (E D : list N -> list N -> list N) (iv : list N) (c : mode_call) : outcome (list N) :=
  let k := m_key c in let x := m_in c in
  match m_fn c, m_mode c with
  | FnEcb, true => Ok (ecb_pkcs7 (E k) x)
  | FnCbc, true => Ok (cbc_pkcs7 (E k) iv x)
  | FnCFB, true => Ok (cfb_pkcs7 (E k) iv x)
  | FnOFB, true => Ok (ofb_pkcs7 (E k) iv x)
  | FnEcb, false => unpad_or_nil (concat (ecb_decrypt (D k) (blocks x)))
  | FnCbc, false => unpad_or_nil (concat (cbc_decrypt (D k) iv (blocks x)))
  | FnCFB, false => unpad_or_nil (concat (cfb_decrypt (E k) iv (blocks x)))
  | FnOFB, false => unpad_or_nil (concat (ofb_crypt (E k) iv (blocks x)))
  end.

(* the IV in force after an optional SetIV: a rejected SetIV leaves the previous one *)
Definition iv_after (iv : list N) (s : option (list N)) : list N :=
  match s with Some v => if Nat.eqb (length v) 16 then v else iv | None => iv end.

Definition setiv_result (s : option (list N)) : option (outcome unit) :=
  match s with Some v => Some (if Nat.eqb (length v) 16 then Ok tt else Err 1) | None => None end.

Fixpoint modes_spec_run (E D : list N -> list N -> list N) (iv : list N) (calls : list mode_call)
  : list (option (outcome unit) * outcome (list N)) :=
  match calls with
  | [] => []
  | c :: rest => let iv' := iv_after iv (m_setiv c) in
                 (setiv_result (m_setiv c), mode_spec E D iv' c) :: modes_spec_run E D iv' rest
  end.

Definition mcall_ok (c : mode_call) : Prop :=
  length (m_key c) = 16 /\ (m_mode c = false -> exists n, length (m_in c) = 16 * n).

Section History.
  Variables E D : list N -> list N -> list N.
  Hypothesis E_len : forall k b, length (E k b) = 16.
  Hypothesis D_len : forall k b, length (D k b) = 16.
  Hypothesis E_ok : forall k b, bytes_ok (E k b) = true.
  Hypothesis DE : forall k b, length b = 16 -> bytes_ok b = true -> D k (E k b) = b.

  Lemma call_helper_spec p c : length (IV p) = 16 -> mcall_ok c -> call_helper E D p c = mode_spec E D (IV p) c.
  Proof.
    intros Hiv [Hk Hd]. unfold call_helper, mode_spec. destruct (m_fn c), (m_mode c).
    - exact (ecb_encrypt_std E D E_len D_len E_ok DE p _ Hk Hiv _).
    - destruct (Hd eq_refl) as [n Hn]. exact (ecb_decrypt_std E D E_len D_len E_ok DE p _ Hk Hiv _ n Hn).
    - exact (cbc_encrypt_std E D E_len D_len E_ok DE p _ Hk Hiv _).
    - destruct (Hd eq_refl) as [n Hn]. exact (cbc_decrypt_std E D E_len D_len E_ok DE p _ Hk Hiv _ n Hn).
    - exact (cfb_encrypt_std E D E_len D_len E_ok DE p _ Hk Hiv _).
    - destruct (Hd eq_refl) as [n Hn]. exact (cfb_decrypt_std E D E_len D_len E_ok DE p _ Hk Hiv _ n Hn).
    - exact (ofb_encrypt_std E D E_len D_len E_ok DE p _ Hk Hiv _).
    - destruct (Hd eq_refl) as [n Hn]. exact (ofb_decrypt_std E D E_len D_len E_ok DE p _ Hk Hiv _ n Hn).
  Qed.

  Lemma modes_run_spec calls : Forall mcall_ok calls -> forall p, length (IV p) = 16 ->
    modes_run E D p calls = modes_spec_run E D (IV p) calls.
  Proof.
    induction 1 as [|c calls Hc HF IH]; intros p Hiv; [reflexivity|].
    cbn [modes_run modes_spec_run]. unfold mode_do, iv_after, setiv_result.
    destruct (m_setiv c) as [v|].
    - unfold SetIV. destruct (Nat.eqb_spec (length v) 16) as [Hv|Hv]; cbn [negb].
      + rewrite call_helper_spec by (try exact Hc; exact Hv). cbn [IV]. rewrite IH by exact Hv. reflexivity.
      + rewrite call_helper_spec by assumption. rewrite IH by exact Hiv. reflexivity.
    - rewrite call_helper_spec by assumption. rewrite IH by exact Hiv. reflexivity.
  Qed.
End History.
