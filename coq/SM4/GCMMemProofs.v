(* Proofs about the caller-memory model of the GCM functions (SM4/GCMMem.v): every array that exists when a
   function is called is unchanged afterwards, and the results are those of the value-level model
   (SM4/GCMModel.v) on what the caller's slices hold.  Restated in Props/C12.v. *)
From Coq Require Import List NArith Arith Bool Lia.
From GmsmVerif Require Import Lib.Outcome SM4.SM4Spec SM4.ModesModel SM4.ModesProofs SM4.GCMModel SM4.GCMMem.
Import ListNotations.
Local Open Scope nat_scope.

Lemma append_nil_ext h0 h bs : ext h0 h -> ext h0 (fst (append_nil h bs)) /\ fresh h0 (snd (append_nil h bs)).
Proof. intros H. unfold append_nil, fresh. cbn [fst snd s_arr]. split; [apply ext_app, H|apply H]. Qed.

(* ---------- what the fresh slices hold -------------------------------------------------------------------- *)
Lemma copy_fresh_value (t : nat) (src : list N) :
  write_at (repeat 0%N t) 0 (firstn (Nat.min t (length src)) src) = firstn t (src ++ repeat 0%N t).
Proof.
  unfold write_at. rewrite firstn_O, Nat.add_0_l. cbn [app].
  rewrite firstn_length. replace (Nat.min (Nat.min t (length src)) (length src)) with (Nat.min t (length src)) by lia.
  rewrite skipn_zeros.
  destruct (Nat.le_ge_cases t (length src)) as [H|H].
  - rewrite Nat.min_l by exact H. rewrite Nat.sub_diag. cbn [repeat]. rewrite app_nil_r.
    rewrite firstn_app. replace (t - length src) with 0 by lia. rewrite firstn_O, app_nil_r. reflexivity.
  - rewrite Nat.min_r by exact H. rewrite firstn_all. rewrite firstn_app, firstn_all2 by exact H.
    rewrite firstn_zeros by lia. reflexivity.
Qed.

Lemma last_block_mem_spec h0 h data m v : ext h0 h -> v <= 128 ->
  ext h0 (fst (last_block_mem h data m v)) /\
  read (fst (last_block_mem h data m v)) (snd (last_block_mem h data m v)) = last_block data m v.
Proof.
  intros Hext Hv. unfold last_block_mem, last_block, zeros.
  set (zl := (128 - v) / 8). set (t := v / 8). set (tail := skipn ((m - 1) * BlockSize) data).
  unfold make. cbn [fst snd].
  set (h1 := h ++ [repeat 0%N zl]). set (h2 := h1 ++ [repeat 0%N t]).
  assert (L1 : length h1 = S (length h)) by (unfold h1; rewrite app_length; cbn; lia).
  assert (L2 : length h2 = S (S (length h))) by (unfold h2; rewrite app_length, L1; cbn; lia).
  set (zs := mkSlice (length h) 0 zl zl). set (Am := mkSlice (length h1) 0 t t).
  assert (E1 : ext h0 h2) by (unfold h2, h1; apply ext_app, ext_app, Hext).
  set (h3 := copy_into h2 Am tail).
  assert (A3 : array h3 (length h1) = firstn t (tail ++ repeat 0%N t)).
  { unfold h3, copy_into. cbn [s_arr s_len s_off]. rewrite array_set_same by (rewrite L2, L1; lia).
    unfold h2. rewrite array_app_new. apply copy_fresh_value. }
  assert (Z3 : read h3 zs = repeat 0%N zl).
  { unfold read, zs. cbn [s_arr s_len s_off skipn]. unfold h3, copy_into. cbn [s_arr].
    change (s_arr Am) with (length h1). rewrite array_set_other by (rewrite L1; lia). unfold h2. rewrite array_app_old by (rewrite L1; lia).
    unfold h1. rewrite array_app_new. apply firstn_all2. rewrite repeat_length. lia. }
  assert (E3 : ext h0 h3).
  { unfold h3. apply copy_into_ext; [exact E1|]. unfold fresh, Am. cbn [s_arr]. rewrite L1. destruct Hext. lia. }
  assert (LA : length (firstn t (tail ++ repeat 0%N t)) = t).
  { rewrite firstn_length, app_length, repeat_length. lia. }
  assert (L3 : length h3 = length h2) by (unfold h3, copy_into; apply set_nth_length).
  rewrite Z3. unfold append. change (s_len Am) with t. change (s_cap Am) with t. change (s_arr Am) with (length h1).
  change (s_off Am) with 0. rewrite repeat_length.
  destruct (Nat.leb_spec (t + zl) t) as [Hle|Hgt]; cbn [fst snd].
  - assert (zl = 0) by lia. split.
    + apply ext_set; [exact E3|]. rewrite L1. destruct Hext. lia.
    + unfold read. cbn [s_arr s_len s_off skipn]. rewrite array_set_same by (rewrite L3, L2, L1; lia).
      rewrite A3. rewrite H. cbn [repeat]. unfold write_at. cbn [app length]. rewrite !Nat.add_0_r.
      rewrite firstn_skipn, app_nil_r. apply firstn_all2. rewrite LA. lia.
  - split; [apply ext_app, E3|].
    unfold read at 1. cbn [s_arr s_len s_off skipn]. rewrite array_app_new.
    unfold read. change (s_len Am) with t. change (s_arr Am) with (length h1). change (s_off Am) with 0.
    cbn [skipn]. rewrite A3.
    rewrite (firstn_all2 (n := t)) by (rewrite LA; lia).
    apply firstn_all2. rewrite app_length, LA, repeat_length. lia.
Qed.

Lemma lenAB_mem_spec h0 h la lc : ext h0 h ->
  ext h0 (fst (lenAB_mem h la lc)) /\
  read (fst (lenAB_mem h la lc)) (snd (lenAB_mem h la lc)) = calculateLenToBytes la ++ calculateLenToBytes lc.
Proof.
  intros Hext. assert (L : forall x, length (calculateLenToBytes x) = 8) by reflexivity.
  unfold lenAB_mem, append_nil, append. cbn [s_len s_cap s_arr s_off]. rewrite !L. cbn [Nat.add Nat.leb fst snd].
  split; [apply ext_app, ext_app, Hext|].
  unfold read at 1. cbn [s_arr s_len s_off skipn]. rewrite array_app_new.
  unfold read. cbn [s_arr s_len s_off skipn]. rewrite array_app_new.
  rewrite (firstn_all2 (n := 8) (calculateLenToBytes la)) by (rewrite L; lia).
  apply firstn_all2. rewrite app_length, !L. lia.
Qed.

Lemma calculm_v_le q r : r < 16 -> snd (calculm_v q r) <= 128.
Proof.
  intros Hr. unfold calculm_v, BlockSize.
  destruct (Nat.eqb q 0), (Nat.eqb r 0); cbn [negb andb snd]; lia.
Qed.

Lemma GHASH_mem_spec h0 h H A C : ext h0 h ->
  ext h0 (fst (GHASH_mem h H A C)) /\ snd (GHASH_mem h H A C) = GHASH H A C.
Proof.
  intros Hext. unfold GHASH_mem, GHASH.
  pose proof (calculm_v_le (length A / BlockSize) (length A mod BlockSize) (Nat.mod_upper_bound _ 16 ltac:(discriminate))) as Hv.
  pose proof (calculm_v_le (length C / BlockSize) (length C mod BlockSize) (Nat.mod_upper_bound _ 16 ltac:(discriminate))) as Hu.
  destruct (calculm_v (length A / BlockSize) (length A mod BlockSize)) as [m v].
  destruct (calculm_v (length C / BlockSize) (length C mod BlockSize)) as [n u]. cbn [snd] in Hv, Hu.
  destruct (last_block_mem_spec h0 h A m v Hext Hv) as [E1 R1].
  destruct (last_block_mem h A m v) as [h1 Am]. cbn [fst snd] in E1, R1.
  destruct (last_block_mem_spec h0 h1 C n u E1 Hu) as [E2 R2].
  destruct (last_block_mem h1 C n u) as [h2 Cn]. cbn [fst snd] in E2, R2.
  destruct (lenAB_mem_spec h0 h2 (N.of_nat (length A) * 8) (N.of_nat (length C) * 8) E2) as [E3 R3].
  destruct (lenAB_mem h2 _ _) as [h3 lenAB]. cbn [fst snd] in *.
  split; [exact E3|]. rewrite R1, R2, R3. reflexivity.
Qed.

Lemma append_inplace h s bs : s_len s + length bs <= s_cap s ->
  append h s bs = (set_nth h (s_arr s) (write_at (array h (s_arr s)) (s_off s + s_len s) bs),
                   mkSlice (s_arr s) (s_off s) (s_len s + length bs) (s_cap s)).
Proof. intros H. unfold append. rewrite (proj2 (Nat.leb_le _ _) H). reflexivity. Qed.

Lemma GetY0_mem_spec h H IV : slice_valid h IV ->
  ext h (fst (GetY0_mem h H IV)) /\ snd (GetY0_mem h H IV) = GetY0 H (read h IV).
Proof.
  intros Hv. pose proof (read_length h IV Hv) as Hlen. destruct Hv as (Ha & Hr & Hc).
  unfold GetY0_mem, GetY0. rewrite Hlen.
  destruct (Nat.eqb_spec (s_len IV * 8) 96) as [E|E].
  - assert (L12 : s_len IV = 12) by lia.
    unfold make, BlockSize. cbv beta iota zeta.
    set (h1 := h ++ [repeat 0%N 16]).
    assert (R1 : read h1 IV = read h IV) by (apply (read_ext h h1 IV); [apply ext_app, ext_refl|exact Ha]).
    assert (L1 : length h1 = S (length h)) by (unfold h1; rewrite app_length; cbn; lia).
    rewrite R1. set (iv := read h IV) in *.
    rewrite append_inplace by (cbn [s_len s_cap]; rewrite Hlen, L12; cbn; lia).
    cbv beta iota zeta. cbn [s_len s_cap s_arr s_off Nat.add].
    rewrite append_inplace by (cbn [s_len s_cap length]; rewrite Hlen, L12; cbn; lia).
    cbv beta iota zeta. cbn [s_len s_cap s_arr s_off fst snd].
    split.
    + apply ext_set; [|lia]. apply ext_set; [|lia]. unfold h1. apply ext_app, ext_refl.
    + unfold read. cbn [s_arr s_len s_off skipn].
      rewrite array_set_same by (rewrite set_nth_length, L1; lia).
      rewrite array_set_same by (rewrite L1; lia).
      unfold h1. rewrite array_app_new.
      unfold write_at. rewrite firstn_O, !Nat.add_0_l, Hlen, L12. cbn [app length Nat.add].
      rewrite skipn_zeros. cbn [Nat.sub repeat].
      assert (F : firstn 12 (iv ++ [0; 0; 0; 0]%N) = iv).
      { assert (Hl : length iv = 12) by (rewrite Hlen; exact L12). rewrite <- Hl. apply firstn_len_app. }
      rewrite F. rewrite skipn_all2 by (rewrite app_length, Hlen, L12; cbn; lia). rewrite ?app_nil_r.
      apply firstn_all2. rewrite app_length, Hlen, L12. cbn. lia.
  - apply GHASH_mem_spec, ext_refl.
Qed.

Section Cipher.
  Variable E : list N -> list N -> list N.

  Lemma tag_of_mem_spec h0 h key H Y0 A C : ext h0 h ->
    omap snd (tag_of_mem E h key H Y0 A C) = tag_of E key H Y0 A C /\
    (forall h' T, tag_of_mem E h key H Y0 A C = Ok (h', T) -> ext h0 h').
  Proof.
    intros Hext. unfold tag_of_mem, tag_of.
    destruct (block_call E key Y0) as [Enc| | |]; cbn [obind omap]; try (split; [reflexivity|discriminate]).
    destruct (GHASH_mem_spec h0 h H A C Hext) as [E1 R1].
    destruct (GHASH_mem h H A C) as [h1 G]. cbn [fst snd] in E1, R1. rewrite R1.
    destruct (MSB 128 (addition Enc (GHASH H A C))) as [T| | |]; cbn [obind omap snd]; split; try reflexivity; try discriminate.
    intros h' T' [= <- _]. exact E1.
  Qed.

  (* the four caller slices are valid in the caller's heap *)
  Definition args_valid (h : heap) (K IV X A : slice) : Prop :=
    slice_valid h K /\ slice_valid h IV /\ slice_valid h X /\ slice_valid h A.

  Lemma GCMEncrypt_mem_spec h K IV P A : args_valid h K IV P A ->
    omap snd (GCMEncrypt_mem E h K IV P A) = GCMEncrypt E (read h K) (read h IV) (read h P) (read h A) /\
    (forall h' r, GCMEncrypt_mem E h K IV P A = Ok (h', r) -> ext h h').
  Proof.
    intros (VK & VIV & VP & VA). unfold GCMEncrypt_mem, GCMEncrypt.
    destruct (GetH E (read h K)) as [H| | |]; cbn [obind omap]; try (split; [reflexivity|discriminate]).
    destruct (GetY0_mem_spec h H IV VIV) as [E1 R1].
    destruct (GetY0_mem h H IV) as [h1 Y0]. cbn [fst snd] in E1, R1. subst Y0.
    rewrite (read_ext h h1 K E1 (proj1 VK)), (read_ext h h1 P E1 (proj1 VP)), (read_ext h h1 A E1 (proj1 VA)).
    destruct (ctr_crypt E (read h K) (GetY0 H (read h IV)) (read h P)) as [C| | |]; cbn [obind omap];
      try (split; [reflexivity|discriminate]).
    destruct (tag_of_mem_spec h h1 (read h K) H (GetY0 H (read h IV)) (read h A) C E1) as [T1 T2].
    rewrite <- T1.
    destruct (tag_of_mem E h1 (read h K) H (GetY0 H (read h IV)) (read h A) C) as [[h2 T]| | |] eqn:ET;
      cbn [obind omap snd]; split; try reflexivity; try discriminate.
    intros h' r [= <- _]. apply (T2 h2 T eq_refl).
  Qed.

  Lemma GCMDecrypt_mem_spec h K IV C A : args_valid h K IV C A ->
    omap snd (GCMDecrypt_mem E h K IV C A) = GCMDecrypt E (read h K) (read h IV) (read h C) (read h A) /\
    (forall h' r, GCMDecrypt_mem E h K IV C A = Ok (h', r) -> ext h h').
  Proof.
    intros (VK & VIV & VC & VA). unfold GCMDecrypt_mem, GCMDecrypt.
    destruct (GetH E (read h K)) as [H| | |]; cbn [obind omap]; try (split; [reflexivity|discriminate]).
    destruct (GetY0_mem_spec h H IV VIV) as [E1 R1].
    destruct (GetY0_mem h H IV) as [h1 Y0]. cbn [fst snd] in E1, R1. subst Y0.
    rewrite (read_ext h h1 K E1 (proj1 VK)), (read_ext h h1 C E1 (proj1 VC)), (read_ext h h1 A E1 (proj1 VA)).
    destruct (tag_of_mem_spec h h1 (read h K) H (GetY0 H (read h IV)) (read h A) (read h C) E1) as [T1 T2].
    rewrite <- T1.
    destruct (tag_of_mem E h1 (read h K) H (GetY0 H (read h IV)) (read h A) (read h C)) as [[h2 T]| | |] eqn:ET;
      cbn [obind omap snd]; try (split; [reflexivity|discriminate]).
    pose proof (T2 h2 T eq_refl) as E2.
    rewrite (read_ext h h2 K E2 (proj1 VK)), (read_ext h h2 C E2 (proj1 VC)).
    destruct (ctr_crypt E (read h K) (GetY0 H (read h IV)) (read h C)) as [P| | |]; cbn [obind omap snd];
      split; try reflexivity; try discriminate.
    intros h' r [= <- _]. exact E2.
  Qed.

  Lemma Sm4GCM_mem_spec h K IV X A mode : args_valid h K IV X A ->
    omap snd (Sm4GCM_mem E h K IV X A mode) = Sm4GCM E (read h K) (read h IV) (read h X) (read h A) mode /\
    (forall h' r, Sm4GCM_mem E h K IV X A mode = Ok (h', r) -> ext h h').
  Proof.
    intros V. unfold Sm4GCM_mem, Sm4GCM. rewrite (read_length h K (proj1 V)).
    destruct (negb (Nat.eqb (s_len K) BlockSize)); [split; [reflexivity|discriminate]|].
    destruct mode; [apply GCMEncrypt_mem_spec|apply GCMDecrypt_mem_spec]; exact V.
  Qed.
End Cipher.
