(* Proofs about the model of sm4_gcm.go (SM4/GCMModel.v) against SP 800-38D (SM4/GCMSpec.v), for an
   abstract block cipher.  Property theorems are restated in Props/C12.v. *)
From Coq Require Import List NArith Arith Bool Lia ZifyN ZifyNat ZifyBool Btauto.
From GmsmVerif Require Import Lib.Outcome SM4.SM4Spec SM4.SM4Lemmas SM4.ModesSpec SM4.ModesModel SM4.ModesProofs
  SM4.GCMSpec SM4.GCMField SM4.GCMModel.
Import ListNotations.
Local Open Scope nat_scope.

(* ---------- byte strings as numbers --------------------------------------------------------------------- *)
Definition F (acc : N) (l : list N) : N := fold_left (fun acc b => (acc * 256 + b)%N) l acc.

Lemma val_F l : int_of_bytes l = F 0 l.
Proof. reflexivity. Qed.

Lemma F_app acc l b : F acc (l ++ [b]) = (F acc l * 256 + b)%N.
Proof. unfold F. rewrite fold_left_app. reflexivity. Qed.

Lemma F_lt l : forall acc k, bytes_ok l = true -> (acc < 2 ^ k)%N -> (F acc l < 2 ^ (k + 8 * N.of_nat (length l)))%N.
Proof.
  induction l as [|b l IH]; intros acc k Hb Ha.
  - cbn [F fold_left length]. rewrite N.add_0_r. exact Ha.
  - cbn [bytes_ok forallb] in Hb. apply andb_true_iff in Hb as [Hb1 Hb2]. apply N.ltb_lt in Hb1.
    change (F acc (b :: l)) with (F (acc * 256 + b)%N l).
    replace (k + 8 * N.of_nat (length (b :: l)))%N with ((k + 8) + 8 * N.of_nat (length l))%N by (cbn [length]; lia).
    apply IH; [exact Hb2|]. rewrite N.pow_add_r. change (2 ^ 8)%N with 256%N. nia.
Qed.

Lemma val_lt l : bytes_ok l = true -> (int_of_bytes l < 2 ^ (8 * N.of_nat (length l)))%N.
Proof. intros H. apply (F_lt l 0 0 H). reflexivity. Qed.

Lemma val16_b128 l : length l = 16 -> bytes_ok l = true -> b128 (int_of_bytes l).
Proof. intros Hl Hb. pose proof (val_lt l Hb) as H. rewrite Hl in H. exact H. Qed.

Lemma bytes_of_int_length n : forall x, length (bytes_of_int n x) = n.
Proof. induction n as [|n IH]; intros x; [reflexivity|]. cbn [bytes_of_int]. rewrite app_length, IH. cbn. lia. Qed.

Lemma bytes_of_int_ok n : forall x, bytes_ok (bytes_of_int n x) = true.
Proof.
  induction n as [|n IH]; intros x; [reflexivity|]. cbn [bytes_of_int].
  rewrite bytes_ok_app, IH. cbn [bytes_ok forallb andb].
  rewrite (proj2 (N.ltb_lt _ _)); [reflexivity|]. apply N.mod_lt. discriminate.
Qed.

Lemma bytes_of_int_val l : bytes_ok l = true -> bytes_of_int (length l) (int_of_bytes l) = l.
Proof.
  induction l as [|b l IH] using rev_ind; intros Hb; [reflexivity|].
  rewrite bytes_ok_app in Hb. apply andb_true_iff in Hb as [Hl Hb].
  cbn [bytes_ok forallb] in Hb. rewrite andb_true_r in Hb. apply N.ltb_lt in Hb.
  rewrite app_length. cbn [length]. rewrite Nat.add_1_r. cbn [bytes_of_int].
  rewrite val_F, F_app, <- val_F.
  replace ((int_of_bytes l * 256 + b) / 256)%N with (int_of_bytes l) by lia.
  replace ((int_of_bytes l * 256 + b) mod 256)%N with b by lia.
  rewrite IH by exact Hl. reflexivity.
Qed.

Lemma val_bytes_of_int n : forall x, (x < 2 ^ (8 * N.of_nat n))%N -> int_of_bytes (bytes_of_int n x) = x.
Proof.
  induction n as [|n IH]; intros x Hx.
  - cbn in Hx. cbn. lia.
  - cbn [bytes_of_int]. rewrite val_F, F_app, <- val_F. rewrite IH.
    + lia.
    + replace (8 * N.of_nat (S n))%N with (8 * N.of_nat n + 8)%N in Hx by lia.
      rewrite N.pow_add_r in Hx. change (2 ^ 8)%N with 256%N in Hx.
      apply N.div_lt_upper_bound; lia.
Qed.

(* ---------- addition ---------------------------------------------------------------------------------------- *)
Lemma addition_eq a b : length a = length b -> addition a b = xor_bytes a b.
Proof. intros H. unfold addition. rewrite H, Nat.eqb_refl. apply zip_xor_is_xor_bytes. Qed.

Lemma F_xor a : forall b p q, length a = length b -> bytes_ok a = true -> bytes_ok b = true ->
  F (N.lxor p q) (xor_bytes a b) = N.lxor (F p a) (F q b).
Proof.
  induction a as [|x a IH]; intros [|y b] p q Hl Ha Hb; try discriminate; [reflexivity|].
  cbn [bytes_ok forallb] in Ha, Hb.
  apply andb_true_iff in Ha as [Hx Ha]. apply andb_true_iff in Hb as [Hy Hb].
  apply N.ltb_lt in Hx. apply N.ltb_lt in Hy.
  cbn [xor_bytes]. change (F ?acc (?h :: ?t)) with (F (acc * 256 + h)%N t).
  rewrite <- IH by (try assumption; cbn in Hl; lia). f_equal.
  change 256%N with (2 ^ 8)%N.
  rewrite <- !lxor_shiftl_add by (change (2 ^ 8)%N with 256%N; try assumption; apply lxor_byte; assumption).
  rewrite N.shiftl_lxor. xor_ac.
Qed.

Lemma val_xor a b : length a = length b -> bytes_ok a = true -> bytes_ok b = true ->
  int_of_bytes (xor_bytes a b) = N.lxor (int_of_bytes a) (int_of_bytes b).
Proof. intros Hl Ha Hb. exact (F_xor a b 0%N 0%N Hl Ha Hb). Qed.

(* ---------- Rightshift ---------------------------------------------------------------------------------------- *)
Lemma shift_byte p v : (v < 256)%N ->
  N.lor (N.shiftl (N.land p 1) 7 mod 256) (N.shiftr v 1) = ((p mod 2) * 128 + v / 2)%N.
Proof.
  intros Hv. change 1%N with (N.ones 1) at 1. rewrite N.land_ones. change (2 ^ 1)%N with 2%N.
  assert (Hp : (p mod 2 < 2)%N) by (apply N.mod_lt; discriminate).
  rewrite N.shiftl_mul_pow2. change (2 ^ 7)%N with 128%N.
  rewrite N.mod_small by lia.
  rewrite N.shiftr_div_pow2. change (2 ^ 1)%N with 2%N.
  replace (p mod 2 * 128)%N with (N.shiftl (p mod 2) 7) at 1 by (rewrite N.shiftl_mul_pow2; reflexivity).
  rewrite lor_shiftl_add by (change (2 ^ 7)%N with 128%N; lia). reflexivity.
Qed.

Lemma rightshift_from_F l : forall acc p, bytes_ok l = true ->
  F acc (rightshift_from p l) = (F (2 * acc + p mod 2) l / 2)%N.
Proof.
  induction l as [|v l IH]; intros acc p Hb.
  - cbn [rightshift_from F fold_left]. assert (p mod 2 < 2)%N by (apply N.mod_lt; discriminate). lia.
  - cbn [bytes_ok forallb] in Hb. apply andb_true_iff in Hb as [Hv Hb]. apply N.ltb_lt in Hv.
    cbn [rightshift_from]. change (F ?a (?h :: ?t)) with (F (a * 256 + h)%N t).
    rewrite shift_byte by exact Hv. rewrite IH by exact Hb. f_equal. f_equal.
    assert (p mod 2 < 2)%N by (apply N.mod_lt; discriminate). lia.
Qed.

Lemma Rightshift_val V : bytes_ok V = true -> int_of_bytes (Rightshift V) = N.shiftr (int_of_bytes V) 1.
Proof.
  intros Hb. rewrite N.shiftr_div_pow2. change (2 ^ 1)%N with 2%N.
  destruct V as [|v l]; [reflexivity|].
  cbn [bytes_ok forallb] in Hb. apply andb_true_iff in Hb as [Hv Hb]. apply N.ltb_lt in Hv.
  cbn [Rightshift].
  change (int_of_bytes (N.shiftr v 1 :: rightshift_from v l)) with (F (0 * 256 + N.shiftr v 1)%N (rightshift_from v l)).
  change (int_of_bytes (v :: l)) with (F (0 * 256 + v)%N l).
  rewrite rightshift_from_F by exact Hb. f_equal. f_equal.
  rewrite N.shiftr_div_pow2. change (2 ^ 1)%N with 2%N. lia.
Qed.

Lemma rightshift_from_len l : forall p, length (rightshift_from p l) = length l.
Proof. induction l as [|v l IH]; intros p; [reflexivity|]. cbn. rewrite IH. reflexivity. Qed.

Lemma rightshift_from_ok l : forall p, bytes_ok l = true -> bytes_ok (rightshift_from p l) = true.
Proof.
  induction l as [|v l IH]; intros p Hb; [reflexivity|].
  cbn [bytes_ok forallb] in Hb. apply andb_true_iff in Hb as [Hv Hb]. apply N.ltb_lt in Hv.
  cbn [rightshift_from bytes_ok forallb]. fold (bytes_ok (rightshift_from v l)). rewrite IH by exact Hb.
  rewrite shift_byte by exact Hv. rewrite andb_true_r. apply N.ltb_lt.
  assert (p mod 2 < 2)%N by (apply N.mod_lt; discriminate). lia.
Qed.

Lemma Rightshift_len V : length (Rightshift V) = length V.
Proof. destruct V as [|v l]; [reflexivity|]. cbn. rewrite rightshift_from_len. reflexivity. Qed.

Lemma Rightshift_ok V : bytes_ok V = true -> bytes_ok (Rightshift V) = true.
Proof.
  destruct V as [|v l]; intros Hb; [reflexivity|].
  cbn [bytes_ok forallb] in Hb. apply andb_true_iff in Hb as [Hv Hb]. apply N.ltb_lt in Hv.
  cbn [Rightshift bytes_ok forallb]. fold (bytes_ok (rightshift_from v l)).
  rewrite rightshift_from_ok by exact Hb. rewrite andb_true_r. apply N.ltb_lt.
  rewrite N.shiftr_div_pow2. change (2 ^ 1)%N with 2%N. lia.
Qed.

(* ---------- bits of a byte string -------------------------------------------------------------------------- *)
Lemma testbit_snoc l b k : (b < 256)%N ->
  N.testbit (int_of_bytes (l ++ [b])) k = if (k <? 8)%N then N.testbit b k else N.testbit (int_of_bytes l) (k - 8).
Proof.
  intros Hb. rewrite val_F, F_app, <- val_F.
  change 256%N with (2 ^ 8)%N. rewrite <- lxor_shiftl_add by exact Hb.
  rewrite N.lxor_spec. destruct (N.ltb_spec k 8) as [Hk|Hk].
  - rewrite N.shiftl_spec_low by exact Hk. apply xorb_false_l.
  - rewrite N.shiftl_spec_high' by exact Hk. rewrite (lt_pow2_bits b 8 k Hb Hk). apply xorb_false_r.
Qed.

Lemma testbit_val l : forall k, bytes_ok l = true -> (k < 8 * N.of_nat (length l))%N ->
  N.testbit (int_of_bytes l) k = N.testbit (nth (length l - 1 - N.to_nat (k / 8)) l 0%N) (k mod 8).
Proof.
  induction l as [|b l IH] using rev_ind; intros k Hb Hk; [cbn in Hk; lia|].
  rewrite bytes_ok_app in Hb. apply andb_true_iff in Hb as [Hl Hb].
  cbn [bytes_ok forallb] in Hb. rewrite andb_true_r in Hb. apply N.ltb_lt in Hb.
  rewrite app_length in *. cbn [length] in *.
  rewrite testbit_snoc by exact Hb.
  destruct (N.ltb_spec k 8) as [Hk8|Hk8].
  - replace (N.to_nat (k / 8)) with 0 by lia.
    replace (length l + 1 - 1 - 0) with (length l) by lia.
    rewrite app_nth2, Nat.sub_diag by lia. cbn [nth]. f_equal. lia.
  - rewrite IH by (try exact Hl; lia).
    replace ((k - 8) mod 8)%N with (k mod 8)%N by lia.
    rewrite app_nth1 by lia. f_equal. f_equal. lia.
Qed.

Lemma land1_testbit t s : (N.land (N.shiftr t s) 1 =? 1)%N = N.testbit t s.
Proof.
  change 1%N with (N.ones 1) at 1. rewrite N.land_ones. change (2 ^ 1)%N with 2%N.
  rewrite <- N.bit0_mod. rewrite N.shiftr_spec', N.add_0_l. destruct (N.testbit t s); reflexivity.
Qed.

Lemma findYi_val Y i : length Y = 16 -> bytes_ok Y = true -> i < 128 ->
  (findYi Y i =? 1)%N = N.testbit (int_of_bytes Y) (N.of_nat (127 - i)).
Proof.
  intros Hl Hb Hi. unfold findYi. rewrite land1_testbit.
  rewrite testbit_val by (try exact Hb; lia). rewrite Hl.
  replace (16 - 1 - N.to_nat (N.of_nat (127 - i) / 8)) with (i / 8) by lia.
  replace (N.of_nat (127 - i) mod 8)%N with (N.of_nat (7 - i mod 8)) by lia.
  destruct (N.testbit _ _); reflexivity.
Qed.

Lemma land1_eq0 x : (N.land x 1 =? 0)%N = negb (N.testbit x 0).
Proof.
  change 1%N with (N.ones 1). rewrite N.land_ones. change (2 ^ 1)%N with 2%N.
  rewrite <- N.bit0_mod. destruct (N.testbit x 0); reflexivity.
Qed.

Lemma last_byte_lsb V : length V = 16 -> bytes_ok V = true ->
  (N.land (nth (BlockSize - 1) V 0%N) 1 =? 0)%N = negb (N.testbit (int_of_bytes V) 0).
Proof.
  intros Hl Hb. rewrite testbit_val by (try exact Hb; lia). rewrite Hl.
  change (16 - 1 - N.to_nat (0 / 8)) with 15. change (0 mod 8)%N with 0%N. change (BlockSize - 1) with 15.
  apply land1_eq0.
Qed.

Lemma R_bytes_val : int_of_bytes R_bytes = R /\ length R_bytes = 16 /\ bytes_ok R_bytes = true.
Proof. vm_compute. repeat split; reflexivity. Qed.

Lemma zeros_val n : int_of_bytes (zeros n) = 0%N.
Proof. induction n as [|n IH]; [reflexivity|]. exact IH. Qed.

Lemma zeros_ok n : bytes_ok (zeros n) = true.
Proof. apply bytes_ok_repeat. reflexivity. Qed.

(* ---------- multiplication --------------------------------------------------------------------------------- *)
Definition blk16 (l : list N) : Prop := length l = 16 /\ bytes_ok l = true.

Lemma xor_blk16 a b : blk16 a -> blk16 b -> blk16 (xor_bytes a b).
Proof.
  intros [Ha1 Ha2] [Hb1 Hb2]. split.
  - rewrite xor_bytes_length; [exact Ha1|]. rewrite Ha1, Hb1. reflexivity.
  - apply xor_bytes_ok; assumption.
Qed.

Lemma mult_loop_spec n : forall i Y Z V, i + n = 128 -> blk16 Y -> blk16 Z -> blk16 V ->
  blk16 (mult_loop n i Y Z V) /\
  int_of_bytes (mult_loop n i Y Z V) = mul_loop n (int_of_bytes Y) (int_of_bytes Z) (int_of_bytes V).
Proof.
  induction n as [|n IH]; intros i Y Z V Hi HY HZ HV; [split; [exact HZ|reflexivity]|].
  cbn [mult_loop mul_loop]. unfold mult_step_Z, mult_step_V.
  destruct HY as [HY1 HY2]. pose proof HZ as [HZ1 HZ2]. pose proof HV as [HV1 HV2].
  destruct R_bytes_val as (HR1 & HR2 & HR3).
  rewrite findYi_val by (try assumption; lia).
  replace (127 - i) with n by lia.
  rewrite last_byte_lsb by assumption.
  set (Z' := if N.testbit (int_of_bytes Y) (N.of_nat n) then addition Z V else Z).
  set (V' := if negb (N.testbit (int_of_bytes V) 0) then Rightshift V else addition (Rightshift V) R_bytes).
  assert (HZ' : blk16 Z' /\ int_of_bytes Z' =
                 (if N.testbit (int_of_bytes Y) (N.of_nat n) then N.lxor (int_of_bytes Z) (int_of_bytes V) else int_of_bytes Z)).
  { unfold Z'. destruct (N.testbit (int_of_bytes Y) (N.of_nat n)); [|split; [exact HZ|reflexivity]].
    rewrite addition_eq by (rewrite HZ1, HV1; reflexivity).
    split; [apply xor_blk16; assumption|]. apply val_xor; [rewrite HZ1, HV1; reflexivity|assumption|assumption]. }
  assert (HS : blk16 (Rightshift V)) by (split; [rewrite Rightshift_len; exact HV1|apply Rightshift_ok; exact HV2]).
  assert (HV' : blk16 V' /\ int_of_bytes V' = mulx (int_of_bytes V)).
  { unfold V', mulx. destruct (N.testbit (int_of_bytes V) 0); cbn [negb].
    - destruct HS as [HS1 HS2]. rewrite addition_eq by (rewrite HS1, HR2; reflexivity).
      split; [apply xor_blk16; split; assumption|].
      rewrite val_xor by (try assumption; rewrite HS1, HR2; reflexivity).
      rewrite Rightshift_val by exact HV2. rewrite HR1. reflexivity.
    - split; [exact HS|]. apply Rightshift_val. exact HV2. }
  destruct HZ' as [HZa HZb]. destruct HV' as [HVa HVb].
  destruct (IH (S i) Y Z' V' ltac:(lia) (conj HY1 HY2) HZa HVa) as [H1 H2].
  split; [exact H1|]. rewrite H2, HZb, HVb. reflexivity.
Qed.

Lemma copy16_id X : length X = 16 -> copy16 X = X.
Proof.
  intros H. unfold copy16. rewrite firstn_app. replace (16 - length X) with 0 by lia.
  rewrite firstn_O, app_nil_r, <- H. apply firstn_all.
Qed.

(* Go's multiplication(X, Y) runs Algorithm 1 with the bits of Y and V_0 = X *)
Lemma multiplication_alg1 X Y : blk16 X -> blk16 Y ->
  blk16 (multiplication X Y) /\ multiplication X Y = gf_mul_bytes Y X.
Proof.
  intros HX HY. unfold multiplication. rewrite copy16_id by apply HX.
  assert (HZ : blk16 (zeros BlockSize)) by (split; [apply repeat_length|apply zeros_ok]).
  destruct (mult_loop_spec 128 0 Y (zeros BlockSize) X eq_refl HY HZ HX) as [[H1 H2] H3].
  split; [split; assumption|].
  unfold gf_mul_bytes, gf_mul. rewrite <- (zeros_val BlockSize), <- H3.
  rewrite <- H1 at 2. symmetry. apply bytes_of_int_val. exact H2.
Qed.

(* ... which, by commutativity of the multiplication, is X . Y *)
Lemma multiplication_spec X Y : blk16 X -> blk16 Y ->
  blk16 (multiplication X Y) /\ multiplication X Y = gf_mul_bytes X Y.
Proof.
  intros HX HY. destruct (multiplication_alg1 X Y HX HY) as [H1 H2]. split; [exact H1|].
  rewrite H2. unfold gf_mul_bytes. f_equal.
  apply gf_mul_comm; apply val16_b128; (apply HX || apply HY).
Qed.

(* ---------- blocks of strings of any length ------------------------------------------------------------------ *)
Definition cdiv (n : nat) : nat := (n + 15) / 16.

Lemma blocks_fuel_nil fuel : blocks_fuel fuel [] = [].
Proof. destruct fuel; reflexivity. Qed.

Lemma blocks_fuel_gen fuel : forall l, cdiv (length l) <= fuel ->
  blocks_fuel fuel l = map (blk l) (seq 0 (cdiv (length l))).
Proof.
  induction fuel as [|fuel IH]; intros l Hf.
  - destruct l as [|x l]; [reflexivity|]. unfold cdiv in Hf. cbn [length] in Hf. lia.
  - destruct l as [|x l'] eqn:El; [reflexivity|]. rewrite <- El in *.
    assert (Hne : l <> []) by (rewrite El; discriminate).
    assert (Hlen : 1 <= length l) by (rewrite El; cbn [length]; lia).
    rewrite blocks_fuel_S by exact Hne.
    assert (Hc : cdiv (length l) = S (cdiv (length (skipn 16 l)))).
    { rewrite skipn_length. unfold cdiv. lia. }
    rewrite Hc. change (seq 0 (S ?c)) with (0 :: seq 1 c). cbn [map].
    replace (blk l 0) with (firstn BS l) by (unfold blk, BS; rewrite Nat.mul_0_r; reflexivity).
    f_equal. unfold BS. rewrite IH by lia.
    rewrite <- seq_shift, map_map. apply map_ext. intros i. apply blk_skipn.
Qed.

Lemma cdiv_le n : cdiv n <= n.
Proof. unfold cdiv. lia. Qed.

Lemma blocks_gen l : blocks l = map (blk l) (seq 0 (cdiv (length l))).
Proof. unfold blocks. apply blocks_fuel_gen, cdiv_le. Qed.

Lemma blocks_cons l : l <> [] -> blocks l = firstn 16 l :: blocks (skipn 16 l).
Proof.
  intros Hne. unfold blocks at 1.
  destruct l as [|x l'] eqn:El; [congruence|]. rewrite <- El in *.
  assert (Hlen : length l = S (length l')) by (rewrite El; reflexivity).
  rewrite Hlen, blocks_fuel_S by exact Hne. unfold BS. f_equal.
  rewrite blocks_fuel_gen, <- blocks_gen; [reflexivity|].
  rewrite skipn_length. unfold cdiv. lia.
Qed.

Lemma blocks_app n : forall a b, length a = 16 * n -> blocks (a ++ b) = blocks a ++ blocks b.
Proof.
  induction n as [|n IH]; intros a b Ha.
  - destruct a; [reflexivity|cbn [length] in Ha; lia].
  - assert (Hne : a <> []) by (apply (len_nonnil a n Ha)).
    rewrite (blocks_cons (a ++ b)) by (destruct a; [congruence|discriminate]).
    rewrite (blocks_cons a) by exact Hne. cbn [app]. f_equal.
    + rewrite firstn_app. replace (16 - length a) with 0 by lia. rewrite firstn_O. apply app_nil_r.
    + rewrite skipn_app. replace (16 - length a) with 0 by lia. rewrite skipn_O.
      apply IH. rewrite skipn_length. lia.
Qed.

Lemma blocks_single l : length l = 16 -> blocks l = [l].
Proof.
  intros H. rewrite blocks_cons by (destruct l; [discriminate H|discriminate]).
  rewrite <- H at 1. rewrite firstn_all. rewrite skipn_all2 by lia. reflexivity.
Qed.

(* ---------- GHASH --------------------------------------------------------------------------------------------- *)
Definition step (H Y Xi : list N) : list N := multiplication (addition Y Xi) H.
Definition sstep (H Y Xi : list N) : list N := gf_mul_bytes (xor_bytes Y Xi) H.

Lemma step_spec H Y Xi : blk16 H -> blk16 Y -> blk16 Xi -> blk16 (step H Y Xi) /\ step H Y Xi = sstep H Y Xi.
Proof.
  intros HH HY HX. unfold step, sstep.
  rewrite addition_eq by (destruct HY as [-> _], HX as [-> _]; reflexivity).
  apply multiplication_spec; [apply xor_blk16; assumption|exact HH].
Qed.

Lemma fold_left_cons {A B} (f : A -> B -> A) b bs a : fold_left f (b :: bs) a = fold_left f bs (f a b).
Proof. reflexivity. Qed.

Lemma fold_step_spec H bs : blk16 H -> Forall blk16 bs -> forall Y, blk16 Y ->
  blk16 (fold_left (step H) bs Y) /\ fold_left (step H) bs Y = fold_left (sstep H) bs Y.
Proof.
  intros HH HF. induction HF as [|b bs Hb HF IH]; intros Y HY.
  - split; [exact HY|reflexivity].
  - rewrite !fold_left_cons.
    destruct (step_spec H Y b HH HY Hb) as [H1 H2]. rewrite <- H2. apply IH. exact H1.
Qed.

Lemma ghash_loop_S n j data H X :
  ghash_loop (S n) j data H X = ghash_loop n (S j) data H (step H X (blk data j)).
Proof. cbn [ghash_loop]. unfold step. reflexivity. Qed.

Lemma ghash_loop_fold n : forall j data H X,
  ghash_loop n j data H X = fold_left (step H) (map (blk data) (seq j n)) X.
Proof.
  induction n as [|n IH]; intros j data H X; [reflexivity|].
  rewrite ghash_loop_S. rewrite <- cons_seq, map_cons, fold_left_cons. apply IH.
Qed.

(* what calculm_v computes for a non-empty string: m blocks, the last one holding t = v/8 bytes *)
Lemma calculm_v_pos len : 1 <= len ->
  exists m t, calculm_v (len / BlockSize) (len mod BlockSize) = (m, 8 * t) /\ 1 <= m /\ 1 <= t <= 16 /\
              len = 16 * (m - 1) + t /\ (16 - len mod 16) mod 16 = 16 - t /\ m = cdiv len.
Proof.
  intros Hl. unfold calculm_v, BlockSize, cdiv.
  destruct (Nat.eqb_spec (len / 16) 0) as [Hq|Hq]; destruct (Nat.eqb_spec (len mod 16) 0) as [Hr|Hr]; cbn [negb andb].
  - lia.
  - exists 1, (len mod 16). split; [f_equal; lia|]. lia.
  - exists (len / 16), 16. split; [reflexivity|]. lia.
  - exists (len / 16 + 1), (len mod 16). split; [f_equal; lia|]. lia.
Qed.

Lemma calculm_v_zero : calculm_v (0 / BlockSize) (0 mod BlockSize) = (1, 0).
Proof. reflexivity. Qed.

Lemma pad0_length l : length (pad0 l) = 16 * cdiv (length l).
Proof. unfold pad0, cdiv. rewrite app_length, repeat_length. lia. Qed.

Lemma pad0_ok l : bytes_ok l = true -> bytes_ok (pad0 l) = true.
Proof. intros H. unfold pad0. rewrite bytes_ok_app, H. apply zeros_ok. Qed.

(* the model's walk over a non-empty string = the 16-byte blocks of the zero-padded string *)
Lemma phase_blocks data m t : 1 <= m -> 1 <= t <= 16 -> length data = 16 * (m - 1) + t ->
  (16 - length data mod 16) mod 16 = 16 - t ->
  map (blk data) (seq 0 (m - 1)) ++ [last_block data m (8 * t)] = blocks (pad0 data).
Proof.
  intros Hm Ht Hlen Hpad.
  assert (Hpl : length (pad0 data) = 16 * m) by (rewrite pad0_length; unfold cdiv; lia).
  rewrite (blocks_map _ m Hpl).
  replace m with ((m - 1) + 1) at 3 by lia. rewrite seq_app, map_app. cbn [seq map Nat.add]. f_equal.
  - apply map_ext_in. intros j Hj. apply in_seq in Hj. unfold blk, pad0.
    rewrite skipn_app. rewrite firstn_app.
    replace (16 - length (skipn (16 * j) data)) with 0 by (rewrite skipn_length; lia).
    rewrite firstn_O. symmetry. apply app_nil_r.
  - f_equal. unfold last_block, blk, pad0, BlockSize. rewrite Hpad.
    replace (8 * t / 8) with t by lia. replace ((128 - 8 * t) / 8) with (16 - t) by lia.
    rewrite skipn_app. replace (16 * (m - 1) - length data) with 0 by lia. cbn [skipn].
    replace ((m - 1) * 16) with (16 * (m - 1)) by lia.
    set (tail := skipn (16 * (m - 1)) data).
    assert (Htl : length tail = t) by (unfold tail; rewrite skipn_length; lia).
    rewrite (firstn_app t). rewrite Htl, Nat.sub_diag, firstn_O, app_nil_r.
    rewrite <- Htl at 1. rewrite firstn_all.
    rewrite firstn_all2; [reflexivity|]. rewrite app_length, repeat_length. lia.
Qed.

Lemma blocks_blk16 l n : length l = 16 * n -> bytes_ok l = true -> Forall blk16 (blocks l).
Proof. intros Hl Hb. exact (blocks_ok l n Hl Hb). Qed.

Lemma calculateLenToBytes_spec x : calculateLenToBytes x = bytes_of_int 8 x.
Proof.
  unfold calculateLenToBytes. cbn [bytes_of_int app]. rewrite !N.shiftr_div_pow2.
  rewrite !N.div_div by discriminate. reflexivity.
Qed.

Lemma gf_mul_bytes_zero_l H : gf_mul_bytes (zeros 16) H = zeros 16.
Proof. unfold gf_mul_bytes. rewrite zeros_val, gf_mul_0_l. reflexivity. Qed.

Lemma xor_zeros_zeros : xor_bytes (zeros 16) (zeros 16) = zeros 16.
Proof. reflexivity. Qed.

(* one phase of GHASH (over A, then over C) *)
Lemma phase_spec H data X : blk16 H -> blk16 X -> bytes_ok data = true -> data <> [] ->
  let '(m, v) := calculm_v (length data / BlockSize) (length data mod BlockSize) in
  v <> 0 /\
  step H (ghash_loop (m - 1) 0 data H X) (last_block data m v) = fold_left (sstep H) (blocks (pad0 data)) X /\
  blk16 (fold_left (sstep H) (blocks (pad0 data)) X).
Proof.
  intros HH HX Hb Hne.
  assert (Hl : 1 <= length data) by (destruct data; [congruence|cbn [length]; lia]).
  destruct (calculm_v_pos (length data) Hl) as (m & t & -> & Hm & Ht & Hlen & Hpad & Hc).
  split; [lia|].
  rewrite ghash_loop_fold.
  change (step H (fold_left (step H) ?bs X) ?b) with (fold_left (step H) [b] (fold_left (step H) bs X)).
  rewrite <- fold_left_app, (phase_blocks data m t Hm Ht Hlen Hpad).
  assert (HF : Forall blk16 (blocks (pad0 data))).
  { apply (blocks_blk16 _ (cdiv (length data))); [apply pad0_length|apply pad0_ok, Hb]. }
  destruct (fold_step_spec H _ HH HF X HX) as [H1 H2]. rewrite <- H2. split; [reflexivity|exact H1].
Qed.

Definition ghash_input (A C : list N) : list N := pad0 A ++ pad0 C ++ len64 A ++ len64 C.

Lemma GHASH_spec H A C : blk16 H -> bytes_ok A = true -> bytes_ok C = true ->
  GHASH H A C = ghash H (ghash_input A C) /\ blk16 (GHASH H A C).
Proof.
  intros HH HA HC. unfold GHASH, ghash, ghash_input.
  assert (HZ : blk16 (zeros BlockSize)) by (split; [apply repeat_length|apply zeros_ok]).
  rewrite (blocks_app (cdiv (length A))) by apply pad0_length.
  rewrite (blocks_app (cdiv (length C))) by apply pad0_length.
  assert (HL : blk16 (len64 A ++ len64 C)).
  { unfold len64. split; [rewrite app_length, !bytes_of_int_length; reflexivity|].
    rewrite bytes_ok_app, !bytes_of_int_ok. reflexivity. }
  rewrite (blocks_single (len64 A ++ len64 C)) by apply HL.
  rewrite !fold_left_app. cbn [fold_left].
  rewrite !calculateLenToBytes_spec.
  replace (N.of_nat (length A) * 8)%N with (8 * N.of_nat (length A))%N by lia.
  replace (N.of_nat (length C) * 8)%N with (8 * N.of_nat (length C))%N by lia.
  fold (len64 A) (len64 C).
  (* the A phase starts from X_0 = 0 *)
  assert (PA : let '(m, v) := calculm_v (length A / BlockSize) (length A mod BlockSize) in
               step H (ghash_loop (m - 1) 0 A H (zeros BlockSize)) (last_block A m v)
               = fold_left (sstep H) (blocks (pad0 A)) zero_block /\
               blk16 (fold_left (sstep H) (blocks (pad0 A)) zero_block)).
  { destruct A as [|a A'] eqn:EA.
    - cbn [length]. rewrite calculm_v_zero. cbn [ghash_loop Nat.sub]. change (pad0 []) with (@nil N). cbn [blocks blocks_fuel length fold_left].
      split; [|exact HZ].
      change (last_block [] 1 0) with (zeros 16). unfold step.
      rewrite addition_eq by reflexivity. change (xor_bytes (zeros BlockSize) (zeros 16)) with (zeros 16).
      destruct (multiplication_spec (zeros 16) H HZ HH) as [_ ->]. apply gf_mul_bytes_zero_l.
    - rewrite <- EA in *. pose proof (phase_spec H A (zeros BlockSize) HH HZ HA ltac:(rewrite EA; discriminate)) as P.
      destruct (calculm_v _ _) as [m v]. destruct P as (_ & P1 & P2). split; assumption. }
  destruct (calculm_v (length A / BlockSize) (length A mod BlockSize)) as [m v].
  destruct PA as [PA1 PA2]. fold (step H (ghash_loop (m - 1) 0 A H (zeros BlockSize)) (last_block A m v)).
  rewrite PA1. set (XA := fold_left (sstep H) (blocks (pad0 A)) zero_block) in *.
  (* the C phase *)
  assert (PC : let '(n, u) := calculm_v (length C / BlockSize) (length C mod BlockSize) in
               (if Nat.eqb u 0 then ghash_loop (n - 1) 0 C H XA
                else step H (ghash_loop (n - 1) 0 C H XA) (last_block C n u))
               = fold_left (sstep H) (blocks (pad0 C)) XA /\
               blk16 (fold_left (sstep H) (blocks (pad0 C)) XA)).
  { destruct C as [|c C'] eqn:EC.
    - cbn [length]. rewrite calculm_v_zero. cbn [Nat.eqb ghash_loop Nat.sub]. change (pad0 []) with (@nil N).
      cbn [blocks blocks_fuel length fold_left]. split; [reflexivity|exact PA2].
    - rewrite <- EC in *. pose proof (phase_spec H C XA HH PA2 HC ltac:(rewrite EC; discriminate)) as P.
      destruct (calculm_v _ _) as [n u]. destruct P as (Hu & P1 & P2).
      rewrite (proj2 (Nat.eqb_neq u 0) Hu). split; assumption. }
  destruct (calculm_v (length C / BlockSize) (length C mod BlockSize)) as [n u].
  destruct PC as [PC1 PC2].
  fold (step H (ghash_loop (n - 1) 0 C H XA) (last_block C n u)). rewrite PC1.
  fold (step H (fold_left (sstep H) (blocks (pad0 C)) XA) (len64 A ++ len64 C)).
  destruct (step_spec H _ _ HH PC2 HL) as [S1 S2]. split; [exact S2|exact S1].
Qed.
