(* The constant the model of SetIV of sm4.go hard-codes is the constant of the source (Gen/SM4Consts.v), the literal
   sequence of SetIV is frozen (it has no semantic tie to the source: ANY changed, added or removed integer constant
   in it stops this file from compiling), and the package-level variables of sm4.go are the expected ones.  The four
   mode helpers Sm4Ecb / Sm4Cbc / Sm4CFB / Sm4OFB and the leaf functions xor, pkcs7Padding and pkcs7UnPadding are tied
   SEMANTICALLY by SM4/ModesCodeTie.v (their statement-by-statement translation Gen/ModesCode.v equals the model for
   all inputs), so no positional fingerprint of their literals is kept here any more: a behaviour-preserving rewrite
   of their bodies (harmless/C11-h1) leaves this file untouched.  Restated in Props/C11.v. *)
From Coq Require Import List NArith Arith String.
From GmsmVerif Require Import Lib.Outcome Gen.SM4Consts SM4.ModesModel SM4.SM4ConstsBlock.
Import ListNotations.
Local Open Scope N_scope.

(* ---------- sm4.go: IV, package variables -------------------------------------------------------------- *)
Lemma SetIV_at_source iv pk :
  SetIV iv pk = if negb (Nat.eqb (List.length iv) (nlit gen_lits_SetIV 0)) then (Err 1%nat, pk) else (Ok Datatypes.tt, mkPkg iv).
Proof. reflexivity. Qed.

(* the package-level variables the model of sm4.go knows: IV (record pkg), the mutex ivMu that orders SetIV's write
   of IV against the helpers' reads (D51; no effect on values: the helpers use the IV in force at call time, which
   is what the model's pkg record says - the locking itself is C20's subject), and the constant tables
   (Gen/SM4Tables.v) *)
Definition sm4_pkg_vars_expected : list string := ["IV"; "ivMu"; "fk"; "ck"; "sbox"; "sbox0"; "sbox1"; "sbox2"; "sbox3"]%string.

Lemma pkg_vars_sm4_at_source : gen_pkg_vars_sm4 = sm4_pkg_vars_expected.
Proof. reflexivity. Qed.

Lemma lits_modes_frozen :
  gen_lits_SetIV =
  [16].
Proof. reflexivity. Qed.
