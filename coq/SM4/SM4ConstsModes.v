(* The constants the model of the mode helpers of sm4.go hard-codes (pkcs7Padding, pkcs7UnPadding, SetIV,
   Sm4Ecb/Cbc/CFB/OFB) are the constants of the source (Gen/SM4Consts.v), the literal sequences of these functions
   (they have no semantic tie to the source: ANY changed, added or removed integer constant in them stops this
   file from compiling), and the package-level variables of sm4.go.  Restated in Props/C11.v. *)
From Coq Require Import List NArith Arith String.
From GmsmVerif Require Import Lib.Outcome Gen.SM4Consts SM4.ModesModel SM4.SM4ConstsBlock.
Import ListNotations.
Local Open Scope N_scope.

(* ---------- sm4.go: padding, IV, the mode helpers -------------------------------------------------------------- *)
Lemma pkcs7Padding_at_source src :
  pkcs7Padding src =
    let padding := (nlit gen_lits_pkcs7Padding 0 - List.length src mod nlit gen_lits_pkcs7Padding 1)%nat in
    src ++ repeat (N.of_nat padding mod 256) padding.
Proof. reflexivity. Qed.

Lemma SetIV_at_source iv pk :
  SetIV iv pk = if negb (Nat.eqb (List.length iv) (nlit gen_lits_SetIV 0)) then (Err 1%nat, pk) else (Ok Datatypes.tt, mkPkg iv).
Proof. reflexivity. Qed.

(* every helper: key length BlockSize, 16-byte windows i*16 : i*16+16, len(inData)/16 iterations *)
Lemma helpers_block_at_source data i :
  blk data i = firstn (nlit gen_lits_Sm4Cbc 9) (skipn (nlit gen_lits_Sm4Cbc 6 * i) data) /\
  blk data i = firstn (nlit gen_lits_Sm4Ecb 6) (skipn (nlit gen_lits_Sm4Ecb 3 * i) data) /\
  zeros16 = repeat 0 (nlit gen_lits_Sm4CFB 1) /\ zeros16 = repeat 0 (nlit gen_lits_Sm4OFB 1).
Proof. repeat split; reflexivity. Qed.

(* the package-level variables the model of sm4.go knows: IV (record pkg), the mutex ivMu that orders SetIV's write
   of IV against the helpers' reads (D51; no effect on values: the helpers use the IV in force at call time, which
   is what the model's pkg record says - the locking itself is C20's subject), and the constant tables
   (Gen/SM4Tables.v) *)
Definition sm4_pkg_vars_expected : list string := ["IV"; "ivMu"; "fk"; "ck"; "sbox"; "sbox0"; "sbox1"; "sbox2"; "sbox3"]%string.

Lemma pkg_vars_sm4_at_source : gen_pkg_vars_sm4 = sm4_pkg_vars_expected.
Proof. reflexivity. Qed.

Lemma lits_modes_frozen :
  gen_lits_SetIV =
  [16] /\
  gen_lits_Sm4CFB =
  [16; 16; 16; 16; 0; 16; 0; 16; 16; 16; 16; 16; 16; 16; 16; 16; 16; 16; 16; 16; 16; 0; 16; 0; 16; 16; 16; 16; 16; 16; 16; 1; 16; 1; 16; 16; 16; 16; 16; 16; 16; 16; 16] /\
  gen_lits_Sm4Cbc =
  [16; 16; 0; 16; 16; 16; 16; 16; 16; 16; 16; 0; 16; 16; 16; 16; 16; 16; 16; 16] /\
  gen_lits_Sm4Ecb =
  [16; 0; 16; 16; 16; 16; 16; 16; 16; 16; 0; 16; 16; 16; 16; 16; 16; 16; 16] /\
  gen_lits_Sm4OFB =
  [16; 16; 16; 16; 16; 0; 16; 0; 16; 16; 16; 16; 16; 16; 16; 16; 16; 16; 16; 16; 16; 16; 16; 16; 0; 16; 0; 16; 16; 16; 16; 16; 16; 16; 16; 16; 16; 16; 16; 16; 16; 16; 16] /\
  gen_lits_pkcs7Padding =
  [16; 16] /\
  gen_lits_pkcs7UnPadding =
  [0; 1; 16; 0; 0] /\
  gen_lits_xor =
  [0].
Proof. repeat split; reflexivity. Qed.

