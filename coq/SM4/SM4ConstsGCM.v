(* The constants the model of sm4_gcm.go hard-codes are the constants of the source (Gen/SM4Consts.v): the
   length-block shifts 56..0,
   the factor 8, 96 and 00 00 00 01 of GetY0, inc32's 4-byte bound, t = 128, BlockSize; the literal sequences of
   all functions of sm4_gcm.go except addition, Rightshift, findYi, MSB, multiplication (those five: semantic tie, SM4/GCMCodeTie.v; the others no
   semantic tie: ANY changed integer constant stops this file from compiling);
   and sm4_gcm.go declares no package-level variable.  Restated in Props/C12.v. *)
From Coq Require Import List NArith Arith String.
From GmsmVerif Require Import Lib.Outcome Gen.SM4Tables Gen.SM4Consts SM4.ModesModel SM4.GCMModel SM4.SM4ConstsBlock.
Import ListNotations.
Local Open Scope N_scope.

(* ---------- sm4_gcm.go ------------------------------------------------------------------------------------------- *)
Lemma BlockSize_at_source : GCMModel.BlockSize = N.to_nat gen_BlockSize.
Proof. reflexivity. Qed.

(* multiplication: no positional fingerprint any more (R[0] = 0xe1, the bounds 0..127, V[BlockSize-1] & 0x01): the
   statements in front of its loop, the loop header and the loop body at every index are regenerated (Gen/GCMCode.v) and
   proved to be the model's (SM4/GCMCodeTieMult.v, C12_mult_code_is_model). *)

(* Rightshift, findYi, addition (and MSB below): no positional fingerprint any more.  They are tied semantically - the translator
   target gcmcode regenerates their bodies (Gen/GCMCode.v) and SM4/GCMCodeTie.v proves the regenerated functions equal
   to the model for all byte inputs (C12_leaf_code_is_model) - so a behaviour-preserving rewrite of them is quiet. *)

(* calculateLenToBytes: (len >> 56) & 0xff ... (len >> 0) & 0xff; lengths in bits: len(A)*8 *)
Definition ghash_len_shifts : list N := map (fun k => lit gen_lits_GHASH (90 + 3 * k)) (seq 0 8).
Definition ghash_len_masks : list N := map (fun k => lit gen_lits_GHASH (91 + 3 * k)) (seq 0 8).

Lemma calculateLenToBytes_at_source x :
  calculateLenToBytes x = map (fun s => N.shiftr x s mod 256) ghash_len_shifts /\
  ghash_len_masks = repeat 255 8.
Proof. split; reflexivity. Qed.

(* calculm_v: v*8, BlockSize*8; zeros := make((128-v)/8); Am := make(v/8) *)
Lemma calculm_v_at_source m v :
  let g := nlit gen_lits_GHASH in
  calculm_v m v =
    if (Nat.eqb m (g 0%nat) && negb (Nat.eqb v (g 1%nat)))%bool then (g 2%nat, v * g 3%nat)%nat
    else if (negb (Nat.eqb m (g 4%nat)) && Nat.eqb v (g 5%nat))%bool then (m, g 6%nat * g 7%nat)%nat
    else if (negb (Nat.eqb m (g 8%nat)) && negb (Nat.eqb v (g 9%nat)))%bool then (m + g 10%nat, v * g 11%nat)%nat
    else (g 12%nat, g 13%nat).
Proof. reflexivity. Qed.

Lemma last_block_at_source data m v :
  let g := nlit gen_lits_GHASH in
  last_block data m v =
    let tail := skipn ((m - 1) * GCMModel.BlockSize) data in
    firstn (v / g 39%nat) (tail ++ zeros (v / g 39%nat)) ++ zeros ((g 38%nat - v) / g 40%nat).
Proof. reflexivity. Qed.

(* if len(IV)*8 == 96 { Y0 = IV || 00 00 00 01 } *)
Lemma GetY0_at_source H IV :
  let g := gen_lits_GetY0 in
  GetY0 H IV = if Nat.eqb (List.length IV * nlit g 0) (nlit g 1) then IV ++ [lit g 2; lit g 3; lit g 4; lit g 5]
               else GHASH H [] IV.
Proof. reflexivity. Qed.

(* for i := Len - 1; i >= Len-4; i-- { yii[i] = yii[i] + 0x01; if yii[i] != 0x00 { break } } *)
Lemma addYone_at_source yi :
  let k := nlit gen_lits_incr 2 in
  addYone yi = firstn (List.length yi - k) yi ++ rev (carry_inc (rev (skipn (List.length yi - k) yi))).
Proof. reflexivity. Qed.

Lemma carry_inc_at_source b r :
  carry_inc (b :: r) = let b' := (b + lit gen_lits_incr 5) mod 256 in
                       if N.eqb b' (lit gen_lits_incr 4) then b' :: carry_inc r else b' :: r.
Proof. reflexivity. Qed.

(* MSB: S[:len/8] - semantic tie (SM4/GCMCodeTie.v, gen_MSB_is_model), no fingerprint; t := 128 *)
Lemma tag_length_at_source : nlit gen_lits_GCMEncrypt 42 = 128%nat /\ nlit gen_lits_GCMDecrypt 15 = 128%nat.
Proof. split; reflexivity. Qed.

Lemma pkg_vars_gcm_at_source : gen_pkg_vars_sm4_gcm = [].
Proof. reflexivity. Qed.

Lemma lits_gcm_frozen :
  gen_lits_GCMDecrypt =
  [0; 0; 1; 8; 0; 0; 16; 8; 0; 0; 1; 8; 1; 0; 16; 128; 16; 16; 16; 1; 1; 1; 1; 16; 16; 16; 1; 16; 1; 16; 16; 1; 16; 1; 16; 16; 16; 16; 16; 1; 16; 1; 16] /\
  gen_lits_GCMEncrypt =
  [0; 0; 1; 8; 0; 0; 16; 8; 0; 0; 1; 8; 1; 0; 16; 16; 16; 1; 1; 16; 1; 1; 16; 16; 16; 1; 16; 1; 16; 16; 1; 16; 1; 16; 16; 16; 16; 16; 1; 16; 1; 16; 128] /\
  gen_lits_GHASH =
  [0; 0; 1; 8; 0; 0; 16; 8; 0; 0; 1; 8; 1; 0; 16; 16; 16; 16; 16; 2; 0; 16; 0; 1; 1; 16; 16; 16; 1; 16; 1; 16; 16; 1; 16; 1; 16; 16; 128; 8; 8; 1; 16; 16; 16; 16; 1; 16; 1; 16; 16; 1; 1; 16; 16; 16; 1; 16; 1; 16; 16; 1; 16; 1; 16; 16; 128; 8; 8; 1; 16; 0; 16; 16; 16; 1; 16; 1; 16; 16; 16; 16; 16; 1; 16; 1; 16; 16; 8; 0; 56; 255; 1; 48; 255; 2; 40; 255; 3; 32; 255; 4; 24; 255; 5; 16; 255; 6; 8; 255; 7; 0; 255; 8; 8; 1; 16; 1; 16; 16; 16; 16; 16; 1; 16; 1; 16; 16] /\
  gen_lits_GetH =
  [16; 16] /\
  gen_lits_GetY0 =
  [8; 96; 0; 0; 0; 1; 0; 16] /\
  gen_lits_Sm4GCM =
  [16] /\
  gen_lits_incr =
  [16; 1; 4; 1; 0; 1; 1; 16; 1; 16; 16; 16; 16; 16].
Proof. repeat split; reflexivity. Qed.

(* ---------- the consumer: the GM TLS cipher-suite table (Gen/TLSSuites.v, translator target tlssuites) --------------- *)
(* every row of gmCipherSuites whose name says SM4_GCM names the constructor aeadSM4GCM, with a 16-byte key and a
   4-byte implicit nonce; and no other row carries an AEAD *)
From GmsmVerif Require Import Gen.TLSSuites.

Definition aeadSM4GCM_name : string := "aeadSM4GCM"%string.
Definition nil_name : string := "nil"%string.

Definition name_says_sm4_gcm (n : string) : bool :=
  match String.index 0 "SM4_GCM"%string n with Some _ => true | None => false end.

Definition gm_suite_rows : list (string * (string * list N)) :=
  combine gen_gmCipherSuites_names (combine gen_gmCipherSuites_aead gen_gmCipherSuites).

Definition gm_row_ok (r : string * (string * list N)) : bool :=
  let '(name, (aead, row)) := r in
  if name_says_sm4_gcm name
  then (String.eqb aead "aeadSM4GCM" && N.eqb (nth 1 row 0) 16 && N.eqb (nth 3 row 0) 4)%bool
  else String.eqb aead "nil".

Lemma gm_suite_table_sweep :
  forallb gm_row_ok gm_suite_rows = true /\
  List.length gm_suite_rows = List.length gen_gmCipherSuites /\
  List.length gen_gmCipherSuites_names = List.length gen_gmCipherSuites /\
  List.length gen_gmCipherSuites_aead = List.length gen_gmCipherSuites /\
  existsb (fun r => name_says_sm4_gcm (fst r)) gm_suite_rows = true.
Proof. vm_compute. repeat split; reflexivity. Qed.

Lemma gm_gcm_suites_use_sm4gcm name aead row : In (name, (aead, row)) gm_suite_rows ->
  (name_says_sm4_gcm name = true -> aead = aeadSM4GCM_name /\ nth 1 row 0 = 16 /\ nth 3 row 0 = 4) /\
  (name_says_sm4_gcm name = false -> aead = nil_name).
Proof.
  intros Hin. destruct gm_suite_table_sweep as [H _]. rewrite forallb_forall in H. specialize (H _ Hin).
  unfold gm_row_ok in H. destruct (name_says_sm4_gcm name); split; intros E; try discriminate E.
  - apply andb_prop in H as [H H3]. apply andb_prop in H as [H1 H2].
    apply String.eqb_eq in H1. apply N.eqb_eq in H2. apply N.eqb_eq in H3. repeat split; assumption.
  - apply String.eqb_eq in H. exact H.
Qed.
