(* GM/T 0002-2012 "SM4 block cipher algorithm", transcribed from the standard.
   Never looks at the Go code.  Bytes are N (< 256), words are N (< 2^32, big-endian byte order:
   a word (a0,a1,a2,a3) of the standard is a0*2^24 + a1*2^16 + a2*2^8 + a3).

   Stable interface (other families import / extract these; do not change):
     sm4_encrypt_block : list N (16-byte key) -> list N (16-byte block) -> list N
     sm4_decrypt_block : list N (16-byte key) -> list N (16-byte block) -> list N
     sm4_round_keys    : list N (16-byte key) -> list N (32 round keys)
     sm4_encrypt_rk / sm4_decrypt_rk : round keys -> block -> block   (key schedule done once)
   All functions are total: missing input bytes read as 0.

   The standard's example (Annex A.1, and the 1 000 000-fold iteration A.2 in the extracted
   runner of C05) validates the transcription: see the Examples at the end (tests of the spec). *)
From Coq Require Import List NArith.
Import ListNotations.
Open Scope N_scope.

Notation byte := N (only parsing).
Notation word := N (only parsing).

Definition mask32 : N := 0xffffffff.

(* ---------- 6.2 (2) the S-box: Sbox(0xEF) is row E, column F of the table ------------------- *)
Definition Sbox : list N :=
  [0xd6; 0x90; 0xe9; 0xfe; 0xcc; 0xe1; 0x3d; 0xb7; 0x16; 0xb6; 0x14; 0xc2; 0x28; 0xfb; 0x2c; 0x05;
   0x2b; 0x67; 0x9a; 0x76; 0x2a; 0xbe; 0x04; 0xc3; 0xaa; 0x44; 0x13; 0x26; 0x49; 0x86; 0x06; 0x99;
   0x9c; 0x42; 0x50; 0xf4; 0x91; 0xef; 0x98; 0x7a; 0x33; 0x54; 0x0b; 0x43; 0xed; 0xcf; 0xac; 0x62;
   0xe4; 0xb3; 0x1c; 0xa9; 0xc9; 0x08; 0xe8; 0x95; 0x80; 0xdf; 0x94; 0xfa; 0x75; 0x8f; 0x3f; 0xa6;
   0x47; 0x07; 0xa7; 0xfc; 0xf3; 0x73; 0x17; 0xba; 0x83; 0x59; 0x3c; 0x19; 0xe6; 0x85; 0x4f; 0xa8;
   0x68; 0x6b; 0x81; 0xb2; 0x71; 0x64; 0xda; 0x8b; 0xf8; 0xeb; 0x0f; 0x4b; 0x70; 0x56; 0x9d; 0x35;
   0x1e; 0x24; 0x0e; 0x5e; 0x63; 0x58; 0xd1; 0xa2; 0x25; 0x22; 0x7c; 0x3b; 0x01; 0x21; 0x78; 0x87;
   0xd4; 0x00; 0x46; 0x57; 0x9f; 0xd3; 0x27; 0x52; 0x4c; 0x36; 0x02; 0xe7; 0xa0; 0xc4; 0xc8; 0x9e;
   0xea; 0xbf; 0x8a; 0xd2; 0x40; 0xc7; 0x38; 0xb5; 0xa3; 0xf7; 0xf2; 0xce; 0xf9; 0x61; 0x15; 0xa1;
   0xe0; 0xae; 0x5d; 0xa4; 0x9b; 0x34; 0x1a; 0x55; 0xad; 0x93; 0x32; 0x30; 0xf5; 0x8c; 0xb1; 0xe3;
   0x1d; 0xf6; 0xe2; 0x2e; 0x82; 0x66; 0xca; 0x60; 0xc0; 0x29; 0x23; 0xab; 0x0d; 0x53; 0x4e; 0x6f;
   0xd5; 0xdb; 0x37; 0x45; 0xde; 0xfd; 0x8e; 0x2f; 0x03; 0xff; 0x6a; 0x72; 0x6d; 0x6c; 0x5b; 0x51;
   0x8d; 0x1b; 0xaf; 0x92; 0xbb; 0xdd; 0xbc; 0x7f; 0x11; 0xd9; 0x5c; 0x41; 0x1f; 0x10; 0x5a; 0xd8;
   0x0a; 0xc1; 0x31; 0x88; 0xa5; 0xcd; 0x7b; 0xbd; 0x2d; 0x74; 0xd0; 0x12; 0xb8; 0xe5; 0xb4; 0xb0;
   0x89; 0x69; 0x97; 0x4a; 0x0c; 0x96; 0x77; 0x7e; 0x65; 0xb9; 0xf1; 0x09; 0xc5; 0x6e; 0xc6; 0x84;
   0x18; 0xf0; 0x7d; 0xec; 0x3a; 0xdc; 0x4d; 0x20; 0x79; 0xee; 0x5f; 0x3e; 0xd7; 0xcb; 0x39; 0x48].

Definition sbox (b : byte) : byte := nth (N.to_nat b) Sbox 0.

(* ---------- words and bytes ----------------------------------------------------------------- *)
Definition word_of_bytes (a0 a1 a2 a3 : byte) : word :=
  N.lor (N.shiftl a0 24) (N.lor (N.shiftl a1 16) (N.lor (N.shiftl a2 8) a3)).

Definition byte0 (w : word) : byte := N.land (N.shiftr w 24) 255.
Definition byte1 (w : word) : byte := N.land (N.shiftr w 16) 255.
Definition byte2 (w : word) : byte := N.land (N.shiftr w 8) 255.
Definition byte3 (w : word) : byte := N.land w 255.

(* x <<< k on 32 bits, 0 < k < 32 *)
Definition rotl32 (x : word) (k : N) : word :=
  N.lor (N.land (N.shiftl x k) mask32) (N.shiftr x (32 - k)).

(* ---------- 6.2 the round function F and the composite transform T = L . tau ------------------ *)
(* (2) tau: four S-boxes in parallel *)
Definition tau (a : word) : word :=
  word_of_bytes (sbox (byte0 a)) (sbox (byte1 a)) (sbox (byte2 a)) (sbox (byte3 a)).

(* (3) L(B) = B xor (B<<<2) xor (B<<<10) xor (B<<<18) xor (B<<<24) *)
Definition L (b : word) : word :=
  N.lxor b (N.lxor (rotl32 b 2) (N.lxor (rotl32 b 10) (N.lxor (rotl32 b 18) (rotl32 b 24)))).

(* 7.3 L'(B) = B xor (B<<<13) xor (B<<<23) *)
Definition L' (b : word) : word :=
  N.lxor b (N.lxor (rotl32 b 13) (rotl32 b 23)).

Definition T (x : word) : word := L (tau x).
Definition T' (x : word) : word := L' (tau x).

Definition state := (word * word * word * word)%type.

(* 6.1 F(X0,X1,X2,X3,rk) = X0 xor T(X1 xor X2 xor X3 xor rk); one round maps
   (X_i, X_i+1, X_i+2, X_i+3) to (X_i+1, X_i+2, X_i+3, X_i+4).  The transform is a parameter so
   that the key schedule (T') and the Feistel argument (any function) share the definition. *)
Definition round (f : word -> word) (s : state) (rk : word) : state :=
  let '(x0, x1, x2, x3) := s in
  (x1, x2, x3, N.lxor x0 (f (N.lxor x1 (N.lxor x2 (N.lxor x3 rk))))).

(* 7.1 the reverse transform R(A0,A1,A2,A3) = (A3,A2,A1,A0) *)
Definition R (s : state) : state := let '(a0, a1, a2, a3) := s in (a3, a2, a1, a0).

(* ---------- 7.3 key expansion -------------------------------------------------------------------- *)
Definition FK : list word := [0xa3b1bac6; 0x56aa3350; 0x677d9197; 0xb27022dc].

(* ck_{i,j} = (4i + j) * 7 (mod 256), CK_i = (ck_{i,0}, ck_{i,1}, ck_{i,2}, ck_{i,3}) *)
Definition ck_byte (i j : N) : byte := ((4 * i + j) * 7) mod 256.
Definition CK (i : N) : word := word_of_bytes (ck_byte i 0) (ck_byte i 1) (ck_byte i 2) (ck_byte i 3).
Definition CKs : list word := map (fun i => CK (N.of_nat i)) (seq 0 32).

(* rk_i = K_i+4 = K_i xor T'(K_i+1 xor K_i+2 xor K_i+3 xor CK_i) *)
Fixpoint key_rounds (cks : list word) (k : state) : list word :=
  match cks with
  | [] => []
  | ck :: rest =>
    let k' := round T' k ck in
    let '(_, _, _, rk) := k' in rk :: key_rounds rest k'
  end.

Definition expand_key (mk : state) : list word :=
  let '(mk0, mk1, mk2, mk3) := mk in
  key_rounds CKs (N.lxor mk0 (nth 0 FK 0), N.lxor mk1 (nth 1 FK 0),
                  N.lxor mk2 (nth 2 FK 0), N.lxor mk3 (nth 3 FK 0)).

(* ---------- 7.1 encryption, 7.2 decryption ------------------------------------------------------- *)
Definition crypt_words (rks : list word) (x : state) : state :=
  R (fold_left (round T) rks x).

Definition encrypt_words (rks : list word) (x : state) : state := crypt_words rks x.
(* decryption is the same transform with the round keys in reverse order *)
Definition decrypt_words (rks : list word) (x : state) : state := crypt_words (rev rks) x.

(* ---------- byte strings ------------------------------------------------------------------------- *)
Definition word_at (l : list byte) (i : nat) : word :=
  word_of_bytes (nth (4 * i) l 0) (nth (4 * i + 1) l 0) (nth (4 * i + 2) l 0) (nth (4 * i + 3) l 0).

Definition state_of_bytes (l : list byte) : state :=
  (word_at l 0, word_at l 1, word_at l 2, word_at l 3).

Definition bytes_of_word (w : word) : list byte := [byte0 w; byte1 w; byte2 w; byte3 w].

Definition bytes_of_state (s : state) : list byte :=
  let '(a, b, c, d) := s in bytes_of_word a ++ bytes_of_word b ++ bytes_of_word c ++ bytes_of_word d.

Definition sm4_round_keys (key : list byte) : list word := expand_key (state_of_bytes key).

Definition sm4_encrypt_rk (rks : list word) (blk : list byte) : list byte :=
  bytes_of_state (encrypt_words rks (state_of_bytes blk)).
Definition sm4_decrypt_rk (rks : list word) (blk : list byte) : list byte :=
  bytes_of_state (decrypt_words rks (state_of_bytes blk)).

Definition sm4_encrypt_block (key blk : list byte) : list byte := sm4_encrypt_rk (sm4_round_keys key) blk.
Definition sm4_decrypt_block (key blk : list byte) : list byte := sm4_decrypt_rk (sm4_round_keys key) blk.

(* well-formedness shared by theorems and generators *)
Definition bytes_ok (l : list byte) : bool := forallb (fun b => b <? 256) l.

(* n-fold iteration (Annex A.2 encrypts the same block 1 000 000 times under one key) *)
Fixpoint iter_rk (f : list word -> list byte -> list byte) (n : nat) (rks : list word) (b : list byte) : list byte :=
  match n with O => b | S n' => iter_rk f n' rks (f rks b) end.

(* ---------- the standard's examples (tests of the transcription) ------------------------------- *)
Definition A1_key : list byte :=
  [0x01; 0x23; 0x45; 0x67; 0x89; 0xab; 0xcd; 0xef; 0xfe; 0xdc; 0xba; 0x98; 0x76; 0x54; 0x32; 0x10].
Definition A1_cipher : list byte :=
  [0x68; 0x1e; 0xdf; 0x34; 0xd2; 0x06; 0x96; 0x5e; 0x86; 0xb3; 0xe9; 0x4f; 0x53; 0x6e; 0x42; 0x46].

(* Annex A.1: rk_0 = f12186f9, rk_31 = 9124a012 *)
Example sm4_A1_round_keys :
  nth 0 (sm4_round_keys A1_key) 0 = 0xf12186f9 /\ nth 31 (sm4_round_keys A1_key) 0 = 0x9124a012 /\
  length (sm4_round_keys A1_key) = 32%nat.
Proof. vm_compute. repeat split; reflexivity. Qed.

Example sm4_A1_encrypt : sm4_encrypt_block A1_key A1_key = A1_cipher.
Proof. vm_compute. reflexivity. Qed.

Example sm4_A1_decrypt : sm4_decrypt_block A1_key A1_cipher = A1_key.
Proof. vm_compute. reflexivity. Qed.

(* the first 1000 steps of Annex A.2 and back again *)
Example sm4_iter_1000_roundtrip :
  iter_rk sm4_decrypt_rk 1000 (sm4_round_keys A1_key)
    (iter_rk sm4_encrypt_rk 1000 (sm4_round_keys A1_key) A1_key) = A1_key.
Proof. vm_compute. reflexivity. Qed.
