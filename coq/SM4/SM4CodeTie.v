(* The code of cryptBlock and generateSubKeys as the translator regenerates it from /repo/sm4/sm4.go
   (Gen/SM4Code.v: straight-line Gallina over N, loops unrolled, uint32 wrap explicit as "mod 2^32",
   shifts as "* 2^k" and "/ 2^k", masks as "mod 256", helper functions inlined) equals the hand-written model of
   SM4/SM4Model.v for every input.  With this file the model is tied to the source text by a theorem and not only
   by the differential run: an edit of sm4.go that changes what cryptBlock or generateSubKeys compute changes
   Gen/SM4Code.v and the proofs below stop compiling (or the translator refuses the new shape).

   Method: symbolic execution of the generated chain of statements (one fresh variable and one equation per statement, so
   terms stay small), every equation brought into the vocabulary of the model (land / shiftr / shiftl, "tt",
   "feistel0") modulo associativity of xor, then the loops of the model are unfolded one iteration at a time and
   each iteration is closed by the equations found in the context by their meaning (not by their position).
   A refactoring that only regroups the xors of a round or moves them into a helper (the translator inlines pure
   helpers) leaves these proofs intact. *)
From Coq Require Import List NArith Arith Bool Lia.
From GmsmVerif Require Import Lib.Outcome Gen.SM4Tables Gen.SM4Code SM4.SM4Spec SM4.SM4Model.
Import ListNotations.
Open Scope N_scope.

(* ---------- arithmetic forms of the generated code = bitwise forms of the model --------------------------- *)
Lemma mod_256 : forall x, x mod 256 = N.land x 255.
Proof. intro x. change 256 with (2 ^ 8). rewrite <- N.land_ones. reflexivity. Qed.

Lemma div_s8 : forall x, x / 256 = N.shiftr x 8.
Proof. intro x. rewrite N.shiftr_div_pow2. reflexivity. Qed.
Lemma div_s9 : forall x, x / 512 = N.shiftr x 9.
Proof. intro x. rewrite N.shiftr_div_pow2. reflexivity. Qed.
Lemma div_s16 : forall x, x / 65536 = N.shiftr x 16.
Proof. intro x. rewrite N.shiftr_div_pow2. reflexivity. Qed.
Lemma div_s19 : forall x, x / 524288 = N.shiftr x 19.
Proof. intro x. rewrite N.shiftr_div_pow2. reflexivity. Qed.
Lemma div_s24 : forall x, x / 16777216 = N.shiftr x 24.
Proof. intro x. rewrite N.shiftr_div_pow2. reflexivity. Qed.

Lemma shl_gen : forall x k, (x * 2 ^ k) mod 4294967296 = u32 (N.shiftl x k).
Proof.
  intros x k. unfold u32. rewrite N.shiftl_mul_pow2.
  change 4294967296 with (2 ^ 32). change mask32 with (N.ones 32). rewrite N.land_ones. reflexivity.
Qed.
Lemma shl_8 : forall x, (x * 256) mod 4294967296 = u32 (N.shiftl x 8).
Proof. intro x. exact (shl_gen x 8). Qed.
Lemma shl_13 : forall x, (x * 8192) mod 4294967296 = u32 (N.shiftl x 13).
Proof. intro x. exact (shl_gen x 13). Qed.
Lemma shl_16 : forall x, (x * 65536) mod 4294967296 = u32 (N.shiftl x 16).
Proof. intro x. exact (shl_gen x 16). Qed.
Lemma shl_23 : forall x, (x * 8388608) mod 4294967296 = u32 (N.shiftl x 23).
Proof. intro x. exact (shl_gen x 23). Qed.
Lemma shl_24 : forall x, (x * 16777216) mod 4294967296 = u32 (N.shiftl x 24).
Proof. intro x. exact (shl_gen x 24). Qed.

Lemma rl_13 : forall x, rl x 13 = N.lor (u32 (N.shiftl x 13)) (N.shiftr x 19).
Proof. reflexivity. Qed.
Lemma rl_23 : forall x, rl x 23 = N.lor (u32 (N.shiftl x 23)) (N.shiftr x 9).
Proof. reflexivity. Qed.

(* the vocabulary change, in a hypothesis or in the goal *)
Ltac unfold_c4 :=
  unfold c4_100, c4_200, c4_2000, c4_10000, c4_80000, c4_800000, c4_1000000, c4_100000000.
Ltac unfold_c4_in E :=
  unfold c4_100, c4_200, c4_2000, c4_10000, c4_80000, c4_800000, c4_1000000, c4_100000000 in E.
Ltac bridge :=
  unfold_c4;
  rewrite ?shl_8, ?shl_13, ?shl_16, ?shl_23, ?shl_24, ?mod_256, ?div_s8, ?div_s9, ?div_s16, ?div_s19, ?div_s24.
Ltac bridge_in E :=
  unfold_c4_in E;
  rewrite ?shl_8, ?shl_13, ?shl_16, ?shl_23, ?shl_24, ?mod_256, ?div_s8, ?div_s9, ?div_s16, ?div_s19, ?div_s24 in E.

(* ---------- symbolic execution of the generated let-chain ---------------------------------------------------- *)
(* the generated code is a chain  gen_let v (fun x => rest)  (gen_let v k = k v).  One statement is executed by one
   application of sx_step: the checker sees the goal and the conclusion of the lemma as the same text, so that it
   never expands the chain (expanded, the term is exponentially large: every round reads the previous ones several
   times).  A copy "x := y" is substituted, anything else becomes a fresh variable with its defining equation. *)
Lemma sx_step : forall (A B : Type) (Q : B -> Prop) (v : A) (k : A -> B),
  (forall x, x = v -> Q (k x)) -> Q (gen_let v k).
Proof. intros A B Q v k H. exact (H v eq_refl). Qed.
Lemma sx_copy : forall (A B : Type) (Q : B -> Prop) (v : A) (k : A -> B), Q (k v) -> Q (gen_let v k).
Proof. intros A B Q v k H. exact H. Qed.

Ltac sx_let :=
  lazymatch goal with
  | |- ?Q (gen_let ?v (fun x => @?b x)) =>
    tryif is_var v then (refine (sx_copy _ _ Q v b _); cbv beta)
    else (let x' := fresh x in let E := fresh "E" x in
          refine (sx_step _ _ Q v b _); intros x' E; cbv beta)
  end.

(* ---------- one round --------------------------------------------------------------------------------------- *)
(* the four table lookups of a round, whatever their grouping, are  b ^ tt x *)
Ltac canon_round E :=
  lazymatch type of E with
  | ?c = ?rhs =>
    lazymatch rhs with
    | context [nth (N.to_nat (N.land ?x 255)) gen_sbox0 0] =>
      rewrite ?N.lxor_assoc in E;
      lazymatch type of E with
      | c = N.lxor ?b ?rest =>
        let E' := fresh "C" in
        assert (E' : c = N.lxor b (tt x)) by (rewrite E; unfold tt; rewrite ?N.lxor_assoc; reflexivity);
        clear E
      end
    end
  end.

Ltac canon_all :=
  repeat match goal with
  | E : ?c = ?rhs |- _ =>
    is_var c;
    lazymatch rhs with context [c4_100] => idtac | context [c4_1000000] => idtac | context [c4_2000] => idtac end;
    bridge_in E
  end;
  repeat match goal with
  | E : ?c = ?rhs |- _ =>
    is_var c;
    lazymatch rhs with context [gen_sbox0] => idtac end;
    canon_round E
  end;
  repeat match goal with
  | E : ?c = N.lxor (N.lxor _ _) _ |- _ => is_var c; rewrite !N.lxor_assoc in E
  end.

Lemma enc_iter_eq : forall k0 k1 k2 k3 b0 b1 b2 b3 x1 c0 x2 c1 x3 c2 x4 c3,
  x1 = N.lxor b1 (N.lxor b2 (N.lxor b3 k0)) -> c0 = N.lxor b0 (tt x1) ->
  x2 = N.lxor c0 (N.lxor b2 (N.lxor b3 k1)) -> c1 = N.lxor b1 (tt x2) ->
  x3 = N.lxor c0 (N.lxor c1 (N.lxor b3 k2)) -> c2 = N.lxor b2 (tt x3) ->
  x4 = N.lxor c1 (N.lxor c2 (N.lxor c0 k3)) -> c3 = N.lxor b3 (tt x4) ->
  enc_iter [k0; k1; k2; k3] (b0, b1, b2, b3) = (c0, c1, c2, c3).
Proof.
  intros. subst. unfold enc_iter. cbn [nth]. rewrite !N.lxor_assoc. reflexivity.
Qed.

Lemma dec_iter_eq : forall k0 k1 k2 k3 b0 b1 b2 b3 x1 c0 x2 c1 x3 c2 x4 c3,
  x1 = N.lxor b1 (N.lxor b2 (N.lxor b3 k3)) -> c0 = N.lxor b0 (tt x1) ->
  x2 = N.lxor c0 (N.lxor b2 (N.lxor b3 k2)) -> c1 = N.lxor b1 (tt x2) ->
  x3 = N.lxor c0 (N.lxor c1 (N.lxor b3 k1)) -> c2 = N.lxor b2 (tt x3) ->
  x4 = N.lxor c1 (N.lxor c2 (N.lxor c0 k0)) -> c3 = N.lxor b3 (tt x4) ->
  dec_iter [k0; k1; k2; k3] (b0, b1, b2, b3) = (c0, c1, c2, c3).
Proof.
  intros. subst. unfold dec_iter. cbn [nth]. rewrite !N.lxor_assoc. reflexivity.
Qed.

Lemma enc_loop_S : forall n i sk b,
  enc_loop (S n) i sk b = (do s <- slice sk (4 * i) (4 * i + 4); enc_loop n (S i) sk (enc_iter s b)).
Proof. reflexivity. Qed.
Lemma dec_loop_S : forall n i sk b,
  dec_loop (S n) i sk b = (do s <- slice sk (31 - 4 * i - 3) (31 - 4 * i - 3 + 4); dec_loop n (S i) sk (dec_iter s b)).
Proof. reflexivity. Qed.
Lemma obind_Ok : forall A B (a : A) (f : A -> outcome B), obind (Ok a) f = f a.
Proof. reflexivity. Qed.

Ltac slice_step :=
  match goal with
  | |- context [slice ?l ?a ?b] =>
    let r := eval cbv in (slice l a b) in change (slice l a b) with r; rewrite obind_Ok
  end.

Ltac enc_round :=
  rewrite enc_loop_S; slice_step;
  lazymatch goal with
  | |- context [enc_iter [?k0; ?k1; ?k2; ?k3] (?b0, ?b1, ?b2, ?b3)] =>
    match goal with
    | E1 : ?x1 = N.lxor b1 (N.lxor b2 (N.lxor b3 k0)), C0 : ?c0 = N.lxor b0 (tt ?x1),
      E2 : ?x2 = N.lxor ?c0 (N.lxor b2 (N.lxor b3 k1)), C1 : ?c1 = N.lxor b1 (tt ?x2),
      E3 : ?x3 = N.lxor ?c0 (N.lxor ?c1 (N.lxor b3 k2)), C2 : ?c2 = N.lxor b2 (tt ?x3),
      E4 : ?x4 = N.lxor ?c1 (N.lxor ?c2 (N.lxor ?c0 k3)), C3 : ?c3 = N.lxor b3 (tt ?x4) |- _ =>
      rewrite (enc_iter_eq _ _ _ _ _ _ _ _ _ _ _ _ _ _ _ _ E1 C0 E2 C1 E3 C2 E4 C3)
    end
  end.

Ltac dec_round :=
  rewrite dec_loop_S; slice_step;
  lazymatch goal with
  | |- context [dec_iter [?k0; ?k1; ?k2; ?k3] (?b0, ?b1, ?b2, ?b3)] =>
    match goal with
    | E1 : ?x1 = N.lxor b1 (N.lxor b2 (N.lxor b3 k3)), C0 : ?c0 = N.lxor b0 (tt ?x1),
      E2 : ?x2 = N.lxor ?c0 (N.lxor b2 (N.lxor b3 k2)), C1 : ?c1 = N.lxor b1 (tt ?x2),
      E3 : ?x3 = N.lxor ?c0 (N.lxor ?c1 (N.lxor b3 k1)), C2 : ?c2 = N.lxor b2 (tt ?x3),
      E4 : ?x4 = N.lxor ?c1 (N.lxor ?c2 (N.lxor ?c0 k0)), C3 : ?c3 = N.lxor b3 (tt ?x4) |- _ =>
      rewrite (dec_iter_eq _ _ _ _ _ _ _ _ _ _ _ _ _ _ _ _ E1 C0 E2 C1 E3 C2 E4 C3)
    end
  end.

(* ---------- the result tuple of the generated cryptBlock as the triple of the model ------------------------- *)
Definition pack36 (o : N * N * N * N * N * N * N * N * N * N * N * N * N * N * N * N * N * N * N * N
                       * N * N * N * N * N * N * N * N * N * N * N * N * N * N * N * N)
  : N * N * N * N * list N * list N :=
  let '(b0, b1, b2, b3, r0, r1, r2, r3, r4, r5, r6, r7, r8, r9, r10, r11, r12, r13, r14, r15,
        d0, d1, d2, d3, d4, d5, d6, d7, d8, d9, d10, d11, d12, d13, d14, d15) := o in
  ((b0, b1, b2, b3),
   [r0; r1; r2; r3; r4; r5; r6; r7; r8; r9; r10; r11; r12; r13; r14; r15],
   [d0; d1; d2; d3; d4; d5; d6; d7; d8; d9; d10; d11; d12; d13; d14; d15]).

Definition tie_post (L : outcome (N * N * N * N * list N * list N))
                    (o : N * N * N * N * N * N * N * N * N * N * N * N * N * N * N * N * N * N * N * N
                         * N * N * N * N * N * N * N * N * N * N * N * N * N * N * N * N) : Prop :=
  L = Ok (pack36 o).

Lemma copy_16 : forall (d : list N) a0 a1 a2 a3 a4 a5 a6 a7 a8 a9 a10 a11 a12 a13 a14 a15,
  length d = 16%nat ->
  copy d [a0; a1; a2; a3; a4; a5; a6; a7; a8; a9; a10; a11; a12; a13; a14; a15]
  = [a0; a1; a2; a3; a4; a5; a6; a7; a8; a9; a10; a11; a12; a13; a14; a15].
Proof.
  intros d a0 a1 a2 a3 a4 a5 a6 a7 a8 a9 a10 a11 a12 a13 a14 a15 H. unfold copy. rewrite H.
  change (length [a0; a1; a2; a3; a4; a5; a6; a7; a8; a9; a10; a11; a12; a13; a14; a15]) with 16%nat.
  change (Nat.min 16 16) with 16%nat.
  rewrite (skipn_all2 d) by (rewrite H; apply Nat.le_refl).
  reflexivity.
Qed.

Ltac final_bytes :=
  repeat match goal with
  | E : ?r = N.land _ 255 |- _ => is_var r; rewrite E; clear E
  end.

Theorem gen_cryptBlock_enc_is_model :
  forall k0 k1 k2 k3 k4 k5 k6 k7 k8 k9 k10 k11 k12 k13 k14 k15 k16 k17 k18 k19 k20 k21 k22 k23 k24 k25 k26 k27
         k28 k29 k30 k31 s0 s1 s2 s3 s4 s5 s6 s7 s8 s9 s10 s11 s12 s13 s14 s15 b_in r_in dst,
  length r_in = 16%nat -> length dst = 16%nat ->
  cryptBlock [k0; k1; k2; k3; k4; k5; k6; k7; k8; k9; k10; k11; k12; k13; k14; k15; k16; k17; k18; k19; k20; k21;
              k22; k23; k24; k25; k26; k27; k28; k29; k30; k31] b_in r_in dst
             [s0; s1; s2; s3; s4; s5; s6; s7; s8; s9; s10; s11; s12; s13; s14; s15] false
  = Ok (pack36 (gen_cryptBlock_enc k0 k1 k2 k3 k4 k5 k6 k7 k8 k9 k10 k11 k12 k13 k14 k15 k16 k17 k18 k19 k20 k21
                  k22 k23 k24 k25 k26 k27 k28 k29 k30 k31 s0 s1 s2 s3 s4 s5 s6 s7 s8 s9 s10 s11 s12 s13 s14 s15)).
Proof.
  intros k0 k1 k2 k3 k4 k5 k6 k7 k8 k9 k10 k11 k12 k13 k14 k15 k16 k17 k18 k19 k20 k21 k22 k23 k24 k25 k26 k27
         k28 k29 k30 k31 s0 s1 s2 s3 s4 s5 s6 s7 s8 s9 s10 s11 s12 s13 s14 s15 b_in r_in dst Hr Hd.
  lazymatch goal with |- ?L = Ok (pack36 ?g) => change (tie_post L g) end.
  cbv beta delta [gen_cryptBlock_enc].
  repeat sx_let. unfold tie_post.
  canon_all.
  unfold cryptBlock, permuteInitialBlock. rewrite obind_Ok.
  unfold be32.
  repeat match goal with E : ?b = N.lor (N.lor (N.lor _ _) _) _ |- _ => is_var b; rewrite <- E; clear E end.
  do 8 enc_round.
  change (enc_loop 0 8) with (fun (sk : list N) (b : N * N * N * N) => Ok b). cbv beta. rewrite obind_Ok.
  cbv beta iota. unfold permuteFinalBlock, u8.
  rewrite (copy_16 r_in) by exact Hr. rewrite (copy_16 dst) by exact Hd.
  unfold pack36. final_bytes. reflexivity.
Qed.

Theorem gen_cryptBlock_dec_is_model :
  forall k0 k1 k2 k3 k4 k5 k6 k7 k8 k9 k10 k11 k12 k13 k14 k15 k16 k17 k18 k19 k20 k21 k22 k23 k24 k25 k26 k27
         k28 k29 k30 k31 s0 s1 s2 s3 s4 s5 s6 s7 s8 s9 s10 s11 s12 s13 s14 s15 b_in r_in dst,
  length r_in = 16%nat -> length dst = 16%nat ->
  cryptBlock [k0; k1; k2; k3; k4; k5; k6; k7; k8; k9; k10; k11; k12; k13; k14; k15; k16; k17; k18; k19; k20; k21;
              k22; k23; k24; k25; k26; k27; k28; k29; k30; k31] b_in r_in dst
             [s0; s1; s2; s3; s4; s5; s6; s7; s8; s9; s10; s11; s12; s13; s14; s15] true
  = Ok (pack36 (gen_cryptBlock_dec k0 k1 k2 k3 k4 k5 k6 k7 k8 k9 k10 k11 k12 k13 k14 k15 k16 k17 k18 k19 k20 k21
                  k22 k23 k24 k25 k26 k27 k28 k29 k30 k31 s0 s1 s2 s3 s4 s5 s6 s7 s8 s9 s10 s11 s12 s13 s14 s15)).
Proof.
  intros k0 k1 k2 k3 k4 k5 k6 k7 k8 k9 k10 k11 k12 k13 k14 k15 k16 k17 k18 k19 k20 k21 k22 k23 k24 k25 k26 k27
         k28 k29 k30 k31 s0 s1 s2 s3 s4 s5 s6 s7 s8 s9 s10 s11 s12 s13 s14 s15 b_in r_in dst Hr Hd.
  lazymatch goal with |- ?L = Ok (pack36 ?g) => change (tie_post L g) end.
  cbv beta delta [gen_cryptBlock_dec].
  repeat sx_let. unfold tie_post.
  canon_all.
  unfold cryptBlock, permuteInitialBlock. rewrite obind_Ok.
  unfold be32.
  repeat match goal with E : ?b = N.lor (N.lor (N.lor _ _) _) _ |- _ => is_var b; rewrite <- E; clear E end.
  do 8 dec_round.
  change (dec_loop 0 8) with (fun (sk : list N) (b : N * N * N * N) => Ok b). cbv beta. rewrite obind_Ok.
  cbv beta iota. unfold permuteFinalBlock, u8.
  rewrite (copy_16 r_in) by exact Hr. rewrite (copy_16 dst) by exact Hd.
  unfold pack36. final_bytes. reflexivity.
Qed.

(* ---------- the key schedule --------------------------------------------------------------------------------- *)
Definition pack32 (o : N * N * N * N * N * N * N * N * N * N * N * N * N * N * N * N
                       * N * N * N * N * N * N * N * N * N * N * N * N * N * N * N * N) : list N :=
  let '(a0, a1, a2, a3, a4, a5, a6, a7, a8, a9, a10, a11, a12, a13, a14, a15,
        a16, a17, a18, a19, a20, a21, a22, a23, a24, a25, a26, a27, a28, a29, a30, a31) := o in
  [a0; a1; a2; a3; a4; a5; a6; a7; a8; a9; a10; a11; a12; a13; a14; a15;
   a16; a17; a18; a19; a20; a21; a22; a23; a24; a25; a26; a27; a28; a29; a30; a31].

Definition ks_post (L : outcome (list N))
                   (o : N * N * N * N * N * N * N * N * N * N * N * N * N * N * N * N
                        * N * N * N * N * N * N * N * N * N * N * N * N * N * N * N * N) : Prop :=
  L = Ok (pack32 o).

Lemma subkey_loop_cons : forall ck rest b0 b1 b2 b3 sk,
  sk = feistel0 b0 b1 b2 b3 ck ->
  subkey_loop (ck :: rest) (b0, b1, b2, b3) = sk :: subkey_loop rest (b1, b2, b3, sk).
Proof. intros ck rest b0 b1 b2 b3 sk E. subst sk. reflexivity. Qed.

(* a statement  subkeys[i] = b0 ^ l0(p(b1 ^ b2 ^ b3 ^ ck_i))  with every helper inlined, as one feistel0 of the model;
   the round constant (a named numeral of the generated file) is read off the statement *)
Ltac canon_feistel E :=
  bridge_in E;
  rewrite ?N.lxor_assoc in E;
  lazymatch type of E with
  | ?sk = N.lxor ?b0 ?rest =>
    lazymatch rest with
    | context [nth (N.to_nat (N.shiftr (N.lxor ?b1 (N.lxor ?b2 (N.lxor ?b3 ?ck))) 24)) gen_sbox 0] =>
      let ckv := eval cbv in ck in
      let E' := fresh "F" in
      assert (E' : sk = feistel0 b0 b1 b2 b3 ckv)
        by (rewrite E; unfold feistel0, l0, p, sbox_at; rewrite rl_13, rl_23; change ck with ckv;
            rewrite ?N.lxor_assoc; reflexivity);
      clear E
    end
  end.

Ltac ks_round :=
  lazymatch goal with
  | |- context [subkey_loop (?ck :: ?rest) (?b0, ?b1, ?b2, ?b3)] =>
    match goal with
    | F : ?sk = feistel0 b0 b1 b2 b3 ck |- _ => rewrite (subkey_loop_cons ck rest b0 b1 b2 b3 sk F)
    end
  end.

Theorem gen_generateSubKeys_is_model :
  forall k0 k1 k2 k3 k4 k5 k6 k7 k8 k9 k10 k11 k12 k13 k14 k15,
  generateSubKeys [k0; k1; k2; k3; k4; k5; k6; k7; k8; k9; k10; k11; k12; k13; k14; k15]
  = Ok (pack32 (gen_generateSubKeys k0 k1 k2 k3 k4 k5 k6 k7 k8 k9 k10 k11 k12 k13 k14 k15)).
Proof.
  intros k0 k1 k2 k3 k4 k5 k6 k7 k8 k9 k10 k11 k12 k13 k14 k15.
  lazymatch goal with |- ?L = Ok (pack32 ?g) => change (ks_post L g) end.
  cbv beta delta [gen_generateSubKeys].
  repeat sx_let. unfold ks_post.
  repeat match goal with E : ?c = ?rhs |- _ =>
    is_var c; lazymatch rhs with context [gen_sbox] => idtac end; canon_feistel E end.
  repeat match goal with E : ?c = N.lor (N.lor (N.lor _ _) _) _ |- _ => is_var c; progress bridge_in E end.
  unfold generateSubKeys, permuteInitialBlock. rewrite obind_Ok. cbv beta iota.
  unfold be32.
  repeat match goal with E : ?b = N.lor (N.lor (N.lor _ _) _) _ |- _ => is_var b; rewrite <- E; clear E end.
  repeat match goal with |- context [nth ?i gen_fk 0] =>
    let r := eval vm_compute in (nth i gen_fk 0) in change (nth i gen_fk 0) with r end.
  repeat match goal with E : ?b = N.lxor ?b' ?c |- _ =>
    is_var b; is_var b'; let cv := eval cbv in c in change c with cv in E; rewrite <- E; clear E end.
  unfold gen_ck.
  do 32 ks_round.
  unfold pack32. reflexivity.
Qed.

(* ---------- the same on lists: what a caller of the functions sees ------------------------------------------- *)
(* the generated functions take one argument per slice element; on lists of the right lengths: *)
Definition gen_cryptBlock_list (decrypt : bool) (sk src : list N) : option (N * N * N * N * list N * list N) :=
  match sk, src with
  | [k0; k1; k2; k3; k4; k5; k6; k7; k8; k9; k10; k11; k12; k13; k14; k15; k16; k17; k18; k19; k20; k21;
     k22; k23; k24; k25; k26; k27; k28; k29; k30; k31],
    [s0; s1; s2; s3; s4; s5; s6; s7; s8; s9; s10; s11; s12; s13; s14; s15] =>
    Some (pack36 (if decrypt
                  then gen_cryptBlock_dec k0 k1 k2 k3 k4 k5 k6 k7 k8 k9 k10 k11 k12 k13 k14 k15 k16 k17 k18 k19 k20 k21
                         k22 k23 k24 k25 k26 k27 k28 k29 k30 k31 s0 s1 s2 s3 s4 s5 s6 s7 s8 s9 s10 s11 s12 s13 s14 s15
                  else gen_cryptBlock_enc k0 k1 k2 k3 k4 k5 k6 k7 k8 k9 k10 k11 k12 k13 k14 k15 k16 k17 k18 k19 k20 k21
                         k22 k23 k24 k25 k26 k27 k28 k29 k30 k31 s0 s1 s2 s3 s4 s5 s6 s7 s8 s9 s10 s11 s12 s13 s14 s15))
  | _, _ => None
  end.

Definition gen_generateSubKeys_list (key : list N) : option (list N) :=
  match key with
  | [k0; k1; k2; k3; k4; k5; k6; k7; k8; k9; k10; k11; k12; k13; k14; k15] =>
    Some (pack32 (gen_generateSubKeys k0 k1 k2 k3 k4 k5 k6 k7 k8 k9 k10 k11 k12 k13 k14 k15))
  | _ => None
  end.

(* a list of known length as its elements *)
Ltac explode l H :=
  repeat (destruct l as [|? l]; [discriminate H|cbn [length] in H; apply Nat.succ_inj in H]);
  destruct l; [clear H|discriminate H].

Theorem gen_cryptBlock_list_is_model : forall decrypt sk src b_in r_in dst,
  length sk = 32%nat -> length src = 16%nat -> length r_in = 16%nat -> length dst = 16%nat ->
  exists o, gen_cryptBlock_list decrypt sk src = Some o /\ cryptBlock sk b_in r_in dst src decrypt = Ok o.
Proof.
  intros decrypt sk src b_in r_in dst Hk Hs Hr Hd.
  explode sk Hk. explode src Hs.
  eexists. split; [reflexivity|].
  destruct decrypt; [apply gen_cryptBlock_dec_is_model|apply gen_cryptBlock_enc_is_model]; assumption.
Qed.

Lemma pack32_length : forall o, length (pack32 o) = 32%nat.
Proof.
  intro o. repeat (let a := fresh in destruct o as [o a]). reflexivity.
Qed.

Theorem gen_generateSubKeys_list_is_model : forall key,
  length key = 16%nat ->
  exists sk, gen_generateSubKeys_list key = Some sk /\ generateSubKeys key = Ok sk /\ length sk = 32%nat.
Proof.
  intros key Hk. explode key Hk.
  eexists. split; [reflexivity|]. split; [apply gen_generateSubKeys_is_model|apply pack32_length].
Qed.

(* ---------- hence the generated code computes the standard's functions ---------------------------------------- *)
From GmsmVerif Require Import SM4.SM4Lemmas SM4.SM4Proofs.

Theorem gen_code_is_spec : forall key src,
  length key = 16%nat -> bytes_ok key = true -> length src = 16%nat -> bytes_ok src = true ->
  gen_generateSubKeys_list key = Some (sm4_round_keys key) /\
  (exists b r, gen_cryptBlock_list false (sm4_round_keys key) src = Some (b, r, sm4_encrypt_block key src)) /\
  (exists b r, gen_cryptBlock_list true (sm4_round_keys key) src = Some (b, r, sm4_decrypt_block key src)).
Proof.
  intros key src Hk Hkb Hs Hsb.
  destruct (gen_generateSubKeys_list_is_model key Hk) as (sk & E1 & E2 & _).
  rewrite (generateSubKeys_spec key Hk Hkb) in E2. injection E2 as E2. subst sk.
  split; [exact E1|].
  assert (HB : block16 src) by (split; assumption).
  split.
  - destruct (gen_cryptBlock_list_is_model false (sm4_round_keys key) src zero_b zero_r zero_r
                (round_keys_length key) Hs eq_refl eq_refl) as (o & G1 & G2).
    rewrite (cryptBlock_spec (sm4_round_keys key) zero_b zero_r zero_r src false (round_keys_length key) eq_refl eq_refl HB) in G2.
    cbv zeta in G2. injection G2 as G2. subst o. eexists. eexists. exact G1.
  - destruct (gen_cryptBlock_list_is_model true (sm4_round_keys key) src zero_b zero_r zero_r
                (round_keys_length key) Hs eq_refl eq_refl) as (o & G1 & G2).
    rewrite (cryptBlock_spec (sm4_round_keys key) zero_b zero_r zero_r src true (round_keys_length key) eq_refl eq_refl HB) in G2.
    cbv zeta in G2. injection G2 as G2. subst o. eexists. eexists. exact G1.
Qed.

(* non-vacuity: the generated code itself on the example of the standard (Annex A.1) *)
Example gen_code_standard_vector :
  (match gen_generateSubKeys_list A1_key with
   | Some sk => match gen_cryptBlock_list false sk A1_key with Some (_, _, ct) => ct | None => [] end
   | None => [] end) = A1_cipher /\
  (match gen_generateSubKeys_list A1_key with
   | Some sk => match gen_cryptBlock_list true sk A1_cipher with Some (_, _, pt) => pt | None => [] end
   | None => [] end) = A1_key.
Proof. vm_compute. split; reflexivity. Qed.
