(* Semantic tie of the GF(2^128) leaf functions of sm4/sm4_gcm.go: the Gallina text the translator target gcmcode
   regenerates from the Go AST on every run (Gen/GCMCode.v: addition, Rightshift, findYi, MSB, GHASH's closure calculateLenToBytes, statement by statement, loops
   unrolled, slices as 16 cells) equals the hand-written model (SM4/GCMModel.v) for ALL byte inputs.  These lemmas
   replace the positional literal fingerprints of the three functions: a rewrite of their bodies that computes the same
   bytes still compiles here, one that does not stops this file.

   Each equation is first tried by conversion; when the regenerated text has another shape than the model, the lists are
   compared cell by cell and every cell - an expression over one or two input bytes - by a COMPLETE sweep of 0..255 (or
   256 x 256 pairs), lifted by byte_sweep1 / byte_sweep2. *)
From Coq Require Import List NArith Arith Bool Lia ZifyN ZifyNat.
From GmsmVerif Require Import Lib.Outcome SM4.ModesModel SM4.GCMModel Gen.GCMCode.
Import ListNotations.
Local Open Scope N_scope.

Definition byte_range : list N := map N.of_nat (seq 0 256).
Definition is_bytes (l : list N) : Prop := Forall (fun x => x < 256) l.

Lemma byte_range_complete x : x < 256 -> In x byte_range.
Proof.
  intros H. unfold byte_range. apply in_map_iff. exists (N.to_nat x). split; [apply N2Nat.id|].
  apply in_seq. lia.
Qed.

Lemma byte_sweep1 (f g : N -> N) :
  forallb (fun x => N.eqb (f x) (g x)) byte_range = true -> forall x, x < 256 -> f x = g x.
Proof. intros H x Hx. rewrite forallb_forall in H. apply N.eqb_eq, H, byte_range_complete, Hx. Qed.

Lemma byte_sweep2 (f g : N -> N -> N) :
  forallb (fun x => forallb (fun y => N.eqb (f x y) (g x y)) byte_range) byte_range = true ->
  forall x y, x < 256 -> y < 256 -> f x y = g x y.
Proof.
  intros H x y Hx Hy. rewrite forallb_forall in H. specialize (H x (byte_range_complete x Hx)).
  rewrite forallb_forall in H. apply N.eqb_eq, H, byte_range_complete, Hy.
Qed.

Lemma cons_eq (A : Type) (a b : A) l l' : a = b -> l = l' -> a :: l = b :: l'.
Proof. intros; subst; reflexivity. Qed.

Ltac open_bytes :=
  unfold is_bytes in *;
  repeat match goal with H : Forall _ (_ :: _) |- _ => inversion_clear H end;
  repeat match goal with H : Forall _ [] |- _ => clear H end.

(* forget the bytes the goal does not mention *)
Ltac drop_unused := repeat match goal with H : ?v < 256 |- _ => clear H; clear v end.

Ltac byte_eq :=
  first
  [ reflexivity
  | drop_unused;
    lazymatch goal with
    | Hx : ?x < 256, Hy : ?y < 256, Hz : ?z < 256 |- _ => fail "a cell depends on more than two input bytes"
    | Hx : ?x < 256, Hy : ?y < 256 |- ?L = ?R =>
        let Lp := eval pattern x, y in L in
        let Rp := eval pattern x, y in R in
        lazymatch Lp with ?F _ _ => lazymatch Rp with ?G _ _ =>
          exact (byte_sweep2 F G ltac:(vm_compute; reflexivity) x y Hx Hy) end end
    | Hx : ?x < 256 |- ?L = ?R =>
        let Lp := eval pattern x in L in
        let Rp := eval pattern x in R in
        lazymatch Lp with ?F _ => lazymatch Rp with ?G _ =>
          exact (byte_sweep1 F G ltac:(vm_compute; reflexivity) x Hx) end end
    end ].

Ltac cells_eq := repeat (apply cons_eq; [byte_eq|]); reflexivity.

Ltac tie :=
  intros;
  first
  [ reflexivity
  | open_bytes;
    cbv -[N.lxor N.land N.lor N.shiftl N.shiftr N.modulo N.eqb N.add N.sub N.mul N.div N.lt];
    cells_eq ].

(* ---------- addition(a, b []byte), both 16 bytes; and nil for different lengths ---------------------------------------- *)
Lemma gen_addition_is_model a0 a1 a2 a3 a4 a5 a6 a7 a8 a9 a10 a11 a12 a13 a14 a15 b0 b1 b2 b3 b4 b5 b6 b7 b8 b9 b10 b11 b12 b13 b14 b15 :
  is_bytes [a0; a1; a2; a3; a4; a5; a6; a7; a8; a9; a10; a11; a12; a13; a14; a15] -> is_bytes [b0; b1; b2; b3; b4; b5; b6; b7; b8; b9; b10; b11; b12; b13; b14; b15] ->
  gen_addition a0 a1 a2 a3 a4 a5 a6 a7 a8 a9 a10 a11 a12 a13 a14 a15 b0 b1 b2 b3 b4 b5 b6 b7 b8 b9 b10 b11 b12 b13 b14 b15 = addition [a0; a1; a2; a3; a4; a5; a6; a7; a8; a9; a10; a11; a12; a13; a14; a15] [b0; b1; b2; b3; b4; b5; b6; b7; b8; b9; b10; b11; b12; b13; b14; b15].
Proof. tie. Qed.

Lemma gen_addition_mismatch_is_model a0 a1 a2 a3 a4 a5 a6 a7 a8 a9 a10 a11 a12 a13 a14 a15 b0 b1 b2 b3 b4 b5 b6 b7 b8 b9 b10 b11 b12 b13 b14 :
  is_bytes [a0; a1; a2; a3; a4; a5; a6; a7; a8; a9; a10; a11; a12; a13; a14; a15] -> is_bytes [b0; b1; b2; b3; b4; b5; b6; b7; b8; b9; b10; b11; b12; b13; b14] ->
  gen_addition_mismatch a0 a1 a2 a3 a4 a5 a6 a7 a8 a9 a10 a11 a12 a13 a14 a15 b0 b1 b2 b3 b4 b5 b6 b7 b8 b9 b10 b11 b12 b13 b14 = addition [a0; a1; a2; a3; a4; a5; a6; a7; a8; a9; a10; a11; a12; a13; a14; a15] [b0; b1; b2; b3; b4; b5; b6; b7; b8; b9; b10; b11; b12; b13; b14].
Proof. tie. Qed.

(* ---------- Rightshift(V []byte): the contents of the 16-byte V afterwards ------------------------------------------------ *)
Lemma gen_Rightshift_is_model v0 v1 v2 v3 v4 v5 v6 v7 v8 v9 v10 v11 v12 v13 v14 v15 :
  is_bytes [v0; v1; v2; v3; v4; v5; v6; v7; v8; v9; v10; v11; v12; v13; v14; v15] ->
  gen_Rightshift v0 v1 v2 v3 v4 v5 v6 v7 v8 v9 v10 v11 v12 v13 v14 v15 = Rightshift [v0; v1; v2; v3; v4; v5; v6; v7; v8; v9; v10; v11; v12; v13; v14; v15].
Proof. tie. Qed.

(* ---------- findYi(Y []byte, index int) for the 128 indices multiplication passes ------------------------------------------ *)
Lemma gen_findYi_is_model y0 y1 y2 y3 y4 y5 y6 y7 y8 y9 y10 y11 y12 y13 y14 y15 :
  is_bytes [y0; y1; y2; y3; y4; y5; y6; y7; y8; y9; y10; y11; y12; y13; y14; y15] ->
  gen_findYi y0 y1 y2 y3 y4 y5 y6 y7 y8 y9 y10 y11 y12 y13 y14 y15 = map (findYi [y0; y1; y2; y3; y4; y5; y6; y7; y8; y9; y10; y11; y12; y13; y14; y15]) (seq 0 128).
Proof. tie. Qed.

Lemma gen_findYi_at_index y0 y1 y2 y3 y4 y5 y6 y7 y8 y9 y10 y11 y12 y13 y14 y15 index :
  is_bytes [y0; y1; y2; y3; y4; y5; y6; y7; y8; y9; y10; y11; y12; y13; y14; y15] -> (index < 128)%nat ->
  nth index (gen_findYi y0 y1 y2 y3 y4 y5 y6 y7 y8 y9 y10 y11 y12 y13 y14 y15) 0 = findYi [y0; y1; y2; y3; y4; y5; y6; y7; y8; y9; y10; y11; y12; y13; y14; y15] index.
Proof.
  intros Hb Hi. rewrite (gen_findYi_is_model _ _ _ _ _ _ _ _ _ _ _ _ _ _ _ _ Hb).
  rewrite nth_indep with (d' := findYi [y0; y1; y2; y3; y4; y5; y6; y7; y8; y9; y10; y11; y12; y13; y14; y15] 0%nat) by (rewrite map_length, seq_length; exact Hi).
  rewrite map_nth. rewrite seq_nth by exact Hi. reflexivity.
Qed.

(* ---------- MSB(len, S): S[:len/8] for the bit counts 0, 8, .., 128 the callers pass (u = v*8 of calculm_v, t = 128) ------- *)
Lemma gen_MSB_is_model s0 s1 s2 s3 s4 s5 s6 s7 s8 s9 s10 s11 s12 s13 s14 s15 j :
  (j <= 16)%nat -> MSB (8 * j) [s0; s1; s2; s3; s4; s5; s6; s7; s8; s9; s10; s11; s12; s13; s14; s15] = Ok (nth j (gen_MSB s0 s1 s2 s3 s4 s5 s6 s7 s8 s9 s10 s11 s12 s13 s14 s15) []).
Proof. intros H. do 17 (destruct j as [|j]; [reflexivity|]). lia. Qed.

(* ---------- GHASH's closure calculateLenToBytes(len int): the 8 bytes of a non-negative int ---------------------------------- *)
Lemma gen_calculateLenToBytes_is_model len : gen_calculateLenToBytes len = calculateLenToBytes len.
Proof.
  first [ reflexivity
        | cbv [gen_calculateLenToBytes calculateLenToBytes]; cbn [N.shiftr];
          rewrite ?N.mod_mod by discriminate; rewrite ?N.land_ones; reflexivity ].
Qed.

(* the functions together, as restated in Props/C12.v *)
Definition gcm_leaf_code_is_model : Prop :=
  (forall a0 a1 a2 a3 a4 a5 a6 a7 a8 a9 a10 a11 a12 a13 a14 a15 b0 b1 b2 b3 b4 b5 b6 b7 b8 b9 b10 b11 b12 b13 b14 b15, is_bytes [a0; a1; a2; a3; a4; a5; a6; a7; a8; a9; a10; a11; a12; a13; a14; a15] -> is_bytes [b0; b1; b2; b3; b4; b5; b6; b7; b8; b9; b10; b11; b12; b13; b14; b15] ->
     gen_addition a0 a1 a2 a3 a4 a5 a6 a7 a8 a9 a10 a11 a12 a13 a14 a15 b0 b1 b2 b3 b4 b5 b6 b7 b8 b9 b10 b11 b12 b13 b14 b15 = addition [a0; a1; a2; a3; a4; a5; a6; a7; a8; a9; a10; a11; a12; a13; a14; a15] [b0; b1; b2; b3; b4; b5; b6; b7; b8; b9; b10; b11; b12; b13; b14; b15]) /\
  (forall a0 a1 a2 a3 a4 a5 a6 a7 a8 a9 a10 a11 a12 a13 a14 a15 b0 b1 b2 b3 b4 b5 b6 b7 b8 b9 b10 b11 b12 b13 b14, is_bytes [a0; a1; a2; a3; a4; a5; a6; a7; a8; a9; a10; a11; a12; a13; a14; a15] -> is_bytes [b0; b1; b2; b3; b4; b5; b6; b7; b8; b9; b10; b11; b12; b13; b14] ->
     gen_addition_mismatch a0 a1 a2 a3 a4 a5 a6 a7 a8 a9 a10 a11 a12 a13 a14 a15 b0 b1 b2 b3 b4 b5 b6 b7 b8 b9 b10 b11 b12 b13 b14 = addition [a0; a1; a2; a3; a4; a5; a6; a7; a8; a9; a10; a11; a12; a13; a14; a15] [b0; b1; b2; b3; b4; b5; b6; b7; b8; b9; b10; b11; b12; b13; b14]) /\
  (forall v0 v1 v2 v3 v4 v5 v6 v7 v8 v9 v10 v11 v12 v13 v14 v15, is_bytes [v0; v1; v2; v3; v4; v5; v6; v7; v8; v9; v10; v11; v12; v13; v14; v15] -> gen_Rightshift v0 v1 v2 v3 v4 v5 v6 v7 v8 v9 v10 v11 v12 v13 v14 v15 = Rightshift [v0; v1; v2; v3; v4; v5; v6; v7; v8; v9; v10; v11; v12; v13; v14; v15]) /\
  (forall y0 y1 y2 y3 y4 y5 y6 y7 y8 y9 y10 y11 y12 y13 y14 y15 index, is_bytes [y0; y1; y2; y3; y4; y5; y6; y7; y8; y9; y10; y11; y12; y13; y14; y15] -> (index < 128)%nat ->
     nth index (gen_findYi y0 y1 y2 y3 y4 y5 y6 y7 y8 y9 y10 y11 y12 y13 y14 y15) 0 = findYi [y0; y1; y2; y3; y4; y5; y6; y7; y8; y9; y10; y11; y12; y13; y14; y15] index) /\
  (forall s0 s1 s2 s3 s4 s5 s6 s7 s8 s9 s10 s11 s12 s13 s14 s15 j, (j <= 16)%nat -> MSB (8 * j) [s0; s1; s2; s3; s4; s5; s6; s7; s8; s9; s10; s11; s12; s13; s14; s15] = Ok (nth j (gen_MSB s0 s1 s2 s3 s4 s5 s6 s7 s8 s9 s10 s11 s12 s13 s14 s15) [])) /\
  (forall len, gen_calculateLenToBytes len = calculateLenToBytes len).

Lemma gcm_leaf_code_tie : gcm_leaf_code_is_model.
Proof.
  split; [exact gen_addition_is_model|]. split; [exact gen_addition_mismatch_is_model|].
  split; [exact gen_Rightshift_is_model|]. split; [exact gen_findYi_at_index|].
  split; [exact gen_MSB_is_model|exact gen_calculateLenToBytes_is_model].
Qed.
