(* Model of /repo/sm4/sm4.go (block cipher part), function by function, over the tables the
   translator regenerates from the source (Gen/SM4Tables.v).  No proofs in this file.

   Go objects modelled:
     uint32                 -> N, every operation reduced explicitly (shifts masked with 0xffffffff)
     [256]uint32 sbox0..3   -> gen_sbox0..3 (list N), lookups by nth
     []byte src / dst       -> list N; indexing past the end is Panic, copy() copies min(len,len)
     Sm4Cipher{subkeys}     -> record with the one field
     b [4]uint32, r [16]byte (per-call scratch since the repair "make Sm4Cipher safe for concurrent
       Encrypt/Decrypt") -> explicit arguments of cryptBlock, zeroed by Encrypt/Decrypt
     memory with dst/src aliasing -> a byte list + two offsets (crypt_mem)                           *)
From Coq Require Import List NArith Arith Bool.
From GmsmVerif Require Import Lib.Outcome Gen.SM4Tables SM4.SM4Spec.
Import ListNotations.
Open Scope N_scope.

Definition u32 (x : N) : N := N.land x mask32.

(* func rl(x uint32, i uint8) uint32 { return (x << (i % 32)) | (x >> (32 - (i % 32))) } *)
Definition rl (x : N) (i : N) : N := N.lor (u32 (N.shiftl x (i mod 32))) (N.shiftr x (32 - i mod 32)).

(* func l0(b uint32) uint32 { return b ^ rl(b, 13) ^ rl(b, 23) } *)
Definition l0 (b : N) : N := N.lxor (N.lxor b (rl b 13)) (rl b 23).

Definition sbox_at (a : N) : N := nth (N.to_nat a) gen_sbox 0.

(* func p(a uint32) uint32: a>>24 needs no mask on a uint32 *)
Definition p (a : N) : N :=
  N.lxor (N.lxor (N.lxor (u32 (N.shiftl (sbox_at (N.shiftr a 24)) 24))
                         (u32 (N.shiftl (sbox_at (N.land (N.shiftr a 16) 255)) 16)))
                 (u32 (N.shiftl (sbox_at (N.land (N.shiftr a 8) 255)) 8)))
         (sbox_at (N.land a 255)).

(* func feistel0(x0, x1, x2, x3, rk uint32) uint32 { return x0 ^ l0(p(x1^x2^x3^rk)) } *)
Definition feistel0 (x0 x1 x2 x3 rk : N) : N :=
  N.lxor x0 (l0 (p (N.lxor (N.lxor (N.lxor x1 x2) x3) rk))).

(* func permuteInitialBlock(b []uint32, block []byte): panics when block has fewer than 16 bytes *)
Definition be32 (a0 a1 a2 a3 : N) : N :=
  N.lor (N.lor (N.lor (u32 (N.shiftl a0 24)) (u32 (N.shiftl a1 16))) (u32 (N.shiftl a2 8))) a3.

Definition permuteInitialBlock (block : list N) : outcome (N * N * N * N) :=
  match block with
  | a0 :: a1 :: a2 :: a3 :: b0 :: b1 :: b2 :: b3 :: c0 :: c1 :: c2 :: c3 :: d0 :: d1 :: d2 :: d3 :: _ =>
    Ok (be32 a0 a1 a2 a3, be32 b0 b1 b2 b3, be32 c0 c1 c2 c3, be32 d0 d1 d2 d3)
  | _ => Panic
  end.

(* func permuteFinalBlock(b []byte, block []uint32): uint8(x >> k) keeps the low 8 bits *)
Definition u8 (x : N) : N := N.land x 255.
Definition permuteFinalBlock (block : N * N * N * N) : list N :=
  let '(w0, w1, w2, w3) := block in
  [u8 (N.shiftr w0 24); u8 (N.shiftr w0 16); u8 (N.shiftr w0 8); u8 w0;
   u8 (N.shiftr w1 24); u8 (N.shiftr w1 16); u8 (N.shiftr w1 8); u8 w1;
   u8 (N.shiftr w2 24); u8 (N.shiftr w2 16); u8 (N.shiftr w2 8); u8 w2;
   u8 (N.shiftr w3 24); u8 (N.shiftr w3 16); u8 (N.shiftr w3 8); u8 w3].

(* sbox0[x&0xff] ^ sbox1[(x>>8)&0xff] ^ sbox2[(x>>16)&0xff] ^ sbox3[(x>>24)&0xff] *)
Definition tt (x : N) : N :=
  N.lxor (N.lxor (N.lxor (nth (N.to_nat (N.land x 255)) gen_sbox0 0)
                         (nth (N.to_nat (N.land (N.shiftr x 8) 255)) gen_sbox1 0))
                 (nth (N.to_nat (N.land (N.shiftr x 16) 255)) gen_sbox2 0))
         (nth (N.to_nat (N.land (N.shiftr x 24) 255)) gen_sbox3 0).

(* one iteration of the encryption loop: s = subkeys[4*i : 4*i+4] *)
Definition enc_iter (s : list N) (b : N * N * N * N) : N * N * N * N :=
  let '(b0, b1, b2, b3) := b in
  let x := N.lxor (N.lxor (N.lxor b1 b2) b3) (nth 0 s 0) in
  let b0 := N.lxor b0 (tt x) in
  let x := N.lxor (N.lxor (N.lxor b0 b2) b3) (nth 1 s 0) in
  let b1 := N.lxor b1 (tt x) in
  let x := N.lxor (N.lxor (N.lxor b0 b1) b3) (nth 2 s 0) in
  let b2 := N.lxor b2 (tt x) in
  let x := N.lxor (N.lxor (N.lxor b1 b2) b0) (nth 3 s 0) in
  let b3 := N.lxor b3 (tt x) in
  (b0, b1, b2, b3).

(* one iteration of the decryption loop: s = subkeys[31-4*i-3 : 31-4*i-3+4], used s[3]..s[0] *)
Definition dec_iter (s : list N) (b : N * N * N * N) : N * N * N * N :=
  let '(b0, b1, b2, b3) := b in
  let x := N.lxor (N.lxor (N.lxor b1 b2) b3) (nth 3 s 0) in
  let b0 := N.lxor b0 (tt x) in
  let x := N.lxor (N.lxor (N.lxor b0 b2) b3) (nth 2 s 0) in
  let b1 := N.lxor b1 (tt x) in
  let x := N.lxor (N.lxor (N.lxor b0 b1) b3) (nth 1 s 0) in
  let b2 := N.lxor b2 (tt x) in
  let x := N.lxor (N.lxor (N.lxor b1 b2) b0) (nth 0 s 0) in
  let b3 := N.lxor b3 (tt x) in
  (b0, b1, b2, b3).

(* Go slice expression a[lo:hi] on a slice of length = capacity: panics unless lo <= hi <= len *)
Definition slice {A} (l : list A) (lo hi : nat) : outcome (list A) :=
  if (Nat.leb lo hi && Nat.leb hi (length l))%bool then Ok (firstn (hi - lo) (skipn lo l)) else Panic.

(* for i := 0; i < 8; i++ { ... }  (n = iterations left, i = loop variable) *)
Fixpoint enc_loop (n i : nat) (subkeys : list N) (b : N * N * N * N) : outcome (N * N * N * N) :=
  match n with
  | O => Ok b
  | S n' => do s <- slice subkeys (4 * i) (4 * i + 4); enc_loop n' (S i) subkeys (enc_iter s b)
  end.

Fixpoint dec_loop (n i : nat) (subkeys : list N) (b : N * N * N * N) : outcome (N * N * N * N) :=
  match n with
  | O => Ok b
  | S n' => do s <- slice subkeys (31 - 4 * i - 3) (31 - 4 * i - 3 + 4); dec_loop n' (S i) subkeys (dec_iter s b)
  end.

(* copy(dst, r): min(len dst, len r) bytes *)
Definition copy (dst src : list N) : list N :=
  firstn (Nat.min (length dst) (length src)) src ++ skipn (Nat.min (length dst) (length src)) dst.

(* func cryptBlock(subkeys []uint32, b []uint32, r []byte, dst, src []byte, decrypt bool)
   b_in, r_in: the previous contents of the scratch buffers (overwritten before they are read);
   result: (b, r, dst) afterwards *)
Definition cryptBlock (subkeys : list N) (b_in : N * N * N * N) (r_in : list N) (dst src : list N) (decrypt : bool)
  : outcome (N * N * N * N * list N * list N) :=
  do b <- permuteInitialBlock src;
  do b <- (if decrypt then dec_loop 8 0 subkeys b else enc_loop 8 0 subkeys b);
  let '(b0, b1, b2, b3) := b in
  let b := (b3, b2, b1, b0) in
  let r := copy r_in (permuteFinalBlock b) in
  Ok (b, r, copy dst r).

(* func generateSubKeys(key []byte) []uint32 *)
Fixpoint subkey_loop (cks : list N) (b : N * N * N * N) : list N :=
  match cks with
  | [] => []
  | ck :: rest =>
    let '(b0, b1, b2, b3) := b in
    let sk := feistel0 b0 b1 b2 b3 ck in
    sk :: subkey_loop rest (b1, b2, b3, sk)
  end.

Definition generateSubKeys (key : list N) : outcome (list N) :=
  do b <- permuteInitialBlock key;
  let '(b0, b1, b2, b3) := b in
  Ok (subkey_loop gen_ck (N.lxor b0 (nth 0 gen_fk 0), N.lxor b1 (nth 1 gen_fk 0),
                          N.lxor b2 (nth 2 gen_fk 0), N.lxor b3 (nth 3 gen_fk 0))).

(* type Sm4Cipher struct { subkeys []uint32 }: generateSubKeys reads the key bytes into words
   (permuteInitialBlock) and returns a fresh []uint32; no reference to the caller's key slice is kept, so the
   object is a function of the key VALUES at the time of NewCipher. *)
Record Sm4Cipher := mkCipher { subkeys : list N }.

(* func NewCipher(key []byte) (cipher.Block, error).  Err 1 = "SM4: invalid key size" *)
Definition NewCipher (key : list N) : outcome Sm4Cipher :=
  if negb (Nat.eqb (length key) (N.to_nat gen_BlockSize)) then Err 1
  else do sk <- generateSubKeys key; Ok (mkCipher sk).

Definition BlockSize_method (c : Sm4Cipher) : N := gen_BlockSize.

Definition zero_b : N * N * N * N := (0, 0, 0, 0).
Definition zero_r : list N := repeat 0 16.

(* func (c *Sm4Cipher) Encrypt(dst, src []byte): var b [4]uint32; var r [BlockSize]byte; the
   object is only read.  Result: the object afterwards and dst afterwards. *)
Definition Encrypt (c : Sm4Cipher) (dst src : list N) : outcome (Sm4Cipher * list N) :=
  do '(_, _, dst') <- cryptBlock (subkeys c) zero_b zero_r dst src false; Ok (c, dst').

Definition Decrypt (c : Sm4Cipher) (dst src : list N) : outcome (Sm4Cipher * list N) :=
  do '(_, _, dst') <- cryptBlock (subkeys c) zero_b zero_r dst src true; Ok (c, dst').

(* ---------- a history of calls on one object ------------------------------------------------------ *)
(* (true, blk) = Decrypt(fresh 16-byte dst, blk); (false, blk) = Encrypt(fresh dst, blk) *)
Fixpoint run_history (c : Sm4Cipher) (ops : list (bool * list N)) : outcome (list (list N)) :=
  match ops with
  | [] => Ok []
  | (d, blk) :: rest =>
    do '(c', out) <- (if d : bool then Decrypt c zero_r blk else Encrypt c zero_r blk);
    do outs <- run_history c' rest;
    Ok (out :: outs)
  end.

(* ---------- dst and src inside one memory (aliasing) ---------------------------------------------- *)
(* dst = mem[doff : doff+16], src = mem[soff : soff+16] (any overlap).  cryptBlock reads all of src
   (permuteInitialBlock) before it writes dst (the final copy), which is what this function does. *)
Definition crypt_mem (c : Sm4Cipher) (mem : list N) (doff soff : nat) (decrypt : bool) : outcome (list N) :=
  do src <- slice mem soff (soff + 16);
  do dst <- slice mem doff (doff + 16);
  do '(_, _, dst') <- cryptBlock (subkeys c) zero_b zero_r dst src decrypt;
  Ok (firstn doff mem ++ dst' ++ skipn (doff + 16) mem).

(* n-fold Encrypt(buf, buf) on one object (the standard's 1 000 000-fold example) *)
Fixpoint iterate_encrypt (n : nat) (c : Sm4Cipher) (buf : list N) : outcome (list N) :=
  match n with
  | O => Ok buf
  | S n' => do '(c', buf') <- Encrypt c buf buf; iterate_encrypt n' c' buf'
  end.

(* what a caller of sm4.NewCipher(key) gets from Encrypt / Decrypt into a fresh 16-byte dst, as a total function
   (the empty string stands for "NewCipher failed or the call panicked") *)
Definition go_encrypt (key blk : list N) : list N :=
  match (do c <- NewCipher key; Encrypt c zero_r blk) with Ok (_, out) => out | _ => [] end.
Definition go_decrypt (key blk : list N) : list N :=
  match (do c <- NewCipher key; Decrypt c zero_r blk) with Ok (_, out) => out | _ => [] end.
