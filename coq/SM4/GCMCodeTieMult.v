(* Semantic tie of multiplication of sm4/sm4_gcm.go (continuation of SM4/GCMCodeTie.v; own file: 128 loop-body instances,
   about 90 s): the statements in front of the loop, the values of the loop variable and the loop body at each index, as
   regenerated from the Go AST (Gen/GCMCode.v), are the model's initial state, 0..127 and mult_step_Z / mult_step_V.  Each
   body instance: by conversion, else the conditions are taken apart (innermost first) and the 32 cells compared as in
   GCMCodeTie.v. *)
From Coq Require Import List NArith Arith Bool Lia ZifyN ZifyNat.
From GmsmVerif Require Import Lib.Outcome SM4.ModesModel SM4.GCMModel Gen.GCMCode SM4.GCMCodeTie.
Import ListNotations.
Local Open Scope N_scope.

(* ---------- multiplication(X, Y []byte): cut at its loop ------------------------------------------------------------------------ *)
(* in front of the loop: Z = 16 zero bytes, V = a copy of X; the loop variable runs through 0..127; the body run at index k
   from ARBITRARY bytes Z, V (R and Y as the statements in front leave them) is one step of the model's mult_loop; behind the
   loop Z is returned (checked by the translator).  The model's multiplication is mult_loop 128 0 Y (zeros 16) (copy16 X). *)
Lemma gen_mult_init_is_model x0 x1 x2 x3 x4 x5 x6 x7 x8 x9 x10 x11 x12 x13 x14 x15 y0 y1 y2 y3 y4 y5 y6 y7 y8 y9 y10 y11 y12 y13 y14 y15 :
  is_bytes [x0; x1; x2; x3; x4; x5; x6; x7; x8; x9; x10; x11; x12; x13; x14; x15] -> is_bytes [y0; y1; y2; y3; y4; y5; y6; y7; y8; y9; y10; y11; y12; y13; y14; y15] ->
  gen_mult_init x0 x1 x2 x3 x4 x5 x6 x7 x8 x9 x10 x11 x12 x13 x14 x15 y0 y1 y2 y3 y4 y5 y6 y7 y8 y9 y10 y11 y12 y13 y14 y15 = zeros BlockSize ++ copy16 [x0; x1; x2; x3; x4; x5; x6; x7; x8; x9; x10; x11; x12; x13; x14; x15].
Proof. tie. Qed.

Lemma gen_mult_indices_is_model : gen_mult_indices = map N.of_nat (seq 0 128).
Proof. vm_compute. reflexivity. Qed.

(* take the innermost condition of the goal apart *)
Ltac destruct_cond :=
  match goal with
  | |- context [if ?c then _ else _] =>
      lazymatch c with
      | context [if _ then _ else _] => fail
      | _ => destruct c eqn:?
      end
  end;
  change (N.eqb 1 1) with true; change (N.eqb 0 1) with false; change (N.eqb 1 0) with false; change (N.eqb 0 0) with true;
  cbv -[N.lxor N.land N.lor N.shiftl N.shiftr N.modulo N.eqb N.add N.sub N.mul N.div N.lt].

Ltac tie_step :=
  first
  [ reflexivity
  | cbv -[N.lxor N.land N.lor N.shiftl N.shiftr N.modulo N.eqb N.add N.sub N.mul N.div N.lt];
    repeat destruct_cond; cells_eq ].

Lemma gen_mult_body_is_model k y0 y1 y2 y3 y4 y5 y6 y7 y8 y9 y10 y11 y12 y13 y14 y15 z0 z1 z2 z3 z4 z5 z6 z7 z8 z9 z10 z11 z12 z13 z14 z15 v0 v1 v2 v3 v4 v5 v6 v7 v8 v9 v10 v11 v12 v13 v14 v15 :
  (k < 128)%nat -> is_bytes [y0; y1; y2; y3; y4; y5; y6; y7; y8; y9; y10; y11; y12; y13; y14; y15] -> is_bytes [z0; z1; z2; z3; z4; z5; z6; z7; z8; z9; z10; z11; z12; z13; z14; z15] -> is_bytes [v0; v1; v2; v3; v4; v5; v6; v7; v8; v9; v10; v11; v12; v13; v14; v15] ->
  gen_mult_body k y0 y1 y2 y3 y4 y5 y6 y7 y8 y9 y10 y11 y12 y13 y14 y15 z0 z1 z2 z3 z4 z5 z6 z7 z8 z9 z10 z11 z12 z13 z14 z15 v0 v1 v2 v3 v4 v5 v6 v7 v8 v9 v10 v11 v12 v13 v14 v15 = mult_step_Z [y0; y1; y2; y3; y4; y5; y6; y7; y8; y9; y10; y11; y12; y13; y14; y15] [z0; z1; z2; z3; z4; z5; z6; z7; z8; z9; z10; z11; z12; z13; z14; z15] [v0; v1; v2; v3; v4; v5; v6; v7; v8; v9; v10; v11; v12; v13; v14; v15] k ++ mult_step_V [v0; v1; v2; v3; v4; v5; v6; v7; v8; v9; v10; v11; v12; v13; v14; v15].
Proof.
  intros Hk HY HZ HV. open_bytes.
  do 128 (destruct k as [|k]; [clear Hk; tie_step|]).
  exfalso. lia.
Qed.

(* together, as restated in Props/C12.v *)
Definition gcm_mult_code_is_model : Prop :=
  (forall x0 x1 x2 x3 x4 x5 x6 x7 x8 x9 x10 x11 x12 x13 x14 x15 y0 y1 y2 y3 y4 y5 y6 y7 y8 y9 y10 y11 y12 y13 y14 y15, is_bytes [x0; x1; x2; x3; x4; x5; x6; x7; x8; x9; x10; x11; x12; x13; x14; x15] -> is_bytes [y0; y1; y2; y3; y4; y5; y6; y7; y8; y9; y10; y11; y12; y13; y14; y15] ->
     gen_mult_init x0 x1 x2 x3 x4 x5 x6 x7 x8 x9 x10 x11 x12 x13 x14 x15 y0 y1 y2 y3 y4 y5 y6 y7 y8 y9 y10 y11 y12 y13 y14 y15 = zeros BlockSize ++ copy16 [x0; x1; x2; x3; x4; x5; x6; x7; x8; x9; x10; x11; x12; x13; x14; x15]) /\
  gen_mult_indices = map N.of_nat (seq 0 128) /\
  (forall k y0 y1 y2 y3 y4 y5 y6 y7 y8 y9 y10 y11 y12 y13 y14 y15 z0 z1 z2 z3 z4 z5 z6 z7 z8 z9 z10 z11 z12 z13 z14 z15 v0 v1 v2 v3 v4 v5 v6 v7 v8 v9 v10 v11 v12 v13 v14 v15,
     (k < 128)%nat -> is_bytes [y0; y1; y2; y3; y4; y5; y6; y7; y8; y9; y10; y11; y12; y13; y14; y15] -> is_bytes [z0; z1; z2; z3; z4; z5; z6; z7; z8; z9; z10; z11; z12; z13; z14; z15] -> is_bytes [v0; v1; v2; v3; v4; v5; v6; v7; v8; v9; v10; v11; v12; v13; v14; v15] ->
     gen_mult_body k y0 y1 y2 y3 y4 y5 y6 y7 y8 y9 y10 y11 y12 y13 y14 y15 z0 z1 z2 z3 z4 z5 z6 z7 z8 z9 z10 z11 z12 z13 z14 z15 v0 v1 v2 v3 v4 v5 v6 v7 v8 v9 v10 v11 v12 v13 v14 v15 = mult_step_Z [y0; y1; y2; y3; y4; y5; y6; y7; y8; y9; y10; y11; y12; y13; y14; y15] [z0; z1; z2; z3; z4; z5; z6; z7; z8; z9; z10; z11; z12; z13; z14; z15] [v0; v1; v2; v3; v4; v5; v6; v7; v8; v9; v10; v11; v12; v13; v14; v15] k ++ mult_step_V [v0; v1; v2; v3; v4; v5; v6; v7; v8; v9; v10; v11; v12; v13; v14; v15]) /\
  (forall X Y, multiplication X Y = mult_loop 128 0 Y (zeros BlockSize) (copy16 X)) /\
  (forall n i Y Z V, mult_loop (S n) i Y Z V = mult_loop n (S i) Y (mult_step_Z Y Z V i) (mult_step_V V)) /\
  (forall i Y Z V, mult_loop 0 i Y Z V = Z).

Lemma gcm_mult_code_tie : gcm_mult_code_is_model.
Proof.
  split; [exact gen_mult_init_is_model|]. split; [exact gen_mult_indices_is_model|].
  split; [exact gen_mult_body_is_model|]. repeat split; reflexivity.
Qed.
