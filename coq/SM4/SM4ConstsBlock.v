(* The constants the model of the block cipher part of sm4.go hard-codes are the constants of the source
   (Gen/SM4Consts.v, translator target sm4consts: per function its integer literals and uses of BlockSize in
   source order).  cryptBlock, generateSubKeys and the helpers inlined into them (feistel0, permuteInitialBlock,
   permuteFinalBlock) are tied SEMANTICALLY by SM4/SM4CodeTie.v (the regenerated code equals the model for all
   inputs), so no positional fingerprint of their literals is kept here: a behaviour-preserving refactoring of
   those functions leaves this file untouched.  Kept: the rotation amounts of rl / l0 and the shifts and masks of p
   (small leaf functions), BlockSize in NewCipher, and the literal sequences of the functions that have no
   semantic tie (NewCipher, the Encrypt/Decrypt/BlockSize methods).  The rotations 2/10/18/24 of L occur only inside
   the T-tables (SM4Proofs.ttables over Gen/SM4Tables.v).  Restated in Props/C05.v. *)
From Coq Require Import List NArith Arith String.
From GmsmVerif Require Import Lib.Outcome Gen.SM4Tables Gen.SM4Consts SM4.SM4Spec SM4.SM4Model.
Import ListNotations.
Local Open Scope N_scope.

Definition lit (l : list N) (i : nat) : N := nth i l 0.
Definition nlit (l : list N) (i : nat) : nat := N.to_nat (nth i l 0).

(* func rl(x uint32, i uint8) uint32 { return (x << (i % 32)) | (x >> (32 - (i % 32))) } *)
Lemma rl_at_source x i :
  rl x i = N.lor (u32 (N.shiftl x (i mod lit gen_lits_rl 0))) (N.shiftr x (lit gen_lits_rl 1 - i mod lit gen_lits_rl 2)).
Proof. reflexivity. Qed.

(* func l0(b uint32) uint32 { return b ^ rl(b, 13) ^ rl(b, 23) } *)
Lemma l0_at_source b : l0 b = N.lxor (N.lxor b (rl b (lit gen_lits_l0 0))) (rl b (lit gen_lits_l0 1)).
Proof. reflexivity. Qed.

(* func p: sbox[a>>24]<<24 ^ sbox[(a>>16)&0xff]<<16 ^ sbox[(a>>8)&0xff]<<8 ^ sbox[a&0xff] *)
Lemma p_at_source a :
  let g := lit gen_lits_p in
  p a = N.lxor (N.lxor (N.lxor (u32 (N.shiftl (sbox_at (N.shiftr a (g 0%nat))) (g 1%nat)))
                               (u32 (N.shiftl (sbox_at (N.land (N.shiftr a (g 2%nat)) (g 3%nat))) (g 4%nat))))
                       (u32 (N.shiftl (sbox_at (N.land (N.shiftr a (g 5%nat)) (g 6%nat))) (g 7%nat))))
               (sbox_at (N.land a (g 8%nat))).
Proof. reflexivity. Qed.

(* NewCipher: len(key) != BlockSize *)
Lemma NewCipher_at_source : gen_BlockSize = lit gen_lits_NewCipher 0.
Proof. reflexivity. Qed.

Lemma lits_block_frozen :
  gen_lits_NewCipher =
  [16] /\
  gen_lits_Sm4Cipher_BlockSize =
  [16] /\
  gen_lits_Sm4Cipher_Decrypt =
  [4; 16] /\
  gen_lits_Sm4Cipher_Encrypt =
  [4; 16] /\
  gen_lits_l0 =
  [13; 23] /\
  gen_lits_p =
  [24; 24; 16; 255; 16; 8; 255; 8; 255] /\
  gen_lits_rl =
  [32; 32; 32].
Proof. repeat split; reflexivity. Qed.
