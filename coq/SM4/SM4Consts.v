(* The constants the models of sm4.go and sm4_gcm.go hard-code are the constants the source contains now.
   Gen/SM4Consts.v (translator target sm4consts) lists, for every function of the two files, its integer
   literals and uses of BlockSize in source order, and the package-level variables of each file.
   (1) "..._at_source" lemmas: each model function is, definitionally, the same function with its constants
       replaced by the literal at the stated position of the source (shift amounts, masks, loop bounds,
       rotation amounts 13/23, the reduction byte 0xe1, the 127 of the multiplication loop, inc32's 4-byte
       bound, the shifts 56..0 of the List.length block, 96 and 00 00 00 01 of GetY0, BlockSize).
       The rotations 2/10/18/24 of L do not occur in the source: they are inside the T-tables, which
       SM4Proofs.ttables ties to L over Gen/SM4Tables.v.
   (2) "lits_*_frozen": the complete literal sequences, so that ANY changed, added or removed integer constant
       in these functions stops this file from compiling.
   (3) the package-level variables: IV (plus the constant tables) in sm4.go, none in sm4_gcm.go - what the
       models' package state (ModesModel.pkg, GCMModel.gcm_state) assumes.
   Restated in Props/C05.v, C11.v, C12.v. *)
From Coq Require Import List NArith Arith String.
From GmsmVerif Require Import Lib.Outcome Gen.SM4Tables Gen.SM4Consts SM4.SM4Spec SM4.SM4Model SM4.ModesModel SM4.GCMModel.
Import ListNotations.
Local Open Scope N_scope.

Definition lit (l : list N) (i : nat) : N := nth i l 0.
Definition nlit (l : list N) (i : nat) : nat := N.to_nat (nth i l 0).

(* ---------- sm4.go: the block cipher ------------------------------------------------------------------------- *)
(* func rl(x uint32, i uint8) uint32 { return (x << (i % 32)) | (x >> (32 - (i % 32))) } *)
Lemma rl_at_source x i :
  rl x i = N.lor (u32 (N.shiftl x (i mod lit gen_lits_rl 0))) (N.shiftr x (lit gen_lits_rl 1 - i mod lit gen_lits_rl 2)).
Proof. reflexivity. Qed.

(* func l0(b uint32) uint32 { return b ^ rl(b, 13) ^ rl(b, 23) } *)
Lemma l0_at_source b : l0 b = N.lxor (N.lxor b (rl b (lit gen_lits_l0 0))) (rl b (lit gen_lits_l0 1)).
Proof. reflexivity. Qed.

(* func p: sbox[a>>24]<<24 ^ sbox[(a>>16)&0xff]<<16 ^ sbox[(a>>8)&0xff]<<8 ^ sbox[a&0xff] *)
Lemma p_at_source a :
  let g := lit gen_lits_p in
  p a = N.lxor (N.lxor (N.lxor (u32 (N.shiftl (sbox_at (N.shiftr a (g 0%nat))) (g 1%nat)))
                               (u32 (N.shiftl (sbox_at (N.land (N.shiftr a (g 2%nat)) (g 3%nat))) (g 4%nat))))
                       (u32 (N.shiftl (sbox_at (N.land (N.shiftr a (g 5%nat)) (g 6%nat))) (g 7%nat))))
               (sbox_at (N.land a (g 8%nat))).
Proof. reflexivity. Qed.

(* permuteInitialBlock / permuteFinalBlock: 4 words of 4 bytes, shifts 24, 16, 8 *)
Lemma be32_at_source a0 a1 a2 a3 :
  let g := lit gen_lits_permuteInitialBlock in
  be32 a0 a1 a2 a3 = N.lor (N.lor (N.lor (u32 (N.shiftl a0 (g 3%nat))) (u32 (N.shiftl a1 (g 6%nat)))) (u32 (N.shiftl a2 (g 9%nat)))) a3.
Proof. reflexivity. Qed.

Lemma permuteFinalBlock_at_source w0 w1 w2 w3 :
  let g := lit gen_lits_permuteFinalBlock in
  permuteFinalBlock (w0, w1, w2, w3) =
    flat_map (fun w => [u8 (N.shiftr w (g 3%nat)); u8 (N.shiftr w (g 6%nat)); u8 (N.shiftr w (g 9%nat)); u8 w]) [w0; w1; w2; w3].
Proof. reflexivity. Qed.

(* cryptBlock: 8 iterations; s = subkeys[4*i : 4*i+4] resp. subkeys[31-4*i-3 : 31-4*i-3+4]; masks 0xff, shifts 8/16/24 *)
Lemma cryptBlock_loops_at_source sk b :
  let g := nlit gen_lits_cryptBlock in
  enc_loop 8 0 sk b = enc_loop (g 63%nat) 0 sk b /\ dec_loop 8 0 sk b = dec_loop (g 2%nat) 0 sk b /\
  (forall i, (31 - 4 * i - 3 = g 3%nat - g 4%nat * i - g 5%nat)%nat) /\
  (forall i, (4 * i + 4 = g 64%nat * i + g 66%nat)%nat).
Proof. repeat split; reflexivity. Qed.

Lemma tt_at_source x :
  let g := lit gen_lits_cryptBlock in
  tt x = N.lxor (N.lxor (N.lxor (nth (N.to_nat (N.land x (g 16%nat))) gen_sbox0 0)
                                (nth (N.to_nat (N.land (N.shiftr x (g 17%nat)) (g 18%nat))) gen_sbox1 0))
                        (nth (N.to_nat (N.land (N.shiftr x (g 19%nat)) (g 20%nat))) gen_sbox2 0))
                (nth (N.to_nat (N.land (N.shiftr x (g 21%nat)) (g 22%nat))) gen_sbox3 0).
Proof. reflexivity. Qed.

(* generateSubKeys: 32 round keys, 4 words; NewCipher: len(key) != BlockSize *)
Lemma generateSubKeys_at_source :
  List.length gen_ck = nlit gen_lits_generateSubKeys 0 /\ List.length gen_fk = nlit gen_lits_generateSubKeys 1 /\
  gen_BlockSize = lit gen_lits_NewCipher 0.
Proof. repeat split; reflexivity. Qed.

(* ---------- sm4.go: padding, IV, the mode helpers -------------------------------------------------------------- *)
Lemma pkcs7Padding_at_source src :
  pkcs7Padding src =
    let padding := (nlit gen_lits_pkcs7Padding 0 - List.length src mod nlit gen_lits_pkcs7Padding 1)%nat in
    src ++ repeat (N.of_nat padding mod 256) padding.
Proof. reflexivity. Qed.

Lemma SetIV_at_source iv pk :
  SetIV iv pk = if negb (Nat.eqb (List.length iv) (nlit gen_lits_SetIV 0)) then (Err 1%nat, pk) else (Ok Datatypes.tt, mkPkg iv).
Proof. reflexivity. Qed.

(* every helper: key length BlockSize, 16-byte windows i*16 : i*16+16, len(inData)/16 iterations *)
Lemma helpers_block_at_source data i :
  blk data i = firstn (nlit gen_lits_Sm4Cbc 9) (skipn (nlit gen_lits_Sm4Cbc 6 * i) data) /\
  blk data i = firstn (nlit gen_lits_Sm4Ecb 6) (skipn (nlit gen_lits_Sm4Ecb 3 * i) data) /\
  zeros16 = repeat 0 (nlit gen_lits_Sm4CFB 1) /\ zeros16 = repeat 0 (nlit gen_lits_Sm4OFB 1).
Proof. repeat split; reflexivity. Qed.

(* ---------- sm4_gcm.go ------------------------------------------------------------------------------------------- *)
Lemma BlockSize_at_source : GCMModel.BlockSize = N.to_nat gen_BlockSize /\ GCMModel.BlockSize = nlit gen_lits_multiplication 0.
Proof. split; reflexivity. Qed.

(* R[0] = 0xe1; for i := 0; i <= 127; i++; V[BlockSize-1] & 0x01 *)
Lemma multiplication_at_source X Y :
  let g := gen_lits_multiplication in
  R_bytes = lit g 2 :: zeros (nlit g 0 - 1) /\
  multiplication X Y = mult_loop (S (nlit g 6)) (nlit g 5) Y (zeros (nlit g 3)) (copy16 X) /\
  (forall V, mult_step_V V = if N.eqb (N.land (nth (nlit g 8 - nlit g 9) V 0) (lit g 10)) (lit g 11) then Rightshift V
                             else addition (Rightshift V) R_bytes).
Proof. repeat split; reflexivity. Qed.

(* V[i] = V[i] >> 1; V[i] = ((V[i-1] & 0x01) << 7) | V[i] *)
Lemma Rightshift_at_source prev v r :
  let g := lit gen_lits_Rightshift in
  rightshift_from prev (v :: r) = N.lor (N.shiftl (N.land prev (g 5%nat)) (g 6%nat) mod 256) (N.shiftr v (g 2%nat)) :: rightshift_from v r.
Proof. reflexivity. Qed.

(* temp = Y[i/8]; temp = temp >> (7 - i%8); temp & 0x01 == 1 *)
Lemma findYi_at_source Y i :
  let g := gen_lits_findYi in
  findYi Y i = (let temp := nth (i / nlit g 0) Y 0 in
                let temp := N.shiftr temp (N.of_nat (nlit g 1 - i mod nlit g 2)) in
                if N.eqb (N.land temp (lit g 3)) (lit g 4) then lit g 5 else lit g 6).
Proof. reflexivity. Qed.

(* calculateLenToBytes: (len >> 56) & 0xff ... (len >> 0) & 0xff; lengths in bits: len(A)*8 *)
Definition ghash_len_shifts : list N := map (fun k => lit gen_lits_GHASH (90 + 3 * k)) (seq 0 8).
Definition ghash_len_masks : list N := map (fun k => lit gen_lits_GHASH (91 + 3 * k)) (seq 0 8).

Lemma calculateLenToBytes_at_source x :
  calculateLenToBytes x = map (fun s => N.shiftr x s mod 256) ghash_len_shifts /\
  ghash_len_masks = repeat 255 8.
Proof. split; reflexivity. Qed.

(* calculm_v: v*8, BlockSize*8; zeros := make((128-v)/8); Am := make(v/8) *)
Lemma calculm_v_at_source m v :
  let g := nlit gen_lits_GHASH in
  calculm_v m v =
    if (Nat.eqb m (g 0%nat) && negb (Nat.eqb v (g 1%nat)))%bool then (g 2%nat, v * g 3%nat)%nat
    else if (negb (Nat.eqb m (g 4%nat)) && Nat.eqb v (g 5%nat))%bool then (m, g 6%nat * g 7%nat)%nat
    else if (negb (Nat.eqb m (g 8%nat)) && negb (Nat.eqb v (g 9%nat)))%bool then (m + g 10%nat, v * g 11%nat)%nat
    else (g 12%nat, g 13%nat).
Proof. reflexivity. Qed.

Lemma last_block_at_source data m v :
  let g := nlit gen_lits_GHASH in
  last_block data m v =
    let tail := skipn ((m - 1) * GCMModel.BlockSize) data in
    firstn (v / g 39%nat) (tail ++ zeros (v / g 39%nat)) ++ zeros ((g 38%nat - v) / g 40%nat).
Proof. reflexivity. Qed.

(* if len(IV)*8 == 96 { Y0 = IV || 00 00 00 01 } *)
Lemma GetY0_at_source H IV :
  let g := gen_lits_GetY0 in
  GetY0 H IV = if Nat.eqb (List.length IV * nlit g 0) (nlit g 1) then IV ++ [lit g 2; lit g 3; lit g 4; lit g 5]
               else GHASH H [] IV.
Proof. reflexivity. Qed.

(* for i := Len - 1; i >= Len-4; i-- { yii[i] = yii[i] + 0x01; if yii[i] != 0x00 { break } } *)
Lemma addYone_at_source yi :
  let k := nlit gen_lits_incr 2 in
  addYone yi = firstn (List.length yi - k) yi ++ rev (carry_inc (rev (skipn (List.length yi - k) yi))).
Proof. reflexivity. Qed.

Lemma carry_inc_at_source b r :
  carry_inc (b :: r) = let b' := (b + lit gen_lits_incr 5) mod 256 in
                       if N.eqb b' (lit gen_lits_incr 4) then b' :: carry_inc r else b' :: r.
Proof. reflexivity. Qed.

(* MSB: S[:len/8]; t := 128 *)
Lemma MSB_at_source len S :
  MSB len S = if Nat.leb (len / nlit gen_lits_MSB 0) (List.length S) then Ok (firstn (len / nlit gen_lits_MSB 0) S) else Panic.
Proof. reflexivity. Qed.

Lemma tag_length_at_source : nlit gen_lits_GCMEncrypt 42 = 128%nat /\ nlit gen_lits_GCMDecrypt 15 = 128%nat.
Proof. split; reflexivity. Qed.

(* ---------- package-level variables ---------------------------------------------------------------------------- *)
(* the package-level variables the model of sm4.go knows: IV (record pkg), the mutex ivMu that orders SetIV's write
   of IV against the helpers' reads (D51; no effect on values: the helpers use the IV in force at call time, which
   is what the model's pkg record says - the locking itself is C20's subject), and the constant tables
   (Gen/SM4Tables.v) *)
Definition sm4_pkg_vars_expected : list string := ["IV"; "ivMu"; "fk"; "ck"; "sbox"; "sbox0"; "sbox1"; "sbox2"; "sbox3"]%string.

Lemma pkg_vars_at_source :
  gen_pkg_vars_sm4 = sm4_pkg_vars_expected /\
  gen_pkg_vars_sm4_gcm = [].
Proof. split; reflexivity. Qed.

(* ---------- the complete literal sequences ------------------------------------------------------------------------ *)
Lemma lits_block_frozen :
  gen_lits_NewCipher =
  [16] /\
  gen_lits_Sm4Cipher_BlockSize =
  [16] /\
  gen_lits_Sm4Cipher_Decrypt =
  [4; 16] /\
  gen_lits_Sm4Cipher_Encrypt =
  [4; 16] /\
  gen_lits_cryptBlock =
  [3; 0; 8; 31; 4; 3; 31; 4; 3; 4; 1; 2; 3; 3; 0; 0; 255; 8; 255; 16; 255; 24; 255; 0; 2; 3; 2; 1; 1; 255; 8; 255; 16; 255; 24; 255; 0; 1; 3; 1; 2; 2; 255; 8; 255; 16; 255; 24; 255; 1; 2; 0; 0; 3; 3; 255; 8; 255; 16; 255; 24; 255; 0; 8; 4; 4; 4; 1; 2; 3; 0; 0; 0; 255; 8; 255; 16; 255; 24; 255; 0; 2; 3; 1; 1; 1; 255; 8; 255; 16; 255; 24; 255; 0; 1; 3; 2; 2; 2; 255; 8; 255; 16; 255; 24; 255; 1; 2; 0; 3; 3; 3; 255; 8; 255; 16; 255; 24; 255; 0; 1; 2; 3; 3; 2; 1; 0] /\
  gen_lits_feistel0 =
  [] /\
  gen_lits_generateSubKeys =
  [32; 4; 0; 0; 1; 1; 2; 2; 3; 3; 0; 32; 0; 1; 2; 3; 0; 1; 2; 3; 1; 2; 3] /\
  gen_lits_l0 =
  [13; 23] /\
  gen_lits_p =
  [24; 24; 16; 255; 16; 8; 255; 8; 255] /\
  gen_lits_permuteFinalBlock =
  [0; 4; 4; 24; 4; 1; 16; 4; 2; 8; 4; 3] /\
  gen_lits_permuteInitialBlock =
  [0; 4; 4; 24; 4; 1; 16; 4; 2; 8; 4; 3] /\
  gen_lits_rl =
  [32; 32; 32].
Proof. repeat split; reflexivity. Qed.

Lemma lits_modes_frozen :
  gen_lits_SetIV =
  [16] /\
  gen_lits_Sm4CFB =
  [16; 16; 16; 16; 0; 16; 0; 16; 16; 16; 16; 16; 16; 16; 16; 16; 16; 16; 16; 16; 16; 0; 16; 0; 16; 16; 16; 16; 16; 16; 16; 1; 16; 1; 16; 16; 16; 16; 16; 16; 16; 16; 16] /\
  gen_lits_Sm4Cbc =
  [16; 16; 0; 16; 16; 16; 16; 16; 16; 16; 16; 0; 16; 16; 16; 16; 16; 16; 16; 16] /\
  gen_lits_Sm4Ecb =
  [16; 0; 16; 16; 16; 16; 16; 16; 16; 16; 0; 16; 16; 16; 16; 16; 16; 16; 16] /\
  gen_lits_Sm4OFB =
  [16; 16; 16; 16; 16; 0; 16; 0; 16; 16; 16; 16; 16; 16; 16; 16; 16; 16; 16; 16; 16; 16; 16; 16; 0; 16; 0; 16; 16; 16; 16; 16; 16; 16; 16; 16; 16; 16; 16; 16; 16; 16; 16] /\
  gen_lits_pkcs7Padding =
  [16; 16] /\
  gen_lits_pkcs7UnPadding =
  [0; 1; 16; 0; 0] /\
  gen_lits_xor =
  [0].
Proof. repeat split; reflexivity. Qed.

Lemma lits_gcm_frozen :
  gen_lits_GCMDecrypt =
  [0; 0; 1; 8; 0; 0; 16; 8; 0; 0; 1; 8; 1; 0; 16; 128; 16; 16; 16; 1; 1; 1; 1; 16; 16; 16; 1; 16; 1; 16; 16; 1; 16; 1; 16; 16; 16; 16; 16; 1; 16; 1; 16] /\
  gen_lits_GCMEncrypt =
  [0; 0; 1; 8; 0; 0; 16; 8; 0; 0; 1; 8; 1; 0; 16; 16; 16; 1; 1; 16; 1; 1; 16; 16; 16; 1; 16; 1; 16; 16; 1; 16; 1; 16; 16; 16; 16; 16; 1; 16; 1; 16; 128] /\
  gen_lits_GHASH =
  [0; 0; 1; 8; 0; 0; 16; 8; 0; 0; 1; 8; 1; 0; 16; 16; 16; 16; 16; 2; 0; 16; 0; 1; 1; 16; 16; 16; 1; 16; 1; 16; 16; 1; 16; 1; 16; 16; 128; 8; 8; 1; 16; 16; 16; 16; 1; 16; 1; 16; 16; 1; 1; 16; 16; 16; 1; 16; 1; 16; 16; 1; 16; 1; 16; 16; 128; 8; 8; 1; 16; 0; 16; 16; 16; 1; 16; 1; 16; 16; 16; 16; 16; 1; 16; 1; 16; 16; 8; 0; 56; 255; 1; 48; 255; 2; 40; 255; 3; 32; 255; 4; 24; 255; 5; 16; 255; 6; 8; 255; 7; 0; 255; 8; 8; 1; 16; 1; 16; 16; 16; 16; 16; 1; 16; 1; 16; 16] /\
  gen_lits_GetH =
  [16; 16] /\
  gen_lits_GetY0 =
  [8; 96; 0; 0; 0; 1; 0; 16] /\
  gen_lits_MSB =
  [8] /\
  gen_lits_Rightshift =
  [1; 0; 1; 0; 1; 1; 7] /\
  gen_lits_Sm4GCM =
  [16] /\
  gen_lits_addition =
  [0] /\
  gen_lits_findYi =
  [8; 7; 8; 1; 1; 1; 0] /\
  gen_lits_incr =
  [16; 1; 4; 1; 0; 1; 1; 16; 1; 16; 16; 16; 16; 16] /\
  gen_lits_multiplication =
  [16; 0; 225; 16; 16; 0; 127; 1; 16; 1; 1; 0].
Proof. repeat split; reflexivity. Qed.
