(* Associativity of ECAffine.ec_add on the points of a non-singular curve over Z mod p, p a prime above 2^200:
   ec_add satisfies the relation add_rel of SM2/ECAssocAbstract.v (one constructor per branch), Z mod p is a
   field of large characteristic, hence the abstract theorem applies; coordinates of curve points are
   reduced, so "congruent" is "equal".  Instantiated to the SM2 curve at the end: the associativity
   premise of SM2Facts follows from "sm2_p is prime" alone. *)
From Coq Require Import ZArith Znumtheory Lia Setoid Morphisms Bool NsatzTactic.
From GmsmVerif Require Import EC.ECAffine EC.JacFormulas EC.ECAffineProofs EC.SM2Curve SM2.ECAssocField SM2.ECAssocAbstract.
Open Scope Z_scope.

Section Concrete.
  Variable c : curve.
  Notation p := (cp c).
  Hypothesis Hp : prime p.
  Hypothesis Hbig : 2 ^ 200 < p.
  Hypothesis Hdisc : (4 * ca c * ca c * ca c + 27 * cb c * cb c) mod p <> 0.

  Local Existing Instance Fp_ops.
  Local Instance i_ring : @Ring Z 0 1 Z.add Z.mul Z.sub Z.opp (feq p) (Fp_ops p) := Fp_Ring p Hp.
  Local Instance i_cring : @Cring Z 0 1 Z.add Z.mul Z.sub Z.opp (feq p) (Fp_ops p) i_ring := Fp_Cring p Hp.
  Local Instance i_id : @Integral_domain Z 0 1 Z.add Z.mul Z.sub Z.opp (feq p) (Fp_ops p) i_ring i_cring :=
    Fp_Integral_domain p Hp.
  Local Instance i_add : Proper (feq p ==> feq p ==> feq p) Z.add := add_proper p Hp.
  Local Instance i_mul : Proper (feq p ==> feq p ==> feq p) Z.mul := mul_proper p Hp.
  Local Instance i_sub : Proper (feq p ==> feq p ==> feq p) Z.sub := sub_proper p.
  Local Instance i_opp : Proper (feq p ==> feq p) Z.opp := opp_proper p Hp.

  Notation "x == y" := (feq p x y) (at level 70).

  Lemma Hp3 : 3 < p.
  Proof. assert (3 < 2 ^ 200) by reflexivity. lia. Qed.

  (* ---- the two field facts the abstract theorem asks for ---------------------------------------------- *)
  Lemma inv_ex_p : forall x, ~ x == 0 -> exists i, x * i == 1.
  Proof.
    intros x Hx. exists (modinv x p). unfold feq.
    rewrite modinv_correct; [symmetry; apply Z.mod_1_l; lia|exact Hp|].
    intro H0. apply Hx. apply (proj2 (feq_0 p Hp x)). exact H0.
  Qed.

  Lemma IPR_Z : forall q, @IPR Z 0 1 Z.add Z.mul Z.sub Z.opp (feq p) (Fp_ops p) q = Zpos q.
  Proof.
    induction q as [q IH|q IH|]; [| |reflexivity].
    - destruct q as [q'|q'|]; [| |reflexivity];
        change (IPR (R:=Z) (xI ?r)) with (1 + (1 + 1) * IPR (R:=Z) r); rewrite IH; lia.
    - destruct q as [q'|q'|]; [| |reflexivity];
        change (IPR (R:=Z) (xO ?r)) with ((1 + 1) * IPR (R:=Z) r); rewrite IH; lia.
  Qed.

  Lemma Hchar_p : forall k : Z, k <> 0 -> Z.abs k < 2 ^ 200 ->
    ~ @IZR1 Z 0 1 Z.add Z.mul Z.sub Z.opp (feq p) (Fp_ops p) k == 0.
  Proof.
    intros k Hk Hb H. unfold feq in H. rewrite Z.mod_0_l in H by lia.
    destruct k as [|q|q]; [lia| |]; cbn [IZR1] in H; rewrite IPR_Z in H.
    - rewrite Z.mod_small in H by lia. lia.
    - apply Z.mod_divide in H; [|lia]. destruct H as [m Hm]. cbn [Z.abs] in Hb.
      change (- Z.pos q = m * p) in Hm. pose proof (Pos2Z.is_pos q).
      assert (m <= -1 \/ 0 <= m) as [Hm1|Hm1] by lia; nia.
  Qed.

  Lemma Hdisc_p :
    ~ (1 + 1) * (1 + 1) * ca c * ca c * ca c + (1 + 1 + 1) * (1 + 1 + 1) * (1 + 1 + 1) * cb c * cb c == 0.
  Proof.
    intro H. apply Hdisc. apply (proj1 (feq_0 p Hp _)).
    rewrite <- H. unfold feq; f_equal; ring.
  Qed.

  (* ---- ec_add satisfies the relation ------------------------------------------------------------------------ *)
  Notation AR := (@add_rel Z 0 Z.add Z.mul Z.sub (feq p) (ca c)).
  Notation PEQ := (@peq Z (feq p)).

  Lemma peq_refl : forall P, PEQ P P.
  Proof. intros [[x y]|]; cbn; [split; reflexivity|exact I]. Qed.

  Lemma ec_add_rel : forall P Q, point_ok c P = true -> point_ok c Q = true -> AR P Q (ec_add c P Q).
  Proof.
    intros [[x1 y1]|] [[x2 y2]|] HP HQ.
    4:{ apply AR_0l. apply peq_refl. }
    3:{ apply AR_0l. apply peq_refl. }
    2:{ apply AR_0r. apply peq_refl. }
    pose proof HP as HP'. pose proof HQ as HQ'.
    apply (point_ok_some c) in HP'. destruct HP' as (Hx1 & Hy1 & Hc1).
    apply (point_ok_some c) in HQ'. destruct HQ' as (Hx2 & Hy2 & Hc2).
    destruct (Z.eq_dec ((x1 - x2) mod p) 0) as [E|E].
    - assert (Ex : x1 == x2).
      { apply (proj2 (feq_0 p Hp _)) in E. transitivity ((x1 - x2) + x2); [unfold feq; f_equal; ring|].
        rewrite E. unfold feq; f_equal; ring. }
      assert (x1 = x2) by (apply (feq_red c); assumption). subst x2.
      unfold ec_add. rewrite E. cbn [Z.eqb].
      destruct (Z.eqb_spec ((y1 + y2) mod p) 0) as [S|S].
      + apply AR_opp; [reflexivity|]. apply (proj2 (feq_0 p Hp _)). exact S.
      + destruct (same_x_cases c Hp x1 y1 y2 Hc1 Hc2) as [D|D]; [|contradiction].
        assert (y1 = y2) by (apply (feq_red c); assumption). subst y2.
        assert (Hy0 : y1 mod p <> 0).
        { intro H0. apply S. apply (proj2 (double_y_0 c Hp Hp3 y1)). exact H0. }
        rewrite (ec_double_AD c Hp) by exact Hy0.
        assert (Hd : ~ y1 + y1 == 0).
        { intro H0. apply S. apply (proj1 (feq_0 p Hp _)). exact H0. }
        unfold aff_double, c3, c2. cbn [fst snd].
        destruct (inv_ex_p (y1 + y1) Hd) as [i Hi].
        assert (Hl : fdiv p ((1 + 1 + 1) * x1 * x1 + ca c) ((1 + 1) * y1) * (y1 + y1) ==
                     x1 * x1 + x1 * x1 + x1 * x1 + ca c).
        { unfold fdiv. pose proof (Fp_field p Hp) as FT. destruct FT as [_ _ _ Finv].
          assert (Hd2 : ~ (1 + 1) * y1 == 0).
          { intro H0. apply Hd. rewrite <- H0. unfold feq; f_equal; ring. }
          pose proof (Finv _ Hd2) as Hinv. unfold finv in Hinv.
          transitivity (((1 + 1 + 1) * x1 * x1 + ca c) * (modinv ((1 + 1) * y1) p * ((1 + 1) * y1)));
            [unfold feq; f_equal; ring|].
          rewrite Hinv. unfold feq; f_equal; ring. }
        set (l := fdiv p ((1 + 1 + 1) * x1 * x1 + ca c) ((1 + 1) * y1)) in *.
        apply AR_dbl with (l := l); try reflexivity; try assumption.
        * rewrite (mod_feq p Hp). unfold feq; f_equal; ring.
        * rewrite !(mod_feq p Hp). reflexivity.
    - rewrite (ec_add_AA c Hp) by exact E.
      assert (Hne : ~ x1 == x2).
      { intro H0. apply E. apply (proj1 (feq_0 p Hp _)). rewrite H0. unfold feq; f_equal; ring. }
      unfold aff_add. cbn [fst snd].
      assert (Hl : fdiv p (y2 - y1) (x2 - x1) * (x2 - x1) == y2 - y1).
      { unfold fdiv. pose proof (Fp_field p Hp) as FT. destruct FT as [_ _ _ Finv].
        pose proof (Finv _ (sub_swap_neq c Hp _ _ E)) as Hinv. unfold finv in Hinv.
        transitivity ((y2 - y1) * (modinv (x2 - x1) p * (x2 - x1))); [unfold feq; f_equal; ring|].
        rewrite Hinv. unfold feq; f_equal; ring. }
      set (l := fdiv p (y2 - y1) (x2 - x1)) in *.
      apply AR_chord with (l := l); try assumption.
      + apply (mod_feq p Hp).
      + rewrite !(mod_feq p Hp). reflexivity.
  Qed.

  (* ---- associativity ------------------------------------------------------------------------------------------ *)
  Lemma peq_eq : forall P Q, point_ok c P = true -> point_ok c Q = true -> PEQ P Q -> P = Q.
  Proof.
    intros [[x y]|] [[x' y']|] HP HQ H; cbn in H; try contradiction; [|reflexivity].
    apply (point_ok_some c) in HP. destruct HP as (Hx & Hy & _).
    apply (point_ok_some c) in HQ. destruct HQ as (Hx' & Hy' & _). destruct H as [E1 E2].
    f_equal. f_equal; apply (feq_red c); assumption.
  Qed.

  Lemma ok_oc : forall P, point_ok c P = true -> @oc Z Z.add Z.mul (feq p) (ca c) (cb c) P.
  Proof.
    intros [[x y]|] H; cbn; [|exact I]. apply (point_ok_some c) in H. destruct H as (_ & _ & H). exact H.
  Qed.

  Theorem ec_add_assoc : forall P Q R,
    point_ok c P = true -> point_ok c Q = true -> point_ok c R = true ->
    ec_add c (ec_add c P Q) R = ec_add c P (ec_add c Q R).
  Proof.
    intros P Q R HP HQ HR.
    pose proof (ec_add_ok c Hp Hp3 P Q HP HQ) as HS. pose proof (ec_add_ok c Hp Hp3 Q R HQ HR) as HT.
    apply peq_eq; [apply (ec_add_ok c Hp Hp3); assumption|apply (ec_add_ok c Hp Hp3); assumption|].
    apply (@assoc_rel Z 0 1 Z.add Z.mul Z.sub Z.opp (feq p) (Fp_ops p) i_ring i_cring i_id
             inv_ex_p Hchar_p (ca c) (cb c) Hdisc_p P Q R (ec_add c P Q) (ec_add c Q R)).
    - apply ok_oc, HP.
    - apply ok_oc, HQ.
    - apply ok_oc, HR.
    - apply ec_add_rel; assumption.
    - apply ec_add_rel; assumption.
    - apply ec_add_rel; assumption.
    - apply ec_add_rel; assumption.
  Qed.
End Concrete.

(* ---------- the SM2 curve ------------------------------------------------------------------------------------ *)
Theorem sm2_add_assoc_proved :
  prime sm2_p ->
  forall P Q R : point, sm2_valid P = true -> sm2_valid Q = true -> sm2_valid R = true ->
                        sm2_add (sm2_add P Q) R = sm2_add P (sm2_add Q R).
Proof.
  intros Hp. apply (ec_add_assoc sm2_curve Hp).
  - reflexivity.
  - vm_compute. discriminate.
Qed.
