(* A completed key exchange evaluated inside Coq (vm_compute on the model): long-term scalars 1 and 2, ephemeral
   scalars 3 and 4, 16-byte key.  The x~ multiplications are 128-bit and the final ones 256-bit, so this file takes
   minutes; it is compiled once and only referenced by Props/C13.v. *)
From Coq Require Import List NArith ZArith.
From GmsmVerif Require Import Lib.Outcome EC.ECAffine EC.SM2Curve SM3.SM3Spec SM2.SM2Bytes SM2.SM2Spec SM2.DER SM2.SM2Model.
Import ListNotations.
Open Scope Z_scope.

Example kx_completed_exchange :
  let ida := [65; 108; 105; 99; 101]%N in let idb := [66; 111; 98]%N in
  exists K S1 S2,
    KeyExchangeA 16 ida idb (key_of 1) (ScalarBaseMult 2) (key_of 3) (ScalarBaseMult 4) = Ok (K, S1, S2) /\
    KeyExchangeB 16 ida idb (key_of 2) (ScalarBaseMult 1) (key_of 4) (ScalarBaseMult 3) = Ok (K, S1, S2) /\
    length K = 16%nat /\ length S1 = 32%nat /\ length S2 = 32%nat.
Proof.
  cbv zeta. eexists. eexists. eexists. split; [vm_compute; reflexivity|]. split; [vm_compute; reflexivity|].
  vm_compute. repeat split; reflexivity.
Qed.
