(* Model of /repo/sm2/sm2.go, function by function, as the code is now.  No proofs in this file.

   LEVEL: relative to C03.  The methods of the curve object (ScalarBaseMult, ScalarMult, Add,
   IsOnCurve) are modelled by the affine specification EC/SM2Curve.v with the point at infinity
   written (0,0), which is what C03 shows the Jacobian / wNAF / comb code of p256.go to compute;
   a scalar travels as the integer that k.Bytes() / SetBytes round-trips.  Params().N, P, a, B, Gx, Gy
   are the constants of GM/T 0003.5 (C03 ties them to the source).

   Go objects:
     *big.Int                 -> Z (non-negative in every caller; x.Bytes() = [be_bytes x])
     PublicKey{X,Y}           -> Z * Z;  PrivateKey{PublicKey,D} -> [priv]
     io.Reader (randomness)   -> the list of bytes it will deliver; io.ReadFull(r, b) takes len b
                                 bytes or fails; every function returns the unread remainder
     unbounded "for {...}"    -> fuel; [Hang] when it runs out
   Error classes (Err e): 1 uid too large, 2 random reader failed, 3 empty plaintext,
     4 ciphertext too short, 5 C1 not on the curve, 6 KDF output all zero, 7 C3 mismatch,
     8 ASN.1 / marshalling error, 9 peer ephemeral not on the curve, 10 V is infinite,
     11 C1 not an uncompressed point, 12 coordinates (of C1 / of the peer ephemeral) not field elements.
   Functions keep their Go names. *)
From Coq Require Import List NArith ZArith Bool Arith.
From GmsmVerif Require Import Lib.Outcome EC.ECAffine EC.SM2Curve SM3.SM3Spec SM2.SM2Bytes SM2.DER.
Import ListNotations.
Open Scope Z_scope.

(* ---------- the curve object (relative to C03) ---------------------------------------------------- *)
Definition pubkey := (Z * Z)%type.
Record priv := mkPriv { D : Z; Pub : pubkey }.

Definition go_decode (P : Z * Z) : point := decode_point (fst P) (snd P).

(* sm2P256GetScalar reduces scalars that are not below N *)
Definition ScalarBaseMult (k : Z) : Z * Z :=
  encode_point (sm2_base_mul (if sm2_n <=? k then k mod sm2_n else k)).
Definition ScalarMult (P : Z * Z) (k : Z) : Z * Z := encode_point (sm2_mul k (go_decode P)).
Definition Add (P Q : Z * Z) : Z * Z := encode_point (sm2_add (go_decode P) (go_decode Q)).
Definition IsOnCurve (P : Z * Z) : bool := sm2_on_curve (fst P) (snd P).

(* PrivateKey with the public key ScalarBaseMult(D) (what GenerateKey and the key readers build) *)
Definition key_of (d : Z) : priv := mkPriv d (ScalarBaseMult d).

Definition default_uid : list byte :=
  [0x31; 0x32; 0x33; 0x34; 0x35; 0x36; 0x37; 0x38; 0x31; 0x32; 0x33; 0x34; 0x35; 0x36; 0x37; 0x38]%N.

(* ---------- randomness ------------------------------------------------------------------------------- *)
Definition read_full (rho : list byte) (n : nat) : outcome (list byte * list byte) :=
  if (length rho <? n)%nat then Err 2 else Ok (firstn n rho, skipn n rho).

(* func randFieldElement(c, random): b := make([]byte, BitSize/8+8); k = SetBytes(b) mod (N-1) + 1 *)
Definition randFieldElement (rho : list byte) : outcome (Z * list byte) :=
  do '(b, rho') <- read_full rho 40;
  Ok (os2ip b mod (sm2_n - 1) + 1, rho').

(* func GenerateKey(random): k = SetBytes(b) mod (N-2) + 1 *)
Definition GenerateKey (rho : list byte) : outcome (priv * list byte) :=
  do '(b, rho') <- read_full rho 40;
  Ok (key_of (os2ip b mod (sm2_n - 2) + 1), rho').

(* ---------- ZA, e ----------------------------------------------------------------------------------- *)
(* func ZA(pub, uid) ([]byte, error) *)
Definition ZA (pub : pubkey) (uid : list byte) : outcome (list byte) :=
  let uidLen := Z.of_nat (length uid) in
  if 8192 <=? uidLen then Err 1
  else
    let Entla := (8 * uidLen) mod 65536 in
    Ok (sm3 ([Z.to_N ((Entla / 256) mod 256)] ++ [Z.to_N (Entla mod 256)] ++ uid
             ++ be_bytes sm2_a ++ be_bytes sm2_b ++ be_bytes sm2_Gx ++ be_bytes sm2_Gy
             ++ pad32 (be_bytes (fst pub)) ++ pad32 (be_bytes (snd pub)))).

(* func msgHash(za, msg) (big.Int, error) *)
Definition msgHash (za msg : list byte) : Z := os2ip (firstn 32 (sm3 (za ++ msg))).

(* func (pub *PublicKey) Sm3Digest(msg, uid) ([]byte, error): note e.Bytes(), not 32 bytes *)
Definition Sm3Digest (pub : pubkey) (msg uid : list byte) : outcome (list byte) :=
  let uid := match uid with [] => default_uid | _ => uid end in
  do za <- ZA pub uid;
  Ok (be_bytes (msgHash za msg)).

(* ---------- signature -------------------------------------------------------------------------------- *)
(* the two nested loops of Sm2Sign, one pass per nonce: the inner loop repeats while r = 0 or
   r + k = N, the outer one while s = 0.  new(big.Int).ModInverse(d1, N) is nil when d1 has no
   inverse and s.Mul(s, nil) then dereferences it. *)
Fixpoint sign_loop (fuel : nat) (d e : Z) (rho : list byte) : outcome (Z * Z * list byte) :=
  match fuel with
  | O => Hang
  | S fuel' =>
    do '(k, rho') <- randFieldElement rho;
    let r := (fst (ScalarBaseMult k) + e) mod sm2_n in
    if ((r =? 0) || (r + k =? sm2_n))%bool then sign_loop fuel' d e rho'
    else
      let rD := d * r in
      let s := k - rD in
      let d1 := d + 1 in
      if negb (Z.gcd d1 sm2_n =? 1) then Panic
      else
        let d1Inv := modinv d1 sm2_n in
        let s := (s * d1Inv) mod sm2_n in
        if s =? 0 then sign_loop fuel' d e rho' else Ok (r, s, rho')
  end.

(* func Sm2Sign(priv, msg, uid, random) (r, s, err) *)
Definition Sm2Sign (fuel : nat) (pr : priv) (msg uid rho : list byte) : outcome (Z * Z * list byte) :=
  do digest <- Sm3Digest (Pub pr) msg uid;
  let e := os2ip digest in
  sign_loop fuel (D pr) e rho.

(* func (priv *PrivateKey) Sign(random, msg, opts) ([]byte, error) *)
Definition Sign (fuel : nat) (pr : priv) (rho msg : list byte) : outcome (list byte * list byte) :=
  do '(r, s, rho') <- Sm2Sign fuel pr msg [] rho;
  Ok (sig_encode r s, rho').

(* the part Sm2Verify and Verify share, from "t := r + s" on *)
Definition verify_core (pub : pubkey) (e r s : Z) : bool :=
  let t := (r + s) mod sm2_n in
  if t =? 0 then false
  else
    let P1 := ScalarBaseMult s in
    let P2 := ScalarMult pub t in
    let x := fst (Add P1 P2) in
    ((x + e) mod sm2_n =? r).

(* func Sm2Verify(pub, msg, uid, r, s) bool *)
Definition Sm2Verify (pub : pubkey) (msg uid : list byte) (r s : Z) : bool :=
  if ((r <? 1) || (s <? 1))%bool then false
  else if ((sm2_n <=? r) || (sm2_n <=? s))%bool then false
  else
    let uid := match uid with [] => default_uid | _ => uid end in
    match ZA pub uid with
    | Ok za => verify_core pub (msgHash za msg) r s
    | _ => false
    end.

(* func Verify(pub, hash, r, s) bool: the caller supplies e as bytes *)
Definition Verify (pub : pubkey) (hash : list byte) (r s : Z) : bool :=
  if ((r <=? 0) || (s <=? 0))%bool then false
  else if ((sm2_n <=? r) || (sm2_n <=? s))%bool then false
  else verify_core pub (os2ip hash) r s.

(* func (pub *PublicKey) Verify(msg, sig) bool *)
Definition PublicKey_Verify (pub : pubkey) (msg sig : list byte) : bool :=
  match sig_decode sig with
  | Some (r, s) => Sm2Verify pub msg default_uid r s
  | None => false
  end.

(* ---------- KDF --------------------------------------------------------------------------------------- *)
Definition intToBytes (x : nat) : list byte := i2osp 4 (Z.of_nat x).

(* the loop "for i, j := 0, (length+31)/32; i < j; i++" with rem = j - i blocks still to produce *)
Fixpoint kdf_loop (z : list byte) (length : nat) (rem ct : nat) : list byte :=
  match rem with
  | O => []
  | S rem' =>
    let hash := sm3 (z ++ intToBytes ct) in
    (if ((rem' =? 0)%nat && negb (length mod 32 =? 0)%nat)%bool then firstn (length mod 32) hash else hash)
      ++ kdf_loop z length rem' (S ct)
  end.

(* func kdf(length int, x ...[]byte) ([]byte, bool); z is the concatenation of the x *)
Definition kdf (length : nat) (z : list byte) : list byte * bool :=
  let c := kdf_loop z length ((length + 31) / 32) 1 in
  (c, negb (all_zero (firstn length c))).

(* ---------- encryption -------------------------------------------------------------------------------- *)
Definition coord32 (x : Z) : list byte := pad32 (be_bytes x).   (* also keCoordBytes *)

(* one pass of the "for {...}" of Encrypt per nonce; mode is the Go int (0 = C1C3C2, 1 = C1C2C3) *)
Fixpoint encrypt_loop (fuel : nat) (pub : pubkey) (data rho : list byte) (mode : Z)
  : outcome (list byte * list byte) :=
  match fuel with
  | O => Hang
  | S fuel' =>
    do '(k, rho') <- randFieldElement rho;
    let '(x1, y1) := ScalarBaseMult k in
    let '(x2, y2) := ScalarMult pub k in
    let x1Buf := coord32 x1 in
    let y1Buf := coord32 y1 in
    let x2Buf := coord32 x2 in
    let y2Buf := coord32 y2 in
    let c := x1Buf ++ y1Buf in
    let h := sm3 (x2Buf ++ data ++ y2Buf) in
    let c := c ++ h in
    let '(ct, ok) := kdf (length data) (x2Buf ++ y2Buf) in
    if negb ok then encrypt_loop fuel' pub data rho' mode
    else
      let c := c ++ xor_bytes ct data in
      if mode =? 1 then
        let c1 := slice c 0 64 in
        let c3 := slice c 64 96 in
        let c2 := skipn 96 c in
        Ok (4%N :: c1 ++ c2 ++ c3, rho')
      else Ok (4%N :: c, rho')
  end.

(* func Encrypt(pub, data, random, mode) ([]byte, error) *)
Definition Encrypt (fuel : nat) (pub : pubkey) (data rho : list byte) (mode : Z)
  : outcome (list byte * list byte) :=
  match data with
  | [] => Err 3
  | _ => encrypt_loop fuel pub data rho mode
  end.

(* func Decrypt(priv, data, mode) ([]byte, error).  On a C3 mismatch the Go function returns the
   unauthenticated bytes together with the error; the projection keeps "error". *)
Definition Decrypt (pr : priv) (data : list byte) (mode : Z) : outcome (list byte) :=
  if (length data <? 1 + 64 + 32 + 1)%nat then Err 4
  else if negb (hd 0%N data =? 4)%N then Err 11
  else
    let data1 := skipn 1 data in
    let data :=
      if mode =? 1 then
        let n := length data1 in
        let c1 := slice data1 0 64 in
        let c2 := slice data1 64 (n - 32) in
        let c3 := skipn (n - 32) data1 in
        c1 ++ c3 ++ c2
      else data1 in
    let length_ := (length data - 96)%nat in
    let x := os2ip (slice data 0 32) in
    let y := os2ip (slice data 32 64) in
    if negb (IsOnCurve (x, y)) then Err 5
    else if ((sm2_p <=? x) || (sm2_p <=? y))%bool then Err 12
    else
      let '(x2, y2) := ScalarMult (x, y) (D pr) in
      let x2Buf := coord32 x2 in
      let y2Buf := coord32 y2 in
      let '(c, ok) := kdf length_ (x2Buf ++ y2Buf) in
      if negb ok then Err 6
      else
        let c := xor_bytes c (skipn 96 data) in
        let h := sm3 (x2Buf ++ c ++ y2Buf) in
        if negb (list_eqb h (slice data 64 96)) then Err 7 else Ok c.

(* func CipherMarshal(data) ([]byte, error) *)
Definition CipherMarshal (data : list byte) : outcome (list byte) :=
  if (length data <? 1 + 64 + 32)%nat then Err 8
  else
    let data := skipn 1 data in
    let x := os2ip (slice data 0 32) in
    let y := os2ip (slice data 32 64) in
    Ok (asn1_marshal_cipher x y (slice data 64 96) (skipn 96 data)).

(* func CipherUnmarshal(data) ([]byte, error) *)
Definition CipherUnmarshal (data : list byte) : outcome (list byte) :=
  match asn1_unmarshal_cipher data with
  | None => Err 8
  | Some (xc, yc, hash, cipherText) =>
    let x := be_bytes xc in
    let y := be_bytes yc in
    if ((xc <? 0) || (yc <? 0) || (32 <? length x)%nat || (32 <? length y)%nat
        || negb (length hash =? 32)%nat)%bool then Err 8
    else Ok (4%N :: pad32 x ++ pad32 y ++ hash ++ cipherText)
  end.

(* func EncryptAsn1(pub, data, rand) *)
Definition EncryptAsn1 (fuel : nat) (pub : pubkey) (data rho : list byte) : outcome (list byte * list byte) :=
  do '(cipher, rho') <- Encrypt fuel pub data rho 0;
  do der <- CipherMarshal cipher;
  Ok (der, rho').

(* func DecryptAsn1(priv, data) *)
Definition DecryptAsn1 (pr : priv) (data : list byte) : outcome (list byte) :=
  do cipher <- CipherUnmarshal data;
  Decrypt pr cipher 0.

(* func (priv *PrivateKey) Decrypt(_, msg, _) *)
Definition PrivateKey_Decrypt (pr : priv) (msg : list byte) : outcome (list byte) := Decrypt pr msg 0.

(* ---------- key exchange ------------------------------------------------------------------------------ *)
(* func keXHat(x): zero all but the last 16 bytes of x.Bytes(), clear the top bit of the 16th byte
   from the end when there is one, add 2^127 *)
Definition keXHat (x : Z) : Z :=
  let buf := be_bytes x in
  let n := length buf in
  let lo := skipn (n - 16) buf in
  let lo := if (16 <=? n)%nat then match lo with c :: t => N.land c 0x7f :: t | [] => [] end else lo in
  os2ip (repeat 0%N (n - 16) ++ lo) + 2 ^ 127.

Definition keCoordBytes (x : Z) : list byte := coord32 x.

(* func keyExchange(klen, ida, idb, pri, pub, rpri, rpub, thisISA) (k, s1, s2, err) *)
Definition keyExchange (klen : Z) (ida idb : list byte) (pri : priv) (pub : pubkey)
           (rpri : priv) (rpub : pubkey) (thisISA : bool)
  : outcome (list byte * list byte * list byte) :=
  let x2hat := keXHat (fst (Pub rpri)) in
  let x2rb := x2hat * D rpri in
  let tbt := D pri + x2rb in
  let tb := tbt mod sm2_n in
  if negb (IsOnCurve rpub) then Err 9
  else if ((sm2_p <=? fst rpub) || (sm2_p <=? snd rpub))%bool then Err 12
  else
    let x1hat := keXHat (fst rpub) in
    let ram := ScalarMult rpub x1hat in
    let vt := Add pub ram in
    let '(vx, vy) := ScalarMult vt tb in
    let pza := if thisISA then Pub pri else pub in
    do za <- ZA pza ida;
    if ((vx =? 0) && (vy =? 0))%bool then Err 10
    else
      let pzb := if thisISA then pub else Pub pri in
      do zb <- ZA pzb idb;
      let vxBuf := keCoordBytes vx in
      let vyBuf := keCoordBytes vy in
      let '(k, ok) := kdf (Z.to_nat klen) (vxBuf ++ vyBuf ++ za ++ zb) in
      if negb ok then Err 6
      else
        let own := keCoordBytes (fst (Pub rpri)) ++ keCoordBytes (snd (Pub rpri)) in
        let peer := keCoordBytes (fst rpub) ++ keCoordBytes (snd rpub) in
        let h1 := if thisISA then vxBuf ++ za ++ zb ++ own ++ peer else vxBuf ++ za ++ zb ++ peer ++ own in
        let hash := sm3 h1 in
        let S1 := sm3 (2%N :: vyBuf ++ hash) in
        let S2 := sm3 (3%N :: vyBuf ++ hash) in
        Ok (k, S1, S2).

Definition KeyExchangeA klen ida idb priA pubB rpri rpubB := keyExchange klen ida idb priA pubB rpri rpubB true.
Definition KeyExchangeB klen ida idb priB pubA rpri rpubA := keyExchange klen ida idb priB pubA rpri rpubA false.
