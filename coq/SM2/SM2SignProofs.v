(* Lemmas for C01 that need no group law: the signing loop computes the standard's signature for the
   first admissible nonce; the verifiers accept exactly the standard's relation; ZA; stream positions. *)
From Coq Require Import List NArith ZArith Bool Lia Arith.
From GmsmVerif Require Import Lib.Outcome EC.ECAffine EC.SM2Curve SM3.SM3Spec
     SM2.SM2Bytes SM2.SM2BytesProofs SM2.SM2Spec SM2.DER SM2.SM2Model.
Import ListNotations.
Open Scope Z_scope.

(* ---------- SM3 output length --------------------------------------------------------------------------- *)
Lemma sm3_cf_length V B : length V = 8%nat -> length (sm3_cf V B) = 8%nat.
Proof.
  intros H. destruct V as [|a [|b [|c [|d [|e [|f [|g [|h [|]]]]]]]]]; try discriminate.
  unfold sm3_cf. destruct (fold_left _ _ _) as [[[[[[[A1 B1] C1] D1] E1] F1] G1] H1]. reflexivity.
Qed.

Lemma sm3_blocks_length fuel : forall V m, length V = 8%nat -> length (sm3_blocks fuel V m) = 8%nat.
Proof.
  induction fuel as [|x fuel IH]; intros V m H; cbn [sm3_blocks]; [assumption|].
  destruct (length (firstn 64 m) =? 64)%nat; [|assumption]. apply IH, sm3_cf_length, H.
Qed.

Lemma bytes_of_words_length ws : length (bytes_of_words ws) = (4 * length ws)%nat.
Proof. unfold bytes_of_words. induction ws; cbn [flat_map length]; [reflexivity|]. rewrite app_length, IHws. cbn. lia. Qed.

Lemma sm3_length m : length (sm3 m) = 32%nat.
Proof.
  unfold sm3, sm3_absorb. rewrite bytes_of_words_length, sm3_blocks_length; reflexivity.
Qed.

Lemma firstn32_sm3 m : firstn 32 (sm3 m) = sm3 m.
Proof. apply firstn_all2. rewrite sm3_length. lia. Qed.

Global Opaque sm3.

(* ---------- constants ------------------------------------------------------------------------------------- *)
Lemma n_pos : 2 < sm2_n.
Proof. reflexivity. Qed.

Lemma n_lt_2_256 : sm2_n < 2 ^ 256.
Proof. reflexivity. Qed.

(* ---------- randFieldElement and the stream ------------------------------------------------------------- *)
Lemma nonce_range rho i : 1 <= nonce_at rho i < sm2_n.
Proof.
  unfold nonce_at. pose proof n_pos.
  pose proof (Z.mod_pos_bound (os2ip (firstn 40 (skipn (40 * i) rho))) (sm2_n - 1)). lia.
Qed.

Lemma randFieldElement_ok rho : (40 <= length rho)%nat ->
  randFieldElement rho = Ok (nonce_at rho 0, skipn 40 rho).
Proof.
  intros H. unfold randFieldElement, read_full, nonce_at.
  destruct (Nat.ltb_spec (length rho) 40); [lia|]. reflexivity.
Qed.

Lemma randFieldElement_short rho : (length rho < 40)%nat -> randFieldElement rho = Err 2.
Proof.
  intros H. unfold randFieldElement, read_full. destruct (Nat.ltb_spec (length rho) 40); [reflexivity|lia].
Qed.

Lemma nonce_at_skip rho i : nonce_at (skipn 40 rho) i = nonce_at rho (S i).
Proof.
  unfold nonce_at. rewrite skipn_skipn. replace (40 * i + 40)%nat with (40 * S i)%nat by lia. reflexivity.
Qed.

Lemma nonce_at_offset rho i j : nonce_at (skipn (40 * i) rho) j = nonce_at rho (i + j).
Proof.
  unfold nonce_at. rewrite skipn_skipn. replace (40 * j + 40 * i)%nat with (40 * (i + j))%nat by lia. reflexivity.
Qed.

Lemma skipn_length_div (rho : list byte) : (40 <= length rho)%nat -> (length (skipn 40 rho) / 40 = length rho / 40 - 1)%nat.
Proof.
  intros H. rewrite skipn_length.
  replace (length rho) with ((length rho - 40) + 1 * 40)%nat at 2 by lia.
  rewrite Nat.div_add by lia. lia.
Qed.

(* a nonce depends on its own 40 stream positions only *)
Lemma nonce_at_depends rho rho' i :
  firstn 40 (skipn (40 * i) rho) = firstn 40 (skipn (40 * i) rho') -> nonce_at rho i = nonce_at rho' i.
Proof. intros H. unfold nonce_at. rewrite H. reflexivity. Qed.

(* ---------- one pass of the signing loop = steps A4-A6 ------------------------------------------------ *)
Lemma ScalarBaseMult_small k : 0 <= k < sm2_n -> ScalarBaseMult k = encode_point (sm2_base_mul k).
Proof. intros H. unfold ScalarBaseMult. destruct (Z.leb_spec sm2_n k); [lia|reflexivity]. Qed.

Lemma sign_loop_step fuel d e rho :
  Z.gcd (d + 1) sm2_n = 1 -> (40 <= length rho)%nat ->
  sign_loop (S fuel) d e rho =
  match sign_with_nonce d e (nonce_at rho 0) with
  | Some (r, s) => Ok (r, s, skipn 40 rho)
  | None => sign_loop fuel d e (skipn 40 rho)
  end.
Proof.
  intros Hg Hlen. cbn [sign_loop]. rewrite (randFieldElement_ok rho Hlen). cbn [obind].
  pose proof (nonce_range rho 0) as Hk. set (k := nonce_at rho 0) in *.
  rewrite ScalarBaseMult_small by lia. unfold sign_with_nonce, x_of.
  replace (fst (encode_point (sm2_base_mul k)) + e) with (e + fst (encode_point (sm2_base_mul k))) by lia.
  set (r := (e + fst (encode_point (sm2_base_mul k))) mod sm2_n).
  destruct ((r =? 0) || (r + k =? sm2_n))%bool; [reflexivity|].
  rewrite Hg. cbn [Z.eqb negb Pos.eqb].
  replace (1 + d) with (d + 1) by lia.
  replace ((k - d * r) * modinv (d + 1) sm2_n) with (modinv (d + 1) sm2_n * (k - r * d)) by ring.
  destruct (_ mod sm2_n =? 0); reflexivity.
Qed.

Lemma sign_loop_search d e rho0 : Z.gcd (d + 1) sm2_n = 1 ->
  forall m fuel i0,
    (length (skipn (40 * i0) rho0) / 40 = m)%nat -> (m < fuel)%nat ->
    sign_loop fuel d e (skipn (40 * i0) rho0) =
    match sign_search d e rho0 i0 m with
    | Some (i, (r, s)) => Ok (r, s, skipn (40 * S i) rho0)
    | None => Err 2
    end.
Proof.
  intros Hg. induction m as [|m IH]; intros fuel i0 Hm Hf.
  - destruct fuel as [|fuel]; [lia|]. cbn [sign_loop sign_search].
    rewrite randFieldElement_short; [reflexivity|].
    apply Nat.div_small_iff in Hm; lia.
  - destruct fuel as [|fuel]; [lia|].
    assert (Hlen : (40 <= length (skipn (40 * i0) rho0))%nat).
    { destruct (Nat.le_gt_cases 40 (length (skipn (40 * i0) rho0))); [assumption|].
      rewrite Nat.div_small in Hm by lia. discriminate. }
    rewrite sign_loop_step by assumption. cbn [sign_search].
    rewrite nonce_at_offset, Nat.add_0_r.
    destruct (sign_with_nonce d e (nonce_at rho0 i0)) as [[r s]|].
    + rewrite skipn_skipn. replace (40 + 40 * i0)%nat with (40 * S i0)%nat by lia. reflexivity.
    + rewrite skipn_skipn. replace (40 + 40 * i0)%nat with (40 * S i0)%nat by lia.
      apply IH; [|lia].
      replace (40 * S i0)%nat with (40 + 40 * i0)%nat by lia. rewrite <- skipn_skipn.
      rewrite skipn_length_div by assumption. lia.
Qed.

Lemma sign_loop_is_spec d e rho fuel :
  Z.gcd (d + 1) sm2_n = 1 -> (length rho / 40 < fuel)%nat ->
  sign_loop fuel d e rho =
  match sign_spec d e rho with
  | Some (i, (r, s)) => Ok (r, s, skipn (40 * S i) rho)
  | None => Err 2
  end.
Proof.
  intros Hg Hf. unfold sign_spec.
  exact (sign_loop_search d e rho Hg (length rho / 40)%nat fuel 0%nat eq_refl Hf).
Qed.

(* what sign_search returns: the first index whose nonce passes *)
Lemma sign_search_some d e rho : forall m i0 i rs,
  sign_search d e rho i0 m = Some (i, rs) <->
  (i0 <= i < i0 + m)%nat /\ sign_with_nonce d e (nonce_at rho i) = Some rs /\
  (forall j, (i0 <= j < i)%nat -> sign_with_nonce d e (nonce_at rho j) = None).
Proof.
  induction m as [|m IH]; intros i0 i rs; cbn [sign_search].
  - split; [discriminate|]. intros [H _]. lia.
  - destruct (sign_with_nonce d e (nonce_at rho i0)) as [rs0|] eqn:E.
    + split.
      * intros [= <- <-]. split; [lia|]. split; [assumption|]. intros j Hj. lia.
      * intros (Hi & Hs & Hn). destruct (Nat.eq_dec i i0) as [->|Hne].
        -- rewrite E in Hs. injection Hs as <-. reflexivity.
        -- rewrite (Hn i0) in E by lia. discriminate.
    + rewrite IH. split.
      * intros (Hi & Hs & Hn). split; [lia|]. split; [assumption|]. intros j Hj.
        destruct (Nat.eq_dec j i0) as [->|]; [assumption|]. apply Hn. lia.
      * intros (Hi & Hs & Hn). assert (i <> i0) by (intros ->; rewrite E in Hs; discriminate).
        split; [lia|]. split; [assumption|]. intros j Hj. apply Hn. lia.
Qed.

Lemma sign_search_none d e rho : forall m i0,
  sign_search d e rho i0 m = None <->
  (forall j, (i0 <= j < i0 + m)%nat -> sign_with_nonce d e (nonce_at rho j) = None).
Proof.
  induction m as [|m IH]; intros i0; cbn [sign_search].
  - split; [intros _ j Hj; lia|reflexivity].
  - destruct (sign_with_nonce d e (nonce_at rho i0)) as [rs0|] eqn:E.
    + split; [discriminate|]. intros H. rewrite (H i0) in E by lia. discriminate.
    + rewrite IH. split; intros H j Hj.
      * destruct (Nat.eq_dec j i0) as [->|]; [assumption|]. apply H. lia.
      * apply H. lia.
Qed.

(* the values a successful pass returns are in range *)
Lemma sign_with_nonce_range d e k r s :
  sign_with_nonce d e k = Some (r, s) -> 1 <= r < sm2_n /\ 1 <= s < sm2_n /\ r + k <> sm2_n.
Proof.
  unfold sign_with_nonce. pose proof n_pos.
  set (r0 := (e + x_of (sm2_base_mul k)) mod sm2_n).
  destruct (Z.eqb_spec r0 0); [discriminate|]. destruct (Z.eqb_spec (r0 + k) sm2_n); [discriminate|].
  cbn [orb]. set (s0 := _ mod sm2_n). destruct (Z.eqb_spec s0 0); [discriminate|].
  intros [= <- <-]. pose proof (Z.mod_pos_bound (e + x_of (sm2_base_mul k)) sm2_n).
  pose proof (Z.mod_pos_bound (modinv (1 + d) sm2_n * (k - r0 * d)) sm2_n). fold r0 in H0. fold s0 in H1. lia.
Qed.

(* ---------- verification ---------------------------------------------------------------------------------- *)
(* the Go API cannot tell the pair (0,0) from the point at infinity *)
Definition api_point (P : point) : point := decode_point (x_of P) (y_of P).

Lemma go_decode_encode P : go_decode (encode_point P) = api_point P.
Proof. reflexivity. Qed.

Lemma api_point_id P : P <> Some (0, 0) -> api_point P = P.
Proof.
  destruct P as [[x y]|]; [|reflexivity]. intros H. unfold api_point, x_of, y_of, decode_point. cbn.
  destruct (Z.eqb_spec x 0); destruct (Z.eqb_spec y 0); cbn; try reflexivity. subst. congruence.
Qed.

(* the relation the Go verifiers decide, with API points *)
Definition verify_api (pub : Z * Z) (e r s : Z) : Prop :=
  1 <= r < sm2_n /\ 1 <= s < sm2_n /\ (r + s) mod sm2_n <> 0 /\
  (e + x_of (sm2_add (api_point (sm2_base_mul s)) (api_point (sm2_mul ((r + s) mod sm2_n) (go_decode pub)))))
    mod sm2_n = r.

Lemma verify_core_iff pub e r s : 1 <= s < sm2_n ->
  verify_core pub e r s = true <->
  (r + s) mod sm2_n <> 0 /\
  (e + x_of (sm2_add (api_point (sm2_base_mul s)) (api_point (sm2_mul ((r + s) mod sm2_n) (go_decode pub)))))
    mod sm2_n = r.
Proof.
  intros Hs. unfold verify_core. destruct (Z.eqb_spec ((r + s) mod sm2_n) 0) as [E|E].
  - split; [discriminate|]. intros [H _]. contradiction.
  - rewrite ScalarBaseMult_small by lia. unfold Add, ScalarMult. rewrite !go_decode_encode.
    unfold x_of. rewrite Z.eqb_eq. rewrite (Z.add_comm _ e). tauto.
Qed.

Lemma Verify_iff pub hash r s : Verify pub hash r s = true <-> verify_api pub (os2ip hash) r s.
Proof.
  unfold Verify, verify_api.
  destruct (Z.leb_spec r 0); destruct (Z.leb_spec s 0); cbn [orb]; try (split; [discriminate|lia]).
  destruct (Z.leb_spec sm2_n r); destruct (Z.leb_spec sm2_n s); cbn [orb]; try (split; [discriminate|lia]).
  rewrite verify_core_iff by lia. intuition lia.
Qed.

Definition uid_or_default (uid : list byte) : list byte := match uid with [] => default_uid | _ => uid end.

Lemma Sm2Verify_iff pub msg uid r s :
  Sm2Verify pub msg uid r s = true <->
  exists za, ZA pub (uid_or_default uid) = Ok za /\ verify_api pub (msgHash za msg) r s.
Proof.
  unfold Sm2Verify, verify_api. fold (uid_or_default uid).
  destruct (Z.ltb_spec r 1); destruct (Z.ltb_spec s 1); cbn [orb];
    try (split; [discriminate|intros (za & _ & Hr & Hs & _); lia]).
  destruct (Z.leb_spec sm2_n r); destruct (Z.leb_spec sm2_n s); cbn [orb];
    try (split; [discriminate|intros (za & _ & Hr & Hs & _); lia]).
  destruct (ZA pub (uid_or_default uid)) as [za| | |].
  - rewrite verify_core_iff by lia. split.
    + intros Hc. exists za. split; [reflexivity|]. intuition lia.
    + intros (za' & [= <-] & Hc). intuition lia.
  - split; [discriminate|]. intros (za & Hc & _). discriminate.
  - split; [discriminate|]. intros (za & Hc & _). discriminate.
  - split; [discriminate|]. intros (za & Hc & _). discriminate.
Qed.

(* two digests accepted with the same key and the same (r, s) are congruent mod n *)
Lemma verify_api_same_e pub e e' r s :
  verify_api pub e r s -> verify_api pub e' r s -> e mod sm2_n = e' mod sm2_n.
Proof.
  unfold verify_api. intros (_ & _ & _ & H) (_ & _ & _ & H').
  set (x := x_of _) in *. pose proof n_pos.
  assert (E : (e + x) mod sm2_n = (e' + x) mod sm2_n) by congruence.
  rewrite <- (Z.add_0_r e), <- (Z.add_0_r e').
  replace 0 with (x - x) by lia. rewrite !Z.add_sub_assoc.
  rewrite <- (Zminus_mod_idemp_l (e + x)), <- (Zminus_mod_idemp_l (e' + x)). rewrite E. reflexivity.
Qed.

(* ---------- ZA ---------------------------------------------------------------------------------------------- *)
Lemma be_bytes_a : be_bytes sm2_a = fe_bytes sm2_a. Proof. vm_compute. reflexivity. Qed.
Lemma be_bytes_b : be_bytes sm2_b = fe_bytes sm2_b. Proof. vm_compute. reflexivity. Qed.
Lemma be_bytes_gx : be_bytes sm2_Gx = fe_bytes sm2_Gx. Proof. vm_compute. reflexivity. Qed.
Lemma be_bytes_gy : be_bytes sm2_Gy = fe_bytes sm2_Gy. Proof. vm_compute. reflexivity. Qed.

Lemma coord32_fe x : 0 <= x < 2 ^ 256 -> coord32 x = fe_bytes x.
Proof. intros H. unfold coord32, fe_bytes. apply pad32_be_bytes, H. Qed.

Lemma ZA_is_spec pub uid :
  Z.of_nat (length uid) < 8192 -> 0 <= fst pub < 2 ^ 256 -> 0 <= snd pub < 2 ^ 256 ->
  ZA pub uid = Ok (za_spec pub uid).
Proof.
  intros Hu Hx Hy. unfold ZA, za_spec, entl.
  destruct (Z.leb_spec 8192 (Z.of_nat (length uid))); [lia|].
  rewrite be_bytes_a, be_bytes_b, be_bytes_gx, be_bytes_gy.
  rewrite !pad32_be_bytes by assumption. fold (fe_bytes (fst pub)) (fe_bytes (snd pub)).
  set (L := Z.of_nat (length uid)) in *.
  rewrite (Z.mod_small (8 * L) 65536) by lia.
  cbn [i2osp app]. reflexivity.
Qed.

Lemma ZA_too_long pub uid : 8192 <= Z.of_nat (length uid) -> ZA pub uid = Err 1.
Proof. intros H. unfold ZA. destruct (Z.leb_spec 8192 (Z.of_nat (length uid))); [reflexivity|lia]. Qed.

Lemma msgHash_is_spec pub uid msg :
  Z.of_nat (length uid) < 8192 -> 0 <= fst pub < 2 ^ 256 -> 0 <= snd pub < 2 ^ 256 ->
  ZA pub uid = Ok (za_spec pub uid) /\ msgHash (za_spec pub uid) msg = e_spec pub uid msg.
Proof.
  intros. split; [apply ZA_is_spec; assumption|]. unfold msgHash, e_spec. rewrite firstn32_sm3. reflexivity.
Qed.

Lemma sm3_ok_bound m : bytes_ok (sm3 m) -> 0 <= os2ip (sm3 m) < 2 ^ 256.
Proof.
  intros H. pose proof (os2ip_bound _ H) as Hb. rewrite sm3_length in Hb.
  change (256 ^ Z.of_nat 32) with (2 ^ 256) in Hb. exact Hb.
Qed.

(* ---------- the complete functions --------------------------------------------------------------------- *)
Lemma Sm3Digest_is_spec pub msg uid :
  Z.of_nat (length (uid_or_default uid)) < 8192 -> 0 <= fst pub < 2 ^ 256 -> 0 <= snd pub < 2 ^ 256 ->
  Sm3Digest pub msg uid = Ok (be_bytes (e_spec pub (uid_or_default uid) msg)).
Proof.
  intros Hu Hx Hy. unfold Sm3Digest. fold (uid_or_default uid).
  rewrite ZA_is_spec by assumption. cbn [obind]. unfold msgHash, e_spec. rewrite firstn32_sm3. reflexivity.
Qed.

Lemma Sm2Sign_is_sign_loop fuel d pub msg uid rho :
  Z.of_nat (length (uid_or_default uid)) < 8192 -> 0 <= fst pub < 2 ^ 256 -> 0 <= snd pub < 2 ^ 256 ->
  Sm2Sign fuel (mkPriv d pub) msg uid rho = sign_loop fuel d (e_spec pub (uid_or_default uid) msg) rho.
Proof.
  intros Hu Hx Hy. unfold Sm2Sign. cbn [Pub D]. rewrite Sm3Digest_is_spec by assumption. cbn [obind].
  rewrite os2ip_be_bytes; [reflexivity|]. unfold e_spec. apply os2ip_nonneg.
Qed.

Lemma uid_or_default_long uid : 8192 <= Z.of_nat (length uid) -> uid_or_default uid = uid.
Proof. destruct uid; cbn; [lia|reflexivity]. Qed.

Lemma Sm2Sign_long_id fuel pr msg uid rho : 8192 <= Z.of_nat (length uid) -> Sm2Sign fuel pr msg uid rho = Err 1.
Proof.
  intros H. unfold Sm2Sign, Sm3Digest. fold (uid_or_default uid). rewrite uid_or_default_long by assumption.
  rewrite ZA_too_long by assumption. reflexivity.
Qed.

Lemma Sm2Verify_long_id pub msg uid r s : 8192 <= Z.of_nat (length uid) -> Sm2Verify pub msg uid r s = false.
Proof.
  intros H. apply not_true_is_false. intros Hv. apply Sm2Verify_iff in Hv as (za & Hza & _).
  rewrite uid_or_default_long, ZA_too_long in Hza by assumption. discriminate.
Qed.

Lemma Sm2Verify_same_e pub msg uid msg' uid' r s :
  Z.of_nat (length (uid_or_default uid)) < 8192 -> Z.of_nat (length (uid_or_default uid')) < 8192 ->
  0 <= fst pub < 2 ^ 256 -> 0 <= snd pub < 2 ^ 256 ->
  Sm2Verify pub msg uid r s = true -> Sm2Verify pub msg' uid' r s = true ->
  e_spec pub (uid_or_default uid) msg mod sm2_n = e_spec pub (uid_or_default uid') msg' mod sm2_n.
Proof.
  intros Hu Hu' Hx Hy H H'.
  apply Sm2Verify_iff in H as (za & Hza & Hv). apply Sm2Verify_iff in H' as (za' & Hza' & Hv').
  rewrite ZA_is_spec in Hza, Hza' by assumption. injection Hza as <-. injection Hza' as <-.
  pose proof (verify_api_same_e _ _ _ _ _ Hv Hv') as E.
  unfold msgHash in E. rewrite !firstn32_sm3 in E. exact E.
Qed.

Lemma add_mod_cancel_l e x x' : (e + x) mod sm2_n = (e + x') mod sm2_n -> x mod sm2_n = x' mod sm2_n.
Proof.
  intros E.
  assert (H : forall y, y mod sm2_n = ((e + y) mod sm2_n - e) mod sm2_n).
  { intros y. rewrite Zminus_mod_idemp_l. f_equal. lia. }
  rewrite (H x), (H x'), E. reflexivity.
Qed.

Lemma same_r_same_x d d' e k1 k2 r s1 s2 :
  sign_with_nonce d e k1 = Some (r, s1) -> sign_with_nonce d' e k2 = Some (r, s2) ->
  x_of (sm2_base_mul k1) mod sm2_n = x_of (sm2_base_mul k2) mod sm2_n.
Proof.
  unfold sign_with_nonce. intros H1 H2.
  destruct (_ || _)%bool in H1; [discriminate|]. destruct (_ =? 0) in H1; [discriminate|].
  destruct (_ || _)%bool in H2; [discriminate|]. destruct (_ =? 0) in H2; [discriminate|].
  injection H1 as E1 _. injection H2 as E2 _. apply (add_mod_cancel_l e). congruence.
Qed.
