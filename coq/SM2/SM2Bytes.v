(* Byte-string / integer conversions shared by the SM2 spec and model (GM/T 0003.1 section 4.2 and the
   math/big calls of the Go code).  Definitions only; lemmas are in SM2/SM2BytesProofs.v.
   Bytes are N (below 256 in every well-formed string), integers are Z. *)
From Coq Require Import List NArith ZArith Bool.
Import ListNotations.
Open Scope Z_scope.

Notation byte := N (only parsing).

Definition bytes_ok (l : list byte) : Prop := Forall (fun b => (b < 256)%N) l.
Definition bytes_okb (l : list byte) : bool := forallb (fun b => (b <? 256)%N) l.

(* GM/T 0003.1 4.2.3 / big.Int.SetBytes: big-endian bytes -> integer *)
Definition os2ip (l : list byte) : Z := fold_left (fun acc b => acc * 256 + Z.of_N b) l 0.

(* GM/T 0003.1 4.2.2 / big.Int.FillBytes: the big-endian string of exactly len bytes of x mod 256^len *)
Fixpoint i2osp (len : nat) (x : Z) : list byte :=
  match len with
  | O => []
  | S l => i2osp l (x / 256) ++ [Z.to_N (x mod 256)]
  end.

Fixpoint strip0 (l : list byte) : list byte :=
  match l with
  | 0%N :: t => strip0 t
  | _ => l
  end.

(* number of bytes that certainly hold x (an over-approximation; strip0 removes the excess) *)
Definition byte_len_ub (x : Z) : nat := S (Z.to_nat (Z.log2 x / 8)).

(* big.Int.Bytes(): minimal big-endian bytes of |x|; empty for 0 *)
Definition be_bytes (x : Z) : list byte := strip0 (i2osp (byte_len_ub (Z.abs x)) (Z.abs x)).

(* the Go idiom  if n := len(buf); n < 32 { buf = append(zeroByteSlice()[:32-n], buf...) } *)
Definition pad32 (buf : list byte) : list byte :=
  if Nat.ltb (length buf) 32 then repeat 0%N (32 - length buf) ++ buf else buf.

Fixpoint xor_bytes (a b : list byte) : list byte :=
  match a, b with
  | x :: a', y :: b' => N.lxor x y :: xor_bytes a' b'
  | _, _ => []
  end.

Definition all_zero (l : list byte) : bool := forallb (fun b => (b =? 0)%N) l.

Fixpoint list_eqb (a b : list byte) : bool :=
  match a, b with
  | [], [] => true
  | x :: a', y :: b' => (x =? y)%N && list_eqb a' b'
  | _, _ => false
  end.

(* a Go slice expression s[lo:hi] on a list that is known to be long enough *)
Definition slice (l : list byte) (lo hi : nat) : list byte := firstn (hi - lo) (skipn lo l).
