(* Z mod p (p prime) with the equality "congruent mod p" as an integral domain for [nsatz]
   (type classes of Coq.nsatz: Ring_ops, Ring, Cring, Integral_domain), on top of build-ec's field
   structure EC/ECAffineProofs.v.  Used by SM2/ECAssoc*.v (associativity of the affine law). *)
From Coq Require Import ZArith Znumtheory Lia Setoid Morphisms NsatzTactic.
From GmsmVerif Require Import EC.ECAffine EC.ECAffineProofs.
Open Scope Z_scope.

Section FpDomain.
  Variable p : Z.
  Hypothesis p_prime : prime p.

  Global Instance Fp_ops : @Ring_ops Z 0 1 Z.add Z.mul Z.sub Z.opp (feq p) := {}.

  Global Instance Fp_Ring : @Ring Z 0 1 Z.add Z.mul Z.sub Z.opp (feq p) Fp_ops.
  Proof.
    constructor.
    - exact (feq_equiv p).
    - exact (add_proper p p_prime).
    - exact (mul_proper p p_prime).
    - exact (sub_proper p).
    - exact (opp_proper p p_prime).
    - intros; cbv - [feq Z.add Z.mul Z.sub Z.opp]; unfold feq; f_equal; ring.
    - intros; cbv - [feq Z.add Z.mul Z.sub Z.opp]; unfold feq; f_equal; ring.
    - intros; cbv - [feq Z.add Z.mul Z.sub Z.opp]; unfold feq; f_equal; ring.
    - intros; cbv - [feq Z.add Z.mul Z.sub Z.opp]; unfold feq; f_equal; ring.
    - intros; cbv - [feq Z.add Z.mul Z.sub Z.opp]; unfold feq; f_equal; ring.
    - intros; cbv - [feq Z.add Z.mul Z.sub Z.opp]; unfold feq; f_equal; ring.
    - intros; cbv - [feq Z.add Z.mul Z.sub Z.opp]; unfold feq; f_equal; ring.
    - intros; cbv - [feq Z.add Z.mul Z.sub Z.opp]; unfold feq; f_equal; ring.
    - intros; cbv - [feq Z.add Z.mul Z.sub Z.opp]; unfold feq; f_equal; ring.
    - intros; cbv - [feq Z.add Z.mul Z.sub Z.opp]; unfold feq; f_equal; ring.
  Qed.

  Global Instance Fp_Cring : @Cring Z 0 1 Z.add Z.mul Z.sub Z.opp (feq p) Fp_ops Fp_Ring.
  Proof. intros x y. cbv - [feq Z.add Z.mul Z.sub Z.opp]. unfold feq. f_equal. ring. Qed.

  Global Instance Fp_Integral_domain :
    @Integral_domain Z 0 1 Z.add Z.mul Z.sub Z.opp (feq p) Fp_ops Fp_Ring Fp_Cring.
  Proof.
    constructor.
    - intros x y H. cbv - [feq Z.add Z.mul Z.sub Z.opp] in *. exact (feq_mul_0 p p_prime x y H).
    - intro H. cbv - [feq Z.add Z.mul Z.sub Z.opp] in H. unfold feq in H. pose proof (prime_ge_2 _ p_prime).
      rewrite Z.mod_1_l, Z.mod_0_l in H by lia. lia.
  Qed.
End FpDomain.
