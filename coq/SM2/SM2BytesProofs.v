(* Lemmas about the byte-string / integer conversions of SM2/SM2Bytes.v. *)
From Coq Require Import List NArith ZArith Bool Lia Arith.
From GmsmVerif Require Import SM2.SM2Bytes.
Import ListNotations.
Open Scope Z_scope.

(* ---------- bytes_ok ---------------------------------------------------------------------------------- *)
Lemma bytes_ok_app a b : bytes_ok (a ++ b) <-> bytes_ok a /\ bytes_ok b.
Proof. unfold bytes_ok. apply Forall_app. Qed.

Lemma bytes_ok_cons x l : bytes_ok (x :: l) <-> (x < 256)%N /\ bytes_ok l.
Proof. unfold bytes_ok. split; intro H. - inversion H; auto. - constructor; tauto. Qed.

Lemma bytes_ok_nil : bytes_ok [].
Proof. constructor. Qed.

Lemma bytes_ok_repeat0 n : bytes_ok (repeat 0%N n).
Proof. induction n; cbn; constructor; auto. reflexivity. Qed.

Lemma bytes_ok_firstn n l : bytes_ok l -> bytes_ok (firstn n l).
Proof. revert l; induction n; intros [|x l] H; cbn; try constructor; inversion H; auto. apply IHn; auto. Qed.

Lemma bytes_ok_skipn n l : bytes_ok l -> bytes_ok (skipn n l).
Proof. revert l; induction n; intros [|x l] H; cbn; auto. inversion H; apply IHn; auto. Qed.

Lemma bytes_okb_ok l : bytes_okb l = true <-> bytes_ok l.
Proof.
  unfold bytes_okb, bytes_ok. rewrite forallb_forall, Forall_forall.
  split; intros H x Hx; specialize (H x Hx); [apply N.ltb_lt|apply N.ltb_lt]; auto.
Qed.

(* ---------- os2ip ------------------------------------------------------------------------------------- *)
Lemma os2ip_fold l : forall acc,
  fold_left (fun a b => a * 256 + Z.of_N b) l acc = acc * 256 ^ Z.of_nat (length l) + os2ip l.
Proof.
  unfold os2ip. induction l as [|x l IH]; intros acc.
  - cbn. lia.
  - cbn [fold_left length]. rewrite IH. rewrite (IH (0 * 256 + Z.of_N x)).
    rewrite Nat2Z.inj_succ, Z.pow_succ_r by lia. ring.
Qed.

Lemma os2ip_nil : os2ip [] = 0.
Proof. reflexivity. Qed.

Lemma os2ip_cons x l : os2ip (x :: l) = Z.of_N x * 256 ^ Z.of_nat (length l) + os2ip l.
Proof. unfold os2ip at 1. cbn [fold_left]. rewrite os2ip_fold. lia. Qed.

Lemma os2ip_app a b : os2ip (a ++ b) = os2ip a * 256 ^ Z.of_nat (length b) + os2ip b.
Proof.
  unfold os2ip at 1. rewrite fold_left_app. rewrite os2ip_fold. f_equal.
Qed.

Lemma os2ip_snoc l x : os2ip (l ++ [x]) = os2ip l * 256 + Z.of_N x.
Proof. rewrite os2ip_app. cbn [length]. rewrite os2ip_cons. cbn. lia. Qed.

Lemma pow256_pos n : 0 < 256 ^ Z.of_nat n.
Proof. apply Z.pow_pos_nonneg; lia. Qed.

Lemma os2ip_bound l : bytes_ok l -> 0 <= os2ip l < 256 ^ Z.of_nat (length l).
Proof.
  induction l as [|x l IH]; intros H.
  - cbn. lia.
  - apply bytes_ok_cons in H as [Hx Hl]. specialize (IH Hl).
    rewrite os2ip_cons. cbn [length]. rewrite Nat2Z.inj_succ, Z.pow_succ_r by lia.
    pose proof (pow256_pos (length l)). nia.
Qed.

Lemma os2ip_repeat0 n : os2ip (repeat 0%N n) = 0.
Proof. induction n; [reflexivity|]. cbn [repeat]. rewrite os2ip_cons, IHn. lia. Qed.

Lemma os2ip_zeros_app n l : os2ip (repeat 0%N n ++ l) = os2ip l.
Proof. rewrite os2ip_app, os2ip_repeat0. lia. Qed.

Lemma os2ip_strip0 l : os2ip (strip0 l) = os2ip l.
Proof.
  induction l as [|x l IH]; [reflexivity|]. cbn [strip0]. destruct x; [|reflexivity].
  rewrite IH, os2ip_cons. lia.
Qed.

(* ---------- i2osp ------------------------------------------------------------------------------------- *)
Lemma i2osp_length n x : length (i2osp n x) = n.
Proof. revert x; induction n; intros x; cbn [i2osp]; [reflexivity|]. rewrite app_length, IHn. cbn. lia. Qed.

Lemma i2osp_ok n x : bytes_ok (i2osp n x).
Proof.
  revert x; induction n; intros x; cbn [i2osp]; [constructor|].
  apply bytes_ok_app; split; [apply IHn|]. constructor; [|constructor].
  pose proof (Z.mod_pos_bound x 256). lia.
Qed.

Lemma os2ip_i2osp n x : os2ip (i2osp n x) = x mod 256 ^ Z.of_nat n.
Proof.
  revert x; induction n; intros x.
  - cbn. rewrite Z.mod_1_r. reflexivity.
  - cbn [i2osp]. rewrite os2ip_snoc, IHn. rewrite Z2N.id by (pose proof (Z.mod_pos_bound x 256); lia).
    rewrite Nat2Z.inj_succ, Z.pow_succ_r by lia.
    pose proof (pow256_pos n).
    rewrite Z.rem_mul_r by lia. lia.
Qed.

Lemma os2ip_i2osp_small n x : 0 <= x < 256 ^ Z.of_nat n -> os2ip (i2osp n x) = x.
Proof. intros H. rewrite os2ip_i2osp. apply Z.mod_small; lia. Qed.

Lemma i2osp_os2ip l : bytes_ok l -> i2osp (length l) (os2ip l) = l.
Proof.
  induction l as [|x l IH] using rev_ind; intros H; [reflexivity|].
  apply bytes_ok_app in H as [Hl Hx]. apply bytes_ok_cons in Hx as [Hx _].
  rewrite app_length. cbn [length]. rewrite Nat.add_1_r. cbn [i2osp]. rewrite os2ip_snoc.
  assert (Hxz : 0 <= Z.of_N x < 256) by lia.
  replace ((os2ip l * 256 + Z.of_N x) / 256) with (os2ip l)
    by (apply Z.div_unique with (r := Z.of_N x); lia).
  replace ((os2ip l * 256 + Z.of_N x) mod 256) with (Z.of_N x)
    by (apply Z.mod_unique with (q := os2ip l); lia).
  rewrite IH by assumption. rewrite N2Z.id. reflexivity.
Qed.

Lemma i2osp_inj n x y : 0 <= x < 256 ^ Z.of_nat n -> 0 <= y < 256 ^ Z.of_nat n -> i2osp n x = i2osp n y -> x = y.
Proof.
  intros Hx Hy H. rewrite <- (os2ip_i2osp_small n x Hx), <- (os2ip_i2osp_small n y Hy). rewrite H. reflexivity.
Qed.

(* a longer representation is the shorter one with leading zeros *)
Lemma i2osp_add m n x : i2osp (m + n) x = i2osp m (x / 256 ^ Z.of_nat n) ++ i2osp n x.
Proof.
  revert x; induction n; intros x.
  - rewrite Nat.add_0_r. cbn. rewrite Z.div_1_r, app_nil_r. reflexivity.
  - rewrite Nat.add_succ_r. cbn [i2osp]. rewrite IHn. rewrite app_assoc. f_equal. f_equal. f_equal.
    rewrite Nat2Z.inj_succ, Z.pow_succ_r by lia.
    pose proof (pow256_pos n). rewrite Z.div_div by lia. reflexivity.
Qed.

Lemma i2osp_0 m : i2osp m 0 = repeat 0%N m.
Proof.
  induction m; [reflexivity|]. cbn [i2osp]. change (0 / 256) with 0. rewrite IHm.
  change (Z.to_N (0 mod 256)) with 0%N. clear. induction m; [reflexivity|]. cbn. f_equal. exact IHm.
Qed.

Lemma i2osp_small_zeros m n x : 0 <= x < 256 ^ Z.of_nat n -> i2osp (m + n) x = repeat 0%N m ++ i2osp n x.
Proof. intros H. rewrite i2osp_add. rewrite Z.div_small by lia. rewrite i2osp_0. reflexivity. Qed.

(* ---------- strip0, be_bytes, pad32 ---------------------------------------------------------------- *)
Lemma strip0_zeros_app n l : strip0 (repeat 0%N n ++ l) = strip0 l.
Proof. induction n; [reflexivity|]. cbn. exact IHn. Qed.

Lemma strip0_decomp l : l = repeat 0%N (length l - length (strip0 l)) ++ strip0 l.
Proof.
  induction l as [|x l IH]; [reflexivity|]. cbn [strip0]. destruct x.
  - assert (length (strip0 l) <= length l)%nat.
    { clear. induction l as [|y l IH]; cbn; [lia|]. destruct y; cbn; lia. }
    cbn [length]. replace (S (length l) - length (strip0 l))%nat with (S (length l - length (strip0 l))) by lia.
    cbn [repeat app]. f_equal. exact IH.
  - rewrite Nat.sub_diag. reflexivity.
Qed.

Lemma strip0_length l : (length (strip0 l) <= length l)%nat.
Proof. induction l as [|y l IH]; cbn; [lia|]. destruct y; cbn; lia. Qed.

Lemma strip0_ok l : bytes_ok l -> bytes_ok (strip0 l).
Proof. induction l as [|x l IH]; intros H; cbn; auto. destruct x; auto. apply IH. inversion H; auto. Qed.

Lemma strip0_id l : hd 0%N l <> 0%N -> strip0 l = l.
Proof. destruct l as [|x l]; [reflexivity|]. cbn. destruct x; [congruence|reflexivity]. Qed.

Lemma strip0_hd l : strip0 l = [] \/ hd 0%N (strip0 l) <> 0%N.
Proof.
  induction l as [|x l IH]; [left; reflexivity|]. cbn [strip0]. destruct x; [exact IH|].
  right. cbn. discriminate.
Qed.

Lemma strip0_i2osp_indep m n x :
  0 <= x < 256 ^ Z.of_nat m -> 0 <= x < 256 ^ Z.of_nat n -> strip0 (i2osp m x) = strip0 (i2osp n x).
Proof.
  intros Hm Hn. destruct (Nat.le_ge_cases m n) as [H|H].
  - replace n with ((n - m) + m)%nat by lia. rewrite i2osp_small_zeros by assumption.
    rewrite strip0_zeros_app. reflexivity.
  - replace m with ((m - n) + n)%nat by lia. rewrite i2osp_small_zeros by assumption.
    rewrite strip0_zeros_app. reflexivity.
Qed.

Lemma byte_len_ub_ok x : 0 <= x -> x < 256 ^ Z.of_nat (byte_len_ub x).
Proof.
  intros Hx. unfold byte_len_ub. destruct (Z.eq_dec x 0) as [->|Hne].
  - cbn. lia.
  - assert (H0 : 0 < x) by lia. pose proof (Z.log2_spec x H0) as [_ Hlt].
    pose proof (Z.log2_nonneg x).
    rewrite Nat2Z.inj_succ, Z2Nat.id by (apply Z.div_pos; lia).
    change 256 with (2 ^ 8). rewrite <- Z.pow_mul_r by (try lia; apply Z.le_le_succ_r, Z.div_pos; lia).
    eapply Z.lt_le_trans; [exact Hlt|]. apply Z.pow_le_mono_r; [lia|].
    pose proof (Z.mod_pos_bound (Z.log2 x) 8). pose proof (Z.div_mod (Z.log2 x) 8). lia.
Qed.

Lemma be_bytes_small n x : 0 <= x < 256 ^ Z.of_nat n -> be_bytes x = strip0 (i2osp n x).
Proof.
  intros H. unfold be_bytes. rewrite Z.abs_eq by lia.
  apply strip0_i2osp_indep; [|assumption]. split; [lia|apply byte_len_ub_ok; lia].
Qed.

Lemma os2ip_be_bytes x : 0 <= x -> os2ip (be_bytes x) = x.
Proof.
  intros H. unfold be_bytes. rewrite Z.abs_eq by lia. rewrite os2ip_strip0.
  apply os2ip_i2osp_small. split; [lia|apply byte_len_ub_ok; lia].
Qed.

Lemma be_bytes_ok x : bytes_ok (be_bytes x).
Proof. unfold be_bytes. apply strip0_ok, i2osp_ok. Qed.

Lemma be_bytes_length n x : 0 <= x < 256 ^ Z.of_nat n -> (length (be_bytes x) <= n)%nat.
Proof.
  intros H. rewrite (be_bytes_small n x H). etransitivity; [apply strip0_length|]. rewrite i2osp_length. lia.
Qed.

Lemma be_bytes_os2ip l : bytes_ok l -> be_bytes (os2ip l) = strip0 l.
Proof.
  intros H. rewrite (be_bytes_small (length l)) by (apply os2ip_bound; assumption).
  rewrite i2osp_os2ip by assumption. reflexivity.
Qed.

Lemma be_bytes_hd x : be_bytes x = [] \/ hd 0%N (be_bytes x) <> 0%N.
Proof. unfold be_bytes. apply strip0_hd. Qed.

Lemma be_bytes_0 : be_bytes 0 = [].
Proof. reflexivity. Qed.

Lemma be_bytes_nonempty x : 0 < x -> be_bytes x <> [].
Proof.
  intros H E. pose proof (os2ip_be_bytes x ltac:(lia)) as Ho. rewrite E in Ho. cbn in Ho. lia.
Qed.

Lemma pad32_length32 l : length l = 32%nat -> pad32 l = l.
Proof. intros H. unfold pad32. rewrite H. reflexivity. Qed.

Lemma pad32_be_bytes x : 0 <= x < 2 ^ 256 -> pad32 (be_bytes x) = i2osp 32 x.
Proof.
  intros H. assert (H' : 0 <= x < 256 ^ Z.of_nat 32) by (change (256 ^ Z.of_nat 32) with (2 ^ 256); lia).
  rewrite (be_bytes_small 32 x H').
  pose proof (strip0_length (i2osp 32 x)) as Hl. rewrite i2osp_length in Hl.
  pose proof (strip0_decomp (i2osp 32 x)) as Hd. rewrite i2osp_length in Hd.
  unfold pad32. destruct (Nat.ltb_spec (length (strip0 (i2osp 32 x))) 32).
  - symmetry. exact Hd.
  - assert (length (strip0 (i2osp 32 x)) = 32)%nat by lia.
    rewrite H1, Nat.sub_diag in Hd. cbn in Hd. symmetry. exact Hd.
Qed.

Lemma pad32_length x : 0 <= x < 2 ^ 256 -> length (pad32 (be_bytes x)) = 32%nat.
Proof. intros H. rewrite pad32_be_bytes by assumption. apply i2osp_length. Qed.

(* ---------- xor ------------------------------------------------------------------------------------------ *)
Lemma xor_bytes_comm a b : xor_bytes a b = xor_bytes b a.
Proof.
  revert b; induction a as [|x a IH]; intros [|y b]; cbn; try reflexivity.
  rewrite N.lxor_comm, IH. reflexivity.
Qed.

Lemma xor_bytes_length a b : length (xor_bytes a b) = Nat.min (length a) (length b).
Proof. revert b; induction a as [|x a IH]; intros [|y b]; cbn; try reflexivity. rewrite IH. reflexivity. Qed.

Lemma xor_bytes_involutive a b : (length a <= length b)%nat -> xor_bytes (xor_bytes a b) b = a.
Proof.
  revert b; induction a as [|x a IH]; intros [|y b] H; cbn in *; try reflexivity; try lia.
  rewrite IH by lia. rewrite N.lxor_assoc, N.lxor_nilpotent, N.lxor_0_r. reflexivity.
Qed.

(* ---------- list_eqb, all_zero ------------------------------------------------------------------------- *)
Lemma list_eqb_eq a b : list_eqb a b = true <-> a = b.
Proof.
  revert b; induction a as [|x a IH]; intros [|y b]; cbn; split; intros H; try reflexivity; try discriminate.
  - apply andb_true_iff in H as [H1 H2]. apply N.eqb_eq in H1. apply IH in H2. subst. reflexivity.
  - injection H as -> ->. rewrite N.eqb_refl. apply IH. reflexivity.
Qed.

Lemma list_eqb_refl a : list_eqb a a = true.
Proof. apply list_eqb_eq. reflexivity. Qed.

Lemma slice_app_l (a b : list byte) n : length a = n -> slice (a ++ b) 0 n = a.
Proof.
  intros H. unfold slice. cbn [skipn]. rewrite Nat.sub_0_r. rewrite firstn_app, <- H, Nat.sub_diag.
  rewrite firstn_all. cbn. apply app_nil_r.
Qed.

Lemma skipn_app_l {A} (a b : list A) n : length a = n -> skipn n (a ++ b) = b.
Proof. intros H. rewrite skipn_app, <- H, Nat.sub_diag, skipn_all. reflexivity. Qed.

Lemma firstn_app_l {A} (a b : list A) n : length a = n -> firstn n (a ++ b) = a.
Proof. intros H. rewrite firstn_app, <- H, Nat.sub_diag, firstn_all. cbn. apply app_nil_r. Qed.

Lemma skipn_skipn {A} (x y : nat) (l : list A) : skipn x (skipn y l) = skipn (x + y) l.
Proof.
  revert l; induction y as [|y IH]; intros l.
  - rewrite Nat.add_0_r. reflexivity.
  - rewrite Nat.add_succ_r. destruct l as [|a l]; cbn [skipn]; [apply skipn_nil|]. apply IH.
Qed.

Lemma os2ip_nonneg l : 0 <= os2ip l.
Proof.
  induction l as [|x l IH] using rev_ind; [cbn; lia|]. rewrite os2ip_snoc. lia.
Qed.
