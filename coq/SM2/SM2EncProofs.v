(* Lemmas for C02: KDF, the encryption loop = GM/T 0003.4 for the first admissible nonce, totality,
   the decryption function = the standard's decryption on the parsed components, round trip. *)
From Coq Require Import List NArith ZArith Znumtheory Bool Lia Arith ZifyNat.
From GmsmVerif Require Import Lib.Outcome EC.ECAffine EC.SM2Curve EC.ECAffineProofs SM3.SM3Spec
     SM2.SM2Bytes SM2.SM2BytesProofs SM2.SM2Spec SM2.DER SM2.DERProofs SM2.SM2Model SM2.SM2SignProofs SM2.SM2GroupMin.
Import ListNotations.
Open Scope Z_scope.

Lemma some_inj {A} (a b : A) : Some a = Some b -> a = b.
Proof. intros H. injection H. auto. Qed.

Local Opaque i2osp.

Lemma skipn_S_cons {A} n (a : A) l : skipn (S n) (a :: l) = skipn n l.
Proof. reflexivity. Qed.

(* ---------- KDF ------------------------------------------------------------------------------------------- *)
Lemma kdf_block_length z ct : length (kdf_block z ct) = 32%nat.
Proof. apply sm3_length. Qed.

Lemma kdf_blocks_length z l : length (flat_map (kdf_block z) l) = (32 * length l)%nat.
Proof. induction l; cbn [flat_map length]; [reflexivity|]. rewrite app_length, kdf_block_length, IHl. lia. Qed.

Lemma firstn_app_exact {A} (a b : list A) n : firstn (length a + n) (a ++ b) = a ++ firstn n b.
Proof. apply firstn_app_2. Qed.

Lemma kdf_loop_blocks z len : forall rem ct,
  kdf_loop z len rem ct =
  let blocks := flat_map (kdf_block z) (seq ct rem) in
  if (len mod 32 =? 0)%nat then blocks else firstn (32 * (rem - 1) + len mod 32) blocks.
Proof.
  induction rem as [|rem IH]; intros ct; cbv zeta.
  - cbn [kdf_loop seq flat_map]. destruct (len mod 32 =? 0)%nat; [reflexivity|]. rewrite firstn_nil. reflexivity.
  - cbn [kdf_loop seq flat_map]. fold (kdf_block z ct). unfold intToBytes. fold (kdf_block z ct).
    rewrite IH. cbv zeta. destruct (Nat.eqb_spec (len mod 32) 0) as [E|E]; cbn [negb andb].
    + rewrite andb_false_r. reflexivity.
    + rewrite andb_true_r. destruct rem as [|rem'].
      * cbn [Nat.eqb seq flat_map]. rewrite !app_nil_r. cbn [Nat.sub Nat.mul Nat.add]. rewrite firstn_nil, app_nil_r. reflexivity.
      * cbn [Nat.eqb]. replace (32 * (S (S rem') - 1) + len mod 32)%nat
          with (length (kdf_block z ct) + (32 * (S rem' - 1) + len mod 32))%nat by (rewrite kdf_block_length; lia).
        rewrite firstn_app_exact. reflexivity.
Qed.

Lemma kdf_loop_is_spec z len : kdf_loop z len ((len + 31) / 32) 1 = kdf_spec z len.
Proof.
  rewrite kdf_loop_blocks. cbv zeta. unfold kdf_spec.
  set (j := ((len + 31) / 32)%nat). set (blocks := flat_map (kdf_block z) (seq 1 j)).
  assert (Hb : length blocks = (32 * j)%nat) by (unfold blocks; rewrite kdf_blocks_length, seq_length; reflexivity).
  destruct (Nat.eqb_spec (len mod 32) 0) as [E|E].
  - symmetry. apply firstn_all2. rewrite Hb. unfold j. lia.
  - f_equal. unfold j. lia.
Qed.

Lemma kdf_spec_length z len : length (kdf_spec z len) = len.
Proof.
  unfold kdf_spec. rewrite firstn_length, kdf_blocks_length, seq_length. lia.
Qed.

Lemma kdf_is_spec len z : kdf len z = (kdf_spec z len, negb (all_zero (kdf_spec z len))).
Proof.
  unfold kdf. rewrite kdf_loop_is_spec. rewrite (firstn_all2 (n := len)) by (rewrite kdf_spec_length; lia). reflexivity.
Qed.

(* ---------- coordinates produced by the group operations are reduced ------------------------------------ *)
Definition coords_ok (P : point) : Prop :=
  match P with None => True | Some (x, y) => 0 <= x < sm2_p /\ 0 <= y < sm2_p end.

Lemma p_pos : 0 < sm2_p. Proof. reflexivity. Qed.
Lemma p_lt_2_256 : sm2_p < 2 ^ 256. Proof. reflexivity. Qed.

Lemma mod_p_range x : 0 <= x mod sm2_p < sm2_p.
Proof. apply Z.mod_pos_bound, p_pos. Qed.

Lemma double_coords P : coords_ok P -> coords_ok (sm2_double P).
Proof.
  destruct P as [[x y]|]; [|exact (fun H => H)]. intros _. unfold sm2_double, ec_double. cbn [cp ca sm2_curve].
  destruct (y mod sm2_p =? 0); [exact I|]. split; apply mod_p_range.
Qed.

Lemma add_coords P Q : coords_ok P -> coords_ok Q -> coords_ok (sm2_add P Q).
Proof.
  intros HP HQ. destruct P as [[x1 y1]|]; [|exact HQ]. destruct Q as [[x2 y2]|]; [|exact HP].
  unfold sm2_add, ec_add. cbn [cp ca sm2_curve].
  destruct ((x1 - x2) mod sm2_p =? 0).
  - destruct ((y1 + y2) mod sm2_p =? 0); [exact I|]. apply (double_coords (Some (x1, y1))), HP.
  - split; apply mod_p_range.
Qed.

Lemma neg_coords P : coords_ok P -> coords_ok (sm2_neg P).
Proof.
  destruct P as [[x y]|]; [|exact (fun H => H)]. intros [Hx _]. unfold sm2_neg, ec_neg. cbn [cp sm2_curve].
  split; [exact Hx|apply mod_p_range].
Qed.

Lemma mul_pos_coords q P : coords_ok P -> coords_ok (ec_mul_pos sm2_curve q P).
Proof.
  intros H. induction q; cbn [ec_mul_pos].
  - apply add_coords; [|exact H]. apply double_coords, IHq.
  - apply double_coords, IHq.
  - exact H.
Qed.

Lemma mul_coords k P : coords_ok P -> coords_ok (sm2_mul k P).
Proof.
  intros H. unfold sm2_mul, ec_mul. destruct k; [exact I| |].
  - apply mul_pos_coords, H.
  - apply neg_coords, mul_pos_coords, H.
Qed.

Lemma G_coords : coords_ok sm2_G.
Proof. cbn. split; split; reflexivity || discriminate. Qed.

Lemma coords_ok_range P : coords_ok P -> 0 <= x_of P < 2 ^ 256 /\ 0 <= y_of P < 2 ^ 256.
Proof.
  pose proof p_lt_2_256. destruct P as [[x y]|]; cbn; [|lia]. intros [Hx Hy]. lia.
Qed.

Lemma coord32_x P : coords_ok P -> coord32 (x_of P) = fe_bytes (x_of P).
Proof. intros H. apply coord32_fe, coords_ok_range, H. Qed.
Lemma coord32_y P : coords_ok P -> coord32 (y_of P) = fe_bytes (y_of P).
Proof. intros H. apply coord32_fe, coords_ok_range, H. Qed.

Lemma go_decode_coords pub : 0 <= fst pub < sm2_p -> 0 <= snd pub < sm2_p -> coords_ok (go_decode pub).
Proof.
  intros Hx Hy. unfold go_decode, decode_point. destruct ((fst pub =? 0) && (snd pub =? 0))%bool; [exact I|].
  split; assumption.
Qed.

(* ---------- one pass of the encryption loop = steps A1-A8 ------------------------------------------------ *)
Definition order_of (mode : Z) : ct_order := if mode =? 1 then C1C2C3 else C1C3C2.

Lemma fe_length x : length (fe_bytes x) = 32%nat.
Proof. apply i2osp_length. Qed.

Lemma encode_xy P : encode_point P = (x_of P, y_of P).
Proof. unfold x_of, y_of. destruct (encode_point P). reflexivity. Qed.

Lemma encrypt_loop_step fuel pub data rho mode :
  coords_ok (go_decode pub) -> (40 <= length rho)%nat ->
  encrypt_loop (S fuel) pub data rho mode =
  match encrypt_with_nonce (go_decode pub) data (nonce_at rho 0) (order_of mode) with
  | Some c => Ok (c, skipn 40 rho)
  | None => encrypt_loop fuel pub data (skipn 40 rho) mode
  end.
Proof.
  intros Hpub Hlen. cbn [encrypt_loop]. rewrite (randFieldElement_ok rho Hlen). cbn [obind].
  pose proof (nonce_range rho 0) as Hk. set (k := nonce_at rho 0) in *.
  rewrite ScalarBaseMult_small by lia. unfold ScalarMult. rewrite !encode_xy.
  assert (HC1 : coords_ok (sm2_base_mul k)) by (apply mul_coords, G_coords).
  assert (HS : coords_ok (sm2_mul k (go_decode pub))) by (apply mul_coords, Hpub).
  rewrite !coord32_x, !coord32_y by assumption.
  rewrite kdf_is_spec. unfold encrypt_with_nonce.
  set (x2 := fe_bytes (x_of (sm2_mul k (go_decode pub)))). set (y2 := fe_bytes (y_of (sm2_mul k (go_decode pub)))).
  set (t := kdf_spec (x2 ++ y2) (length data)).
  destruct (all_zero t); cbn [negb]; [reflexivity|].
  set (x1 := fe_bytes (x_of (sm2_base_mul k))). set (y1 := fe_bytes (y_of (sm2_base_mul k))).
  set (h := sm3 (x2 ++ data ++ y2)).
  rewrite (xor_bytes_comm t data). unfold order_of, point_bytes. fold x1 y1.
  destruct (mode =? 1).
  - f_equal. f_equal. f_equal.
    assert (H64 : length (x1 ++ y1) = 64%nat) by (rewrite app_length; unfold x1, y1; rewrite !fe_length; reflexivity).
    assert (H96 : length ((x1 ++ y1) ++ h) = 96%nat) by (rewrite app_length, H64; unfold h; rewrite sm3_length; reflexivity).
    rewrite <- (app_assoc (x1 ++ y1) h). rewrite (slice_app_l (x1 ++ y1)) by exact H64.
    rewrite (app_assoc (x1 ++ y1) h). rewrite (skipn_app_l ((x1 ++ y1) ++ h)) by exact H96.
    unfold slice. rewrite <- (app_assoc (x1 ++ y1) h). rewrite (skipn_app_l (x1 ++ y1)) by exact H64.
    rewrite (firstn_app_l h) by (unfold h; rewrite sm3_length; reflexivity).
    rewrite <- !app_assoc. reflexivity.
  - cbn [app]. rewrite <- !app_assoc. reflexivity.
Qed.

Lemma encrypt_loop_search pub data rho0 mode : coords_ok (go_decode pub) ->
  forall m fuel i0,
    (length (skipn (40 * i0) rho0) / 40 = m)%nat -> (m < fuel)%nat ->
    encrypt_loop fuel pub data (skipn (40 * i0) rho0) mode =
    match encrypt_search (go_decode pub) data rho0 (order_of mode) i0 m with
    | Some (i, c) => Ok (c, skipn (40 * S i) rho0)
    | None => Err 2
    end.
Proof.
  intros Hpub. induction m as [|m IH]; intros fuel i0 Hm Hf.
  - destruct fuel as [|fuel]; [lia|]. cbn [encrypt_loop encrypt_search].
    rewrite randFieldElement_short; [reflexivity|]. apply Nat.div_small_iff in Hm; lia.
  - destruct fuel as [|fuel]; [lia|].
    assert (Hlen : (40 <= length (skipn (40 * i0) rho0))%nat).
    { destruct (Nat.le_gt_cases 40 (length (skipn (40 * i0) rho0))); [assumption|].
      rewrite Nat.div_small in Hm by lia. discriminate. }
    rewrite encrypt_loop_step by assumption. cbn [encrypt_search].
    rewrite nonce_at_offset, Nat.add_0_r.
    destruct (encrypt_with_nonce (go_decode pub) data (nonce_at rho0 i0) (order_of mode)) as [c|].
    + rewrite skipn_skipn. replace (40 + 40 * i0)%nat with (40 * S i0)%nat by lia. reflexivity.
    + rewrite skipn_skipn. replace (40 + 40 * i0)%nat with (40 * S i0)%nat by lia.
      apply IH; [|lia].
      replace (40 * S i0)%nat with (40 + 40 * i0)%nat by lia. rewrite <- skipn_skipn.
      rewrite skipn_length_div by assumption. lia.
Qed.

Lemma Encrypt_is_spec fuel pub data rho mode :
  0 <= fst pub < sm2_p -> 0 <= snd pub < sm2_p -> data <> [] -> (length rho / 40 < fuel)%nat ->
  Encrypt fuel pub data rho mode =
  match encrypt_spec (go_decode pub) data rho (order_of mode) with
  | Some (i, c) => Ok (c, skipn (40 * S i) rho)
  | None => Err 2
  end.
Proof.
  intros Hx Hy Hd Hf. unfold Encrypt. destruct data as [|b data]; [contradiction|].
  unfold encrypt_spec.
  exact (encrypt_loop_search pub (b :: data) rho mode (go_decode_coords pub Hx Hy) (length rho / 40)%nat fuel 0%nat eq_refl Hf).
Qed.

Lemma encrypt_search_some PB M rho o : forall m i0 i c,
  encrypt_search PB M rho o i0 m = Some (i, c) <->
  (i0 <= i < i0 + m)%nat /\ encrypt_with_nonce PB M (nonce_at rho i) o = Some c /\
  (forall j, (i0 <= j < i)%nat -> encrypt_with_nonce PB M (nonce_at rho j) o = None).
Proof.
  induction m as [|m IH]; intros i0 i c; cbn [encrypt_search].
  - split; [discriminate|]. intros [H _]. lia.
  - destruct (encrypt_with_nonce PB M (nonce_at rho i0) o) as [c0|] eqn:E.
    + split.
      * intros [= <- <-]. split; [lia|]. split; [assumption|]. intros j Hj. lia.
      * intros (Hi & Hs & Hn). destruct (Nat.eq_dec i i0) as [->|Hne].
        -- rewrite E in Hs. injection Hs as <-. reflexivity.
        -- rewrite (Hn i0) in E by lia. discriminate.
    + rewrite IH. split.
      * intros (Hi & Hs & Hn). split; [lia|]. split; [assumption|]. intros j Hj.
        destruct (Nat.eq_dec j i0) as [->|]; [assumption|]. apply Hn. lia.
      * intros (Hi & Hs & Hn). assert (i <> i0) by (intros ->; rewrite E in Hs; discriminate).
        split; [lia|]. split; [assumption|]. intros j Hj. apply Hn. lia.
Qed.

Lemma encrypt_with_nonce_length PB M k o c :
  encrypt_with_nonce PB M k o = Some c -> length c = (97 + length M)%nat /\ hd 0%N c = 4%N.
Proof.
  unfold encrypt_with_nonce.
  set (x2 := fe_bytes (x_of (sm2_mul k PB))). set (y2 := fe_bytes (y_of (sm2_mul k PB))).
  set (t := kdf_spec (x2 ++ y2) (length M)). set (C1 := sm2_base_mul k).
  destruct (all_zero t); [discriminate|]. intros H. apply some_inj in H.
  assert (Hx : length (xor_bytes M t) = length M).
  { rewrite xor_bytes_length. unfold t. rewrite kdf_spec_length. lia. }
  assert (Hp : length (point_bytes C1) = 65%nat /\ hd 0%N (point_bytes C1) = 4%N).
  { unfold point_bytes. cbn [length hd]. rewrite app_length, !fe_length. split; reflexivity. }
  destruct Hp as [Hp1 Hp2].
  destruct o; subst c; rewrite !app_length, sm3_length, Hx, Hp1; (split; [lia|]);
    unfold point_bytes; reflexivity.
Qed.

(* totality: with fuel |rho|/40 + 1 the loop ends in a ciphertext or an error, for every key, length, mode *)
Lemma encrypt_loop_no_crash pub data mode : forall m fuel (rho : list byte),
  (length rho / 40 = m)%nat -> (m < fuel)%nat -> no_crash (encrypt_loop fuel pub data rho mode).
Proof.
  induction m as [|m IH]; intros fuel rho Hm Hf; (destruct fuel as [|fuel]; [lia|]); cbn [encrypt_loop].
  - rewrite randFieldElement_short; [exact I|]. apply Nat.div_small_iff in Hm; lia.
  - assert (Hlen : (40 <= length rho)%nat).
    { destruct (Nat.le_gt_cases 40 (length rho)); [assumption|]. rewrite Nat.div_small in Hm by lia. discriminate. }
    rewrite (randFieldElement_ok rho Hlen). cbn [obind].
    destruct (ScalarBaseMult _) as [x1 y1]. destruct (ScalarMult _ _) as [x2 y2].
    destruct (kdf _ _) as [ct ok]. destruct ok; cbn [negb].
    + destruct (mode =? 1); exact I.
    + apply IH; [|lia]. rewrite skipn_length_div by assumption. lia.
Qed.

Lemma Encrypt_total fuel pub data rho mode :
  (length rho / 40 < fuel)%nat -> no_crash (Encrypt fuel pub data rho mode).
Proof.
  intros Hf. unfold Encrypt. destruct data; [exact I|]. eapply encrypt_loop_no_crash; [reflexivity|exact Hf].
Qed.

(* ---------- Decrypt = the standard's decryption of the parsed components -------------------------------- *)
Lemma split_at {A} (l : list A) n : (n <= length l)%nat -> exists a b, l = a ++ b /\ length a = n.
Proof. intros H. exists (firstn n l), (skipn n l). split; [symmetry; apply firstn_skipn|apply firstn_length_le, H]. Qed.

Lemma on_curve_00 : sm2_on_curve 0 0 = false.
Proof. vm_compute. reflexivity. Qed.

Lemma go_decode_on_curve x y : IsOnCurve (x, y) = true -> go_decode (x, y) = Some (x, y).
Proof.
  unfold IsOnCurve, go_decode, decode_point. cbn [fst snd]. intros H.
  destruct (Z.eqb_spec x 0) as [->|]; [|reflexivity]. destruct (Z.eqb_spec y 0) as [->|]; [|reflexivity].
  rewrite on_curve_00 in H. discriminate.
Qed.

Lemma valid_iff x y : 0 <= x -> 0 <= y ->
  sm2_valid (Some (x, y)) = (IsOnCurve (x, y) && negb ((sm2_p <=? x) || (sm2_p <=? y)))%bool.
Proof.
  intros Hx Hy. unfold sm2_valid, point_ok, IsOnCurve, sm2_on_curve. cbn [cp sm2_curve fst snd].
  destruct (Z.leb_spec 0 x); [|lia]. destruct (Z.leb_spec 0 y); [|lia].
  destruct (Z.ltb_spec x sm2_p); destruct (Z.leb_spec sm2_p x); try lia;
    destruct (Z.ltb_spec y sm2_p); destruct (Z.leb_spec sm2_p y); try lia;
      cbn [andb orb negb]; rewrite ?andb_true_r, ?andb_false_r; reflexivity.
Qed.

(* the normalised layout: data = X || Y || C3 || C2 after the mode switch *)
Lemma Decrypt_body pr mode c X Y C3 C2 data1 :
  length X = 32%nat -> length Y = 32%nat -> length C3 = 32%nat -> C2 <> [] ->
  c = 4%N :: data1 ->
  (if mode =? 1 then data1 = X ++ Y ++ C2 ++ C3 else data1 = X ++ Y ++ C3 ++ C2) ->
  (forall M, decrypt_spec (D pr) (os2ip X) (os2ip Y) C3 C2 = Some M -> Decrypt pr c mode = Ok M) /\
  (decrypt_spec (D pr) (os2ip X) (os2ip Y) C3 C2 = None -> exists e, Decrypt pr c mode = Err e).
Proof.
  intros HX HY H3 H2 -> Hd.
  assert (HC2 : (1 <= length C2)%nat) by (destruct C2; [contradiction|cbn; lia]).
  unfold Decrypt.
  assert (Hlen : length (4%N :: data1) = (97 + length C2)%nat).
  { cbn [length]. destruct (mode =? 1); subst data1; rewrite !app_length; lia. }
  rewrite Hlen. destruct (Nat.ltb_spec (97 + length C2) (1 + 64 + 32 + 1)); [lia|].
  cbn [hd]. rewrite N.eqb_refl. cbn [negb]. change (skipn 1 (4%N :: data1)) with data1.
  set (data := if mode =? 1 then _ else data1).
  assert (Hdata : data = X ++ Y ++ C3 ++ C2).
  { unfold data. destruct (mode =? 1); [|exact Hd]. subst data1.
    assert (H64 : length (X ++ Y) = 64%nat) by (rewrite app_length; lia).
    assert (Hn : length (X ++ Y ++ C2 ++ C3) = (64 + length C2 + 32)%nat) by (rewrite !app_length; lia).
    rewrite Hn. replace (64 + length C2 + 32 - 32)%nat with (64 + length C2)%nat by lia.
    assert (P1 : slice (X ++ Y ++ C2 ++ C3) 0 64 = X ++ Y).
    { rewrite (app_assoc X Y). apply slice_app_l, H64. }
    assert (P2 : skipn (64 + length C2) (X ++ Y ++ C2 ++ C3) = C3).
    { rewrite (app_assoc X Y), (app_assoc (X ++ Y) C2). apply skipn_app_l. rewrite app_length; lia. }
    assert (P3 : slice (X ++ Y ++ C2 ++ C3) 64 (64 + length C2) = C2).
    { unfold slice. rewrite (app_assoc X Y), (skipn_app_l (X ++ Y)) by exact H64.
      replace (64 + length C2 - 64)%nat with (length C2) by lia. apply firstn_app_l. reflexivity. }
    rewrite P1, P2, P3. rewrite <- !app_assoc. reflexivity. }
  clearbody data. subst data.
  assert (S1 : slice (X ++ Y ++ C3 ++ C2) 0 32 = X) by (apply slice_app_l, HX).
  assert (S2 : slice (X ++ Y ++ C3 ++ C2) 32 64 = Y).
  { unfold slice. rewrite (skipn_app_l X) by exact HX. change (64 - 32)%nat with 32%nat. apply firstn_app_l, HY. }
  assert (S3 : skipn 96 (X ++ Y ++ C3 ++ C2) = C2).
  { rewrite !app_assoc. apply skipn_app_l. rewrite !app_length; lia. }
  assert (S4 : slice (X ++ Y ++ C3 ++ C2) 64 96 = C3).
  { unfold slice. rewrite (app_assoc X Y), (skipn_app_l (X ++ Y)) by (rewrite app_length; lia).
    change (96 - 64)%nat with 32%nat. apply firstn_app_l, H3. }
  assert (S5 : (length (X ++ Y ++ C3 ++ C2) - 96)%nat = length C2) by (rewrite !app_length; lia).
  rewrite S1, S2, S3, S4, S5.
  set (x := os2ip X). set (y := os2ip Y).
  assert (Hx0 : 0 <= x) by apply os2ip_nonneg. assert (Hy0 : 0 <= y) by apply os2ip_nonneg.
  unfold decrypt_spec. rewrite (valid_iff x y Hx0 Hy0).
  destruct (IsOnCurve (x, y)) eqn:Eon; cbn [negb andb].
  2:{ split; [discriminate|]. intros _. eexists. reflexivity. }
  destruct ((sm2_p <=? x) || (sm2_p <=? y))%bool eqn:Er; cbn [negb].
  { split; [discriminate|]. intros _. eexists. reflexivity. }
  unfold ScalarMult. rewrite (go_decode_on_curve x y Eon). rewrite encode_xy.
  assert (Hc : coords_ok (sm2_mul (D pr) (Some (x, y)))).
  { apply mul_coords. cbn. apply orb_false_iff in Er as [E1 E2]. apply Z.leb_gt in E1, E2. lia. }
  rewrite coord32_x, coord32_y by exact Hc. rewrite kdf_is_spec.
  set (x2 := fe_bytes (x_of (sm2_mul (D pr) (Some (x, y))))). set (y2 := fe_bytes (y_of (sm2_mul (D pr) (Some (x, y))))).
  set (t := kdf_spec (x2 ++ y2) (length C2)).
  destruct (all_zero t); cbn [negb].
  { split; [discriminate|]. intros _. eexists. reflexivity. }
  rewrite (xor_bytes_comm t C2).
  destruct (list_eqb (sm3 (x2 ++ xor_bytes C2 t ++ y2)) C3); cbn [negb].
  - split; [intros M [= <-]; reflexivity|discriminate].
  - split; [discriminate|]. intros _. eexists. reflexivity.
Qed.

Lemma Decrypt_is_spec pr c mode :
  (forall M, decrypt_bytes_spec (D pr) c (order_of mode) = Some M -> Decrypt pr c mode = Ok M) /\
  (decrypt_bytes_spec (D pr) c (order_of mode) = None -> exists e, Decrypt pr c mode = Err e).
Proof.
  unfold decrypt_bytes_spec. destruct (Nat.ltb_spec (length c) 98) as [Hs|Hl].
  { split; [discriminate|]. intros _. unfold Decrypt.
    destruct (Nat.ltb_spec (length c) (1 + 64 + 32 + 1)); [|lia]. eexists. reflexivity. }
  destruct c as [|b0 data1]; [cbn in Hl; lia|]. cbn [hd length] in *.
  destruct (N.eqb_spec b0 4) as [->|Hb]; cbn [negb].
  2:{ split; [discriminate|]. intros _. unfold Decrypt. cbn [length hd].
      destruct (Nat.ltb_spec (S (length data1)) (1 + 64 + 32 + 1)); [lia|].
      destruct (N.eqb_spec b0 4); [contradiction|]. eexists. reflexivity. }
  destruct (split_at data1 32 ltac:(lia)) as (X & r1 & -> & HX). rewrite app_length in Hl.
  destruct (split_at r1 32 ltac:(lia)) as (Y & r2 & -> & HY). rewrite app_length in Hl.
  unfold split_ciphertext, order_of.
  assert (HsX : slice (4%N :: X ++ Y ++ r2) 1 33 = X).
  { unfold slice. cbn [skipn Nat.sub]. apply firstn_app_l, HX. }
  assert (HsY : slice (4%N :: X ++ Y ++ r2) 33 65 = Y).
  { unfold slice. change 33%nat with (S 32). rewrite skipn_S_cons. rewrite (skipn_app_l X) by exact HX.
    replace (65 - S 32)%nat with 32%nat by lia. apply firstn_app_l, HY. }
  assert (Hbody : skipn 65 (4%N :: X ++ Y ++ r2) = r2).
  { change 65%nat with (S 64). rewrite skipn_S_cons. rewrite app_assoc. apply skipn_app_l. rewrite app_length; lia. }
  rewrite HsX, HsY, Hbody.
  destruct (Z.eqb_spec mode 1) as [Em|Em].
  - destruct (split_at r2 (length r2 - 32) ltac:(lia)) as (C2 & C3 & -> & H2).
    rewrite app_length in *. assert (H3 : length C3 = 32%nat) by lia.
    replace (length C2 + length C3 - 32)%nat with (length C2) by lia.
    rewrite (skipn_app_l C2), (firstn_app_l C2) by reflexivity.
    apply (Decrypt_body pr mode _ X Y C3 C2 (X ++ Y ++ C2 ++ C3)); try assumption; try reflexivity.
    + destruct C2; [cbn in *; lia|discriminate].
    + destruct (Z.eqb_spec mode 1); [reflexivity|contradiction].
  - destruct (split_at r2 32 ltac:(lia)) as (C3 & C2 & -> & H3).
    rewrite (firstn_app_l C3), (skipn_app_l C3) by exact H3.
    rewrite app_length in *.
    apply (Decrypt_body pr mode _ X Y C3 C2 (X ++ Y ++ C3 ++ C2)); try assumption; try reflexivity.
    + destruct C2; [cbn in *; lia|discriminate].
    + destruct (Z.eqb_spec mode 1); [contradiction|reflexivity].
Qed.

(* consequences on the components *)
Lemma decrypt_spec_sound d x y C3 C2 M :
  decrypt_spec d x y C3 C2 = Some M ->
  sm2_valid (Some (x, y)) = true /\
  let S := sm2_mul d (Some (x, y)) in
  let x2 := fe_bytes (x_of S) in let y2 := fe_bytes (y_of S) in
  M = xor_bytes C2 (kdf_spec (x2 ++ y2) (length C2)) /\ C3 = sm3 (x2 ++ M ++ y2).
Proof.
  unfold decrypt_spec. destruct (sm2_valid (Some (x, y))); cbn [negb]; [|discriminate].
  destruct (all_zero _); [discriminate|].
  destruct (list_eqb _ C3) eqn:E; [|discriminate]. intros [= <-]. apply list_eqb_eq in E.
  split; [reflexivity|]. cbv zeta. split; [reflexivity|]. symmetry. exact E.
Qed.

Lemma decrypt_spec_invalid d x y C3 C2 : sm2_valid (Some (x, y)) = false -> decrypt_spec d x y C3 C2 = None.
Proof. intros H. unfold decrypt_spec. rewrite H. reflexivity. Qed.

Lemma xor_bytes_inj a b t : length a = length b -> (length a <= length t)%nat ->
  xor_bytes a t = xor_bytes b t -> a = b.
Proof.
  intros Hl Ht E. rewrite <- (xor_bytes_involutive a t Ht), <- (xor_bytes_involutive b t) by lia. rewrite E. reflexivity.
Qed.

(* altered C3: at most one C3 is accepted with given C1, C2 *)
Lemma decrypt_spec_C3_unique d x y C3 C3' C2 M M' :
  decrypt_spec d x y C3 C2 = Some M -> decrypt_spec d x y C3' C2 = Some M' -> C3 = C3'.
Proof.
  intros H H'. apply decrypt_spec_sound in H as (_ & HM & H3). apply decrypt_spec_sound in H' as (_ & HM' & H3').
  cbv zeta in *. rewrite H3, H3', HM, HM'. reflexivity.
Qed.

(* altered C2: two different C2 accepted with the same C1, C3 give different plaintexts with the same SM3 *)
Lemma decrypt_spec_C2_collision d x y C3 C2 C2' M M' :
  decrypt_spec d x y C3 C2 = Some M -> decrypt_spec d x y C3 C2' = Some M' -> C2 <> C2' ->
  let S := sm2_mul d (Some (x, y)) in
  M <> M' /\ sm3 (fe_bytes (x_of S) ++ M ++ fe_bytes (y_of S)) = sm3 (fe_bytes (x_of S) ++ M' ++ fe_bytes (y_of S)).
Proof.
  intros H H' Hne. apply decrypt_spec_sound in H as (_ & HM & H3). apply decrypt_spec_sound in H' as (_ & HM' & H3').
  cbv zeta in *. split; [|congruence]. intros E. apply Hne.
  assert (Hl : length C2 = length C2').
  { apply (f_equal (@length _)) in E. rewrite HM, HM' in E. rewrite !xor_bytes_length, !kdf_spec_length in E. lia. }
  rewrite HM, HM', <- Hl in E. apply (xor_bytes_inj _ _ _ Hl) in E; [exact E|rewrite kdf_spec_length; lia].
Qed.

(* the first two components parsed from an honest ciphertext are the 32-byte coordinates of C1 = [k]G *)
Lemma encrypt_c1 PB M k o c :
  encrypt_with_nonce PB M k o = Some c ->
  let '(x, y, _, _) := split_ciphertext o c in
  x = os2ip (fe_bytes (x_of (sm2_base_mul k))) /\ y = os2ip (fe_bytes (y_of (sm2_base_mul k))).
Proof.
  unfold encrypt_with_nonce.
  set (x2 := fe_bytes (x_of (sm2_mul k PB))). set (y2 := fe_bytes (y_of (sm2_mul k PB))).
  set (t := kdf_spec (x2 ++ y2) (length M)). set (X := fe_bytes (x_of (sm2_base_mul k))). set (Y := fe_bytes (y_of (sm2_base_mul k))).
  destruct (all_zero t); [discriminate|]. intros H. apply some_inj in H.
  assert (HX : length X = 32%nat) by apply fe_length. assert (HY : length Y = 32%nat) by apply fe_length.
  assert (S1 : forall r, slice (4%N :: X ++ Y ++ r) 1 33 = X).
  { intros r. unfold slice. cbn [skipn Nat.sub]. apply firstn_app_l, HX. }
  assert (S2 : forall r, slice (4%N :: X ++ Y ++ r) 33 65 = Y).
  { intros r. unfold slice. change 33%nat with (S 32). rewrite skipn_S_cons. rewrite (skipn_app_l X) by exact HX.
    replace (65 - S 32)%nat with 32%nat by lia. apply firstn_app_l, HY. }
  unfold split_ciphertext, point_bytes in *. fold X Y in H.
  destruct o; subst c; cbn [app]; rewrite <- !app_assoc; rewrite S1, S2; split; reflexivity.
Qed.

(* ---------- round trip (needs the group laws) ------------------------------------------------------------ *)
Section RoundTrip.
  Variable Hp : P_prime.
  Variable Hassoc : Add_assoc.
  Variable HnG : G_order_divides_n.
  Variable Hfin : G_multiples_finite.

  Lemma valid_coords P : sm2_valid P = true -> coords_ok P.
  Proof.
    destruct P as [[x y]|]; [|exact (fun _ => I)]. intros H. apply point_ok_some in H as (Hx & Hy & _). exact (conj Hx Hy).
  Qed.

  Lemma decrypt_of_encrypt d M k o c :
    1 <= d < sm2_n -> 1 <= k < sm2_n -> M <> [] ->
    encrypt_with_nonce (sm2_base_mul d) M k o = Some c ->
    decrypt_bytes_spec d c o = Some M.
  Proof.
    intros Hd Hk HM H. pose proof (encrypt_with_nonce_length _ _ _ _ _ H) as [Hlen Hhd].
    unfold decrypt_bytes_spec. destruct (Nat.ltb_spec (length c) 98) as [Hs|_].
    { destruct M; [contradiction|cbn [length] in Hlen; lia]. }
    rewrite Hhd. cbn [N.eqb Pos.eqb negb].
    unfold encrypt_with_nonce in H.
    set (S := sm2_mul k (sm2_base_mul d)) in *.
    set (x2 := fe_bytes (x_of S)) in *. set (y2 := fe_bytes (y_of S)) in *.
    set (t := kdf_spec (x2 ++ y2) (length M)) in *.
    destruct (all_zero t) eqn:Ez; [discriminate|].
    (* C1 = [k]G is a finite valid point *)
    pose proof (Hfin k ltac:(lia)) as Hfink.
    assert (Hv1 : sm2_valid (sm2_base_mul k) = true) by (apply (mul_valid Hp); [apply G_valid|lia]).
    change (sm2_base_mul k) with (sm2_mul k sm2_G) in *.
    destruct (sm2_mul k sm2_G) as [[x1 y1]|] eqn:EC1; [|contradiction].
    pose proof (valid_coords _ Hv1) as [Hx1 Hy1]. pose proof p_lt_2_256 as Hp256.
    assert (HX : length (fe_bytes x1) = 32%nat) by apply fe_length.
    assert (HY : length (fe_bytes y1) = 32%nat) by apply fe_length.
    assert (Hox : os2ip (fe_bytes x1) = x1) by (apply os2ip_i2osp_small; change (256 ^ Z.of_nat 32) with (2 ^ 256); lia).
    assert (Hoy : os2ip (fe_bytes y1) = y1) by (apply os2ip_i2osp_small; change (256 ^ Z.of_nat 32) with (2 ^ 256); lia).
    assert (Hxl : length (xor_bytes M t) = length M) by (rewrite xor_bytes_length; unfold t; rewrite kdf_spec_length; lia).
    (* the shared point: [d][k]G = [k][d]G *)
    assert (HS : sm2_mul d (Some (x1, y1)) = S).
    { unfold S. rewrite <- EC1. change (sm2_base_mul d) with (sm2_mul d sm2_G).
      rewrite !(mul_mul Hp Hassoc) by (try apply G_valid; lia). rewrite Z.mul_comm. reflexivity. }
    unfold point_bytes, x_of, y_of in H. cbn [encode_point fst snd] in H.
    unfold split_ciphertext.
    assert (Hspec : decrypt_spec d x1 y1 (sm3 (x2 ++ M ++ y2)) (xor_bytes M t) = Some M).
    { unfold decrypt_spec. rewrite Hv1. cbn [negb]. rewrite HS. fold x2 y2. rewrite Hxl. fold t. rewrite Ez.
      rewrite xor_bytes_involutive by (unfold t; rewrite kdf_spec_length; lia). rewrite list_eqb_refl. reflexivity. }
    assert (Hs1 : forall r, slice (4%N :: fe_bytes x1 ++ fe_bytes y1 ++ r) 1 33 = fe_bytes x1).
    { intros r. unfold slice. cbn [skipn Nat.sub]. apply firstn_app_l, HX. }
    assert (Hs2 : forall r, slice (4%N :: fe_bytes x1 ++ fe_bytes y1 ++ r) 33 65 = fe_bytes y1).
    { intros r. unfold slice. change 33%nat with (Datatypes.S 32). rewrite skipn_S_cons. rewrite (skipn_app_l (fe_bytes x1)) by exact HX.
      replace (65 - Datatypes.S 32)%nat with 32%nat by lia. apply firstn_app_l, HY. }
    assert (Hs3 : forall r, skipn 65 (4%N :: fe_bytes x1 ++ fe_bytes y1 ++ r) = r).
    { intros r. change 65%nat with (Datatypes.S 64). rewrite skipn_S_cons. rewrite app_assoc. apply skipn_app_l. rewrite app_length; lia. }
    destruct o; injection H as <-; cbn [app]; rewrite <- !app_assoc; rewrite Hs1, Hs2, Hs3, Hox, Hoy.
    - rewrite (firstn_app_l (sm3 _)), (skipn_app_l (sm3 _)) by apply sm3_length. exact Hspec.
    - rewrite app_length, sm3_length, Hxl. replace (length M + 32 - 32)%nat with (length (xor_bytes M t)) by lia.
      rewrite (skipn_app_l (xor_bytes M t)), (firstn_app_l (xor_bytes M t)) by reflexivity. exact Hspec.
  Qed.

  Lemma ScalarBaseMult_decode d : 1 <= d < sm2_n ->
    go_decode (ScalarBaseMult d) = sm2_base_mul d /\ 0 <= fst (ScalarBaseMult d) < sm2_p /\ 0 <= snd (ScalarBaseMult d) < sm2_p.
  Proof.
    intros Hd. pose proof (ScalarBaseMult_point Hfin d Hd) as HP.
    assert (Hv : sm2_valid (Some (ScalarBaseMult d)) = true) by (rewrite HP; apply (mul_valid Hp); [apply G_valid|lia]).
    split; [rewrite (go_decode_valid _ Hv); exact HP|].
    destruct (ScalarBaseMult d) as [x y]. apply valid_coords in Hv. exact Hv.
  Qed.

  Lemma Decrypt_Encrypt fuel d M rho mode c rho' :
    1 <= d < sm2_n -> (length rho / 40 < fuel)%nat ->
    Encrypt fuel (ScalarBaseMult d) M rho mode = Ok (c, rho') ->
    Decrypt (key_of d) c mode = Ok M.
  Proof.
    intros Hd Hf H. destruct (ScalarBaseMult_decode d Hd) as (Hdec & Hx & Hy).
    assert (HM : M <> []) by (intros ->; discriminate).
    rewrite Encrypt_is_spec in H by assumption. rewrite Hdec in H.
    destruct (encrypt_spec (sm2_base_mul d) M rho (order_of mode)) as [[i c0]|] eqn:E; [|discriminate].
    injection H as <- _. unfold encrypt_spec in E. apply encrypt_search_some in E as (_ & E & _).
    apply (proj1 (Decrypt_is_spec (key_of d) c0 mode)). cbn [D key_of].
    eapply decrypt_of_encrypt; [exact Hd|apply nonce_range|exact HM|exact E].
  Qed.
End RoundTrip.

(* ---------- consequences of Decrypt_is_spec used by the property file ----------------------------------- *)
Lemma Decrypt_ok_spec pr c mode M :
  Decrypt pr c mode = Ok M -> decrypt_bytes_spec (D pr) c (order_of mode) = Some M.
Proof.
  intros H. destruct (decrypt_bytes_spec (D pr) c (order_of mode)) as [M0|] eqn:E.
  - rewrite (proj1 (Decrypt_is_spec pr c mode) M0 E) in H. injection H as ->. reflexivity.
  - destruct (proj2 (Decrypt_is_spec pr c mode) E) as [e He]. rewrite He in H. discriminate.
Qed.

Lemma Decrypt_ok_implies pr c mode M :
  Decrypt pr c mode = Ok M ->
  (98 <= length c)%nat /\ hd 0%N c = 4%N /\
  let '(x, y, C3, C2) := split_ciphertext (order_of mode) c in
  sm2_valid (Some (x, y)) = true /\
  let S := sm2_mul (D pr) (Some (x, y)) in
  M = xor_bytes C2 (kdf_spec (fe_bytes (x_of S) ++ fe_bytes (y_of S)) (length C2)) /\
  C3 = sm3 (fe_bytes (x_of S) ++ M ++ fe_bytes (y_of S)).
Proof.
  intros H. apply Decrypt_ok_spec in H. unfold decrypt_bytes_spec in H.
  destruct (Nat.ltb_spec (length c) 98); [discriminate|]. split; [assumption|].
  destruct (N.eqb_spec (hd 0%N c) 4) as [E4|]; [|discriminate]. split; [exact E4|]. cbn [negb] in H.
  destruct (split_ciphertext (order_of mode) c) as [[[x y] C3] C2].
  apply decrypt_spec_sound in H. exact H.
Qed.

Lemma Decrypt_invalid_C1 c mode :
  (let '(x, y, _, _) := split_ciphertext (order_of mode) c in sm2_valid (Some (x, y)) = false) ->
  forall pr, exists e, Decrypt pr c mode = Err e.
Proof.
  intros H pr. apply (proj2 (Decrypt_is_spec pr c mode)). unfold decrypt_bytes_spec.
  destruct (length c <? 98)%nat; [reflexivity|]. destruct (negb (hd 0%N c =? 4)%N); [reflexivity|].
  destruct (split_ciphertext (order_of mode) c) as [[[x y] C3] C2]. apply decrypt_spec_invalid, H.
Qed.
