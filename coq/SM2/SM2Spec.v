(* GM/T 0003-2012 parts 2 (digital signature), 3 (key exchange) and 4 (public key encryption),
   transcribed from the standard over the affine curve specification EC/SM2Curve.v and SM3/SM3Spec.v.
   SPEC file: it never looks at the Go code.  Definitions only.

   Conventions: integers are Z, byte strings are list N, points are EC.ECAffine.point
   (None = the point at infinity O).  Field elements and integers are converted to byte strings of
   exactly 32 bytes (GM/T 0003.1 4.2.2/4.2.5: l = ceil(256/8)).  Lengths of keys / plaintexts are
   counted in bytes (the standard counts bits: klen = 8 * bytes). *)
From Coq Require Import List NArith ZArith Bool.
From GmsmVerif Require Import EC.ECAffine EC.SM2Curve SM3.SM3Spec SM2.SM2Bytes.
Import ListNotations.
Open Scope Z_scope.

Definition fe_bytes (x : Z) : list byte := i2osp 32 x.

(* ---------- part 2, 5.5: ZA = H256(ENTL_A || ID_A || a || b || xG || yG || xA || yA) ------------
   ENTL_A is the bit length of ID_A written on two bytes; identities of 8192 bytes or more do not
   have one. *)
Definition entl (id : list byte) : list byte := i2osp 2 (8 * Z.of_nat (length id)).

Definition za_spec (PA : Z * Z) (id : list byte) : list byte :=
  sm3 (entl id ++ id ++ fe_bytes sm2_a ++ fe_bytes sm2_b ++ fe_bytes sm2_Gx ++ fe_bytes sm2_Gy
       ++ fe_bytes (fst PA) ++ fe_bytes (snd PA)).

(* part 2, 6.1 A1-A2 / 7.1 B3-B4: e = Hv(ZA || M) converted to an integer *)
Definition e_spec (PA : Z * Z) (id msg : list byte) : Z := os2ip (sm3 (za_spec PA id ++ msg)).

(* x coordinate used in "(e + x1) mod n"; the standard never takes it of O *)
Definition x_of (P : point) : Z := fst (encode_point P).
Definition y_of (P : point) : Z := snd (encode_point P).

(* ---------- part 2, 6.1 A3-A7 for a given nonce k in [1, n-1] ---------------------------------
   None = "return to A3" (r = 0, r + k = n, or s = 0). *)
Definition sign_with_nonce (d e k : Z) : option (Z * Z) :=
  let x1 := x_of (sm2_base_mul k) in
  let r := (e + x1) mod sm2_n in
  if (r =? 0) || (r + k =? sm2_n) then None
  else
    let s := (modinv (1 + d) sm2_n * (k - r * d)) mod sm2_n in
    if s =? 0 then None else Some (r, s).

(* ---------- part 2, 7.1 B1-B7 ---------------------------------------------------------------------
   B1/B2: r', s' in [1, n-1]; B5: t = (r' + s') mod n, t = 0 fails; B6: (x1', y1') = [s']G + [t]PA;
   B7: R = (e' + x1') mod n, accept iff R = r'. *)
Definition verify_spec (PA : point) (e r s : Z) : Prop :=
  1 <= r < sm2_n /\ 1 <= s < sm2_n /\ (r + s) mod sm2_n <> 0 /\
  (e + x_of (sm2_add (sm2_base_mul s) (sm2_mul ((r + s) mod sm2_n) PA))) mod sm2_n = r.

(* ---------- part 3 5.4.3 / part 4 5.4.3: KDF(Z, klen) -------------------------------------------------
   ct = 1, 2, ... as a 32-bit big-endian counter; Ha_i = Hv(Z || ct); the last block is cut. *)
Definition kdf_block (z : list byte) (ct : nat) : list byte := sm3 (z ++ i2osp 4 (Z.of_nat ct)).

Definition kdf_spec (z : list byte) (klen : nat) : list byte :=
  firstn klen (flat_map (kdf_block z) (seq 1 ((klen + 31) / 32))).

(* ---------- part 4, 6.1 A1-A8 for a given nonce k --------------------------------------------------
   C1 = [k]G as 04 || x1 || y1; (x2, y2) = [k]PB; t = KDF(x2 || y2, klen), all zero: return to A1;
   C2 = M xor t; C3 = Hash(x2 || M || y2); C = C1 || C3 || C2 (GM/T 0003.4-2012) or C1 || C2 || C3
   (the 2010 draft ordering, mode C1C2C3). *)
Inductive ct_order := C1C3C2 | C1C2C3.

Definition point_bytes (P : point) : list byte := 4%N :: fe_bytes (x_of P) ++ fe_bytes (y_of P).

Definition encrypt_with_nonce (PB : point) (M : list byte) (k : Z) (o : ct_order) : option (list byte) :=
  let C1 := sm2_base_mul k in
  let S := sm2_mul k PB in
  let x2 := fe_bytes (x_of S) in
  let y2 := fe_bytes (y_of S) in
  let t := kdf_spec (x2 ++ y2) (length M) in
  if all_zero t then None
  else
    let C2 := xor_bytes M t in
    let C3 := sm3 (x2 ++ M ++ y2) in
    Some (match o with
          | C1C3C2 => point_bytes C1 ++ C3 ++ C2
          | C1C2C3 => point_bytes C1 ++ C2 ++ C3
          end).

(* ---------- part 4, 7.1 B1-B7 on parsed components -------------------------------------------------
   B1: C1 must be a point of the curve (coordinates field elements in [0, p-1] that satisfy the
   equation); B3: (x2, y2) = [dB]C1; B4: t = KDF, all zero fails;
   B5: M' = C2 xor t; B6: u = Hash(x2 || M' || y2) must equal C3. *)
Definition decrypt_spec (d : Z) (C1x C1y : Z) (C3 C2 : list byte) : option (list byte) :=
  if negb (sm2_valid (Some (C1x, C1y))) then None
  else
    let S := sm2_mul d (Some (C1x, C1y)) in
    let x2 := fe_bytes (x_of S) in
    let y2 := fe_bytes (y_of S) in
    let t := kdf_spec (x2 ++ y2) (length C2) in
    if all_zero t then None
    else
      let M' := xor_bytes C2 t in
      if list_eqb (sm3 (x2 ++ M' ++ y2)) C3 then Some M' else None.

(* ---------- part 3, 6.1: key exchange -----------------------------------------------------------------
   w = ceil(ceil(log2 n) / 2) - 1 = 127 for the 256-bit n;  x~ = 2^w + (x & (2^w - 1));  h = 1.
   The caller owns (d, P = [d]G) and the ephemeral (r, R = [r]G); the peer sent Ppeer, Rpeer.
   t = (d + x~(R) * r) mod n;  V = [h * t](Ppeer + [x~(Rpeer)]Rpeer);  V = O fails;
   K = KDF(xV || yV || ZA || ZB, klen);
   S1 = SB = Hash(02 || yV || Hash(xV || ZA || ZB || x1 || y1 || x2 || y2)),  S2 = SA = the same with 03,
   where (x1, y1) = RA is the ephemeral point of the initiator A and (x2, y2) = RB that of B. *)
Definition kx_w : Z := 127.
Definition x_bar (x : Z) : Z := 2 ^ kx_w + (x mod 2 ^ kx_w).

Record kx_out := mkKx { kx_K : list byte; kx_S1 : list byte; kx_S2 : list byte }.

Definition kx_conf (tag : byte) (V : point) (ZA ZB : list byte) (RA RB : Z * Z) : list byte :=
  sm3 (tag :: fe_bytes (y_of V)
       ++ sm3 (fe_bytes (x_of V) ++ ZA ++ ZB ++ fe_bytes (fst RA) ++ fe_bytes (snd RA)
               ++ fe_bytes (fst RB) ++ fe_bytes (snd RB))).

Definition kx_point (d r : Z) (R : Z * Z) (Ppeer Rpeer : Z * Z) : point :=
  let t := (d + x_bar (fst R) * r) mod sm2_n in
  sm2_mul (1 * t) (sm2_add (Some Ppeer) (sm2_mul (x_bar (fst Rpeer)) (Some Rpeer))).

(* initiator = true: the caller is A.  PA, PB are the long-term public keys of A and B. *)
Definition kx_spec (initiator : bool) (klen : nat) (idA idB : list byte)
           (d : Z) (P : Z * Z) (r : Z) (R : Z * Z) (Ppeer Rpeer : Z * Z) : option kx_out :=
  if negb (sm2_valid (Some Rpeer)) then None
  else
    match kx_point d r R Ppeer Rpeer with
    | None => None
    | Some _ as V =>
      let PA := if initiator then P else Ppeer in
      let PB := if initiator then Ppeer else P in
      let RA := if initiator then R else Rpeer in
      let RB := if initiator then Rpeer else R in
      let ZA := za_spec PA idA in
      let ZB := za_spec PB idB in
      Some (mkKx (kdf_spec (fe_bytes (x_of V) ++ fe_bytes (y_of V) ++ ZA ++ ZB) klen)
                 (kx_conf 2%N V ZA ZB RA RB) (kx_conf 3%N V ZA ZB RA RB))
    end.

(* ---------- the random reader contract ------------------------------------------------------------------
   The standard asks for "a random k in [1, n-1]" (part 2 A3, part 4 A1).  The package derives it from
   40 bytes of the caller's reader (extra-random-bits method of FIPS 186-4 B.5.1):
   attempt number i uses stream bytes [40 i, 40 i + 40). *)
Definition nonce_at (rho : list byte) (i : nat) : Z :=
  os2ip (firstn 40 (skipn (40 * i) rho)) mod (sm2_n - 1) + 1.

(* the first attempt among i, i+1, ..., i+m-1 whose nonce the standard does not send back to A3 *)
Fixpoint sign_search (d e : Z) (rho : list byte) (i m : nat) : option (nat * (Z * Z)) :=
  match m with
  | O => None
  | S m' =>
    match sign_with_nonce d e (nonce_at rho i) with
    | Some rs => Some (i, rs)
    | None => sign_search d e rho (S i) m'
    end
  end.

(* the signature GM/T 0003.2 prescribes for key d, digest e and the nonces of the stream rho *)
Definition sign_spec (d e : Z) (rho : list byte) : option (nat * (Z * Z)) :=
  sign_search d e rho 0 (length rho / 40).

Fixpoint encrypt_search (PB : point) (M rho : list byte) (o : ct_order) (i m : nat) : option (nat * list byte) :=
  match m with
  | O => None
  | S m' =>
    match encrypt_with_nonce PB M (nonce_at rho i) o with
    | Some c => Some (i, c)
    | None => encrypt_search PB M rho o (S i) m'
    end
  end.

Definition encrypt_spec (PB : point) (M rho : list byte) (o : ct_order) : option (nat * list byte) :=
  encrypt_search PB M rho o 0 (length rho / 40).

(* ---------- part 4, 7.1 on byte strings ---------------------------------------------------------------------
   C = 04 || x1 || y1 || C3 || C2 (or ... || C2 || C3): at least one byte of C2, PC = 04 (uncompressed). *)
Definition split_ciphertext (o : ct_order) (c : list byte) : Z * Z * list byte * list byte :=
  let body := skipn 65 c in
  (os2ip (slice c 1 33), os2ip (slice c 33 65),
   match o with C1C3C2 => firstn 32 body | C1C2C3 => skipn (length body - 32) body end,
   match o with C1C3C2 => skipn 32 body | C1C2C3 => firstn (length body - 32) body end).

Definition decrypt_bytes_spec (d : Z) (c : list byte) (o : ct_order) : option (list byte) :=
  if (length c <? 98)%nat then None
  else if negb (hd 0%N c =? 4)%N then None
  else let '(x, y, C3, C2) := split_ciphertext o c in decrypt_spec d x y C3 C2.
