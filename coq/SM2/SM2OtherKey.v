(* C02, "made for a different key": a ciphertext made for [d]G that another key d' decrypts without error
   exhibits an SM3 collision between different inputs; multiples of G below n are pairwise different. *)
From Coq Require Import List NArith ZArith Znumtheory Bool Lia Arith ZifyNat.
From GmsmVerif Require Import Lib.Outcome EC.ECAffine EC.SM2Curve EC.ECAffineProofs SM3.SM3Spec
     SM2.SM2Bytes SM2.SM2BytesProofs SM2.SM2Spec SM2.DER SM2.DERProofs SM2.SM2Model SM2.SM2SignProofs SM2.SM2GroupMin
     SM2.SM2EncProofs.
Import ListNotations.
Open Scope Z_scope.

Local Opaque i2osp.

Section DifferentKey.
  Variable Hp : P_prime.
  Variable Hassoc : Add_assoc.
  Variable HnG : G_order_divides_n.
  Variable Hfin : G_multiples_finite.
  Variable HNp : N_prime.

  (* multiples of G below n are pairwise different (G has order at least n) *)
  Lemma base_mul_inj a b : 0 <= a < sm2_n -> 0 <= b < sm2_n -> sm2_base_mul a = sm2_base_mul b -> a = b.
  Proof.
    assert (W : forall u v, 0 <= u -> u < v < sm2_n -> sm2_base_mul u <> sm2_base_mul v).
    { intros u v Ha Hb E. apply (Hfin (v - u) ltac:(lia)).
      change (sm2_mul u sm2_G = sm2_mul v sm2_G) in E.
      assert (Hva : sm2_valid (sm2_mul u sm2_G) = true) by (apply (mul_valid Hp); [apply G_valid|lia]).
      assert (Hvd : sm2_valid (sm2_mul (v - u) sm2_G) = true) by (apply (mul_valid Hp); [apply G_valid|lia]).
      replace v with (u + (v - u)) in E by lia.
      rewrite (mul_add Hp Hassoc) in E by (try apply G_valid; lia).
      (* A = A + X  ->  X = O *)
      rewrite <- (add_cancel_l Hp Hassoc (sm2_mul u sm2_G) (sm2_mul (v - u) sm2_G) Hva Hvd).
      rewrite <- E. apply (add_neg_r _ Hva). }
    intros Ha Hb E. destruct (Z.lt_trichotomy a b) as [H|[H|H]]; [|exact H|].
    - exfalso. apply (W a b); [lia|lia|exact E].
    - exfalso. apply (W b a); [lia|lia|symmetry; exact E].
  Qed.

  (* the shared points of two receivers d <> d' (mod n) for the same C1 = [k]G differ *)
  Lemma shared_points_differ d d' k :
    1 <= d < sm2_n -> 1 <= d' < sm2_n -> d <> d' -> 1 <= k < sm2_n ->
    sm2_mul d' (sm2_base_mul k) <> sm2_mul d (sm2_base_mul k).
  Proof.
    intros Hd Hd' Hne Hk E. pose proof n_pos as Hn.
    change (sm2_base_mul k) with (sm2_mul k sm2_G) in E.
    rewrite !(mul_mul Hp Hassoc) in E by (try apply G_valid; lia).
    change (sm2_mul (d' * k) sm2_G = sm2_mul (d * k) sm2_G) with (sm2_base_mul (d' * k) = sm2_base_mul (d * k)) in E.
    rewrite (base_mul_cong Hp Hassoc HnG (d' * k) ((d' * k) mod sm2_n)) in E
      by (try nia; try (apply Z.mod_pos_bound; lia); rewrite Z.mod_mod by lia; reflexivity).
    rewrite (base_mul_cong Hp Hassoc HnG (d * k) ((d * k) mod sm2_n)) in E
      by (try nia; try (apply Z.mod_pos_bound; lia); rewrite Z.mod_mod by lia; reflexivity).
    apply base_mul_inj in E; try (apply Z.mod_pos_bound; lia).
    (* (d' - d) k = 0 mod n with n prime, 0 < |d' - d| < n, 0 < k < n: impossible *)
    assert (Hdiv : (sm2_n | (d' - d) * k)).
    { apply Z.mod_divide; [lia|]. replace ((d' - d) * k) with (d' * k - d * k) by ring.
      rewrite Zminus_mod, E, Z.sub_diag. reflexivity. }
    apply (prime_mult sm2_n HNp) in Hdiv as [[q Hq]|[q Hq]].
    - assert (q = 0 \/ q <= -1 \/ 1 <= q) as [->|[Hq0|Hq0]] by lia; [lia| |]; nia.
    - assert (q <= 0 \/ 1 <= q) as [Hq0|Hq0] by lia; nia.
  Qed.

  (* encode_point is injective on curve points, so the hash inputs differ as byte strings *)
  Lemma hash_inputs_differ S S' M M' :
    sm2_valid S = true -> sm2_valid S' = true -> S' <> S -> length M' = length M ->
    fe_bytes (x_of S') ++ M' ++ fe_bytes (y_of S') <> fe_bytes (x_of S) ++ M ++ fe_bytes (y_of S).
  Proof.
    intros HS HS' Hne Hl E.
    pose proof (coords_ok_range S (valid_coords S HS)) as [Hx Hy].
    pose proof (coords_ok_range S' (valid_coords S' HS')) as [Hx' Hy'].
    assert (E1 : fe_bytes (x_of S') = fe_bytes (x_of S)).
    { apply (f_equal (firstn 32)) in E. rewrite !firstn_app_l in E by apply fe_length. exact E. }
    rewrite E1 in E. apply app_inv_head in E.
    assert (E2 : fe_bytes (y_of S') = fe_bytes (y_of S)).
    { apply (f_equal (skipn (length M))) in E. rewrite (skipn_app_l M) in E by reflexivity.
      rewrite <- Hl in E. rewrite (skipn_app_l M') in E by reflexivity. exact E. }
    apply (i2osp_inj 32) in E1; [|change (256 ^ Z.of_nat 32) with (2 ^ 256); lia..].
    apply (i2osp_inj 32) in E2; [|change (256 ^ Z.of_nat 32) with (2 ^ 256); lia..].
    apply Hne. unfold x_of, y_of in E1, E2.
    destruct S as [[x y]|], S' as [[x' y']|]; cbn [encode_point fst snd] in E1, E2.
    - subst. reflexivity.
    - subst. exfalso. exact (valid_not_00 _ HS eq_refl).
    - subst. exfalso. exact (valid_not_00 _ HS' eq_refl).
    - reflexivity.
  Qed.

  (* a ciphertext made for [d]G and accepted under another key d' exhibits an SM3 collision between the
     different inputs x2'||M'||y2' and x2||M||y2, (x2',y2') = [d']C1, (x2,y2) = [d]C1 *)
  Lemma other_key_collision fuel d d' M rho mode c rho' M' :
    1 <= d < sm2_n -> 1 <= d' < sm2_n -> d <> d' -> (length rho / 40 < fuel)%nat ->
    Encrypt fuel (ScalarBaseMult d) M rho mode = Ok (c, rho') ->
    Decrypt (key_of d') c mode = Ok M' ->
    exists k, 1 <= k < sm2_n /\
      let S := sm2_mul d (sm2_base_mul k) in let S' := sm2_mul d' (sm2_base_mul k) in
      S' <> S /\
      sm3 (fe_bytes (x_of S') ++ M' ++ fe_bytes (y_of S')) = sm3 (fe_bytes (x_of S) ++ M ++ fe_bytes (y_of S)) /\
      fe_bytes (x_of S') ++ M' ++ fe_bytes (y_of S') <> fe_bytes (x_of S) ++ M ++ fe_bytes (y_of S).
  Proof.
    intros Hd Hd' Hne Hf HE HD.
    pose proof (Decrypt_Encrypt Hp Hassoc Hfin fuel d M rho mode c rho' Hd Hf HE) as HD0.
    destruct (ScalarBaseMult_decode Hp Hfin d Hd) as (Hdec & Hx & Hy).
    assert (HMne : M <> []) by (intros ->; discriminate).
    rewrite Encrypt_is_spec in HE by assumption. rewrite Hdec in HE.
    destruct (encrypt_spec (sm2_base_mul d) M rho (order_of mode)) as [[i c0]|] eqn:Es; [|discriminate].
    injection HE as <- _. unfold encrypt_spec in Es. apply encrypt_search_some in Es as (_ & Es & _).
    pose proof (nonce_range rho i) as Hk. set (k := nonce_at rho i) in *. exists k. split; [exact Hk|]. cbv zeta.
    (* both decryptions parse the same components *)
    apply Decrypt_ok_implies in HD as (_ & _ & HD). apply Decrypt_ok_implies in HD0 as (_ & _ & HD0).
    cbn [D key_of] in HD, HD0.
    destruct (split_ciphertext (order_of mode) c0) as [[[x y] C3] C2] eqn:Esp.
    destruct HD as (Hv & HM' & H3'). destruct HD0 as (_ & HM & H3).
    (* C1 = [k]G *)
    assert (HC1 : Some (x, y) = sm2_base_mul k).
    { pose proof (decrypt_of_encrypt Hp Hassoc Hfin d M k (order_of mode) c0 Hd Hk HMne Es) as Hs.
      unfold decrypt_bytes_spec in Hs. destruct (length c0 <? 98)%nat; [discriminate|].
      destruct (negb (hd 0%N c0 =? 4)%N); [discriminate|]. rewrite Esp in Hs. clear Hs.
      pose proof (encrypt_c1 (sm2_base_mul d) M k (order_of mode) c0 Es) as Hc1. rewrite Esp in Hc1. cbn [fst] in Hc1.
      pose proof (Hfin k ltac:(lia)) as Hfk. change (sm2_base_mul k) with (sm2_mul k sm2_G) in *.
      assert (Hvk : sm2_valid (sm2_mul k sm2_G) = true) by (apply (mul_valid Hp); [apply G_valid|lia]).
      destruct (sm2_mul k sm2_G) as [[xk yk]|]; [|contradiction].
      pose proof (valid_coords _ Hvk) as [Hxk Hyk]. pose proof p_lt_2_256.
      unfold x_of, y_of in Hc1. cbn [encode_point fst snd] in Hc1. destruct Hc1 as [-> ->].
      unfold fe_bytes. rewrite !os2ip_i2osp_small by (change (256 ^ Z.of_nat 32) with (2 ^ 256); lia). reflexivity. }
    rewrite HC1 in *.
    assert (HS : sm2_valid (sm2_mul d (sm2_base_mul k)) = true)
      by (apply (mul_valid Hp); [apply (mul_valid Hp); [apply G_valid|lia]|lia]).
    assert (HS' : sm2_valid (sm2_mul d' (sm2_base_mul k)) = true)
      by (apply (mul_valid Hp); [apply (mul_valid Hp); [apply G_valid|lia]|lia]).
    pose proof (shared_points_differ d d' k Hd Hd' Hne Hk) as Hdiff.
    split; [exact Hdiff|]. split; [congruence|].
    apply hash_inputs_differ; try assumption.
    rewrite HM, HM'. rewrite !xor_bytes_length, !kdf_spec_length. reflexivity.
  Qed.
End DifferentKey.
