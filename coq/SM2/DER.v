(* Models of the two ASN.1 libraries the sm2 package calls.  Definitions only (lemmas: SM2/DERProofs.v).

   golang.org/x/crypto/cryptobyte (v0.0.0-20201012173705):
     String.ReadASN1 / readASN1      -> [cb_read_any], [cb_read]
     checkASN1Integer, readASN1BigInt -> [int_minimal], [int_value], [cb_read_int]
     Builder.AddASN1, AddASN1BigInt  -> [der_len], [tlv], [int_content]
     used by PrivateKey.Sign and PublicKey.Verify:  [sig_encode], [sig_decode]
   encoding/asn1 (Go 1.23 standard library):
     parseTagAndLength, parseField for struct{*big.Int,*big.Int,[]byte,[]byte} -> [asn1_read], [asn1_unmarshal_cipher]
     Marshal of the same struct                                               -> [asn1_marshal_cipher]
     used by CipherMarshal / CipherUnmarshal (EncryptAsn1 / DecryptAsn1).
   Modelled, not verified: these libraries themselves; the models are exercised by the differential
   runs of C01 / C02 on catalogues of malformed encodings. *)
From Coq Require Import List NArith ZArith Bool Arith.
From GmsmVerif Require Import SM2.SM2Bytes.
Import ListNotations.
Open Scope Z_scope.

Definition TAG_SEQUENCE : N := 0x30.
Definition TAG_INTEGER : N := 0x02.
Definition TAG_OCTET_STRING : N := 0x04.

(* ---------- cryptobyte: reading ------------------------------------------------------------------- *)
(* readASN1(out, &tag, skipHeader=true): (tag, contents, rest).  Rejects: fewer than 2 bytes, a
   high-tag-number identifier, the indefinite form 0x80, more than 4 length bytes, a long form that
   is not minimal (value < 128 or leading zero byte), a length that overflows 32 bits, truncation. *)
Definition cb_read_any (b : list byte) : option (N * list byte * list byte) :=
  match b with
  | tag :: lenByte :: rest2 =>
    if (N.land tag 0x1f =? 0x1f)%N then None
    else if (N.land lenByte 0x80 =? 0)%N then
      if Z.of_nat (length rest2) <? Z.of_N lenByte then None
      else Some (tag, firstn (N.to_nat lenByte) rest2, skipn (N.to_nat lenByte) rest2)
    else
      let lenLen := N.to_nat (N.land lenByte 0x7f) in
      if ((lenLen =? 0)%nat || (4 <? lenLen)%nat || (length rest2 <? lenLen)%nat)%bool then None
      else
        let lb := firstn lenLen rest2 in
        let len32 := os2ip lb in
        if len32 <? 128 then None
        else if (hd 0%N lb =? 0)%N then None
        else if 2 ^ 32 <=? 2 + Z.of_nat lenLen + len32 then None
        else
          let rest3 := skipn lenLen rest2 in
          if Z.of_nat (length rest3) <? len32 then None
          else Some (tag, firstn (Z.to_nat len32) rest3, skipn (Z.to_nat len32) rest3)
  | _ => None
  end.

(* ReadASN1(out, tag) *)
Definition cb_read (b : list byte) (tag : N) : option (list byte * list byte) :=
  match cb_read_any b with
  | Some (t, c, rest) => if (t =? tag)%N then Some (c, rest) else None
  | None => None
  end.

(* checkASN1Integer *)
Definition int_minimal (c : list byte) : bool :=
  match c with
  | [] => false
  | [_] => true
  | b0 :: b1 :: _ =>
    negb (((b0 =? 0)%N && (N.land b1 0x80 =? 0)%N) || ((b0 =? 0xff)%N && (N.land b1 0x80 =? 0x80)%N))
  end.

(* readASN1BigInt: two's complement value of the contents *)
Definition int_value (c : list byte) : Z :=
  if (N.land (hd 0%N c) 0x80 =? 0x80)%N
  then - (os2ip (map (fun b => N.lxor b 0xff) c) + 1)
  else os2ip c.

Definition cb_read_int (b : list byte) : option (Z * list byte) :=
  match cb_read b TAG_INTEGER with
  | Some (c, rest) => if int_minimal c then Some (int_value c, rest) else None
  | None => None
  end.

(* the parser of PublicKey.Verify:
     input.ReadASN1(&inner, SEQUENCE) && input.Empty() && inner.ReadASN1Integer(r) &&
     inner.ReadASN1Integer(s) && inner.Empty() *)
Definition sig_decode (b : list byte) : option (Z * Z) :=
  match cb_read b TAG_SEQUENCE with
  | Some (inner, []) =>
    match cb_read_int inner with
    | Some (r, rest1) =>
      match cb_read_int rest1 with
      | Some (s, []) => Some (r, s)
      | _ => None
      end
    | None => None
    end
  | _ => None
  end.

(* ---------- writing (cryptobyte Builder and encoding/asn1 Marshal agree on these) ------------------ *)
(* definite length in the minimal form *)
Definition der_len (L : Z) : list byte :=
  if L <? 128 then [Z.to_N L]
  else let lb := be_bytes L in N.of_nat (128 + length lb) :: lb.

Definition tlv (tag : N) (content : list byte) : list byte :=
  tag :: der_len (Z.of_nat (length content)) ++ content.

(* AddASN1BigInt / marshalBigInt: minimal two's complement *)
Definition int_content (n : Z) : list byte :=
  if n <? 0 then
    let bytes := map (fun b => N.lxor b 0xff) (be_bytes (- n - 1)) in
    (if match bytes with [] => true | b0 :: _ => (N.land b0 0x80 =? 0)%N end then [0xff%N] else []) ++ bytes
  else if n =? 0 then [0%N]
  else
    let bytes := be_bytes n in
    (if (N.land (hd 0%N bytes) 0x80 =? 0)%N then [] else [0%N]) ++ bytes.

Definition der_int (n : Z) : list byte := tlv TAG_INTEGER (int_content n).

(* PrivateKey.Sign: SEQUENCE { INTEGER r, INTEGER s } *)
Definition sig_encode (r s : Z) : list byte := tlv TAG_SEQUENCE (der_int r ++ der_int s).

(* ---------- encoding/asn1: reading ------------------------------------------------------------------ *)
(* the loop over the length bytes of parseTagAndLength *)
Fixpoint asn1_len_loop (bs : list byte) (acc : Z) : option Z :=
  match bs with
  | [] => Some acc
  | b :: t =>
    if 2 ^ 23 <=? acc then None
    else
      let acc' := acc * 256 + Z.of_N b in
      if acc' =? 0 then None else asn1_len_loop t acc'
  end.

(* parseTagAndLength + the tag comparison and invalidLength test of parseField, for an expected
   single-byte universal identifier [tag] (0x30, 0x02, 0x04): (contents, rest).
   A high-tag-number identifier can never match (its number is >= 31 or it is an error). *)
Definition asn1_read (b : list byte) (tag : N) : option (list byte * list byte) :=
  match b with
  | t :: lenByte :: rest2 =>
    if (N.land t 0x1f =? 0x1f)%N then None
    else
      match (if (N.land lenByte 0x80 =? 0)%N then Some (Z.of_N lenByte, rest2)
             else
               let numBytes := N.to_nat (N.land lenByte 0x7f) in
               if ((numBytes =? 0)%nat || (length rest2 <? numBytes)%nat)%bool then None
               else
                 match asn1_len_loop (firstn numBytes rest2) 0 with
                 | Some L => if L <? 128 then None else Some (L, skipn numBytes rest2)
                 | None => None
                 end) with
      | Some (L, rest3) =>
        if negb (t =? tag)%N then None
        else if Z.of_nat (length rest3) <? L then None
        else Some (firstn (Z.to_nat L) rest3, skipn (Z.to_nat L) rest3)
      | None => None
      end
  | _ => None
  end.

(* parseBigInt: checkInteger is the same minimality rule; the value may be negative *)
Definition asn1_read_int (b : list byte) : option (Z * list byte) :=
  match asn1_read b TAG_INTEGER with
  | Some (c, rest) => if int_minimal c then Some (int_value c, rest) else None
  | None => None
  end.

(* asn1.Unmarshal(data, &sm2Cipher{XCoordinate, YCoordinate *big.Int; HASH, CipherText []byte}):
   bytes after the SEQUENCE are returned as "rest" (ignored by the callers) and bytes after the
   fourth field inside the SEQUENCE are allowed by the library. *)
Definition asn1_unmarshal_cipher (b : list byte) : option (Z * Z * list byte * list byte) :=
  match asn1_read b TAG_SEQUENCE with
  | Some (inner, _) =>
    match asn1_read_int inner with
    | Some (x, r1) =>
      match asn1_read_int r1 with
      | Some (y, r2) =>
        match asn1_read r2 TAG_OCTET_STRING with
        | Some (h, r3) =>
          match asn1_read r3 TAG_OCTET_STRING with
          | Some (c, _) => Some (x, y, h, c)
          | None => None
          end
        | None => None
        end
      | None => None
      end
    | None => None
    end
  | None => None
  end.

Definition asn1_marshal_cipher (x y : Z) (h c : list byte) : list byte :=
  tlv TAG_SEQUENCE (der_int x ++ der_int y ++ tlv TAG_OCTET_STRING h ++ tlv TAG_OCTET_STRING c).
