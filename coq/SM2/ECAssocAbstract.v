(* Associativity of the affine chord-and-tangent law over an abstract field of large characteristic,
   by exhaustive case analysis; every leaf is a polynomial problem closed by [nsatz] after the
   disequalities have been turned into equalities d * i == 1 (Rabinowitsch) and the slopes have been
   introduced as variables constrained by l * (x2 - x1) == y2 - y1.
   The addition is given as a RELATION [add_rel] (one constructor per branch of ECAffine.ec_add), so that
   the case analysis is an inversion; SM2/ECAssoc.v shows that ec_add satisfies the relation. *)
From Coq Require Import ZArith NsatzTactic Setoid Morphisms.

Section Assoc.
  Context {F : Type} {f0 f1 : F} {fadd fmul fsub : F -> F -> F} {fopp : F -> F} {feq : F -> F -> Prop}.
  Context {Fops : @Ring_ops F f0 f1 fadd fmul fsub fopp feq}.
  Context {FRing : @Ring F f0 f1 fadd fmul fsub fopp feq Fops}.
  Context {FCring : @Cring F f0 f1 fadd fmul fsub fopp feq Fops FRing}.
  Context {FId : @Integral_domain F f0 f1 fadd fmul fsub fopp feq Fops FRing FCring}.
  Infix "==" := feq (at level 70).
  Infix "+" := fadd. Infix "*" := fmul. Infix "-" := fsub.
  Notation "0" := f0. Notation "1" := f1.

  (* a field: non-zero elements have inverses *)
  Hypothesis inv_ex : forall x, ~ x == 0 -> exists i, x * i == 1.
  (* large characteristic: the integer constants that nsatz's certificates divide by are not zero *)
  Hypothesis Hchar : forall c : Z, c <> 0%Z -> (Z.abs c < 2 ^ 200)%Z -> ~ IZR1 c == 0.

  Variables a b : F.
  (* the curve is non-singular: 4 a^3 + 27 b^2 <> 0 (needed in exactly two leaves: a chord through a point of
     order two cannot be tangent there) *)
  Hypothesis Hdisc :
    ~ (1 + 1) * (1 + 1) * a * a * a + (1 + 1 + 1) * (1 + 1 + 1) * (1 + 1 + 1) * b * b == 0.

  Definition pt := option (F * F).
  Definition peq (P Q : pt) : Prop :=
    match P, Q with
    | None, None => True
    | Some (x, y), Some (x', y') => x == x' /\ y == y'
    | _, _ => False
    end.
  Definition oc (P : pt) : Prop :=
    match P with None => True | Some (x, y) => y * y == x * x * x + a * x + b end.

  Inductive add_rel : pt -> pt -> pt -> Prop :=
  | AR_0l : forall Q S, peq S Q -> add_rel None Q S
  | AR_0r : forall x y S, peq S (Some (x, y)) -> add_rel (Some (x, y)) None S
  | AR_chord : forall x1 y1 x2 y2 l x3 y3,
      ~ x1 == x2 -> l * (x2 - x1) == y2 - y1 -> x3 == l * l - x1 - x2 -> y3 == l * (x1 - x3) - y1 ->
      add_rel (Some (x1, y1)) (Some (x2, y2)) (Some (x3, y3))
  | AR_opp : forall x1 y1 x2 y2,
      x1 == x2 -> y1 + y2 == 0 -> add_rel (Some (x1, y1)) (Some (x2, y2)) None
  | AR_dbl : forall x1 y1 x2 y2 l x3 y3,
      x1 == x2 -> y1 == y2 -> ~ y1 + y1 == 0 ->
      l * (y1 + y1) == x1 * x1 + x1 * x1 + x1 * x1 + a -> x3 == l * l - x1 - x2 -> y3 == l * (x1 - x3) - y1 ->
      add_rel (Some (x1, y1)) (Some (x2, y2)) (Some (x3, y3)).

  Lemma neq_sub x y : ~ x == y -> ~ x - y == 0.
  Proof. intros H E. apply H. nsatz. Qed.

  Ltac side_goal :=
    lazymatch goal with
    | |- ~ (_ (interpret3 (PEc ?c) _) _) =>
      exact (Hchar c ltac:(discriminate) ltac:(reflexivity))
    end.

  Ltac invert_neq :=
    repeat match goal with
           | H : ~ (?x + ?x) == 0 |- _ =>
             let i := fresh "i" in let Hi := fresh "Hi" in destruct (inv_ex _ H) as [i Hi]; clear H
           | H : ~ ?x == ?y |- _ =>
             let i := fresh "i" in let Hi := fresh "Hi" in destruct (inv_ex _ (neq_sub _ _ H)) as [i Hi]; clear H
           end.

  Ltac leaf :=
    cbn [peq oc] in *;
    repeat match goal with H : _ /\ _ |- _ => destruct H end;
    try contradiction; try exact I;
    invert_neq;
    lazymatch goal with
    | |- False => apply (@integral_domain_one_zero _ _ _ _ _ _ _ _ _ _ _ FId); nsatz; side_goal
    | |- _ /\ _ => split; nsatz; side_goal
    end.

  Theorem assoc_rel P Q R S T U V :
    oc P -> oc Q -> oc R ->
    add_rel P Q S -> add_rel S R U -> add_rel Q R T -> add_rel P T V -> peq U V.
  Proof.
    intros HP HQ HR H1 H2 H3 H4.
    destruct P as [[x1 y1]|], Q as [[x2 y2]|], R as [[x3 y3]|];
      inversion H1; clear H1; subst; inversion H3; clear H3; subst;
      inversion H2; clear H2; subst; inversion H4; clear H4; subst;
      repeat match goal with p : pt |- _ => destruct p as [[? ?]|] end.
    all: try (timeout 120 leaf).
    all: destruct (inv_ex _ Hdisc) as [idisc Hidisc]; leaf.
  Qed.
End Assoc.
