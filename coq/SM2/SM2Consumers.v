(* Models of the consumers of SM2 verification / decryption that the C01 and C02 anchors name
   (gmtls/auth.go verifyHandshakeSignature, x509/x509.go checkSignature for an *ecdsa.PublicKey on the SM2 curve,
   gmtls/gm_key_agreement.go eccKeyAgreementGM.processClientKeyExchange), as the code is now, and the lemmas
   saying that they add no acceptance of their own: whatever they accept, the strict verifier / the error-
   reporting decryption accepts.  Definitions first, lemmas at the end (new file; nothing published changes). *)
From Coq Require Import List NArith ZArith Bool Lia Arith.
From GmsmVerif Require Import Lib.Outcome EC.ECAffine EC.SM2Curve SM3.SM3Spec
     SM2.SM2Bytes SM2.SM2BytesProofs SM2.SM2Spec SM2.DER SM2.SM2Model.
Import ListNotations.
Open Scope Z_scope.

(* encoding/asn1.Unmarshal(sig, &ecdsaSignature{R, S *big.Int}): rest and surplus elements ignored *)
Definition asn1_unmarshal_sig (b : list byte) : option (Z * Z * list byte) :=
  match asn1_read b TAG_SEQUENCE with
  | Some (inner, rest) =>
    match asn1_read_int inner with
    | Some (r, r1) =>
      match asn1_read_int r1 with
      | Some (s, _) => Some (r, s, rest)
      | None => None
      end
    | None => None
    end
  | None => None
  end.

(* verifyHandshakeSignature, case signatureSM2 with an *sm2.PublicKey: pubKey.Verify(digest, sig) *)
Definition verifyHandshakeSignature_sm2 (pub : pubkey) (digest sig : list byte) : bool :=
  PublicKey_Verify pub digest sig.

(* verifyHandshakeSignature, case signatureECDSA with an *ecdsa.PublicKey whose curve is P256Sm2():
   asn1.Unmarshal must succeed, R and S must be positive, then sm2Public.Verify(digest, sig) re-parses strictly *)
Definition verifyHandshakeSignature_ecdsa (pub : pubkey) (digest sig : list byte) : bool :=
  match asn1_unmarshal_sig sig with
  | Some (r, s, _) =>
    if ((r <=? 0) || (s <=? 0))%bool then false else PublicKey_Verify pub digest sig
  | None => false
  end.

(* x509 checkSignature, *ecdsa.PublicKey on the SM2 curve (SM2WithSM3 / SM2WithSHA1 / SM2WithSHA256 all sign the
   raw TBS): asn1.Unmarshal, no rest, R and S positive, asn1.Marshal(R,S) must give back the signature bytes,
   then sm2.Sm2Verify(pub, signed, nil, R, S) *)
Definition x509_checkSignature_sm2 (pub : pubkey) (signed sig : list byte) : bool :=
  match asn1_unmarshal_sig sig with
  | Some (r, s, []) =>
    if ((r <=? 0) || (s <=? 0))%bool then false
    else if negb (list_eqb (sig_encode r s) sig) then false
    else Sm2Verify pub signed [] r s
  | _ => false
  end.

(* eccKeyAgreementGM.processClientKeyExchange: 2-byte length prefix, CipherUnmarshal, PrivateKey.Decrypt,
   48-byte premaster secret.  Err 13 = errClientKeyExchange *)
Definition processClientKeyExchange (pr : priv) (ct : list byte) : outcome (list byte) :=
  match ct with
  | b0 :: b1 :: cipher =>
    if negb (Z.of_N b0 * 256 + Z.of_N b1 =? Z.of_nat (length cipher)) then Err 13
    else
      do raw <- CipherUnmarshal cipher;
      do plain <- PrivateKey_Decrypt pr raw;
      if (length plain =? 48)%nat then Ok plain else Err 13
  | _ => Err 13
  end.

(* ---------- lemmas ------------------------------------------------------------------------------------------- *)
Lemma handshake_sm2_is_strict pub digest sig :
  verifyHandshakeSignature_sm2 pub digest sig = PublicKey_Verify pub digest sig.
Proof. reflexivity. Qed.

Lemma handshake_ecdsa_sound pub digest sig :
  verifyHandshakeSignature_ecdsa pub digest sig = true -> PublicKey_Verify pub digest sig = true.
Proof.
  unfold verifyHandshakeSignature_ecdsa. destruct (asn1_unmarshal_sig sig) as [[[r s] rest]|]; [|discriminate].
  destruct ((r <=? 0) || (s <=? 0))%bool; [discriminate|]. exact (fun H => H).
Qed.

Lemma x509_checkSignature_sound pub signed sig :
  x509_checkSignature_sm2 pub signed sig = true ->
  exists r s, sig = sig_encode r s /\ 0 < r /\ 0 < s /\ Sm2Verify pub signed [] r s = true.
Proof.
  unfold x509_checkSignature_sm2. destruct (asn1_unmarshal_sig sig) as [[[r s] rest]|]; [|discriminate].
  destruct rest; [|discriminate].
  destruct (Z.leb_spec r 0) as [|Hr]; [discriminate|]. destruct (Z.leb_spec s 0) as [|Hs]; [discriminate|]. cbn [orb].
  destruct (list_eqb (sig_encode r s) sig) eqn:E; [|discriminate]. cbn [negb]. intros Hv.
  apply list_eqb_eq in E. exists r, s. auto.
Qed.

Lemma processClientKeyExchange_ok pr ct plain :
  processClientKeyExchange pr ct = Ok plain ->
  exists b0 b1 cipher raw,
    ct = b0 :: b1 :: cipher /\ Z.of_N b0 * 256 + Z.of_N b1 = Z.of_nat (length cipher) /\
    CipherUnmarshal cipher = Ok raw /\ Decrypt pr raw 0 = Ok plain /\ length plain = 48%nat.
Proof.
  unfold processClientKeyExchange. destruct ct as [|b0 [|b1 cipher]]; try discriminate.
  destruct (Z.eqb_spec (Z.of_N b0 * 256 + Z.of_N b1) (Z.of_nat (length cipher))) as [E|]; [|discriminate].
  cbn [negb]. destruct (CipherUnmarshal cipher) as [raw| | |] eqn:Eu; try discriminate. cbn [obind].
  unfold PrivateKey_Decrypt. destruct (Decrypt pr raw 0) as [pl| | |] eqn:Ed; try discriminate. cbn [obind].
  destruct (Nat.eqb_spec (length pl) 48); [|discriminate]. intros [= <-].
  exists b0, b1, cipher, raw. auto.
Qed.
