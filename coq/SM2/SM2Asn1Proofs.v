(* The ASN.1 form of the ciphertext: CipherUnmarshal inverts CipherMarshal (32-byte coordinates are
   restored whatever their leading zeros), hence DecryptAsn1 inverts EncryptAsn1. *)
From Coq Require Import List NArith ZArith Znumtheory Bool Lia Arith.
From GmsmVerif Require Import Lib.Outcome EC.ECAffine EC.SM2Curve SM3.SM3Spec
     SM2.SM2Bytes SM2.SM2BytesProofs SM2.SM2Spec SM2.DER SM2.DERProofs SM2.SM2Model SM2.SM2SignProofs
     SM2.SM2GroupMin SM2.SM2EncProofs.
Import ListNotations.
Open Scope Z_scope.

Local Opaque i2osp.

(* ---------- encoding/asn1 reader on what the writer produces ------------------------------------------ *)
Lemma asn1_len_loop_small lb : bytes_ok lb -> (1 <= length lb <= 2)%nat -> hd 0%N lb <> 0%N ->
  asn1_len_loop lb 0 = Some (os2ip lb).
Proof.
  intros Hok Hl Hhd. destruct lb as [|b1 [|b2 [|b3 lb]]]; cbn [length] in Hl; try lia; cbn [hd] in Hhd.
  - cbn [asn1_len_loop]. change (2 ^ 23 <=? 0) with false. cbv iota.
    destruct (Z.eqb_spec (0 * 256 + Z.of_N b1) 0); [lia|]. rewrite os2ip_cons. cbn [length os2ip fold_left]. f_equal. cbn. lia.
  - apply bytes_ok_cons in Hok as [H1 Hok]. apply bytes_ok_cons in Hok as [H2 _].
    cbn [asn1_len_loop]. change (2 ^ 23 <=? 0) with false. cbv iota.
    destruct (Z.eqb_spec (0 * 256 + Z.of_N b1) 0); [lia|].
    destruct (Z.leb_spec (2 ^ 23) (0 * 256 + Z.of_N b1)); [lia|].
    destruct (Z.eqb_spec ((0 * 256 + Z.of_N b1) * 256 + Z.of_N b2) 0); [lia|].
    rewrite !os2ip_cons. cbn [length os2ip fold_left]. f_equal. cbn. lia.
Qed.

Lemma asn1_read_tlv tag c rest :
  (N.land tag 0x1f =? 0x1f)%N = false -> Z.of_nat (length c) < 65536 ->
  asn1_read (tlv tag c ++ rest) tag = Some (c, rest).
Proof.
  intros Ht Hl. unfold tlv. set (L := Z.of_nat (length c)) in *.
  destruct (Z.ltb_spec L 128) as [Hs|Hs].
  - rewrite der_len_short by lia. cbn [app]. unfold asn1_read. rewrite Ht.
    destruct (bit7_of_small (Z.to_N L) ltac:(lia)) as [E _]. rewrite E. rewrite N.eqb_refl. cbn [negb].
    rewrite app_length. destruct (Z.ltb_spec (Z.of_nat (length c + length rest)) (Z.of_N (Z.to_N L))); [lia|].
    replace (Z.to_nat (Z.of_N (Z.to_N L))) with (length c) by lia.
    rewrite firstn_app_l, skipn_app_l by reflexivity. reflexivity.
  - rewrite der_len_long by lia. set (lb := be_bytes L) in *.
    assert (Hlb2 : (length lb <= 2)%nat).
    { apply be_bytes_length. change (256 ^ Z.of_nat 2) with 65536. lia. }
    assert (Hlb1 : (1 <= length lb)%nat).
    { destruct lb eqn:E; [|cbn; lia]. exfalso. apply (be_bytes_nonempty L); [lia|exact E]. }
    cbn [app]. unfold asn1_read. rewrite Ht.
    assert (E : (N.land (N.of_nat (128 + length lb)) 128 =? 0)%N = false /\
                N.to_nat (N.land (N.of_nat (128 + length lb)) 127) = length lb).
    { destruct (length lb) as [|[|[|k]]]; try lia; split; reflexivity. }
    destruct E as [E1 E2]. rewrite E1, E2.
    destruct (Nat.eqb_spec (length lb) 0); [lia|]. rewrite <- app_assoc, app_length.
    destruct (Nat.ltb_spec (length lb + length (c ++ rest)) (length lb)); [lia|]. cbn [orb].
    rewrite firstn_app_l, skipn_app_l by reflexivity.
    destruct (be_bytes_hd L) as [E0|E0]; [exfalso; apply (be_bytes_nonempty L); [lia|exact E0]|]. fold lb in E0.
    rewrite asn1_len_loop_small by (try apply be_bytes_ok; try lia; exact E0).
    unfold lb at 1 2. rewrite os2ip_be_bytes by lia.
    destruct (Z.ltb_spec L 128); [lia|]. rewrite N.eqb_refl. cbn [negb].
    rewrite app_length. destruct (Z.ltb_spec (Z.of_nat (length c + length rest)) L); [lia|].
    unfold L. rewrite Nat2Z.id. rewrite firstn_app_l, skipn_app_l by reflexivity. reflexivity.
Qed.

Lemma asn1_read_int_der z rest : 0 <= z < 2 ^ 256 -> asn1_read_int (der_int z ++ rest) = Some (z, rest).
Proof.
  intros Hz. unfold asn1_read_int, der_int. pose proof (int_content_length z Hz).
  rewrite asn1_read_tlv by (try reflexivity; lia).
  destruct (int_complete z ltac:(lia)) as [Hm Hv]. rewrite Hm, Hv. reflexivity.
Qed.

Lemma tlv_length_bound tag c : Z.of_nat (length c) < 65536 -> (length (tlv tag c) <= length c + 4)%nat.
Proof.
  intros H. rewrite tlv_length. unfold der_len. destruct (Z.ltb_spec (Z.of_nat (length c)) 128); cbn [length]; [lia|].
  assert (length (be_bytes (Z.of_nat (length c))) <= 2)%nat by (apply be_bytes_length; change (256 ^ Z.of_nat 2) with 65536; lia).
  lia.
Qed.

Lemma asn1_cipher_roundtrip x y h c :
  0 <= x < 2 ^ 256 -> 0 <= y < 2 ^ 256 -> length h = 32%nat -> Z.of_nat (length c) < 65000 ->
  asn1_unmarshal_cipher (asn1_marshal_cipher x y h c) = Some (x, y, h, c).
Proof.
  intros Hx Hy Hh Hc. unfold asn1_unmarshal_cipher, asn1_marshal_cipher.
  pose proof (int_content_length x Hx). pose proof (int_content_length y Hy).
  assert (H1 : (length (der_int x) <= 37)%nat) by (unfold der_int; etransitivity; [apply tlv_length_bound; lia|lia]).
  assert (H2 : (length (der_int y) <= 37)%nat) by (unfold der_int; etransitivity; [apply tlv_length_bound; lia|lia]).
  assert (H3 : (length (tlv TAG_OCTET_STRING h) <= 36)%nat) by (etransitivity; [apply tlv_length_bound; lia|lia]).
  assert (H4 : (length (tlv TAG_OCTET_STRING c) <= length c + 4)%nat) by (apply tlv_length_bound; lia).
  rewrite <- (app_nil_r (tlv TAG_SEQUENCE _)).
  rewrite asn1_read_tlv by (try reflexivity; rewrite !app_length; lia).
  rewrite asn1_read_int_der by assumption. rewrite asn1_read_int_der by assumption.
  rewrite asn1_read_tlv by (try reflexivity; lia).
  rewrite <- (app_nil_r (tlv TAG_OCTET_STRING c)).
  rewrite asn1_read_tlv by (try reflexivity; lia). reflexivity.
Qed.

(* ---------- CipherMarshal / CipherUnmarshal ------------------------------------------------------------ *)
Lemma pad32_os2ip X : bytes_ok X -> length X = 32%nat -> pad32 (be_bytes (os2ip X)) = X.
Proof.
  intros Hok Hl. pose proof (os2ip_bound X Hok) as Hb. rewrite Hl in Hb. change (256 ^ Z.of_nat 32) with (2 ^ 256) in Hb.
  rewrite pad32_be_bytes by exact Hb. rewrite <- Hl. apply i2osp_os2ip, Hok.
Qed.

Lemma Cipher_roundtrip X Y H C2 :
  bytes_ok X -> bytes_ok Y -> length X = 32%nat -> length Y = 32%nat -> length H = 32%nat -> Z.of_nat (length C2) < 65000 ->
  CipherMarshal (4%N :: X ++ Y ++ H ++ C2) = Ok (asn1_marshal_cipher (os2ip X) (os2ip Y) H C2) /\
  CipherUnmarshal (asn1_marshal_cipher (os2ip X) (os2ip Y) H C2) = Ok (4%N :: X ++ Y ++ H ++ C2).
Proof.
  intros HXo HYo HX HY HH HC.
  pose proof (os2ip_bound X HXo) as Hbx. rewrite HX in Hbx. change (256 ^ Z.of_nat 32) with (2 ^ 256) in Hbx.
  pose proof (os2ip_bound Y HYo) as Hby. rewrite HY in Hby. change (256 ^ Z.of_nat 32) with (2 ^ 256) in Hby.
  split.
  - unfold CipherMarshal. cbn [length]. rewrite !app_length, HX, HY, HH.
    destruct (Nat.ltb_spec (S (32 + (32 + (32 + length C2)))) (1 + 64 + 32)); [lia|].
    change (skipn 1 (4%N :: X ++ Y ++ H ++ C2)) with (X ++ Y ++ H ++ C2).
    assert (S1 : slice (X ++ Y ++ H ++ C2) 0 32 = X) by (apply slice_app_l, HX).
    assert (S2 : slice (X ++ Y ++ H ++ C2) 32 64 = Y).
    { unfold slice. rewrite (skipn_app_l X) by exact HX. change (64 - 32)%nat with 32%nat. apply firstn_app_l, HY. }
    assert (S3 : skipn 96 (X ++ Y ++ H ++ C2) = C2).
    { rewrite !app_assoc. apply skipn_app_l. rewrite !app_length; lia. }
    assert (S4 : slice (X ++ Y ++ H ++ C2) 64 96 = H).
    { unfold slice. rewrite (app_assoc X Y), (skipn_app_l (X ++ Y)) by (rewrite app_length; lia).
      change (96 - 64)%nat with 32%nat. apply firstn_app_l, HH. }
    rewrite S1, S2, S3, S4. reflexivity.
  - unfold CipherUnmarshal. rewrite asn1_cipher_roundtrip by assumption.
    destruct (Z.ltb_spec (os2ip X) 0); [lia|]. destruct (Z.ltb_spec (os2ip Y) 0); [lia|]. cbn [orb].
    assert (L1 : (length (be_bytes (os2ip X)) <= 32)%nat) by (apply be_bytes_length; change (256 ^ Z.of_nat 32) with (2 ^ 256); lia).
    assert (L2 : (length (be_bytes (os2ip Y)) <= 32)%nat) by (apply be_bytes_length; change (256 ^ Z.of_nat 32) with (2 ^ 256); lia).
    destruct (Nat.ltb_spec 32 (length (be_bytes (os2ip X)))); [lia|].
    destruct (Nat.ltb_spec 32 (length (be_bytes (os2ip Y)))); [lia|]. rewrite HH. cbn [orb negb Nat.eqb].
    rewrite !pad32_os2ip by assumption. reflexivity.
Qed.

(* the statement in terms of coordinates: all x, y below 2^256, including short ones *)
Lemma asn1_ciphertext_roundtrip x y H C2 :
  0 <= x < 2 ^ 256 -> 0 <= y < 2 ^ 256 -> length H = 32%nat -> Z.of_nat (length C2) < 65000 ->
  CipherMarshal (4%N :: fe_bytes x ++ fe_bytes y ++ H ++ C2) = Ok (asn1_marshal_cipher x y H C2) /\
  CipherUnmarshal (asn1_marshal_cipher x y H C2) = Ok (4%N :: fe_bytes x ++ fe_bytes y ++ H ++ C2).
Proof.
  intros Hx Hy HH HC.
  pose proof (Cipher_roundtrip (fe_bytes x) (fe_bytes y) H C2 (i2osp_ok 32 x) (i2osp_ok 32 y)
                (fe_length x) (fe_length y) HH HC) as R.
  assert (Ex : os2ip (fe_bytes x) = x) by (apply os2ip_i2osp_small; change (256 ^ Z.of_nat 32) with (2 ^ 256); assumption).
  assert (Ey : os2ip (fe_bytes y) = y) by (apply os2ip_i2osp_small; change (256 ^ Z.of_nat 32) with (2 ^ 256); assumption).
  rewrite Ex, Ey in R. exact R.
Qed.

(* ---------- DecryptAsn1 after EncryptAsn1 --------------------------------------------------------------- *)
Lemma encrypt_with_nonce_shape PB M k c :
  encrypt_with_nonce PB M k C1C3C2 = Some c ->
  exists x y H C2, c = 4%N :: fe_bytes x ++ fe_bytes y ++ H ++ C2 /\ length H = 32%nat /\ length C2 = length M.
Proof.
  unfold encrypt_with_nonce.
  set (x2 := fe_bytes (x_of (sm2_mul k PB))). set (y2 := fe_bytes (y_of (sm2_mul k PB))).
  set (t := kdf_spec (x2 ++ y2) (length M)).
  destruct (all_zero t); [discriminate|]. intros E. apply some_inj in E. subst c.
  exists (x_of (sm2_base_mul k)), (y_of (sm2_base_mul k)), (sm3 (x2 ++ M ++ y2)), (xor_bytes M t).
  split; [|split].
  - unfold point_bytes. cbn [app]. rewrite <- app_assoc. reflexivity.
  - apply sm3_length.
  - rewrite xor_bytes_length. unfold t. rewrite kdf_spec_length. lia.
Qed.

Lemma DecryptAsn1_EncryptAsn1 (Hp : P_prime) (Hassoc : Add_assoc) (Hfin : G_multiples_finite) fuel d M rho der rho' :
  1 <= d < sm2_n -> (length rho / 40 < fuel)%nat -> Z.of_nat (length M) < 65000 ->
  EncryptAsn1 fuel (ScalarBaseMult d) M rho = Ok (der, rho') ->
  DecryptAsn1 (key_of d) der = Ok M.
Proof.
  intros Hd Hf HM H. unfold EncryptAsn1 in H.
  destruct (Encrypt fuel (ScalarBaseMult d) M rho 0) as [[c r']| | |] eqn:E; try discriminate. cbn [obind] in H.
  pose proof (Decrypt_Encrypt Hp Hassoc Hfin fuel d M rho 0 c r' Hd Hf E) as HD.
  destruct (ScalarBaseMult_decode Hp Hfin d Hd) as (Hdec & Hx & Hy).
  assert (HMne : M <> []) by (intros ->; discriminate).
  rewrite Encrypt_is_spec in E by assumption.
  destruct (encrypt_spec _ M rho (order_of 0)) as [[i c0]|] eqn:Es; [|discriminate].
  injection E as <- <-. unfold encrypt_spec in Es. apply encrypt_search_some in Es as (_ & Es & _).
  change (order_of 0) with C1C3C2 in Es.
  apply encrypt_with_nonce_shape in Es as (x & y & Hh & C2 & -> & HH & HC2).
  destruct (Cipher_roundtrip (fe_bytes x) (fe_bytes y) Hh C2 (i2osp_ok 32 x) (i2osp_ok 32 y)
              (fe_length x) (fe_length y) HH ltac:(lia)) as [R1 R2].
  rewrite R1 in H. cbn [obind] in H. injection H as <- _.
  unfold DecryptAsn1. rewrite R2. cbn [obind]. exact HD.
Qed.
