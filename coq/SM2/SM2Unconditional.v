(* Associativity is a theorem (SM2/ECAssoc.v): the premise Add_assoc of SM2/SM2GroupMin.v follows from
   "sm2_p is prime", so every result that needed it holds without it. *)
From Coq Require Import ZArith Znumtheory.
From GmsmVerif Require Import EC.ECAffine EC.SM2Curve SM2.SM2GroupMin SM2.ECAssoc.

Lemma add_assoc_holds : P_prime -> Add_assoc.
Proof. intros Hp. exact (sm2_add_assoc_proved Hp). Qed.
