(* Additions to SM2/SM2SignProofs.v (kept in a file of their own so that the published file stays as it is):
   what the signing loop does for a private value outside the property's domain [1, n-2]. *)
From Coq Require Import List NArith ZArith Bool Lia Arith.
From GmsmVerif Require Import Lib.Outcome EC.ECAffine EC.SM2Curve SM3.SM3Spec
     SM2.SM2Bytes SM2.SM2BytesProofs SM2.SM2Spec SM2.DER SM2.SM2Model SM2.SM2SignProofs.
Import ListNotations.
Open Scope Z_scope.

(* d = n-1 (more generally gcd(d+1, n) <> 1): new(big.Int).ModInverse(d1, N) returns nil and s.Mul(s, nil)
   dereferences it - a run-time panic as soon as a nonce passes the r tests (probe against /repo:
   "invalid memory address or nil pointer dereference" for d = n-1 and d = 2n-1).  The property's domain is
   d in [1, n-2], where gcd(d+1, n) = 1 for prime n. *)
Lemma sign_loop_invalid_key fuel d e rho :
  Z.gcd (d + 1) sm2_n <> 1 -> (40 <= length rho)%nat ->
  let k := nonce_at rho 0 in
  let r := (e + x_of (sm2_base_mul k)) mod sm2_n in
  r <> 0 -> r + k <> sm2_n ->
  sign_loop (S fuel) d e rho = Panic.
Proof.
  intros Hg Hlen k r Hr Hrk. cbn [sign_loop]. rewrite (randFieldElement_ok rho Hlen). cbn [obind].
  pose proof (nonce_range rho 0) as Hk. fold k in Hk |- *.
  rewrite ScalarBaseMult_small by lia. unfold x_of in r.
  replace (fst (encode_point (sm2_base_mul k)) + e) with (e + fst (encode_point (sm2_base_mul k))) by lia.
  fold r. destruct (Z.eqb_spec r 0); [contradiction|]. destruct (Z.eqb_spec (r + k) sm2_n); [contradiction|].
  cbn [orb]. destruct (Z.eqb_spec (Z.gcd (d + 1) sm2_n) 1); [contradiction|]. reflexivity.
Qed.
