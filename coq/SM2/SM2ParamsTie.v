(* Tie between the constants the SM2 specification / model write as literals and what /repo's source says
   now (Gen/SM2Params.v and Gen/SM2SigParams.v are regenerated from sm2/p256.go and sm2/sm2.go by the
   translator on every check run): a changed constant in the source breaks these lemmas. *)
From Coq Require Import List NArith ZArith Lia Bool.
From GmsmVerif Require Import EC.SM2Curve SM2.SM2Bytes SM2.SM2Model Gen.SM2Params Gen.SM2SigParams.
Import ListNotations.
Open Scope Z_scope.

(* the curve parameters assigned in initP256Sm2 are those of GM/T 0003.5, and BitSize/8+8 = 40 bytes per nonce *)
Lemma curve_params_tied :
  gen_P = sm2_p /\ gen_N = sm2_n /\ gen_A = sm2_a /\ gen_B = sm2_b /\ gen_Gx = sm2_Gx /\ gen_Gy = sm2_Gy /\
  gen_BitSize / gen_rand_div + gen_rand_extra = 40.
Proof. repeat split; reflexivity. Qed.

(* default user ID, ID length limit of ZA, mode values, minimal ciphertext length of Decrypt *)
Lemma sig_params_tied :
  gen_default_uid = default_uid /\ gen_uid_limit = 8192 /\ gen_C1C3C2 = 0 /\ gen_C1C2C3 = 1 /\
  gen_decrypt_min = Z.of_nat (1 + 64 + 32 + 1).
Proof. repeat split; reflexivity. Qed.

(* Byte layout of the ciphertext and of the padded coordinates, as a fingerprint of the source: every slice
   bound, index offset, compared width, byte literal and subtracted constant of Encrypt, Decrypt, CipherMarshal,
   CipherUnmarshal, ZA and keCoordBytes, in source order (-1 = bound absent or not constant).  The model
   (SM2/SM2Model.v) writes the same layout: prefix byte 4; coordinates padded to 32 bytes with
   zeroByteSlice()[:32-n]; C1 at offsets 1..33..65 of the ciphertext (0..32..64 after the prefix is dropped),
   C3 at 64..96, C2 from 96; minimal length 1+64+32+1.  An edit of the layout changes these lists. *)
Definition layout_statement : Prop :=
  gen_Encrypt_slices = [(-1); (-1); (-1); (-1); (-1); (-1); (-1); (-1); (-1); 64; 64; 96; 96; (-1)] /\
  gen_Encrypt_offsets = [96] /\
  gen_Encrypt_widths = [32; 32; 32; 32] /\
  gen_Encrypt_bytes = [4; 4; 4] /\
  gen_Encrypt_subs = [32; 32; 32; 32; 96] /\
  gen_Decrypt_slices = [1; (-1); 1; (-1); (-1); 64; 64; (-1); (-1); (-1); 1; (-1); (-1); 32; 32; 64; (-1); (-1); (-1); (-1); 64; 96] /\
  gen_Decrypt_offsets = [0; 96] /\
  gen_Decrypt_widths = [4; 32; 32; 0] /\
  gen_Decrypt_bytes = [] /\
  gen_Decrypt_subs = [96; 32; 32; 96; 32; 32] /\
  gen_CipherMarshal_slices = [1; (-1); (-1); 32; 32; 64; 64; 96; 96; (-1)] /\
  gen_CipherMarshal_offsets = [] /\
  gen_CipherMarshal_widths = [] /\
  gen_CipherMarshal_bytes = [] /\
  gen_CipherMarshal_subs = [] /\
  gen_CipherUnmarshal_slices = [(-1); (-1); (-1); (-1)] /\
  gen_CipherUnmarshal_offsets = [] /\
  gen_CipherUnmarshal_widths = [0; 0; 32; 32; 32; 32; 32] /\
  gen_CipherUnmarshal_bytes = [4] /\
  gen_CipherUnmarshal_subs = [32; 32] /\
  gen_ZA_slices = [(-1); (-1); (-1); (-1); (-1); 32] /\
  gen_ZA_offsets = [] /\
  gen_ZA_widths = [0; 32; 32] /\
  gen_ZA_bytes = [] /\
  gen_ZA_subs = [32; 32] /\
  gen_keCoordBytes_slices = [(-1); (-1)] /\
  gen_keCoordBytes_offsets = [] /\
  gen_keCoordBytes_widths = [32] /\
  gen_keCoordBytes_bytes = [] /\
  gen_keCoordBytes_subs = [32] /\
  gen_zeroByteSlice = repeat 0%N 32.

Lemma layout_tied : layout_statement.
Proof. unfold layout_statement. repeat split; reflexivity. Qed.

(* ---- Padding sites, read semantically (round 6) ----
   The per-function lists above are taken from the function body WITH the bodies of unmodelled same-package
   helpers accounted at their call sites (translator: sm2sigHelper), so moving the padding block into a helper
   such as leftPad32(buf) leaves them unchanged.  In addition the translator recognises every padding site -
   the inline block or a call X = h(X) of a helper that is exactly that block - and emits its two constants;
   the lemma below proves that each site, read as a function on byte strings with the constants and the
   zeroByteSlice() literal of the source, is the model's pad32 for EVERY buffer, and that no use of
   zeroByteSlice() stands outside such a site. *)

(* Semantic reading of one padding site  if n := len(X); n < W1 { X = append(zeroByteSlice()[:W2-n], X...) }
   with the two constants (W1, W2) and the contents of zeroByteSlice() as the source has them now.  A slice
   bound outside 0..len(zeroByteSlice()) is a run-time panic in Go: None. *)
Definition pad_site (w : Z * Z) (buf : list N) : option (list N) :=
  let n := Z.of_nat (length buf) in
  if n <? fst w then
    let hi := snd w - n in
    if (0 <=? hi) && (hi <=? Z.of_nat (length gen_zeroByteSlice))
    then Some (firstn (Z.to_nat hi) gen_zeroByteSlice ++ buf) else None
  else Some buf.

Lemma firstn_repeat_le : forall (A : Type) (a : A) k n, (k <= n)%nat -> firstn k (repeat a n) = repeat a k.
Proof.
  induction k as [|k IH]; intros n Hk; [reflexivity|].
  destruct n as [|n]; [lia|]. cbn [repeat firstn]. f_equal. apply IH. lia.
Qed.

(* every site with the constants (32, 32) IS the model's pad32, for every buffer *)
Lemma pad_site_32_is_pad32 : forall buf, pad_site (32, 32) buf = Some (pad32 buf).
Proof.
  intro buf. unfold pad_site, pad32. cbn [fst snd].
  replace gen_zeroByteSlice with (repeat 0%N 32) by reflexivity.
  rewrite repeat_length.
  destruct (Nat.ltb_spec (length buf) 32) as [Hlt|Hge].
  - replace (Z.of_nat (length buf) <? 32) with true by (symmetry; apply Z.ltb_lt; lia).
    replace ((0 <=? 32 - Z.of_nat (length buf)) && (32 - Z.of_nat (length buf) <=? Z.of_nat 32))%bool with true
      by (symmetry; apply andb_true_intro; split; apply Z.leb_le; lia).
    rewrite firstn_repeat_le by lia.
    replace (Z.to_nat (32 - Z.of_nat (length buf))) with (32 - length buf)%nat by lia. reflexivity.
  - replace (Z.of_nat (length buf) <? 32) with false by (symmetry; apply Z.ltb_ge; lia). reflexivity.
Qed.

Definition gen_all_pads : list (Z * Z) :=
  gen_Encrypt_pads ++ gen_Decrypt_pads ++ gen_CipherUnmarshal_pads ++ gen_ZA_pads ++ gen_keCoordBytes_pads.

Definition pad_sites_statement : Prop :=
  (forall w, In w gen_all_pads -> forall buf, pad_site w buf = Some (pad32 buf)) /\
  length gen_Encrypt_pads = 4%nat /\ length gen_Decrypt_pads = 2%nat /\ length gen_CipherUnmarshal_pads = 2%nat /\
  length gen_ZA_pads = 2%nat /\ length gen_keCoordBytes_pads = 1%nat /\
  gen_Encrypt_stray_zero_uses = 0 /\ gen_Decrypt_stray_zero_uses = 0 /\ gen_CipherUnmarshal_stray_zero_uses = 0 /\
  gen_ZA_stray_zero_uses = 0 /\ gen_keCoordBytes_stray_zero_uses = 0.

Lemma pad_sites_tied : pad_sites_statement.
Proof.
  unfold pad_sites_statement. split.
  - intros w Hin. cbv in Hin.
    repeat (destruct Hin as [<-|Hin]; [apply pad_site_32_is_pad32|]). contradiction.
  - repeat split; reflexivity.
Qed.
