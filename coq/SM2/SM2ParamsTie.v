(* Tie between the constants the SM2 specification / model write as literals and what /repo's source says
   now (Gen/SM2Params.v and Gen/SM2SigParams.v are regenerated from sm2/p256.go and sm2/sm2.go by the
   translator on every check run): a changed constant in the source breaks these lemmas. *)
From Coq Require Import List NArith ZArith.
From GmsmVerif Require Import EC.SM2Curve SM2.SM2Bytes SM2.SM2Model Gen.SM2Params Gen.SM2SigParams.
Import ListNotations.
Open Scope Z_scope.

(* the curve parameters assigned in initP256Sm2 are those of GM/T 0003.5, and BitSize/8+8 = 40 bytes per nonce *)
Lemma curve_params_tied :
  gen_P = sm2_p /\ gen_N = sm2_n /\ gen_A = sm2_a /\ gen_B = sm2_b /\ gen_Gx = sm2_Gx /\ gen_Gy = sm2_Gy /\
  gen_BitSize / gen_rand_div + gen_rand_extra = 40.
Proof. repeat split; reflexivity. Qed.

(* default user ID, ID length limit of ZA, mode values, minimal ciphertext length of Decrypt *)
Lemma sig_params_tied :
  gen_default_uid = default_uid /\ gen_uid_limit = 8192 /\ gen_C1C3C2 = 0 /\ gen_C1C2C3 = 1 /\
  gen_decrypt_min = Z.of_nat (1 + 64 + 32 + 1).
Proof. repeat split; reflexivity. Qed.
