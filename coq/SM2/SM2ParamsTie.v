(* Tie between the constants the SM2 specification / model write as literals and what /repo's source says
   now (Gen/SM2Params.v and Gen/SM2SigParams.v are regenerated from sm2/p256.go and sm2/sm2.go by the
   translator on every check run): a changed constant in the source breaks these lemmas. *)
From Coq Require Import List NArith ZArith.
From GmsmVerif Require Import EC.SM2Curve SM2.SM2Bytes SM2.SM2Model Gen.SM2Params Gen.SM2SigParams.
Import ListNotations.
Open Scope Z_scope.

(* the curve parameters assigned in initP256Sm2 are those of GM/T 0003.5, and BitSize/8+8 = 40 bytes per nonce *)
Lemma curve_params_tied :
  gen_P = sm2_p /\ gen_N = sm2_n /\ gen_A = sm2_a /\ gen_B = sm2_b /\ gen_Gx = sm2_Gx /\ gen_Gy = sm2_Gy /\
  gen_BitSize / gen_rand_div + gen_rand_extra = 40.
Proof. repeat split; reflexivity. Qed.

(* default user ID, ID length limit of ZA, mode values, minimal ciphertext length of Decrypt *)
Lemma sig_params_tied :
  gen_default_uid = default_uid /\ gen_uid_limit = 8192 /\ gen_C1C3C2 = 0 /\ gen_C1C2C3 = 1 /\
  gen_decrypt_min = Z.of_nat (1 + 64 + 32 + 1).
Proof. repeat split; reflexivity. Qed.

(* Byte layout of the ciphertext and of the padded coordinates, as a fingerprint of the source: every slice
   bound, index offset, compared width, byte literal and subtracted constant of Encrypt, Decrypt, CipherMarshal,
   CipherUnmarshal, ZA and keCoordBytes, in source order (-1 = bound absent or not constant).  The model
   (SM2/SM2Model.v) writes the same layout: prefix byte 4; coordinates padded to 32 bytes with
   zeroByteSlice()[:32-n]; C1 at offsets 1..33..65 of the ciphertext (0..32..64 after the prefix is dropped),
   C3 at 64..96, C2 from 96; minimal length 1+64+32+1.  An edit of the layout changes these lists. *)
Definition layout_statement : Prop :=
  gen_Encrypt_slices = [(-1); (-1); (-1); (-1); (-1); (-1); (-1); (-1); (-1); 64; 64; 96; 96; (-1)] /\
  gen_Encrypt_offsets = [96] /\
  gen_Encrypt_widths = [32; 32; 32; 32] /\
  gen_Encrypt_bytes = [4; 4; 4] /\
  gen_Encrypt_subs = [32; 32; 32; 32; 96] /\
  gen_Decrypt_slices = [1; (-1); 1; (-1); (-1); 64; 64; (-1); (-1); (-1); 1; (-1); (-1); 32; 32; 64; (-1); (-1); (-1); (-1); 64; 96] /\
  gen_Decrypt_offsets = [0; 96] /\
  gen_Decrypt_widths = [4; 32; 32; 0] /\
  gen_Decrypt_bytes = [] /\
  gen_Decrypt_subs = [96; 32; 32; 96; 32; 32] /\
  gen_CipherMarshal_slices = [1; (-1); (-1); 32; 32; 64; 64; 96; 96; (-1)] /\
  gen_CipherMarshal_offsets = [] /\
  gen_CipherMarshal_widths = [] /\
  gen_CipherMarshal_bytes = [] /\
  gen_CipherMarshal_subs = [] /\
  gen_CipherUnmarshal_slices = [(-1); (-1); (-1); (-1)] /\
  gen_CipherUnmarshal_offsets = [] /\
  gen_CipherUnmarshal_widths = [0; 0; 32; 32; 32; 32; 32] /\
  gen_CipherUnmarshal_bytes = [4] /\
  gen_CipherUnmarshal_subs = [32; 32] /\
  gen_ZA_slices = [(-1); (-1); (-1); (-1); (-1); 32] /\
  gen_ZA_offsets = [] /\
  gen_ZA_widths = [0; 32; 32] /\
  gen_ZA_bytes = [] /\
  gen_ZA_subs = [32; 32] /\
  gen_keCoordBytes_slices = [(-1); (-1)] /\
  gen_keCoordBytes_offsets = [] /\
  gen_keCoordBytes_widths = [32] /\
  gen_keCoordBytes_bytes = [] /\
  gen_keCoordBytes_subs = [32] /\
  gen_zeroByteSlice = repeat 0%N 32.

Lemma layout_tied : layout_statement.
Proof. unfold layout_statement. repeat split; reflexivity. Qed.
