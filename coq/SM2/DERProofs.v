(* The cryptobyte reader used by PublicKey.Verify accepts exactly the strict DER encodings that the
   Builder used by PrivateKey.Sign produces (for non-negative integers), and the encoding/asn1 reader
   of the ciphertext structure inverts its writer. *)
From Coq Require Import List NArith ZArith Bool Lia Arith.
From GmsmVerif Require Import SM2.SM2Bytes SM2.SM2BytesProofs SM2.DER.
Import ListNotations.
Open Scope Z_scope.

(* ---------- facts about single bytes, by exhaustion ---------------------------------------------------- *)
Lemma byte_forall (P : N -> bool) :
  forallb P (map N.of_nat (seq 0 256)) = true -> forall b, (b < 256)%N -> P b = true.
Proof.
  intros H b Hb. rewrite forallb_forall in H. apply H. apply in_map_iff.
  exists (N.to_nat b). split; [apply N2Nat.id|]. apply in_seq. lia.
Qed.

Lemma bit7_clear b : (b < 256)%N -> (N.land b 0x80 =? 0)%N = true -> (b < 128)%N.
Proof.
  intros Hb H.
  pose proof (byte_forall (fun b => implb (N.land b 0x80 =? 0)%N (b <? 128)%N) eq_refl b Hb) as F.
  cbv beta in F. rewrite H in F. cbn in F. apply N.ltb_lt, F.
Qed.

Lemma bit7_set b : (b < 256)%N -> (N.land b 0x80 =? 0)%N = false ->
  b = (128 + N.land b 0x7f)%N /\ (N.land b 0x80 =? 0x80)%N = true /\ (128 <= b)%N.
Proof.
  intros Hb H.
  pose proof (byte_forall (fun b => implb (negb (N.land b 0x80 =? 0)%N)
      ((b =? 128 + N.land b 0x7f)%N && (N.land b 0x80 =? 0x80)%N && (128 <=? b)%N)) eq_refl b Hb) as F.
  cbv beta in F. rewrite H in F. cbn [negb implb] in F.
  apply andb_true_iff in F as [F F3]. apply andb_true_iff in F as [F1 F2].
  apply N.eqb_eq in F1. apply N.leb_le in F3. auto.
Qed.

Lemma bit7_of_small b : (b < 128)%N -> (N.land b 0x80 =? 0)%N = true /\ (N.land b 0x80 =? 0x80)%N = false.
Proof.
  intros Hb.
  pose proof (byte_forall (fun b => implb (b <? 128)%N ((N.land b 0x80 =? 0)%N && negb (N.land b 0x80 =? 0x80)%N))
                eq_refl b ltac:(lia)) as F.
  cbv beta in F. destruct (N.ltb_spec b 128); [|lia]. cbn [implb] in F.
  apply andb_true_iff in F as [F1 F2]. apply negb_true_iff in F2. auto.
Qed.

Lemma bit7_80_iff b : (b < 256)%N -> (N.land b 0x80 =? 0x80)%N = negb (N.land b 0x80 =? 0)%N.
Proof.
  intros Hb.
  pose proof (byte_forall (fun b => Bool.eqb (N.land b 0x80 =? 0x80)%N (negb (N.land b 0x80 =? 0)%N)) eq_refl b Hb) as F.
  apply Bool.eqb_prop in F. exact F.
Qed.

(* ---------- lengths --------------------------------------------------------------------------------------- *)
Lemma der_len_short L : 0 <= L < 128 -> der_len L = [Z.to_N L].
Proof. intros H. unfold der_len. destruct (Z.ltb_spec L 128); [reflexivity|lia]. Qed.

Lemma der_len_long L : 128 <= L -> der_len L = N.of_nat (128 + length (be_bytes L)) :: be_bytes L.
Proof. intros H. unfold der_len. destruct (Z.ltb_spec L 128); [lia|reflexivity]. Qed.

Lemma tlv_length tag c : length (tlv tag c) = (1 + length (der_len (Z.of_nat (length c))) + length c)%nat.
Proof. unfold tlv. cbn [length]. rewrite app_length. lia. Qed.

Lemma tlv_ok tag c : (tag < 256)%N -> bytes_ok c -> Z.of_nat (length (tlv tag c)) < 2 ^ 32 -> bytes_ok (tlv tag c).
Proof.
  intros Ht Hc Hl. unfold tlv. apply bytes_ok_cons. split; [exact Ht|]. apply bytes_ok_app. split; [|exact Hc].
  unfold der_len. destruct (Z.ltb_spec (Z.of_nat (length c)) 128).
  - constructor; [lia|constructor].
  - apply bytes_ok_cons. split; [|apply be_bytes_ok].
    rewrite tlv_length in Hl.
    assert (length (be_bytes (Z.of_nat (length c))) <= 4)%nat.
    { apply be_bytes_length. change (256 ^ Z.of_nat 4) with (2 ^ 32). lia. }
    lia.
Qed.

(* ---------- cryptobyte readASN1 <-> tlv ------------------------------------------------------------------ *)
Lemma cb_read_any_sound b tag c rest :
  bytes_ok b -> cb_read_any b = Some (tag, c, rest) ->
  b = tlv tag c ++ rest /\ Z.of_nat (length (tlv tag c)) < 2 ^ 32.
Proof.
  intros Hb. unfold cb_read_any. destruct b as [|t [|lenByte rest2]]; try discriminate.
  apply bytes_ok_cons in Hb as [Ht Hb]. apply bytes_ok_cons in Hb as [Hlb Hr2].
  destruct (N.land t 31 =? 31)%N; [discriminate|].
  destruct (N.land lenByte 128 =? 0)%N eqn:E7.
  - (* short form *)
    apply bit7_clear in E7; [|exact Hlb].
    destruct (Z.ltb_spec (Z.of_nat (length rest2)) (Z.of_N lenByte)); [discriminate|].
    intros [= <- <- <-].
    assert (Hl : length (firstn (N.to_nat lenByte) rest2) = N.to_nat lenByte) by (apply firstn_length_le; lia).
    unfold tlv. rewrite Hl. rewrite der_len_short by lia.
    replace (Z.to_N (Z.of_nat (N.to_nat lenByte))) with lenByte by lia.
    cbn [app length]. rewrite firstn_skipn. split; [reflexivity|]. rewrite Hl. lia.
  - (* long form *)
    apply bit7_set in E7 as (E7 & _ & _); [|exact Hlb].
    set (lenLen := N.to_nat (N.land lenByte 127)) in *.
    destruct (Nat.eqb_spec lenLen 0); [discriminate|]. destruct (Nat.ltb_spec 4 lenLen); [discriminate|].
    destruct (Nat.ltb_spec (length rest2) lenLen); [discriminate|]. cbn [orb].
    set (lb := firstn lenLen rest2) in *. set (len32 := os2ip lb) in *.
    destruct (Z.ltb_spec len32 128); [discriminate|].
    destruct (N.eqb_spec (hd 0%N lb) 0); [discriminate|].
    destruct (Z.leb_spec (2 ^ 32) (2 + Z.of_nat lenLen + len32)); [discriminate|].
    set (rest3 := skipn lenLen rest2) in *.
    destruct (Z.ltb_spec (Z.of_nat (length rest3)) len32); [discriminate|].
    intros [= <- <- <-].
    assert (Hlbl : length lb = lenLen) by (apply firstn_length_le; lia).
    assert (Hl : length (firstn (Z.to_nat len32) rest3) = Z.to_nat len32) by (apply firstn_length_le; lia).
    assert (Hbe : be_bytes len32 = lb).
    { unfold len32. rewrite be_bytes_os2ip by (apply bytes_ok_firstn; exact Hr2). apply strip0_id. assumption. }
    unfold tlv. rewrite Hl, Z2Nat.id by lia. rewrite der_len_long by lia. rewrite Hbe, Hlbl.
    replace (N.of_nat (128 + lenLen)) with lenByte by (unfold lenLen; lia).
    cbn [app length]. rewrite !app_length, Hlbl, Hl.
    split; [|lia]. f_equal. f_equal. rewrite <- app_assoc. rewrite firstn_skipn. symmetry. apply firstn_skipn.
Qed.

Lemma cb_read_any_complete tag c rest :
  (N.land tag 0x1f =? 0x1f)%N = false -> Z.of_nat (length (tlv tag c)) < 2 ^ 32 ->
  cb_read_any (tlv tag c ++ rest) = Some (tag, c, rest).
Proof.
  intros Ht Hl. rewrite tlv_length in Hl. unfold tlv in *. set (L := Z.of_nat (length c)) in *.
  destruct (Z.ltb_spec L 128) as [Hs|Hs].
  - rewrite der_len_short in * by lia. cbn [app]. unfold cb_read_any. rewrite Ht.
    destruct (bit7_of_small (Z.to_N L) ltac:(lia)) as [E _]. rewrite E.
    rewrite app_length. destruct (Z.ltb_spec (Z.of_nat (length c + length rest)) (Z.of_N (Z.to_N L))); [lia|].
    replace (N.to_nat (Z.to_N L)) with (length c) by lia.
    rewrite firstn_app_l, skipn_app_l by reflexivity. reflexivity.
  - rewrite der_len_long in * by lia. set (lb := be_bytes L) in *. cbn [length] in Hl.
    assert (Hlb4 : (length lb <= 4)%nat).
    { apply be_bytes_length. change (256 ^ Z.of_nat 4) with (2 ^ 32). lia. }
    assert (Hlb1 : (1 <= length lb)%nat).
    { destruct lb eqn:E; [|cbn; lia]. exfalso. apply (be_bytes_nonempty L); [lia|exact E]. }
    cbn [app]. unfold cb_read_any. rewrite Ht.
    assert (E : (N.land (N.of_nat (128 + length lb)) 128 =? 0)%N = false /\
                N.to_nat (N.land (N.of_nat (128 + length lb)) 127) = length lb).
    { destruct (length lb) as [|[|[|[|[|k]]]]]; try lia; split; reflexivity. }
    destruct E as [E1 E2]. rewrite E1, E2.
    destruct (Nat.eqb_spec (length lb) 0); [lia|]. destruct (Nat.ltb_spec 4 (length lb)); [lia|].
    rewrite !app_length. destruct (Nat.ltb_spec (length lb + (length c + length rest)) (length lb)); [lia|].
    cbn [orb]. rewrite <- app_assoc. rewrite firstn_app_l, skipn_app_l by reflexivity.
    assert (Hos : os2ip lb = L) by (apply os2ip_be_bytes; lia). rewrite Hos.
    repeat match goal with
           | |- context [if (?a <? ?b)%nat then _ else _] =>
             destruct (Nat.ltb_spec a b); [rewrite ?app_length in *; lia|]
           end.
    destruct (Z.ltb_spec L 128); [lia|].
    destruct (be_bytes_hd L) as [E0|E0]; [exfalso; apply (be_bytes_nonempty L); [lia|exact E0]|].
    fold lb in E0. destruct (N.eqb_spec (hd 0%N lb) 0); [contradiction|].
    destruct (Z.leb_spec (2 ^ 32) (2 + Z.of_nat (length lb) + L)); [lia|].
    rewrite app_length. destruct (Z.ltb_spec (Z.of_nat (length c + length rest)) L); [lia|].
    unfold L. rewrite Nat2Z.id. rewrite firstn_app_l, skipn_app_l by reflexivity. reflexivity.
Qed.

(* ---------- INTEGER contents --------------------------------------------------------------------------- *)
Lemma int_value_nonneg_top c : bytes_ok c -> c <> [] -> 0 <= int_value c ->
  (N.land (hd 0%N c) 0x80 =? 0)%N = true /\ int_value c = os2ip c.
Proof.
  intros Hc Hne Hv. unfold int_value in *. destruct c as [|b0 c']; [contradiction|]. cbn [hd] in *.
  apply bytes_ok_cons in Hc as [Hb0 _]. rewrite (bit7_80_iff b0 Hb0) in *.
  destruct (N.land b0 128 =? 0)%N; cbn [negb] in *; [auto|].
  pose proof (os2ip_nonneg (map (fun b => N.lxor b 255) (b0 :: c'))). lia.
Qed.

Lemma strip0_nil_zeros l : strip0 l = [] -> l = repeat 0%N (length l).
Proof. intros H. pose proof (strip0_decomp l) as D. rewrite H, app_nil_r, Nat.sub_0_r in D. exact D. Qed.

Lemma int_sound c z : bytes_ok c -> int_minimal c = true -> int_value c = z -> 0 <= z -> c = int_content z.
Proof.
  intros Hc Hm Hv Hz. assert (Hne : c <> []) by (intros ->; discriminate).
  destruct (int_value_nonneg_top c Hc Hne ltac:(lia)) as [Htop Hval]. rewrite Hval in Hv.
  pose proof (be_bytes_os2ip c Hc) as Hbe. rewrite Hv in Hbe.
  unfold int_content. destruct (Z.ltb_spec z 0); [lia|]. destruct (Z.eqb_spec z 0) as [->|Hz0].
  - (* zero: c is a single zero byte *)
    rewrite be_bytes_0 in Hbe. symmetry in Hbe. apply strip0_nil_zeros in Hbe.
    destruct c as [|b0 [|b1 c']]; [contradiction|cbn in Hbe; exact Hbe|].
    cbn [length repeat] in Hbe. injection Hbe as -> -> _. cbn in Hm. discriminate.
  - rewrite Hbe. destruct c as [|b0 c']; [contradiction|]. cbn [hd] in Htop.
    destruct (N.eqb_spec b0 0) as [->|Hb0].
    + (* leading zero byte: the next byte has its top bit set *)
      destruct c' as [|b1 c''].
      * cbn in Hv. lia.
      * cbn [int_minimal] in Hm. rewrite N.eqb_refl in Hm. cbn [andb] in Hm.
        replace (0 =? 255)%N with false in Hm by reflexivity. cbn [andb orb] in Hm.
        apply negb_true_iff in Hm. rewrite orb_false_r in Hm.
        assert (Hb1 : b1 <> 0%N) by (intros ->; cbn in Hm; discriminate).
        cbn [strip0]. destruct b1 as [|pb]; [contradiction|]. cbn [hd]. rewrite Hm. reflexivity.
    + rewrite (strip0_id (b0 :: c')) by (cbn; exact Hb0). cbn [hd]. rewrite Htop. reflexivity.
Qed.

Lemma int_complete z : 0 <= z -> int_minimal (int_content z) = true /\ int_value (int_content z) = z.
Proof.
  intros Hz. unfold int_content. destruct (Z.ltb_spec z 0); [lia|]. destruct (Z.eqb_spec z 0) as [->|Hz0].
  - split; reflexivity.
  - pose proof (be_bytes_ok z) as Hok. pose proof (os2ip_be_bytes z Hz) as Hos.
    destruct (be_bytes_hd z) as [E|Hhd]; [exfalso; apply (be_bytes_nonempty z); [lia|exact E]|].
    destruct (be_bytes z) as [|b0 l] eqn:E; [exfalso; apply (be_bytes_nonempty z); [lia|exact E]|].
    cbn [hd] in *. apply bytes_ok_cons in Hok as [Hb0 Hl].
    destruct (N.land b0 128 =? 0)%N eqn:E7.
    + cbn [app]. split.
      * destruct l as [|b1 l']; [reflexivity|]. cbn [int_minimal].
        destruct (N.eqb_spec b0 0); [contradiction|]. cbn [andb].
        destruct (N.eqb_spec b0 255) as [->|]; [cbn in E7; discriminate|]. reflexivity.
      * unfold int_value. cbn [hd]. rewrite (bit7_80_iff b0 Hb0), E7. cbn [negb]. exact Hos.
    + cbn [app]. split.
      * cbn [int_minimal]. rewrite N.eqb_refl, E7. reflexivity.
      * unfold int_value. cbn [hd]. replace (N.land 0 128 =? 128)%N with false by reflexivity.
        rewrite os2ip_cons, Hos. lia.
Qed.

Lemma int_content_length z : 0 <= z < 2 ^ 256 -> (1 <= length (int_content z) <= 33)%nat.
Proof.
  intros Hz. unfold int_content. destruct (Z.ltb_spec z 0); [lia|]. destruct (Z.eqb_spec z 0); [cbn; lia|].
  assert (length (be_bytes z) <= 32)%nat by (apply be_bytes_length; change (256 ^ Z.of_nat 32) with (2 ^ 256); lia).
  assert (be_bytes z <> []) by (apply be_bytes_nonempty; lia).
  destruct (be_bytes z) eqn:E; [contradiction|]. rewrite app_length. cbn [length] in *.
  destruct (N.land (hd 0%N (n0 :: l)) 128 =? 0)%N; cbn [length]; lia.
Qed.

Lemma int_content_ok z : bytes_ok (int_content z).
Proof.
  unfold int_content. destruct (z <? 0).
  - apply bytes_ok_app. split.
    + destruct (match _ with [] => true | _ => _ end); constructor; [reflexivity|constructor].
    + pose proof (be_bytes_ok (- z - 1)) as H. induction H; cbn [map]; constructor; [|assumption].
      pose proof (byte_forall (fun b => (N.lxor b 255 <? 256)%N) eq_refl x H) as F. apply N.ltb_lt, F.
  - destruct (z =? 0); [constructor; [reflexivity|constructor]|].
    apply bytes_ok_app. split; [|apply be_bytes_ok].
    destruct (N.land _ 128 =? 0)%N; [constructor|constructor; [reflexivity|constructor]].
Qed.

(* ---------- ReadASN1Integer ------------------------------------------------------------------------------ *)
Lemma tag_int_ok : (N.land TAG_INTEGER 0x1f =? 0x1f)%N = false. Proof. reflexivity. Qed.
Lemma tag_seq_ok : (N.land TAG_SEQUENCE 0x1f =? 0x1f)%N = false. Proof. reflexivity. Qed.

Lemma cb_read_int_sound b z rest :
  bytes_ok b -> cb_read_int b = Some (z, rest) -> 0 <= z ->
  b = der_int z ++ rest /\ Z.of_nat (length (der_int z)) < 2 ^ 32.
Proof.
  intros Hb H Hz. unfold cb_read_int, cb_read in H.
  destruct (cb_read_any b) as [[[t c] r]|] eqn:E; [|discriminate].
  destruct (N.eqb_spec t TAG_INTEGER) as [->|]; [|discriminate].
  destruct (int_minimal c) eqn:Em; [|discriminate]. injection H as Hv <-.
  apply cb_read_any_sound in E as [Eb El]; [|exact Hb].
  assert (Hc : bytes_ok c).
  { rewrite Eb in Hb. unfold tlv in Hb. apply bytes_ok_app in Hb as [Hb _].
    apply bytes_ok_cons in Hb as [_ Hb]. apply bytes_ok_app in Hb as [_ Hb]. exact Hb. }
  rewrite (int_sound c z Hc Em Hv Hz) in Eb, El. unfold der_int. auto.
Qed.

Lemma cb_read_int_complete z rest :
  0 <= z -> Z.of_nat (length (der_int z)) < 2 ^ 32 -> cb_read_int (der_int z ++ rest) = Some (z, rest).
Proof.
  intros Hz Hl. unfold cb_read_int, cb_read, der_int in *.
  rewrite cb_read_any_complete by (try exact tag_int_ok; exact Hl).
  rewrite N.eqb_refl. destruct (int_complete z Hz) as [Hm Hv]. rewrite Hm, Hv. reflexivity.
Qed.

(* ---------- the signature --------------------------------------------------------------------------------- *)
Lemma tlv_content_le tag c : (length c <= length (tlv tag c))%nat.
Proof. rewrite tlv_length. lia. Qed.

Lemma sig_decode_iff b r s : bytes_ok b -> 0 <= r -> 0 <= s ->
  (sig_decode b = Some (r, s) <-> b = sig_encode r s /\ Z.of_nat (length b) < 2 ^ 32).
Proof.
  intros Hb Hr Hs. split.
  - unfold sig_decode, cb_read. intros H.
    destruct (cb_read_any b) as [[[t inner] rest]|] eqn:E; [|discriminate].
    destruct (N.eqb_spec t TAG_SEQUENCE) as [->|]; [|discriminate].
    destruct rest; [|discriminate].
    apply cb_read_any_sound in E as [Eb El]; [|exact Hb]. rewrite app_nil_r in Eb.
    assert (Hin : bytes_ok inner).
    { rewrite Eb in Hb. unfold tlv in Hb. apply bytes_ok_cons in Hb as [_ Hb]. apply bytes_ok_app in Hb as [_ Hb]. exact Hb. }
    destruct (cb_read_int inner) as [[r0 rest1]|] eqn:E1; [|discriminate].
    destruct (cb_read_int rest1) as [[s0 rest2]|] eqn:E2; [|discriminate].
    destruct rest2; [|discriminate]. injection H as -> ->.
    apply cb_read_int_sound in E1 as [E1 _]; [|exact Hin|exact Hr].
    assert (Hr1 : bytes_ok rest1) by (rewrite E1 in Hin; apply bytes_ok_app in Hin as [_ Hin]; exact Hin).
    apply cb_read_int_sound in E2 as [E2 _]; [|exact Hr1|exact Hs]. rewrite app_nil_r in E2.
    unfold sig_encode. rewrite <- E2, <- E1, <- Eb. split; [reflexivity|]. rewrite Eb. exact El.
  - intros [-> Hl]. unfold sig_encode in *. unfold sig_decode, cb_read.
    rewrite <- (app_nil_r (tlv TAG_SEQUENCE _)).
    rewrite cb_read_any_complete by (try exact tag_seq_ok; exact Hl). rewrite N.eqb_refl.
    pose proof (tlv_content_le TAG_SEQUENCE (der_int r ++ der_int s)) as Hle. rewrite app_length in Hle.
    rewrite cb_read_int_complete by (try assumption; lia).
    rewrite <- (app_nil_r (der_int s)).
    rewrite cb_read_int_complete by (try assumption; lia). reflexivity.
Qed.

Lemma sig_encode_ok r s : Z.of_nat (length (sig_encode r s)) < 2 ^ 32 -> bytes_ok (sig_encode r s).
Proof.
  intros Hl. unfold sig_encode in *.
  pose proof (tlv_content_le TAG_SEQUENCE (der_int r ++ der_int s)) as Hle. rewrite app_length in Hle.
  apply tlv_ok; [reflexivity| |exact Hl]. apply bytes_ok_app. unfold der_int in *.
  split; (apply tlv_ok; [reflexivity|apply int_content_ok|lia]).
Qed.
