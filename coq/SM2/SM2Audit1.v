(* Lemmas added after the round-1 audit (docs/audit_round1.md rows B-sm2a, B-sm2b, C-sm2); new file, nothing
   published changes.
   B-sm2a  distinct nonces give distinct abscissae, and what "two signatures share r" forces
   C-sm2   PublicKey.Verify accepts what PrivateKey.Sign returns
   B-sm2b  the ASN.1 forms are the one-step compositions: EncryptAsn1 = DER of the standard's components,
           DecryptAsn1 = CipherUnmarshal then Decrypt (so every rejection theorem of Decrypt applies) *)
From Coq Require Import List NArith ZArith Znumtheory Bool Lia Arith.
From GmsmVerif Require Import Lib.Outcome EC.ECAffine EC.SM2Curve EC.ECAffineProofs SM3.SM3Spec
     SM2.SM2Bytes SM2.SM2BytesProofs SM2.SM2Spec SM2.DER SM2.DERProofs SM2.SM2Model SM2.SM2SignProofs SM2.SM2GroupMin
     SM2.SM2EncProofs SM2.SM2Asn1Proofs SM2.SM2OtherKey.
Import ListNotations.
Open Scope Z_scope.

Local Opaque i2osp.

(* never let the conversion test evaluate a closed scalar multiplication such as [n]G *)
Local Strategy 1000 [ec_mul ec_mul_pos ec_add ec_double ec_neg point_ok on_curve modinv egcd sm2_mul sm2_base_mul].

(* multiples of G with the same abscissa are equal or opposite (no hypothesis about [n]G in the context: a
   [destruct] would try to match it against the closed term [n]G) *)
Lemma same_x_multiples (Hp : P_prime) (Hfin : G_multiples_finite) k1 k2 :
  1 <= k1 < sm2_n -> 1 <= k2 < sm2_n -> x_of (sm2_base_mul k1) = x_of (sm2_base_mul k2) ->
  sm2_base_mul k2 = sm2_base_mul k1 \/ sm2_base_mul k2 = sm2_neg (sm2_base_mul k1).
Proof.
  intros H1 H2 E.
  assert (Hv1 : sm2_valid (sm2_base_mul k1) = true) by (apply (mul_valid Hp); [apply G_valid|lia]).
  assert (Hv2 : sm2_valid (sm2_base_mul k2) = true) by (apply (mul_valid Hp); [apply G_valid|lia]).
  pose proof (Hfin k1 ltac:(lia)) as F1. pose proof (Hfin k2 ltac:(lia)) as F2.
  change (sm2_mul k1 sm2_G) with (sm2_base_mul k1) in F1. change (sm2_mul k2 sm2_G) with (sm2_base_mul k2) in F2.
  clear Hfin.
  destruct (sm2_base_mul k1) as [[x1 y1]|]; [|contradiction].
  destruct (sm2_base_mul k2) as [[x2 y2]|]; [|contradiction].
  unfold x_of in E. cbn [encode_point fst] in E. subst x2.
  exact (same_x_two_points Hp x1 y1 y2 Hv1 Hv2).
Qed.

Section NonceR.
  Variable Hp : P_prime.
  Variable Hassoc : Add_assoc.
  Variable HnG : G_order_divides_n.
  Variable Hfin : G_multiples_finite.

  (* [k1]G and [k2]G have the same abscissa only if k1 = k2 or k1 + k2 = n *)
  Lemma distinct_nonce_distinct_x k1 k2 :
    1 <= k1 < sm2_n -> 1 <= k2 < sm2_n -> k1 <> k2 -> k1 + k2 <> sm2_n ->
    x_of (sm2_base_mul k1) <> x_of (sm2_base_mul k2).
  Proof.
    intros H1 H2 Hne Hsum E. pose proof n_pos as Hn.
    assert (Hv1 : sm2_valid (sm2_base_mul k1) = true) by (apply (mul_valid Hp); [apply G_valid|lia]).
    destruct (same_x_multiples Hp Hfin k1 k2 H1 H2 E) as [Eq|Eq].
    - apply Hne. apply (base_mul_inj Hp Hassoc Hfin); [lia|lia|]. symmetry. exact Eq.
    - (* opposite points: [k1 + k2]G = O *)
      assert (Hsum0 : sm2_mul (k1 + k2) sm2_G = None).
      { rewrite (mul_add Hp Hassoc) by (try apply G_valid; lia).
        change (sm2_mul k1 sm2_G) with (sm2_base_mul k1). change (sm2_mul k2 sm2_G) with (sm2_base_mul k2).
        rewrite Eq. apply (add_neg_r _ Hv1). }
      destruct (Z.lt_ge_cases (k1 + k2) sm2_n) as [Hlt|Hge].
      + exact (Hfin (k1 + k2) ltac:(lia) Hsum0).
      + apply (Hfin (k1 + k2 - sm2_n) ltac:(lia)).
        rewrite <- (mul_mod_n Hp Hassoc HnG (k1 + k2)) in Hsum0 by lia.
        replace ((k1 + k2) mod sm2_n) with (k1 + k2 - sm2_n) in Hsum0; [exact Hsum0|].
        apply Z.mod_unique with (q := 1); lia.
  Qed.

  (* two signatures of the same digest that share r: the nonces are equal, or opposite (k1 + k2 = n), or the two
     abscissae differ by exactly n (both in [0,p), p < 2n) - nothing else *)
  Lemma same_r_nonce_cases d d' e k1 k2 r s1 s2 :
    1 <= k1 < sm2_n -> 1 <= k2 < sm2_n ->
    sign_with_nonce d e k1 = Some (r, s1) -> sign_with_nonce d' e k2 = Some (r, s2) ->
    k1 = k2 \/ k1 + k2 = sm2_n \/ Z.abs (x_of (sm2_base_mul k1) - x_of (sm2_base_mul k2)) = sm2_n.
  Proof.
    intros H1 H2 S1 S2. pose proof (same_r_same_x d d' e k1 k2 r s1 s2 S1 S2) as Ex. pose proof n_pos as Hn.
    destruct (Z.eq_dec k1 k2) as [|Hne]; [left; assumption|].
    destruct (Z.eq_dec (k1 + k2) sm2_n) as [|Hsum]; [right; left; assumption|]. right. right.
    pose proof (distinct_nonce_distinct_x k1 k2 H1 H2 Hne Hsum) as Hx.
    assert (Hr : forall k, 1 <= k < sm2_n -> 0 <= x_of (sm2_base_mul k) < sm2_p).
    { intros k Hk. pose proof (mul_coords k sm2_G G_coords) as Hc. change (sm2_mul k sm2_G) with (sm2_base_mul k) in Hc.
      pose proof p_lt_2_256. pose proof p_pos.
      unfold coords_ok in Hc. unfold x_of. clear - Hc H0.
      destruct (sm2_base_mul k) as [[x y]|]; cbn [encode_point fst]; [tauto|lia]. }
    pose proof (Hr k1 H1) as R1. pose proof (Hr k2 H2) as R2.
    set (x1 := x_of (sm2_base_mul k1)) in *. set (x2 := x_of (sm2_base_mul k2)) in *.
    assert (Hpn : sm2_p < 2 * sm2_n) by reflexivity.
    (* x1 = x2 (mod n), both in [0, 2n), different: they differ by n *)
    assert (Hd : (x1 - x2) mod sm2_n = 0).
    { rewrite Zminus_mod, Ex, Z.sub_diag. reflexivity. }
    apply Z.mod_divide in Hd; [|lia]. destruct Hd as [q Hq].
    assert (q = 1 \/ q = -1) as [->| ->] by nia; lia.
  Qed.
End NonceR.

(* ---------- C-sm2: Verify (Sign ...) = true ------------------------------------------------------------------ *)
Lemma der_len_length L : 0 <= L < 128 -> length (der_len L) = 1%nat.
Proof. intros H. rewrite der_len_short by exact H. reflexivity. Qed.

Lemma sig_encode_small r s : 0 <= r < 2 ^ 256 -> 0 <= s < 2 ^ 256 -> Z.of_nat (length (sig_encode r s)) < 2 ^ 32.
Proof.
  intros Hr Hs. pose proof (int_content_length r Hr) as Lr. pose proof (int_content_length s Hs) as Ls.
  unfold sig_encode, der_int. rewrite tlv_length, app_length, !tlv_length.
  rewrite (der_len_length (Z.of_nat (length (int_content r)))) by lia.
  rewrite (der_len_length (Z.of_nat (length (int_content s)))) by lia.
  set (a := length (int_content r)) in *. set (b := length (int_content s)) in *.
  rewrite (der_len_length (Z.of_nat (1 + 1 + a + (1 + 1 + b)))) by lia.
  assert (2 ^ 32 = 4294967296) by reflexivity. lia.
Qed.

Lemma Sm2Verify_default_uid pub msg r s : Sm2Verify pub msg default_uid r s = Sm2Verify pub msg [] r s.
Proof. reflexivity. Qed.

Lemma Sign_ok_inv fuel pr rho msg sig rho' :
  Sign fuel pr rho msg = Ok (sig, rho') ->
  exists r s, Sm2Sign fuel pr msg [] rho = Ok (r, s, rho') /\ sig = sig_encode r s.
Proof.
  unfold Sign. destruct (Sm2Sign fuel pr msg [] rho) as [[[r s] rest]| | |]; try discriminate.
  cbn [obind]. intros [= <- <-]. exists r, s. auto.
Qed.

Lemma Sign_then_PublicKey_Verify
      (Hp : P_prime) (Hassoc : Add_assoc) (HnG : G_order_divides_n) (Hfin : G_multiples_finite) (HNp : N_prime)
      fuel d rho msg sig rho' :
  1 <= d <= sm2_n - 2 ->
  Sign fuel (key_of d) rho msg = Ok (sig, rho') ->
  PublicKey_Verify (ScalarBaseMult d) msg sig = true.
Proof.
  intros Hd H. apply Sign_ok_inv in H as (r & s & E & ->).
  pose proof (Sm2Sign_then_Sm2Verify Hp Hassoc HnG Hfin HNp fuel d msg [] rho r s rho' Hd E) as Hv.
  assert (Hrs : 1 <= r < sm2_n /\ 1 <= s < sm2_n).
  { apply Sm2Verify_iff in Hv as (za & _ & Hr & Hs & _). auto. }
  pose proof n_lt_2_256 as Hn.
  assert (Hl : Z.of_nat (length (sig_encode r s)) < 2 ^ 32) by (apply sig_encode_small; lia).
  apply PublicKey_Verify_iff; [apply sig_encode_ok, Hl|].
  exists r, s. split; [reflexivity|]. split; [exact Hl|]. rewrite Sm2Verify_default_uid. exact Hv.
Qed.

(* ---------- B-sm2b: the ASN.1 forms are compositions ----------------------------------------------------------- *)
(* EncryptAsn1 = DER(SEQUENCE{x1, y1, C3, C2}) of the standard's components for the first admissible nonce *)
Lemma EncryptAsn1_is_standard fuel pub M rho :
  0 <= fst pub < sm2_p -> 0 <= snd pub < sm2_p -> M <> [] -> (length rho / 40 < fuel)%nat ->
  Z.of_nat (length M) < 65000 ->
  EncryptAsn1 fuel pub M rho =
  match encrypt_spec (go_decode pub) M rho C1C3C2 with
  | Some (i, c) =>
    Ok (asn1_marshal_cipher (os2ip (slice c 1 33)) (os2ip (slice c 33 65)) (slice c 65 97) (skipn 97 c),
        skipn (40 * S i) rho)
  | None => Err 2
  end.
Proof.
  intros Hx Hy HM Hf HL. unfold EncryptAsn1. rewrite Encrypt_is_spec by assumption.
  change (order_of 0) with C1C3C2.
  destruct (encrypt_spec (go_decode pub) M rho C1C3C2) as [[i c]|] eqn:Es; [|reflexivity]. cbn [obind].
  unfold encrypt_spec in Es. apply encrypt_search_some in Es as (_ & Es & _).
  apply encrypt_with_nonce_shape in Es as (x & y & H & C2 & -> & HH & HC2).
  destruct (Cipher_roundtrip (fe_bytes x) (fe_bytes y) H C2 (i2osp_ok 32 x) (i2osp_ok 32 y)
              (fe_length x) (fe_length y) HH ltac:(lia)) as [R1 _].
  rewrite R1. cbn [obind].
  assert (HX : length (fe_bytes x) = 32%nat) by apply fe_length.
  assert (HY : length (fe_bytes y) = 32%nat) by apply fe_length.
  assert (S1 : slice (4%N :: fe_bytes x ++ fe_bytes y ++ H ++ C2) 1 33 = fe_bytes x).
  { unfold slice. cbn [skipn Nat.sub]. apply firstn_app_l, HX. }
  assert (S2 : slice (4%N :: fe_bytes x ++ fe_bytes y ++ H ++ C2) 33 65 = fe_bytes y).
  { unfold slice. change 33%nat with (S 32). rewrite skipn_S_cons. rewrite (skipn_app_l (fe_bytes x)) by exact HX.
    replace (65 - S 32)%nat with 32%nat by lia. apply firstn_app_l, HY. }
  assert (S3 : slice (4%N :: fe_bytes x ++ fe_bytes y ++ H ++ C2) 65 97 = H).
  { unfold slice. change 65%nat with (S 64). rewrite skipn_S_cons. rewrite (app_assoc (fe_bytes x)).
    rewrite (skipn_app_l (fe_bytes x ++ fe_bytes y)) by (rewrite app_length; lia).
    replace (97 - S 64)%nat with 32%nat by lia. apply firstn_app_l, HH. }
  assert (S4 : skipn 97 (4%N :: fe_bytes x ++ fe_bytes y ++ H ++ C2) = C2).
  { change 97%nat with (S 96). rewrite skipn_S_cons. rewrite !app_assoc. apply skipn_app_l. rewrite !app_length. lia. }
  rewrite S1, S2, S3, S4. reflexivity.
Qed.

(* DecryptAsn1 = CipherUnmarshal, then Decrypt in mode C1C3C2: a plaintext comes out only through an error-free Decrypt *)
Lemma DecryptAsn1_ok_implies pr der M :
  DecryptAsn1 pr der = Ok M ->
  exists raw, CipherUnmarshal der = Ok raw /\ Decrypt pr raw 0 = Ok M.
Proof.
  unfold DecryptAsn1. destruct (CipherUnmarshal der) as [raw| | |]; try discriminate. cbn [obind].
  intros H. exists raw. auto.
Qed.

Lemma DecryptAsn1_never_crashes pr der : no_crash (DecryptAsn1 pr der).
Proof.
  unfold DecryptAsn1. unfold CipherUnmarshal. destruct (asn1_unmarshal_cipher der) as [[[[x y] h] c]|]; [|exact I].
  destruct (_ || _)%bool; [exact I|]. cbn [obind].
  destruct (decrypt_bytes_spec (D pr) (4%N :: pad32 (be_bytes x) ++ pad32 (be_bytes y) ++ h ++ c) (order_of 0)) as [M|] eqn:E.
  - rewrite (proj1 (Decrypt_is_spec pr _ 0) M E). exact I.
  - destruct (proj2 (Decrypt_is_spec pr _ 0) E) as [e ->]. exact I.
Qed.
