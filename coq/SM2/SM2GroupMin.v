(* MINIMAL-PREMISE version of SM2/SM2Group.v (whose published statements keep the bundled premise SM2Facts):
   every lemma depends only on the premises it uses; plus the characterisation of the accepting keys.
   Group-law consequences of SM2Facts (associativity is a premise; closure and commutativity come from
   EC/ECAffineProofs.v under "p prime"), then the completeness results of C01:
   a signature made with d verifies under [d]G. *)
From Coq Require Import List NArith ZArith Znumtheory Bool Lia Arith.
From GmsmVerif Require Import Lib.Outcome EC.ECAffine EC.SM2Curve EC.ECAffineProofs SM3.SM3Spec
     SM2.SM2Bytes SM2.SM2BytesProofs SM2.SM2Spec SM2.DER SM2.DERProofs SM2.SM2Model SM2.SM2SignProofs.
Import ListNotations.
Open Scope Z_scope.

(* never let the conversion test evaluate a closed scalar multiplication such as [n]G *)
Local Strategy 1000 [ec_mul ec_mul_pos ec_add ec_double ec_neg point_ok on_curve modinv egcd sm2_mul sm2_base_mul].

Lemma ZA_cases pub uid : (exists za, ZA pub uid = Ok za) \/ ZA pub uid = Err 1.
Proof. unfold ZA. destruct (8192 <=? Z.of_nat (length uid)); [right; reflexivity|left; eexists; reflexivity]. Qed.

Lemma p_gt_3 : 3 < cp sm2_curve.
Proof. reflexivity. Qed.

(* ---------- the premises, one by one ------------------------------------------------------------------------
   SM2Facts (EC/SM2Curve.v) bundles them; every lemma below depends only on the ones it uses (Coq's section
   mechanism generalises each lemma over exactly those), and the property files state them individually. *)
Definition P_prime : Prop := prime sm2_p.
Definition N_prime : Prop := prime sm2_n.
Definition Add_assoc : Prop :=
  forall P Q R : point, sm2_valid P = true -> sm2_valid Q = true -> sm2_valid R = true ->
                        sm2_add (sm2_add P Q) R = sm2_add P (sm2_add Q R).
Definition G_order_divides_n : Prop := sm2_mul sm2_n sm2_G = None.
Definition G_multiples_finite : Prop := forall k, 0 < k < sm2_n -> sm2_mul k sm2_G <> None.

Lemma facts_split : SM2Facts -> P_prime /\ N_prime /\ Add_assoc /\ G_order_divides_n /\ G_multiples_finite.
Proof.
  intros F. split; [exact (sm2_p_prime F)|]. split; [exact (sm2_n_prime F)|]. split; [exact (sm2_add_assoc F)|].
  split; [exact (sm2_nG_infinity F)|exact (sm2_kG_finite F)].
Qed.

Section Group.
  Variable Hp : P_prime.
  Variable Hassoc : Add_assoc.
  Variable HnG : G_order_divides_n.
  Variable Hfin : G_multiples_finite.
  Variable HNp : N_prime.

  Lemma neg_valid P : sm2_valid P = true -> sm2_valid (sm2_neg P) = true.
  Proof. apply (ec_neg_ok sm2_curve Hp p_gt_3). Qed.

  Lemma add_comm P Q : sm2_valid P = true -> sm2_valid Q = true -> sm2_add P Q = sm2_add Q P.
  Proof. apply (ec_add_comm sm2_curve Hp). Qed.

  Lemma add_neg_r P : sm2_valid P = true -> sm2_add P (sm2_neg P) = None.
  Proof. apply (ec_add_neg sm2_curve p_gt_3). Qed.

  Lemma add_valid P Q : sm2_valid P = true -> sm2_valid Q = true -> sm2_valid (sm2_add P Q) = true.
  Proof. apply (ec_add_ok sm2_curve Hp p_gt_3). Qed.

  Lemma double_valid P : sm2_valid P = true -> sm2_valid (sm2_double P) = true.
  Proof. apply (ec_double_ok sm2_curve Hp p_gt_3). Qed.

  Lemma double_is_add P : sm2_double P = sm2_add P P.
  Proof. symmetry. apply (ec_double_add sm2_curve Hp p_gt_3). Qed.

  Lemma G_valid : sm2_valid sm2_G = true.
  Proof. exact sm2_G_valid. Qed.

  (* closure of scalar multiplication needs "p prime" only *)
  Lemma mul_pos_valid q P : sm2_valid P = true -> sm2_valid (ec_mul_pos sm2_curve q P) = true.
  Proof.
    intros H. induction q; cbn [ec_mul_pos].
    - apply add_valid; [|exact H]. apply double_valid, IHq.
    - apply double_valid, IHq.
    - exact H.
  Qed.

  Lemma mul_valid k P : sm2_valid P = true -> 0 <= k -> sm2_valid (sm2_mul k P) = true.
  Proof.
    intros H Hk. unfold sm2_mul, ec_mul. destruct k; [reflexivity| |lia]. apply mul_pos_valid, H.
  Qed.

  (* [n]P by repeated addition *)
  Fixpoint nmul (n : nat) (P : point) : point :=
    match n with O => None | S m => sm2_add (nmul m P) P end.

  Lemma nmul_valid n P : sm2_valid P = true -> sm2_valid (nmul n P) = true.
  Proof. intros H. induction n; cbn [nmul]; [reflexivity|]. apply add_valid; assumption. Qed.

  Lemma nmul_add a b P : sm2_valid P = true -> nmul (a + b) P = sm2_add (nmul a P) (nmul b P).
  Proof.
    intros H. induction b as [|b IH].
    - rewrite Nat.add_0_r. cbn [nmul]. unfold sm2_add. rewrite ec_add_0_r. reflexivity.
    - rewrite Nat.add_succ_r. cbn [nmul]. rewrite IH.
      apply Hassoc; [apply nmul_valid| apply nmul_valid|]; assumption.
  Qed.

  Lemma nmul_None n : nmul n None = None.
  Proof. induction n; cbn [nmul]; [reflexivity|]. rewrite IHn. reflexivity. Qed.

  Lemma nmul_mul a b P : sm2_valid P = true -> nmul a (nmul b P) = nmul (a * b) P.
  Proof.
    intros H. induction a as [|a IH]; [reflexivity|].
    cbn [nmul]. rewrite IH. replace (S a * b)%nat with (a * b + b)%nat by lia.
    rewrite nmul_add by assumption. reflexivity.
  Qed.

  Lemma mul_pos_nmul q P : sm2_valid P = true -> ec_mul_pos sm2_curve q P = nmul (Pos.to_nat q) P.
  Proof.
    intros H. induction q as [q IH|q IH|]; cbn [ec_mul_pos].
    - rewrite IH. fold (sm2_double (nmul (Pos.to_nat q) P)). rewrite double_is_add.
      rewrite <- nmul_add by assumption.
      replace (Pos.to_nat q~1) with (S (Pos.to_nat q + Pos.to_nat q)) by lia. reflexivity.
    - rewrite IH. fold (sm2_double (nmul (Pos.to_nat q) P)). rewrite double_is_add.
      rewrite <- nmul_add by assumption.
      replace (Pos.to_nat q~0) with (Pos.to_nat q + Pos.to_nat q)%nat by lia. reflexivity.
    - change (Pos.to_nat 1) with 1%nat. cbn [nmul]. unfold sm2_add. rewrite ec_add_0_l. reflexivity.
  Qed.

  Lemma mul_nmul k P : sm2_valid P = true -> 0 <= k -> sm2_mul k P = nmul (Z.to_nat k) P.
  Proof.
    intros H Hk. unfold sm2_mul, ec_mul. destruct k as [|q|q]; [reflexivity| |lia].
    rewrite mul_pos_nmul by assumption. reflexivity.
  Qed.


  Lemma mul_add a b P : sm2_valid P = true -> 0 <= a -> 0 <= b ->
    sm2_mul (a + b) P = sm2_add (sm2_mul a P) (sm2_mul b P).
  Proof.
    intros H Ha Hb. rewrite !mul_nmul by (try assumption; lia). rewrite Z2Nat.inj_add by assumption.
    apply nmul_add, H.
  Qed.

  Lemma mul_mul a b P : sm2_valid P = true -> 0 <= a -> 0 <= b ->
    sm2_mul a (sm2_mul b P) = sm2_mul (a * b) P.
  Proof.
    intros H Ha Hb. rewrite (mul_nmul b P) by assumption.
    rewrite mul_nmul by (try apply nmul_valid; assumption). rewrite (mul_nmul (a * b)) by (try assumption; nia).
    rewrite Z2Nat.inj_mul by assumption. apply nmul_mul, H.
  Qed.

  Lemma mul_mod_n k : 0 <= k -> sm2_mul (k mod sm2_n) sm2_G = sm2_mul k sm2_G.
  Proof.
    intros Hk. pose proof n_pos as Hn.
    rewrite (Z.div_mod k sm2_n) at 2 by lia.
    pose proof (Z.mod_pos_bound k sm2_n ltac:(lia)). pose proof (Z.div_pos k sm2_n Hk ltac:(lia)).
    rewrite mul_add by (try apply G_valid; nia).
    rewrite (Z.mul_comm sm2_n), <- mul_mul by (try apply G_valid; lia).
    rewrite HnG. rewrite (mul_nmul _ None) by (try reflexivity; lia). rewrite nmul_None.
    unfold sm2_add. rewrite ec_add_0_l. reflexivity.
  Qed.

  Lemma base_mul_cong a b : 0 <= a -> 0 <= b -> a mod sm2_n = b mod sm2_n -> sm2_base_mul a = sm2_base_mul b.
  Proof.
    intros Ha Hb E. change (sm2_mul a sm2_G = sm2_mul b sm2_G).
    rewrite <- (mul_mod_n a), <- (mul_mod_n b) by assumption. rewrite E. reflexivity.
  Qed.

  (* valid finite points are not the pair (0,0): the API encoding is faithful on them *)
  Lemma valid_not_00 P : sm2_valid P = true -> P <> Some (0, 0).
  Proof. intros H ->. vm_compute in H. discriminate. Qed.

  Lemma api_point_valid P : sm2_valid P = true -> api_point P = P.
  Proof. intros H. apply api_point_id, valid_not_00, H. Qed.

  Lemma go_decode_valid pub : sm2_valid (Some pub) = true -> go_decode pub = Some pub.
  Proof.
    intros H. destruct pub as [x y]. unfold go_decode, decode_point. cbn [fst snd].
    destruct (Z.eqb_spec x 0) as [->|]; [|reflexivity]. destruct (Z.eqb_spec y 0) as [->|]; [|reflexivity].
    exfalso. exact (valid_not_00 _ H eq_refl).
  Qed.

  (* ---- the API-level relation is the standard's on curve points ---------------------------------------- *)
  Lemma verify_api_is_spec pub e r s :
    sm2_valid (Some pub) = true -> (verify_api pub e r s <-> verify_spec (Some pub) e r s).
  Proof.
    intros Hv. unfold verify_api, verify_spec. rewrite (go_decode_valid pub Hv).
    pose proof n_pos.
    assert (Ht : 0 <= (r + s) mod sm2_n) by (apply Z.mod_pos_bound; lia).
    split; intros (Hr & Hs & Hne & H0); (split; [exact Hr|split; [exact Hs|split; [exact Hne|]]]).
    - rewrite !api_point_valid in H0; [exact H0| apply mul_valid; [exact Hv|exact Ht] | apply mul_valid; [apply G_valid|lia]].
    - rewrite !api_point_valid; [exact H0| apply mul_valid; [exact Hv|exact Ht] | apply mul_valid; [apply G_valid|lia]].
  Qed.

  (* ---- modular algebra of one signature ----------------------------------------------------------------- *)
  Lemma modinv_n x : x mod sm2_n <> 0 -> (x * modinv x sm2_n) mod sm2_n = 1.
  Proof. apply modinv_correct. exact HNp. Qed.

  Lemma gcd_d1 d : 1 <= d <= sm2_n - 2 -> Z.gcd (d + 1) sm2_n = 1.
  Proof.
    intros Hd. apply Zgcd_1_rel_prime. apply rel_prime_sym. apply prime_rel_prime; [exact HNp|].
    intros Hdiv. apply Z.divide_pos_le in Hdiv; lia.
  Qed.

  (* s (1+d) + r d = k (mod n), hence s + t d = k (mod n) with t = r + s *)
  Lemma sign_equation d k r :
    1 <= d <= sm2_n - 2 ->
    let s := (modinv (1 + d) sm2_n * (k - r * d)) mod sm2_n in
    (s + ((r + s) mod sm2_n) * d) mod sm2_n = k mod sm2_n.
  Proof.
    intros Hd s. pose proof n_pos as Hn.
    assert (Hinv : ((1 + d) * modinv (1 + d) sm2_n) mod sm2_n = 1).
    { apply modinv_n. rewrite Z.mod_small by lia. lia. }
    set (i := modinv (1 + d) sm2_n) in *.
    (* s + (r+s) d = s (1+d) + r d *)
    rewrite Zplus_mod, Zmult_mod_idemp_l, <- Zplus_mod.
    replace (s + (r + s) * d) with (s * (1 + d) + r * d) by ring.
    rewrite Zplus_mod. unfold s. rewrite Zmult_mod_idemp_l.
    replace (i * (k - r * d) * (1 + d)) with (((1 + d) * i) * (k - r * d)) by ring.
    rewrite <- Zmult_mod_idemp_l, Hinv, Z.mul_1_l. rewrite <- Zplus_mod. f_equal. ring.
  Qed.

  Lemma sign_t_nonzero d k r :
    1 <= d <= sm2_n - 2 -> 1 <= k < sm2_n -> 0 <= r < sm2_n -> r + k <> sm2_n -> r <> 0 ->
    let s := (modinv (1 + d) sm2_n * (k - r * d)) mod sm2_n in
    (r + s) mod sm2_n <> 0.
  Proof.
    intros Hd Hk Hr Hrk Hr0 s Ht. pose proof n_pos as Hn.
    pose proof (sign_equation d k r Hd) as E. cbv zeta in E. fold s in E. rewrite Ht in E.
    rewrite Z.mul_0_l, Z.add_0_r in E.
    (* s = k (mod n) and r + s = 0 (mod n) give r + k = 0 (mod n) *)
    assert (E2 : (r + k) mod sm2_n = 0).
    { rewrite <- Ht. rewrite (Zplus_mod r k), (Zplus_mod r s). rewrite <- E. reflexivity. }
    apply Z.mod_divide in E2; [|lia]. destruct E2 as [q Eq].
    assert (q = 1) by nia. lia.
  Qed.

  (* ---- completeness ---------------------------------------------------------------------------------------- *)
  Lemma sign_with_nonce_verifies d e k r s :
    1 <= d <= sm2_n - 2 -> 1 <= k < sm2_n ->
    sign_with_nonce d e k = Some (r, s) ->
    verify_spec (sm2_base_mul d) e r s.
  Proof.
    intros Hd Hk H. pose proof n_pos as Hn.
    pose proof (sign_with_nonce_range d e k r s H) as (Hr & Hs & Hrk).
    unfold sign_with_nonce in H.
    set (r0 := (e + x_of (sm2_base_mul k)) mod sm2_n) in *.
    destruct (Z.eqb_spec r0 0) as [|Hr0]; [discriminate|].
    destruct (Z.eqb_spec (r0 + k) sm2_n); [discriminate|]. cbn [orb] in H.
    set (s0 := (modinv (1 + d) sm2_n * (k - r0 * d)) mod sm2_n) in *.
    destruct (Z.eqb_spec s0 0); [discriminate|]. injection H as <- <-.
    assert (Ht : (r0 + s0) mod sm2_n <> 0) by (apply sign_t_nonzero; lia).
    unfold verify_spec. split; [exact Hr|]. split; [exact Hs|]. split; [exact Ht|].
    set (t := (r0 + s0) mod sm2_n) in *.
    assert (Ht0 : 0 <= t) by (apply Z.mod_pos_bound; lia).
    change (sm2_base_mul d) with (sm2_mul d sm2_G). change (sm2_base_mul s0) with (sm2_mul s0 sm2_G).
    rewrite mul_mul by (try apply G_valid; lia).
    rewrite <- mul_add by (try apply G_valid; nia).
    change (sm2_mul (s0 + t * d) sm2_G) with (sm2_base_mul (s0 + t * d)).
    assert (Hc : (s0 + t * d) mod sm2_n = k mod sm2_n) by exact (sign_equation d k r0 Hd).
    assert (Hs0 : 0 <= s0) by lia.
    rewrite (base_mul_cong (s0 + t * d) k); [reflexivity|nia|lia|exact Hc].
  Qed.

  Lemma ScalarBaseMult_point d : 1 <= d < sm2_n -> Some (ScalarBaseMult d) = sm2_base_mul d.
  Proof.
    intros Hd. rewrite ScalarBaseMult_small by lia.
    pose proof (Hfin d ltac:(lia)) as Hfin'. change (sm2_base_mul d) with (sm2_mul d sm2_G).
    destruct (sm2_mul d sm2_G) as [xy|]; [|contradiction]. reflexivity.
  Qed.

  Lemma sign_then_verify_core fuel d e rho r s rho' :
    1 <= d <= sm2_n - 2 ->
    sign_loop fuel d e rho = Ok (r, s, rho') ->
    verify_core (ScalarBaseMult d) e r s = true /\ 1 <= r < sm2_n /\ 1 <= s < sm2_n.
  Proof.
    intros Hd. revert rho. induction fuel as [|fuel IH]; intros rho H; [discriminate|].
    destruct (Nat.le_gt_cases 40 (length rho)) as [Hl|Hl].
    - rewrite sign_loop_step in H by (try assumption; apply gcd_d1; exact Hd).
      destruct (sign_with_nonce d e (nonce_at rho 0)) as [[r1 s1]|] eqn:E.
      + injection H as <- <- <-.
        pose proof (nonce_range rho 0) as Hk.
        pose proof (sign_with_nonce_verifies d e _ _ _ Hd Hk E) as Hv.
        pose proof (ScalarBaseMult_point d ltac:(lia)) as HP.
        assert (Hvalid : sm2_valid (Some (ScalarBaseMult d)) = true).
        { rewrite HP. apply mul_valid; [apply G_valid|lia]. }
        rewrite <- HP in Hv. apply verify_api_is_spec in Hv; [|exact Hvalid].
        destruct Hv as (Hr & Hs & Hv). split; [|split; assumption].
        apply verify_core_iff; [exact Hs|exact Hv].
      + apply IH in H. exact H.
    - cbn [sign_loop] in H. rewrite randFieldElement_short in H by assumption. discriminate.
  Qed.

  Lemma Sm2Sign_then_Sm2Verify fuel d msg uid rho r s rho' :
    1 <= d <= sm2_n - 2 ->
    Sm2Sign fuel (key_of d) msg uid rho = Ok (r, s, rho') ->
    Sm2Verify (ScalarBaseMult d) msg uid r s = true.
  Proof.
    intros Hd H. unfold Sm2Sign, key_of in H. cbn [Pub D] in H.
    unfold Sm3Digest in H. fold (uid_or_default uid) in H.
    destruct (ZA_cases (ScalarBaseMult d) (uid_or_default uid)) as [[za Eza]|Eza]; rewrite Eza in H; [|discriminate].
    cbn [obind] in H. rewrite os2ip_be_bytes in H by (unfold msgHash; apply os2ip_nonneg).
    apply sign_then_verify_core in H as (Hc & Hr & Hs); [|exact Hd].
    apply Sm2Verify_iff. exists za. split; [exact Eza|].
    unfold verify_api. split; [exact Hr|]. split; [exact Hs|]. apply verify_core_iff; assumption.
  Qed.
  (* ---- which public keys accept a given (e, r, s): the "different public key" clause -------------------- *)
  Lemma add_cancel_l A B : sm2_valid A = true -> sm2_valid B = true -> sm2_add (sm2_add A B) (sm2_neg A) = B.
  Proof.
    intros HA HB. rewrite (add_comm A B HA HB). rewrite Hassoc by (try assumption; apply neg_valid, HA).
    rewrite add_neg_r by exact HA. unfold sm2_add. apply ec_add_0_r.
  Qed.

  Lemma add_cancel_r A R : sm2_valid A = true -> sm2_valid R = true -> sm2_add A (sm2_add R (sm2_neg A)) = R.
  Proof.
    intros HA HR. rewrite (add_comm R (sm2_neg A) HR (neg_valid A HA)).
    rewrite <- Hassoc by (try assumption; apply neg_valid, HA). rewrite add_neg_r by exact HA.
    unfold sm2_add. apply ec_add_0_l.
  Qed.

  Lemma x_cong_iff e x r : 1 <= r < sm2_n -> ((e + x) mod sm2_n = r <-> x mod sm2_n = (r - e) mod sm2_n).
  Proof.
    intros Hr. pose proof n_pos as Hn. split; intros H.
    - rewrite <- H. rewrite Zminus_mod_idemp_l. f_equal. lia.
    - rewrite Zplus_mod, H, <- Zplus_mod. replace (e + (r - e)) with r by lia. apply Z.mod_small. lia.
  Qed.

  (* accepted <-> [t]P = R - [s]G for a curve point R with x(R) = r - e (mod n) *)
  Lemma verify_spec_keys pub e r s :
    sm2_valid (Some pub) = true ->
    (verify_spec (Some pub) e r s <->
     1 <= r < sm2_n /\ 1 <= s < sm2_n /\ (r + s) mod sm2_n <> 0 /\
     exists R, sm2_valid R = true /\ x_of R mod sm2_n = (r - e) mod sm2_n /\
               sm2_mul ((r + s) mod sm2_n) (Some pub) = sm2_add R (sm2_neg (sm2_base_mul s))).
  Proof.
    intros Hv. unfold verify_spec. pose proof n_pos as Hn.
    assert (Ht : 0 <= (r + s) mod sm2_n) by (apply Z.mod_pos_bound; lia).
    assert (HtP : sm2_valid (sm2_mul ((r + s) mod sm2_n) (Some pub)) = true) by (apply mul_valid; assumption).
    split.
    - intros (Hr & Hs & Hne & H). split; [exact Hr|]. split; [exact Hs|]. split; [exact Hne|].
      assert (HsG : sm2_valid (sm2_base_mul s) = true) by (apply mul_valid; [apply G_valid|lia]).
      exists (sm2_add (sm2_base_mul s) (sm2_mul ((r + s) mod sm2_n) (Some pub))).
      split; [apply add_valid; assumption|]. split; [apply (x_cong_iff e _ r Hr), H|].
      symmetry. apply add_cancel_l; assumption.
    - intros (Hr & Hs & Hne & R & HR & Hx & HE). split; [exact Hr|]. split; [exact Hs|]. split; [exact Hne|].
      assert (HsG : sm2_valid (sm2_base_mul s) = true) by (apply mul_valid; [apply G_valid|lia]).
      rewrite HE. rewrite add_cancel_r by assumption. apply (x_cong_iff e _ r Hr), Hx.
  Qed.

  (* for a key of the group generated by G the accepting keys are listed explicitly: P = [t^-1](R - [s]G) *)
  Lemma accepted_key_listed d e r s :
    1 <= d < sm2_n -> verify_spec (sm2_base_mul d) e r s ->
    exists R, sm2_valid R = true /\ x_of R mod sm2_n = (r - e) mod sm2_n /\
              sm2_base_mul d = sm2_mul (modinv ((r + s) mod sm2_n) sm2_n) (sm2_add R (sm2_neg (sm2_base_mul s))).
  Proof.
    intros Hd Hv. pose proof n_pos as Hn.
    assert (HdG : sm2_valid (sm2_base_mul d) = true) by (apply mul_valid; [apply G_valid|lia]).
    pose proof (Hfin d ltac:(lia)) as Hne. change (sm2_base_mul d) with (sm2_mul d sm2_G) in *.
    destruct (sm2_mul d sm2_G) as [pub|] eqn:EP; [|contradiction].
    apply (verify_spec_keys pub e r s HdG) in Hv as (Hr & Hs & Ht & R & HR & Hx & HE).
    exists R. split; [exact HR|]. split; [exact Hx|].
    set (t := (r + s) mod sm2_n) in *.
    assert (Ht0 : 0 <= t < sm2_n) by (apply Z.mod_pos_bound; lia).
    pose proof (modinv_range t sm2_n ltac:(lia)) as Hi. set (ti := modinv t sm2_n) in *.
    rewrite <- HE, <- EP.
    rewrite (mul_mul t d sm2_G) by (try apply G_valid; lia).
    rewrite (mul_mul ti (t * d) sm2_G) by (try apply G_valid; nia).
    change (sm2_mul d sm2_G = sm2_mul (ti * (t * d)) sm2_G) with (sm2_base_mul d = sm2_base_mul (ti * (t * d))).
    apply base_mul_cong; [lia|nia|].
    assert (Hinv : (t * ti) mod sm2_n = 1) by (apply modinv_n; rewrite Z.mod_small by lia; lia).
    replace (ti * (t * d)) with ((t * ti) * d) by ring.
    rewrite <- Zmult_mod_idemp_l, Hinv, Z.mul_1_l. reflexivity.
  Qed.

  (* there are at most four candidates R: x(R) is (r-e) mod n or that plus n, and y is determined up to sign *)
  Lemma candidate_x R v : sm2_valid R = true -> R <> None -> 0 <= v < sm2_n -> x_of R mod sm2_n = v ->
    x_of R = v \/ x_of R = v + sm2_n.
  Proof.
    intros HR Hne Hv Hx. destruct R as [[x y]|]; [|contradiction]. unfold x_of in *. cbn [encode_point fst] in *.
    apply point_ok_some in HR as ((Hx0 & Hx1) & _). change (cp sm2_curve) with sm2_p in Hx1.
    assert (Hpn : sm2_p < 2 * sm2_n) by reflexivity.
    pose proof (Z.div_mod x sm2_n ltac:(lia)) as Hdm. rewrite Hx in Hdm.
    assert (0 <= x / sm2_n) by (apply Z.div_pos; lia).
    assert (x / sm2_n < 2) by (apply Z.div_lt_upper_bound; lia).
    assert (x / sm2_n = 0 \/ x / sm2_n = 1) as [E|E] by lia; rewrite E in Hdm; [left|right]; lia.
  Qed.

  Lemma same_x_two_points x y1 y2 :
    sm2_valid (Some (x, y1)) = true -> sm2_valid (Some (x, y2)) = true ->
    Some (x, y2) = Some (x, y1) \/ Some (x, y2) = sm2_neg (Some (x, y1)).
  Proof.
    intros H1 H2. unfold sm2_valid, point_ok in H1, H2. change (cp sm2_curve) with sm2_p in *.
    repeat rewrite andb_true_iff in H1. repeat rewrite andb_true_iff in H2.
    destruct H1 as ((((_ & _) & Ha1) & Hb1) & Hc1). destruct H2 as ((((_ & _) & Ha2) & Hb2) & Hc2).
    apply Z.leb_le in Ha1, Ha2. apply Z.ltb_lt in Hb1, Hb2.
    unfold on_curve in Hc1, Hc2. change (cp sm2_curve) with sm2_p in *. apply Z.eqb_eq in Hc1, Hc2.
    assert (E : (y1 * y1) mod sm2_p = (y2 * y2) mod sm2_p) by congruence.
    assert (Hdiv : (sm2_p | (y1 - y2) * (y1 + y2))).
    { apply Z.mod_divide; [pose proof p_gt_3; change (cp sm2_curve) with sm2_p in *; lia|].
      replace ((y1 - y2) * (y1 + y2)) with (y1 * y1 - y2 * y2) by ring.
      rewrite Zminus_mod, E, Z.sub_diag. reflexivity. }
    apply (prime_mult sm2_p Hp) in Hdiv as [[q Hq]|[q Hq]].
    - left. assert (q = 0) by nia. f_equal. f_equal. lia.
    - right. unfold sm2_neg, ec_neg. change (cp sm2_curve) with sm2_p. f_equal. f_equal.
      assert (q = 0 \/ q = 1) as [->| ->] by nia.
      + assert (y1 = 0 /\ y2 = 0) as [-> ->] by lia. reflexivity.
      + apply Z.mod_unique with (q := -1); lia.
  Qed.
End Group.

(* ---------- PublicKey.Verify: the strict parser, then Sm2Verify ---------------------------------------- *)
Lemma PublicKey_Verify_iff pub msg b : bytes_ok b ->
  (PublicKey_Verify pub msg b = true <->
   exists r s, b = sig_encode r s /\ Z.of_nat (length b) < 2 ^ 32 /\ Sm2Verify pub msg default_uid r s = true).
Proof.
  intros Hb. unfold PublicKey_Verify. split.
  - destruct (sig_decode b) as [[r s]|] eqn:E; [|discriminate]. intros Hv.
    assert (Hrs : 1 <= r /\ 1 <= s).
    { apply Sm2Verify_iff in Hv as (za & _ & Hr & Hs & _). lia. }
    apply sig_decode_iff in E as [E El]; [|exact Hb|lia|lia]. exists r, s. auto.
  - intros (r & s & E & El & Hv).
    assert (Hrs : 1 <= r /\ 1 <= s).
    { apply Sm2Verify_iff in Hv as (za & _ & Hr & Hs & _). lia. }
    rewrite (proj2 (sig_decode_iff b r s Hb ltac:(lia) ltac:(lia)) (conj E El)). exact Hv.
Qed.
