(* Lemmas for C13: keXHat is the standard's x~, keyExchange is GM/T 0003.3 6.1 in both roles,
   the two roles agree, invalid peer ephemerals and V = O are refused. *)
From Coq Require Import List NArith ZArith Znumtheory Bool Lia Arith.
From GmsmVerif Require Import Lib.Outcome EC.ECAffine EC.SM2Curve EC.ECAffineProofs SM3.SM3Spec
     SM2.SM2Bytes SM2.SM2BytesProofs SM2.SM2Spec SM2.DER SM2.DERProofs SM2.SM2Model SM2.SM2SignProofs
     SM2.SM2GroupMin SM2.SM2EncProofs.
Import ListNotations.
Open Scope Z_scope.

Local Opaque i2osp.

(* ---------- keXHat ------------------------------------------------------------------------------------------ *)
Lemma land_7f c : Z.of_N (N.land c 0x7f) = Z.of_N c mod 128.
Proof.
  change 0x7f%N with (N.ones 7). rewrite N.land_ones. rewrite N2Z.inj_mod. reflexivity.
Qed.

Lemma keXHat_is_x_bar x : 0 <= x -> keXHat x = x_bar x.
Proof.
  intros Hx. unfold keXHat, x_bar, kx_w.
  pose proof (be_bytes_ok x) as Hok. pose proof (os2ip_be_bytes x Hx) as Hos.
  set (buf := be_bytes x) in *. set (n := length buf).
  rewrite Z.add_comm. f_equal.
  destruct (Nat.leb_spec 16 n) as [Hn|Hn].
  - (* at least 16 bytes: buf = hi ++ c :: t with 15 bytes in t *)
    destruct (split_at buf (n - 16) ltac:(lia)) as (hi & lo & Ebuf & Hhi).
    assert (Hlo : length lo = 16%nat).
    { apply (f_equal (@length _)) in Ebuf. rewrite app_length in Ebuf. fold n in Ebuf. lia. }
    rewrite Ebuf at 1. rewrite (skipn_app_l hi) by exact Hhi.
    destruct lo as [|c t]; [discriminate|]. cbn [length] in Hlo.
    rewrite os2ip_zeros_app.
    rewrite Ebuf in Hos, Hok. apply bytes_ok_app in Hok as [Hokh Hokl]. apply bytes_ok_cons in Hokl as [Hc Hokt].
    rewrite os2ip_app, (os2ip_cons c t) in Hos. rewrite os2ip_cons. cbn [length] in Hos.
    assert (Ht : length t = 15%nat) by lia. rewrite Ht in *.
    pose proof (os2ip_bound t Hokt) as Hbt. rewrite Ht in Hbt. pose proof (os2ip_nonneg hi) as Hh0.
    rewrite land_7f.
    change (Z.of_nat (S 15)) with 16 in Hos. change (Z.of_nat 15) with 15 in *.
    set (T := os2ip t) in *. set (Hi := os2ip hi) in *. set (C := Z.of_N c) in *.
    assert (HC : 0 <= C < 256) by (unfold C; lia).
    pose proof (Z.div_mod C 128 ltac:(lia)) as Hdm. pose proof (Z.mod_pos_bound C 128 ltac:(lia)) as Hm.
    apply Z.mod_unique with (q := Hi * 2 + C / 128).
    + left. change (2 ^ 127) with (128 * 256 ^ 15). change (256 ^ 15) with 1329227995784915872903807060280344576 in *. lia.
    + rewrite <- Hos. change (2 ^ 127) with (128 * 256 ^ 15). change (256 ^ 16) with (256 * 256 ^ 15).
      change (256 ^ 15) with 1329227995784915872903807060280344576 in *. lia.
  - (* fewer than 16 bytes: nothing is cleared, and x < 2^120 *)
    replace (n - 16)%nat with 0%nat by lia. cbn [skipn repeat app]. rewrite Hos.
    pose proof (os2ip_bound buf Hok) as Hb. rewrite Hos in Hb. fold n in Hb.
    symmetry. apply Z.mod_small. split; [lia|].
    eapply Z.lt_le_trans; [apply Hb|]. change (2 ^ 127) with (128 * 256 ^ 15).
    assert (256 ^ Z.of_nat n <= 256 ^ 15) by (apply Z.pow_le_mono_r; lia).
    change (256 ^ 15) with 1329227995784915872903807060280344576 in *. lia.
Qed.

(* ---------- keyExchange = GM/T 0003.3 ------------------------------------------------------------------------ *)
Definition in256 (P : Z * Z) : Prop := 0 <= fst P < 2 ^ 256 /\ 0 <= snd P < 2 ^ 256.

Lemma keCoord_fe x : 0 <= x < 2 ^ 256 -> keCoordBytes x = fe_bytes x.
Proof. apply coord32_fe. Qed.

Lemma valid_in256 P : sm2_valid (Some P) = true -> in256 P.
Proof.
  destruct P as [x y]. intros H. apply point_ok_some in H as (Hx & Hy & _). pose proof p_lt_2_256.
  unfold in256. cbn [fst snd]. change (cp sm2_curve) with sm2_p in *. lia.
Qed.

Section Kx.
  Variable Hp : P_prime.
  Variable Hassoc : Add_assoc.
  Variable HnG : G_order_divides_n.
  Variable Hfin : G_multiples_finite.

  Lemma api_valid P : sm2_valid P = true -> api_point P = P.
  Proof. apply api_point_valid. Qed.

  (* the shared point as the code computes it = the standard's, for valid peer points *)
  Lemma kx_point_model d r R Ppeer Rpeer :
    sm2_valid (Some Ppeer) = true -> sm2_valid (Some Rpeer) = true -> 0 <= fst R -> 0 <= fst Rpeer ->
    let tb := (d + keXHat (fst R) * r) mod sm2_n in
    ScalarMult (Add Ppeer (ScalarMult Rpeer (keXHat (fst Rpeer)))) tb = encode_point (kx_point d r R Ppeer Rpeer) /\
    sm2_valid (kx_point d r R Ppeer Rpeer) = true.
  Proof.
    intros HP HR HR0 HRp0. cbv zeta. unfold kx_point. rewrite Z.mul_1_l.
    rewrite !keXHat_is_x_bar by assumption. set (tb := (d + x_bar (fst R) * r) mod sm2_n).
    pose proof n_pos. assert (Htb : 0 <= tb) by (apply Z.mod_pos_bound; lia).
    assert (Hxb : 0 <= x_bar (fst Rpeer)) by (unfold x_bar, kx_w; pose proof (Z.mod_pos_bound (fst Rpeer) (2 ^ 127) ltac:(lia)); lia).
    assert (Hram : sm2_valid (sm2_mul (x_bar (fst Rpeer)) (Some Rpeer)) = true) by (apply (mul_valid Hp); assumption).
    assert (Hsum : sm2_valid (sm2_add (Some Ppeer) (sm2_mul (x_bar (fst Rpeer)) (Some Rpeer))) = true)
      by (apply (add_valid Hp); assumption).
    unfold ScalarMult, Add. rewrite !go_decode_encode.
    rewrite (go_decode_valid Rpeer HR), (go_decode_valid Ppeer HP).
    rewrite (api_valid _ Hram), (api_valid _ Hsum).
    split; [reflexivity|]. apply (mul_valid Hp); assumption.
  Qed.

  Lemma keyExchange_is_spec klen ida idb pri pub rpri rpub thisISA :
    Z.of_nat (length ida) < 8192 -> Z.of_nat (length idb) < 8192 ->
    in256 (Pub pri) -> in256 (Pub rpri) -> sm2_valid (Some pub) = true -> 0 <= fst rpub -> 0 <= snd rpub ->
    (forall o, kx_spec thisISA (Z.to_nat klen) ida idb (D pri) (Pub pri) (D rpri) (Pub rpri) pub rpub = Some o ->
               keyExchange klen ida idb pri pub rpri rpub thisISA =
               if all_zero (kx_K o) then Err 6 else Ok (kx_K o, kx_S1 o, kx_S2 o)) /\
    (kx_spec thisISA (Z.to_nat klen) ida idb (D pri) (Pub pri) (D rpri) (Pub rpri) pub rpub = None ->
     exists e, keyExchange klen ida idb pri pub rpri rpub thisISA = Err e).
  Proof.
    intros Hia Hib [HPx HPy] [HRx HRy] Hpub Hr0 Hr1.
    unfold kx_spec, keyExchange. destruct rpub as [rx ry]. cbn [fst snd] in Hr0, Hr1.
    rewrite (valid_iff rx ry Hr0 Hr1).
    destruct (IsOnCurve (rx, ry)) eqn:Eon; cbn [negb andb].
    2:{ split; [discriminate|]. intros _. eexists. reflexivity. }
    cbn [fst snd]. destruct ((sm2_p <=? rx) || (sm2_p <=? ry))%bool eqn:Er; cbn [negb].
    { split; [discriminate|]. intros _. eexists. reflexivity. }
    assert (HRv : sm2_valid (Some (rx, ry)) = true) by (rewrite (valid_iff rx ry Hr0 Hr1), Eon, Er; reflexivity).
    destruct (kx_point_model (D pri) (D rpri) (Pub rpri) pub (rx, ry) Hpub HRv ltac:(lia) Hr0) as [EV HVv].
    cbn [fst snd] in EV. replace (keXHat (fst (Pub rpri)) * D rpri) with (keXHat (fst (Pub rpri)) * D rpri) by reflexivity.
    replace (D pri + keXHat (fst (Pub rpri)) * D rpri) with (D pri + keXHat (fst (Pub rpri)) * D rpri) in EV by reflexivity.
    rewrite EV. set (V := kx_point (D pri) (D rpri) (Pub rpri) pub (rx, ry)) in *.
    rewrite encode_xy.
    pose proof (valid_in256 pub Hpub) as [Hpx Hpy].
    pose proof (valid_in256 (rx, ry) HRv) as [Hrx Hry]. cbn [fst snd] in Hrx, Hry.
    assert (HZA : forall P id, in256 P -> Z.of_nat (length id) < 8192 -> ZA P id = Ok (za_spec P id))
      by (intros P id [H1 H2] H3; apply ZA_is_spec; assumption).
    destruct V as [[vx vy]|] eqn:EVp.
    - (* finite V *)
      assert (Hne : ((x_of (Some (vx, vy)) =? 0) && (y_of (Some (vx, vy)) =? 0))%bool = false).
      { unfold x_of, y_of. cbn [encode_point fst snd].
        destruct (Z.eqb_spec vx 0) as [->|]; [|reflexivity]. destruct (Z.eqb_spec vy 0) as [->|]; [|reflexivity].
        exfalso. exact (valid_not_00 _ HVv eq_refl). }
      pose proof (valid_in256 (vx, vy) HVv) as [Hvx Hvy]. cbn [fst snd] in Hvx, Hvy.
      split; [|discriminate]. intros o [= <-]. cbn [kx_K kx_S1 kx_S2].
      unfold x_of, y_of in *. cbn [encode_point fst snd] in *.
      destruct thisISA.
      + rewrite (HZA (Pub pri) ida (conj HPx HPy) Hia). cbn [obind]. rewrite Hne.
        rewrite (HZA pub idb (conj Hpx Hpy) Hib). cbn [obind].
        rewrite !keCoord_fe by assumption. rewrite kdf_is_spec.
        unfold kx_conf, x_of, y_of. cbn [encode_point fst snd].
        destruct (all_zero _); cbn [negb]; [reflexivity|].
        rewrite <- !app_assoc. reflexivity.
      + rewrite (HZA pub ida (conj Hpx Hpy) Hia). cbn [obind]. rewrite Hne.
        rewrite (HZA (Pub pri) idb (conj HPx HPy) Hib). cbn [obind].
        rewrite !keCoord_fe by assumption. rewrite kdf_is_spec.
        unfold kx_conf, x_of, y_of. cbn [encode_point fst snd].
        destruct (all_zero _); cbn [negb]; [reflexivity|].
        rewrite <- !app_assoc. reflexivity.
    - (* V = O *)
      split; [discriminate|]. intros _. unfold x_of, y_of. cbn [encode_point fst snd Z.eqb andb].
      destruct thisISA.
      + rewrite (HZA (Pub pri) ida (conj HPx HPy) Hia). cbn [obind]. eexists. reflexivity.
      + rewrite (HZA pub ida (conj Hpx Hpy) Hia). cbn [obind]. eexists. reflexivity.
  Qed.

  (* ---- both roles derive the same point ---------------------------------------------------------------- *)
  Lemma x_bar_nonneg x : 0 <= x_bar x.
  Proof. unfold x_bar, kx_w. pose proof (Z.mod_pos_bound x (2 ^ 127) ltac:(lia)). lia. Qed.

  Lemma kx_point_G d r (R : Z * Z) dp rp :
    0 <= dp -> 0 <= rp -> 0 <= fst R ->
    forall xb, 0 <= xb ->
    sm2_mul (1 * ((d + x_bar (fst R) * r) mod sm2_n))
            (sm2_add (sm2_base_mul dp) (sm2_mul xb (sm2_base_mul rp))) =
    sm2_base_mul (((d + x_bar (fst R) * r) mod sm2_n) * (dp + xb * rp)).
  Proof.
    intros Hdp Hrp HR xb Hxb. pose proof n_pos. rewrite Z.mul_1_l.
    set (t := (d + x_bar (fst R) * r) mod sm2_n). assert (Ht : 0 <= t) by (apply Z.mod_pos_bound; lia).
    change (sm2_base_mul rp) with (sm2_mul rp sm2_G). change (sm2_base_mul dp) with (sm2_mul dp sm2_G).
    rewrite (mul_mul Hp Hassoc) by (try apply G_valid; lia).
    rewrite <- (mul_add Hp Hassoc) by (try apply G_valid; nia).
    rewrite (mul_mul Hp Hassoc) by (try apply G_valid; nia). reflexivity.
  Qed.

  Lemma kx_points_agree dA dB rA rB :
    1 <= dA < sm2_n -> 1 <= dB < sm2_n -> 1 <= rA < sm2_n -> 1 <= rB < sm2_n ->
    let PA := ScalarBaseMult dA in let PB := ScalarBaseMult dB in
    let RA := ScalarBaseMult rA in let RB := ScalarBaseMult rB in
    kx_point dA rA RA PB RB = kx_point dB rB RB PA RA.
  Proof.
    intros HdA HdB HrA HrB PA PB RA RB. unfold kx_point.
    unfold PA, PB, RA, RB. rewrite !(ScalarBaseMult_point Hfin) by lia.
    destruct (ScalarBaseMult_decode Hp Hfin rA HrA) as (_ & HRA & _).
    destruct (ScalarBaseMult_decode Hp Hfin rB HrB) as (_ & HRB & _).
    rewrite (kx_point_G dA rA _ dB rB) by (try apply x_bar_nonneg; lia).
    rewrite (kx_point_G dB rB _ dA rA) by (try apply x_bar_nonneg; lia).
    set (xa := x_bar (fst (ScalarBaseMult rA))). set (xb := x_bar (fst (ScalarBaseMult rB))).
    assert (Hxa : 0 <= xa) by apply x_bar_nonneg. assert (Hxb : 0 <= xb) by apply x_bar_nonneg.
    pose proof n_pos.
    apply (base_mul_cong Hp Hassoc HnG).
    - apply Z.mul_nonneg_nonneg; [apply Z.mod_pos_bound; lia|nia].
    - apply Z.mul_nonneg_nonneg; [apply Z.mod_pos_bound; lia|nia].
    - rewrite Zmult_mod_idemp_l. rewrite (Zmult_mod_idemp_l (dB + xb * rB)). f_equal. ring.
  Qed.

  Lemma kx_spec_agree klen ida idb dA dB rA rB :
    1 <= dA < sm2_n -> 1 <= dB < sm2_n -> 1 <= rA < sm2_n -> 1 <= rB < sm2_n ->
    let PA := ScalarBaseMult dA in let PB := ScalarBaseMult dB in
    let RA := ScalarBaseMult rA in let RB := ScalarBaseMult rB in
    kx_spec true klen ida idb dA PA rA RA PB RB = kx_spec false klen ida idb dB PB rB RB PA RA.
  Proof.
    intros HdA HdB HrA HrB PA PB RA RB. unfold kx_spec.
    assert (Hv : forall k, 1 <= k < sm2_n -> sm2_valid (Some (ScalarBaseMult k)) = true).
    { intros k Hk. rewrite (ScalarBaseMult_point Hfin k Hk). apply (mul_valid Hp); [apply G_valid|lia]. }
    unfold RA, RB. rewrite !Hv by assumption. cbn [negb].
    pose proof (kx_points_agree dA dB rA rB HdA HdB HrA HrB) as E. cbv zeta in E. fold PA PB RA RB in E |- *.
    rewrite E. reflexivity.
  Qed.

  Lemma ScalarBaseMult_in256 k : 1 <= k < sm2_n -> in256 (ScalarBaseMult k).
  Proof.
    intros Hk. apply valid_in256. rewrite (ScalarBaseMult_point Hfin k Hk). apply (mul_valid Hp); [apply G_valid|lia].
  Qed.

  Lemma KeyExchange_agree klen ida idb dA dB rA rB :
    Z.of_nat (length ida) < 8192 -> Z.of_nat (length idb) < 8192 ->
    1 <= dA < sm2_n -> 1 <= dB < sm2_n -> 1 <= rA < sm2_n -> 1 <= rB < sm2_n ->
    KeyExchangeA klen ida idb (key_of dA) (ScalarBaseMult dB) (key_of rA) (ScalarBaseMult rB) =
    KeyExchangeB klen ida idb (key_of dB) (ScalarBaseMult dA) (key_of rB) (ScalarBaseMult rA) \/
    (exists e e', KeyExchangeA klen ida idb (key_of dA) (ScalarBaseMult dB) (key_of rA) (ScalarBaseMult rB) = Err e /\
                  KeyExchangeB klen ida idb (key_of dB) (ScalarBaseMult dA) (key_of rB) (ScalarBaseMult rA) = Err e').
  Proof.
    intros Hia Hib HdA HdB HrA HrB. unfold KeyExchangeA, KeyExchangeB.
    assert (Hv : forall k, 1 <= k < sm2_n -> sm2_valid (Some (ScalarBaseMult k)) = true).
    { intros k Hk. rewrite (ScalarBaseMult_point Hfin k Hk). apply (mul_valid Hp); [apply G_valid|lia]. }
    assert (H0 : forall k, 1 <= k < sm2_n -> 0 <= fst (ScalarBaseMult k) /\ 0 <= snd (ScalarBaseMult k)).
    { intros k Hk. destruct (ScalarBaseMult_in256 k Hk). lia. }
    destruct (keyExchange_is_spec klen ida idb (key_of dA) (ScalarBaseMult dB) (key_of rA) (ScalarBaseMult rB) true
                Hia Hib (ScalarBaseMult_in256 dA HdA) (ScalarBaseMult_in256 rA HrA) (Hv dB HdB)
                (proj1 (H0 rB HrB)) (proj2 (H0 rB HrB))) as [A1 A2].
    destruct (keyExchange_is_spec klen ida idb (key_of dB) (ScalarBaseMult dA) (key_of rB) (ScalarBaseMult rA) false
                Hia Hib (ScalarBaseMult_in256 dB HdB) (ScalarBaseMult_in256 rB HrB) (Hv dA HdA)
                (proj1 (H0 rA HrA)) (proj2 (H0 rA HrA))) as [B1 B2].
    cbn [key_of D Pub] in *.
    pose proof (kx_spec_agree (Z.to_nat klen) ida idb dA dB rA rB HdA HdB HrA HrB) as E. cbv zeta in E.
    rewrite <- E in B1, B2.
    destruct (kx_spec true (Z.to_nat klen) ida idb dA (ScalarBaseMult dA) rA (ScalarBaseMult rA) (ScalarBaseMult dB) (ScalarBaseMult rB)) as [o|].
    - left. rewrite (A1 o eq_refl), (B1 o eq_refl). reflexivity.
    - right. destruct (A2 eq_refl) as [e He]. destruct (B2 eq_refl) as [e' He']. exists e, e'. auto.
  Qed.
End Kx.

(* ---------- refusals (no premise) ----------------------------------------------------------------------------- *)
Lemma keyExchange_rejects_invalid_ephemeral klen ida idb pri pub rpri rpub thisISA :
  0 <= fst rpub -> 0 <= snd rpub -> sm2_valid (Some rpub) = false ->
  exists e, keyExchange klen ida idb pri pub rpri rpub thisISA = Err e.
Proof.
  intros H0 H1 Hv. destruct rpub as [rx ry]. cbn [fst snd] in *. rewrite (valid_iff rx ry H0 H1) in Hv.
  unfold keyExchange. cbn [fst snd].
  destruct (IsOnCurve (rx, ry)); cbn [negb andb] in *; [|eexists; reflexivity].
  destruct ((sm2_p <=? rx) || (sm2_p <=? ry))%bool; [eexists; reflexivity|discriminate].
Qed.

Lemma keyExchange_rejects_infinite_V klen ida idb pri pub rpri rpub thisISA :
  let tb := (D pri + keXHat (fst (Pub rpri)) * D rpri) mod sm2_n in
  ScalarMult (Add pub (ScalarMult rpub (keXHat (fst rpub)))) tb = (0, 0) ->
  exists e, keyExchange klen ida idb pri pub rpri rpub thisISA = Err e.
Proof.
  intros tb HV. unfold keyExchange. fold tb.
  destruct (negb (IsOnCurve rpub)); [eexists; reflexivity|].
  destruct ((sm2_p <=? fst rpub) || (sm2_p <=? snd rpub))%bool; [eexists; reflexivity|].
  rewrite HV. unfold ZA.
  destruct (8192 <=? Z.of_nat (length ida)); cbn [obind]; [eexists; reflexivity|].
  cbn [Z.eqb andb]. eexists. reflexivity.
Qed.
