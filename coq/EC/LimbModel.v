(* The 9-limb layer of /repo/sm2/p256.go as list functions.  sm2P256Add, sm2P256Sub, sm2P256ReduceCarry (inlined),
   the products of sm2P256Mul / sm2P256Square and sm2P256ReduceDegree are NOT written by hand: they are the
   definitions of Gen/P256Limbs.v, which the translator (harness/cmd/gen/target_sm2limbs.go) regenerates from the
   Go AST on every run, statement by statement, with explicit uint32 / uint64 wrap-around.  This file only wraps
   them into functions on lists (a field element = 9 words, a large element = 17 words; wrong lengths give [])
   and models by hand the two functions that go through math/big: sm2P256FromBig and sm2P256ToBig.
   Aliasing: the Go functions are called with out == in (e.g. sm2P256Add(&r, &r, &r)); each reads a[i], b[i]
   before it writes c[i] and never reads a cell it has already written, so the pure functions are faithful.
   sm2P256ReduceCarry indexes sm2P256Carry[carry*9+k]; Go would panic for carry >= 8, the generated code reads 0
   there - carry is a 32-bit word shifted right by 29, so carry <= 7 always (LimbProofs.carry_small).
   No proofs in this file. *)
From Coq Require Import ZArith NArith List Bool.
From GmsmVerif Require Import EC.ECAffine EC.P256Model Gen.SM2Params Gen.P256Tables Gen.P256Limbs.
Import ListNotations.
Open Scope N_scope.

(* func sm2P256Add(c, a, b) *)
Definition sm2P256Add_limbs (a b : list N) : list N :=
  match a, b with
  | [a0; a1; a2; a3; a4; a5; a6; a7; a8], [b0; b1; b2; b3; b4; b5; b6; b7; b8] =>
    let '(c0, c1, c2, c3, c4, c5, c6, c7, c8) := gen_sm2P256Add a0 a1 a2 a3 a4 a5 a6 a7 a8 b0 b1 b2 b3 b4 b5 b6 b7 b8 in
    [c0; c1; c2; c3; c4; c5; c6; c7; c8]
  | _, _ => []
  end.

(* func sm2P256Sub(c, a, b) *)
Definition sm2P256Sub_limbs (a b : list N) : list N :=
  match a, b with
  | [a0; a1; a2; a3; a4; a5; a6; a7; a8], [b0; b1; b2; b3; b4; b5; b6; b7; b8] =>
    let '(c0, c1, c2, c3, c4, c5, c6, c7, c8) := gen_sm2P256Sub a0 a1 a2 a3 a4 a5 a6 a7 a8 b0 b1 b2 b3 b4 b5 b6 b7 b8 in
    [c0; c1; c2; c3; c4; c5; c6; c7; c8]
  | _, _ => []
  end.

(* func sm2P256Mul(c, a, b) = ReduceDegree of the schoolbook product *)
Definition sm2P256Mul_limbs (a b : list N) : list N :=
  match a, b with
  | [a0; a1; a2; a3; a4; a5; a6; a7; a8], [b0; b1; b2; b3; b4; b5; b6; b7; b8] =>
    let '(c0, c1, c2, c3, c4, c5, c6, c7, c8) := gen_sm2P256Mul a0 a1 a2 a3 a4 a5 a6 a7 a8 b0 b1 b2 b3 b4 b5 b6 b7 b8 in
    [c0; c1; c2; c3; c4; c5; c6; c7; c8]
  | _, _ => []
  end.

(* func sm2P256Square(b, a) *)
Definition sm2P256Square_limbs (a : list N) : list N :=
  match a with
  | [a0; a1; a2; a3; a4; a5; a6; a7; a8] =>
    let '(c0, c1, c2, c3, c4, c5, c6, c7, c8) := gen_sm2P256Square a0 a1 a2 a3 a4 a5 a6 a7 a8 in
    [c0; c1; c2; c3; c4; c5; c6; c7; c8]
  | _ => []
  end.

(* the 17 x uint64 product arrays *)
Definition sm2P256Mul_product (a b : list N) : list N :=
  match a, b with
  | [a0; a1; a2; a3; a4; a5; a6; a7; a8], [b0; b1; b2; b3; b4; b5; b6; b7; b8] =>
    let '(t0, t1, t2, t3, t4, t5, t6, t7, t8, t9, t10, t11, t12, t13, t14, t15, t16) := gen_sm2P256Mul_product a0 a1 a2 a3 a4 a5 a6 a7 a8 b0 b1 b2 b3 b4 b5 b6 b7 b8 in
    [t0; t1; t2; t3; t4; t5; t6; t7; t8; t9; t10; t11; t12; t13; t14; t15; t16]
  | _, _ => []
  end.

Definition sm2P256Square_product (a : list N) : list N :=
  match a with
  | [a0; a1; a2; a3; a4; a5; a6; a7; a8] =>
    let '(t0, t1, t2, t3, t4, t5, t6, t7, t8, t9, t10, t11, t12, t13, t14, t15, t16) := gen_sm2P256Square_product a0 a1 a2 a3 a4 a5 a6 a7 a8 in
    [t0; t1; t2; t3; t4; t5; t6; t7; t8; t9; t10; t11; t12; t13; t14; t15; t16]
  | _ => []
  end.

(* func sm2P256ReduceDegree(a, b) *)
Definition sm2P256ReduceDegree_limbs (b : list N) : list N :=
  match b with
  | [t0; t1; t2; t3; t4; t5; t6; t7; t8; t9; t10; t11; t12; t13; t14; t15; t16] =>
    let '(c0, c1, c2, c3, c4, c5, c6, c7, c8) := gen_sm2P256ReduceDegree t0 t1 t2 t3 t4 t5 t6 t7 t8 t9 t10 t11 t12 t13 t14 t15 t16 in
    [c0; c1; c2; c3; c4; c5; c6; c7; c8]
  | _ => []
  end.

(* func sm2P256FromBig(X, a): x = (a << 257) mod P, then 9 digits of 29, 28, 29, ... bits, least significant first
   (uint32(bits[0]) & mask is x mod 2^k for a non-negative big.Int; Rsh is the division by 2^k) *)
Fixpoint fromBig_digits (w29 : bool) (n : nat) (x : Z) : list N :=
  match n with
  | O => []
  | S m =>
    let k := (if w29 then 536870912 else 268435456)%Z in
    Z.to_N (x mod k) :: fromBig_digits (negb w29) m (x / k)
  end.
Definition sm2P256FromBig_limbs (a : Z) : list N := fromBig_digits true 9 ((a * 2 ^ 257) mod gen_P)%Z.

(* func sm2P256ToBig(X): the abstraction function fe_of_limbs of EC/P256Model.v on N words *)
Definition limbs_valueN (l : list N) : Z := limbs_value (map Z.of_N l).
Definition sm2P256ToBig_limbs (X : list N) : Z := (limbs_valueN X * gen_RInverse) mod gen_P.

(* value of a 17-word large element: word k at bit 57*(k/2) + 29*(k mod 2), i.e. radix 2^29, 2^28, ... *)
Definition large_valueN (l : list N) : Z := large_value_from true (map Z.of_N l).
