(* Affine specification of a short-Weierstrass curve  y^2 = x^3 + a x + b  over Z mod p
   (chord-and-tangent law as in GM/T 0003.1 section 3.2.3 / SEC 1 section 2.2.1).
   SPEC file: it never looks at the Go code.  Definitions only; lemmas are in EC/ECAffineProofs.v.

   STABLE INTERFACE (imported and extracted by the SM2 signature / encryption / key-exchange checks):
     curve  = mkCurve p a b        (record, projections cp ca cb)
     point  = option (Z * Z)       (None = point at infinity; coordinates are kept reduced in [0,p))
     modinv   : Z -> Z -> Z        modinv x m = x^-1 mod m  (0 when gcd (x mod m, m) <> 1, e.g. x = 0 mod m)
     on_curve : curve -> Z -> Z -> bool
     point_ok : curve -> point -> bool     (coordinates in [0,p) and on the curve; infinity is ok)
     ec_neg ec_double : curve -> point -> point
     ec_add   : curve -> point -> point -> point
     ec_mul   : curve -> Z -> point -> point   ([k]P, double-and-add over the binary expansion of k;
                                                [0]P = None, [-k]P = -[k]P)
   Everything is computable; with ExtrOcamlZBigInt a scalar multiplication takes a few ms. *)
From Coq Require Import ZArith.
Open Scope Z_scope.

Record curve := mkCurve { cp : Z; ca : Z; cb : Z }.

Definition point := option (Z * Z).

(* ---- modular inverse: extended Euclid on (m, x mod m) ---------------------------------- *)
(* invariant: r0 = s0 * x and r1 = s1 * x (mod m).  The product r0*r1 at least halves per step, so
   2*log2_up m + 1 steps are enough (proved in ECAffineProofs.egcd_spec). *)
Fixpoint egcd (fuel : nat) (r0 r1 s0 s1 : Z) : Z * Z :=
  match fuel with
  | O => (r0, s0)
  | S f =>
    if r1 =? 0 then (r0, s0)
    else let q := r0 / r1 in egcd f r1 (r0 - q * r1) s1 (s0 - q * s1)
  end.

Definition modinv (x m : Z) : Z :=
  let '(g, s) := egcd (S (Z.to_nat (2 * Z.log2_up m))) m (x mod m) 0 1 in
  if g =? 1 then s mod m else 0.

(* ---- the curve ---------------------------------------------------------------------------- *)
Definition on_curve (c : curve) (x y : Z) : bool :=
  (y * y) mod cp c =? (x * x * x + ca c * x + cb c) mod cp c.

Definition point_ok (c : curve) (P : point) : bool :=
  match P with
  | None => true
  | Some (x, y) =>
    ((0 <=? x) && (x <? cp c) && (0 <=? y) && (y <? cp c) && on_curve c x y)%bool
  end.

Definition ec_neg (c : curve) (P : point) : point :=
  match P with
  | None => None
  | Some (x, y) => Some (x, (- y) mod cp c)
  end.

(* tangent rule; a point with y = 0 has order 2 *)
Definition ec_double (c : curve) (P : point) : point :=
  match P with
  | None => None
  | Some (x, y) =>
    if y mod cp c =? 0 then None
    else
      let l := ((3 * x * x + ca c) * modinv (2 * y) (cp c)) mod cp c in
      let x3 := (l * l - 2 * x) mod cp c in
      let y3 := (l * (x - x3) - y) mod cp c in
      Some (x3, y3)
  end.

(* chord rule; equal abscissae: opposite points give infinity, otherwise the points are equal *)
Definition ec_add (c : curve) (P Q : point) : point :=
  match P, Q with
  | None, _ => Q
  | _, None => P
  | Some (x1, y1), Some (x2, y2) =>
    if (x1 - x2) mod cp c =? 0 then
      if (y1 + y2) mod cp c =? 0 then None else ec_double c P
    else
      let l := ((y2 - y1) * modinv (x2 - x1) (cp c)) mod cp c in
      let x3 := (l * l - x1 - x2) mod cp c in
      let y3 := (l * (x1 - x3) - y1) mod cp c in
      Some (x3, y3)
  end.

(* [k]P for a positive k, most significant bit first *)
Fixpoint ec_mul_pos (c : curve) (k : positive) (P : point) : point :=
  match k with
  | xH => P
  | xO q => ec_double c (ec_mul_pos c q P)
  | xI q => ec_add c (ec_double c (ec_mul_pos c q P)) P
  end.

Definition ec_mul (c : curve) (k : Z) (P : point) : point :=
  match k with
  | Z0 => None
  | Zpos q => ec_mul_pos c q P
  | Zneg q => ec_neg c (ec_mul_pos c q P)
  end.

(* the Go API convention (crypto/elliptic): the point at infinity is the pair (0,0) *)
Definition encode_point (P : point) : Z * Z :=
  match P with None => (0, 0) | Some xy => xy end.

Definition decode_point (x y : Z) : point :=
  if ((x =? 0) && (y =? 0))%bool then None else Some (x, y).
