(* The constant-time selections of p256.go at the limb level, hand-modelled on uint32 words with explicit wrap-around:
   nonZeroToAllOnes, the per-entry mask of sm2P256SelectAffinePoint / sm2P256SelectJacobianPoint
   (mask = i ^ index; mask |= mask >> 2; mask |= mask >> 1; mask &= 1; mask--), sm2P256CopyConditional
   (out[i] ^= mask & (in[i] ^ out[i])) and the OR-accumulation  out[j] |= table[..] & mask  over i = 1..15.
   Theorems: the masks are all-ones exactly for i = index (complete sweep over 15 x 16 pairs), CopyConditional is
   if-then-else on words < 2^32, and the accumulation selects exactly the indexed table entry (zero for index 0). *)
From Coq Require Import ZArith NArith List Bool Lia.
Import ListNotations.
Open Scope N_scope.

Definition W32 : N := 4294967296.
Definition ones32 : N := 4294967295.

(* func nonZeroToAllOnes(x uint32) uint32 { return ((x - 1) >> 31) - 1 } *)
Definition nonZeroToAllOnes_w (x : N) : N := (((x + W32 - 1) mod W32) / 2147483648 + W32 - 1) mod W32.

(* the mask of iteration i of the selection loops *)
Definition select_mask (i index : N) : N :=
  let mask := N.lxor i index in
  let mask := N.lor mask (mask / 4) in
  let mask := N.lor mask (mask / 2) in
  let mask := N.land mask 1 in
  (mask + W32 - 1) mod W32.

(* ^x on uint32 *)
Definition not32 (x : N) : N := N.lxor x ones32.

Lemma select_mask_spec :
  forallb (fun i => forallb (fun index => select_mask i index =? (if i =? index then ones32 else 0))
                            [0;1;2;3;4;5;6;7;8;9;10;11;12;13;14;15])
          [1;2;3;4;5;6;7;8;9;10;11;12;13;14;15] = true.
Proof. vm_compute. reflexivity. Qed.

Lemma nonZeroToAllOnes_spec :
  forallb (fun x => nonZeroToAllOnes_w x =? (if x =? 0 then 0 else ones32)) [0;1;2;3;4;5;6;7;8;9;10;11;12;13;14;15] = true.
Proof. vm_compute. reflexivity. Qed.

Lemma land_ones32 : forall x, x < W32 -> N.land x ones32 = x.
Proof. intros x H. change ones32 with (N.ones 32). rewrite N.land_ones. apply N.mod_small. exact H. Qed.

Lemma land_ones32_l : forall x, x < W32 -> N.land ones32 x = x.
Proof. intros. rewrite N.land_comm. apply land_ones32. assumption. Qed.

Lemma lxor_lt32 : forall a b, a < W32 -> b < W32 -> N.lxor a b < W32.
Proof.
  intros a b Ha Hb. change W32 with (2 ^ 32) in *.
  destruct (N.eq_dec (N.lxor a b) 0) as [E|E]; [rewrite E; reflexivity|].
  assert (Hpos : 0 < N.lxor a b) by (destruct (N.lxor a b); [congruence|reflexivity]).
  apply (proj2 (N.log2_lt_pow2 _ 32 Hpos)).
  eapply N.le_lt_trans; [apply N.log2_lxor|].
  apply N.max_lub_lt.
  - destruct a as [|pa]; [reflexivity|]. apply (proj1 (N.log2_lt_pow2 (N.pos pa) 32 (eq_refl : 0 < N.pos pa))). exact Ha.
  - destruct b as [|pb]; [reflexivity|]. apply (proj1 (N.log2_lt_pow2 (N.pos pb) 32 (eq_refl : 0 < N.pos pb))). exact Hb.
Qed.

(* out ^= mask & (in ^ out) *)
Definition copy_word (out inp mask : N) : N := N.lxor out (N.land mask (N.lxor inp out)).

Lemma copy_word_spec : forall out inp, out < W32 -> inp < W32 ->
  copy_word out inp 0 = out /\ copy_word out inp ones32 = inp.
Proof.
  intros out inp Ho Hi. unfold copy_word. split.
  - rewrite N.land_0_l. apply N.lxor_0_r.
  - rewrite land_ones32_l by (apply lxor_lt32; assumption).
    rewrite (N.lxor_comm inp out), <- N.lxor_assoc, N.lxor_nilpotent. apply N.lxor_0_l.
Qed.

(* func sm2P256CopyConditional(out, in *sm2P256FieldElement, mask uint32) *)
Fixpoint CopyConditional_limbs (out inp : list N) (mask : N) : list N :=
  match out, inp with
  | o :: out', i :: inp' => copy_word o i mask :: CopyConditional_limbs out' inp' mask
  | _, _ => out
  end.

Definition words32 (l : list N) : Prop := Forall (fun w => w < W32) l.

Lemma CopyConditional_spec : forall out inp, words32 out -> words32 inp -> length out = length inp ->
  CopyConditional_limbs out inp 0 = out /\ CopyConditional_limbs out inp ones32 = inp.
Proof.
  induction out as [|o out IH]; intros inp Ho Hi HL; destruct inp as [|i inp]; try discriminate.
  - split; reflexivity.
  - inversion Ho; inversion Hi; subst. cbn [CopyConditional_limbs].
    destruct (copy_word_spec o i) as [E0 E1]; try assumption.
    destruct (IH inp) as [F0 F1]; try assumption; [cbn in HL; lia|].
    rewrite E0, E1, F0, F1. split; reflexivity.
Qed.

(* out |= entry_i & mask_i for i = 1..15, starting from 0: one output word; [f i] is the table word of entry i *)
Definition select_word (f : N -> N) (index : N) : N :=
  fold_left (fun acc i => N.lor acc (N.land (f i) (select_mask i index))) [1;2;3;4;5;6;7;8;9;10;11;12;13;14;15] 0.

Lemma select_word_spec : forall f index, index <= 15 -> (forall i, f i < W32) ->
  select_word f index = if index =? 0 then 0 else f index.
Proof.
  intros f index Hi Hf. unfold select_word.
  assert (Hc : index = 0 \/ index = 1 \/ index = 2 \/ index = 3 \/ index = 4 \/ index = 5 \/ index = 6 \/ index = 7 \/
               index = 8 \/ index = 9 \/ index = 10 \/ index = 11 \/ index = 12 \/ index = 13 \/ index = 14 \/ index = 15)
    by lia.
  repeat (destruct Hc as [->|Hc]; [
    cbn [fold_left];
    repeat match goal with |- context [select_mask ?i ?j] =>
      let r := eval vm_compute in (select_mask i j) in change (select_mask i j) with r end;
    repeat first [rewrite N.land_0_r | rewrite (land_ones32 _ (Hf _)) | rewrite N.lor_0_r | rewrite N.lor_0_l];
    reflexivity |]).
  subst index. cbn [fold_left].
  repeat match goal with |- context [select_mask ?i ?j] =>
    let r := eval vm_compute in (select_mask i j) in change (select_mask i j) with r end.
  repeat first [rewrite N.land_0_r | rewrite (land_ones32 _ (Hf _)) | rewrite N.lor_0_r | rewrite N.lor_0_l].
  reflexivity.
Qed.
