(* Base-point multiplication at the LIMB level: sm2P256ScalarBaseMult and sm2P256ToAffine over the limb-level point
   functions (EC/LimbPoint.v), the table words of sm2P256Precomputed and the constant-time selections on uint32 masks
   (EC/LimbSelect.v).  Theorem: the limb-level pipeline computes, word for word meaningfully (under fe = ToBig), what the
   F_p-level model computes; hence C03's ScalarBaseMult theorem holds for the limb-level code:
   public API -> limbs -> affine result, with nothing "F_p-level by specification" in between. *)
From Coq Require Import ZArith NArith List Bool Lia.
From GmsmVerif Require Import Lib.Outcome EC.ECAffine EC.SM2Curve EC.P256Model Gen.SM2Params Gen.P256Tables Gen.P256Limbs
  EC.LimbModel EC.LimbProofs EC.LimbReduceFinal EC.LimbRefine EC.LimbPoint EC.LimbSelect.
Import ListNotations.
Open Scope Z_scope.

Notation limbs := (list N) (only parsing).

(* sm2P256Precomputed as uint32 words *)
Definition precomputedN : list N := map Z.to_N gen_sm2P256Precomputed.
Definition zeros9 : list N := repeat 0%N 9.

(* func sm2P256SelectAffinePoint(xOut, yOut, table []uint32, index uint32): xOut, yOut start at zero; for i = 1..15 the
   mask of (i, index) is computed and  xOut[j] |= table[(i-1)*18 + j] & mask,  yOut[j] |= table[(i-1)*18 + 9 + j] & mask *)
Definition SelectAffinePoint_limbs (table : list N) (index : N) : limbs * limbs :=
  (map (fun j => select_word (fun i => nth (N.to_nat ((i - 1) * 18 + j)) table 0%N) index) [0;1;2;3;4;5;6;7;8]%N,
   map (fun j => select_word (fun i => nth (N.to_nat ((i - 1) * 18 + 9 + j)) table 0%N) index) [0;1;2;3;4;5;6;7;8]%N).

Definition looseLb (l : list N) : bool :=
  match l with
  | [a0; a1; a2; a3; a4; a5; a6; a7; a8] =>
    ((a0 <? 2^30) && (a1 <? 2^29) && (a2 <? 2^30) && (a3 <? 2^29) && (a4 <? 2^30) && (a5 <? 2^29) &&
     (a6 <? 2^30) && (a7 <? 2^29) && (a8 <? 2^30))%N
  | _ => false
  end.

Lemma looseLb_sound : forall l, looseLb l = true -> looseL l.
Proof.
  intros l H. destruct l as [|a0 [|a1 [|a2 [|a3 [|a4 [|a5 [|a6 [|a7 [|a8 [|? ?]]]]]]]]]]; try discriminate.
  cbn [looseLb] in H. cbn [looseL]. unfold loose9.
  repeat (apply andb_true_iff in H; destruct H as [H ?]).
  repeat match goal with H : (_ <? _)%N = true |- _ => apply N.ltb_lt in H end.
  repeat split; assumption.
Qed.

(* every selection from the generated table (both halves, every index 0..15) is loose and represents what the
   F_p-level sm2P256SelectAffinePoint returns: complete sweep *)
Definition select_entry_ok (off : nat) (idx : N) : bool :=
  let '(px, py) := SelectAffinePoint_limbs (skipn off precomputedN) idx in
  let '(mx, my) := sm2P256SelectAffinePoint gen_curve gen_RInverse (skipn off gen_sm2P256Precomputed) (Z.of_N idx) in
  looseLb px && looseLb py && (fe px =? mx) && (fe py =? my).

Lemma select_affine_sweep :
  forallb (fun off => forallb (select_entry_ok off) [0;1;2;3;4;5;6;7;8;9;10;11;12;13;14;15]%N) [0; 270]%nat = true.
Proof. vm_compute. reflexivity. Qed.

Lemma select_affine_ok : forall off idx, (off = 0 \/ off = 270)%nat -> (idx <= 15)%N ->
  let '(px, py) := SelectAffinePoint_limbs (skipn off precomputedN) idx in
  looseL px /\ looseL py /\
  (fe px, fe py) = sm2P256SelectAffinePoint gen_curve gen_RInverse (skipn off gen_sm2P256Precomputed) (Z.of_N idx).
Proof.
  intros off idx Hoff Hidx. pose proof select_affine_sweep as H. rewrite forallb_forall in H.
  specialize (H off ltac:(destruct Hoff as [-> | ->]; cbn; tauto)). rewrite forallb_forall in H.
  assert (Hin : In idx [0;1;2;3;4;5;6;7;8;9;10;11;12;13;14;15]%N).
  { assert (Hc : (idx = 0 \/ idx = 1 \/ idx = 2 \/ idx = 3 \/ idx = 4 \/ idx = 5 \/ idx = 6 \/ idx = 7 \/ idx = 8 \/
                  idx = 9 \/ idx = 10 \/ idx = 11 \/ idx = 12 \/ idx = 13 \/ idx = 14 \/ idx = 15)%N) by lia.
    repeat (destruct Hc as [->|Hc]; [cbn; tauto|]). subst idx. cbn; tauto. }
  specialize (H idx Hin). unfold select_entry_ok in H.
  destruct (SelectAffinePoint_limbs (skipn off precomputedN) idx) as [px py].
  destruct (sm2P256SelectAffinePoint gen_curve gen_RInverse (skipn off gen_sm2P256Precomputed) (Z.of_N idx)) as [mx my].
  repeat (apply andb_true_iff in H; destruct H as [H ?]).
  split; [apply looseLb_sound; assumption|]. split; [apply looseLb_sound; assumption|].
  f_equal; apply Z.eqb_eq; assumption.
Qed.

(* loose limb vectors are 9 words below 2^32 *)
Lemma looseL_words : forall l, looseL l -> words32 l /\ length l = 9%nat.
Proof.
  intros l H. destruct l as [|a0 [|a1 [|a2 [|a3 [|a4 [|a5 [|a6 [|a7 [|a8 [|? ?]]]]]]]]]]; try contradiction.
  cbn [looseL] in H. unfold loose9 in H. split; [|reflexivity].
  change (2^30)%N with 1073741824%N in H. change (2^29)%N with 536870912%N in H.
  unfold words32, W32. repeat constructor; lia.
Qed.

Lemma CopyConditional_loose : forall out inp (b : bool), looseL out -> looseL inp ->
  CopyConditional_limbs out inp (if b then ones32 else 0%N) = if b then inp else out.
Proof.
  intros out inp b Ho Hi. destruct (looseL_words _ Ho) as [Wo Lo]. destruct (looseL_words _ Hi) as [Wi Li].
  destruct (CopyConditional_spec out inp Wo Wi ltac:(lia)) as [E0 E1]. destruct b; assumption.
Qed.

(* ---------- sm2P256ScalarBaseMult on limbs ------------------------------------------------------------------------- *)
Definition mask_of (b : bool) : N := if b then ones32 else 0%N.

(* one pass (j = 0 with tableOffset 0, j = 32 with tableOffset 270) of the inner loop; nMask = nIsInfinityMask *)
Definition baseMult_step_limbs (scalar : Z) (i j : Z) (tableOffset : nat) (st : jacL * N) : jacL * N :=
  let '((x, y, z), nMask) := st in
  let bit0 := sm2P256GetBit scalar (31 - i + j) in
  let bit1 := sm2P256GetBit scalar (95 - i + j) in
  let bit2 := sm2P256GetBit scalar (159 - i + j) in
  let bit3 := sm2P256GetBit scalar (223 - i + j) in
  let index := Z.to_N (bit0 + 2 * bit1 + 4 * bit2 + 8 * bit3) in
  let '(px, py) := SelectAffinePoint_limbs (skipn tableOffset precomputedN) index in
  let '(tx, ty, tz) := PointAddMixed_limbs (x, y, z) px py in
  let x := CopyConditional_limbs x px nMask in
  let y := CopyConditional_limbs y py nMask in
  let z := CopyConditional_limbs z (factor_limbs 1) nMask in
  let pMask := nonZeroToAllOnes_w index in
  let mask := N.land pMask (not32 nMask) in
  let x := CopyConditional_limbs x tx mask in
  let y := CopyConditional_limbs y ty mask in
  let z := CopyConditional_limbs z tz mask in
  ((x, y, z), N.land nMask (not32 pMask)).

Fixpoint baseMult_loop_limbs (scalar : Z) (is : list Z) (st : jacL * N) : jacL * N :=
  match is with
  | [] => st
  | i :: rest =>
    let '(acc, nMask) := st in
    let acc := if i =? 0 then acc else PointDouble_limbs acc in
    let st := baseMult_step_limbs scalar i 0 0 (acc, nMask) in
    let st := baseMult_step_limbs scalar i 32 270 st in
    baseMult_loop_limbs scalar rest st
  end.

Definition sm2P256ScalarBaseMult_limbs (scalar : Z) : jacL :=
  fst (baseMult_loop_limbs scalar (map Z.of_nat (seq 0 32)) ((zeros9, zeros9, zeros9), ones32)).

(* the simulation relation with the F_p-level state (accumulator, nIsInfinity as bool) *)
Definition simB (sl : jacL * N) (sf : jac * bool) : Prop :=
  looseJ (fst sl) /\ feJ (fst sl) = fst sf /\ snd sl = mask_of (snd sf).

Notation stepF := (baseMult_step gen_curve gen_RInverse gen_sm2P256Precomputed gen_sm2P256Factor).
Notation loopF := (baseMult_loop gen_curve gen_RInverse gen_sm2P256Precomputed gen_sm2P256Factor).

Lemma getbit_01 : forall s m, sm2P256GetBit s m = 0 \/ sm2P256GetBit s m = 1.
Proof. intros. unfold sm2P256GetBit. destruct (zbit s m); auto. Qed.

Lemma mask_algebra : forall (nI pN : bool),
  N.land (mask_of pN) (not32 (mask_of nI)) = mask_of (pN && negb nI) /\
  N.land (mask_of nI) (not32 (mask_of pN)) = mask_of (nI && negb pN).
Proof. intros [|] [|]; vm_compute; split; reflexivity. Qed.

Lemma step_sim : forall scalar i j off sl sf, (off = 0 \/ off = 270)%nat ->
  simB sl sf -> simB (baseMult_step_limbs scalar i j off sl) (stepF scalar i j off sf).
Proof.
  intros scalar i j off [[[x y] z] nMask] [[[xf yf] zf] nI] Hoff (HL & HF & HM).
  cbn [fst snd] in *. destruct HL as (Lx & Ly & Lz). cbn [fst snd] in *.
  unfold feJ in HF. cbn [fst snd] in HF. injection HF as Ex Ey Ez.
  unfold baseMult_step_limbs, baseMult_step.
  set (idxZ := sm2P256GetBit scalar (31 - i + j) + 2 * sm2P256GetBit scalar (95 - i + j) +
               4 * sm2P256GetBit scalar (159 - i + j) + 8 * sm2P256GetBit scalar (223 - i + j)).
  assert (Hidx : 0 <= idxZ <= 15).
  { unfold idxZ. destruct (getbit_01 scalar (31 - i + j)) as [-> | ->]; destruct (getbit_01 scalar (95 - i + j)) as [-> | ->];
      destruct (getbit_01 scalar (159 - i + j)) as [-> | ->]; destruct (getbit_01 scalar (223 - i + j)) as [-> | ->]; lia. }
  pose proof (select_affine_ok off (Z.to_N idxZ) Hoff ltac:(lia)) as HS. rewrite Z2N.id in HS by lia.
  destruct (SelectAffinePoint_limbs (skipn off precomputedN) (Z.to_N idxZ)) as [px py].
  destruct (sm2P256SelectAffinePoint gen_curve gen_RInverse (skipn off gen_sm2P256Precomputed) idxZ) as [pxf pyf].
  destruct HS as (Lpx & Lpy & HSe). injection HSe as Epx Epy.
  assert (LJ : looseJ (x, y, z)) by exact (conj Lx (conj Ly Lz)).
  destruct (PointAddMixed_limbs_correct (x, y, z) px py LJ Lpx Lpy) as [Lt Et].
  destruct (PointAddMixed_limbs (x, y, z) px py) as [[tx ty] tz].
  destruct Lt as (Ltx & Lty & Ltz). cbn [fst snd] in *.
  unfold feJ in Et. cbn [fst snd] in Et. rewrite Ex, Ey, Ez, Epx, Epy in Et.
  destruct (factor_limbs_ok 1 ltac:(lia)) as [Lf Ef].
  (* the masks *)
  assert (HpM : nonZeroToAllOnes_w (Z.to_N idxZ) = mask_of (negb (idxZ =? 0))).
  { pose proof nonZeroToAllOnes_spec as H. rewrite forallb_forall in H.
    assert (Hin : In (Z.to_N idxZ) [0;1;2;3;4;5;6;7;8;9;10;11;12;13;14;15]%N).
    { assert (Hc : idxZ = 0 \/ idxZ = 1 \/ idxZ = 2 \/ idxZ = 3 \/ idxZ = 4 \/ idxZ = 5 \/ idxZ = 6 \/ idxZ = 7 \/ idxZ = 8 \/
                   idxZ = 9 \/ idxZ = 10 \/ idxZ = 11 \/ idxZ = 12 \/ idxZ = 13 \/ idxZ = 14 \/ idxZ = 15) by lia.
      repeat (destruct Hc as [->|Hc]; [cbn; tauto|]). rewrite Hc. cbn; tauto. }
    specialize (H _ Hin). apply N.eqb_eq in H. rewrite H.
    destruct (Z.eqb_spec idxZ 0) as [E0|E0].
    - rewrite E0. reflexivity.
    - destruct (N.eqb_spec (Z.to_N idxZ) 0) as [E1|E1]; [lia|reflexivity]. }
  rewrite HpM, HM.
  destruct (mask_algebra nI (negb (idxZ =? 0))) as [M1 M2]. rewrite M1, M2.
  set (c1 := (negb (idxZ =? 0) && negb nI)%bool).
  change (mask_of nI) with (if nI then ones32 else 0%N). change (mask_of c1) with (if c1 then ones32 else 0%N).
  rewrite (CopyConditional_loose x px nI Lx Lpx), (CopyConditional_loose y py nI Ly Lpy),
          (CopyConditional_loose z (factor_limbs 1) nI Lz Lf).
  assert (Lx1 : looseL (if nI then px else x)) by (destruct nI; assumption).
  assert (Ly1 : looseL (if nI then py else y)) by (destruct nI; assumption).
  assert (Lz1 : looseL (if nI then factor_limbs 1 else z)) by (destruct nI; assumption).
  rewrite (CopyConditional_loose _ tx c1 Lx1 Ltx), (CopyConditional_loose _ ty c1 Ly1 Lty),
          (CopyConditional_loose _ tz c1 Lz1 Ltz).
  unfold simB. cbn [fst snd]. split; [|split].
  - unfold looseJ; cbn [fst snd]. destruct c1, nI; repeat split; assumption.
  - unfold feJ; cbn [fst snd]. fold c1. change (sm2P256PointAddMixed gen_curve) with PointAddMixed_model.
    destruct c1.
    + exact Et.
    + destruct nI.
      * rewrite Epx, Epy, Ef. rewrite (factor_model 1 ltac:(lia)). reflexivity.
      * rewrite Ex, Ey, Ez. reflexivity.
  - reflexivity.
Qed.

Lemma loop_sim : forall scalar is sl sf, simB sl sf ->
  simB (baseMult_loop_limbs scalar is sl) (loopF scalar is sf).
Proof.
  intros scalar is. induction is as [|i rest IH]; intros sl sf H; [exact H|].
  destruct sl as [acc nMask]. destruct sf as [accf nI]. cbn [baseMult_loop_limbs baseMult_loop].
  apply IH. apply step_sim; [right; reflexivity|]. apply step_sim; [left; reflexivity|].
  destruct H as (HL & HF & HM). cbn [fst snd] in *.
  destruct (i =? 0).
  - exact (conj HL (conj HF HM)).
  - destruct (PointDouble_limbs_correct acc HL) as [L E].
    unfold simB; cbn [fst snd]. split; [exact L|]. split; [|exact HM].
    rewrite E, HF. reflexivity.
Qed.

Theorem sm2P256ScalarBaseMult_limbs_correct : forall scalar,
  looseJ (sm2P256ScalarBaseMult_limbs scalar) /\
  feJ (sm2P256ScalarBaseMult_limbs scalar) =
    sm2P256ScalarBaseMult gen_curve gen_RInverse gen_sm2P256Precomputed gen_sm2P256Factor scalar.
Proof.
  intros scalar. unfold sm2P256ScalarBaseMult_limbs, sm2P256ScalarBaseMult.
  assert (H0 : simB ((zeros9, zeros9, zeros9), ones32) (jzero, true)).
  { unfold simB; cbn [fst snd]. split; [|split; reflexivity].
    assert (Lz : looseL zeros9) by (apply looseLb_sound; reflexivity).
    exact (conj Lz (conj Lz Lz)). }
  destruct (loop_sim scalar (map Z.of_nat (seq 0 32)) _ _ H0) as (HL & HF & _).
  split; assumption.
Qed.

(* ---------- sm2P256PointToAffine / sm2P256ToAffine on limbs -------------------------------------------------------- *)
(* zz := ToBig(z); zz.ModInverse(zz, P) (0 stays 0); zInv := FromBig(zz); then Square, Mul, Mul, Mul; ToBig of both *)
Definition sm2P256ToAffine_limbs (J : jacL) : Z * Z :=
  let '(x, y, z) := J in
  let zz := fe z in
  let zz := modinv zz gen_P in
  let zInv := sm2P256FromBig_limbs zz in
  let zInvSq := sm2P256Square_limbs zInv in
  let xOut := sm2P256Mul_limbs x zInvSq in
  let zInv := sm2P256Mul_limbs zInv zInvSq in
  let yOut := sm2P256Mul_limbs y zInv in
  (fe xOut, fe yOut).

Theorem sm2P256ToAffine_limbs_correct : forall J, looseJ J ->
  sm2P256ToAffine_limbs J = sm2P256ToAffine gen_curve (feJ J).
Proof.
  intros [[x y] z] (Lx & Ly & Lz). cbn [fst snd] in *.
  unfold sm2P256ToAffine_limbs, sm2P256ToAffine, sm2P256PointToAffine, feJ, bigModInverse. cbn [fst snd].
  rewrite ToBig_fe. change (P256Model.P gen_curve) with gen_P.
  destruct (fe_FromBig (modinv (fe z) gen_P)) as [Li Ei].
  destruct (fe_Square _ Li) as [Lsq Esq].
  destruct (fe_Mul x _ Lx Lsq) as [Lxo Exo].
  destruct (fe_Mul _ _ Li Lsq) as [Li3 Ei3].
  destruct (fe_Mul y _ Ly Li3) as [Lyo Eyo].
  rewrite Exo, Eyo, Ei3, Esq, Ei.
  unfold Mul_model, Square_model, FromBig_model.
  assert (TM : forall a b, sm2P256ToBig gen_curve (sm2P256Mul gen_curve a b) = sm2P256Mul gen_curve a b).
  { intros a b. unfold sm2P256ToBig, sm2P256Mul, P256Model.P. apply Z.mod_mod. discriminate. }
  rewrite !TM. reflexivity.
Qed.

(* ---------- the public method on the limb pipeline -------------------------------------------------------------------- *)
(* func (curve sm2P256Curve) ScalarBaseMult(k []byte): GetScalar, limb-level comb evaluation, limb-level ToAffine *)
Definition ScalarBaseMult_limbs (k : list N) : outcome (Z * Z) :=
  do scalar <- sm2P256GetScalar gen_N k;
  Ok (sm2P256ToAffine_limbs (sm2P256ScalarBaseMult_limbs scalar)).

Theorem ScalarBaseMult_limbs_is_model : forall k, ScalarBaseMult_limbs k = ScalarBaseMult_model k.
Proof.
  intros k. unfold ScalarBaseMult_limbs, ScalarBaseMult_model, ScalarBaseMult.
  destruct (sm2P256GetScalar gen_N k) as [scalar| | |]; cbn [obind]; try reflexivity.
  destruct (sm2P256ScalarBaseMult_limbs_correct scalar) as [L E].
  rewrite (sm2P256ToAffine_limbs_correct _ L), E. reflexivity.
Qed.
