(* precomputed_table_correct: the 2 x 15 affine entries of sm2P256Precomputed (generated from the
   source, Gen/P256Tables.v), read through the abstraction fe_of_limbs (Montgomery form, 9 limbs of
   29/28 bits), are the points  [sum_b bit_b(idx) 2^(64 b + 32 h)] G,  h = 0, 1,  idx = 1..15.
   Computation (vm_compute on the affine specification, about a minute): entry (0,1) = G; entries
   2, 4, 8 of table 0 are 64 doublings of the previous power; table 1 entries 1, 2, 4, 8 are 32
   doublings of the table 0 entries; every other entry is the affine sum of two smaller entries; all
   entries are valid curve points.  The conclusion "entry = [k]G" is then derived with the Z-module
   lemmas of EC/ECGroup.v under SM2Facts. *)
From Coq Require Import ZArith Znumtheory Lia List Bool.
From GmsmVerif Require Import Lib.Outcome EC.ECAffine EC.SM2Curve EC.ECAffineProofs EC.ECGroup
  EC.P256Model EC.P256Proofs EC.P256Instance EC.BaseMultProofs Gen.SM2Params Gen.P256Tables.
Import ListNotations.
Open Scope Z_scope.

Definition entry (h idx : Z) : Z * Z :=
  sm2P256SelectAffinePoint gen_curve gen_RInverse (skipn (Z.to_nat (270 * h)) gen_sm2P256Precomputed) idx.
Definition T (h idx : Z) : point := Some (entry h idx).

Lemma table_length : length gen_sm2P256Precomputed = 540%nat.
Proof. vm_compute. reflexivity. Qed.

(* ---------- computed relations between the entries ------------------------------------------------- *)
Lemma T_0_1 : T 0 1 = sm2_G.
Proof. vm_compute. reflexivity. Qed.

Lemma entries_valid :
  forallb (fun h => forallb (fun idx => sm2_valid (T h idx)) [1;2;3;4;5;6;7;8;9;10;11;12;13;14;15]) [0;1] = true.
Proof. vm_compute. reflexivity. Qed.

Lemma T_0_2_pow : sm2_mul (2 ^ 64) (T 0 1) = T 0 2.
Proof. vm_compute. reflexivity. Qed.

Lemma T_0_4_pow : sm2_mul (2 ^ 64) (T 0 2) = T 0 4.
Proof. vm_compute. reflexivity. Qed.

Lemma T_0_8_pow : sm2_mul (2 ^ 64) (T 0 4) = T 0 8.
Proof. vm_compute. reflexivity. Qed.

Lemma T_1_1_pow : sm2_mul (2 ^ 32) (T 0 1) = T 1 1.
Proof. vm_compute. reflexivity. Qed.

Lemma T_1_2_pow : sm2_mul (2 ^ 32) (T 0 2) = T 1 2.
Proof. vm_compute. reflexivity. Qed.

Lemma T_1_4_pow : sm2_mul (2 ^ 32) (T 0 4) = T 1 4.
Proof. vm_compute. reflexivity. Qed.

Lemma T_1_8_pow : sm2_mul (2 ^ 32) (T 0 8) = T 1 8.
Proof. vm_compute. reflexivity. Qed.

Lemma T_0_3_sum : sm2_add (T 0 1) (T 0 2) = T 0 3.
Proof. vm_compute. reflexivity. Qed.

Lemma T_0_5_sum : sm2_add (T 0 1) (T 0 4) = T 0 5.
Proof. vm_compute. reflexivity. Qed.

Lemma T_0_6_sum : sm2_add (T 0 2) (T 0 4) = T 0 6.
Proof. vm_compute. reflexivity. Qed.

Lemma T_0_7_sum : sm2_add (T 0 3) (T 0 4) = T 0 7.
Proof. vm_compute. reflexivity. Qed.

Lemma T_0_9_sum : sm2_add (T 0 1) (T 0 8) = T 0 9.
Proof. vm_compute. reflexivity. Qed.

Lemma T_0_10_sum : sm2_add (T 0 2) (T 0 8) = T 0 10.
Proof. vm_compute. reflexivity. Qed.

Lemma T_0_11_sum : sm2_add (T 0 3) (T 0 8) = T 0 11.
Proof. vm_compute. reflexivity. Qed.

Lemma T_0_12_sum : sm2_add (T 0 4) (T 0 8) = T 0 12.
Proof. vm_compute. reflexivity. Qed.

Lemma T_0_13_sum : sm2_add (T 0 5) (T 0 8) = T 0 13.
Proof. vm_compute. reflexivity. Qed.

Lemma T_0_14_sum : sm2_add (T 0 6) (T 0 8) = T 0 14.
Proof. vm_compute. reflexivity. Qed.

Lemma T_0_15_sum : sm2_add (T 0 7) (T 0 8) = T 0 15.
Proof. vm_compute. reflexivity. Qed.

Lemma T_1_3_sum : sm2_add (T 1 1) (T 1 2) = T 1 3.
Proof. vm_compute. reflexivity. Qed.

Lemma T_1_5_sum : sm2_add (T 1 1) (T 1 4) = T 1 5.
Proof. vm_compute. reflexivity. Qed.

Lemma T_1_6_sum : sm2_add (T 1 2) (T 1 4) = T 1 6.
Proof. vm_compute. reflexivity. Qed.

Lemma T_1_7_sum : sm2_add (T 1 3) (T 1 4) = T 1 7.
Proof. vm_compute. reflexivity. Qed.

Lemma T_1_9_sum : sm2_add (T 1 1) (T 1 8) = T 1 9.
Proof. vm_compute. reflexivity. Qed.

Lemma T_1_10_sum : sm2_add (T 1 2) (T 1 8) = T 1 10.
Proof. vm_compute. reflexivity. Qed.

Lemma T_1_11_sum : sm2_add (T 1 3) (T 1 8) = T 1 11.
Proof. vm_compute. reflexivity. Qed.

Lemma T_1_12_sum : sm2_add (T 1 4) (T 1 8) = T 1 12.
Proof. vm_compute. reflexivity. Qed.

Lemma T_1_13_sum : sm2_add (T 1 5) (T 1 8) = T 1 13.
Proof. vm_compute. reflexivity. Qed.

Lemma T_1_14_sum : sm2_add (T 1 6) (T 1 8) = T 1 14.
Proof. vm_compute. reflexivity. Qed.

Lemma T_1_15_sum : sm2_add (T 1 7) (T 1 8) = T 1 15.
Proof. vm_compute. reflexivity. Qed.

(* from here on nothing may be evaluated by the conversion test *)
Local Strategy 1000 [ec_mul ec_mul_pos ec_add ec_double ec_neg point_ok on_curve modinv egcd entry T
                     sm2P256SelectAffinePoint idx_val tval].
Opaque entry T.

Section Table.
  Hypothesis HF : SM2Facts.

  Lemma T_valid : forall h idx, (h = 0 \/ h = 1) -> 1 <= idx <= 15 -> sm2_valid (T h idx) = true.
  Proof.
    intros h idx Hh Hi. pose proof entries_valid as H. rewrite forallb_forall in H.
    specialize (H h). rewrite forallb_forall in H. apply H.
    - destruct Hh as [-> | ->]; cbn; auto.
    - assert (Hc : idx = 1 \/ idx = 2 \/ idx = 3 \/ idx = 4 \/ idx = 5 \/ idx = 6 \/ idx = 7 \/ idx = 8 \/
                   idx = 9 \/ idx = 10 \/ idx = 11 \/ idx = 12 \/ idx = 13 \/ idx = 14 \/ idx = 15) by lia.
      repeat (destruct Hc as [-> | Hc]; [cbn; tauto|]). subst idx. cbn; tauto.
  Qed.

  Notation val := idx_val.

  Lemma G_valid : sm2_valid sm2_G = true.
  Proof. vm_compute. reflexivity. Qed.

  (* a power step: T' = [m] T and T = [v] G give T' = [m v] G *)
  Lemma pow_step : forall Ta Tb m va vb, sm2_mul m Ta = Tb -> Ta = sm2_mul va sm2_G -> vb = m * va ->
    Tb = sm2_mul vb sm2_G.
  Proof.
    intros Ta Tb m va vb E Ea ->. rewrite <- E, Ea. apply (sm2_mul_mul HF). exact G_valid.
  Qed.

  Lemma sum_step : forall Ta Tb Ts va vb vs, sm2_add Ta Tb = Ts -> Ta = sm2_mul va sm2_G -> Tb = sm2_mul vb sm2_G ->
    vs = va + vb -> Ts = sm2_mul vs sm2_G.
  Proof.
    intros Ta Tb Ts va vb vs E Ea Eb ->. rewrite <- E, Ea, Eb. symmetry. apply (sm2_mul_add HF). exact G_valid.
  Qed.

  Lemma P_0_1 : T 0 1 = sm2_mul (val 0 1) sm2_G.
  Proof. rewrite T_0_1. reflexivity. Qed.

  Lemma P_0_2 : T 0 2 = sm2_mul (val 0 2) sm2_G.
  Proof. apply (pow_step _ _ _ _ _ T_0_2_pow P_0_1). vm_compute. reflexivity. Qed.

  Lemma P_0_4 : T 0 4 = sm2_mul (val 0 4) sm2_G.
  Proof. apply (pow_step _ _ _ _ _ T_0_4_pow P_0_2). vm_compute. reflexivity. Qed.

  Lemma P_0_8 : T 0 8 = sm2_mul (val 0 8) sm2_G.
  Proof. apply (pow_step _ _ _ _ _ T_0_8_pow P_0_4). vm_compute. reflexivity. Qed.

  Lemma P_1_1 : T 1 1 = sm2_mul (val 1 1) sm2_G.
  Proof. apply (pow_step _ _ _ _ _ T_1_1_pow P_0_1). vm_compute. reflexivity. Qed.

  Lemma P_1_2 : T 1 2 = sm2_mul (val 1 2) sm2_G.
  Proof. apply (pow_step _ _ _ _ _ T_1_2_pow P_0_2). vm_compute. reflexivity. Qed.

  Lemma P_1_4 : T 1 4 = sm2_mul (val 1 4) sm2_G.
  Proof. apply (pow_step _ _ _ _ _ T_1_4_pow P_0_4). vm_compute. reflexivity. Qed.

  Lemma P_1_8 : T 1 8 = sm2_mul (val 1 8) sm2_G.
  Proof. apply (pow_step _ _ _ _ _ T_1_8_pow P_0_8). vm_compute. reflexivity. Qed.

  Lemma P_0_3 : T 0 3 = sm2_mul (val 0 3) sm2_G.
  Proof. apply (sum_step _ _ _ _ _ _ T_0_3_sum P_0_1 P_0_2). vm_compute. reflexivity. Qed.

  Lemma P_0_5 : T 0 5 = sm2_mul (val 0 5) sm2_G.
  Proof. apply (sum_step _ _ _ _ _ _ T_0_5_sum P_0_1 P_0_4). vm_compute. reflexivity. Qed.

  Lemma P_0_6 : T 0 6 = sm2_mul (val 0 6) sm2_G.
  Proof. apply (sum_step _ _ _ _ _ _ T_0_6_sum P_0_2 P_0_4). vm_compute. reflexivity. Qed.

  Lemma P_0_7 : T 0 7 = sm2_mul (val 0 7) sm2_G.
  Proof. apply (sum_step _ _ _ _ _ _ T_0_7_sum P_0_3 P_0_4). vm_compute. reflexivity. Qed.

  Lemma P_0_9 : T 0 9 = sm2_mul (val 0 9) sm2_G.
  Proof. apply (sum_step _ _ _ _ _ _ T_0_9_sum P_0_1 P_0_8). vm_compute. reflexivity. Qed.

  Lemma P_0_10 : T 0 10 = sm2_mul (val 0 10) sm2_G.
  Proof. apply (sum_step _ _ _ _ _ _ T_0_10_sum P_0_2 P_0_8). vm_compute. reflexivity. Qed.

  Lemma P_0_11 : T 0 11 = sm2_mul (val 0 11) sm2_G.
  Proof. apply (sum_step _ _ _ _ _ _ T_0_11_sum P_0_3 P_0_8). vm_compute. reflexivity. Qed.

  Lemma P_0_12 : T 0 12 = sm2_mul (val 0 12) sm2_G.
  Proof. apply (sum_step _ _ _ _ _ _ T_0_12_sum P_0_4 P_0_8). vm_compute. reflexivity. Qed.

  Lemma P_0_13 : T 0 13 = sm2_mul (val 0 13) sm2_G.
  Proof. apply (sum_step _ _ _ _ _ _ T_0_13_sum P_0_5 P_0_8). vm_compute. reflexivity. Qed.

  Lemma P_0_14 : T 0 14 = sm2_mul (val 0 14) sm2_G.
  Proof. apply (sum_step _ _ _ _ _ _ T_0_14_sum P_0_6 P_0_8). vm_compute. reflexivity. Qed.

  Lemma P_0_15 : T 0 15 = sm2_mul (val 0 15) sm2_G.
  Proof. apply (sum_step _ _ _ _ _ _ T_0_15_sum P_0_7 P_0_8). vm_compute. reflexivity. Qed.

  Lemma P_1_3 : T 1 3 = sm2_mul (val 1 3) sm2_G.
  Proof. apply (sum_step _ _ _ _ _ _ T_1_3_sum P_1_1 P_1_2). vm_compute. reflexivity. Qed.

  Lemma P_1_5 : T 1 5 = sm2_mul (val 1 5) sm2_G.
  Proof. apply (sum_step _ _ _ _ _ _ T_1_5_sum P_1_1 P_1_4). vm_compute. reflexivity. Qed.

  Lemma P_1_6 : T 1 6 = sm2_mul (val 1 6) sm2_G.
  Proof. apply (sum_step _ _ _ _ _ _ T_1_6_sum P_1_2 P_1_4). vm_compute. reflexivity. Qed.

  Lemma P_1_7 : T 1 7 = sm2_mul (val 1 7) sm2_G.
  Proof. apply (sum_step _ _ _ _ _ _ T_1_7_sum P_1_3 P_1_4). vm_compute. reflexivity. Qed.

  Lemma P_1_9 : T 1 9 = sm2_mul (val 1 9) sm2_G.
  Proof. apply (sum_step _ _ _ _ _ _ T_1_9_sum P_1_1 P_1_8). vm_compute. reflexivity. Qed.

  Lemma P_1_10 : T 1 10 = sm2_mul (val 1 10) sm2_G.
  Proof. apply (sum_step _ _ _ _ _ _ T_1_10_sum P_1_2 P_1_8). vm_compute. reflexivity. Qed.

  Lemma P_1_11 : T 1 11 = sm2_mul (val 1 11) sm2_G.
  Proof. apply (sum_step _ _ _ _ _ _ T_1_11_sum P_1_3 P_1_8). vm_compute. reflexivity. Qed.

  Lemma P_1_12 : T 1 12 = sm2_mul (val 1 12) sm2_G.
  Proof. apply (sum_step _ _ _ _ _ _ T_1_12_sum P_1_4 P_1_8). vm_compute. reflexivity. Qed.

  Lemma P_1_13 : T 1 13 = sm2_mul (val 1 13) sm2_G.
  Proof. apply (sum_step _ _ _ _ _ _ T_1_13_sum P_1_5 P_1_8). vm_compute. reflexivity. Qed.

  Lemma P_1_14 : T 1 14 = sm2_mul (val 1 14) sm2_G.
  Proof. apply (sum_step _ _ _ _ _ _ T_1_14_sum P_1_6 P_1_8). vm_compute. reflexivity. Qed.

  Lemma P_1_15 : T 1 15 = sm2_mul (val 1 15) sm2_G.
  Proof. apply (sum_step _ _ _ _ _ _ T_1_15_sum P_1_7 P_1_8). vm_compute. reflexivity. Qed.

  Theorem precomputed_table_correct : forall h idx, (h = 0 \/ h = 1) -> 1 <= idx <= 15 ->
    T h idx = sm2_mul (val h idx) sm2_G.
  Proof.
    intros h idx Hh Hi.
    assert (Hc : idx = 1 \/ idx = 2 \/ idx = 3 \/ idx = 4 \/ idx = 5 \/ idx = 6 \/ idx = 7 \/ idx = 8 \/
                 idx = 9 \/ idx = 10 \/ idx = 11 \/ idx = 12 \/ idx = 13 \/ idx = 14 \/ idx = 15) by lia.
    destruct Hh as [-> | ->].
    - destruct Hc as [-> | Hc]; [exact P_0_1|].
      destruct Hc as [-> | Hc]; [exact P_0_2|].
      destruct Hc as [-> | Hc]; [exact P_0_3|].
      destruct Hc as [-> | Hc]; [exact P_0_4|].
      destruct Hc as [-> | Hc]; [exact P_0_5|].
      destruct Hc as [-> | Hc]; [exact P_0_6|].
      destruct Hc as [-> | Hc]; [exact P_0_7|].
      destruct Hc as [-> | Hc]; [exact P_0_8|].
      destruct Hc as [-> | Hc]; [exact P_0_9|].
      destruct Hc as [-> | Hc]; [exact P_0_10|].
      destruct Hc as [-> | Hc]; [exact P_0_11|].
      destruct Hc as [-> | Hc]; [exact P_0_12|].
      destruct Hc as [-> | Hc]; [exact P_0_13|].
      destruct Hc as [-> | Hc]; [exact P_0_14|].
      subst idx. exact P_0_15.
    - destruct Hc as [-> | Hc]; [exact P_1_1|].
      destruct Hc as [-> | Hc]; [exact P_1_2|].
      destruct Hc as [-> | Hc]; [exact P_1_3|].
      destruct Hc as [-> | Hc]; [exact P_1_4|].
      destruct Hc as [-> | Hc]; [exact P_1_5|].
      destruct Hc as [-> | Hc]; [exact P_1_6|].
      destruct Hc as [-> | Hc]; [exact P_1_7|].
      destruct Hc as [-> | Hc]; [exact P_1_8|].
      destruct Hc as [-> | Hc]; [exact P_1_9|].
      destruct Hc as [-> | Hc]; [exact P_1_10|].
      destruct Hc as [-> | Hc]; [exact P_1_11|].
      destruct Hc as [-> | Hc]; [exact P_1_12|].
      destruct Hc as [-> | Hc]; [exact P_1_13|].
      destruct Hc as [-> | Hc]; [exact P_1_14|].
      subst idx. exact P_1_15.
  Qed.
End Table.
