(* Consequences of the group-law premises for scalar multiplication (EC/ECAffine.v):
   given p prime, p > 3 and ASSOCIATIVITY of ec_add on the points of the curve (a hypothesis: see
   SM2Facts in EC/SM2Curve.v), the valid points form an abelian group and ec_mul (double-and-add) is
   the Z-module action: [a+b]P = [a]P + [b]P for all integers, [a][b]P = [ab]P, [2v]P = double [v]P,
   [k mod n]P = [k]P when [n]P = infinity.  Instances for the SM2 curve under SM2Facts at the end. *)
From Coq Require Import ZArith Znumtheory Lia Bool.
From GmsmVerif Require Import EC.ECAffine EC.ECAffineProofs EC.SM2Curve.
Open Scope Z_scope.

Section Group.
  Variable c : curve.
  Notation p := (cp c).
  Hypothesis Hp : prime p.
  Hypothesis Hp3 : 3 < p.
  Notation ok := (fun P => point_ok c P = true).
  Hypothesis Hassoc : forall P Q R, ok P -> ok Q -> ok R ->
    ec_add c (ec_add c P Q) R = ec_add c P (ec_add c Q R).

  Notation "A + B" := (ec_add c A B).
  Notation "- A" := (ec_neg c A).
  Notation dbl := (ec_double c).

  Lemma add_ok : forall A B, ok A -> ok B -> ok (A + B).
  Proof. exact (ec_add_ok c Hp Hp3). Qed.
  Lemma neg_ok : forall A, ok A -> ok (- A).
  Proof. exact (ec_neg_ok c Hp Hp3). Qed.
  Lemma dbl_ok : forall A, ok A -> ok (dbl A).
  Proof. exact (ec_double_ok c Hp Hp3). Qed.
  Lemma comm : forall A B, ok A -> ok B -> A + B = B + A.
  Proof. exact (ec_add_comm c Hp). Qed.
  Lemma add_0_r : forall A, A + None = A.
  Proof. intros [[x y]|]; reflexivity. Qed.
  Lemma add_neg_r : forall A, ok A -> A + - A = None.
  Proof. exact (ec_add_neg c Hp3). Qed.
  Lemma add_neg_l : forall A, ok A -> - A + A = None.
  Proof. intros A H. rewrite comm by (try apply neg_ok; assumption). apply add_neg_r. exact H. Qed.
  Lemma dbl_add : forall A, dbl A = A + A.
  Proof. intros. symmetry. apply (ec_double_add c Hp Hp3). Qed.

  Lemma shuffle : forall A B C D, ok A -> ok B -> ok C -> ok D ->
    (A + B) + (C + D) = (A + C) + (B + D).
  Proof.
    intros A B C D HA HB HC HD.
    rewrite (Hassoc A B (C + D)) by (try apply add_ok; assumption).
    rewrite <- (Hassoc B C D) by assumption.
    rewrite (comm B C) by assumption.
    rewrite (Hassoc C B D) by assumption.
    rewrite <- (Hassoc A C (B + D)) by (try apply add_ok; assumption).
    reflexivity.
  Qed.

  Lemma inv_unique : forall A B, ok A -> ok B -> A + B = None -> B = - A.
  Proof.
    intros A B HA HB H.
    assert (E : (- A + A) + B = - A + (A + B)) by (apply Hassoc; try apply neg_ok; assumption).
    rewrite add_neg_l in E by assumption. rewrite H, add_0_r in E. exact E.
  Qed.

  Lemma neg_add : forall A B, ok A -> ok B -> - (A + B) = - A + - B.
  Proof.
    intros A B HA HB. symmetry. apply inv_unique.
    - apply add_ok; assumption.
    - apply add_ok; apply neg_ok; assumption.
    - rewrite shuffle by (try apply neg_ok; assumption).
      rewrite !add_neg_r by assumption. reflexivity.
  Qed.

  Lemma neg_neg : forall A, ok A -> - (- A) = A.
  Proof.
    intros [[x y]|] H; [|reflexivity]. apply (point_ok_some c) in H. destruct H as (_ & Hy & _).
    unfold ec_neg. f_equal. f_equal.
    destruct (Z.eq_dec y 0) as [->|Hn].
    - cbn [Z.opp]. rewrite !Z.mod_0_l by lia. reflexivity.
    - rewrite (Z.mod_opp_l_nz y p) by (rewrite ?Z.mod_small by lia; lia).
      rewrite (Z.mod_small y p) by lia.
      rewrite Z.mod_opp_l_nz by (rewrite ?Z.mod_small by lia; lia).
      rewrite Z.mod_small by lia. lia.
  Qed.

  Lemma neg_dbl : forall A, ok A -> dbl (- A) = - dbl A.
  Proof. intros A H. rewrite !dbl_add. symmetry. apply neg_add; assumption. Qed.

  (* ---------- positive multiples -------------------------------------------------------------- *)
  Notation mulp := (ec_mul_pos c).

  Lemma mulp_ok : forall q A, ok A -> ok (mulp q A).
  Proof.
    induction q as [q IH|q IH|]; intros A H; cbn [ec_mul_pos].
    - apply add_ok; [apply dbl_ok; apply IH|]; assumption.
    - apply dbl_ok. apply IH. exact H.
    - exact H.
  Qed.

  Lemma mulp_succ : forall q A, ok A -> mulp (Pos.succ q) A = mulp q A + A.
  Proof.
    induction q as [q IH|q IH|]; intros A H; cbn [ec_mul_pos Pos.succ].
    - rewrite IH by exact H. set (M := mulp q A). assert (HM : ok M) by (apply mulp_ok; exact H).
      rewrite !dbl_add. rewrite (Hassoc (M + M) A A) by (try apply add_ok; assumption).
      apply shuffle; assumption.
    - reflexivity.
    - apply dbl_add.
  Qed.

  Lemma mulp_add : forall q r A, ok A -> mulp (q + r) A = mulp q A + mulp r A.
  Proof.
    intros q r A H. revert q. induction r as [|r IH] using Pos.peano_ind; intros q.
    - rewrite Pos.add_1_r. apply mulp_succ. exact H.
    - rewrite Pos.add_succ_r. rewrite !mulp_succ by exact H. rewrite IH.
      apply Hassoc; try apply mulp_ok; assumption.
  Qed.

  Lemma mulp_None : forall q, mulp q None = None.
  Proof. induction q as [q IH|q IH|]; cbn [ec_mul_pos]; rewrite ?IH; reflexivity. Qed.

  Lemma mulp_mul : forall q r A, ok A -> mulp q (mulp r A) = mulp (q * r) A.
  Proof.
    intros q r A H. induction q as [|q IH] using Pos.peano_ind.
    - reflexivity.
    - rewrite mulp_succ by (apply mulp_ok; exact H). rewrite IH.
      rewrite Pos.mul_succ_l. rewrite (Pos.add_comm r). symmetry. apply mulp_add. exact H.
  Qed.

  (* ---------- integer multiples ------------------------------------------------------------------ *)
  Notation mul := (ec_mul c).

  Lemma mul_ok : forall k A, ok A -> ok (mul k A).
  Proof.
    intros [|q|q] A H; cbn [ec_mul]; [reflexivity|apply mulp_ok; exact H|apply neg_ok; apply mulp_ok; exact H].
  Qed.

  Lemma mul_opp : forall k A, ok A -> mul (- k)%Z A = - mul k A.
  Proof.
    intros [|q|q] A H; cbn [ec_mul Z.opp]; [reflexivity|reflexivity|].
    symmetry. apply neg_neg. apply mulp_ok. exact H.
  Qed.

  Lemma mul_add_pos_neg : forall q r A, ok A -> mul (Zpos q + Zneg r) A = mulp q A + - mulp r A.
  Proof.
    intros q r A H.
    assert (Hq : ok (mulp q A)) by (apply mulp_ok; exact H).
    assert (Hr : ok (mulp r A)) by (apply mulp_ok; exact H).
    destruct (Pos.compare_spec q r) as [E|L|L].
    - subst r. rewrite Z.add_opp_diag_r. cbn [ec_mul]. symmetry. apply add_neg_r. exact Hq.
    - (* q < r : r = (r - q) + q *)
      replace (Zpos q + Zneg r)%Z with (Zneg (r - q)) by lia.
      cbn [ec_mul].
      assert (E : mulp r A = mulp (r - q) A + mulp q A).
      { rewrite <- mulp_add by exact H. f_equal. lia. }
      rewrite E. assert (Hd : ok (mulp (r - q) A)) by (apply mulp_ok; exact H).
      rewrite neg_add by assumption.
      rewrite (comm (- mulp (r - q) A)) by (apply neg_ok; assumption).
      rewrite <- Hassoc by (try apply neg_ok; assumption).
      rewrite add_neg_r by assumption. reflexivity.
    - (* r < q : q = (q - r) + r *)
      replace (Zpos q + Zneg r)%Z with (Zpos (q - r)) by lia.
      cbn [ec_mul].
      assert (E : mulp q A = mulp (q - r) A + mulp r A).
      { rewrite <- mulp_add by exact H. f_equal. lia. }
      rewrite E. assert (Hd : ok (mulp (q - r) A)) by (apply mulp_ok; exact H).
      rewrite Hassoc by (try apply neg_ok; assumption).
      rewrite add_neg_r by assumption. rewrite add_0_r. reflexivity.
  Qed.

  Theorem mul_add : forall a b A, ok A -> mul (a + b) A = mul a A + mul b A.
  Proof.
    intros a b A H.
    destruct a as [|q|q]; [reflexivity| |]; destruct b as [|r|r]; try (rewrite Z.add_0_r, add_0_r; reflexivity).
    - cbn [Z.add ec_mul]. apply mulp_add. exact H.
    - rewrite mul_add_pos_neg by exact H. reflexivity.
    - rewrite Z.add_comm. rewrite mul_add_pos_neg by exact H. cbn [ec_mul].
      apply comm; [|apply neg_ok]; apply mulp_ok; exact H.
    - cbn [Z.add ec_mul]. rewrite mulp_add by exact H. apply neg_add; apply mulp_ok; exact H.
  Qed.

  Theorem mul_double : forall v A, ok A -> mul (2 * v) A = dbl (mul v A).
  Proof.
    intros v A H. replace (2 * v)%Z with (v + v)%Z by ring. rewrite mul_add by exact H.
    symmetry. apply dbl_add.
  Qed.

  Lemma mul_None : forall k, mul k None = None.
  Proof. intros [|q|q]; cbn [ec_mul]; rewrite ?mulp_None; reflexivity. Qed.

  Theorem mul_mul : forall a b A, ok A -> mul a (mul b A) = mul (a * b) A.
  Proof.
    intros a b A H.
    destruct b as [|r|r].
    - rewrite Z.mul_0_r. cbn [ec_mul]. apply mul_None.
    - destruct a as [|q|q]; cbn [ec_mul Z.mul]; [reflexivity| |]; rewrite mulp_mul by exact H; reflexivity.
    - assert (Hr : ok (mulp r A)) by (apply mulp_ok; exact H).
      destruct a as [|q|q]; cbn [ec_mul Z.mul]; [reflexivity| |].
      + (* [q](-R) = -[q]R *)
        rewrite <- mulp_mul by exact H.
        induction q as [|q IH] using Pos.peano_ind; [reflexivity|].
        rewrite !mulp_succ by (try apply neg_ok; assumption). rewrite IH.
        symmetry. apply neg_add; [apply mulp_ok|]; assumption.
      + rewrite <- mulp_mul by exact H.
        assert (E : mulp q (- mulp r A) = - mulp q (mulp r A)).
        { induction q as [|q IH] using Pos.peano_ind; [reflexivity|].
          rewrite !mulp_succ by (try apply neg_ok; assumption). rewrite IH.
          symmetry. apply neg_add; [apply mulp_ok|]; assumption. }
        rewrite E. apply neg_neg. apply mulp_ok. exact Hr.
  Qed.

  (* an element killed by n: multiples only depend on k mod n *)
  Theorem mul_mod_order : forall n k A, ok A -> 0 < n -> mul n A = None -> mul (k mod n) A = mul k A.
  Proof.
    intros n k A H Hn Hord.
    rewrite (Z.div_mod k n) at 2 by lia.
    rewrite mul_add by exact H. rewrite <- (Z.mul_comm (k / n)).
    rewrite <- mul_mul by exact H. rewrite Hord, mul_None. reflexivity.
  Qed.
End Group.

(* ---------- the SM2 curve under SM2Facts ----------------------------------------------------------- *)
(* closed terms such as [n]G must never be evaluated by the conversion test: unfold sm2_* first *)
Local Strategy 1000 [ec_mul ec_mul_pos ec_add ec_double ec_neg point_ok on_curve modinv egcd].

Section SM2.
  Hypothesis HF : SM2Facts.

  Lemma sm2_p_gt_3 : 3 < cp sm2_curve.
  Proof. reflexivity. Qed.

  Lemma sm2_assoc_c : forall P Q R, point_ok sm2_curve P = true -> point_ok sm2_curve Q = true ->
    point_ok sm2_curve R = true ->
    ec_add sm2_curve (ec_add sm2_curve P Q) R = ec_add sm2_curve P (ec_add sm2_curve Q R).
  Proof. exact (sm2_add_assoc HF). Qed.

  Theorem sm2_add_ok : forall P Q, sm2_valid P = true -> sm2_valid Q = true -> sm2_valid (sm2_add P Q) = true.
  Proof. exact (ec_add_ok sm2_curve (sm2_p_prime HF) sm2_p_gt_3). Qed.

  Theorem sm2_mul_ok : forall k P, sm2_valid P = true -> sm2_valid (sm2_mul k P) = true.
  Proof. exact (mul_ok sm2_curve (sm2_p_prime HF) sm2_p_gt_3). Qed.

  Theorem sm2_add_comm : forall P Q, sm2_valid P = true -> sm2_valid Q = true -> sm2_add P Q = sm2_add Q P.
  Proof. exact (ec_add_comm sm2_curve (sm2_p_prime HF)). Qed.

  Theorem sm2_mul_add : forall a b P, sm2_valid P = true ->
    sm2_mul (a + b) P = sm2_add (sm2_mul a P) (sm2_mul b P).
  Proof. exact (mul_add sm2_curve (sm2_p_prime HF) sm2_p_gt_3 sm2_assoc_c). Qed.

  Theorem sm2_mul_mul : forall a b P, sm2_valid P = true -> sm2_mul a (sm2_mul b P) = sm2_mul (a * b) P.
  Proof. exact (mul_mul sm2_curve (sm2_p_prime HF) sm2_p_gt_3 sm2_assoc_c). Qed.

  Theorem sm2_mul_double : forall v P, sm2_valid P = true -> sm2_mul (2 * v) P = sm2_double (sm2_mul v P).
  Proof. exact (mul_double sm2_curve (sm2_p_prime HF) sm2_p_gt_3 sm2_assoc_c). Qed.

  Lemma sm2_G_valid' : sm2_valid sm2_G = true.
  Proof. vm_compute. reflexivity. Qed.

  Theorem sm2_mul_mod_n : forall k, sm2_mul (k mod sm2_n) sm2_G = sm2_mul k sm2_G.
  Proof.
    intros k. apply (mul_mod_order sm2_curve (sm2_p_prime HF) sm2_p_gt_3 sm2_assoc_c).
    - exact sm2_G_valid'.
    - reflexivity.
    - exact (sm2_nG_infinity HF).
  Qed.
End SM2.
