(* sm2P256ReduceDegree (generated code Gen/P256Limbs.v): values of windows, the bound invariant of the elimination
   loop and the post-conditions of its steps.  Definitions only (plus the leaf tactic); the proofs are in
   EC/LimbUnpack.v, EC/LimbStepEven.v, EC/LimbStepOdd.v, EC/LimbStepLast.v, EC/LimbReduceFinal.v.
   Method as in EC/LimbProofs.v (symbolic execution with interval arithmetic, lia only on linear leaves). *)
From Coq Require Import ZArith NArith NArithRing List Bool Lia Zify.
From GmsmVerif Require Import EC.ECAffine EC.P256Model Gen.SM2Params Gen.P256Limbs EC.LimbModel EC.LimbTactics
  EC.LimbProofs.
Import ListNotations.
Open Scope N_scope.

Ltac Zify.zify_post_hook ::= Z.to_euclidean_division_equations.

Definition value18 (t0 t1 t2 t3 t4 t5 t6 t7 t8 t9 t10 t11 t12 t13 t14 t15 t16 t17 : N) : N :=
  t0 + 2^29 * t1 + 2^57 * t2 + 2^86 * t3 + 2^114 * t4 + 2^143 * t5 + 2^171 * t6 + 2^200 * t7 + 2^228 * t8 + 2^257 * t9 + 2^285 * t10 + 2^314 * t11 + 2^342 * t12 + 2^371 * t13 + 2^399 * t14 + 2^428 * t15 + 2^456 * t16 + 2^485 * t17.

(* ---------- (b) one elimination step ------------------------------------------------------------------------- *)
(* p = 2^256 - 2^224 - 2^96 + 2^64 - 1.  Eliminating the lowest limb x of the window adds x*p: the limb becomes 0
   (x + x*p = x*(2^256 - 2^224 - 2^96 + 2^64)), the multiples of 2^64 and 2^256 are added and those of 2^96 and 2^224
   subtracted further up, with borrows (the conservative `< 0x20000000` / `< 0x10000000` tests, set4/set7 resp.
   set5/set8/set9).  Windows: even step tmp[i..i+9] (29-bit limb first), odd step tmp[i+1..i+10] (28-bit limb first). *)
Definition pN : N := 115792089210356248756420345214020892766250353991924191454421193933289684991999.
Lemma pN_is_p : pN = sm2p.
Proof. reflexivity. Qed.

Definition value10e (t0 t1 t2 t3 t4 t5 t6 t7 t8 t9 : N) : N :=
  t0 + 2^29 * t1 + 2^57 * t2 + 2^86 * t3 + 2^114 * t4 + 2^143 * t5 + 2^171 * t6 + 2^200 * t7 + 2^228 * t8 + 2^257 * t9.
Definition value10o (t1 t2 t3 t4 t5 t6 t7 t8 t9 t10 : N) : N :=
  t1 + 2^28 * t2 + 2^57 * t3 + 2^85 * t4 + 2^114 * t5 + 2^142 * t6 + 2^171 * t7 + 2^199 * t8 + 2^228 * t9 + 2^256 * t10.

(* (c) the bound invariant of the loop, by relative position in the window.  Found by interval simulation, checked
   in the step theorems: under PE no operation of the even step wraps and its results satisfy PO (shifted by one
   limb); under PO no operation of the odd step wraps and its results satisfy PE (shifted).  The next untouched limb
   enters a window normalised (< 2^28 at position 9 of an even window, < 2^29 at position 10 of an odd window). *)
Definition PE (t0 t1 t2 t3 t4 t5 t6 t7 t8 t9 : N) : Prop :=
  t0 <= 1610612737 /\ t1 <= 805306366 /\ t2 <= 1073741950 /\ t3 <= 536870911 /\ t4 <= 1073741823 /\ t5 <= 536870911 /\ t6 <= 1073741823 /\ t7 <= 536870911 /\ t8 <= 805306366 /\ t9 <= 268435455.
Definition PO (t1 t2 t3 t4 t5 t6 t7 t8 t9 t10 : N) : Prop :=
  t1 <= 805306369 /\ t2 <= 1610612734 /\ t3 <= 536871038 /\ t4 <= 1073741823 /\ t5 <= 536870911 /\ t6 <= 1073741823 /\ t7 <= 536870911 /\ t8 <= 1073741823 /\ t9 <= 536870910 /\ t10 <= 536870911.

Definition even_post (t0 t1 t2 t3 t4 t5 t6 t7 t8 t9 : N) (out : N*N*N*N*N*N*N*N*N*N) : Prop :=
  let '(o0, o1, o2, o3, o4, o5, o6, o7, o8, o9) := out in
  o0 = 0 /\ (o1 <= 805306369 /\ o2 <= 1610612734 /\ o3 <= 536871038 /\ o4 <= 1073741823 /\ o5 <= 536870911 /\ o6 <= 1073741823 /\ o7 <= 536870911 /\ o8 <= 1073741823 /\ o9 <= 536870910) /\
  value10e o0 o1 o2 o3 o4 o5 o6 o7 o8 o9 = value10e t0 t1 t2 t3 t4 t5 t6 t7 t8 t9 + (t0 mod 536870912) * pN.

Definition odd_post (t1 t2 t3 t4 t5 t6 t7 t8 t9 t10 : N) (out : N*N*N*N*N*N*N*N*N*N) : Prop :=
  let '(o1, o2, o3, o4, o5, o6, o7, o8, o9, o10) := out in
  o1 = 0 /\ (o2 <= 1610612737 /\ o3 <= 805306366 /\ o4 <= 1073741950 /\ o5 <= 536870911 /\ o6 <= 1073741823 /\ o7 <= 536870911 /\ o8 <= 1073741823 /\ o9 <= 536870911 /\ o10 <= 805306366) /\
  value10o o1 o2 o3 o4 o5 o6 o7 o8 o9 o10 = value10o t1 t2 t3 t4 t5 t6 t7 t8 t9 t10 + (t1 mod 268435456) * pN.

(* the last even step (i = 8): its window ends with tmp[17], the top limb, which is not normalised by the unpacking
   (< 2^31 + 2^8) and receives x >> 1 *)
Definition PE_last (t0 t1 t2 t3 t4 t5 t6 t7 t8 t9 : N) : Prop :=
  t0 <= 1610612737 /\ t1 <= 805306366 /\ t2 <= 1073741950 /\ t3 <= 536870911 /\ t4 <= 1073741823 /\ t5 <= 536870911 /\ t6 <= 1073741823 /\ t7 <= 536870911 /\ t8 <= 805306366 /\ t9 <= 2147483784.

Definition even_post_last (t0 t1 t2 t3 t4 t5 t6 t7 t8 t9 : N) (out : N*N*N*N*N*N*N*N*N*N) : Prop :=
  let '(o0, o1, o2, o3, o4, o5, o6, o7, o8, o9) := out in
  o0 = 0 /\ (o1 <= 805306369 /\ o2 <= 1610612734 /\ o3 <= 536871038 /\ o4 <= 1073741823 /\ o5 <= 536870911 /\ o6 <= 1073741823 /\ o7 <= 536870911 /\ o8 <= 1073741823 /\ o9 <= 2415919239) /\
  value10e o0 o1 o2 o3 o4 o5 o6 o7 o8 o9 = value10e t0 t1 t2 t3 t4 t5 t6 t7 t8 t9 + (t0 mod 536870912) * pN.

Ltac step_leaf post vals :=
  unfold post; split; [first [assumption|reflexivity]|]; split; [repeat split; by_bounds|];
  unfold vals, pN; num_pows; leaf_linear.
