(* The public methods of the curve object on the LIMB pipeline: IsOnCurve, Add, Double, ScalarMult, ScalarBaseMult and
   GenerateKey, each built from sm2P256FromBig / the limb-level functions / sm2P256ToBig exactly as p256.go does.
   Each equals the corresponding F_p-level model function (EC/P256Model.v), so the theorems of Props/C03.v items 3-7
   hold for the limb code: nothing between the public API and the affine result is "F_p-level by specification". *)
From Coq Require Import ZArith NArith List Bool Lia.
From GmsmVerif Require Import Lib.Outcome EC.ECAffine EC.SM2Curve EC.P256Model Gen.SM2Params Gen.P256Tables Gen.P256Limbs
  EC.LimbModel EC.LimbProofs EC.LimbReduceFinal EC.LimbRefine EC.LimbPoint EC.LimbSelect EC.LimbScalar EC.LimbScalarMult.
Import ListNotations.
Open Scope Z_scope.

Notation FB := sm2P256FromBig_limbs.

(* func (curve sm2P256Curve) IsOnCurve(X, Y) *)
Definition IsOnCurve_limbs (X Y : Z) : bool :=
  let x := FB X in
  let y := FB Y in
  let x3 := sm2P256Square_limbs x in
  let x3 := sm2P256Mul_limbs x3 x in
  let a := sm2P256Mul_limbs (FB gen_A) x in
  let x3 := sm2P256Add_limbs x3 a in
  let x3 := sm2P256Add_limbs x3 (FB gen_B) in
  let y2 := sm2P256Square_limbs y in
  fe x3 =? fe y2.

Theorem IsOnCurve_limbs_is_model : forall X Y, IsOnCurve_limbs X Y = IsOnCurve_model X Y.
Proof.
  intros X Y. unfold IsOnCurve_limbs, IsOnCurve_model, IsOnCurve.
  destruct (fe_FromBig X) as [Lx Ex]. destruct (fe_FromBig Y) as [Ly Ey].
  destruct (fe_FromBig gen_A) as [La Ea]. destruct (fe_FromBig gen_B) as [Lb Eb].
  destruct (fe_Square _ Lx) as [L1 E1]. destruct (fe_Mul _ _ L1 Lx) as [L2 E2].
  destruct (fe_Mul _ _ La Lx) as [L3 E3]. destruct (fe_Add _ _ L2 L3) as [L4 E4].
  destruct (fe_Add _ _ L4 Lb) as [L5 E5]. destruct (fe_Square _ Ly) as [L6 E6].
  rewrite E5, E4, E3, E2, E1, E6, Ex, Ey, Ea, Eb.
  unfold AddFe_model, Mul_model, Square_model, FromBig_model, curve_a, curve_b.
  change (ca gen_curve) with gen_A. change (cb gen_curve) with gen_B.
  f_equal.
  - unfold sm2P256ToBig, sm2P256Add, P256Model.P. symmetry. apply Z.mod_mod. discriminate.
  - unfold sm2P256ToBig, sm2P256Square, P256Model.P. symmetry. apply Z.mod_mod. discriminate.
Qed.

(* func (curve sm2P256Curve) Add / Double *)
Definition Add_limbs (x1 y1 x2 y2 : Z) : Z * Z :=
  let z1 := zForAffine x1 y1 in
  let z2 := zForAffine x2 y2 in
  sm2P256ToAffine_limbs (PointAdd_limbs (FB x1, FB y1, FB z1) (FB x2, FB y2, FB z2)).

Definition Double_limbs (x1 y1 : Z) : Z * Z :=
  let z1 := zForAffine x1 y1 in
  sm2P256ToAffine_limbs (PointDouble_limbs (FB x1, FB y1, FB z1)).

Lemma FB_triple : forall x y z,
  looseJ (FB x, FB y, FB z) /\ feJ (FB x, FB y, FB z) = (FromBig_model x, FromBig_model y, FromBig_model z).
Proof.
  intros x y z. destruct (fe_FromBig x) as [Lx Ex]. destruct (fe_FromBig y) as [Ly Ey]. destruct (fe_FromBig z) as [Lz Ez].
  split; [exact (conj Lx (conj Ly Lz))|]. unfold feJ; cbn [fst snd]. rewrite Ex, Ey, Ez. reflexivity.
Qed.

Theorem Add_limbs_is_model : forall x1 y1 x2 y2, Add_limbs x1 y1 x2 y2 = Add_model x1 y1 x2 y2.
Proof.
  intros. unfold Add_limbs, Add_model, Add.
  destruct (FB_triple x1 y1 (zForAffine x1 y1)) as [L1 E1]. destruct (FB_triple x2 y2 (zForAffine x2 y2)) as [L2 E2].
  destruct (PointAdd_limbs_correct _ _ L1 L2) as [L E].
  rewrite (sm2P256ToAffine_limbs_correct _ L), E, E1, E2. reflexivity.
Qed.

Theorem Double_limbs_is_model : forall x1 y1, Double_limbs x1 y1 = Double_model x1 y1.
Proof.
  intros. unfold Double_limbs, Double_model, Double.
  destruct (FB_triple x1 y1 (zForAffine x1 y1)) as [L1 E1].
  destruct (PointDouble_limbs_correct _ L1) as [L E].
  rewrite (sm2P256ToAffine_limbs_correct _ L), E, E1. reflexivity.
Qed.

(* func GenerateKey(random) with the limb-level ScalarBaseMult *)
Definition GenerateKey_limbs (random : list N) : outcome (Z * (Z * Z) * nat) :=
  let len := Z.to_nat (gen_BitSize / 8 + 8) in
  if (length random <? len)%nat then Err 1
  else
    let k := os2ip (firstn len random) in
    let k := k mod (gen_N - 2) + 1 in
    do pub <- ScalarBaseMult_limbs (big_bytes k);
    Ok (k, pub, len).

Theorem GenerateKey_limbs_is_model : forall rnd, GenerateKey_limbs rnd = GenerateKey_model rnd.
Proof.
  intros rnd. unfold GenerateKey_limbs, GenerateKey_model, GenerateKey.
  destruct (length rnd <? Z.to_nat (gen_BitSize / 8 + 8))%nat; [reflexivity|].
  rewrite ScalarBaseMult_limbs_is_model. reflexivity.
Qed.
