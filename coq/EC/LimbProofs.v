(* Proofs about the 9-limb layer (EC/LimbModel.v over the generated Gen/P256Limbs.v), part 1:
   sm2P256Add, sm2P256Sub (with sm2P256ReduceCarry and sm2P256Zero31), the schoolbook products of sm2P256Mul and
   sm2P256Square, sm2P256FromBig / sm2P256ToBig.

   BOUND INVARIANT of the limb code ("loose"): limb i < 2^30 for even i, < 2^29 for odd i (twice the limb modulus).
   sm2P256FromBig produces normalised limbs (< 2^29 / 2^28); Add, Sub, Mul, Square accept loose operands and return
   loose results (after ReduceCarry limb 0 < 2^29+16, limb 2 < 2^30, limb 3 < 2^28+2^14, limb 7 < 2^29, the others
   normalised).  Under loose operands no uint32 / uint64 operation of these functions wraps around.

   Method: symbolic execution of the generated let-chains (EC/LimbTactics.v: one Go statement per step; every
   wrap-around `mod 2^32` is discharged by interval arithmetic on numerals), then lia / ring on the path. *)
From Coq Require Import ZArith NArith NArithRing List Bool Lia Zify.
From GmsmVerif Require Import EC.ECAffine EC.P256Model Gen.SM2Params Gen.P256Limbs EC.LimbModel EC.LimbTactics.
Import ListNotations.
Open Scope N_scope.

Ltac Zify.zify_post_hook ::= Z.to_euclidean_division_equations.

Ltac unfold_consts :=
  cbv delta [k_400 k_800 k_40000 k_200000 k_400000 k_1000000 k_2000000 k_10000000 k_20000000
             k_37fffffc k_3fffdffc k_3ffffffc k_7ffffff8 k_7ffffffc k_80000000 k_800003fc k_100000000
             k_10000000000000000] in *.

(* ---------- values and bounds --------------------------------------------------------------------------- *)
(* limb k sits at bit 57*(k/2) + 29*(k mod 2) *)
Definition value9 (a0 a1 a2 a3 a4 a5 a6 a7 a8 : N) : N :=
  a0 + 2^29 * a1 + 2^57 * a2 + 2^86 * a3 + 2^114 * a4 + 2^143 * a5 + 2^171 * a6 + 2^200 * a7 + 2^228 * a8.

Definition value17 (t0 t1 t2 t3 t4 t5 t6 t7 t8 t9 t10 t11 t12 t13 t14 t15 t16 : N) : N :=
  t0 + 2^29 * t1 + 2^57 * t2 + 2^86 * t3 + 2^114 * t4 + 2^143 * t5 + 2^171 * t6 + 2^200 * t7 + 2^228 * t8 + 2^257 * t9 + 2^285 * t10 + 2^314 * t11 + 2^342 * t12 + 2^371 * t13 + 2^399 * t14 + 2^428 * t15 + 2^456 * t16.

Definition loose9 (a0 a1 a2 a3 a4 a5 a6 a7 a8 : N) : Prop :=
  a0 < 2^30 /\ a1 < 2^29 /\ a2 < 2^30 /\ a3 < 2^29 /\ a4 < 2^30 /\ a5 < 2^29 /\ a6 < 2^30 /\ a7 < 2^29 /\ a8 < 2^30.

Definition sm2p : N := Z.to_N gen_P.
Definition R257 : N := 2 ^ 257.

(* the rows of sm2P256Carry as emitted in Gen/P256Limbs.v: row k is k*2^257 mod p, for k < 8 *)
Definition carry_row_value (k : N) : N :=
  match map (fun j => nth (N.to_nat (k * 9 + j)) gen_tbl_sm2P256Carry 0) [0;1;2;3;4;5;6;7;8] with
  | [a0; a1; a2; a3; a4; a5; a6; a7; a8] => value9 a0 a1 a2 a3 a4 a5 a6 a7 a8
  | _ => 0
  end.

Lemma carry_rows : forallb (fun k => carry_row_value k =? (k * R257) mod sm2p) [0;1;2;3;4;5;6;7] = true.
Proof. vm_compute. reflexivity. Qed.

Lemma carry_rows_sparse :
  forallb (fun k => forallb (fun j => nth (N.to_nat (k * 9 + j)) gen_tbl_sm2P256Carry 0 =? 0) [1;4;5;6;8]) [0;1;2;3;4;5;6;7] = true.
Proof. vm_compute. reflexivity. Qed.

Definition zero31_value : N := value9 2147483640 1073741820 2147484668 1073733628 2147483644 1073741820 2147483644 939524092 2147483644.
Lemma zero31_value_0 : zero31_value mod sm2p = 0.
Proof. vm_compute. reflexivity. Qed.

(* ---------- sm2P256Add ------------------------------------------------------------------------------------- *)
(* result loose, and  value(out) + k*2^257 = value(a) + value(b) + Carry[k]  for the carry k <= 7 out of the top limb *)
Definition add_post (a0 a1 a2 a3 a4 a5 a6 a7 a8 b0 b1 b2 b3 b4 b5 b6 b7 b8 : N) (out : N*N*N*N*N*N*N*N*N) : Prop :=
  let '(c0, c1, c2, c3, c4, c5, c6, c7, c8) := out in
  loose9 c0 c1 c2 c3 c4 c5 c6 c7 c8 /\
  exists k, k <= 7 /\ value9 c0 c1 c2 c3 c4 c5 c6 c7 c8 + k * R257 = value9 a0 a1 a2 a3 a4 a5 a6 a7 a8 + value9 b0 b1 b2 b3 b4 b5 b6 b7 b8 + carry_row_value k.

Ltac norm_all := repeat match goal with H : _ < _ |- _ => norm_lt H end.

Ltac num_pows_Z := repeat match goal with |- context [(2 ^ ?k)%Z] => let v := eval vm_compute in (2^k)%Z in change (2^k)%Z with v end.

Ltac pow_consts :=
  change (2^30) with 1073741824 in *; change (2^29) with 536870912 in *; change (2^28) with 268435456 in *.

Ltac finish_carry k :=
  unfold add_post, loose9; pow_consts; split; [repeat split; by_bounds|]; exists k; split; [cbv; discriminate|];
  unfold value9, R257; change (carry_row_value k) with ltac:(let r := eval vm_compute in (carry_row_value k) in exact r);
  leaf_lia.

Theorem gen_Add_correct : forall a0 a1 a2 a3 a4 a5 a6 a7 a8 b0 b1 b2 b3 b4 b5 b6 b7 b8,
  loose9 a0 a1 a2 a3 a4 a5 a6 a7 a8 -> loose9 b0 b1 b2 b3 b4 b5 b6 b7 b8 ->
  add_post a0 a1 a2 a3 a4 a5 a6 a7 a8 b0 b1 b2 b3 b4 b5 b6 b7 b8 (gen_sm2P256Add a0 a1 a2 a3 a4 a5 a6 a7 a8 b0 b1 b2 b3 b4 b5 b6 b7 b8).
Proof.
  intros a0 a1 a2 a3 a4 a5 a6 a7 a8 b0 b1 b2 b3 b4 b5 b6 b7 b8 HA HB. unfold loose9 in HA, HB. pow_consts.
  repeat match goal with H : _ /\ _ |- _ => destruct H end. norm_all.
  cbv beta delta [gen_sm2P256Add]. unfold_consts.
  do 37 exec_let.
  enum_le carry8; do 4 exec_let;
  [finish_carry 0|finish_carry 1|finish_carry 2|finish_carry 3|finish_carry 4].
Qed.

(* ---------- sm2P256Sub ------------------------------------------------------------------------------------- *)
(* c = a - b + Zero31 limb by limb: the intermediate a[i] - b[i] may wrap, a[i] - b[i] + Zero31[i] does not, because
   every limb of Zero31 is at least twice the limb modulus.  value(out) + k*2^257 + value(b) = value(a) + value(Zero31) + Carry[k] *)
Definition sub_post (a0 a1 a2 a3 a4 a5 a6 a7 a8 b0 b1 b2 b3 b4 b5 b6 b7 b8 : N) (out : N*N*N*N*N*N*N*N*N) : Prop :=
  let '(c0, c1, c2, c3, c4, c5, c6, c7, c8) := out in
  loose9 c0 c1 c2 c3 c4 c5 c6 c7 c8 /\
  exists k, k <= 7 /\
    value9 c0 c1 c2 c3 c4 c5 c6 c7 c8 + k * R257 + value9 b0 b1 b2 b3 b4 b5 b6 b7 b8 = value9 a0 a1 a2 a3 a4 a5 a6 a7 a8 + zero31_value + carry_row_value k.

Ltac finish_sub k :=
  unfold sub_post, loose9; pow_consts; split; [repeat split; by_bounds|]; exists k; split; [cbv; discriminate|];
  unfold zero31_value; unfold value9, R257;
  change (carry_row_value k) with ltac:(let r := eval vm_compute in (carry_row_value k) in exact r);
  leaf_lia_b.

Theorem gen_Sub_correct : forall a0 a1 a2 a3 a4 a5 a6 a7 a8 b0 b1 b2 b3 b4 b5 b6 b7 b8,
  loose9 a0 a1 a2 a3 a4 a5 a6 a7 a8 -> loose9 b0 b1 b2 b3 b4 b5 b6 b7 b8 ->
  sub_post a0 a1 a2 a3 a4 a5 a6 a7 a8 b0 b1 b2 b3 b4 b5 b6 b7 b8 (gen_sm2P256Sub a0 a1 a2 a3 a4 a5 a6 a7 a8 b0 b1 b2 b3 b4 b5 b6 b7 b8).
Proof.
  intros a0 a1 a2 a3 a4 a5 a6 a7 a8 b0 b1 b2 b3 b4 b5 b6 b7 b8 HA HB. unfold loose9 in HA, HB. pow_consts.
  repeat match goal with H : _ /\ _ |- _ => destruct H end. norm_all.
  cbv beta delta [gen_sm2P256Sub]. unfold_consts.
  do 46 exec_let.
  enum_le carry8; do 4 exec_let;
  [finish_sub 1|finish_sub 2|finish_sub 3|finish_sub 4|finish_sub 5|finish_sub 6].
Qed.

(* ---------- the schoolbook products of sm2P256Mul and sm2P256Square ------------------------------------------ *)
(* under loose operands no uint64 sum of products overflows (the largest, tmp[8], is below 7*2^60), and the 17
   words, word k at bit 57*(k/2) + 29*(k mod 2), hold exactly the integer product *)
Definition prod_post (v : N) (out : N*N*N*N*N*N*N*N*N*N*N*N*N*N*N*N*N) : Prop :=
  let '(t0, t1, t2, t3, t4, t5, t6, t7, t8, t9, t10, t11, t12, t13, t14, t15, t16) := out in
  (t0 < 2^63 /\ t1 < 2^63 /\ t2 < 2^63 /\ t3 < 2^63 /\ t4 < 2^63 /\ t5 < 2^63 /\ t6 < 2^63 /\ t7 < 2^63 /\ t8 < 2^63 /\ t9 < 2^63 /\ t10 < 2^63 /\ t11 < 2^63 /\ t12 < 2^63 /\ t13 < 2^63 /\ t14 < 2^63 /\ t15 < 2^63 /\ t16 < 2^63) /\ t16 < 2^60 /\ value17 t0 t1 t2 t3 t4 t5 t6 t7 t8 t9 t10 t11 t12 t13 t14 t15 t16 = v.

Theorem gen_Mul_product_correct : forall a0 a1 a2 a3 a4 a5 a6 a7 a8 b0 b1 b2 b3 b4 b5 b6 b7 b8,
  loose9 a0 a1 a2 a3 a4 a5 a6 a7 a8 -> loose9 b0 b1 b2 b3 b4 b5 b6 b7 b8 ->
  prod_post (value9 a0 a1 a2 a3 a4 a5 a6 a7 a8 * value9 b0 b1 b2 b3 b4 b5 b6 b7 b8) (gen_sm2P256Mul_product a0 a1 a2 a3 a4 a5 a6 a7 a8 b0 b1 b2 b3 b4 b5 b6 b7 b8).
Proof.
  intros a0 a1 a2 a3 a4 a5 a6 a7 a8 b0 b1 b2 b3 b4 b5 b6 b7 b8 HA HB. unfold loose9 in HA, HB. pow_consts.
  repeat match goal with H : _ /\ _ |- _ => destruct H end. norm_all.
  cbv beta delta [gen_sm2P256Mul_product]. unfold_consts.
  exec.
  unfold prod_post. change (2^63) with 9223372036854775808. change (2^60) with 1152921504606846976.
  split; [repeat split; by_bounds|]. split; [by_bounds|].
  subst_defs. unfold value17, value9. num_pows. ring.
Qed.

Theorem gen_Square_product_correct : forall a0 a1 a2 a3 a4 a5 a6 a7 a8,
  loose9 a0 a1 a2 a3 a4 a5 a6 a7 a8 ->
  prod_post (value9 a0 a1 a2 a3 a4 a5 a6 a7 a8 * value9 a0 a1 a2 a3 a4 a5 a6 a7 a8) (gen_sm2P256Square_product a0 a1 a2 a3 a4 a5 a6 a7 a8).
Proof.
  intros a0 a1 a2 a3 a4 a5 a6 a7 a8 HA. unfold loose9 in HA. pow_consts.
  repeat match goal with H : _ /\ _ |- _ => destruct H end. norm_all.
  cbv beta delta [gen_sm2P256Square_product]. unfold_consts.
  exec.
  unfold prod_post. change (2^63) with 9223372036854775808. change (2^60) with 1152921504606846976.
  split; [repeat split; by_bounds|]. split; [by_bounds|].
  subst_defs. unfold value17, value9. num_pows. ring.
Qed.

(* ---------- sm2P256FromBig / sm2P256ToBig (hand models over math/big) ------------------------------------------- *)
Open Scope Z_scope.

Fixpoint radix_prod (w29 : bool) (n : nat) : Z :=
  match n with
  | O => 1
  | S m => (if w29 then 536870912 else 268435456) * radix_prod (negb w29) m
  end.

Lemma radix_prod_pos : forall n w, 0 < radix_prod w n.
Proof. induction n as [|n IH]; intros w; cbn [radix_prod]; [lia|]. specialize (IH (negb w)). destruct w; lia. Qed.

Lemma fromBig_digits_value : forall n w x, 0 <= x ->
  limbs_value_from w (map Z.of_N (fromBig_digits w n x)) = x mod radix_prod w n.
Proof.
  induction n as [|n IH]; intros w x Hx; cbn [fromBig_digits map limbs_value_from radix_prod].
  - rewrite Z.mod_1_r. reflexivity.
  - set (k := if w then 536870912 else 268435456).
    assert (Hk : 0 < k) by (unfold k; destruct w; lia).
    rewrite IH by (apply Z.div_pos; lia).
    rewrite Z2N.id by (apply Z.mod_pos_bound; exact Hk).
    rewrite Z.rem_mul_r by (try apply radix_prod_pos; lia). reflexivity.
Qed.

Lemma fromBig_digits_norm : forall n w x i, 0 <= x -> (i < n)%nat ->
  (nth i (fromBig_digits w n x) 0 < (if Bool.eqb w (Nat.even i) then 536870912 else 268435456))%N.
Proof.
  induction n as [|n IH]; intros w x i Hx Hi; [lia|].
  cbn [fromBig_digits]. set (k := if w then 536870912 else 268435456).
  assert (Hk : 0 < k) by (unfold k; destruct w; lia).
  destruct i as [|i].
  - cbn [nth Nat.even]. pose proof (Z.mod_pos_bound x k Hk).
    destruct w; cbn [Bool.eqb]; unfold k in *; lia.
  - cbn [nth]. specialize (IH (negb w) (x / k) i ltac:(apply Z.div_pos; lia) ltac:(lia)).
    replace (Bool.eqb w (Nat.even (S i))) with (Bool.eqb (negb w) (Nat.even i)); [exact IH|].
    rewrite Nat.even_succ, <- Nat.negb_even. destruct w, (Nat.even i); reflexivity.
Qed.

(* FromBig: 9 normalised limbs whose value is a * 2^257 mod p; ToBig after FromBig is the residue of a *)
Theorem FromBig_limbs_correct : forall a,
  length (sm2P256FromBig_limbs a) = 9%nat /\
  (forall i, (i < 9)%nat ->
     (nth i (sm2P256FromBig_limbs a) 0 < (if Nat.even i then 536870912 else 268435456))%N) /\
  limbs_valueN (sm2P256FromBig_limbs a) = (a * 2 ^ 257) mod gen_P /\
  sm2P256ToBig_limbs (sm2P256FromBig_limbs a) = a mod gen_P.
Proof.
  intros a. unfold sm2P256FromBig_limbs.
  set (x := (a * 2 ^ 257) mod gen_P).
  assert (Hx : 0 <= x < gen_P) by (apply Z.mod_pos_bound; reflexivity).
  assert (HP : gen_P < 2 ^ 257) by reflexivity.
  assert (Hv : limbs_valueN (fromBig_digits true 9 x) = x).
  { unfold limbs_valueN, limbs_value. rewrite fromBig_digits_value by lia.
    change (radix_prod true 9) with (2 ^ 257). apply Z.mod_small. lia. }
  split; [reflexivity|]. split; [|split].
  - intros i Hi. pose proof (fromBig_digits_norm 9 true x i ltac:(lia) Hi) as H.
    destruct (Nat.even i); exact H.
  - exact Hv.
  - unfold sm2P256ToBig_limbs. rewrite Hv. unfold x.
    rewrite Z.mul_mod_idemp_l by discriminate. rewrite <- Z.mul_assoc.
    rewrite <- Z.mul_mod_idemp_r by discriminate.
    replace ((2 ^ 257 * gen_RInverse) mod gen_P) with 1 by (vm_compute; reflexivity).
    rewrite Z.mul_1_r. reflexivity.
Qed.
Open Scope N_scope.

(* ---------- list-level statements (what Props/C03.v quotes) --------------------------------------------------- *)
Definition looseL (l : list N) : Prop :=
  match l with
  | [a0; a1; a2; a3; a4; a5; a6; a7; a8] => loose9 a0 a1 a2 a3 a4 a5 a6 a7 a8
  | _ => False
  end.

Lemma limbs_valueN_9 : forall a0 a1 a2 a3 a4 a5 a6 a7 a8,
  limbs_valueN [a0; a1; a2; a3; a4; a5; a6; a7; a8] = Z.of_N (value9 a0 a1 a2 a3 a4 a5 a6 a7 a8).
Proof.
  intros. unfold limbs_valueN, limbs_value, value9. cbn [map limbs_value_from negb].
  rewrite !N2Z.inj_add, !N2Z.inj_mul. rewrite !N2Z.inj_pow. cbn [Z.of_N].
  num_pows_Z. ring.
Qed.

Lemma carry_row_cong : forall k, k <= 7 ->
  ((Z.of_N (carry_row_value k)) mod gen_P = (Z.of_N k * 2 ^ 257) mod gen_P)%Z.
Proof.
  intros k Hk. pose proof carry_rows as H. rewrite forallb_forall in H.
  assert (Hin : In k [0;1;2;3;4;5;6;7]).
  { assert (Hc : k = 0 \/ k = 1 \/ k = 2 \/ k = 3 \/ k = 4 \/ k = 5 \/ k = 6 \/ k = 7) by lia.
    destruct Hc as [->|[->|[->|[->|[->|[->|[->| ->]]]]]]]; cbn; tauto. }
  specialize (H k Hin). apply N.eqb_eq in H. rewrite H.
  unfold sm2p, R257. rewrite N2Z.inj_mod. rewrite Z2N.id by discriminate.
  rewrite N2Z.inj_mul, N2Z.inj_pow. rewrite Z.mod_mod by discriminate. reflexivity.
Qed.

Theorem Add_limbs_correct : forall a b, looseL a -> looseL b ->
  looseL (sm2P256Add_limbs a b) /\
  (limbs_valueN (sm2P256Add_limbs a b) mod gen_P = (limbs_valueN a + limbs_valueN b) mod gen_P)%Z.
Proof.
  intros a b Ha Hb.
  destruct a as [|a0 [|a1 [|a2 [|a3 [|a4 [|a5 [|a6 [|a7 [|a8 [|? ?]]]]]]]]]]; try contradiction.
  destruct b as [|b0 [|b1 [|b2 [|b3 [|b4 [|b5 [|b6 [|b7 [|b8 [|? ?]]]]]]]]]]; try contradiction.
  cbn [looseL] in Ha, Hb. cbn [sm2P256Add_limbs].
  pose proof (gen_Add_correct _ _ _ _ _ _ _ _ _ _ _ _ _ _ _ _ _ _ Ha Hb) as H.
  destruct (gen_sm2P256Add a0 a1 a2 a3 a4 a5 a6 a7 a8 b0 b1 b2 b3 b4 b5 b6 b7 b8) as [[[[[[[[c0 c1] c2] c3] c4] c5] c6] c7] c8].
  cbn [add_post] in H. destruct H as (HL & k & Hk & HV). split; [exact HL|].
  rewrite !limbs_valueN_9. rewrite <- N2Z.inj_add.
  assert (E : (Z.of_N (value9 c0 c1 c2 c3 c4 c5 c6 c7 c8) + Z.of_N k * 2 ^ 257 =
               Z.of_N (value9 a0 a1 a2 a3 a4 a5 a6 a7 a8 + value9 b0 b1 b2 b3 b4 b5 b6 b7 b8) + Z.of_N (carry_row_value k))%Z).
  { rewrite <- N2Z.inj_add. rewrite <- HV. rewrite N2Z.inj_add, N2Z.inj_mul. unfold R257. rewrite N2Z.inj_pow. reflexivity. }
  pose proof (carry_row_cong k Hk) as HC.
  replace (Z.of_N (value9 c0 c1 c2 c3 c4 c5 c6 c7 c8)) with
    (Z.of_N (value9 a0 a1 a2 a3 a4 a5 a6 a7 a8 + value9 b0 b1 b2 b3 b4 b5 b6 b7 b8) + Z.of_N (carry_row_value k) - Z.of_N k * 2 ^ 257)%Z by lia.
  rewrite Zminus_mod, Zplus_mod, HC, <- Zplus_mod, <- Zminus_mod. f_equal. ring.
Qed.

Theorem Sub_limbs_correct : forall a b, looseL a -> looseL b ->
  looseL (sm2P256Sub_limbs a b) /\
  (limbs_valueN (sm2P256Sub_limbs a b) mod gen_P = (limbs_valueN a - limbs_valueN b) mod gen_P)%Z.
Proof.
  intros a b Ha Hb.
  destruct a as [|a0 [|a1 [|a2 [|a3 [|a4 [|a5 [|a6 [|a7 [|a8 [|? ?]]]]]]]]]]; try contradiction.
  destruct b as [|b0 [|b1 [|b2 [|b3 [|b4 [|b5 [|b6 [|b7 [|b8 [|? ?]]]]]]]]]]; try contradiction.
  cbn [looseL] in Ha, Hb. cbn [sm2P256Sub_limbs].
  pose proof (gen_Sub_correct _ _ _ _ _ _ _ _ _ _ _ _ _ _ _ _ _ _ Ha Hb) as H.
  destruct (gen_sm2P256Sub a0 a1 a2 a3 a4 a5 a6 a7 a8 b0 b1 b2 b3 b4 b5 b6 b7 b8) as [[[[[[[[c0 c1] c2] c3] c4] c5] c6] c7] c8].
  cbn [sub_post] in H. destruct H as (HL & k & Hk & HV). split; [exact HL|].
  rewrite !limbs_valueN_9.
  assert (E : (Z.of_N (value9 c0 c1 c2 c3 c4 c5 c6 c7 c8) + Z.of_N k * 2 ^ 257 + Z.of_N (value9 b0 b1 b2 b3 b4 b5 b6 b7 b8) =
               Z.of_N (value9 a0 a1 a2 a3 a4 a5 a6 a7 a8) + Z.of_N zero31_value + Z.of_N (carry_row_value k))%Z).
  { rewrite <- !N2Z.inj_add. rewrite <- HV. rewrite !N2Z.inj_add, N2Z.inj_mul. unfold R257. rewrite N2Z.inj_pow. reflexivity. }
  pose proof (carry_row_cong k Hk) as HC.
  assert (HZ : (Z.of_N zero31_value mod gen_P = 0)%Z).
  { pose proof zero31_value_0 as H0. unfold sm2p in H0.
    apply (f_equal Z.of_N) in H0. rewrite N2Z.inj_mod in H0. rewrite Z2N.id in H0 by discriminate. exact H0. }
  replace (Z.of_N (value9 c0 c1 c2 c3 c4 c5 c6 c7 c8)) with
    ((Z.of_N (value9 a0 a1 a2 a3 a4 a5 a6 a7 a8) - Z.of_N (value9 b0 b1 b2 b3 b4 b5 b6 b7 b8)) + Z.of_N zero31_value
       + (Z.of_N (carry_row_value k) - Z.of_N k * 2 ^ 257))%Z by lia.
  rewrite Zplus_mod. rewrite (Zminus_mod (Z.of_N (carry_row_value k))), HC, <- Zminus_mod.
  rewrite Z.sub_diag, Z.mod_0_l by discriminate. rewrite Z.add_0_r, Z.mod_mod by discriminate.
  rewrite Zplus_mod, HZ, Z.add_0_r, Z.mod_mod by discriminate. reflexivity.
Qed.

Lemma large_valueN_17 : forall t0 t1 t2 t3 t4 t5 t6 t7 t8 t9 t10 t11 t12 t13 t14 t15 t16,
  large_valueN [t0; t1; t2; t3; t4; t5; t6; t7; t8; t9; t10; t11; t12; t13; t14; t15; t16] = Z.of_N (value17 t0 t1 t2 t3 t4 t5 t6 t7 t8 t9 t10 t11 t12 t13 t14 t15 t16).
Proof.
  intros. unfold large_valueN, value17. cbn [map large_value_from negb].
  rewrite !N2Z.inj_add, !N2Z.inj_mul. rewrite !N2Z.inj_pow. cbn [Z.of_N].
  num_pows_Z. ring.
Qed.

(* a 17-word large element whose words fit the bounds sm2P256ReduceDegree relies on *)
Definition largeOK (l : list N) : Prop :=
  length l = 17%nat /\ Forall (fun t => t < 2 ^ 63) l /\ nth 16 l 0 < 2 ^ 60.

Theorem Mul_product_correct : forall a b, looseL a -> looseL b ->
  largeOK (sm2P256Mul_product a b) /\
  (large_valueN (sm2P256Mul_product a b) = limbs_valueN a * limbs_valueN b)%Z.
Proof.
  intros a b Ha Hb. destruct a as [|a0 [|a1 [|a2 [|a3 [|a4 [|a5 [|a6 [|a7 [|a8 [|? ?]]]]]]]]]]; try contradiction.
  destruct b as [|b0 [|b1 [|b2 [|b3 [|b4 [|b5 [|b6 [|b7 [|b8 [|? ?]]]]]]]]]]; try contradiction.
  cbn [looseL] in Ha, Hb. cbn [sm2P256Mul_product].
  pose proof (gen_Mul_product_correct _ _ _ _ _ _ _ _ _ _ _ _ _ _ _ _ _ _ Ha Hb) as H.
  destruct (gen_sm2P256Mul_product a0 a1 a2 a3 a4 a5 a6 a7 a8 b0 b1 b2 b3 b4 b5 b6 b7 b8) as [[[[[[[[[[[[[[[[t0 t1] t2] t3] t4] t5] t6] t7] t8] t9] t10] t11] t12] t13] t14] t15] t16].
  cbn [prod_post] in H. destruct H as (HB & H16 & HV).
  split.
  - split; [reflexivity|]. split; [|exact H16].
    repeat match goal with H : _ /\ _ |- _ => destruct H end. repeat constructor; assumption.
  - rewrite large_valueN_17, !limbs_valueN_9, HV. apply N2Z.inj_mul.
Qed.

Theorem Square_product_correct : forall a, looseL a ->
  largeOK (sm2P256Square_product a) /\
  (large_valueN (sm2P256Square_product a) = limbs_valueN a * limbs_valueN a)%Z.
Proof.
  intros a Ha. destruct a as [|a0 [|a1 [|a2 [|a3 [|a4 [|a5 [|a6 [|a7 [|a8 [|? ?]]]]]]]]]]; try contradiction.
  cbn [looseL] in Ha. cbn [sm2P256Square_product].
  pose proof (gen_Square_product_correct _ _ _ _ _ _ _ _ _ Ha) as H.
  destruct (gen_sm2P256Square_product a0 a1 a2 a3 a4 a5 a6 a7 a8) as [[[[[[[[[[[[[[[[t0 t1] t2] t3] t4] t5] t6] t7] t8] t9] t10] t11] t12] t13] t14] t15] t16].
  cbn [prod_post] in H. destruct H as (HB & H16 & HV).
  split.
  - split; [reflexivity|]. split; [|exact H16].
    repeat match goal with H : _ /\ _ |- _ => destruct H end. repeat constructor; assumption.
  - rewrite large_valueN_17, !limbs_valueN_9, HV. apply N2Z.inj_mul.
Qed.

(* FromBig output is loose (it is normalised) *)
Lemma FromBig_loose : forall a, looseL (sm2P256FromBig_limbs a).
Proof.
  intros a. destruct (FromBig_limbs_correct a) as (HL & HN & _).
  destruct (sm2P256FromBig_limbs a) as [|a0 [|a1 [|a2 [|a3 [|a4 [|a5 [|a6 [|a7 [|a8 [|? ?]]]]]]]]]]; try discriminate.
  cbn [looseL]. unfold loose9.
  pose proof (HN 0%nat ltac:(lia)). pose proof (HN 1%nat ltac:(lia)). pose proof (HN 2%nat ltac:(lia)).
  pose proof (HN 3%nat ltac:(lia)). pose proof (HN 4%nat ltac:(lia)). pose proof (HN 5%nat ltac:(lia)).
  pose proof (HN 6%nat ltac:(lia)). pose proof (HN 7%nat ltac:(lia)). pose proof (HN 8%nat ltac:(lia)).
  cbn [nth Nat.even] in *. pow_consts. lia.
Qed.
