(* Decoder used by the generated file Gen/P256Tables.v: the limb tables of sm2/p256.go are emitted as
   strings of fixed-width hexadecimal words (8 digits per uint32) instead of numerals, because the
   OCaml extraction of several thousand numerals (one closure application per bit) overflows the
   native compiler's stack, while strings extract to static data.  No proofs here. *)
From Coq Require Import ZArith List Ascii String.
Import ListNotations.
Open Scope Z_scope.

Definition hexval (a : ascii) : Z :=
  match a with
  | "0"%char => 0 | "1"%char => 1 | "2"%char => 2 | "3"%char => 3
  | "4"%char => 4 | "5"%char => 5 | "6"%char => 6 | "7"%char => 7
  | "8"%char => 8 | "9"%char => 9 | "a"%char => 10 | "b"%char => 11
  | "c"%char => 12 | "d"%char => 13 | "e"%char => 14 | "f"%char => 15
  | _ => 0
  end.

(* cnt = digits still missing from the current word *)
Fixpoint words_go (s : string) (cnt : nat) (acc : Z) : list Z :=
  match s with
  | EmptyString => []
  | String a t =>
    let acc' := acc * 16 + hexval a in
    match cnt with
    | O => acc' :: words_go t 7 0
    | S c => words_go t c acc'
    end
  end.

(* a string of 8-digit hexadecimal words -> the words *)
Definition words_of_hex (s : string) : list Z := words_go s 7 0.

Definition words_of_hex_rows (rows : list string) : list Z := List.concat (map words_of_hex rows).
