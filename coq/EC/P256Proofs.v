(* Proofs about EC/P256Model.v, part 1: the point formulas of the model are the generic Jacobian
   formulas of EC/JacFormulas.v over Z mod P; PointDouble / PointAdd / PointSub are TOTAL (every
   representation of every curve point, infinity, equal and opposite operands); ToAffine; the public
   methods Add, Double, IsOnCurve agree with the affine specification EC/ECAffine.v.
   Generic in the constants of the curve object; the hypotheses below are discharged for the generated
   constants in EC/P256Instance.v. *)
From Coq Require Import ZArith Znumtheory Lia List Bool Ring Field Setoid Morphisms.
From GmsmVerif Require Import Lib.Outcome EC.ECAffine EC.JacFormulas EC.ECAffineProofs EC.P256Model.
Import ListNotations.
Open Scope Z_scope.

(* side conditions on the constants of the curve object, bundled *)
Record P256Hyps (c : curve) (rinv : Z) (factorT : list (list Z)) : Prop := mkP256Hyps {
  h_prime : prime (cp c);
  h_p3 : 3 < cp c;
  h_b : cb c mod cp c <> 0;           (* (0,0) is not on the curve *)
  (* the values represented by sm2P256Factor[k] *)
  h_f1 : factor c rinv factorT 1 = 1 mod cp c;
  h_f2 : factor c rinv factorT 2 = 2 mod cp c;
  h_f3 : factor c rinv factorT 3 = 3 mod cp c;
  h_f4 : factor c rinv factorT 4 = 4 mod cp c;
  h_f8 : factor c rinv factorT 8 = 8 mod cp c
}.

Section Proofs.
  Variable c : curve.
  Variables (rinv : Z) (factorT : list (list Z)).
  Notation p := (cp c).
  Hypothesis HH : P256Hyps c rinv factorT.
  Let Hp : prime p := h_prime _ _ _ HH.
  Let Hp3 : 3 < p := h_p3 _ _ _ HH.
  Let Hb : cb c mod p <> 0 := h_b _ _ _ HH.
  Let Hf1 := h_f1 _ _ _ HH.
  Let Hf2 := h_f2 _ _ _ HH.
  Let Hf3 := h_f3 _ _ _ HH.
  Let Hf4 := h_f4 _ _ _ HH.
  Let Hf8 := h_f8 _ _ _ HH.

  Local Instance j_add : Proper (feq p ==> feq p ==> feq p) Z.add := add_proper p Hp.
  Local Instance j_mul : Proper (feq p ==> feq p ==> feq p) Z.mul := mul_proper p Hp.
  Local Instance j_sub : Proper (feq p ==> feq p ==> feq p) Z.sub := sub_proper p.
  Local Instance j_opp : Proper (feq p ==> feq p) Z.opp := opp_proper p Hp.
  Local Instance j_inv : Proper (feq p ==> feq p) (finv p) := finv_proper p.
  Local Instance j_div : Proper (feq p ==> feq p ==> feq p) (fdiv p) := fdiv_proper p Hp.
  Add Field FpField2 : (Fp_field p Hp) (setoid (feq_equiv p) (Fp_ring_ext p Hp), constants [Zcst]).

  Notation "x == y" := (feq p x y) (at level 70).
  Notation JD := (jdouble Z 1 Z.add Z.mul Z.sub (ca c)).
  Notation JM := (jadd_mixed Z Z.add Z.mul Z.sub).
  Notation JG := (jadd_generic Z 1 Z.add Z.mul Z.sub).
  Notation JR := (jrep Z 0 Z.mul (feq p)).
  Notation AD := (aff_double Z 1 Z.add Z.mul Z.sub (fdiv p) (ca c)).
  Notation AA := (aff_add Z Z.mul Z.sub (fdiv p)).
  Notation OC := (on_curve_F Z Z.add Z.mul (feq p) (ca c) (cb c)).
  Notation PD := (sm2P256PointDouble c rinv factorT).
  Notation PM := (sm2P256PointAddMixed c).
  Notation PA := (pointAdd_body c rinv factorT).
  Notation toAff := (sm2P256ToAffine c).

  Notation Mul := (sm2P256Mul c).
  Notation Sq := (sm2P256Square c).
  Notation Ad := (sm2P256Add c).
  Notation Sb := (sm2P256Sub c).
  Notation ToBig := (sm2P256ToBig c).
  Notation FromBig := (sm2P256FromBig c).

  Lemma mfe : forall x, x mod p == x.
  Proof. exact (mod_feq p Hp). Qed.

  Lemma Mul_feq : forall x y, Mul x y == x * y.  Proof. intros; apply mfe. Qed.
  Lemma Sq_feq : forall x, Sq x == x * x.  Proof. intros; apply mfe. Qed.
  Lemma Ad_feq : forall x y, Ad x y == x + y.  Proof. intros; apply mfe. Qed.
  Lemma Sb_feq : forall x y, Sb x y == x - y.  Proof. intros; apply mfe. Qed.
  Lemma ToBig_feq : forall x, ToBig x == x.  Proof. intros; apply mfe. Qed.
  Lemma FromBig_feq : forall x, FromBig x == x.  Proof. intros; apply mfe. Qed.

  Local Instance Mul_p : Proper (feq p ==> feq p ==> feq p) Mul.
  Proof. intros x x' Hx y y' Hy. rewrite !Mul_feq, Hx, Hy. reflexivity. Qed.
  Local Instance Sq_p : Proper (feq p ==> feq p) Sq.
  Proof. intros x x' Hx. rewrite !Sq_feq, Hx. reflexivity. Qed.
  Local Instance Ad_p : Proper (feq p ==> feq p ==> feq p) Ad.
  Proof. intros x x' Hx y y' Hy. rewrite !Ad_feq, Hx, Hy. reflexivity. Qed.
  Local Instance Sb_p : Proper (feq p ==> feq p ==> feq p) Sb.
  Proof. intros x x' Hx y y' Hy. rewrite !Sb_feq, Hx, Hy. reflexivity. Qed.
  Local Instance ToBig_p : Proper (feq p ==> feq p) ToBig.
  Proof. intros x x' Hx. rewrite !ToBig_feq, Hx. reflexivity. Qed.
  Local Instance FromBig_p : Proper (feq p ==> feq p) FromBig.
  Proof. intros x x' Hx. rewrite !FromBig_feq, Hx. reflexivity. Qed.

  (* strip the model's field operations down to + * - on integers, up to congruence *)
  Ltac fe_simpl :=
    unfold curve_a, curve_b, sm2P256Scalar, sm2P256Dup in *;
    rewrite ?Hf1, ?Hf2, ?Hf3, ?Hf4, ?Hf8;
    rewrite ?Mul_feq, ?Sq_feq, ?Ad_feq, ?Sb_feq, ?ToBig_feq, ?FromBig_feq, ?mfe.

  Lemma eqb_feq : forall x y, (ToBig x =? ToBig y) = true <-> x == y.
  Proof. intros. unfold sm2P256ToBig, feq. apply Z.eqb_eq. Qed.

  Lemma eqb0_feq : forall x, (ToBig x =? 0) = true <-> x == 0.
  Proof. intros. unfold sm2P256ToBig. rewrite Z.eqb_eq. symmetry. apply feq_0. exact Hp. Qed.

  Lemma neq_0_iff : forall x, x mod p <> 0 <-> ~ x == 0.
  Proof. intros. rewrite (feq_0 p Hp). tauto. Qed.

  (* ---------- the model formulas are the generic ones ------------------------------------------ *)
  Definition feq3 (u v : Z * Z * Z) : Prop :=
    fst (fst u) == fst (fst v) /\ snd (fst u) == snd (fst v) /\ snd u == snd v.

  Lemma JR_feq : forall u v xy, feq3 u v -> JR v xy -> JR u xy.
  Proof.
    intros [[X Y] Zz] [[X' Y'] Z'] [x y] (H1 & H2 & H3) (Hz & Hx & Hy). cbn [fst snd] in *.
    unfold jrep. rewrite H1, H2, H3. repeat split; assumption.
  Qed.

  Lemma JR_aff : forall u x y x' y', x == x' -> y == y' -> JR u (x', y') -> JR u (x, y).
  Proof.
    intros [[X Y] Zz] x y x' y' H1 H2 (Hz & Hx & Hy). unfold jrep. rewrite H1, H2. repeat split; assumption.
  Qed.

  Lemma PD_generic : forall X Y Zz, feq3 (PD (X, Y, Zz)) (JD X Y Zz).
  Proof.
    intros. unfold sm2P256PointDouble, jdouble, feq3. cbn [fst snd].
    unfold c8, c4, c3, c2. (split; [|split]); fe_simpl; ring.
  Qed.

  Lemma PM_generic : forall X Y Zz x2 y2, feq3 (PM (X, Y, Zz) x2 y2) (JM X Y Zz x2 y2).
  Proof.
    intros. unfold sm2P256PointAddMixed, jadd_mixed, feq3. cbn [fst snd].
    (split; [|split]); fe_simpl; ring.
  Qed.

  (* ---------- representation of affine points by Jacobian triples ------------------------------- *)
  Definition Jpt (J : jac) (Q : point) : Prop :=
    match Q with
    | None => snd J == 0
    | Some xy => JR J xy
    end.

  Lemma JR_Znz : forall X Y Zz xy, JR (X, Y, Zz) xy -> ~ Zz == 0.
  Proof. intros X Y Zz [x y] (H & _). exact H. Qed.

  (* ---------- PointDouble is total ---------------------------------------------------------------- *)
  Theorem PointDouble_total : forall J Q, Jpt J Q -> Jpt (PD J) (ec_double c Q).
  Proof.
    intros [[X Y] Zz] [[x y]|] H; cbn [Jpt] in *.
    - destruct H as (Hz & Hx & Hy).
      destruct (Z.eq_dec (y mod p) 0) as [E|E].
      + unfold ec_double. rewrite E. cbn [Z.eqb Jpt].
        destruct (PD_generic X Y Zz) as (_ & _ & H3). rewrite H3.
        rewrite (jdouble_Z Z 0 1 Z.add Z.mul Z.sub Z.opp (fdiv p) (finv p) (feq p) (Fp_field p Hp)).
        rewrite Hy. rewrite (proj2 (feq_0 p Hp y) E). ring.
      + rewrite (ec_double_AD c Hp) by exact E. cbn [Jpt].
        apply JR_aff with (x' := fst (AD x y)) (y' := snd (AD x y)); [apply mfe|apply mfe|].
        apply JR_feq with (v := JD X Y Zz); [apply PD_generic|].
        rewrite <- surjective_pairing.
        apply (jdouble_correct Z 0 1 Z.add Z.mul Z.sub Z.opp (fdiv p) (finv p) (feq p) (Fp_field p Hp)).
        * apply (two_neq c Hp Hp3).
        * repeat split; assumption.
        * apply neq_0_iff. exact E.
    - cbn [ec_double Jpt]. destruct (PD_generic X Y Zz) as (_ & _ & H3). rewrite H3.
      rewrite (jdouble_Z Z 0 1 Z.add Z.mul Z.sub Z.opp (fdiv p) (finv p) (feq p) (Fp_field p Hp)).
      cbn [snd] in H. rewrite H. ring.
  Qed.

  (* ---------- PointAdd (and the body shared with PointSub) is total --------------------------------- *)
  Definition PA_test (X1 Y1 Z1 X2 Y2 Z2 : Z) : bool :=
    ((ToBig (Mul X1 (Sq Z2)) =? ToBig (Mul X2 (Sq Z1))) &&
     (ToBig (Mul Y1 (Mul (Sq Z2) Z2)) =? ToBig (Mul Y2 (Mul (Sq Z1) Z1))))%bool.

  Lemma PA_unfold : forall X1 Y1 Z1 X2 Y2 Z2,
    PA (X1, Y1, Z1) (X2, Y2, Z2) =
    if ToBig Z1 =? 0 then (X2, Y2, Z2)
    else if ToBig Z2 =? 0 then (X1, Y1, Z1)
    else if PA_test X1 Y1 Z1 X2 Y2 Z2 then PD (X1, Y1, Z1)
    else PA (X1, Y1, Z1) (X2, Y2, Z2).
  Proof.
    intros. unfold pointAdd_body at 1. unfold sm2P256Dup.
    destruct (ToBig Z1 =? 0) eqn:E1; [reflexivity|]. destruct (ToBig Z2 =? 0) eqn:E2; [reflexivity|].
    fold (PA_test X1 Y1 Z1 X2 Y2 Z2). destruct (PA_test X1 Y1 Z1 X2 Y2 Z2) eqn:E; [reflexivity|].
    unfold pointAdd_body. rewrite E1, E2. fold (PA_test X1 Y1 Z1 X2 Y2 Z2). rewrite E. reflexivity.
  Qed.

  Lemma PA_generic : forall X1 Y1 Z1 X2 Y2 Z2,
    (ToBig Z1 =? 0) = false -> (ToBig Z2 =? 0) = false -> PA_test X1 Y1 Z1 X2 Y2 Z2 = false ->
    feq3 (PA (X1, Y1, Z1) (X2, Y2, Z2)) (JG X1 Y1 Z1 X2 Y2 Z2).
  Proof.
    intros X1 Y1 Z1 X2 Y2 Z2 E1 E2 E3. unfold pointAdd_body. rewrite E1, E2.
    fold (PA_test X1 Y1 Z1 X2 Y2 Z2). rewrite E3.
    unfold jadd_generic, feq3. cbn [fst snd]. unfold c2.
    (split; [|split]); fe_simpl; ring.
  Qed.

  Theorem PointAdd_total : forall J1 J2 Q1 Q2,
    Jpt J1 Q1 -> Jpt J2 Q2 -> point_ok c Q1 = true -> point_ok c Q2 = true ->
    Jpt (PA J1 J2) (ec_add c Q1 Q2).
  Proof.
    intros [[X1 Y1] Z1] [[X2 Y2] Z2] Q1 Q2 H1 H2 O1 O2.
    rewrite PA_unfold.
    destruct (ToBig Z1 =? 0) eqn:E1.
    { apply eqb0_feq in E1. destruct Q1 as [xy|].
      - exfalso. exact (JR_Znz _ _ _ _ H1 E1).
      - exact H2. }
    destruct (ToBig Z2 =? 0) eqn:E2.
    { apply eqb0_feq in E2. destruct Q2 as [xy|].
      - exfalso. exact (JR_Znz _ _ _ _ H2 E2).
      - rewrite ec_add_0_r. exact H1. }
    assert (N1 : ~ Z1 == 0) by (intro H; apply eqb0_feq in H; congruence).
    assert (N2 : ~ Z2 == 0) by (intro H; apply eqb0_feq in H; congruence).
    destruct Q1 as [[x1 y1]|]; [|exfalso; exact (N1 H1)].
    destruct Q2 as [[x2 y2]|]; [|exfalso; exact (N2 H2)].
    cbn [Jpt] in H1, H2.
    pose proof (jadd_u_eq Z 0 1 Z.add Z.mul Z.sub Z.opp (fdiv p) (finv p) (feq p) (Fp_field p Hp)
                  X1 Y1 Z1 X2 Y2 Z2 x1 y1 x2 y2 H1 H2) as HU.
    pose proof (jadd_s_eq Z 0 1 Z.add Z.mul Z.sub Z.opp (fdiv p) (finv p) (feq p) (Fp_field p Hp)
                  X1 Y1 Z1 X2 Y2 Z2 x1 y1 x2 y2 H1 H2) as HS.
    unfold jadd_u1 in HU. unfold jadd_s1 in HS.
    pose proof O1 as O1'. pose proof O2 as O2'.
    apply (point_ok_some c) in O1'. destruct O1' as (Rx1 & Ry1 & C1).
    apply (point_ok_some c) in O2'. destruct O2' as (Rx2 & Ry2 & C2).
    match goal with |- Jpt (if ?b then _ else _) _ => destruct b eqn:E3 end.
    - (* equal points: the doubling *)
      unfold PA_test in E3. apply andb_true_iff in E3. destruct E3 as [Eu Es].
      apply eqb_feq in Eu. apply eqb_feq in Es.
      rewrite !Mul_feq, !Sq_feq in Eu. rewrite !Mul_feq, !Sq_feq in Es.
      apply HU in Eu. apply HS in Es.
      assert (x1 = x2) by (apply (feq_red c); assumption).
      assert (y1 = y2) by (apply (feq_red c); assumption). subst x2 y2.
      rewrite (ec_double_add c Hp Hp3). apply PointDouble_total. exact H1.
    - pose proof (PA_generic X1 Y1 Z1 X2 Y2 Z2 E1 E2 E3) as HG.
      unfold PA_test in E3. apply andb_false_iff in E3.
      destruct (Z.eq_dec ((x1 - x2) mod p) 0) as [Ex|Ex].
      + (* same abscissa, different ordinate: opposite points *)
        assert (Exx : x1 == x2).
        { transitivity ((x1 - x2) + x2); [ring|]. rewrite (proj2 (feq_0 p Hp _) Ex). ring. }
        assert (x1 = x2) by (apply (feq_red c); assumption). subst x2.
        assert (Ny : ~ y1 == y2).
        { intro Ey. destruct E3 as [E3|E3].
          - apply not_true_iff_false in E3. apply E3. apply eqb_feq. rewrite !Mul_feq, !Sq_feq. apply HU. reflexivity.
          - apply not_true_iff_false in E3. apply E3. apply eqb_feq. rewrite !Mul_feq, !Sq_feq. apply HS. exact Ey. }
        destruct (same_x_cases c Hp x1 y1 y2 C1 C2) as [D|D]; [contradiction|].
        unfold ec_add. rewrite Ex, D. cbn [Z.eqb Jpt].
        destruct HG as (_ & _ & HG3). rewrite HG3.
        apply (jadd_generic_Z0 Z 0 1 Z.add Z.mul Z.sub Z.opp (fdiv p) (finv p) (feq p) (Fp_field p Hp)).
        unfold jadd_u1. apply HU. reflexivity.
      + rewrite (ec_add_AA c Hp) by exact Ex. cbn [Jpt].
        apply JR_aff with (x' := fst (AA x1 y1 x2 y2)) (y' := snd (AA x1 y1 x2 y2)); [apply mfe|apply mfe|].
        apply JR_feq with (v := JG X1 Y1 Z1 X2 Y2 Z2); [exact HG|].
        rewrite <- surjective_pairing.
        apply (jadd_generic_correct Z 0 1 Z.add Z.mul Z.sub Z.opp (fdiv p) (finv p) (feq p) (Fp_field p Hp));
          [exact H1|exact H2|apply (sub_swap_neq c Hp); exact Ex].
  Qed.

  (* sm2P256PointSub: the subtrahend is negated in place, then added *)
  Lemma Jpt_neg : forall X Y Zz Q, Jpt (X, Y, Zz) Q -> Jpt (X, FromBig (0 - ToBig Y), Zz) (ec_neg c Q).
  Proof.
    intros X Y Zz [[x y]|] H; cbn [Jpt ec_neg] in *; [|exact H].
    destruct H as (Hz & Hx & Hy). unfold jrep. rewrite FromBig_feq, ToBig_feq, mfe.
    split; [assumption|]. split; [assumption|]. rewrite Hy. ring.
  Qed.

  Theorem PointSub_total : forall J1 J2 Q1 Q2,
    Jpt J1 Q1 -> Jpt J2 Q2 -> point_ok c Q1 = true -> point_ok c Q2 = true ->
    Jpt (fst (sm2P256PointSub c rinv factorT J1 J2)) (ec_add c Q1 (ec_neg c Q2)) /\
    Jpt (fst (fst J2), snd (sm2P256PointSub c rinv factorT J1 J2), snd J2) (ec_neg c Q2).
  Proof.
    intros J1 [[X2 Y2] Z2] Q1 Q2 H1 H2 O1 O2. unfold sm2P256PointSub. cbn [fst snd].
    pose proof (Jpt_neg _ _ _ _ H2) as HN. split; [|exact HN].
    apply PointAdd_total; [exact H1|exact HN|exact O1|apply (ec_neg_ok c Hp Hp3); exact O2].
  Qed.

  (* ---------- PointAddMixed: correct away from the exceptional operands ------------------------------ *)
  Theorem PointAddMixed_correct : forall J1 x1 y1 x2 y2,
    Jpt J1 (Some (x1, y1)) -> (x1 - x2) mod p <> 0 ->
    Jpt (PM J1 x2 y2) (ec_add c (Some (x1, y1)) (Some (x2, y2))).
  Proof.
    intros [[X1 Y1] Z1] x1 y1 x2 y2 H1 Ex. rewrite (ec_add_AA c Hp) by exact Ex. cbn [Jpt] in *.
    apply JR_aff with (x' := fst (AA x1 y1 x2 y2)) (y' := snd (AA x1 y1 x2 y2)); [apply mfe|apply mfe|].
    apply JR_feq with (v := JM X1 Y1 Z1 x2 y2); [apply PM_generic|].
    rewrite <- surjective_pairing.
    apply (jadd_mixed_correct Z 0 1 Z.add Z.mul Z.sub Z.opp (fdiv p) (finv p) (feq p) (Fp_field p Hp));
      [apply (two_neq c Hp Hp3)|exact H1|apply (sub_swap_neq c Hp); exact Ex].
  Qed.
  (* ---------- ToAffine ------------------------------------------------------------------------------ *)
  (* Z = 0: ModInverse leaves 0, both coordinates come out 0 *)
  Theorem ToAffine_infinity : forall X Y Zz, Zz == 0 -> toAff (X, Y, Zz) = (0, 0).
  Proof.
    intros X Y Zz H. unfold sm2P256ToAffine, sm2P256PointToAffine, bigModInverse.
    assert (E : modinv (ToBig Zz) (P256Model.P c) = 0).
    { apply modinv_0; [apply (p_gt_1 p Hp)|]. unfold sm2P256ToBig, P256Model.P.
      rewrite Z.mod_mod by lia. apply (proj1 (feq_0 p Hp _)). exact H. }
    rewrite E. unfold sm2P256FromBig, sm2P256Square, sm2P256Mul, sm2P256ToBig, P256Model.P.
    repeat (rewrite ?Z.mul_0_r, ?Z.mul_0_l; rewrite ?Z.mod_0_l by lia). reflexivity.
  Qed.

  Theorem ToAffine_rep : forall X Y Zz x y, JR (X, Y, Zz) (x, y) -> toAff (X, Y, Zz) = (x mod p, y mod p).
  Proof.
    intros X Y Zz x y (Hz & Hx & Hy). unfold sm2P256ToAffine, sm2P256PointToAffine, bigModInverse.
    change (modinv (ToBig Zz) (P256Model.P c)) with (finv p (ToBig Zz)).
    f_equal; unfold sm2P256ToBig at 1; unfold P256Model.P; apply feq_mod_eq.
    - fe_simpl. rewrite Hx. field. exact Hz.
    - fe_simpl. rewrite Hy. field. exact Hz.
  Qed.

  Definition point_red (Q : point) : Prop :=
    match Q with None => True | Some (x, y) => 0 <= x < p /\ 0 <= y < p end.

  Lemma point_ok_red : forall Q, point_ok c Q = true -> point_red Q.
  Proof. intros [[x y]|] H; [|exact I]. apply (point_ok_some c) in H. cbn. tauto. Qed.

  Theorem ToAffine_Jpt : forall J Q, Jpt J Q -> point_red Q -> toAff J = encode_point Q.
  Proof.
    intros [[X Y] Zz] [[x y]|] H R; cbn [Jpt encode_point] in *.
    - transitivity (x mod p, y mod p); [exact (ToAffine_rep _ _ _ _ _ H)|].
      cbn in R. rewrite !Z.mod_small by tauto. reflexivity.
    - apply ToAffine_infinity. exact H.
  Qed.

  (* ---------- the public methods ---------------------------------------------------------------------- *)
  (* an affine point in the Go convention enters the Jacobian code as (x, y, zForAffine x y) *)
  Lemma not_origin : forall x y, point_ok c (Some (x, y)) = true -> zForAffine x y = 1.
  Proof.
    intros x y H. apply (point_ok_some c) in H. destruct H as (_ & _ & H).
    unfold zForAffine. destruct (Z.eqb_spec x 0) as [->|]; [|reflexivity].
    destruct (Z.eqb_spec y 0) as [->|]; [|reflexivity].
    exfalso. apply Hb. unfold on_curve_F in H. apply (proj1 (feq_0 p Hp _)).
    transitivity (0 * 0 * 0 + ca c * 0 + cb c); [ring|]. rewrite <- H. ring.
  Qed.

  Lemma Jpt_encode : forall Q, point_ok c Q = true ->
    let '(x, y) := encode_point Q in
    Jpt (FromBig x, FromBig y, FromBig (zForAffine x y)) Q.
  Proof.
    intros [[x y]|] H; cbn [encode_point Jpt snd].
    - rewrite (not_origin _ _ H). unfold jrep. rewrite !FromBig_feq.
      split; [|split; ring]. apply small_neq_0; [exact Hp|lia].
    - cbn. reflexivity.
  Qed.

  Theorem Add_spec : forall Q1 Q2, point_ok c Q1 = true -> point_ok c Q2 = true ->
    Add c rinv factorT (fst (encode_point Q1)) (snd (encode_point Q1))
                       (fst (encode_point Q2)) (snd (encode_point Q2)) = encode_point (ec_add c Q1 Q2).
  Proof.
    intros Q1 Q2 O1 O2. unfold Add, sm2P256PointAdd.
    pose proof (Jpt_encode Q1 O1) as H1. pose proof (Jpt_encode Q2 O2) as H2.
    destruct (encode_point Q1) as [x1 y1]. destruct (encode_point Q2) as [x2 y2]. cbn [fst snd].
    apply ToAffine_Jpt.
    - apply PointAdd_total; assumption.
    - apply point_ok_red. apply (ec_add_ok c Hp Hp3); assumption.
  Qed.

  Theorem Double_spec : forall Q, point_ok c Q = true ->
    Double c rinv factorT (fst (encode_point Q)) (snd (encode_point Q)) = encode_point (ec_double c Q).
  Proof.
    intros Q O. unfold Double. pose proof (Jpt_encode Q O) as H.
    destruct (encode_point Q) as [x y]. cbn [fst snd].
    apply ToAffine_Jpt.
    - apply PointDouble_total. exact H.
    - apply point_ok_red. apply (ec_double_ok c Hp Hp3). exact O.
  Qed.

  (* IsOnCurve: for ALL integers x y (the code reduces its inputs mod P first) *)
  Theorem IsOnCurve_spec : forall x y, IsOnCurve c x y = on_curve c x y.
  Proof.
    intros x y. apply eq_true_iff_eq. unfold IsOnCurve. rewrite eqb_feq. rewrite (on_curve_OC c).
    unfold on_curve_F. fe_simpl. split; intro H.
    - rewrite <- H. ring.
    - rewrite H. ring.
  Qed.
  (* mixed addition with a finite first operand and any DIFFERENT finite second operand (opposite
     points included: Z3 = 0); only P + P is exceptional *)
  Theorem PointAddMixed_total : forall J1 x1 y1 x2 y2,
    Jpt J1 (Some (x1, y1)) -> point_ok c (Some (x1, y1)) = true -> point_ok c (Some (x2, y2)) = true ->
    (x1, y1) <> (x2, y2) ->
    Jpt (PM J1 x2 y2) (ec_add c (Some (x1, y1)) (Some (x2, y2))).
  Proof.
    intros [[X1 Y1] Z1] x1 y1 x2 y2 H1 O1 O2 Hne.
    destruct (Z.eq_dec ((x1 - x2) mod p) 0) as [Ex|Ex]; [|apply PointAddMixed_correct; assumption].
    apply (point_ok_some c) in O1. destruct O1 as (Rx1 & Ry1 & C1).
    apply (point_ok_some c) in O2. destruct O2 as (Rx2 & Ry2 & C2).
    assert (Exx : x1 == x2).
    { transitivity ((x1 - x2) + x2); [ring|]. rewrite (proj2 (feq_0 p Hp _) Ex). ring. }
    assert (x1 = x2) by (apply (feq_red c); assumption). subst x2.
    destruct (same_x_cases c Hp x1 y1 y2 C1 C2) as [D|D].
    - exfalso. apply Hne. f_equal. apply (feq_red c); assumption.
    - unfold ec_add. rewrite Ex, D. cbn [Z.eqb Jpt].
      destruct (PM_generic X1 Y1 Z1 x1 y2) as (_ & _ & H3). rewrite H3.
      apply (jadd_mixed_Z0 Z 0 1 Z.add Z.mul Z.sub Z.opp (fdiv p) (finv p) (feq p) (Fp_field p Hp)).
      right. destruct H1 as (_ & HX & _). exact HX.
  Qed.
End Proofs.
