(* Formula lemmas over ANY field: the Jacobian formulas exactly as sm2/p256.go computes them (same
   temporaries as sm2P256PointDouble / PointAddMixed / PointAdd, see EC/P256Model.v) represent the
   affine chord-and-tangent law.  Carrier F with a setoid equality and a field_theory; the proofs are
   by [field].  A Jacobian triple (X,Y,Z) with Z <> 0 represents (x,y) when X == x*Z^2, Y == y*Z^3.
   The Montgomery factor of the Go code plays no role here: sm2P256Mul on limb vectors is the field
   multiplication on represented values (EC/P256Model.v, header). *)
From Coq Require Import Ring_theory Field_theory Ring Field Setoid Morphisms.

Section Jac.
  Variable F : Type.
  Variables (f0 f1 : F) (fadd fmul fsub : F -> F -> F) (fopp : F -> F) (fdiv : F -> F -> F) (finv : F -> F).
  Variable feq : F -> F -> Prop.
  Context {feq_equiv : Equivalence feq}.
  Context {add_p : Proper (feq ==> feq ==> feq) fadd} {mul_p : Proper (feq ==> feq ==> feq) fmul}
          {sub_p : Proper (feq ==> feq ==> feq) fsub} {opp_p : Proper (feq ==> feq) fopp}
          {div_p : Proper (feq ==> feq ==> feq) fdiv} {inv_p : Proper (feq ==> feq) finv}.
  Hypothesis FT : field_theory f0 f1 fadd fmul fsub fopp fdiv finv feq.

  Lemma Rext : ring_eq_ext fadd fmul fopp feq.
  Proof. constructor; assumption. Qed.
  Add Field Ff : FT (setoid feq_equiv Rext).

  Infix "==" := feq (at level 70).
  Infix "+" := fadd. Infix "*" := fmul. Infix "-" := fsub. Infix "/" := fdiv.
  Notation "0" := f0. Notation "1" := f1.

  Definition c2 : F := 1 + 1.
  Definition c3 : F := c2 + 1.
  Definition c4 : F := c2 * c2.
  Definition c8 : F := c4 * c2.

  Variables a b : F.                      (* curve coefficients *)
  Hypothesis two_neq_0 : ~ c2 == 0.       (* characteristic <> 2 *)

  Lemma mul_neq_0 : forall x y, ~ x == 0 -> ~ y == 0 -> ~ x * y == 0.
  Proof.
    intros x y Hx Hy H. apply Hy.
    assert (E : y == (finv x * x) * y) by (field; repeat split; assumption).
    rewrite E. transitivity (finv x * (x * y)); [ring|]. rewrite H. ring.
  Qed.

  (* ---------- the affine law ---------------------------------------------------------------- *)
  Definition on_curve_F (x y : F) : Prop := y * y == x * x * x + a * x + b.

  Definition aff_double (x y : F) : F * F :=
    let l := (c3 * x * x + a) / (c2 * y) in
    let x3 := l * l - c2 * x in
    (x3, l * (x - x3) - y).

  Definition aff_add (x1 y1 x2 y2 : F) : F * F :=
    let l := (y2 - y1) / (x2 - x1) in
    let x3 := l * l - x1 - x2 in
    (x3, l * (x1 - x3) - y1).

  (* ---------- the formulas of p256.go --------------------------------------------------------- *)
  (* sm2P256PointDouble; sm2P256Scalar(.,k) is the multiplication by k *)
  Definition jdouble (X Y Z : F) : F * F * F :=
    let x2 := X * X in
    let y2 := Y * Y in
    let z2 := Z * Z in
    let z4 := Z * Z in
    let z4 := z4 * Z in
    let z4 := z4 * Z in
    let y4 := Y * Y in
    let y4 := y4 * Y in
    let y4 := y4 * Y in
    let y4 := y4 * c8 in
    let s := X * y2 in
    let s := s * c4 in
    let m := x2 in
    let m := m * c3 in
    let az4 := a * z4 in
    let m := m + az4 in
    let m2 := m * m in
    let z3 := Y + Z in
    let z3 := z3 * z3 in
    let z3 := z3 - z2 in
    let z3 := z3 - y2 in
    let x3 := m2 - s in
    let x3 := x3 - s in
    let y3 := s - x3 in
    let y3 := y3 * m in
    let y3 := y3 - y4 in
    (x3, y3, z3).

  (* sm2P256PointAddMixed *)
  Definition jadd_mixed (X1 Y1 Z1 x2 y2 : F) : F * F * F :=
    let z1z1 := Z1 * Z1 in
    let tmp := Z1 + Z1 in
    let u2 := x2 * z1z1 in
    let z1z1z1 := Z1 * z1z1 in
    let s2 := y2 * z1z1z1 in
    let h := u2 - X1 in
    let i := h + h in
    let i := i * i in
    let j := h * i in
    let r := s2 - Y1 in
    let r := r + r in
    let v := X1 * i in
    let zOut := tmp * h in
    let rr := r * r in
    let xOut := rr - j in
    let xOut := xOut - v in
    let xOut := xOut - v in
    let tmp := v - xOut in
    let yOut := tmp * r in
    let tmp := Y1 * j in
    let yOut := yOut - tmp in
    let yOut := yOut - tmp in
    (xOut, yOut, zOut).

  (* sm2P256PointAdd / PointSub: the quantities tested, and the generic branch *)
  Definition jadd_u1 (X1 Z2 : F) : F := X1 * (Z2 * Z2).
  Definition jadd_s1 (Y1 Z2 : F) : F := Y1 * ((Z2 * Z2) * Z2).

  Definition jadd_generic (X1 Y1 Z1 X2 Y2 Z2 : F) : F * F * F :=
    let z12 := Z1 * Z1 in
    let z22 := Z2 * Z2 in
    let z13 := z12 * Z1 in
    let z23 := z22 * Z2 in
    let u1 := X1 * z22 in
    let u2 := X2 * z12 in
    let s1 := Y1 * z23 in
    let s2 := Y2 * z13 in
    let h := u2 - u1 in
    let r := s2 - s1 in
    let r2 := r * r in
    let h2 := h * h in
    let tm := h2 * h in
    let x3 := r2 - tm in
    let tm := u1 * h2 in
    let tm := tm * c2 in
    let x3 := x3 - tm in
    let tm := u1 * h2 in
    let tm := tm - x3 in
    let y3 := r * tm in
    let tm := h2 * h in
    let tm := tm * s1 in
    let y3 := y3 - tm in
    let z3 := Z1 * Z2 in
    let z3 := z3 * h in
    (x3, y3, z3).

  (* (X,Y,Z) represents the affine point (x,y) *)
  Definition jrep (XYZ : F * F * F) (xy : F * F) : Prop :=
    let '(X, Y, Z) := XYZ in let '(x, y) := xy in
    ~ Z == 0 /\ X == x * (Z * Z) /\ Y == y * ((Z * Z) * Z).

  (* ---------- doubling ---------------------------------------------------------------------- *)
  Lemma jdouble_Z : forall X Y Z, snd (jdouble X Y Z) == c2 * Y * Z.
  Proof. intros. unfold jdouble, c2; cbn [snd]. ring. Qed.

  (* Z = 0 (infinity) or Y = 0 (a point of order 2): the result is infinity *)
  Lemma jdouble_infinity : forall X Y Z, Z == 0 \/ Y == 0 -> snd (jdouble X Y Z) == 0.
  Proof. intros X Y Z [H|H]; rewrite jdouble_Z, H; ring. Qed.

  Theorem jdouble_correct : forall X Y Z x y,
    jrep (X, Y, Z) (x, y) -> ~ y == 0 -> jrep (jdouble X Y Z) (aff_double x y).
  Proof.
    intros X Y Z x y (HZ & HX & HY) Hy.
    unfold jrep, jdouble, aff_double, c8, c4, c3.
    assert (H2y : ~ c2 * y == 0) by (apply mul_neq_0; assumption).
    split; [|split].
    - rewrite HY. intro H. apply (mul_neq_0 (c2 * y) (Z * Z * (Z * Z))).
      + exact H2y.
      + apply mul_neq_0; apply mul_neq_0; assumption.
      + rewrite <- H. unfold c2. ring.
    - rewrite HX, HY. unfold c2 in *. field; repeat split; assumption.
    - rewrite HX, HY. unfold c2 in *. field; repeat split; assumption.
  Qed.

  (* ---------- mixed addition ------------------------------------------------------------------ *)
  Lemma jadd_mixed_Z : forall X1 Y1 Z1 x2 y2,
    snd (jadd_mixed X1 Y1 Z1 x2 y2) == c2 * Z1 * (x2 * (Z1 * Z1) - X1).
  Proof. intros. unfold jadd_mixed, c2; cbn [snd]. ring. Qed.

  (* first operand infinite, or equal abscissae (P = Q or P = -Q): the mixed addition returns Z3 = 0 *)
  Lemma jadd_mixed_Z0 : forall X1 Y1 Z1 x2 y2,
    Z1 == 0 \/ X1 == x2 * (Z1 * Z1) -> snd (jadd_mixed X1 Y1 Z1 x2 y2) == 0.
  Proof. intros X1 Y1 Z1 x2 y2 [H|H]; rewrite jadd_mixed_Z, H; ring. Qed.

  Theorem jadd_mixed_correct : forall X1 Y1 Z1 x1 y1 x2 y2,
    jrep (X1, Y1, Z1) (x1, y1) -> ~ x2 - x1 == 0 ->
    jrep (jadd_mixed X1 Y1 Z1 x2 y2) (aff_add x1 y1 x2 y2).
  Proof.
    intros X1 Y1 Z1 x1 y1 x2 y2 (HZ & HX & HY) Hx.
    unfold jrep, jadd_mixed, aff_add.
    split; [|split].
    - rewrite HX. intro H.
      apply (mul_neq_0 (c2 * Z1) ((x2 - x1) * (Z1 * Z1))).
      + apply mul_neq_0; assumption.
      + apply mul_neq_0; [assumption|apply mul_neq_0; assumption].
      + rewrite <- H. unfold c2. ring.
    - rewrite HX, HY. field; repeat split; assumption.
    - rewrite HX, HY. field; repeat split; assumption.
  Qed.

  (* ---------- full addition ------------------------------------------------------------------- *)
  Lemma jadd_generic_Z : forall X1 Y1 Z1 X2 Y2 Z2,
    snd (jadd_generic X1 Y1 Z1 X2 Y2 Z2) == Z1 * Z2 * (jadd_u1 X2 Z1 - jadd_u1 X1 Z2).
  Proof. intros. unfold jadd_generic, jadd_u1; cbn [snd]. ring. Qed.

  (* u1 = u2 but s1 <> s2 (opposite points): Z3 = 0 *)
  Lemma jadd_generic_Z0 : forall X1 Y1 Z1 X2 Y2 Z2,
    jadd_u1 X1 Z2 == jadd_u1 X2 Z1 -> snd (jadd_generic X1 Y1 Z1 X2 Y2 Z2) == 0.
  Proof. intros. rewrite jadd_generic_Z, H. ring. Qed.

  Theorem jadd_generic_correct : forall X1 Y1 Z1 X2 Y2 Z2 x1 y1 x2 y2,
    jrep (X1, Y1, Z1) (x1, y1) -> jrep (X2, Y2, Z2) (x2, y2) -> ~ x2 - x1 == 0 ->
    jrep (jadd_generic X1 Y1 Z1 X2 Y2 Z2) (aff_add x1 y1 x2 y2).
  Proof.
    intros X1 Y1 Z1 X2 Y2 Z2 x1 y1 x2 y2 (HZ1 & HX1 & HY1) (HZ2 & HX2 & HY2) Hx.
    unfold jrep, jadd_generic, aff_add.
    split; [|split].
    - rewrite HX1, HX2. intro H.
      apply (mul_neq_0 (Z1 * Z2) ((x2 - x1) * ((Z1 * Z1) * (Z2 * Z2)))).
      + apply mul_neq_0; assumption.
      + apply mul_neq_0; [assumption|apply mul_neq_0; apply mul_neq_0; assumption].
      + rewrite <- H. ring.
    - rewrite HX1, HX2, HY1, HY2. unfold c2. field; repeat split; assumption.
    - rewrite HX1, HX2, HY1, HY2. unfold c2. field; repeat split; assumption.
  Qed.

  (* what the tests u1 = u2, s1 = s2 of PointAdd mean for the represented points *)
  Lemma jadd_u_eq : forall X1 Y1 Z1 X2 Y2 Z2 x1 y1 x2 y2,
    jrep (X1, Y1, Z1) (x1, y1) -> jrep (X2, Y2, Z2) (x2, y2) ->
    (jadd_u1 X1 Z2 == jadd_u1 X2 Z1 <-> x1 == x2).
  Proof.
    intros X1 Y1 Z1 X2 Y2 Z2 x1 y1 x2 y2 (HZ1 & HX1 & HY1) (HZ2 & HX2 & HY2).
    unfold jadd_u1. rewrite HX1, HX2. split; intro H.
    - assert (E : x1 == (x1 * (Z1 * Z1) * (Z2 * Z2)) / ((Z1 * Z1) * (Z2 * Z2))) by (field; repeat split; assumption).
      rewrite E, H. field; repeat split; assumption.
    - rewrite H. ring.
  Qed.

  Lemma jadd_s_eq : forall X1 Y1 Z1 X2 Y2 Z2 x1 y1 x2 y2,
    jrep (X1, Y1, Z1) (x1, y1) -> jrep (X2, Y2, Z2) (x2, y2) ->
    (jadd_s1 Y1 Z2 == jadd_s1 Y2 Z1 <-> y1 == y2).
  Proof.
    intros X1 Y1 Z1 X2 Y2 Z2 x1 y1 x2 y2 (HZ1 & HX1 & HY1) (HZ2 & HX2 & HY2).
    unfold jadd_s1. rewrite HY1, HY2. split; intro H.
    - assert (E : y1 == (y1 * (Z1 * Z1 * Z1) * (Z2 * Z2 * Z2)) / ((Z1 * Z1 * Z1) * (Z2 * Z2 * Z2)))
        by (field; repeat split; assumption).
      rewrite E, H. field; repeat split; assumption.
    - rewrite H. ring.
  Qed.

  (* ---------- the affine law stays on the curve, and is commutative ---------------------------- *)
  Theorem aff_double_on_curve : forall x y,
    on_curve_F x y -> ~ y == 0 -> on_curve_F (fst (aff_double x y)) (snd (aff_double x y)).
  Proof.
    intros x y H Hy. unfold on_curve_F in *.
    assert (Hb : b == y * y - x * x * x - a * x) by (rewrite H; ring).
    assert (H2y : ~ c2 * y == 0) by (apply mul_neq_0; assumption).
    unfold aff_double; cbn [fst snd]. rewrite Hb. unfold c3, c2 in *. field; repeat split; assumption.
  Qed.

  Theorem aff_add_on_curve : forall x1 y1 x2 y2,
    on_curve_F x1 y1 -> on_curve_F x2 y2 -> ~ x2 - x1 == 0 ->
    on_curve_F (fst (aff_add x1 y1 x2 y2)) (snd (aff_add x1 y1 x2 y2)).
  Proof.
    intros x1 y1 x2 y2 H1 H2 Hx. unfold on_curve_F in *.
    assert (Hb : b == y1 * y1 - x1 * x1 * x1 - a * x1) by (rewrite H1; ring).
    assert (Ha : a == (y2 * y2 - y1 * y1 - x2 * x2 * x2 + x1 * x1 * x1) / (x2 - x1)).
    { assert (E : a * (x2 - x1) == y2 * y2 - y1 * y1 - x2 * x2 * x2 + x1 * x1 * x1)
        by (rewrite H2, H1; ring).
      rewrite <- E. field; repeat split; assumption. }
    unfold aff_add; cbn [fst snd]. rewrite Hb. rewrite Ha. field; repeat split; assumption.
  Qed.

  Theorem aff_add_comm : forall x1 y1 x2 y2, ~ x2 - x1 == 0 ->
    fst (aff_add x1 y1 x2 y2) == fst (aff_add x2 y2 x1 y1) /\
    snd (aff_add x1 y1 x2 y2) == snd (aff_add x2 y2 x1 y1).
  Proof.
    intros x1 y1 x2 y2 Hx.
    assert (Hx' : ~ x1 - x2 == 0) by (intro H; apply Hx; transitivity (0 - (x1 - x2)); [ring|rewrite H; ring]).
    unfold aff_add; cbn [fst snd]. split; field; repeat split; assumption.
  Qed.

  (* x1 = x2 on the curve: y1 = y2 or y1 = -y2 *)
  Lemma same_x_ys : forall x1 y1 x2 y2,
    on_curve_F x1 y1 -> on_curve_F x2 y2 -> x1 == x2 -> (y1 - y2) * (y1 + y2) == 0.
  Proof.
    intros x1 y1 x2 y2 H1 H2 Hx. unfold on_curve_F in *.
    transitivity (y1 * y1 - y2 * y2); [ring|]. rewrite H1, H2, Hx. ring.
  Qed.
End Jac.
