(* Variable-point multiplication at the LIMB level: sm2P256ScalarMult with its table of small multiples,
   sm2P256SelectJacobianPoint on uint32 masks, PointAdd / PointSub on limbs and the mask-driven conditional copies.
   Theorem: the limb pipeline computes what the F_p-level model computes (under fe), for every digit list with
   |d| <= 15 (the recoding yields |d| <= 7), hence C03's ScalarMult theorem holds for the limb-level code. *)
From Coq Require Import ZArith NArith List Bool Lia.
From GmsmVerif Require Import Lib.Outcome EC.ECAffine EC.SM2Curve EC.P256Model Gen.SM2Params Gen.P256Tables Gen.P256Limbs
  EC.LimbModel EC.LimbProofs EC.LimbReduceFinal EC.LimbRefine EC.LimbPoint EC.LimbSelect EC.LimbScalar EC.WnafProofs.
Import ListNotations.
Open Scope Z_scope.

Notation limbs := (list N) (only parsing).
Definition zeroJ : jacL := (zeros9, zeros9, zeros9).

Lemma zeros9_loose : looseL zeros9.
Proof. apply looseLb_sound. reflexivity. Qed.
Lemma zeroJ_loose : looseJ zeroJ.
Proof. exact (conj zeros9_loose (conj zeros9_loose zeros9_loose)). Qed.
Lemma feJ_zeroJ : feJ zeroJ = jzero.
Proof. reflexivity. Qed.

(* func sm2P256SelectJacobianPoint(xOut, yOut, zOut, table *[16][3]fe, index): out = 0; for i = 1..15:
   out_c[j] |= table[i][c][j] & mask(i, index) *)
Definition sel9 (comp : jacL -> limbs) (table : list jacL) (index : N) : limbs :=
  map (fun j => select_word (fun i => nth j (comp (nth (N.to_nat i) table zeroJ)) 0%N) index) [0;1;2;3;4;5;6;7;8]%nat.

Definition SelectJacobianPoint_limbs (table : list jacL) (index : N) : jacL :=
  (sel9 (fun J => fst (fst J)) table index, sel9 (fun J => snd (fst J)) table index, sel9 (fun J => snd J) table index).

Lemma map_nth_9 : forall l : list N, length l = 9%nat -> map (fun j => nth j l 0%N) [0;1;2;3;4;5;6;7;8]%nat = l.
Proof.
  intros l H. destruct l as [|a0 [|a1 [|a2 [|a3 [|a4 [|a5 [|a6 [|a7 [|a8 [|? ?]]]]]]]]]]; try discriminate. reflexivity.
Qed.

Lemma words32_nth : forall l j, words32 l -> (nth j l 0 < W32)%N.
Proof.
  intros l j H. destruct (Nat.lt_ge_cases j (length l)) as [Hj|Hj].
  - unfold words32 in H. rewrite Forall_forall in H. apply H. apply nth_In. exact Hj.
  - rewrite nth_overflow by exact Hj. reflexivity.
Qed.

Lemma sel9_spec : forall comp table index, (index <= 15)%N ->
  (forall i, looseL (comp (nth i table zeroJ))) ->
  sel9 comp table index = if (index =? 0)%N then zeros9 else comp (nth (N.to_nat index) table zeroJ).
Proof.
  intros comp table index Hi HL. unfold sel9.
  assert (E : forall j, select_word (fun i => nth j (comp (nth (N.to_nat i) table zeroJ)) 0%N) index =
                        if (index =? 0)%N then 0%N else nth j (comp (nth (N.to_nat index) table zeroJ)) 0%N).
  { intros j. apply (select_word_spec (fun i => nth j (comp (nth (N.to_nat i) table zeroJ)) 0%N) index Hi).
    intros i. apply words32_nth.
    apply (looseL_words _ (HL (N.to_nat i))). }
  rewrite (map_ext _ _ E).
  destruct (index =? 0)%N; [reflexivity|].
  apply map_nth_9. apply (looseL_words _ (HL (N.to_nat index))).
Qed.

Theorem SelectJacobianPoint_limbs_spec : forall table index, (index <= 15)%N ->
  (forall i, looseJ (nth i table zeroJ)) ->
  SelectJacobianPoint_limbs table index = if (index =? 0)%N then zeroJ else nth (N.to_nat index) table zeroJ.
Proof.
  intros table index Hi HL. unfold SelectJacobianPoint_limbs.
  rewrite !sel9_spec by (try exact Hi; intros i; apply (HL i)).
  destruct (index =? 0)%N; [reflexivity|].
  destruct (nth (N.to_nat index) table zeroJ) as [[x y] z]. reflexivity.
Qed.

(* ---------- the table of small multiples --------------------------------------------------------------------------- *)
Definition scalarMult_precomp_limbs (X Y : limbs) : list jacL :=
  let p1 := (X, Y, factor_limbs 1) in
  let p2 := PointDouble_limbs p1 in
  let p3 := PointAddMixed_limbs p2 X Y in
  let p4 := PointDouble_limbs p2 in
  let p5 := PointAddMixed_limbs p4 X Y in
  let p6 := PointDouble_limbs p3 in
  let p7 := PointAddMixed_limbs p6 X Y in
  [zeroJ; p1; p2; p3; p4; p5; p6; p7; zeroJ; zeroJ; zeroJ; zeroJ; zeroJ; zeroJ; zeroJ; zeroJ].

Notation precompF := (scalarMult_precomp gen_curve gen_RInverse gen_sm2P256Factor).

Lemma precomp_sim : forall X Y, looseL X -> looseL Y ->
  (forall i, looseJ (nth i (scalarMult_precomp_limbs X Y) zeroJ)) /\
  (forall i, feJ (nth i (scalarMult_precomp_limbs X Y) zeroJ) = nth i (precompF (fe X) (fe Y)) jzero).
Proof.
  intros X Y LX LY. unfold scalarMult_precomp_limbs, scalarMult_precomp.
  destruct (factor_limbs_ok 1 ltac:(lia)) as [Lf Ef].
  set (p1 := (X, Y, factor_limbs 1)).
  assert (L1 : looseJ p1) by exact (conj LX (conj LY Lf)).
  assert (E1 : feJ p1 = (fe X, fe Y, factor gen_curve gen_RInverse gen_sm2P256Factor 1)).
  { unfold feJ, p1; cbn [fst snd]. rewrite Ef, (factor_model 1 ltac:(lia)). reflexivity. }
  destruct (PointDouble_limbs_correct p1 L1) as [L2 E2]. rewrite E1 in E2.
  destruct (PointAddMixed_limbs_correct _ X Y L2 LX LY) as [L3 E3]. rewrite E2 in E3.
  destruct (PointDouble_limbs_correct _ L2) as [L4 E4]. rewrite E2 in E4.
  destruct (PointAddMixed_limbs_correct _ X Y L4 LX LY) as [L5 E5]. rewrite E4 in E5.
  destruct (PointDouble_limbs_correct _ L3) as [L6 E6]. rewrite E3 in E6.
  destruct (PointAddMixed_limbs_correct _ X Y L6 LX LY) as [L7 E7]. rewrite E6 in E7.
  split; intros i; do 16 (destruct i as [|i]; [first [assumption|exact zeroJ_loose|exact feJ_zeroJ]|]);
    destruct i; first [exact zeroJ_loose|exact feJ_zeroJ].
Qed.

(* ---------- the loop ---------------------------------------------------------------------------------------------------- *)
Definition double_n_limbs (k : nat) (acc : jacL) : jacL := Nat.iter k PointDouble_limbs acc.

Definition copyJ (out inp : jacL) (mask : N) : jacL :=
  (CopyConditional_limbs (fst (fst out)) (fst (fst inp)) mask,
   CopyConditional_limbs (snd (fst out)) (snd (fst inp)) mask,
   CopyConditional_limbs (snd out) (snd inp) mask).

Fixpoint scalarMult_loop_limbs (precomp : list jacL) (scalar : list Z) (acc : jacL) (nMask : N) (zeroes : nat)
  : jacL * nat :=
  match scalar with
  | [] => (acc, zeroes)
  | d :: rest =>
    if d =? 0 then scalarMult_loop_limbs precomp rest acc nMask (S zeroes)
    else
      let acc := double_n_limbs zeroes acc in
      let index := Z.to_N (Z.abs d) in                      (* abs(scalar[i]) as uint32 *)
      let acc := PointDouble_limbs acc in
      let '(px, py, pz) := SelectJacobianPoint_limbs precomp index in
      let '(t, py) :=
        if 0 <? d then (PointAdd_limbs acc (px, py, pz), py)
        else PointSub_limbs acc (px, py, pz) in
      let acc := copyJ acc (px, py, pz) nMask in
      let pMask := nonZeroToAllOnes_w index in
      let mask := N.land pMask (not32 nMask) in
      let acc := copyJ acc t mask in
      let nMask := N.land nMask (not32 pMask) in
      scalarMult_loop_limbs precomp rest acc nMask O
  end.

Definition sm2P256ScalarMult_limbs (X Y : limbs) (scalar : list Z) : jacL :=
  let precomp := scalarMult_precomp_limbs X Y in
  let '(acc, zeroes) := scalarMult_loop_limbs precomp scalar zeroJ ones32 O in
  double_n_limbs zeroes acc.

Lemma double_n_sim : forall k acc, looseJ acc ->
  looseJ (double_n_limbs k acc) /\
  feJ (double_n_limbs k acc) = double_n gen_curve gen_RInverse gen_sm2P256Factor k (feJ acc).
Proof.
  induction k as [|k IH]; intros acc L; [split; [exact L|reflexivity]|].
  change (double_n_limbs (S k) acc) with (PointDouble_limbs (double_n_limbs k acc)).
  change (double_n gen_curve gen_RInverse gen_sm2P256Factor (S k) (feJ acc)) with
    (PointDouble_model (double_n gen_curve gen_RInverse gen_sm2P256Factor k (feJ acc))).
  destruct (IH acc L) as [Lk Ek]. destruct (PointDouble_limbs_correct _ Lk) as [L' E'].
  split; [exact L'|]. rewrite E', Ek. reflexivity.
Qed.

Lemma copyJ_loose : forall out inp (b : bool), looseJ out -> looseJ inp ->
  copyJ out inp (mask_of b) = if b then inp else out.
Proof.
  intros [[ox oy] oz] [[ix iy] iz] b (L1 & L2 & L3) (M1 & M2 & M3). cbn [fst snd] in *.
  unfold copyJ, mask_of. cbn [fst snd].
  rewrite (CopyConditional_loose ox ix b L1 M1), (CopyConditional_loose oy iy b L2 M2),
          (CopyConditional_loose oz iz b L3 M3).
  destruct b; reflexivity.
Qed.

Notation loopMF := (scalarMult_loop gen_curve gen_RInverse gen_sm2P256Factor).

Lemma loop_sim_M : forall X Y, looseL X -> looseL Y ->
  forall scalar acc accf (nI : bool) zeroes,
  Forall (fun d => Z.abs d <= 15) scalar ->
  looseJ acc -> feJ acc = accf ->
  let '(accL, zL) := scalarMult_loop_limbs (scalarMult_precomp_limbs X Y) scalar acc (mask_of nI) zeroes in
  let '(accF, zF) := loopMF (precompF (fe X) (fe Y)) scalar accf nI zeroes in
  looseJ accL /\ feJ accL = accF /\ zL = zF.
Proof.
  intros X Y LX LY. destruct (precomp_sim X Y LX LY) as [PL PE].
  induction scalar as [|d rest IH]; intros acc accf nI zeroes HF L E.
  - cbn [scalarMult_loop_limbs scalarMult_loop]. split; [exact L|]. split; [exact E|reflexivity].
  - inversion HF as [|d' r' Hd HF']; subst d' r'.
    cbn [scalarMult_loop_limbs scalarMult_loop].
    destruct (d =? 0) eqn:Ed0; [apply IH; assumption|].
    apply Z.eqb_neq in Ed0.
    destruct (double_n_sim zeroes acc L) as [L1 E1]. rewrite E in E1.
    destruct (PointDouble_limbs_correct _ L1) as [L2 E2]. rewrite E1 in E2.
    set (acc2 := PointDouble_limbs (double_n_limbs zeroes acc)) in *.
    change (sm2P256PointDouble gen_curve gen_RInverse gen_sm2P256Factor
              (double_n gen_curve gen_RInverse gen_sm2P256Factor zeroes accf))
      with (PointDouble_model (double_n gen_curve gen_RInverse gen_sm2P256Factor zeroes accf)).
    set (acc2f := PointDouble_model (double_n gen_curve gen_RInverse gen_sm2P256Factor zeroes accf)) in *.
    assert (Hidx : (Z.to_N (Z.abs d) <= 15)%N) by lia.
    assert (Hnz : (Z.to_N (Z.abs d) =? 0)%N = false) by (apply N.eqb_neq; lia).
    rewrite (SelectJacobianPoint_limbs_spec _ _ Hidx PL), Hnz.
    unfold sm2P256SelectJacobianPoint.
    replace ((1 <=? Z.abs d) && (Z.abs d <? 16))%bool with true
      by (symmetry; apply andb_true_iff; split; [apply Z.leb_le|apply Z.ltb_lt]; lia).
    pose proof (PL (Z.to_nat (Z.abs d))) as Lp. pose proof (PE (Z.to_nat (Z.abs d))) as Ep.
    replace (N.to_nat (Z.to_N (Z.abs d))) with (Z.to_nat (Z.abs d)) by lia.
    destruct (nth (Z.to_nat (Z.abs d)) (scalarMult_precomp_limbs X Y) zeroJ) as [[px py] pz].
    destruct (nth (Z.to_nat (Z.abs d)) (precompF (fe X) (fe Y)) jzero) as [[pxf pyf] pzf].
    unfold feJ in Ep; cbn [fst snd] in Ep. injection Ep as Epx Epy Epz.
    assert (HpM : nonZeroToAllOnes_w (Z.to_N (Z.abs d)) = mask_of (negb (Z.abs d =? 0))).
    { pose proof nonZeroToAllOnes_spec as H. rewrite forallb_forall in H.
      assert (Hin : In (Z.to_N (Z.abs d)) [0;1;2;3;4;5;6;7;8;9;10;11;12;13;14;15]%N).
      { assert (Hc : Z.abs d = 1 \/ Z.abs d = 2 \/ Z.abs d = 3 \/ Z.abs d = 4 \/ Z.abs d = 5 \/ Z.abs d = 6 \/ Z.abs d = 7 \/
                     Z.abs d = 8 \/ Z.abs d = 9 \/ Z.abs d = 10 \/ Z.abs d = 11 \/ Z.abs d = 12 \/ Z.abs d = 13 \/
                     Z.abs d = 14 \/ Z.abs d = 15) by lia.
        repeat (destruct Hc as [->|Hc]; [cbn; tauto|]). rewrite Hc. cbn; tauto. }
      specialize (H _ Hin). apply N.eqb_eq in H. rewrite H, Hnz.
      destruct (Z.eqb_spec (Z.abs d) 0); [lia|reflexivity]. }
    rewrite HpM.
    replace (negb (Z.abs d =? 0)) with true in * by (symmetry; apply negb_true_iff; apply Z.eqb_neq; lia).
    destruct (mask_algebra nI true) as [M1 M2]. rewrite M1, M2. cbn [andb negb].
    rewrite andb_false_r.
    destruct (0 <? d).
    + (* PointAdd *)
      destruct (PointAdd_limbs_correct acc2 (px, py, pz) L2 Lp) as [Lt Et].
      change (feJ (px, py, pz)) with (fe px, fe py, fe pz) in Et. rewrite E2, Epx, Epy, Epz in Et.
      rewrite (copyJ_loose acc2 (px, py, pz) nI L2 Lp).
      assert (Lc : looseJ (if nI then (px, py, pz) else acc2)) by (destruct nI; assumption).
      rewrite (copyJ_loose _ _ (negb nI) Lc Lt).
      change (mask_of false) with (mask_of false).
      apply (IH _ _ false O HF').
      * destruct nI; cbn [negb]; assumption.
      * destruct nI; cbn [negb].
        -- unfold feJ; cbn [fst snd]. rewrite Epx, Epy, Epz. reflexivity.
        -- exact Et.
    + (* PointSub: y of the selected entry is negated in place *)
      destruct (PointSub_limbs_correct acc2 (px, py, pz) L2 Lp) as (Lt & Ly' & Et & Ey').
      change (feJ (px, py, pz)) with (fe px, fe py, fe pz) in Et, Ey'.
      rewrite E2, Epx, Epy, Epz in Et. rewrite E2, Epx, Epy, Epz in Ey'.
      destruct (PointSub_limbs acc2 (px, py, pz)) as [t py'] eqn:ES. cbn [fst snd] in *.
      destruct (sm2P256PointSub gen_curve gen_RInverse gen_sm2P256Factor acc2f (pxf, pyf, pzf)) as [tf pyf'] eqn:ESf.
      change (PointSub_model acc2f (pxf, pyf, pzf)) with
        (sm2P256PointSub gen_curve gen_RInverse gen_sm2P256Factor acc2f (pxf, pyf, pzf)) in *.
      rewrite ESf in Et, Ey'. cbn [fst snd] in Et, Ey'.
      destruct Lp as (Lpx & _ & Lpz). cbn [fst snd] in *.
      assert (Lp' : looseJ (px, py', pz)) by exact (conj Lpx (conj Ly' Lpz)).
      rewrite (copyJ_loose acc2 (px, py', pz) nI L2 Lp').
      assert (Lc : looseJ (if nI then (px, py', pz) else acc2)) by (destruct nI; assumption).
      rewrite (copyJ_loose _ _ (negb nI) Lc Lt).
      apply (IH _ _ false O HF').
      * destruct nI; cbn [negb]; assumption.
      * destruct nI; cbn [negb].
        -- unfold feJ; cbn [fst snd]. rewrite Epx, Ey', Epz. reflexivity.
        -- exact Et.
Qed.

Theorem sm2P256ScalarMult_limbs_correct : forall X Y scalar, looseL X -> looseL Y ->
  Forall (fun d => Z.abs d <= 15) scalar ->
  looseJ (sm2P256ScalarMult_limbs X Y scalar) /\
  feJ (sm2P256ScalarMult_limbs X Y scalar) =
    sm2P256ScalarMult gen_curve gen_RInverse gen_sm2P256Factor (fe X) (fe Y) scalar.
Proof.
  intros X Y scalar LX LY HF. unfold sm2P256ScalarMult_limbs, sm2P256ScalarMult.
  pose proof (loop_sim_M X Y LX LY scalar zeroJ jzero true O HF zeroJ_loose feJ_zeroJ) as H.
  change (mask_of true) with ones32 in H.
  destruct (scalarMult_loop_limbs (scalarMult_precomp_limbs X Y) scalar zeroJ ones32 0) as [accL zL].
  destruct (loopMF (precompF (fe X) (fe Y)) scalar jzero true 0) as [accF zF].
  destruct H as (L & E & ->).
  destruct (double_n_sim zF accL L) as [L' E']. split; [exact L'|]. rewrite E', E. reflexivity.
Qed.

(* func (curve sm2P256Curve) ScalarMult(x1, y1, k) on the limb pipeline *)
Definition ScalarMult_limbs (x1 y1 : Z) (k : list N) : outcome (Z * Z) :=
  let X1 := sm2P256FromBig_limbs x1 in
  let Y1 := sm2P256FromBig_limbs y1 in
  do scalar <- sm2GenrateWNaf gen_N k;
  Ok (sm2P256ToAffine_limbs (sm2P256ScalarMult_limbs X1 Y1 (WNafReversed scalar))).

Theorem ScalarMult_limbs_is_model : forall x1 y1 k, ScalarMult_limbs x1 y1 k = ScalarMult_model x1 y1 k.
Proof.
  intros x1 y1 k. unfold ScalarMult_limbs, ScalarMult_model, ScalarMult.
  destruct (wnaf_spec gen_N k ltac:(reflexivity)) as (ds & E & _ & HF & _).
  rewrite E. cbn [obind]. f_equal.
  destruct (fe_FromBig x1) as [LX EX]. destruct (fe_FromBig y1) as [LY EY].
  assert (HF' : Forall (fun d => Z.abs d <= 15) (WNafReversed ds)).
  { unfold WNafReversed. apply Forall_forall. intros d Hd. apply in_rev in Hd.
    rewrite Forall_forall in HF. destruct (HF d Hd) as [->|[_ Hr]]; lia. }
  destruct (sm2P256ScalarMult_limbs_correct _ _ _ LX LY HF') as [L Ec].
  rewrite (sm2P256ToAffine_limbs_correct _ L), Ec, EX, EY. reflexivity.
Qed.
